import BlockCiphers.Prelude.Bytes
/-
BelT in the terms of STB 34.101.31-2020.

§6.1 (belt-block): words are 32-bit, octet strings are read little-endian (`u = u1‖u2‖u3‖u4` is the
number `u1 + 2⁸u2 + 2¹⁶u3 + 2²⁴u4`); `⊞`, `⊟` are addition / subtraction mod 2³²; `RotHi^r` is the cyclic
shift towards the high bits; `G_r(u) = RotHi^r(H(u1)‖H(u2)‖H(u3)‖H(u4))`; the key `θ = θ1‖…‖θ8`, round keys
`k[j] = θ_{((j−1) mod 8)+1}`, `j = 1 … 56`; eight rounds of the steps quoted in the comments of
/repo/belt-block/src/lib.rs (encryption, §6.1.3) and cipher_impl.rs (decryption, §6.1.4).

§6.2.3 / §6.2.4 (belt-wblock, wide block): `X` of `|X| ≥ 32` octets, `n = ⌈|X|/16⌉`, `r = r1‖…‖rn` with
full 16-octet blocks `r1 … r_{n−1}`, `r*` = the last 16 octets of `r`;
  encryption, for i = 1 … 2n:  s ← r1 ⊕ … ⊕ r_{n−1};  r* ← r* ⊕ belt-block(s, K) ⊕ ⟨i⟩₁₂₈;
                               r ← ShLo¹²⁸(r);  r* ← s
  decryption, for i = 2n … 1:  s ← r*;  r ← ShHi¹²⁸(r);  r* ← r* ⊕ belt-block(s, K) ⊕ ⟨i⟩₁₂₈;
                               r1 ← s ⊕ r2 ⊕ … ⊕ r_{n−1}
(`ShLo¹²⁸` drops the first 16 octets and appends 16 zero octets, `ShHi¹²⁸` is the opposite shift; `⟨i⟩₁₂₈`
is the 16-octet little-endian representation of `i`.)

The substitution `H` is a frozen table (STB 34.101.31 Table 1; the copy in the `#[cfg(test)]` module of
/repo/belt-block/src/consts.rs was compared entry by entry).
-/
namespace BC.Spec.Belt

/-- Table 1: the substitution `H` (row = high nibble, column = low nibble) -/
def H : Array (BitVec 8) := #[
  0xB1#8, 0x94#8, 0xBA#8, 0xC8#8, 0x0A#8, 0x08#8, 0xF5#8, 0x3B#8, 0x36#8, 0x6D#8, 0x00#8, 0x8E#8, 0x58#8, 0x4A#8, 0x5D#8, 0xE4#8,
  0x85#8, 0x04#8, 0xFA#8, 0x9D#8, 0x1B#8, 0xB6#8, 0xC7#8, 0xAC#8, 0x25#8, 0x2E#8, 0x72#8, 0xC2#8, 0x02#8, 0xFD#8, 0xCE#8, 0x0D#8,
  0x5B#8, 0xE3#8, 0xD6#8, 0x12#8, 0x17#8, 0xB9#8, 0x61#8, 0x81#8, 0xFE#8, 0x67#8, 0x86#8, 0xAD#8, 0x71#8, 0x6B#8, 0x89#8, 0x0B#8,
  0x5C#8, 0xB0#8, 0xC0#8, 0xFF#8, 0x33#8, 0xC3#8, 0x56#8, 0xB8#8, 0x35#8, 0xC4#8, 0x05#8, 0xAE#8, 0xD8#8, 0xE0#8, 0x7F#8, 0x99#8,
  0xE1#8, 0x2B#8, 0xDC#8, 0x1A#8, 0xE2#8, 0x82#8, 0x57#8, 0xEC#8, 0x70#8, 0x3F#8, 0xCC#8, 0xF0#8, 0x95#8, 0xEE#8, 0x8D#8, 0xF1#8,
  0xC1#8, 0xAB#8, 0x76#8, 0x38#8, 0x9F#8, 0xE6#8, 0x78#8, 0xCA#8, 0xF7#8, 0xC6#8, 0xF8#8, 0x60#8, 0xD5#8, 0xBB#8, 0x9C#8, 0x4F#8,
  0xF3#8, 0x3C#8, 0x65#8, 0x7B#8, 0x63#8, 0x7C#8, 0x30#8, 0x6A#8, 0xDD#8, 0x4E#8, 0xA7#8, 0x79#8, 0x9E#8, 0xB2#8, 0x3D#8, 0x31#8,
  0x3E#8, 0x98#8, 0xB5#8, 0x6E#8, 0x27#8, 0xD3#8, 0xBC#8, 0xCF#8, 0x59#8, 0x1E#8, 0x18#8, 0x1F#8, 0x4C#8, 0x5A#8, 0xB7#8, 0x93#8,
  0xE9#8, 0xDE#8, 0xE7#8, 0x2C#8, 0x8F#8, 0x0C#8, 0x0F#8, 0xA6#8, 0x2D#8, 0xDB#8, 0x49#8, 0xF4#8, 0x6F#8, 0x73#8, 0x96#8, 0x47#8,
  0x06#8, 0x07#8, 0x53#8, 0x16#8, 0xED#8, 0x24#8, 0x7A#8, 0x37#8, 0x39#8, 0xCB#8, 0xA3#8, 0x83#8, 0x03#8, 0xA9#8, 0x8B#8, 0xF6#8,
  0x92#8, 0xBD#8, 0x9B#8, 0x1C#8, 0xE5#8, 0xD1#8, 0x41#8, 0x01#8, 0x54#8, 0x45#8, 0xFB#8, 0xC9#8, 0x5E#8, 0x4D#8, 0x0E#8, 0xF2#8,
  0x68#8, 0x20#8, 0x80#8, 0xAA#8, 0x22#8, 0x7D#8, 0x64#8, 0x2F#8, 0x26#8, 0x87#8, 0xF9#8, 0x34#8, 0x90#8, 0x40#8, 0x55#8, 0x11#8,
  0xBE#8, 0x32#8, 0x97#8, 0x13#8, 0x43#8, 0xFC#8, 0x9A#8, 0x48#8, 0xA0#8, 0x2A#8, 0x88#8, 0x5F#8, 0x19#8, 0x4B#8, 0x09#8, 0xA1#8,
  0x7E#8, 0xCD#8, 0xA4#8, 0xD0#8, 0x15#8, 0x44#8, 0xAF#8, 0x8C#8, 0xA5#8, 0x84#8, 0x50#8, 0xBF#8, 0x66#8, 0xD2#8, 0xE8#8, 0x8A#8,
  0xA2#8, 0xD7#8, 0x46#8, 0x52#8, 0x42#8, 0xA8#8, 0xDF#8, 0xB3#8, 0x69#8, 0x74#8, 0xC5#8, 0x51#8, 0xEB#8, 0x23#8, 0x29#8, 0x21#8,
  0xD4#8, 0xEF#8, 0xD9#8, 0xB4#8, 0x3A#8, 0x62#8, 0x28#8, 0x75#8, 0x91#8, 0x14#8, 0x10#8, 0xEA#8, 0x77#8, 0x6C#8, 0xDA#8, 0x1D#8]

def h (x : BitVec 8) : BitVec 8 := H.getD x.toNat 0

/-- `RotHi^r` on 32-bit words -/
def RotHi (r : Nat) (u : BitVec 32) : BitVec 32 := u.rotateLeft r

/-- `G_r(u) = RotHi^r(H(u1) ‖ H(u2) ‖ H(u3) ‖ H(u4))`; `u1` is the low octet of the word -/
def G (r : Nat) (u : BitVec 32) : BitVec 32 :=
  RotHi r (h (u.extractLsb' 24 8) ++ h (u.extractLsb' 16 8) ++ h (u.extractLsb' 8 8) ++ h (u.extractLsb' 0 8))

/-- the word of a 4-octet string (little-endian), octets taken from a big-endian-packed `BitVec` -/
def wordAt {w : Nat} (X : BitVec w) (n i : Nat) : BitVec 32 :=
  bswap32 ((X >>> (8 * (n - 4 * (i + 1)))).setWidth 32)

/-- `θ_i`, `i = 1 … 8`, of a 32-octet key -/
def θ (K : BitVec 256) (i : Nat) : BitVec 32 := wordAt K 32 (i - 1)

/-- round key `k[j]`, `j = 1 … 56`: `θ1, …, θ8` repeated -/
def k (K : BitVec 256) (j : Nat) : BitVec 32 := θ K ((j - 1) % 8 + 1)

structure St where
  a : BitVec 32
  b : BitVec 32
  c : BitVec 32
  d : BitVec 32

/-- §6.1.3 step 2, round `i` -/
def encRound (K : BitVec 256) (i : Nat) (s : St) : St :=
  let a := s.a; let b := s.b; let c := s.c; let d := s.d
  let b := b ^^^ G 5 (a + k K (7 * i - 6))            -- 1) b ← b ⊕ G5(a ⊞ k[7i−6])
  let c := c ^^^ G 21 (d + k K (7 * i - 5))           -- 2) c ← c ⊕ G21(d ⊞ k[7i−5])
  let a := a - G 13 (b + k K (7 * i - 4))             -- 3) a ← a ⊟ G13(b ⊞ k[7i−4])
  let e := G 21 (b + c + k K (7 * i - 3)) ^^^ BitVec.ofNat 32 i   -- 4) e ← G21(b ⊞ c ⊞ k[7i−3]) ⊕ ⟨i⟩32
  let b := b + e                                       -- 5) b ← b ⊞ e
  let c := c - e                                       -- 6) c ← c ⊟ e
  let d := d + G 13 (c + k K (7 * i - 2))             -- 7) d ← d ⊞ G13(c ⊞ k[7i−2])
  let b := b ^^^ G 21 (a + k K (7 * i - 1))           -- 8) b ← b ⊕ G21(a ⊞ k[7i−1])
  let c := c ^^^ G 5 (d + k K (7 * i))                -- 9) c ← c ⊕ G5(d ⊞ k[7i])
  let (a, b) := (b, a)                                 -- 10) a ↔ b
  let (c, d) := (d, c)                                 -- 11) c ↔ d
  let (b, c) := (c, b)                                 -- 12) b ↔ c
  { a := a, b := b, c := c, d := d }

/-- §6.1.4 step 2, round `i` -/
def decRound (K : BitVec 256) (i : Nat) (s : St) : St :=
  let a := s.a; let b := s.b; let c := s.c; let d := s.d
  let b := b ^^^ G 5 (a + k K (7 * i))                -- 1) b ← b ⊕ G5(a ⊞ k[7i])
  let c := c ^^^ G 21 (d + k K (7 * i - 1))           -- 2) c ← c ⊕ G21(d ⊞ k[7i−1])
  let a := a - G 13 (b + k K (7 * i - 2))             -- 3) a ← a ⊟ G13(b ⊞ k[7i−2])
  let e := G 21 (b + c + k K (7 * i - 3)) ^^^ BitVec.ofNat 32 i   -- 4)
  let b := b + e                                       -- 5)
  let c := c - e                                       -- 6)
  let d := d + G 13 (c + k K (7 * i - 4))             -- 7) d ← d ⊞ G13(c ⊞ k[7i−4])
  let b := b ^^^ G 21 (a + k K (7 * i - 5))           -- 8) b ← b ⊕ G21(a ⊞ k[7i−5])
  let c := c ^^^ G 5 (d + k K (7 * i - 6))            -- 9) c ← c ⊕ G5(d ⊞ k[7i−6])
  let (a, b) := (b, a)                                 -- 10) a ↔ b
  let (c, d) := (d, c)                                 -- 11) c ↔ d
  let (a, d) := (d, a)                                 -- 12) a ↔ d
  { a := a, b := b, c := c, d := d }

/-- `X = a ‖ b ‖ c ‖ d` -/
def split (X : BitVec 128) : St :=
  { a := wordAt X 16 0, b := wordAt X 16 1, c := wordAt X 16 2, d := wordAt X 16 3 }

/-- the octet string `w1 ‖ w2 ‖ w3 ‖ w4` of four words -/
def join (w1 w2 w3 w4 : BitVec 32) : BitVec 128 := bswap32 w1 ++ bswap32 w2 ++ bswap32 w3 ++ bswap32 w4

/-- belt-block encryption: rounds `i = 1, …, 8`, `Y ← b ‖ d ‖ a ‖ c` -/
def blockEnc (K : BitVec 256) (X : BitVec 128) : BitVec 128 :=
  let s := [1, 2, 3, 4, 5, 6, 7, 8].foldl (fun s i => encRound K i s) (split X)
  join s.b s.d s.a s.c

/-- belt-block decryption: rounds `i = 8, …, 1`, `X ← c ‖ a ‖ d ‖ b` -/
def blockDec (K : BitVec 256) (Y : BitVec 128) : BitVec 128 :=
  let s := [8, 7, 6, 5, 4, 3, 2, 1].foldl (fun s i => decRound K i s) (split Y)
  join s.c s.a s.d s.b

/-! ### belt-wblock -/

/-- belt-block on a 16-octet string -/
def blockEncBytes (K : BitVec 256) (s : Bytes) : Bytes := unpackBE 16 (blockEnc K (packBE 16 s))

/-- `u ⊕ v` for octet strings of equal length -/
def xorB (u v : Bytes) : Bytes := List.zipWith (· ^^^ ·) u v

/-- block `r_{j+1}` (`j = 0, 1, …`) -/
def blockAt (r : Bytes) (j : Nat) : Bytes := (r.drop (16 * j)).take 16

/-- `r*`: the last 16 octets -/
def lastBlock (r : Bytes) : Bytes := r.drop (r.length - 16)

/-- `r* ← v` -/
def setLastBlock (r v : Bytes) : Bytes := r.take (r.length - 16) ++ v

/-- `r1 ← v` -/
def setFirstBlock (r v : Bytes) : Bytes := v ++ r.drop 16

/-- `ShLo¹²⁸` -/
def shLo128 (r : Bytes) : Bytes := r.drop 16 ++ List.replicate 16 0#8

/-- `ShHi¹²⁸` -/
def shHi128 (r : Bytes) : Bytes := List.replicate 16 0#8 ++ r.take (r.length - 16)

/-- `⟨i⟩₁₂₈`: sixteen octets, little-endian -/
def ctr128 (i : Nat) : Bytes := (unpackBE 16 (BitVec.ofNat 128 i)).reverse

/-- `acc ⊕ r_{lo+1} ⊕ … ⊕ r_{hi}` (blocks with 0-based indices `lo ≤ j < hi`) -/
def xorBlocks (r : Bytes) (lo hi : Nat) (acc : Bytes) : Bytes :=
  (List.range' lo (hi - lo)).foldl (fun acc j => xorB acc (blockAt r j)) acc

def numBlocks (X : Bytes) : Nat := (X.length + 15) / 16

/-- one round of §6.2.3 -/
def wEncRound (K : BitVec 256) (n i : Nat) (r : Bytes) : Bytes :=
  let s := xorBlocks r 1 (n - 1) (blockAt r 0)                                  -- s ← r1 ⊕ … ⊕ r_{n−1}
  let r := setLastBlock r (xorB (xorB (lastBlock r) (blockEncBytes K s)) (ctr128 i))
  let r := shLo128 r
  setLastBlock r s

/-- one round of §6.2.4 -/
def wDecRound (K : BitVec 256) (n i : Nat) (r : Bytes) : Bytes :=
  let s := lastBlock r
  let r := shHi128 r
  let r := setLastBlock r (xorB (xorB (lastBlock r) (blockEncBytes K s)) (ctr128 i))
  setFirstBlock r (xorBlocks r 1 (n - 1) s)                                      -- r1 ← s ⊕ r2 ⊕ … ⊕ r_{n−1}

/-- belt-wblock encryption (defined for `|X| ≥ 32`) -/
def wblockEnc (K : BitVec 256) (X : Bytes) : Bytes :=
  let n := numBlocks X
  (List.range' 1 (2 * n)).foldl (fun r i => wEncRound K n i r) X

/-- belt-wblock decryption -/
def wblockDec (K : BitVec 256) (Y : Bytes) : Bytes :=
  let n := numBlocks Y
  (List.range' 1 (2 * n)).reverse.foldl (fun r i => wDecRound K n i r) Y

end BC.Spec.Belt
