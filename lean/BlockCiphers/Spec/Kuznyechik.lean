import BlockCiphers.Prelude.Bytes
/-
Kuznyechik as specified in GOST R 34.12-2015 (= GOST 34.12-2018, RFC 7801), in the standard's terms.

A 128-bit string a = a15 || a14 || … || a0 (a_i ∈ V8) is a `BitVec 128` whose most significant byte is
a15, so the hexadecimal strings printed in the standard read as the hexadecimal value of the `BitVec`.

§4.1.1  π  : V8 → V8   (frozen table, decimal as printed in the standard), π⁻¹ its inverse (computed by
        search, not copied);
§4.1.2  ℓ  : V8^16 → V8, ℓ(a15,…,a0) = ∇(148·Δ(a15) + 32·Δ(a14) + 133·Δ(a13) + 16·Δ(a12) + 194·Δ(a11) +
        192·Δ(a10) + 1·Δ(a9) + 251·Δ(a8) + 1·Δ(a7) + 192·Δ(a6) + 194·Δ(a5) + 16·Δ(a4) + 133·Δ(a3) +
        32·Δ(a2) + 148·Δ(a1) + 1·Δ(a0)) over GF(2)[x]/(x^8+x^7+x^6+x+1);
§4.2    X[k](a) = k ⊕ a;  S = π on every byte;  R(a) = ℓ(a15,…,a0) || a15 || … || a1;  L = R^16;
        the inverses S⁻¹, R⁻¹(a) = a14 || … || a0 || ℓ(a14,…,a0,a15), L⁻¹ = (R⁻¹)^16;
        F[k](a1,a0) = (LSX[k](a1) ⊕ a0, a1);
§4.3    C_i = L(Vec128(i)), i = 1..32;  K1 || K2 = K;
        (K_{2i+1}, K_{2i+2}) = F[C_{8(i−1)+8}] … F[C_{8(i−1)+1}] (K_{2i−1}, K_{2i}), i = 1..4;
§4.4    E(a) = X[K10] LSX[K9] … LSX[K2] LSX[K1] (a);
        D(a) = X[K1] S⁻¹L⁻¹X[K2] … S⁻¹L⁻¹X[K9] S⁻¹L⁻¹X[K10] (a).
-/
namespace BC.Spec.Kuznyechik

/-- §4.1.1: π' = (π(0), π(1), …, π(255)) -/
def PiTable : Array (BitVec 8) := #[
  252, 238, 221, 17, 207, 110, 49, 22, 251, 196, 250, 218, 35, 197, 4, 77,
  233, 119, 240, 219, 147, 46, 153, 186, 23, 54, 241, 187, 20, 205, 95, 193,
  249, 24, 101, 90, 226, 92, 239, 33, 129, 28, 60, 66, 139, 1, 142, 79,
  5, 132, 2, 174, 227, 106, 143, 160, 6, 11, 237, 152, 127, 212, 211, 31,
  235, 52, 44, 81, 234, 200, 72, 171, 242, 42, 104, 162, 253, 58, 206, 204,
  181, 112, 14, 86, 8, 12, 118, 18, 191, 114, 19, 71, 156, 183, 93, 135,
  21, 161, 150, 41, 16, 123, 154, 199, 243, 145, 120, 111, 157, 158, 178, 177,
  50, 117, 25, 61, 255, 53, 138, 126, 109, 84, 198, 128, 195, 189, 13, 87,
  223, 245, 36, 169, 62, 168, 67, 201, 215, 121, 214, 246, 124, 34, 185, 3,
  224, 15, 236, 222, 122, 148, 176, 188, 220, 232, 40, 80, 78, 51, 10, 74,
  167, 151, 96, 115, 30, 0, 98, 68, 26, 184, 56, 130, 100, 159, 38, 65,
  173, 69, 70, 146, 39, 94, 85, 47, 140, 163, 165, 125, 105, 213, 149, 59,
  7, 88, 179, 64, 134, 172, 29, 247, 48, 55, 107, 228, 136, 217, 231, 137,
  225, 27, 131, 73, 76, 63, 248, 254, 141, 83, 170, 144, 202, 216, 133, 97,
  32, 113, 103, 164, 45, 43, 9, 91, 203, 155, 37, 208, 190, 229, 108, 82,
  89, 166, 116, 210, 230, 244, 180, 192, 209, 102, 175, 194, 57, 75, 99, 182]

theorem PiTable_size : PiTable.size = 256 := by decide +kernel

def pi (x : BitVec 8) : BitVec 8 := PiTable[x.toNat]'(by rw [PiTable_size]; exact x.isLt)

/-- π⁻¹ by search: the first `x` with `π x = y` (0 if there were none) -/
def piInv (y : BitVec 8) : BitVec 8 :=
  match (List.range 256).find? (fun n => pi (BitVec.ofNat 8 n) == y) with
  | some n => BitVec.ofNat 8 n
  | none => 0#8

/-! ### the field GF(2)[x]/p(x), p(x) = x^8 + x^7 + x^6 + x + 1 (0x1C3); Δ/∇ identify a byte with the
polynomial whose coefficients are its bits -/

/-- product in GF(2)[x] of two polynomials of degree < 8: Σ_i b_i · (a · x^i) -/
def clmul (a b : BitVec 8) : BitVec 16 :=
  (List.range 8).foldl
    (fun (acc : BitVec 16) (i : Nat) =>
      acc ^^^ (if (b >>> i) &&& 1#8 = 1#8 then a.setWidth 16 <<< i else 0#16)) 0#16

/-- remainder modulo p(x) of a polynomial of degree < 15: for d = 14, 13, …, 8, if the coefficient of x^d is 1
add p(x) · x^(d−8) -/
def reduce (c : BitVec 16) : BitVec 8 :=
  ((List.range 7).foldl
    (fun (acc : BitVec 16) (k : Nat) =>
      acc ^^^ (if (acc >>> (14 - k)) &&& 1#16 = 1#16 then 0x1C3#16 <<< (6 - k) else 0#16)) c).setWidth 8

/-- multiplication in the field -/
def gfmul (a b : BitVec 8) : BitVec 8 := reduce (clmul a b)

/-- byte a_i of a = a15 || … || a0 -/
def byte (a : BitVec 128) (i : Nat) : BitVec 8 := a.extractLsb' (8 * i) 8

/-- §4.1.2 -/
def ell (a : BitVec 128) : BitVec 8 :=
  gfmul 148#8 (byte a 15) ^^^ gfmul 32#8 (byte a 14) ^^^ gfmul 133#8 (byte a 13) ^^^ gfmul 16#8 (byte a 12) ^^^
  gfmul 194#8 (byte a 11) ^^^ gfmul 192#8 (byte a 10) ^^^ gfmul 1#8 (byte a 9) ^^^ gfmul 251#8 (byte a 8) ^^^
  gfmul 1#8 (byte a 7) ^^^ gfmul 192#8 (byte a 6) ^^^ gfmul 194#8 (byte a 5) ^^^ gfmul 16#8 (byte a 4) ^^^
  gfmul 133#8 (byte a 3) ^^^ gfmul 32#8 (byte a 2) ^^^ gfmul 148#8 (byte a 1) ^^^ gfmul 1#8 (byte a 0)

/-- a15' || … || a0' from the sixteen bytes, most significant first -/
def ofBytes (f : Nat → BitVec 8) : BitVec 128 :=
  (List.range 16).foldl (fun acc i => (acc <<< 8) ||| (f (15 - i)).setWidth 128) 0#128

/-! ### §4.2 transformations -/

def X (k a : BitVec 128) : BitVec 128 := k ^^^ a

def S (a : BitVec 128) : BitVec 128 := ofBytes (fun i => pi (byte a i))
def Sinv (a : BitVec 128) : BitVec 128 := ofBytes (fun i => piInv (byte a i))

/-- R(a) = ℓ(a15,…,a0) || a15 || … || a1 -/
def R (a : BitVec 128) : BitVec 128 := ell a ++ a.extractLsb' 8 120

/-- R⁻¹(a) = a14 || … || a0 || ℓ(a14,…,a0,a15) -/
def Rinv (a : BitVec 128) : BitVec 128 :=
  a.extractLsb' 0 120 ++ ell (a.extractLsb' 0 120 ++ a.extractLsb' 120 8)

def L (a : BitVec 128) : BitVec 128 := iter R 16 a
def Linv (a : BitVec 128) : BitVec 128 := iter Rinv 16 a

def LSX (k a : BitVec 128) : BitVec 128 := L (S (X k a))
/-- S⁻¹L⁻¹X[k] -/
def SinvLinvX (k a : BitVec 128) : BitVec 128 := Sinv (Linv (X k a))

/-- F[k](a1, a0) = (LSX[k](a1) ⊕ a0, a1) -/
def F (k : BitVec 128) (p : BitVec 128 × BitVec 128) : BitVec 128 × BitVec 128 :=
  (LSX k p.1 ^^^ p.2, p.1)

/-! ### §4.3 key schedule -/

/-- C_i = L(Vec128(i)) -/
def C (i : Nat) : BitVec 128 := L (BitVec.ofNat 128 i)

/-- (K_{2i+1}, K_{2i+2}) from (K_{2i−1}, K_{2i}): F[C_{8(i−1)+1}] is applied first, F[C_{8(i−1)+8}] last -/
def nextPair (i : Nat) (p : BitVec 128 × BitVec 128) : BitVec 128 × BitVec 128 :=
  (List.range 8).foldl (fun p j => F (C (8 * (i - 1) + j + 1)) p) p

/-- the iteration keys [K1, …, K10] of K = k255 || … || k0 -/
def roundKeys (K : BitVec 256) : List (BitVec 128) :=
  let p1 := (K.extractLsb' 128 128, K.extractLsb' 0 128)
  let p2 := nextPair 1 p1
  let p3 := nextPair 2 p2
  let p4 := nextPair 3 p3
  let p5 := nextPair 4 p4
  [p1.1, p1.2, p2.1, p2.2, p3.1, p3.2, p4.1, p4.2, p5.1, p5.2]

/-! ### §4.4 encryption and decryption, for a list of iteration keys [K1, …, Kn] -/

/-- E(a) = X[Kn] LSX[K(n−1)] … LSX[K1] (a) -/
def E (ks : List (BitVec 128)) (a : BitVec 128) : BitVec 128 :=
  X (ks.getLastD 0#128) (ks.dropLast.foldl (fun acc k => LSX k acc) a)

/-- D(a) = X[K1] S⁻¹L⁻¹X[K2] … S⁻¹L⁻¹X[Kn] (a) -/
def D (ks : List (BitVec 128)) (a : BitVec 128) : BitVec 128 :=
  X (ks.headD 0#128) (ks.tail.reverse.foldl (fun acc k => SinvLinvX k acc) a)

def encrypt (K : BitVec 256) (a : BitVec 128) : BitVec 128 := E (roundKeys K) a
def decrypt (K : BitVec 256) (a : BitVec 128) : BitVec 128 := D (roundKeys K) a

end BC.Spec.Kuznyechik
