import BlockCiphers.Spec.Des
/-
Weak keys of DES (NIST SP 800-67r2 §3.3.2, FIPS 74 §3.6 / Davies' "possibly weak" keys), written independently
of /repo/des/src/consts.rs: the 64 keys whose halves C0 and D0 (after PC-1) are both one of the eight 28-bit
strings 0000…, 1111…, 0101…, 1010…, 0011…, 0110…, 1100…, 1001… (a rotation by two positions gives the string
itself or its complement), so that the key schedule yields at most four different round keys.  The lists below are printed
with odd parity, as the standards print them; membership is decided on the 56 key bits (`stripParity`).
`Proofs/DesWeak.lean` proves (i) the lists are exactly the keys with that structure, (ii) their round keys
really are degenerate, (iii) the crate's `weak_key_test` flags exactly these keys.
-/
namespace BC.Spec.Des

/-- the 4 weak keys (SP 800-67r2 §3.3.2; odd parity as printed there): K_1 = … = K_16 -/
def weakKeys : List (BitVec 64) := [
  0x0101010101010101#64, 0x1F1F1F1F0E0E0E0E#64, 0xE0E0E0E0F1F1F1F1#64, 0xFEFEFEFEFEFEFEFE#64]

/-- the 12 semi-weak keys (6 pairs): two different round keys, each used eight times -/
def semiWeakKeys : List (BitVec 64) := [
  0x011F011F010E010E#64, 0x01E001E001F101F1#64, 0x01FE01FE01FE01FE#64, 0x1F011F010E010E01#64,
  0x1FE01FE00EF10EF1#64, 0x1FFE1FFE0EFE0EFE#64, 0xE001E001F101F101#64, 0xE01FE01FF10EF10E#64,
  0xE0FEE0FEF1FEF1FE#64, 0xFE01FE01FE01FE01#64, 0xFE1FFE1FFE0EFE0E#64, 0xFEE0FEE0FEF1FEF1#64]

/-- the 48 possibly weak keys: four different round keys, each used four times -/
def possiblyWeakKeys : List (BitVec 64) := [
  0x01011F1F01010E0E#64, 0x0101E0E00101F1F1#64, 0x0101FEFE0101FEFE#64, 0x011F1F01010E0E01#64,
  0x011FE0FE010EF1FE#64, 0x011FFEE0010EFEF1#64, 0x01E01FFE01F10EFE#64, 0x01E0E00101F1F101#64,
  0x01E0FE1F01F1FE0E#64, 0x01FE1FE001FE0EF1#64, 0x01FEE01F01FEF10E#64, 0x01FEFE0101FEFE01#64,
  0x1F01011F0E01010E#64, 0x1F01E0FE0E01F1FE#64, 0x1F01FEE00E01FEF1#64, 0x1F1F01010E0E0101#64,
  0x1F1FE0E00E0EF1F1#64, 0x1F1FFEFE0E0EFEFE#64, 0x1FE001FE0EF101FE#64, 0x1FE0E01F0EF1F10E#64,
  0x1FE0FE010EF1FE01#64, 0x1FFE01E00EFE01F1#64, 0x1FFEE0010EFEF101#64, 0x1FFEFE1F0EFEFE0E#64,
  0xE00101E0F10101F1#64, 0xE0011FFEF1010EFE#64, 0xE001FE1FF101FE0E#64, 0xE01F01FEF10E01FE#64,
  0xE01F1FE0F10E0EF1#64, 0xE01FFE01F10EFE01#64, 0xE0E00101F1F10101#64, 0xE0E01F1FF1F10E0E#64,
  0xE0E0FEFEF1F1FEFE#64, 0xE0FE011FF1FE010E#64, 0xE0FE1F01F1FE0E01#64, 0xE0FEFEE0F1FEFEF1#64,
  0xFE0101FEFE0101FE#64, 0xFE011FE0FE010EF1#64, 0xFE01E01FFE01F10E#64, 0xFE1F01E0FE0E01F1#64,
  0xFE1F1FFEFE0E0EFE#64, 0xFE1FE001FE0EF101#64, 0xFEE0011FFEF1010E#64, 0xFEE01F01FEF10E01#64,
  0xFEE0E0FEFEF1F1FE#64, 0xFEFE0101FEFE0101#64, 0xFEFE1F1FFEFE0E0E#64, 0xFEFEE0E0FEFEF1F1#64]

/-- the 64 keys to be avoided, with parity -/
def weak64 : List (BitVec 64) := weakKeys ++ semiWeakKeys ++ possiblyWeakKeys

/-- the 64 keys to be avoided, as 56-bit keys (parity bits removed) -/
def weak56 : List (BitVec 56) := weak64.map stripParity

/-- C0 and D0 of a key -/
def C0 (key : BitVec 64) : BitVec 28 := (permute PC1 56 key : BitVec 56).extractLsb' 28 28
def D0 (key : BitVec 64) : BitVec 28 := (permute PC1 56 key : BitVec 56).extractLsb' 0 28

/-- a 28-bit half that a rotation by two positions maps to itself or to its complement:
exactly 0000…, 1111…, 0101…, 1010…, 0011…, 0110…, 1100…, 1001… -/
def halfDegenerate (c : BitVec 28) : Bool := c.rotateLeft 2 == c || c.rotateLeft 2 == ~~~c

/-- structural definition of the 64 keys: both halves are of that kind -/
def degenerate (key : BitVec 64) : Bool := halfDegenerate (C0 key) && halfDegenerate (D0 key)

end BC.Spec.Des
