import BlockCiphers.Prelude.Bytes
/-
RC2 as specified in RFC 2268 (R. Rivest, "A Description of the RC2(r) Encryption Algorithm", March 1998),
in the RFC's own terms.

§2 Key expansion.  The key buffer `L[0..127]` of bytes (the same storage as `K[0..63]`,
`K[i] = L[2i] + 256·L[2i+1]`); `T` key bytes are in `L[0..T-1]`; `T1` = effective key bits,
`T8 = (T1+7)/8`, `TM = 255 MOD 2^(8 + T1 - 8*T8)`.

    for i = T, T+1, ..., 127 do   L[i] = PITABLE[L[i-1] + L[i-T]];          (addition modulo 256)
    L[128-T8] = PITABLE[L[128-T8] & TM];
    for i = 127-T8, ..., 0 do     L[i] = PITABLE[L[i+1] XOR L[i+T8]];

§3 Encryption.  `s[0..3] = 1, 2, 3, 5`; indices of `R` are taken modulo 4.

    Mix up R[i]:     R[i] = R[i] + K[j] + (R[i-1] & R[i-2]) + ((~R[i-1]) & R[i-3]);  j = j + 1;  R[i] = R[i] rol s[i]
    Mixing round:    mix up R[0], R[1], R[2], R[3]
    Mash R[i]:       R[i] = R[i] + K[R[i-1] & 63]
    Mashing round:   mash R[0], R[1], R[2], R[3]
    Encryption:      j = 0;  5 mixing rounds, 1 mashing round, 6 mixing rounds, 1 mashing round, 5 mixing rounds

§4 Decryption.

    R-Mix up R[i]:   R[i] = R[i] ror s[i];  R[i] = R[i] - K[j] - (R[i-1] & R[i-2]) - ((~R[i-1]) & R[i-3]);  j = j - 1
    R-Mixing round:  r-mix up R[3], R[2], R[1], R[0]
    R-Mash R[i]:     R[i] = R[i] - K[R[i-1] & 63]
    R-Mashing round: r-mash R[3], R[2], R[1], R[0]
    Decryption:      j = 63;  5 r-mixing rounds, 1 r-mashing round, 6 r-mixing rounds, 1 r-mashing round,
                     5 r-mixing rounds

The 64-bit block is held in `R[0..3]`, each word low-order byte first (as the test vectors of §5 fix it).
-/
namespace BC.Spec.Rc2

/-- PITABLE (RFC 2268 §2; hexadecimal, 16 entries per row as printed) -/
def PITABLE : Array (BitVec 8) := #[
  0xd9, 0x78, 0xf9, 0xc4, 0x19, 0xdd, 0xb5, 0xed, 0x28, 0xe9, 0xfd, 0x79, 0x4a, 0xa0, 0xd8, 0x9d,
  0xc6, 0x7e, 0x37, 0x83, 0x2b, 0x76, 0x53, 0x8e, 0x62, 0x4c, 0x64, 0x88, 0x44, 0x8b, 0xfb, 0xa2,
  0x17, 0x9a, 0x59, 0xf5, 0x87, 0xb3, 0x4f, 0x13, 0x61, 0x45, 0x6d, 0x8d, 0x09, 0x81, 0x7d, 0x32,
  0xbd, 0x8f, 0x40, 0xeb, 0x86, 0xb7, 0x7b, 0x0b, 0xf0, 0x95, 0x21, 0x22, 0x5c, 0x6b, 0x4e, 0x82,
  0x54, 0xd6, 0x65, 0x93, 0xce, 0x60, 0xb2, 0x1c, 0x73, 0x56, 0xc0, 0x14, 0xa7, 0x8c, 0xf1, 0xdc,
  0x12, 0x75, 0xca, 0x1f, 0x3b, 0xbe, 0xe4, 0xd1, 0x42, 0x3d, 0xd4, 0x30, 0xa3, 0x3c, 0xb6, 0x26,
  0x6f, 0xbf, 0x0e, 0xda, 0x46, 0x69, 0x07, 0x57, 0x27, 0xf2, 0x1d, 0x9b, 0xbc, 0x94, 0x43, 0x03,
  0xf8, 0x11, 0xc7, 0xf6, 0x90, 0xef, 0x3e, 0xe7, 0x06, 0xc3, 0xd5, 0x2f, 0xc8, 0x66, 0x1e, 0xd7,
  0x08, 0xe8, 0xea, 0xde, 0x80, 0x52, 0xee, 0xf7, 0x84, 0xaa, 0x72, 0xac, 0x35, 0x4d, 0x6a, 0x2a,
  0x96, 0x1a, 0xd2, 0x71, 0x5a, 0x15, 0x49, 0x74, 0x4b, 0x9f, 0xd0, 0x5e, 0x04, 0x18, 0xa4, 0xec,
  0xc2, 0xe0, 0x41, 0x6e, 0x0f, 0x51, 0xcb, 0xcc, 0x24, 0x91, 0xaf, 0x50, 0xa1, 0xf4, 0x70, 0x39,
  0x99, 0x7c, 0x3a, 0x85, 0x23, 0xb8, 0xb4, 0x7a, 0xfc, 0x02, 0x36, 0x5b, 0x25, 0x55, 0x97, 0x31,
  0x2d, 0x5d, 0xfa, 0x98, 0xe3, 0x8a, 0x92, 0xae, 0x05, 0xdf, 0x29, 0x10, 0x67, 0x6c, 0xba, 0xc9,
  0xd3, 0x00, 0xe6, 0xcf, 0xe1, 0x9e, 0xa8, 0x2c, 0x63, 0x16, 0x01, 0x3f, 0x58, 0xe2, 0x89, 0xa9,
  0x0d, 0x38, 0x34, 0x1b, 0xab, 0x33, 0xff, 0xb0, 0xbb, 0x48, 0x0c, 0x5f, 0xb9, 0xb1, 0xcd, 0x2e,
  0xc5, 0xf3, 0xdb, 0x47, 0xe5, 0xa5, 0x9c, 0x77, 0x0a, 0xa6, 0x20, 0x68, 0xfe, 0x7f, 0xc1, 0xad]

/-- `PITABLE[x]` -/
def pitable (x : BitVec 8) : BitVec 8 := PITABLE.getD x.toNat 0#8

/-! ### §2 key expansion -/

/-- `L[i]` -/
def Lget (L : Vector (BitVec 8) 128) (i : Nat) : BitVec 8 := L.getD i 0#8

/-- the key buffer `L` after the three steps of §2, for a key of `T` bytes and `T1` effective bits -/
def expandL (key : Bytes) (T1 : Nat) : Vector (BitVec 8) 128 :=
  let T := key.length
  let T8 := (T1 + 7) / 8
  let TM := 255 % 2 ^ (8 + T1 - 8 * T8)
  let L : Vector (BitVec 8) 128 := Vector.ofFn (fun i : Fin 128 => key.getD i.val 0#8)
  -- for i = T, T+1, ..., 127
  let L := (List.range' T (128 - T)).foldl
    (fun L i => L.setIfInBounds i (pitable (Lget L (i - 1) + Lget L (i - T)))) L
  let L := L.setIfInBounds (128 - T8) (pitable (Lget L (128 - T8) &&& BitVec.ofNat 8 TM))
  -- for i = 127-T8, ..., 0
  (List.range (128 - T8)).reverse.foldl
    (fun L i => L.setIfInBounds i (pitable (Lget L (i + 1) ^^^ Lget L (i + T8)))) L

/-- `K[i] = L[2i] + 256·L[2i+1]` -/
def expandKey (key : Bytes) (T1 : Nat) : Vector (BitVec 16) 64 :=
  let L := expandL key T1
  Vector.ofFn (fun i : Fin 64 => (Lget L (2 * i.val)).setWidth 16 + 256#16 * (Lget L (2 * i.val + 1)).setWidth 16)

/-! ### §3, §4 -/

/-- `s[i]` -/
def s (i : Nat) : Nat :=
  match i with
  | 0 => 1
  | 1 => 2
  | 2 => 3
  | _ => 5

structure State where
  R : Vector (BitVec 16) 4
  j : Nat

/-- `R[i]`, index modulo 4 (`i - k` is written `i + 4 - k`) -/
def Rget (R : Vector (BitVec 16) 4) (i : Nat) : BitVec 16 := R.getD (i % 4) 0#16
/-- `K[j]` -/
def Kget (K : Vector (BitVec 16) 64) (j : Nat) : BitVec 16 := K.getD j 0#16

def mixUp (K : Vector (BitVec 16) 64) (st : State) (i : Nat) : State :=
  let R := st.R
  let Ri := Rget R i + Kget K st.j + (Rget R (i + 4 - 1) &&& Rget R (i + 4 - 2))
              + (~~~Rget R (i + 4 - 1) &&& Rget R (i + 4 - 3))
  { R := R.setIfInBounds i (Ri.rotateLeft (s i)), j := st.j + 1 }

def mixingRound (K : Vector (BitVec 16) 64) (st : State) : State := [0, 1, 2, 3].foldl (mixUp K) st

def mashUp (K : Vector (BitVec 16) 64) (st : State) (i : Nat) : State :=
  let R := st.R
  { st with R := R.setIfInBounds i (Rget R i + Kget K (Rget R (i + 4 - 1) &&& 63#16).toNat) }

def mashingRound (K : Vector (BitVec 16) 64) (st : State) : State := [0, 1, 2, 3].foldl (mashUp K) st

def rMixUp (K : Vector (BitVec 16) 64) (st : State) (i : Nat) : State :=
  let R := st.R
  let Ri := (Rget R i).rotateRight (s i)
  let Ri := Ri - Kget K st.j - (Rget R (i + 4 - 1) &&& Rget R (i + 4 - 2))
              - (~~~Rget R (i + 4 - 1) &&& Rget R (i + 4 - 3))
  { R := R.setIfInBounds i Ri, j := st.j - 1 }

def rMixingRound (K : Vector (BitVec 16) 64) (st : State) : State := [3, 2, 1, 0].foldl (rMixUp K) st

def rMashUp (K : Vector (BitVec 16) 64) (st : State) (i : Nat) : State :=
  let R := st.R
  { st with R := R.setIfInBounds i (Rget R i - Kget K (Rget R (i + 4 - 1) &&& 63#16).toNat) }

def rMashingRound (K : Vector (BitVec 16) 64) (st : State) : State := [3, 2, 1, 0].foldl (rMashUp K) st

/-- §3: the encryption operation on the four words -/
def encryptWords (K : Vector (BitVec 16) 64) (R : Vector (BitVec 16) 4) : Vector (BitVec 16) 4 :=
  let st : State := { R := R, j := 0 }
  let st := iter (mixingRound K) 5 st
  let st := mashingRound K st
  let st := iter (mixingRound K) 6 st
  let st := mashingRound K st
  let st := iter (mixingRound K) 5 st
  st.R

/-- §4: the decryption operation on the four words -/
def decryptWords (K : Vector (BitVec 16) 64) (R : Vector (BitVec 16) 4) : Vector (BitVec 16) 4 :=
  let st : State := { R := R, j := 63 }
  let st := iter (rMixingRound K) 5 st
  let st := rMashingRound K st
  let st := iter (rMixingRound K) 6 st
  let st := rMashingRound K st
  let st := iter (rMixingRound K) 5 st
  st.R

/-- block bytes → words, low-order byte first -/
def wordsOfBlock (b : Bytes) : Vector (BitVec 16) 4 :=
  Vector.ofFn (fun i : Fin 4 => (b.getD (2 * i.val) 0#8).setWidth 16 + 256#16 * (b.getD (2 * i.val + 1) 0#8).setWidth 16)

/-- words → block bytes, low-order byte first -/
def blockOfWords (R : Vector (BitVec 16) 4) : Bytes :=
  (List.range 8).map (fun k => BitVec.ofNat 8 ((Rget R (k / 2)).toNat / 256 ^ (k % 2) % 256))

/-- RC2 encryption of an 8-byte block under a key of `T` bytes with `T1` effective key bits -/
def encrypt (key : Bytes) (T1 : Nat) (block : Bytes) : Bytes :=
  blockOfWords (encryptWords (expandKey key T1) (wordsOfBlock block))

def decrypt (key : Bytes) (T1 : Nat) (block : Bytes) : Bytes :=
  blockOfWords (decryptWords (expandKey key T1) (wordsOfBlock block))

end BC.Spec.Rc2
