import BlockCiphers.Prelude.Bytes
/-
Camellia as specified in RFC 3713 ("A Description of the Camellia Encryption Algorithm"), in the RFC's
own terms: 128-bit quantities KL, KR, KA, KB; `<<<` on 128 bits; the subkey tables of §2.2 (kw, k, ke);
F with SBOX1 and the derived SBOX2/3/4 and the P byte network (§2.4.1); FL / FLINV (§2.4.2, 2.4.3);
18 rounds for 128-bit keys and 24 rounds for 192/256-bit keys (§2.3.1, 2.3.2); decryption = encryption
with the subkey order swapped (§2.3.3).

SBOX1 is a frozen spec table (RFC 3713 §2.4.1); SBOX2/3/4 are *defined* from it as in the RFC:
  SBOX2[x] = SBOX1[x] <<< 1;  SBOX3[x] = SBOX1[x] <<< 7;  SBOX4[x] = SBOX1[x <<< 1].
-/
namespace BC.Spec.Camellia

def MASK8 : BitVec 64 := 0xff#64
def MASK32 : BitVec 64 := 0xffffffff#64
def MASK64 : BitVec 128 := 0xffffffffffffffff#128

def Sigma1 : BitVec 64 := 0xA09E667F3BCC908B#64
def Sigma2 : BitVec 64 := 0xB67AE8584CAA73B2#64
def Sigma3 : BitVec 64 := 0xC6EF372FE94F82BE#64
def Sigma4 : BitVec 64 := 0x54FF53A5F1D36F1C#64
def Sigma5 : BitVec 64 := 0x10E527FADE682D1D#64
def Sigma6 : BitVec 64 := 0xB05688C2B3E6C1FD#64

/-- RFC 3713 §2.4.1, table SBOX1 -/
def SBOX1 : Array (BitVec 8) := #[
  0x70#8, 0x82#8, 0x2c#8, 0xec#8, 0xb3#8, 0x27#8, 0xc0#8, 0xe5#8, 0xe4#8, 0x85#8, 0x57#8, 0x35#8, 0xea#8, 0x0c#8, 0xae#8, 0x41#8,
  0x23#8, 0xef#8, 0x6b#8, 0x93#8, 0x45#8, 0x19#8, 0xa5#8, 0x21#8, 0xed#8, 0x0e#8, 0x4f#8, 0x4e#8, 0x1d#8, 0x65#8, 0x92#8, 0xbd#8,
  0x86#8, 0xb8#8, 0xaf#8, 0x8f#8, 0x7c#8, 0xeb#8, 0x1f#8, 0xce#8, 0x3e#8, 0x30#8, 0xdc#8, 0x5f#8, 0x5e#8, 0xc5#8, 0x0b#8, 0x1a#8,
  0xa6#8, 0xe1#8, 0x39#8, 0xca#8, 0xd5#8, 0x47#8, 0x5d#8, 0x3d#8, 0xd9#8, 0x01#8, 0x5a#8, 0xd6#8, 0x51#8, 0x56#8, 0x6c#8, 0x4d#8,
  0x8b#8, 0x0d#8, 0x9a#8, 0x66#8, 0xfb#8, 0xcc#8, 0xb0#8, 0x2d#8, 0x74#8, 0x12#8, 0x2b#8, 0x20#8, 0xf0#8, 0xb1#8, 0x84#8, 0x99#8,
  0xdf#8, 0x4c#8, 0xcb#8, 0xc2#8, 0x34#8, 0x7e#8, 0x76#8, 0x05#8, 0x6d#8, 0xb7#8, 0xa9#8, 0x31#8, 0xd1#8, 0x17#8, 0x04#8, 0xd7#8,
  0x14#8, 0x58#8, 0x3a#8, 0x61#8, 0xde#8, 0x1b#8, 0x11#8, 0x1c#8, 0x32#8, 0x0f#8, 0x9c#8, 0x16#8, 0x53#8, 0x18#8, 0xf2#8, 0x22#8,
  0xfe#8, 0x44#8, 0xcf#8, 0xb2#8, 0xc3#8, 0xb5#8, 0x7a#8, 0x91#8, 0x24#8, 0x08#8, 0xe8#8, 0xa8#8, 0x60#8, 0xfc#8, 0x69#8, 0x50#8,
  0xaa#8, 0xd0#8, 0xa0#8, 0x7d#8, 0xa1#8, 0x89#8, 0x62#8, 0x97#8, 0x54#8, 0x5b#8, 0x1e#8, 0x95#8, 0xe0#8, 0xff#8, 0x64#8, 0xd2#8,
  0x10#8, 0xc4#8, 0x00#8, 0x48#8, 0xa3#8, 0xf7#8, 0x75#8, 0xdb#8, 0x8a#8, 0x03#8, 0xe6#8, 0xda#8, 0x09#8, 0x3f#8, 0xdd#8, 0x94#8,
  0x87#8, 0x5c#8, 0x83#8, 0x02#8, 0xcd#8, 0x4a#8, 0x90#8, 0x33#8, 0x73#8, 0x67#8, 0xf6#8, 0xf3#8, 0x9d#8, 0x7f#8, 0xbf#8, 0xe2#8,
  0x52#8, 0x9b#8, 0xd8#8, 0x26#8, 0xc8#8, 0x37#8, 0xc6#8, 0x3b#8, 0x81#8, 0x96#8, 0x6f#8, 0x4b#8, 0x13#8, 0xbe#8, 0x63#8, 0x2e#8,
  0xe9#8, 0x79#8, 0xa7#8, 0x8c#8, 0x9f#8, 0x6e#8, 0xbc#8, 0x8e#8, 0x29#8, 0xf5#8, 0xf9#8, 0xb6#8, 0x2f#8, 0xfd#8, 0xb4#8, 0x59#8,
  0x78#8, 0x98#8, 0x06#8, 0x6a#8, 0xe7#8, 0x46#8, 0x71#8, 0xba#8, 0xd4#8, 0x25#8, 0xab#8, 0x42#8, 0x88#8, 0xa2#8, 0x8d#8, 0xfa#8,
  0x72#8, 0x07#8, 0xb9#8, 0x55#8, 0xf8#8, 0xee#8, 0xac#8, 0x0a#8, 0x36#8, 0x49#8, 0x2a#8, 0x68#8, 0x3c#8, 0x38#8, 0xf1#8, 0xa4#8,
  0x40#8, 0x28#8, 0xd3#8, 0x7b#8, 0xbb#8, 0xc9#8, 0x43#8, 0xc1#8, 0x15#8, 0xe3#8, 0xad#8, 0xf4#8, 0x77#8, 0xc7#8, 0x80#8, 0x9e#8]

theorem SBOX1_size : SBOX1.size = 256 := by decide +kernel

def sbox1 (x : BitVec 8) : BitVec 8 := SBOX1[x.toNat]'(by rw [SBOX1_size]; exact x.isLt)
/-- SBOX2[x] = SBOX1[x] <<< 1 -/
def sbox2 (x : BitVec 8) : BitVec 8 := (sbox1 x).rotateLeft 1
/-- SBOX3[x] = SBOX1[x] <<< 7 -/
def sbox3 (x : BitVec 8) : BitVec 8 := (sbox1 x).rotateLeft 7
/-- SBOX4[x] = SBOX1[x <<< 1] -/
def sbox4 (x : BitVec 8) : BitVec 8 := sbox1 (x.rotateLeft 1)

/-- §2.4.1 F-function -/
def F (F_IN KE : BitVec 64) : BitVec 64 :=
  let x := F_IN ^^^ KE
  let t1 := (x >>> 56).setWidth 8
  let t2 := ((x >>> 48) &&& MASK8).setWidth 8
  let t3 := ((x >>> 40) &&& MASK8).setWidth 8
  let t4 := ((x >>> 32) &&& MASK8).setWidth 8
  let t5 := ((x >>> 24) &&& MASK8).setWidth 8
  let t6 := ((x >>> 16) &&& MASK8).setWidth 8
  let t7 := ((x >>> 8) &&& MASK8).setWidth 8
  let t8 := (x &&& MASK8).setWidth 8
  let t1 := sbox1 t1
  let t2 := sbox2 t2
  let t3 := sbox3 t3
  let t4 := sbox4 t4
  let t5 := sbox2 t5
  let t6 := sbox3 t6
  let t7 := sbox4 t7
  let t8 := sbox1 t8
  let y1 := t1 ^^^ t3 ^^^ t4 ^^^ t6 ^^^ t7 ^^^ t8
  let y2 := t1 ^^^ t2 ^^^ t4 ^^^ t5 ^^^ t7 ^^^ t8
  let y3 := t1 ^^^ t2 ^^^ t3 ^^^ t5 ^^^ t6 ^^^ t8
  let y4 := t2 ^^^ t3 ^^^ t4 ^^^ t5 ^^^ t6 ^^^ t7
  let y5 := t1 ^^^ t2 ^^^ t6 ^^^ t7 ^^^ t8
  let y6 := t2 ^^^ t3 ^^^ t5 ^^^ t7 ^^^ t8
  let y7 := t3 ^^^ t4 ^^^ t5 ^^^ t6 ^^^ t8
  let y8 := t1 ^^^ t4 ^^^ t5 ^^^ t6 ^^^ t7
  (y1.setWidth 64 <<< 56) ||| (y2.setWidth 64 <<< 48) ||| (y3.setWidth 64 <<< 40) |||
  (y4.setWidth 64 <<< 32) ||| (y5.setWidth 64 <<< 24) ||| (y6.setWidth 64 <<< 16) |||
  (y7.setWidth 64 <<< 8) ||| y8.setWidth 64

/-- §2.4.2 FL-function -/
def FL (FL_IN KE : BitVec 64) : BitVec 64 :=
  let x1 : BitVec 32 := (FL_IN >>> 32).setWidth 32
  let x2 : BitVec 32 := (FL_IN &&& MASK32).setWidth 32
  let k1 : BitVec 32 := (KE >>> 32).setWidth 32
  let k2 : BitVec 32 := (KE &&& MASK32).setWidth 32
  let x2 := x2 ^^^ (x1 &&& k1).rotateLeft 1
  let x1 := x1 ^^^ (x2 ||| k2)
  (x1.setWidth 64 <<< 32) ||| x2.setWidth 64

/-- §2.4.3 FLINV-function -/
def FLINV (FLINV_IN KE : BitVec 64) : BitVec 64 :=
  let y1 : BitVec 32 := (FLINV_IN >>> 32).setWidth 32
  let y2 : BitVec 32 := (FLINV_IN &&& MASK32).setWidth 32
  let k1 : BitVec 32 := (KE >>> 32).setWidth 32
  let k2 : BitVec 32 := (KE &&& MASK32).setWidth 32
  let y1 := y1 ^^^ (y2 ||| k2)
  let y2 := y2 ^^^ (y1 &&& k1).rotateLeft 1
  (y1.setWidth 64 <<< 32) ||| y2.setWidth 64

/-- `X >> 64` as a 64-bit quantity -/
def hi64 (x : BitVec 128) : BitVec 64 := (x >>> 64).setWidth 64
/-- `X & MASK64` as a 64-bit quantity -/
def lo64 (x : BitVec 128) : BitVec 64 := (x &&& MASK64).setWidth 64
/-- `(D1 << 64) | D2` -/
def join (d1 d2 : BitVec 64) : BitVec 128 := (d1.setWidth 128 <<< 64) ||| d2.setWidth 128

/-! ### §2.2 key schedule -/

/-- KA from KL, KR -/
def computeKA (KL KR : BitVec 128) : BitVec 128 :=
  let D1 := hi64 (KL ^^^ KR)
  let D2 := lo64 (KL ^^^ KR)
  let D2 := D2 ^^^ F D1 Sigma1
  let D1 := D1 ^^^ F D2 Sigma2
  let D1 := D1 ^^^ hi64 KL
  let D2 := D2 ^^^ lo64 KL
  let D2 := D2 ^^^ F D1 Sigma3
  let D1 := D1 ^^^ F D2 Sigma4
  join D1 D2

/-- KB from KA, KR (192/256-bit keys only) -/
def computeKB (KA KR : BitVec 128) : BitVec 128 :=
  let D1 := hi64 (KA ^^^ KR)
  let D2 := lo64 (KA ^^^ KR)
  let D2 := D2 ^^^ F D1 Sigma5
  let D1 := D1 ^^^ F D2 Sigma6
  join D1 D2

/-- the subkeys: kw1..kw4, k1..k18 (k1..k24), ke1..ke4 (ke1..ke6) -/
structure Subkeys where
  kw1 : BitVec 64
  kw2 : BitVec 64
  kw3 : BitVec 64
  kw4 : BitVec 64
  k : List (BitVec 64)
  ke : List (BitVec 64)

/-- `(X <<< n) >> 64` -/
def rotHi (x : BitVec 128) (n : Nat) : BitVec 64 := hi64 (x.rotateLeft n)
/-- `(X <<< n) & MASK64` -/
def rotLo (x : BitVec 128) (n : Nat) : BitVec 64 := lo64 (x.rotateLeft n)

/-- subkey table for 128-bit keys -/
def subkeys128 (KL KA : BitVec 128) : Subkeys where
  kw1 := rotHi KL 0
  kw2 := rotLo KL 0
  k := [rotHi KA 0, rotLo KA 0, rotHi KL 15, rotLo KL 15, rotHi KA 15, rotLo KA 15,
        rotHi KL 45, rotLo KL 45, rotHi KA 45, rotLo KL 60, rotHi KA 60, rotLo KA 60,
        rotHi KL 94, rotLo KL 94, rotHi KA 94, rotLo KA 94, rotHi KL 111, rotLo KL 111]
  ke := [rotHi KA 30, rotLo KA 30, rotHi KL 77, rotLo KL 77]
  kw3 := rotHi KA 111
  kw4 := rotLo KA 111

/-- subkey table for 192- and 256-bit keys -/
def subkeys256 (KL KR KA KB : BitVec 128) : Subkeys where
  kw1 := rotHi KL 0
  kw2 := rotLo KL 0
  k := [rotHi KB 0, rotLo KB 0, rotHi KR 15, rotLo KR 15, rotHi KA 15, rotLo KA 15,
        rotHi KB 30, rotLo KB 30, rotHi KL 45, rotLo KL 45, rotHi KA 45, rotLo KA 45,
        rotHi KR 60, rotLo KR 60, rotHi KB 60, rotLo KB 60, rotHi KL 77, rotLo KL 77,
        rotHi KR 94, rotLo KR 94, rotHi KA 94, rotLo KA 94, rotHi KL 111, rotLo KL 111]
  ke := [rotHi KR 30, rotLo KR 30, rotHi KL 60, rotLo KL 60, rotHi KA 77, rotLo KA 77]
  kw3 := rotHi KB 111
  kw4 := rotLo KB 111

/-- 128-bit key: KL = K, KR = 0 -/
def keys128 (K : BitVec 128) : Subkeys :=
  let KL := K
  let KR := 0#128
  subkeys128 KL (computeKA KL KR)

/-- 192-bit key: KL = K >> 64; KR = ((K & MASK64) << 64) | (~(K & MASK64)) -/
def keys192 (K : BitVec 192) : Subkeys :=
  let KL : BitVec 128 := (K >>> 64).setWidth 128
  let r : BitVec 64 := (K &&& 0xffffffffffffffff#192).setWidth 64
  let KR : BitVec 128 := (r.setWidth 128 <<< 64) ||| (~~~r).setWidth 128
  let KA := computeKA KL KR
  subkeys256 KL KR KA (computeKB KA KR)

/-- 256-bit key: KL = K >> 128; KR = K & MASK128 -/
def keys256 (K : BitVec 256) : Subkeys :=
  let KL : BitVec 128 := (K >>> 128).setWidth 128
  let KR : BitVec 128 := (K &&& 0xffffffffffffffffffffffffffffffff#256).setWidth 128
  let KA := computeKA KL KR
  subkeys256 KL KR KA (computeKB KA KR)

/-! ### §2.3 encryption / decryption -/

structure D where
  D1 : BitVec 64
  D2 : BitVec 64

/-- rounds `D2 = D2 ^ F(D1, k_odd); D1 = D1 ^ F(D2, k_even)` over a list of round keys -/
def rounds : D → List (BitVec 64) → D
  | d, ka :: kb :: rest =>
    let D2 := d.D2 ^^^ F d.D1 ka
    let D1 := d.D1 ^^^ F D2 kb
    rounds { D1 := D1, D2 := D2 } rest
  | d, _ => d

/-- six rounds, then (while FL keys remain) `D1 = FL(D1, ke_odd); D2 = FLINV(D2, ke_even)` and again -/
def body : D → List (BitVec 64) → List (BitVec 64) → D
  | d, k, ke1 :: ke2 :: ke =>
    let d := rounds d (k.take 6)
    body { D1 := FL d.D1 ke1, D2 := FLINV d.D2 ke2 } (k.drop 6) ke
  | d, k, _ => rounds d k

/-- §2.3.1 / §2.3.2 : prewhitening, 18 or 24 rounds with FL layers every 6 rounds, postwhitening,
`C = (D2 << 64) | D1` -/
def encryptWith (sk : Subkeys) (M : BitVec 128) : BitVec 128 :=
  let D1 := hi64 M ^^^ sk.kw1
  let D2 := lo64 M ^^^ sk.kw2
  let d := body { D1 := D1, D2 := D2 } sk.k sk.ke
  let D2 := d.D2 ^^^ sk.kw3
  let D1 := d.D1 ^^^ sk.kw4
  join D2 D1

/-- §2.3.3 : kw1 <-> kw3, kw2 <-> kw4, k1 <-> k18 (k24) …, ke1 <-> ke4 (ke6) … -/
def swapKeys (sk : Subkeys) : Subkeys where
  kw1 := sk.kw3
  kw2 := sk.kw4
  kw3 := sk.kw1
  kw4 := sk.kw2
  k := sk.k.reverse
  ke := sk.ke.reverse

def decryptWith (sk : Subkeys) (C : BitVec 128) : BitVec 128 := encryptWith (swapKeys sk) C

def encrypt128 (K : BitVec 128) (M : BitVec 128) : BitVec 128 := encryptWith (keys128 K) M
def decrypt128 (K : BitVec 128) (C : BitVec 128) : BitVec 128 := decryptWith (keys128 K) C
def encrypt192 (K : BitVec 192) (M : BitVec 128) : BitVec 128 := encryptWith (keys192 K) M
def decrypt192 (K : BitVec 192) (C : BitVec 128) : BitVec 128 := decryptWith (keys192 K) C
def encrypt256 (K : BitVec 256) (M : BitVec 128) : BitVec 128 := encryptWith (keys256 K) M
def decrypt256 (K : BitVec 256) (C : BitVec 128) : BitVec 128 := decryptWith (keys256 K) C

end BC.Spec.Camellia
