#!/usr/bin/env python3
"""seedrun.py <patch.diff> <Cxx> [<Cyy> ...] [quick|thorough] : apply a seeded change to /repo, run the named checks,
undo.  Prints one line per check: DETECTED / MISSED and the VIOLATION lines.  The harness is built in a separate
target directory (.build-seed) and the evidence files are restored afterwards, so a seeded run never leaves traces in
what the registered checks use or commit."""
import os
import shutil
import subprocess
import sys
import time

patch, props = sys.argv[1], sys.argv[2:]
tier = "quick"
if props and props[-1] in ("quick", "thorough"):
    tier = props.pop()
r = subprocess.run(["git", "-C", "/repo", "status", "--porcelain", "--untracked-files=no"], capture_output=True, text=True)
if r.stdout.strip():
    print("repo not clean:", r.stdout)
    sys.exit(2)
r = subprocess.run(["git", "-C", "/repo", "apply", patch], capture_output=True, text=True)
if r.returncode:
    print("patch does not apply:", r.stderr)
    sys.exit(2)
env = dict(os.environ)
env["VERIF_BUILD_DIR"] = "/verif/.build-seed"
shutil.rmtree("/verif/.evidence-save", ignore_errors=True)
shutil.copytree("/verif/evidence", "/verif/.evidence-save")
try:
    for p in props:
        t0 = time.time()
        c = subprocess.run(["/verif/check", p, tier], capture_output=True, text=True, cwd="/verif", env=env)
        v = [l for l in c.stdout.splitlines() if l.startswith("VIOLATION")]
        print(f"{p}: {'DETECTED' if c.returncode == 1 and v else 'MISSED'} rc={c.returncode} {len(v)} violation line(s) {time.time() - t0:.0f}s")
        for l in v[:3]:
            print("   ", l)
            rp = l.split("replay=")[1].split(" ")[0]
            try:
                print("      ", open(rp).read()[:600].replace("\n", " "))
            except OSError:
                pass
        print("   ", c.stdout.splitlines()[-1] if c.stdout else c.stderr[-300:])
finally:
    subprocess.run(["git", "-C", "/repo", "checkout", "--", "."])
    shutil.rmtree("/verif/evidence")
    shutil.copytree("/verif/.evidence-save", "/verif/evidence")
    shutil.rmtree("/verif/.evidence-save", ignore_errors=True)
    # bring the generated Lean files back to the unchanged tree
    subprocess.run([sys.executable, "/verif/translator/translate.py"], capture_output=True)
