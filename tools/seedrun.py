#!/usr/bin/env python3
"""seedrun.py <patch.diff> <Cxx> [<Cyy> ...] : apply a seeded change to /repo, run the named checks (quick), undo.
Prints one line per check: DETECTED / MISSED and the VIOLATION lines."""
import subprocess
import sys

patch, props = sys.argv[1], sys.argv[2:]
tier = "quick"
if props and props[-1] in ("quick", "thorough"):
    tier = props.pop()
r = subprocess.run(["git", "-C", "/repo", "status", "--porcelain", "--untracked-files=no"], capture_output=True, text=True)
if r.stdout.strip():
    print("repo not clean:", r.stdout)
    sys.exit(2)
r = subprocess.run(["git", "-C", "/repo", "apply", patch], capture_output=True, text=True)
if r.returncode:
    print("patch does not apply:", r.stderr)
    sys.exit(2)
try:
    for p in props:
        c = subprocess.run(["/verif/check", p, tier], capture_output=True, text=True, cwd="/verif")
        v = [l for l in c.stdout.splitlines() if l.startswith("VIOLATION")]
        print(f"{p}: {'DETECTED' if c.returncode == 1 and v else 'MISSED'} rc={c.returncode} {len(v)} violation line(s)")
        for l in v[:3]:
            print("   ", l)
        print("   ", c.stdout.splitlines()[-1] if c.stdout else c.stderr[-300:])
finally:
    subprocess.run(["git", "-C", "/repo", "checkout", "--", "."])
