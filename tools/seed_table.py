#!/usr/bin/env python3
"""seed_table.py — rewrites the table of DESIGN.md §12 (between the SEEDED-TABLE markers) from seeded/*/meta.json."""
import glob
import json
import os
import re

ROOT = os.path.dirname(os.path.dirname(os.path.abspath(__file__)))
rows = []
for p in sorted(glob.glob(os.path.join(ROOT, "seeded", "*", "meta.json"))):
    m = json.load(open(p))
    det = m.get("detected_by", {})
    caught = ", ".join(k for k, v in det.items() if v["result"] == "DETECTED") or "—"
    missed = ", ".join(k for k, v in det.items() if v["result"] != "DETECTED") or "—"
    what = m["what"].replace("|", "\\|")
    needs = m.get("needs_to_manifest", "").replace("|", "\\|")
    how = m.get("how_detected", "").replace("|", "\\|")
    rows.append(f"| `{m['id']}` | {m['breaks_property']} | {what} | {needs} | {caught} | {missed} | {how} |")
table = ["| seeded change | breaks | what was changed | needs, to manifest | checks that report it (quick tier) | run and silent | how it is caught |",
         "|---|---|---|---|---|---|---|"] + rows
d = open(os.path.join(ROOT, "DESIGN.md")).read()
new = re.sub(r"(<!-- SEEDED-TABLE-BEGIN -->\n).*?(<!-- SEEDED-TABLE-END -->)", lambda mm: mm.group(1) + "\n".join(table) + "\n" + mm.group(2), d, flags=re.S)
open(os.path.join(ROOT, "DESIGN.md"), "w").write(new)
print(len(rows), "rows")
