#!/usr/bin/env python3
# Generates Proofs/GenCipherTwofish.lean (the proofs refer to the `let` names of Gen/Cipher_Twofish.lean:
# p, p_1..p_3, p0_j..p3_j (encrypt), c0_j..c3_j (decrypt)).  Usage: gen_twofish_cipher.py OUT.lean
import sys
QORD=[[1,1,0,0,1],[0,1,1,0,0],[0,0,0,1,1],[1,0,1,1,0]]
S=" ".join(f"s{i}" for i in range(16))
KS=" ".join(f"k{i}" for i in range(40))
SA="#["+", ".join(f"s{i}" for i in range(16))+"]"
KA="⟨#["+", ".join(f"k{i}" for i in range(40))+"], rfl⟩"
def gexpr(st):
    parts=[]
    for y in range(4):
        g=f"twofish_sbox_{QORD[y][st]} ((x >>> {8*y}).setWidth 8)"
        for z in range(st+1,5):
            g=f"twofish_sbox_{QORD[y][z]} ({g} ^^^ s{4*(z-st-1)+y})"
        parts.append(f"twofish_mds_column_mult_{y} ({g})")
    e="0x0#32"
    for p in parts: e=f"({e} ^^^ {p})"
    return e
out=[]
out.append('''import Lean
import BlockCiphers.Gen.Cipher_Twofish
import BlockCiphers.Proofs.GenFnTwofish
import BlockCiphers.Impl.Twofish
import Std.Tactic.BVDecide
/-
Tie theorems for Twofish's block functions: the regenerated `Twofish::encrypt_block` / `decrypt_block`
(`Gen/Cipher_Twofish.lean`; one pair per value of the field `start` = 0, 1, 2, i.e. 32-, 24-, 16-byte keys; `g_func` is
inlined, its calls of `sbox` and `mds_column_mult` are calls of the regenerated leaf definitions of `Gen/Fn_Twofish.lean`) ARE
the model's `encryptWith` / `decryptWith` with `gFunc self.s start` on the same `s` and sub-keys `k`, for ALL values of the
fields and ALL blocks.

* `gG<start>`: the inlined `g_func` of the generated text as a function of `x`; `gG<start>_eq`: it is the model's
  `gFunc #[s0..s15] start` (leaf ties `sbox_?_eq`, `mds_column_mult_?_eq` of `Proofs/GenFnTwofish.lean`);
* `encE` / `decE`: the model's `encryptWith` / `decryptWith` with the 8 rounds unrolled on explicit sub-keys
  (`encryptWith_eq`, `decryptWith_eq`; `encRoundE` / `decRoundE` = `encRound` / `decRound` with the four keys of the round);
* per function: `unfold; extract_lets` (the ~1000-1500 `let`s stay local definitions, nothing is zeta-reduced), each model
  round on the generated state variables is recognised BY `rfl` as the next generated state variables (`R0..R7`: one
  `encRoundE` = 2 half-rounds = 4 inlined `g_func`s), and the model's round chain is rewritten one round at a time.
  The rounds are ARX: no bit-blasting, only syntactic equality up to unfolding.
This file is produced by `gen_twofish_cipher.py` (it refers to the `let` names of `Gen/Cipher_Twofish.lean`: `p, p_1..p_3`,
`p0_j..p3_j`, `c0_j..c3_j`): after a re-translation re-run the script, then check the file with `lean`.
-/
set_option maxRecDepth 100000
set_option linter.unusedSimpArgs false
set_option linter.unusedVariables false
namespace BC.GenCipher.Twofish
open BC BC.Gen.Fn BC.Twofish
''')
for y in range(4):
    for z in range(5):
        out.append(f"theorem qord_{y}_{z} : qord {y} {z} = {QORD[y][z]} := by decide")
out.append('''
theorem range4 : List.range 4 = [0, 1, 2, 3] := by decide
theorem range_3_2 : List.range' 3 2 = [3, 4] := by decide
theorem range_2_3 : List.range' 2 3 = [2, 3, 4] := by decide
theorem range_1_4 : List.range' 1 4 = [1, 2, 3, 4] := by decide
''')
for st in range(3):
    out.append(f"def gG{st} ({S} : BitVec 8) (x : BitVec 32) : BitVec 32 :=\n  {gexpr(st)}\n")
    getd=", ".join(f"BC.GenFn.Twofish.getD16_{i}" for i in range(16))
    qs=", ".join(f"qord_{y}_{z}" for y in range(4) for z in range(5))
    out.append(f'''theorem gG{st}_eq ({S} : BitVec 8) : gG{st} {S} = gFunc {SA} {st} := by
  funext x
  simp only [gG{st}, gFunc, gInner, range4, range_3_2, range_2_3, range_1_4, List.foldl,
    BC.GenFn.Twofish.sbox_0_eq, BC.GenFn.Twofish.sbox_1_eq, BC.GenFn.Twofish.mds_column_mult_0_eq, BC.GenFn.Twofish.mds_column_mult_1_eq,
    BC.GenFn.Twofish.mds_column_mult_2_eq, BC.GenFn.Twofish.mds_column_mult_3_eq,
    Nat.reduceMul, Nat.reduceAdd, Nat.reduceSub, {qs}, {getd}]
''')
def roundE():
    return f'''
def encRoundE (g : BitVec 32 → BitVec 32) (ka kb kc kd : BitVec 32) (s : St) : St :=
  let t1 := g (s.p1.rotateLeft 8)
  let t0 := g s.p0 + t1
  let p2 := (s.p2 ^^^ (t0 + ka)).rotateRight 1
  let t2 := t1 + t0 + kb
  let p3 := s.p3.rotateLeft 1 ^^^ t2
  let t1 := g (p3.rotateLeft 8)
  let t0 := g p2 + t1
  let p0 := (s.p0 ^^^ (t0 + kc)).rotateRight 1
  let t2 := t1 + t0 + kd
  let p1 := s.p1.rotateLeft 1 ^^^ t2
  {{ p0 := p0, p1 := p1, p2 := p2, p3 := p3 }}

def decRoundE (g : BitVec 32 → BitVec 32) (ka kb kc kd : BitVec 32) (c : St) : St :=
  let t1 := g (c.p3.rotateLeft 8)
  let t0 := g c.p2 + t1
  let c0 := c.p0.rotateLeft 1 ^^^ (t0 + kc)
  let t2 := t1 + t0 + kd
  let c1 := (c.p1 ^^^ t2).rotateRight 1
  let t1 := g (c1.rotateLeft 8)
  let t0 := g c0 + t1
  let c2 := c.p2.rotateLeft 1 ^^^ (t0 + ka)
  let t2 := t1 + t0 + kb
  let c3 := (c.p3 ^^^ t2).rotateRight 1
  {{ p0 := c0, p1 := c1, p2 := c2, p3 := c3 }}

def bw0 (b : BitVec 128) : BitVec 32 := b.extractLsb' 96 8 ++ b.extractLsb' 104 8 ++ b.extractLsb' 112 8 ++ b.extractLsb' 120 8
def bw1 (b : BitVec 128) : BitVec 32 := b.extractLsb' 64 8 ++ b.extractLsb' 72 8 ++ b.extractLsb' 80 8 ++ b.extractLsb' 88 8
def bw2 (b : BitVec 128) : BitVec 32 := b.extractLsb' 32 8 ++ b.extractLsb' 40 8 ++ b.extractLsb' 48 8 ++ b.extractLsb' 56 8
def bw3 (b : BitVec 128) : BitVec 32 := b.extractLsb' 0 8 ++ b.extractLsb' 8 8 ++ b.extractLsb' 16 8 ++ b.extractLsb' 24 8
theorem blockWord_0 (b : BitVec 128) : blockWord b 0 = bw0 b := by
  simp only [blockWord, bswap32, bw0]; bv_decide
theorem blockWord_1 (b : BitVec 128) : blockWord b 1 = bw1 b := by
  simp only [blockWord, bswap32, bw1]; bv_decide
theorem blockWord_2 (b : BitVec 128) : blockWord b 2 = bw2 b := by
  simp only [blockWord, bswap32, bw2]; bv_decide
theorem blockWord_3 (b : BitVec 128) : blockWord b 3 = bw3 b := by
  simp only [blockWord, bswap32, bw3]; bv_decide
def sw (w0 w1 w2 w3 : BitVec 32) : BitVec 128 :=
    (w0.extractLsb' 0 8 ++ w0.extractLsb' 8 8 ++ w0.extractLsb' 16 8 ++ w0.extractLsb' 24 8 ++
     w1.extractLsb' 0 8 ++ w1.extractLsb' 8 8 ++ w1.extractLsb' 16 8 ++ w1.extractLsb' 24 8 ++
     w2.extractLsb' 0 8 ++ w2.extractLsb' 8 8 ++ w2.extractLsb' 16 8 ++ w2.extractLsb' 24 8 ++
     w3.extractLsb' 0 8 ++ w3.extractLsb' 8 8 ++ w3.extractLsb' 16 8 ++ w3.extractLsb' 24 8 : BitVec 128)
theorem storeWords_eq (w0 w1 w2 w3 : BitVec 32) : storeWords w0 w1 w2 w3 = sw w0 w1 w2 w3 := by
  simp only [storeWords, bswap32, sw]; bv_decide
'''
out.append(roundE())
for r in range(8):
    out.append(f"theorem encRound_{r} (g : BitVec 32 → BitVec 32) ({KS} : BitVec 32) (s : St) : encRound g {KA} s {r} = encRoundE g k{4*r+8} k{4*r+9} k{4*r+10} k{4*r+11} s := rfl")
    out.append(f"theorem decRound_{r} (g : BitVec 32 → BitVec 32) ({KS} : BitVec 32) (s : St) : decRound g {KA} s {r} = decRoundE g k{4*r+8} k{4*r+9} k{4*r+10} k{4*r+11} s := rfl")
def chain(fn, order, init):
    e=init
    for r in order:
        e=f"{fn} g k{4*r+8} k{4*r+9} k{4*r+10} k{4*r+11} ({e})"
    return e
encc=chain("encRoundE", range(8), "St.mk (bw0 b ^^^ k0) (bw1 b ^^^ k1) (bw2 b ^^^ k2) (bw3 b ^^^ k3)")
decc=chain("decRoundE", reversed(range(8)), "St.mk (bw2 b ^^^ k6) (bw3 b ^^^ k7) (bw0 b ^^^ k4) (bw1 b ^^^ k5)")
out.append(f'''
def encOut (k4 k5 k6 k7 : BitVec 32) (p : St) : BitVec 128 := sw (p.p2 ^^^ k4) (p.p3 ^^^ k5) (p.p0 ^^^ k6) (p.p1 ^^^ k7)
def decOut (k0 k1 k2 k3 : BitVec 32) (c : St) : BitVec 128 := sw (c.p0 ^^^ k0) (c.p1 ^^^ k1) (c.p2 ^^^ k2) (c.p3 ^^^ k3)
def encE (g : BitVec 32 → BitVec 32) ({KS} : BitVec 32) (b : BitVec 128) : BitVec 128 :=
  encOut k4 k5 k6 k7 ({encc})
def decE (g : BitVec 32 → BitVec 32) ({KS} : BitVec 32) (b : BitVec 128) : BitVec 128 :=
  decOut k0 k1 k2 k3 ({decc})
theorem K_0 ({KS} : BitVec 32) : ({KA} : Vector (BitVec 32) 40)[0] = k0 := rfl
theorem K_1 ({KS} : BitVec 32) : ({KA} : Vector (BitVec 32) 40)[1] = k1 := rfl
theorem K_2 ({KS} : BitVec 32) : ({KA} : Vector (BitVec 32) 40)[2] = k2 := rfl
theorem K_3 ({KS} : BitVec 32) : ({KA} : Vector (BitVec 32) 40)[3] = k3 := rfl
theorem K_4 ({KS} : BitVec 32) : ({KA} : Vector (BitVec 32) 40)[4] = k4 := rfl
theorem K_5 ({KS} : BitVec 32) : ({KA} : Vector (BitVec 32) 40)[5] = k5 := rfl
theorem K_6 ({KS} : BitVec 32) : ({KA} : Vector (BitVec 32) 40)[6] = k6 := rfl
theorem K_7 ({KS} : BitVec 32) : ({KA} : Vector (BitVec 32) 40)[7] = k7 := rfl
theorem encryptWith_eq (g : BitVec 32 → BitVec 32) ({KS} : BitVec 32) (b : BitVec 128) :
    encryptWith g {KA} b = encE g {KS} b := by
  simp only [encryptWith, encE, encOut, roundIdx, List.foldl, encRound_0, encRound_1, encRound_2, encRound_3, encRound_4, encRound_5, encRound_6, encRound_7,
    blockWord_0, blockWord_1, blockWord_2, blockWord_3, storeWords_eq, K_0, K_1, K_2, K_3, K_4, K_5, K_6, K_7]
theorem decryptWith_eq (g : BitVec 32 → BitVec 32) ({KS} : BitVec 32) (b : BitVec 128) :
    decryptWith g {KA} b = decE g {KS} b := by
  simp only [decryptWith, decE, decOut, roundIdx, List.reverse_cons, List.reverse_nil, List.nil_append, List.cons_append, List.foldl, decRound_0, decRound_1, decRound_2, decRound_3, decRound_4, decRound_5, decRound_6, decRound_7,
    blockWord_0, blockWord_1, blockWord_2, blockWord_3, storeWords_eq, K_0, K_1, K_2, K_3, K_4, K_5, K_6, K_7]
''')
out.insert(1, '''
open Lean Elab Tactic Meta in
/-- make the (hygienic) names of the local `let` variables introduced by `extract_lets` accessible -/
elab "name_lets" : tactic => do
  liftMetaTactic fun g => g.withContext do
    let mut lctx ← getLCtx
    for d in lctx do
      if d.isLet then lctx := lctx.setUserName d.fvarId d.userName.eraseMacroScopes
    let g' ← mkFreshExprMVarAt lctx (← getLocalInstances) (← g.getType) .syntheticOpaque (← g.getTag)
    g.assign g'
    return [g'.mvarId!]
''')
# encrypt: half-round names
def sfx(n): return "" if n==0 else f"_{n}"
def enc_proof(st):
    L=[]
    L.append(f"  unfold twofish_s{st}_encrypt_block")
    L.append("  extract_lets -merge")
    L.append("  name_lets")
    prev=("p","p_1","p_2","p_3")
    for r in range(8):
        cur=(f"p0{sfx(r)}",f"p1{sfx(r)}",f"p2{sfx(r)}",f"p3{sfx(r)}")
        L.append(f"  have R{r} : encRoundE (gG{st} {S}) k{4*r+8} k{4*r+9} k{4*r+10} k{4*r+11} ⟨{prev[0]}, {prev[1]}, {prev[2]}, {prev[3]}⟩ = ⟨{cur[0]}, {cur[1]}, {cur[2]}, {cur[3]}⟩ := rfl")
        prev=cur
    L.append("  show _ = encE _ "+KS+" b")
    L.append("  unfold encE")
    L.append("  have I : St.mk (bw0 b ^^^ k0) (bw1 b ^^^ k1) (bw2 b ^^^ k2) (bw3 b ^^^ k3) = ⟨p, p_1, p_2, p_3⟩ := rfl")
    L.append("  rw [I, R0, R1, R2, R3, R4, R5, R6, R7]")
    L.append("  rfl")
    return "\n".join(L)
def dec_proof(st):
    L=[]
    L.append(f"  unfold twofish_s{st}_decrypt_block")
    L.append("  extract_lets -merge")
    L.append("  name_lets")
    prev=("(bw2 b ^^^ k6)","(bw3 b ^^^ k7)","(bw0 b ^^^ k4)","(bw1 b ^^^ k5)")
    rs=[]
    for j in range(8):
        r=7-j
        cur=(f"c0{sfx(j)}",f"c1{sfx(j)}",f"c2{sfx(j)}",f"c3{sfx(j)}")
        L.append(f"  have R{j} : decRoundE (gG{st} {S}) k{4*r+8} k{4*r+9} k{4*r+10} k{4*r+11} ⟨{prev[0]}, {prev[1]}, {prev[2]}, {prev[3]}⟩ = ⟨{cur[0]}, {cur[1]}, {cur[2]}, {cur[3]}⟩ := rfl")
        prev=cur
    L.append("  show _ = decE _ "+KS+" b")
    L.append("  unfold decE")
    L.append("  rw [R0, R1, R2, R3, R4, R5, R6, R7]")
    L.append("  rfl")
    return "\n".join(L)
for st in range(3):
    out.append(f'''
theorem s{st}_encrypt_G ({S} : BitVec 8) ({KS} : BitVec 32) (b : BitVec 128) :
    twofish_s{st}_encrypt_block {S} {KS} b = encE (gG{st} {S}) {KS} b := by
{enc_proof(st)}

theorem s{st}_decrypt_G ({S} : BitVec 8) ({KS} : BitVec 32) (b : BitVec 128) :
    twofish_s{st}_decrypt_block {S} {KS} b = decE (gG{st} {S}) {KS} b := by
{dec_proof(st)}

/-- the regenerated `Twofish::encrypt_block` with `start = {st}` is the model's `encryptWith (gFunc self.s {st}) self.k`, for all `s`, `k`, blocks -/
theorem s{st}_encrypt_block_eq ({S} : BitVec 8) ({KS} : BitVec 32) (b : BitVec 128) :
    twofish_s{st}_encrypt_block {S} {KS} b = encryptWith (gFunc {SA} {st}) {KA} b := by
  rw [s{st}_encrypt_G, encryptWith_eq, gG{st}_eq]

/-- the regenerated `Twofish::decrypt_block` with `start = {st}` is the model's `decryptWith (gFunc self.s {st}) self.k`, for all `s`, `k`, blocks -/
theorem s{st}_decrypt_block_eq ({S} : BitVec 8) ({KS} : BitVec 32) (b : BitVec 128) :
    twofish_s{st}_decrypt_block {S} {KS} b = decryptWith (gFunc {SA} {st}) {KA} b := by
  rw [s{st}_decrypt_G, decryptWith_eq, gG{st}_eq]
''')
out.append("end BC.GenCipher.Twofish")
open(sys.argv[1] if len(sys.argv)>1 else "GenCipherTwofish.lean","w").write("\n".join(out))
