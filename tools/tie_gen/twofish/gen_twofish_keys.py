#!/usr/bin/env python3
# Generates Proofs/GenKeysTwofish.lean (the proofs refer to the `let` names of Gen/Keys_Twofish.lean:
# out_{8j+7}, z_{8i+3}, z_{8i+7}, v_i, t_i).  Usage: gen_twofish_keys.py OUT.lean
import sys
NS=[16,24,32]
def kb(n,i): return f"key.extractLsb' {8*(n-1-i)} 8"
def arr_lit(n): return "#["+", ".join(kb(n,i) for i in range(n))+"]"
out=[]
out.append('''import Lean
import BlockCiphers.Gen.Keys_Twofish
import BlockCiphers.Proofs.GenFnTwofish
import BlockCiphers.Impl.Twofish
import Std.Tactic.BVDecide
/-
Key-schedule ties for Twofish: the regenerated `Twofish::new_from_slice` for 16-, 24- and 32-byte keys
(`Gen/Keys_Twofish.lean`: `key_schedule` with `h` and `rs_mult` inlined, calling the regenerated leaf definitions `sbox`,
`mds_column_mult`, `gf_mult` of `Gen/Fn_Twofish.lean`) builds exactly the fields of the model's `keySchedule` on the same
key bytes: the S-box key words `s[0..16]`, the 40 sub-keys `k`, and `start`; for ALL keys.

* `ks<n> key`: the model's `keySchedule` on the n bytes of `key` with every field written out
  (`keySchedule_<n> : keySchedule (unpackBE n key).toArray = ks<n> key`; `s[i]` = `rsE … (i % 4)` = `rsMultRow` on the 8 key
  bytes of word `i / 4`, `k[2i]`, `k[2i+1]` = `skV`, `skT` of the two `h` values `hA`, `hB` of iteration `i`);
* per constructor: `unfold; extract_lets`; the inlined `rs_mult` / `h` texts are recognised BY `rfl` as the regenerated
  leaf functions `twofish_rs_mult` / `twofish_h_<k>_<offset>` on the constant argument `rho * (2 i)`, `rho * (2 i + 1)`
  (the translator constant-folded the bytes of that argument), whose ties `rs_mult_eq`, `h_<k>_<offset>_eq`
  (`Proofs/GenFnTwofish.lean`) give the model's `rsMultRow` / `h`; the additions / rotations are matched structurally.
This file is produced by `gen_twofish_keys.py` (it refers to the `let` names of `Gen/Keys_Twofish.lean`: `out_{8j+7}`,
`z_{8i+3}`, `z_{8i+7}`, `v_i`, `t_i`): after a re-translation re-run the script, then check the file with `lean`.
-/
set_option maxRecDepth 100000
set_option linter.unusedSimpArgs false
set_option linter.unusedVariables false
namespace BC.GenKeys.Twofish
open BC BC.Gen.Fn BC.Twofish BC.GenFn.Twofish

open Lean Elab Tactic Meta in
/-- make the (hygienic) names of the local `let` variables introduced by `extract_lets` accessible -/
elab "name_lets" : tactic => do
  liftMetaTactic fun g => g.withContext do
    let mut lctx ← getLCtx
    for d in lctx do
      if d.isLet then lctx := lctx.setUserName d.fvarId d.userName.eraseMacroScopes
    let g' ← mkFreshExprMVarAt lctx (← getLocalInstances) (← g.getType) .syntheticOpaque (← g.getTag)
    g.assign g'
    return [g'.mvarId!]
''')
tupty=" × ".join(["BitVec 8"]*16+["BitVec 32"]*40+["BitVec 64"])
tup=", ".join([f"ks.s.getD {i} 0#8" for i in range(16)]+[f"ks.k[{i}]" for i in range(40)]+["BitVec.ofNat 64 ks.start"])
out.append(f'''/-- the fields of the `Twofish` struct (`s: [u8; 16]`, `k: [u32; 40]`, `start: usize`) flattened in declaration order -/
def ksTuple (ks : Keys) : {tupty} :=
  ({tup})

/-- `self.k[2i]` from the two `h` values of iteration `i` of `key_schedule` -/
def skV (a hb : BitVec 32) : BitVec 32 := a + hb.rotateLeft 8
/-- `self.k[2i+1]` -/
def skT (a hb : BitVec 32) : BitVec 32 := ((a + hb.rotateLeft 8) + hb.rotateLeft 8).rotateLeft 9
def hA (m : Array (BitVec 8)) (k i : Nat) : BitVec 32 := h (rho * (2#32 * BitVec.ofNat 32 i)) m k 0
def hB (m : Array (BitVec 8)) (k i : Nat) : BitVec 32 := h (rho * (2#32 * BitVec.ofNat 32 i + 1#32)) m k 1
/-- row `i` of `rs_mult` on eight explicit bytes -/
def rsE (m0 m1 m2 m3 m4 m5 m6 m7 : BitVec 8) (i : Nat) : BitVec 8 :=
  rsMultRow (fun j => [m0, m1, m2, m3, m4, m5, m6, m7].getD j 0#8) i

theorem range16 : List.range 16 = [0, 1, 2, 3, 4, 5, 6, 7, 8, 9, 10, 11, 12, 13, 14, 15] := by decide
theorem range20 : List.range 20 = [0, 1, 2, 3, 4, 5, 6, 7, 8, 9, 10, 11, 12, 13, 14, 15, 16, 17, 18, 19] := by decide
theorem range24 : List.range 24 = [0, 1, 2, 3, 4, 5, 6, 7, 8, 9, 10, 11, 12, 13, 14, 15, 16, 17, 18, 19, 20, 21, 22, 23] := by decide
theorem range32 : List.range 32 = [0, 1, 2, 3, 4, 5, 6, 7, 8, 9, 10, 11, 12, 13, 14, 15, 16, 17, 18, 19, 20, 21, 22, 23, 24, 25, 26, 27, 28, 29, 30, 31] := by decide

theorem shr_setWidth8 {{w : Nat}} (x : BitVec w) (n : Nat) : (x >>> n).setWidth 8 = x.extractLsb' n 8 := by
  apply BitVec.eq_of_toNat_eq
  simp [BitVec.toNat_setWidth, BitVec.extractLsb'_toNat]
''')
sklist=", ".join(f"skV (hA m k {i}) (hB m k {i}), skT (hA m k {i}) (hB m k {i})" for i in range(20))
out.append(f'''/-- two `Keys` with the same fields are equal -/
theorem keys_eq (a b : Keys) (hs : a.s = b.s) (hk : a.k.toArray = b.k.toArray) (ht : a.start = b.start) : a = b := by
  cases a with | mk s k st => cases b with | mk s' k' st' =>
  cases k; cases k'
  simp only at hs hk ht
  subst hs; subst hk; subst ht
  rfl
theorem ks_s (m : Array (BitVec 8)) : (keySchedule m).s = sboxKey m (m.size / 8) := rfl
theorem ks_k (m : Array (BitVec 8)) : (keySchedule m).k.toArray = (subkeyList m (m.size / 8)).toArray := rfl
theorem ks_start (m : Array (BitVec 8)) : (keySchedule m).start = match m.size / 8 with | 4 => 0 | 3 => 1 | 2 => 2 | _ => 0 := rfl

/-- the 40 sub-keys of the model's `key_schedule`, listed -/
theorem subkeyList_lit (m : Array (BitVec 8)) (k : Nat) : subkeyList m k = [{sklist}] := by
  simp only [subkeyList, range20, List.flatMap_cons, List.flatMap_nil, subkeyPair, skV, skT, hA, hB, List.cons_append, List.nil_append, List.append_nil]
''')
STARTW={16:2,24:1,32:0}
for n in NS:
    k=n//8; st=STARTW[n]
    bs=" ".join(f"b{i}" for i in range(n))
    blit="#["+", ".join(f"b{i}" for i in range(n))+"]"
    ents=[]
    for idx in range(16):
        i=idx//4
        if i<k: ents.append("rsE "+" ".join(f"b{8*i+j}" for j in range(8))+f" {idx%4}")
        else: ents.append("0#8")
    getd=", ".join(f"getD{n}_{i}" for i in range(n))
    out.append(f'''/-- `self.s` of the model for a {n}-byte key given by explicit bytes -/
theorem sboxKey_{n} ({bs} : BitVec 8) : sboxKey {blit} {k} = #[{", ".join(ents)}] := by
  simp only [sboxKey, range16, List.map_toArray, List.map_cons, List.map_nil, Nat.reduceDiv, Nat.reduceMod, Nat.reduceLT, if_true, if_false,
    rsE, rsMultRow, range8, List.foldl, Nat.reduceMul, Nat.reduceAdd, List.getD_cons_zero, List.getD_cons_succ, {getd}]
''')
    # arr, ks literal
    kents=[]
    for idx in range(16):
        i=idx//4
        if i<k: kents.append("rsE "+" ".join(f"({kb(n,8*i+j)})" for j in range(8))+f" {idx%4}")
        else: kents.append("0#8")
    A=f"(arr{n} key)"
    kk=", ".join(f"skV (hA {A} {k} {i}) (hB {A} {k} {i}), skT (hA {A} {k} {i}) (hB {A} {k} {i})" for i in range(20))
    out.append(f'''/-- the bytes of a {n}-byte key (byte 0 = most significant byte of `key`) -/
def arr{n} (key : BitVec {8*n}) : Array (BitVec 8) := {arr_lit(n)}

theorem unpack_{n} (key : BitVec {8*n}) : (unpackBE {n} key).toArray = arr{n} key := by
  simp only [unpackBE, range{n}, List.map_cons, List.map_nil, Nat.reduceSub, Nat.reduceMul, shr_setWidth8, arr{n}]

/-- the model's key schedule for a {n}-byte key, all fields listed -/
def ks{n} (key : BitVec {8*n}) : Keys :=
  {{ s := #[{", ".join(kents)}],
    k := ⟨#[{kk}], rfl⟩,
    start := {st} }}

theorem size_arr{n} (key : BitVec {8*n}) : (arr{n} key).size / 8 = {k} := by
  simp only [arr{n}, List.size_toArray, List.length_cons, List.length_nil, Nat.reduceAdd, Nat.reduceDiv]

theorem keySchedule_arr{n} (key : BitVec {8*n}) : keySchedule (arr{n} key) = ks{n} key := by
  apply keys_eq
  · rw [ks_s, size_arr{n}]; exact sboxKey_{n} ..
  · rw [ks_k, size_arr{n}, subkeyList_lit]; rfl
  · rw [ks_start, size_arr{n}]; rfl

theorem keySchedule_{n} (key : BitVec {8*n}) : keySchedule (unpackBE {n} key).toArray = ks{n} key := by
  rw [unpack_{n}, keySchedule_arr{n}]
''')
    # gen side
    L=[]
    L.append(f"  rw [keySchedule_{n}]")
    L.append(f"  unfold twofish_new_from_slice_{n}")
    L.append("  extract_lets -merge")
    L.append("  name_lets")
    def sfx(i): return "" if i==0 else f"_{i}"
    rws=[]
    for i in range(k):
        args=" ".join(f"({kb(n,8*i+j)})" for j in range(8))
        o=[f"out_{32*i+8*r+7}" for r in range(4)]
        L.append(f"  have S{i} : ({', '.join(o)}) = (rsE {args} 0, rsE {args} 1, rsE {args} 2, rsE {args} 3) := (rfl : _ = twofish_rs_mult {args}).trans (rs_mult_eq ..)")
        for r,sel in enumerate(["(·.1)","(·.2.1)","(·.2.2.1)","(·.2.2.2)"]):
            L.append(f"  have a{4*i+r} : {o[r]} = rsE {args} {r} := congrArg {sel} S{i}")
            rws.append(f"a{4*i+r}")
    for i in range(20):
        L.append(f"  have ZA{i} : z_{8*i+3} = hA {A} {k} {i} := (rfl : _ = twofish_h_{k}_0 (rho * (2#32 * BitVec.ofNat 32 {i})) key).trans (h_{k}_0_eq _ key)")
        L.append(f"  have ZB{i} : z_{8*i+7} = hB {A} {k} {i} := (rfl : _ = twofish_h_{k}_1 (rho * (2#32 * BitVec.ofNat 32 {i} + 1#32)) key).trans (h_{k}_1_eq _ key)")
        L.append(f"  have V{i} : v{sfx(i)} = skV (hA {A} {k} {i}) (hB {A} {k} {i}) := (rfl : _ = skV z_{8*i+3} z_{8*i+7}).trans (by rw [ZA{i}, ZB{i}])")
        L.append(f"  have T{i} : t{sfx(i)} = skT (hA {A} {k} {i}) (hB {A} {k} {i}) := (rfl : _ = skT z_{8*i+3} z_{8*i+7}).trans (by rw [ZA{i}, ZB{i}])")
        rws+= [f"V{i}", f"T{i}"]
    L.append("  rw ["+", ".join(rws)+"]")
    L.append("  rfl")
    out.append(f'''/-- the regenerated `Twofish::new_from_slice` for a {n}-byte key builds exactly the model's `keySchedule` (S-box key words `s`,
the 40 sub-keys `k`, `start`), for all keys -/
theorem new_from_slice_{n}_eq (key : BitVec {8*n}) :
    twofish_new_from_slice_{n} key = ksTuple (keySchedule (unpackBE {n} key).toArray) := by
''' + "\n".join(L) + "\n")
out.append("end BC.GenKeys.Twofish")
open(sys.argv[1] if len(sys.argv)>1 else "GenKeysTwofish.lean","w").write("\n".join(out))
