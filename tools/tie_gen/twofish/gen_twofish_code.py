#!/usr/bin/env python3
# Generates Proofs/CodeTwofish.lean.  Usage: gen_twofish_code.py OUT.lean
import sys
SN=[f"s{i}" for i in range(16)]; KN=[f"k{i}" for i in range(40)]
PAT="("+", ".join(SN+KN+["_start"])+")"
ARGS=" ".join(SN+KN)
STARTW={16:2,24:1,32:0}
out=[]
out.append('''import BlockCiphers.Gen.Cipher_Twofish
import BlockCiphers.Gen.Keys_Twofish
import BlockCiphers.Proofs.GenCipherTwofish
import BlockCiphers.Proofs.GenKeysTwofish
import BlockCiphers.Proofs.Twofish
import BlockCiphers.Proofs.TwofishSpec
/-!
Code-level theorems for Twofish: statements mention ONLY the regenerated code (`BC.Gen.Fn.twofish_new_from_slice_<n>`,
`twofish_s<start>_encrypt_block`, `twofish_s<start>_decrypt_block`) and the specification `BC.Spec.Twofish` (the Twofish
paper).  One family per accepted key length n = 16, 24, 32 bytes; the key is a `BitVec (8·n)` whose most significant byte is
byte 0 of the Rust slice (`(unpackBE n key).toArray` on the Spec side).  The translator emits one `encrypt_block` /
`decrypt_block` pair per value of the struct field `start`; `start_<n>` states that the regenerated constructor for n-byte
keys sets `start` to the value (2, 1, 0) whose pair `enc_<n>` / `dec_<n>` use.
Composition of
  (1) `BC.Twofish.decrypt_encrypt_key`, `encrypt_decrypt_key` (Proofs/Twofish.lean; Thm C01), `encrypt_eq_spec`,
      `decrypt_spec_encrypt`, `spec_encrypt_decrypt` (Proofs/TwofishSpec.lean; Thm C08; the specification defines
      encryption only, so "decrypt = Spec" is stated as: `dec` is the two-sided inverse of `Spec.Twofish.encrypt`),
  (2) `BC.GenCipher.Twofish.s<start>_encrypt_block_eq` / `s<start>_decrypt_block_eq`,
  (3) `BC.GenKeys.Twofish.new_from_slice_<n>_eq` (with `keySchedule_<n>`: all fields of the model's key schedule listed).
-/
set_option maxRecDepth 100000
namespace BC.Code.Twofish
open BC BC.Gen.Fn
''')
for n in [16,24,32]:
    st=STARTW[n]; w=8*n
    tupS=" ".join(f"((BC.GenKeys.Twofish.ks{n} key).s.getD {i} 0#8)" for i in range(16))
    tupK=" ".join(f"((BC.GenKeys.Twofish.ks{n} key).k[{i}])" for i in range(40))
    out.append(f'''/-! ### {n}-byte keys (`start = {st}`) -/

/-- `Twofish::new_from_slice(key).encrypt_block(b)` for a {n}-byte key, on the regenerated code -/
def enc_{n} (key : BitVec {w}) (b : BitVec 128) : BitVec 128 :=
  match twofish_new_from_slice_{n} key with
  | {PAT} =>
    twofish_s{st}_encrypt_block {ARGS} b

/-- `Twofish::new_from_slice(key).decrypt_block(b)` for a {n}-byte key, on the regenerated code -/
def dec_{n} (key : BitVec {w}) (b : BitVec 128) : BitVec 128 :=
  match twofish_new_from_slice_{n} key with
  | {PAT} =>
    twofish_s{st}_decrypt_block {ARGS} b

/-- the regenerated constructor for {n}-byte keys sets the field `start` to {st} (the `s{st}` pair is the one to use) -/
theorem start_{n} (key : BitVec {w}) :
    (match twofish_new_from_slice_{n} key with
     | {"("+", ".join(["_"]*56+["start"])+")"} => start) = {st}#64 := by
  rw [BC.GenKeys.Twofish.new_from_slice_{n}_eq key, BC.GenKeys.Twofish.keySchedule_{n}]
  rfl

theorem enc_{n}_eq_impl (key : BitVec {w}) (b : BitVec 128) :
    enc_{n} key b = BC.Twofish.encrypt (BC.Twofish.keySchedule (unpackBE {n} key).toArray) b := by
  unfold enc_{n}
  rw [BC.GenKeys.Twofish.new_from_slice_{n}_eq key, BC.GenKeys.Twofish.keySchedule_{n}]
  show twofish_s{st}_encrypt_block {tupS} {tupK} b = _
  rw [BC.GenCipher.Twofish.s{st}_encrypt_block_eq]
  rfl

theorem dec_{n}_eq_impl (key : BitVec {w}) (b : BitVec 128) :
    dec_{n} key b = BC.Twofish.decrypt (BC.Twofish.keySchedule (unpackBE {n} key).toArray) b := by
  unfold dec_{n}
  rw [BC.GenKeys.Twofish.new_from_slice_{n}_eq key, BC.GenKeys.Twofish.keySchedule_{n}]
  show twofish_s{st}_decrypt_block {tupS} {tupK} b = _
  rw [BC.GenCipher.Twofish.s{st}_decrypt_block_eq]
  rfl

theorem size_{n} (key : BitVec {w}) : (unpackBE {n} key).toArray.size = {n} := by
  simp [unpackBE]

theorem accepts_{n} (key : BitVec {w}) :
    (unpackBE {n} key).toArray.size = 16 ∨ (unpackBE {n} key).toArray.size = 24 ∨ (unpackBE {n} key).toArray.size = 32 := by
  rw [size_{n}]; decide

theorem dec_enc_{n} (key : BitVec {w}) (b : BitVec 128) : dec_{n} key (enc_{n} key b) = b := by
  rw [enc_{n}_eq_impl, dec_{n}_eq_impl, BC.Twofish.decrypt_encrypt_key]

theorem enc_dec_{n} (key : BitVec {w}) (b : BitVec 128) : enc_{n} key (dec_{n} key b) = b := by
  rw [enc_{n}_eq_impl, dec_{n}_eq_impl, BC.Twofish.encrypt_decrypt_key]

/-- the regenerated Twofish code = the Twofish paper's encryption, {n}-byte keys -/
theorem enc_{n}_eq_spec (key : BitVec {w}) (b : BitVec 128) :
    enc_{n} key b = BC.Spec.Twofish.encrypt (unpackBE {n} key).toArray b := by
  rw [enc_{n}_eq_impl, BC.Twofish.encrypt_eq_spec _ (accepts_{n} key)]

/-- the regenerated `decrypt_block` inverts the paper's encryption (left inverse), {n}-byte keys -/
theorem dec_{n}_spec_encrypt (key : BitVec {w}) (b : BitVec 128) :
    dec_{n} key (BC.Spec.Twofish.encrypt (unpackBE {n} key).toArray b) = b := by
  rw [dec_{n}_eq_impl, BC.Twofish.decrypt_spec_encrypt _ (accepts_{n} key)]

/-- … and is its right inverse: `dec_{n} key` IS the inverse permutation of `Spec.Twofish.encrypt key` -/
theorem spec_encrypt_dec_{n} (key : BitVec {w}) (b : BitVec 128) :
    BC.Spec.Twofish.encrypt (unpackBE {n} key).toArray (dec_{n} key b) = b := by
  rw [dec_{n}_eq_impl, BC.Twofish.spec_encrypt_decrypt _ (accepts_{n} key)]
''')
out.append("end BC.Code.Twofish")
open(sys.argv[1] if len(sys.argv)>1 else "CodeTwofish.lean","w").write("\n".join(out))
