#!/usr/bin/env python3
# generates out/GenCipherRc2.lean
K = [f"k{i}" for i in range(64)]
kb = " ".join(K)
kl = ", ".join(K)
kc = " :: ".join(K) + " :: []"
out = []
o = out.append
o('''import BlockCiphers.Gen.Cipher_Rc2
import BlockCiphers.Impl.Rc2
import Std.Tactic.BVDecide
/-
Tie of the regenerated whole-cipher functions of the `rc2` crate (`Gen/Cipher_Rc2.lean`: `Rc2::encrypt_block`,
`Rc2::decrypt_block`) to the model `BC.Rc2.encrypt/decrypt` of `Impl/Rc2.lean`, for ALL 64 expanded key words and ALL
blocks.

RC2 is an ARX cipher with data-dependent reads of the key table (`mash`), so nothing is bit-blasted except the byte
loads/stores:
 * `sel_eq` : the data-dependent read `BC.Gen.selAt [k0,…,k63] ((r &&& 0x3f).setWidth 64).toNat` of the regenerated text is
   the model's `keyMasked #v[k0,…,k63] r` (index bound from the mask);
 * `load_eq`, `store_eq` : the model's `bswap16`-based load/store written with the byte extractions of the regenerated
   text (bridging lemmas about the model, `bv_decide` on 16/64 bits);
 * `keyAt_j` : `keyAt #v[k0,…,k63] j = kj` for the literal `j` of the 64 unrolled `mix` steps; `encIter_i`/`decIter_i` : the
   `if i == 4 || i == 10` of the loop body decided for the literal `i`;
 * then both sides are unfolded and agree syntactically, once the widths `8+8` that the byte concatenations of the
   regenerated text carry in their types / instances are normalised to literals.
-/
namespace BC.GenCipher.Rc2
open BC.Gen.Fn BC.Rc2
set_option maxRecDepth 100000
set_option linter.unusedSimpArgs false
set_option linter.unusedVariables false
''')
o(f'''/-- the 64 expanded key words `self.keys` as the model's vector -/
def mkKeys ({kb} : BitVec 16) : Vector (BitVec 16) 64 :=
  #v[{kl}]

/-! ### data-dependent reads of the key table (`mash`, `reverse_mash`) -/

theorem mask_lt (r : BitVec 16) : (r &&& 0x3f#16).toNat < 64 := by
  rw [BitVec.toNat_and]
  exact Nat.lt_succ_of_le Nat.and_le_right

theorem idx_eq (r : BitVec 16) : ((r &&& 0x3f#16).setWidth 64).toNat = (r &&& 0x3f#16).toNat := by
  have h := mask_lt r
  rw [BitVec.toNat_setWidth]
  exact Nat.mod_eq_of_lt (by omega)

theorem getD_vec (l : List (BitVec 16)) (i : Nat) (h : i < l.length) :
    l.getD i 0 = (Vector.mk l.toArray rfl)[i]'(by simpa using h) := by
  simp [List.getD_eq_getElem?_getD, h]

theorem getD_eq ({kb} : BitVec 16) (i : Nat) (h : i < 64) :
    ({kc}).getD i 0 = (mkKeys {kb})[i]'h :=
  getD_vec _ i (by simpa using h)

theorem sel_eq ({kb} : BitVec 16) (r : BitVec 16) :
    BC.Gen.selAt ({kc}) ((r &&& 0x3f#16).setWidth 64).toNat = keyMasked (mkKeys {kb}) r := by
  rw [idx_eq]
  exact getD_eq {kb} _ (mask_lt r)

/-! ### load / store (bridging lemmas about the model) -/

theorem load_eq (b : BitVec 64) : load b =
    {{ r0 := b.extractLsb' 48 8 ++ b.extractLsb' 56 8, r1 := b.extractLsb' 32 8 ++ b.extractLsb' 40 8,
      r2 := b.extractLsb' 16 8 ++ b.extractLsb' 24 8, r3 := b.extractLsb' 0 8 ++ b.extractLsb' 8 8 }} := by
  simp only [load, bswap16, St.mk.injEq]
  bv_decide (config := {{ timeout := 300 }})

theorem store_eq (s : St) : store s =
    s.r0.extractLsb' 0 8 ++ s.r0.extractLsb' 8 8 ++ s.r1.extractLsb' 0 8 ++ s.r1.extractLsb' 8 8 ++
    s.r2.extractLsb' 0 8 ++ s.r2.extractLsb' 8 8 ++ s.r3.extractLsb' 0 8 ++ s.r3.extractLsb' 8 8 := by
  simp only [store, bswap16]
  bv_decide (config := {{ timeout := 300 }})

/-! ### `self.keys[j]` and the loop body for literal `j`, `i` -/
''')
for j in range(64):
    o(f"theorem keyAt_{j} ({kb} : BitVec 16) : keyAt (mkKeys {kb}) {j} = k{j} := rfl")
o("")
for i in range(16):
    if i in (4, 10):
        o(f"theorem encIter_{i} (k : Vector (BitVec 16) 64) (l : Loop) : encIter k l {i} = {{ r := mash k (mix k l).r, j := (mix k l).j }} := rfl")
        o(f"theorem decIter_{i} (k : Vector (BitVec 16) 64) (l : Loop) : decIter k l {i} = {{ r := reverseMash k (reverseMix k l).r, j := (reverseMix k l).j }} := rfl")
    else:
        o(f"theorem encIter_{i} (k : Vector (BitVec 16) 64) (l : Loop) : encIter k l {i} = mix k l := rfl")
        o(f"theorem decIter_{i} (k : Vector (BitVec 16) 64) (l : Loop) : decIter k l {i} = reverseMix k l := rfl")
o('''
theorem range_16 : List.range 16 = [0, 1, 2, 3, 4, 5, 6, 7, 8, 9, 10, 11, 12, 13, 14, 15] := rfl
''')
keyats = ", ".join(f"keyAt_{j}" for j in range(64))
encs = ", ".join(f"encIter_{i}" for i in range(16))
decs = ", ".join(f"decIter_{i}" for i in range(16))
common = f"sel_eq, hL, hS, range_16, List.foldl,\n    Nat.reduceAdd, Nat.reduceSub, Nat.reducePow, Nat.reduceMod,\n    {keyats}"
o(f'''/-- **RC2 `encrypt_block`**: regenerated function = model, all expanded key words, all blocks -/
theorem encrypt_block_eq' ({kb} : BitVec 16) (b : BitVec 64) :
    rc2_encrypt_block {kb} b = BC.Rc2.encrypt (mkKeys {kb}) b := by
  have hL := load_eq b
  have hS := fun s => store_eq s
  dsimp (config := {{ instances := true }}) only [Nat.reduceAdd] at hL hS
  simp only [rc2_encrypt_block]
  dsimp (config := {{ instances := true }}) only [Nat.reduceAdd]
  simp only [BC.Rc2.encrypt, encryptWords, mix, mash, {encs},
    {common}]

/-- **RC2 `decrypt_block`** -/
theorem decrypt_block_eq' ({kb} : BitVec 16) (b : BitVec 64) :
    rc2_decrypt_block {kb} b = BC.Rc2.decrypt (mkKeys {kb}) b := by
  have hL := load_eq b
  have hS := fun s => store_eq s
  dsimp (config := {{ instances := true }}) only [Nat.reduceAdd] at hL hS
  simp only [rc2_decrypt_block]
  dsimp (config := {{ instances := true }}) only [Nat.reduceAdd]
  simp only [BC.Rc2.decrypt, decryptWords, reverseMix, reverseMash, {decs},
    {common}]

theorem encrypt_block_eq ({kb} : BitVec 16) (b : BitVec 64) :
    rc2_encrypt_block {kb} b
      = BC.Rc2.encrypt #v[{kl}] b :=
  encrypt_block_eq' {kb} b

theorem decrypt_block_eq ({kb} : BitVec 16) (b : BitVec 64) :
    rc2_decrypt_block {kb} b
      = BC.Rc2.decrypt #v[{kl}] b :=
  decrypt_block_eq' {kb} b

end BC.GenCipher.Rc2''')
open("/tmp/dev/w_tieC/out/GenCipherRc2.lean", "w").write("\n".join(out) + "\n")
