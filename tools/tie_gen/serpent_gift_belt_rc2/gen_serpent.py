#!/usr/bin/env python3
# generates out/GenCipherSerpent.lean
W = [f"W{i}" for i in range(33)]
wargs = " ".join(f"{w}.w0 {w}.w1 {w}.w2 {w}.w3" for w in W)
kargs = " ".join(f"k{i}_{j}" for i in range(33) for j in range(4))
kwords = " ".join(f"⟨k{i}_0, k{i}_1, k{i}_2, k{i}_3⟩" for i in range(33))
rk = "#[" + ", ".join(W) + "]"
rkk = "#[" + ", ".join(f"⟨k{i}_0, k{i}_1, k{i}_2, k{i}_3⟩" for i in range(33)) + "]"
wb = " ".join(W)

out = []
o = out.append
o('''import BlockCiphers.Gen.Cipher_Serpent
import BlockCiphers.Impl.Serpent
import BlockCiphers.Proofs.GenFuncsSerpent
import Std.Tactic.BVDecide
/-
Tie of the regenerated whole-cipher functions of the `serpent` crate (`Gen/Cipher_Serpent.lean`: `Serpent::encrypt_block`,
`Serpent::decrypt_block`, both for the default build and for `--cfg serpent_no_unroll`) to the model
`BC.Serpent.encrypt/decrypt/encryptLoop/decryptLoop` of `Impl/Serpent.lean`, for ALL 33×4 round-key words and ALL blocks.

Structure (no bit-blasting of the 32 rounds):
 1. `P.encrypt / P.decrypt` : the model's cipher with the leaf functions (`xor`, S-boxes, linear transforms,
    `read_words`, `write_words`) as parameters; the model is the instance `P.model` (by `rfl`).
 2. `P.gen` : the instance whose leaves are the *regenerated* leaf functions `BC.Gen.Fn.serpent_*` of `Gen/Funcs.lean`
    (wrapped from tuples to `Words`).  `P.gen = P.model` follows from the leaf theorems of `Proofs/GenFuncsSerpent.lean`.
 3. The regenerated whole function is the regenerated leaves inlined: unfolding both sides (`simp only`, Gen side only)
    gives syntactically the same term.
-/
namespace BC.GenCipher.Serpent
open BC.Gen.Fn BC.Serpent
set_option maxRecDepth 100000
set_option linter.unusedSimpArgs false
set_option linter.unusedVariables false

/-- the leaf functions the block functions are made of -/
structure P where
  xor : Words → Words → Words
  lt : Words → Words
  ltInv : Words → Words
  e0 : Words → Words
  e1 : Words → Words
  e2 : Words → Words
  e3 : Words → Words
  e4 : Words → Words
  e5 : Words → Words
  e6 : Words → Words
  e7 : Words → Words
  d0 : Words → Words
  d1 : Words → Words
  d2 : Words → Words
  d3 : Words → Words
  d4 : Words → Words
  d5 : Words → Words
  d6 : Words → Words
  d7 : Words → Words
  rd : BitVec 128 → Words
  wr : Words → BitVec 128

namespace P
/-- `apply_s` over the leaves of `p` -/
def applyS (p : P) (index : Nat) (w : Words) : Words :=
  match index % 8 with
  | 0 => p.e0 w
  | 1 => p.e1 w
  | 2 => p.e2 w
  | 3 => p.e3 w
  | 4 => p.e4 w
  | 5 => p.e5 w
  | 6 => p.e6 w
  | 7 => p.e7 w
  | _ => w
/-- `apply_s_inv` over the leaves of `p` -/
def applySInv (p : P) (index : Nat) (w : Words) : Words :=
  match index % 8 with
  | 0 => p.d0 w
  | 1 => p.d1 w
  | 2 => p.d2 w
  | 3 => p.d3 w
  | 4 => p.d4 w
  | 5 => p.d5 w
  | 6 => p.d6 w
  | 7 => p.d7 w
  | _ => w
def encBody (p : P) (rk : RoundKeys) (b : Words) (i : Nat) : Words :=
  let xb := p.xor b (rk.get i)
  let s := p.applyS i xb
  p.lt s
def decBody (p : P) (rk : RoundKeys) (b : Words) (i : Nat) : Words :=
  let i := 30 - i
  let s := p.ltInv b
  let xb := p.applySInv i s
  p.xor xb (rk.get i)
def encryptWordsWith (p : P) (u : (Words → Nat → Words) → Words → Words) (rk : RoundKeys) (b : Words) : Words :=
  let b := u (p.encBody rk) b
  let xb := p.xor b (rk.get (ROUNDS - 1))
  let s := p.applyS (ROUNDS - 1) xb
  p.xor s (rk.get ROUNDS)
def decryptWordsWith (p : P) (u : (Words → Nat → Words) → Words → Words) (rk : RoundKeys) (b : Words) : Words :=
  let s := p.xor b (rk.get ROUNDS)
  let xb := p.applySInv (ROUNDS - 1) s
  let b := p.xor xb (rk.get (ROUNDS - 1))
  u (p.decBody rk) b
def encrypt (p : P) (rk : RoundKeys) (blk : BitVec 128) : BitVec 128 :=
  p.wr (p.encryptWordsWith unroll31 rk (p.rd blk))
def decrypt (p : P) (rk : RoundKeys) (blk : BitVec 128) : BitVec 128 :=
  p.wr (p.decryptWordsWith unroll31 rk (p.rd blk))

/-- the hand-written model's leaves -/
def model : P :=
  { xor := BC.Serpent.xor, lt := linearTransform, ltInv := linearTransformInv,
    e0 := sboxE0, e1 := sboxE1, e2 := sboxE2, e3 := sboxE3, e4 := sboxE4, e5 := sboxE5, e6 := sboxE6, e7 := sboxE7,
    d0 := sboxD0, d1 := sboxD1, d2 := sboxD2, d3 := sboxD3, d4 := sboxD4, d5 := sboxD5, d6 := sboxD6, d7 := sboxD7,
    rd := readWords, wr := writeWords }

/-- tuple (as returned by the regenerated functions) → `Words` -/
def ofTup (t : BitVec 32 × BitVec 32 × BitVec 32 × BitVec 32) : Words := ⟨t.1, t.2.1, t.2.2.1, t.2.2.2⟩

/-- the regenerated leaves (`Gen/Funcs.lean`) -/
def gen : P :=
  { xor := fun a k => ofTup (serpent_xor a.w0 a.w1 a.w2 a.w3 k.w0 k.w1 k.w2 k.w3),
    lt := fun w => ofTup (serpent_linear_transform w.w0 w.w1 w.w2 w.w3),
    ltInv := fun w => ofTup (serpent_linear_transform_inv w.w0 w.w1 w.w2 w.w3),''')
for n in range(8):
    o(f"    e{n} := fun w => ofTup (serpent_sbox_e{n} w.w0 w.w1 w.w2 w.w3),")
for n in range(8):
    o(f"    d{n} := fun w => ofTup (serpent_sbox_d{n} w.w0 w.w1 w.w2 w.w3),")
o('''    rd := fun b => ofTup (serpent_read_words b),
    wr := fun w => serpent_write_words w.w0 w.w1 w.w2 w.w3 }

theorem ofTup_tup (w : Words) : ofTup (BC.GenFuncs.Serpent.tup w) = w := rfl

/-- regenerated leaves = model leaves (from `Proofs/GenFuncsSerpent.lean`) -/
theorem gen_eq_model : gen = model := by
  open BC.GenFuncs.Serpent in
  simp only [gen, model, xor_eq, linear_transform_eq, linear_transform_inv_eq,
    sbox_e0_eq, sbox_e1_eq, sbox_e2_eq, sbox_e3_eq, sbox_e4_eq, sbox_e5_eq, sbox_e6_eq, sbox_e7_eq,
    sbox_d0_eq, sbox_d1_eq, sbox_d2_eq, sbox_d3_eq, sbox_d4_eq, sbox_d5_eq, sbox_d6_eq, sbox_d7_eq,
    read_words_eq, write_words_eq, ofTup_tup]

theorem model_encrypt (rk : RoundKeys) (b : BitVec 128) : model.encrypt rk b = BC.Serpent.encrypt rk b := rfl
theorem model_decrypt (rk : RoundKeys) (b : BitVec 128) : model.decrypt rk b = BC.Serpent.decrypt rk b := rfl
end P

/-- `for i in 0..31` and the 31 pasted copies are the same function -/
theorem loop31_eq_unroll31 : loop31 = unroll31 := rfl
theorem encryptLoop_eq_encrypt : encryptLoop = BC.Serpent.encrypt := rfl
theorem decryptLoop_eq_decrypt : decryptLoop = BC.Serpent.decrypt := rfl
''')

# rk.get lemmas
o(f"/-- the 33 round keys as the model's `RoundKeys` -/")
o(f"def mkRk ({wb} : Words) : RoundKeys := {rk}\n")
for i in range(33):
    o(f"theorem get_{i} ({wb} : Words) : (mkRk {wb}).get {i} = W{i} := rfl")
gets = ", ".join(f"get_{i}" for i in range(33))
o("")
unf_common = ("P.applyS, P.applySInv, P.gen, P.ofTup, ROUNDS, Nat.reduceSub, Nat.reduceMod, unroll31, " + gets + ",\n    "
    "serpent_xor, serpent_linear_transform, serpent_linear_transform_inv, serpent_read_words, serpent_write_words,\n    "
    + ", ".join(f"serpent_sbox_e{n}" for n in range(8)) + ",\n    "
    + ", ".join(f"serpent_sbox_d{n}" for n in range(8)))
o(f'''/-- the regenerated `encrypt_block` is the composition of the regenerated leaves -/
theorem encrypt_block_gen ({wb} : Words) (b : BitVec 128) :
    serpent_encrypt_block {wargs} b
      = P.gen.encrypt (mkRk {wb}) b := by
  simp only [serpent_encrypt_block, P.encrypt, P.encryptWordsWith, P.encBody, {unf_common}]

/-- the regenerated `decrypt_block` is the composition of the regenerated leaves -/
theorem decrypt_block_gen ({wb} : Words) (b : BitVec 128) :
    serpent_decrypt_block {wargs} b
      = P.gen.decrypt (mkRk {wb}) b := by
  simp only [serpent_decrypt_block, P.decrypt, P.decryptWordsWith, P.decBody, {unf_common}]

/-- **Serpent `encrypt_block` (default build)**: regenerated function = model, all round keys, all blocks -/
theorem encrypt_block_eq ({wb} : Words) (b : BitVec 128) :
    serpent_encrypt_block {wargs} b
      = BC.Serpent.encrypt {rk} b := by
  rw [encrypt_block_gen, P.gen_eq_model, P.model_encrypt, mkRk]

/-- **Serpent `decrypt_block` (default build)** -/
theorem decrypt_block_eq ({wb} : Words) (b : BitVec 128) :
    serpent_decrypt_block {wargs} b
      = BC.Serpent.decrypt {rk} b := by
  rw [decrypt_block_gen, P.gen_eq_model, P.model_decrypt, mkRk]

/-- **Serpent `encrypt_block` (`--cfg serpent_no_unroll`)** -/
theorem loop_encrypt_block_eq ({wb} : Words) (b : BitVec 128) :
    serpent_loop_encrypt_block {wargs} b
      = BC.Serpent.encryptLoop {rk} b := by
  rw [encryptLoop_eq_encrypt, ← encrypt_block_eq]; rfl

/-- **Serpent `decrypt_block` (`--cfg serpent_no_unroll`)** -/
theorem loop_decrypt_block_eq ({wb} : Words) (b : BitVec 128) :
    serpent_loop_decrypt_block {wargs} b
      = BC.Serpent.decryptLoop {rk} b := by
  rw [decryptLoop_eq_decrypt, ← decrypt_block_eq]; rfl
''')
kdecl = "(" + kargs + " : BitVec 32)"
o("/-! The same four theorems with the 132 round-key words as separate variables (the flattened struct field). -/\n")
for (nm, gfn, impl) in [("encrypt_block_eq", "serpent_encrypt_block", "encrypt"), ("decrypt_block_eq", "serpent_decrypt_block", "decrypt"),
                        ("loop_encrypt_block_eq", "serpent_loop_encrypt_block", "encryptLoop"), ("loop_decrypt_block_eq", "serpent_loop_decrypt_block", "decryptLoop")]:
    o(f'''theorem {nm}' {kdecl} (b : BitVec 128) :
    {gfn} {kargs} b
      = BC.Serpent.{impl} {rkk} b :=
  {nm} {kwords} b
''')
o("end BC.GenCipher.Serpent")
open("/tmp/dev/w_tieC/out/GenCipherSerpent.lean", "w").write("\n".join(out) + "\n")
