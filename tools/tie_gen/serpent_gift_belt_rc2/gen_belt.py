#!/usr/bin/env python3
# generates out/GenCipherBelt.lean
K = [f"k{i}" for i in range(8)]
kb = " ".join(K)
out = []
o = out.append
o('''import BlockCiphers.Gen.Cipher_Belt_block
import BlockCiphers.Impl.Belt
import BlockCiphers.Proofs.GenTables
import Std.Tactic.BVDecide
/-
Tie of the regenerated whole-cipher functions of the `belt-block` crate (`Gen/Cipher_Belt_block.lean`:
`BeltBlock::encrypt_block`, `BeltBlock::decrypt_block`) to the model `BC.Belt.encrypt/decrypt` of `Impl/Belt.lean`, for ALL
8 key words and ALL blocks.

BelT is an ARX-with-tables cipher, so nothing is bit-blasted except the byte loads/stores:
 * `tab_H5 … tab_H29` : a look-up `BC.Gen.tblAt BC.Gen.belt_block_Hn ((v &&& 0xff).setWidth 64).toNat 32` in the regenerated
   table is the model's `tab Hn (v &&& 0xff)` (from `belt_Hn_eq` of `Proofs/GenTables.lean`; the 64-bit widening of the masked index is harmless);
 * `toU32x4_eq`, `fromU32x4_eq` : the model's `bswap32`-based load/store written with the byte extractions of the
   regenerated text (bridging lemmas about the model, `bv_decide` on 32/128 bits);
 * `key_idx_i_d` : `key_idx #v[k0,…,k7] i d` for the literal `i`, `d` of the eight unrolled rounds;
 * then both sides are unfolded (`forRange 1 8`, `encRound`, `g5/g13/g21`) and agree syntactically, once the widths
   `8+8+8+8` that the byte concatenations of the regenerated text carry in their types / instances are normalised to
   literals (`dsimp (config := { instances := true }) only [Nat.reduceAdd]`).
-/
namespace BC.GenCipher.Belt
open BC.Gen.Fn BC.Belt
set_option maxRecDepth 100000
set_option linter.unusedSimpArgs false
set_option linter.unusedVariables false

/-! ### table look-ups -/
''')
o('''/-- a look-up in a regenerated table that `Proofs/GenTables.lean` ties to a model table is the model's look-up -/
theorem tblAt_of_toList (T : Array Nat) (H : Array (BitVec 32)) (h : T.toList = BC.GenTables.nats32 H) (i : Nat) :
    BC.Gen.tblAt T i 32 = H.getD i 0 := by
  have hT : T = (BC.GenTables.nats32 H).toArray := by rw [← h]
  subst hT
  unfold BC.Gen.tblAt BC.GenTables.nats32
  by_cases hi : i < H.size
  · simp [Array.getD, hi]
  · simp [Array.getD, hi]
''')
o('''theorem mask_lt (v : BitVec 32) : (v &&& 0xff#32).toNat < 256 := by
  rw [BitVec.toNat_and]
  exact Nat.lt_succ_of_le Nat.and_le_right

theorem idx_eq (v : BitVec 32) : ((v &&& 0xff#32).setWidth 64).toNat = (v &&& 0xff#32).toNat := by
  have h := mask_lt v
  rw [BitVec.toNat_setWidth]
  exact Nat.mod_eq_of_lt (by omega)
''')
for h in ["H5", "H13", "H21", "H29"]:
    o(f'''theorem tab_{h} (v : BitVec 32) :
    BC.Gen.tblAt BC.Gen.belt_block_{h} ((v &&& 0xff#32).setWidth 64).toNat 32 = tab {h} (v &&& 0xff#32) := by
  rw [idx_eq]; exact tblAt_of_toList _ _ BC.GenTables.belt_{h}_eq _
''')
o('''/-! ### load / store (bridging lemmas about the model) -/

theorem toU32x4_eq (b : BitVec 128) : toU32x4 b =
    { a := b.extractLsb' 96 8 ++ b.extractLsb' 104 8 ++ b.extractLsb' 112 8 ++ b.extractLsb' 120 8,
      b := b.extractLsb' 64 8 ++ b.extractLsb' 72 8 ++ b.extractLsb' 80 8 ++ b.extractLsb' 88 8,
      c := b.extractLsb' 32 8 ++ b.extractLsb' 40 8 ++ b.extractLsb' 48 8 ++ b.extractLsb' 56 8,
      d := b.extractLsb' 0 8 ++ b.extractLsb' 8 8 ++ b.extractLsb' 16 8 ++ b.extractLsb' 24 8 } := by
  simp only [toU32x4, bswap32, W4.mk.injEq]
  bv_decide (config := { timeout := 300 })

theorem fromU32x4_eq (w : W4) : fromU32x4 w =
    w.a.extractLsb' 0 8 ++ w.a.extractLsb' 8 8 ++ w.a.extractLsb' 16 8 ++ w.a.extractLsb' 24 8 ++
    w.b.extractLsb' 0 8 ++ w.b.extractLsb' 8 8 ++ w.b.extractLsb' 16 8 ++ w.b.extractLsb' 24 8 ++
    w.c.extractLsb' 0 8 ++ w.c.extractLsb' 8 8 ++ w.c.extractLsb' 16 8 ++ w.c.extractLsb' 24 8 ++
    w.d.extractLsb' 0 8 ++ w.d.extractLsb' 8 8 ++ w.d.extractLsb' 16 8 ++ w.d.extractLsb' 24 8 := by
  simp only [fromU32x4, bswap32]
  bv_decide (config := { timeout := 300 })

/-! ### `key_idx` on explicit key words -/

/-- the 8 key words `self.key` as the model's `Key` -/
def mkKey (k0 k1 k2 k3 k4 k5 k6 k7 : BitVec 32) : Key := #v[k0, k1, k2, k3, k4, k5, k6, k7]
''')
names = []
for i in range(1, 9):
    for d in range(7):
        j = (7 * i - d - 1) % 8
        o(f"theorem key_idx_{i}_{d} ({kb} : BitVec 32) : key_idx (mkKey {kb}) {i} {d} = k{j} := rfl")
        names.append(f"key_idx_{i}_{d}")
o('''
theorem range'_1_8 : List.range' 1 8 = [1, 2, 3, 4, 5, 6, 7, 8] := rfl
theorem rev_1_8 : [1, 2, 3, 4, 5, 6, 7, 8].reverse = [8, 7, 6, 5, 4, 3, 2, 1] := rfl
''')
ki = ", ".join(names)
common = f"tab_H5, tab_H13, tab_H21, tab_H29, g5, g13, g21,\n    BC.forRange, BC.forRangeRev, range'_1_8, rev_1_8, List.foldl,\n    {ki}"
o(f'''/-- **BelT `encrypt_block`**: regenerated function = model, all key words, all blocks -/
theorem encrypt_block_eq' ({kb} : BitVec 32) (b : BitVec 128) :
    beltblock_encrypt_block {kb} b = BC.Belt.encrypt ⟨mkKey {kb}⟩ b := by
  have hT := toU32x4_eq b
  have hF := fun w => fromU32x4_eq w
  dsimp (config := {{ instances := true }}) only [Nat.reduceAdd] at hT hF
  simp only [beltblock_encrypt_block]
  dsimp (config := {{ instances := true }}) only [Nat.reduceAdd]
  simp only [BC.Belt.encrypt, belt_block_raw, encRound, hT, hF, {common}]

/-- **BelT `decrypt_block`** -/
theorem decrypt_block_eq' ({kb} : BitVec 32) (b : BitVec 128) :
    beltblock_decrypt_block {kb} b = BC.Belt.decrypt ⟨mkKey {kb}⟩ b := by
  have hT := toU32x4_eq b
  have hF := fun w => fromU32x4_eq w
  dsimp (config := {{ instances := true }}) only [Nat.reduceAdd] at hT hF
  simp only [beltblock_decrypt_block]
  dsimp (config := {{ instances := true }}) only [Nat.reduceAdd]
  simp only [BC.Belt.decrypt, belt_block_raw_dec, decRound, hT, hF, {common}]

theorem encrypt_block_eq ({kb} : BitVec 32) (b : BitVec 128) :
    beltblock_encrypt_block {kb} b = BC.Belt.encrypt ⟨#v[{", ".join(K)}]⟩ b :=
  encrypt_block_eq' {kb} b

theorem decrypt_block_eq ({kb} : BitVec 32) (b : BitVec 128) :
    beltblock_decrypt_block {kb} b = BC.Belt.decrypt ⟨#v[{", ".join(K)}]⟩ b :=
  decrypt_block_eq' {kb} b

end BC.GenCipher.Belt''')
open("/tmp/dev/w_tieC/out/GenCipherBelt.lean", "w").write("\n".join(out) + "\n")
