#!/usr/bin/env python3
# generates out/GenCipherGift.lean
import re
impl = open("/verif/lean/BlockCiphers/Impl/Gift.lean").read()
m = re.search(r"def GIFT_RC : Array \(BitVec 32\) := #\[(.*?)\]", impl, re.S)
RC = [x.strip() for x in m.group(1).replace("\n", " ").split(",")]
assert len(RC) == 40
K = [f"k{i}" for i in range(80)]
kb = " ".join(K)
rk = "#[" + ", ".join(K) + "]"

out = []
o = out.append
o('''import BlockCiphers.Gen.Cipher_Gift
import BlockCiphers.Impl.Gift
import BlockCiphers.Proofs.GenFuncsGift
import Std.Tactic.BVDecide
/-
Tie of the regenerated whole-cipher functions of the `gift-cipher` crate (`Gen/Cipher_Gift.lean`: `Gift128::encrypt_block`,
`Gift128::decrypt_block`) to the model `BC.Gift.encrypt/decrypt` of `Impl/Gift.lean`, for ALL 80 round-key words and ALL
blocks.

Structure (the 40 rounds are not bit-blasted):
 1. `P.encrypt / P.decrypt` : the model's cipher with the leaf functions (`packing`, `unpacking`, `quintuple_round`,
    `inv_quintuple_round`) as parameters; the model is the instance `P.model` (by `rfl`).
 2. `P.gen` : the instance whose leaves are the *regenerated* leaf functions `BC.Gen.Fn.gift_*` of `Gen/Funcs.lean`.
    `P.gen = P.model` follows from the leaf theorems of `Proofs/GenFuncsGift.lean`.
 3. The regenerated whole function is the regenerated leaves inlined (with the constants `GIFT_RC[i + j]` folded to
    literals): unfolding both sides gives syntactically the same term.  The constants the model reads from its
    `GIFT_RC` are turned into literals by `rc_i` (each `rfl`).
-/
namespace BC.GenCipher.Gift
open BC.Gen.Fn BC.Gift
set_option maxRecDepth 100000
set_option linter.unusedSimpArgs false
set_option linter.unusedVariables false

/-- the leaf functions the block functions are made of -/
structure P where
  pack : BitVec 128 → St
  unpack : St → BitVec 128
  q : St → QK → St
  iq : St → QK → St

namespace P
def encrypt (p : P) (rk : Array (BitVec 32)) (b : BitVec 128) : BitVec 128 :=
  p.unpack ([0, 5, 10, 15, 20, 25, 30, 35].foldl (fun s i => p.q s (qkAt rk (i * 2) GIFT_RC i)) (p.pack b))
def decrypt (p : P) (rk : Array (BitVec 32)) (b : BitVec 128) : BitVec 128 :=
  let s := [35, 30, 25, 20, 15, 10, 5].foldl (fun s i => p.iq s (qkAt rk (i * 2) GIFT_RC i)) (p.pack b)
  p.unpack (p.iq s (qkAt rk (0 * 2) GIFT_RC 0))

/-- the hand-written model's leaves -/
def model : P := { pack := packing, unpack := unpacking, q := quintupleCore, iq := invQuintupleCore }

/-- tuple (as returned by the regenerated functions) → `St` -/
def ofTup (t : BitVec 32 × BitVec 32 × BitVec 32 × BitVec 32) : St := ⟨t.1, t.2.1, t.2.2.1, t.2.2.2⟩

/-- the regenerated leaves (`Gen/Funcs.lean`) -/
def gen : P :=
  { pack := fun b => ofTup (gift_packing b),
    unpack := fun s => gift_unpacking s.s0 s.s1 s.s2 s.s3,
    q := fun s k => ofTup (gift_quintuple_round s.s0 s.s1 s.s2 s.s3 k.k0 k.k1 k.k2 k.k3 k.k4 k.k5 k.k6 k.k7 k.k8 k.k9
                             k.c0 k.c1 k.c2 k.c3 k.c4),
    iq := fun s k => ofTup (gift_inv_quintuple_round s.s0 s.s1 s.s2 s.s3 k.k0 k.k1 k.k2 k.k3 k.k4 k.k5 k.k6 k.k7 k.k8 k.k9
                             k.c0 k.c1 k.c2 k.c3 k.c4) }

theorem ofTup_tup (s : St) : ofTup (BC.GenFuncs.Gift.tup s) = s := rfl
theorem qk_eta (k : QK) :
    (⟨k.k0, k.k1, k.k2, k.k3, k.k4, k.k5, k.k6, k.k7, k.k8, k.k9, k.c0, k.c1, k.c2, k.c3, k.c4⟩ : QK) = k := rfl

/-- regenerated leaves = model leaves (from `Proofs/GenFuncsGift.lean`) -/
theorem gen_eq_model : gen = model := by
  open BC.GenFuncs.Gift in
  simp only [gen, model, packing_eq, unpacking_eq, quintuple_round_eq, inv_quintuple_round_eq, ofTup_tup, qk_eta]

theorem model_encrypt (rk : Array (BitVec 32)) (b : BitVec 128) : model.encrypt rk b = BC.Gift.encrypt rk b := rfl
theorem model_decrypt (rk : Array (BitVec 32)) (b : BitVec 128) : model.decrypt rk b = BC.Gift.decrypt rk b := rfl
end P

/-! `GIFT_RC[i]` as literals (the regenerated text has them folded in; `Proofs/GenTables.lean` `gift_GIFT_RC_eq` ties the
regenerated table to the model's) -/
''')
for i, c in enumerate(RC):
    o(f"theorem rc_{i} : GIFT_RC.getD {i} 0 = {c} := rfl")
o("")
o("/-- the 80 round-key words `self.k` as the model's array -/")
o(f"def mkRk ({kb} : BitVec 32) : Array (BitVec 32) := {rk}\n")
for i in range(80):
    o(f"theorem rk_{i} ({kb} : BitVec 32) : (mkRk {kb}).getD {i} 0 = k{i} := rfl")
o("")
lem = ", ".join(f"rc_{i}" for i in range(40)) + ",\n    " + ", ".join(f"rk_{i}" for i in range(80))
common = f"P.gen, P.ofTup, List.foldl, qkAt, Nat.reduceMul, Nat.reduceAdd,\n    {lem},\n    gift_packing, gift_unpacking"
sk = " ".join(K)
o(f'''/-- the regenerated `encrypt_block` is the composition of the regenerated leaves -/
theorem encrypt_block_gen ({kb} : BitVec 32) (b : BitVec 128) :
    gift128_encrypt_block {sk} b = P.gen.encrypt (mkRk {kb}) b := by
  simp only [gift128_encrypt_block, P.encrypt, gift_quintuple_round, {common}]

/-- the regenerated `decrypt_block` is the composition of the regenerated leaves -/
theorem decrypt_block_gen ({kb} : BitVec 32) (b : BitVec 128) :
    gift128_decrypt_block {sk} b = P.gen.decrypt (mkRk {kb}) b := by
  simp only [gift128_decrypt_block, P.decrypt, gift_inv_quintuple_round, {common}]

/-- **GIFT-128 `encrypt_block`**: regenerated function = model, all round-key words, all blocks -/
theorem encrypt_block_eq ({kb} : BitVec 32) (b : BitVec 128) :
    gift128_encrypt_block {sk} b
      = BC.Gift.encrypt {rk} b := by
  rw [encrypt_block_gen, P.gen_eq_model, P.model_encrypt, mkRk]

/-- **GIFT-128 `decrypt_block`** -/
theorem decrypt_block_eq ({kb} : BitVec 32) (b : BitVec 128) :
    gift128_decrypt_block {sk} b
      = BC.Gift.decrypt {rk} b := by
  rw [decrypt_block_gen, P.gen_eq_model, P.model_decrypt, mkRk]

end BC.GenCipher.Gift''')
open("/tmp/dev/w_tieC/out/GenCipherGift.lean", "w").write("\n".join(out) + "\n")
