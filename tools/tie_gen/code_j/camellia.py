def ks(n): return " ".join(f"k{i}" for i in range(n))
def pat(n): return "(" + ", ".join(f"k{i}" for i in range(n)) + ")"
def rc(n): return "⟨" + ", ".join(f"k{i}" for i in range(n)) + "⟩"
out = '''import BlockCiphers.Gen.Cipher_Camellia
import BlockCiphers.Gen.Keys_Camellia
import BlockCiphers.Proofs.GenCipherCamellia
import BlockCiphers.Proofs.GenKeysCamellia
import BlockCiphers.Proofs.Camellia
import BlockCiphers.Proofs.CamelliaSpec
/-!
Code-level theorems for Camellia-128/192/256: statements mention ONLY the regenerated code
(`BC.Gen.Fn.camellia{128,192,256}_new`, `camellia_rk{26,34}_{encrypt,decrypt}_block`) and the specification
`BC.Spec.Camellia` (RFC 3713).  Composition of
  (1) `BC.Camellia.decrypt_encrypt{128,192,256}`, `encrypt_decrypt…` (Proofs/Camellia.lean; Thm C01),
      `encrypt{128,192,256}_eq_spec`, `decrypt…_eq_spec` (Proofs/CamelliaSpec.lean; Thm C06),
  (2) `BC.GenCipher.Camellia.rk{26,34}_{encrypt,decrypt}_eq`,
  (3) `BC.GenKeys.Camellia.new{128,192,256}_eq`.
-/
set_option maxRecDepth 100000
namespace BC.Code.Camellia
open BC BC.Gen.Fn
'''
for bits, n in [(128,26),(192,34),(256,34)]:
    out += f'''
/-! ## Camellia-{bits} -/

/-- `Camellia{bits}::new(key).encrypt_block(b)` on the regenerated code -/
def enc{bits} (key : BitVec {bits}) (b : BitVec 128) : BitVec 128 :=
  match camellia{bits}_new key with
  | {pat(n)} =>
    camellia_rk{n}_encrypt_block {ks(n)} b

/-- `Camellia{bits}::new(key).decrypt_block(b)` on the regenerated code -/
def dec{bits} (key : BitVec {bits}) (b : BitVec 128) : BitVec 128 :=
  match camellia{bits}_new key with
  | {pat(n)} =>
    camellia_rk{n}_decrypt_block {ks(n)} b

theorem enc{bits}_eq_impl (key : BitVec {bits}) (b : BitVec 128) : enc{bits} key b = BC.Camellia.encrypt{bits} key b := by
  rw [BC.Camellia.encrypt{bits}, BC.GenKeys.Camellia.new{bits}_eq key]
  unfold enc{bits}
  generalize camellia{bits}_new key = t
  obtain {rc(n)} := t
  exact BC.GenCipher.Camellia.rk{n}_encrypt_eq {ks(n)} b

theorem dec{bits}_eq_impl (key : BitVec {bits}) (b : BitVec 128) : dec{bits} key b = BC.Camellia.decrypt{bits} key b := by
  rw [BC.Camellia.decrypt{bits}, BC.GenKeys.Camellia.new{bits}_eq key]
  unfold dec{bits}
  generalize camellia{bits}_new key = t
  obtain {rc(n)} := t
  exact BC.GenCipher.Camellia.rk{n}_decrypt_eq {ks(n)} b

theorem dec{bits}_enc{bits} (key : BitVec {bits}) (b : BitVec 128) : dec{bits} key (enc{bits} key b) = b := by
  rw [enc{bits}_eq_impl, dec{bits}_eq_impl, BC.Camellia.decrypt_encrypt{bits}]

theorem enc{bits}_dec{bits} (key : BitVec {bits}) (b : BitVec 128) : enc{bits} key (dec{bits} key b) = b := by
  rw [enc{bits}_eq_impl, dec{bits}_eq_impl, BC.Camellia.encrypt_decrypt{bits}]

/-- the regenerated Camellia-{bits} encryption is RFC 3713 encryption, for every key and block -/
theorem enc{bits}_eq_spec (key : BitVec {bits}) (b : BitVec 128) : enc{bits} key b = BC.Spec.Camellia.encrypt{bits} key b := by
  rw [enc{bits}_eq_impl, BC.Camellia.encrypt{bits}_eq_spec]

theorem dec{bits}_eq_spec (key : BitVec {bits}) (b : BitVec 128) : dec{bits} key b = BC.Spec.Camellia.decrypt{bits} key b := by
  rw [dec{bits}_eq_impl, BC.Camellia.decrypt{bits}_eq_spec]
'''
out += "\nend BC.Code.Camellia\n"
open('/tmp/dev/w_codeJ/out/CodeCamellia.lean','w').write(out)
