def names(n): return [f"e{i}" for i in range(n)] + [f"d{i}" for i in range(n)]
def ks(n): return " ".join(names(n))
def pat(n): return "(" + ", ".join(names(n)) + ")"
def rc(n): return "⟨" + ", ".join(names(n)) + "⟩"
def ty(n): return " × ".join(["BitVec 128"]*(2*n))
out = '''import BlockCiphers.Gen.Cipher_Aria
import BlockCiphers.Gen.Keys_Aria
import BlockCiphers.Proofs.GenCipherAria
import BlockCiphers.Proofs.GenKeysAria
import BlockCiphers.Proofs.Aria
import BlockCiphers.Proofs.AriaSpec
/-!
Code-level theorems for ARIA-128/192/256: statements mention ONLY the regenerated code
(`BC.Gen.Fn.aria{128,192,256}_new`, `aria_rk{13,15,17}_{encrypt,decrypt}_block`) and the specification
`BC.Spec.Aria` (RFC 5794).  Composition of
  (1) `BC.Aria.decrypt_encrypt{128,192,256}`, `encrypt_decrypt…` (Proofs/Aria.lean; Thm C01),
      `encrypt{128,192,256}_eq_spec`, `decrypt…_eq_spec` (Proofs/AriaSpec.lean; Thm C06),
  (2) `BC.GenCipher.Aria.rk{13,15,17}_{encrypt,decrypt}_eq`,
  (3) `BC.GenKeys.Aria.aria{128,192,256}_new_eq`.
Glue proved here: the model's `Keys` record is the pair of array literals of its 2·RK entries (sizes are literal).
-/
set_option maxRecDepth 100000
namespace BC.Code.Aria
open BC BC.Gen.Fn

/-- an array of known size is the literal of its entries -/
private theorem arr_eta (a : Array (BitVec 128)) (n : Nat) (h : a.size = n) :
    a = ((List.range n).map (fun i => a.getD i 0)).toArray := by
  apply Array.ext
  · simp [h]
  · intro i h1 h2
    simp [Array.getD_eq_getD_getElem?, h1]
'''
for bits, n in [(128,13),(192,15),(256,17)]:
    es = ", ".join(f"k.ek.getD {i} 0" for i in range(n))
    ds = ", ".join(f"k.dk.getD {i} 0" for i in range(n))
    pe = ", ".join(f"e{i}" for i in range(n))
    pd = ", ".join(f"d{i}" for i in range(n))
    out += f'''
/-! ## ARIA-{bits} -/

/-- `Aria{bits}::new(key).encrypt_block(b)` on the regenerated code -/
def enc{bits} (key : BitVec {bits}) (b : BitVec 128) : BitVec 128 :=
  match aria{bits}_new key with
  | {pat(n)} =>
    aria_rk{n}_encrypt_block {ks(n)} b

/-- `Aria{bits}::new(key).decrypt_block(b)` on the regenerated code -/
def dec{bits} (key : BitVec {bits}) (b : BitVec 128) : BitVec 128 :=
  match aria{bits}_new key with
  | {pat(n)} =>
    aria_rk{n}_decrypt_block {ks(n)} b

/-- the model's struct `Aria<{n}> {{ ek, dk }}` rebuilt from a generated {2*n}-tuple -/
private def mk{2*n} : {ty(n)} → BC.Aria.Keys
  | {pat(n)} => ⟨#[{pe}], #[{pd}]⟩

private theorem keys_eta{n} (k : BC.Aria.Keys) (he : k.ek.size = {n}) (hd : k.dk.size = {n}) :
    k = ⟨#[{es}], #[{ds}]⟩ := by
  cases k with | mk ek dk =>
  have h1 := arr_eta ek {n} he
  have h2 := arr_eta dk {n} hd
  simp only [List.range, List.range.loop, List.map_cons, List.map_nil] at h1 h2
  simp only [BC.Aria.Keys.mk.injEq]
  exact ⟨h1, h2⟩

private theorem new{bits}_eq (key : BitVec {bits}) : BC.Aria.new{bits} key = mk{2*n} (aria{bits}_new key) := by
  rw [BC.GenKeys.Aria.aria{bits}_new_eq]
  exact keys_eta{n} (BC.Aria.new{bits} key) rfl rfl

theorem enc{bits}_eq_impl (key : BitVec {bits}) (b : BitVec 128) : enc{bits} key b = BC.Aria.encrypt{bits} key b := by
  rw [BC.Aria.encrypt{bits}, new{bits}_eq key]
  unfold enc{bits}
  generalize aria{bits}_new key = t
  obtain {rc(n)} := t
  exact BC.GenCipher.Aria.rk{n}_encrypt_eq {ks(n)} b

theorem dec{bits}_eq_impl (key : BitVec {bits}) (b : BitVec 128) : dec{bits} key b = BC.Aria.decrypt{bits} key b := by
  rw [BC.Aria.decrypt{bits}, new{bits}_eq key]
  unfold dec{bits}
  generalize aria{bits}_new key = t
  obtain {rc(n)} := t
  exact BC.GenCipher.Aria.rk{n}_decrypt_eq {ks(n)} b

theorem dec{bits}_enc{bits} (key : BitVec {bits}) (b : BitVec 128) : dec{bits} key (enc{bits} key b) = b := by
  rw [enc{bits}_eq_impl, dec{bits}_eq_impl, BC.Aria.decrypt_encrypt{bits}]

theorem enc{bits}_dec{bits} (key : BitVec {bits}) (b : BitVec 128) : enc{bits} key (dec{bits} key b) = b := by
  rw [enc{bits}_eq_impl, dec{bits}_eq_impl, BC.Aria.encrypt_decrypt{bits}]

/-- the regenerated ARIA-{bits} encryption is RFC 5794 encryption, for every key and block -/
theorem enc{bits}_eq_spec (key : BitVec {bits}) (b : BitVec 128) : enc{bits} key b = BC.Spec.Aria.encrypt{bits} key b := by
  rw [enc{bits}_eq_impl, BC.Aria.encrypt{bits}_eq_spec]

theorem dec{bits}_eq_spec (key : BitVec {bits}) (b : BitVec 128) : dec{bits} key b = BC.Spec.Aria.decrypt{bits} key b := by
  rw [dec{bits}_eq_impl, BC.Aria.decrypt{bits}_eq_spec]
'''
out += "\nend BC.Code.Aria\n"
open('/tmp/dev/w_codeJ/out/CodeAria.lean','w').write(out)
