ks = " ".join(f"k{i}" for i in range(8))
pat = "(" + ", ".join(f"k{i}" for i in range(8)) + ")"
rc = "⟨" + ", ".join(f"k{i}" for i in range(8)) + "⟩"
sets = [("tc26","Tc26"),("testsbox","TestSbox"),("cryptoproa","CryptoProA"),("cryptoprob","CryptoProB"),("cryptoproc","CryptoProC"),("cryptoprod","CryptoProD")]
out = '''import BlockCiphers.Gen.Cipher_Magma
import BlockCiphers.Gen.Keys_Magma
import BlockCiphers.Gen.Tables
import BlockCiphers.Proofs.GenTables
import BlockCiphers.Proofs.GenCipherMagma
import BlockCiphers.Proofs.GenKeysMagma
import BlockCiphers.Proofs.Magma
import BlockCiphers.Proofs.MagmaSpec
/-!
Code-level theorems for Magma / GOST 28147-89 (`Gost89<S>` for the six bundled S-box sets `S`): statements mention ONLY the
regenerated code (`BC.Gen.Fn.gost89_new`, `gost89_<set>_{encrypt,decrypt}_block`, the regenerated S-box tables
`BC.Gen.magma_<Set>_SBOX`) and the specification `BC.Spec.Magma` (GOST R 34.12-2015 / GOST 28147-89).  Composition of
  (1) `BC.Magma.decrypt_encrypt_key`, `encrypt_decrypt_key` (Proofs/Magma.lean; Thm C01), `encrypt_eq_spec`,
      `decrypt_eq_spec`, `magma_encrypt_eq_spec`, `magma_decrypt_eq_spec` (Proofs/MagmaSpec.lean; Thm C07),
  (2) `BC.GenCipher.Magma.gost89_<set>_{encrypt,decrypt}_block_eq`,
  (3) `BC.GenKeys.Magma.new_eq`.
The specification `Spec.Magma.E π` / `D π` is parametric in the substitution set `π`.  For `Tc26` the standard fixes π
(`Spec.Magma.magmaE` / `magmaD`).  For the other five sets the standard does not fix a table; the theorems instantiate π with
the REGENERATED table of the crate read as eight rows of sixteen nibbles (`piOf BC.Gen.magma_<Set>_SBOX`).
-/
set_option maxRecDepth 100000
namespace BC.Code.Magma
open BC BC.Gen.Fn

/-- a regenerated `[[u8; 16]; 8]` table (flattened row-major) read as a substitution set of the specification -/
def piOf (t : Array Nat) : BC.Spec.Magma.Pi :=
  Vector.ofFn fun i : Fin 8 => Vector.ofFn fun j : Fin 16 => BitVec.ofNat 4 (t.getD (16 * i.val + j.val) 0)
'''
for lo, hi in sets:
    out += f'''
/-! ## `Gost89<{hi}>`{" = `Magma`" if hi == "Tc26" else ""} -/

/-- `Gost89::<{hi}>::new(key).encrypt_block(b)` on the regenerated code -/
def enc_{lo} (key : BitVec 256) (b : BitVec 64) : BitVec 64 :=
  match gost89_new key with
  | {pat} => gost89_{lo}_encrypt_block {ks} b

/-- `Gost89::<{hi}>::new(key).decrypt_block(b)` on the regenerated code -/
def dec_{lo} (key : BitVec 256) (b : BitVec 64) : BitVec 64 :=
  match gost89_new key with
  | {pat} => gost89_{lo}_decrypt_block {ks} b

theorem enc_{lo}_eq_impl (key : BitVec 256) (b : BitVec 64) :
    enc_{lo} key b = BC.Magma.encrypt BC.Magma.{hi} (BC.Magma.new key) b := by
  rw [BC.GenKeys.Magma.new_eq key]
  unfold enc_{lo}
  generalize gost89_new key = t
  obtain {rc} := t
  exact BC.GenCipher.Magma.gost89_{lo}_encrypt_block_eq {ks} b

theorem dec_{lo}_eq_impl (key : BitVec 256) (b : BitVec 64) :
    dec_{lo} key b = BC.Magma.decrypt BC.Magma.{hi} (BC.Magma.new key) b := by
  rw [BC.GenKeys.Magma.new_eq key]
  unfold dec_{lo}
  generalize gost89_new key = t
  obtain {rc} := t
  exact BC.GenCipher.Magma.gost89_{lo}_decrypt_block_eq {ks} b

theorem dec_{lo}_enc_{lo} (key : BitVec 256) (b : BitVec 64) : dec_{lo} key (enc_{lo} key b) = b := by
  rw [enc_{lo}_eq_impl, dec_{lo}_eq_impl, BC.Magma.decrypt_encrypt_key]

theorem enc_{lo}_dec_{lo} (key : BitVec 256) (b : BitVec 64) : enc_{lo} key (dec_{lo} key b) = b := by
  rw [enc_{lo}_eq_impl, dec_{lo}_eq_impl, BC.Magma.encrypt_decrypt_key]

/-- the regenerated `{hi}` table, read as a substitution set, is the model's table -/
theorem piOf_{lo} : piOf BC.Gen.magma_{hi}_SBOX = BC.Magma.{hi} := by decide +kernel

/-- the regenerated `Gost89<{hi}>` encryption is the 32-round network `E` of the standard over the regenerated table -/
theorem enc_{lo}_eq_spec (key : BitVec 256) (b : BitVec 64) :
    enc_{lo} key b = BC.Spec.Magma.E (piOf BC.Gen.magma_{hi}_SBOX) key b := by
  rw [enc_{lo}_eq_impl, BC.Magma.encrypt_eq_spec, piOf_{lo}]

theorem dec_{lo}_eq_spec (key : BitVec 256) (b : BitVec 64) :
    dec_{lo} key b = BC.Spec.Magma.D (piOf BC.Gen.magma_{hi}_SBOX) key b := by
  rw [dec_{lo}_eq_impl, BC.Magma.decrypt_eq_spec, piOf_{lo}]
'''
    if hi == "Tc26":
        out += f'''
/-- `Magma = Gost89<Tc26>`: the regenerated code is GOST R 34.12-2015 Magma encryption (π of the standard), all keys and blocks -/
theorem enc_tc26_eq_magmaE (key : BitVec 256) (b : BitVec 64) : enc_tc26 key b = BC.Spec.Magma.magmaE key b := by
  rw [enc_tc26_eq_impl, BC.Magma.magma_encrypt_eq_spec]

theorem dec_tc26_eq_magmaD (key : BitVec 256) (b : BitVec 64) : dec_tc26 key b = BC.Spec.Magma.magmaD key b := by
  rw [dec_tc26_eq_impl, BC.Magma.magma_decrypt_eq_spec]

/-- the regenerated `Tc26` table IS the substitution π of GOST R 34.12-2015 -/
theorem piOf_tc26_eq_spec : piOf BC.Gen.magma_Tc26_SBOX = BC.Spec.Magma.piTc26 := by
  rw [piOf_tc26, BC.Magma.Tc26_eq]
'''
out += "\nend BC.Code.Magma\n"
open('/tmp/dev/w_codeJ/out/CodeMagma.lean','w').write(out)
