def ks(n, p="k"): return " ".join(f"{p}{i}" for i in range(n))
def kl(n, p="k"): return ", ".join(f"{p}{i}" for i in range(n))
def cat(x, hi, n): return " ++ ".join(f"{x}.extractLsb' {hi - 8*i} 8" for i in range(n))
def tup(n): return " × ".join(["BitVec 128"] * n)
L = []
L.append(f"""import BlockCiphers.Gen.Aes_Ni
import BlockCiphers.Impl.AesNi
import Std.Tactic.BVDecide
/-
Tie theorems: the functions regenerated from `/repo/aes/src/ni/{{encdec,expand,hazmat}}.rs` (`Gen/Aes_Ni.lean`, intrinsics mapped to
`Prelude/X86Intrinsics.lean` by the extern table of the translator) ARE the functions of the hand-written model `Impl/AesNi.lean`,
for all inputs.  Round keys / registers: one `BitVec 128` each (x86 lane order); blocks and keys: `BitVec (8n)`, byte 0 most
significant.  A tuple of registers returned by a regenerated function is compared with the model's `List` through `l<n>`.
The only non-syntactic steps: a 16-byte memory image written as the concatenation of its bytes (`cat16`, `key192_*`,
`key256_*`), and the `[u64; 2]` transmutes of `aes192_expand_key::shuffle` (`shuffle_0`, `shuffle_1`).
Produced by mk_ni.py (only the long argument lists are mechanical).
-/
namespace BC.GenAesNi
open BC.Gen.Fn BC.X86
set_option maxRecDepth 100000

/-! ### glue -/

theorem cat16 (x : BitVec 128) : {cat('x',120,16)} = x := by
  bv_decide (config := {{ timeout := 300 }})

/-- `t = [0u8; 32]; t[..24] = key`: the first 16 bytes -/
theorem key192_hi (key : BitVec 192) : {cat('key',184,16)} = (key.setWidth 256 <<< 64).extractLsb' 128 128 := by
  bv_decide (config := {{ timeout := 300 }})
/-- … and bytes 16..32 -/
theorem key192_lo (key : BitVec 192) : {cat('key',56,8)} ++ {' ++ '.join(['0x0#8']*8)} = (key.setWidth 256 <<< 64).extractLsb' 0 128 := by
  bv_decide (config := {{ timeout := 300 }})
theorem key256_hi (key : BitVec 256) : {cat('key',248,16)} = key.extractLsb' 128 128 := by
  bv_decide (config := {{ timeout := 300 }})
theorem key256_lo (key : BitVec 256) : {cat('key',120,16)} = key.extractLsb' 0 128 := by
  bv_decide (config := {{ timeout := 300 }})

/-- `shuffle(a, b, 0) = transmute([a_u64[0], b_u64[0]])` -/
theorem shuffle_0 (a b : BitVec 128) : b.extractLsb' 0 64 ++ a.extractLsb' 0 64 = BC.AesNi.shuffle192 a b 0 := by
  simp only [BC.AesNi.shuffle192]
  bv_decide (config := {{ timeout := 300 }})
theorem shuffle_1 (a b : BitVec 128) : b.extractLsb' 0 64 ++ a.extractLsb' 64 64 = BC.AesNi.shuffle192 a b 1 := by
  simp only [BC.AesNi.shuffle192]
  bv_decide (config := {{ timeout := 300 }})
""")
for n in (8, 9, 11, 13, 15):
    L.append(f"""def l{n} (t : {tup(n)}) : List (BitVec 128) :=
  match t with
  | ({kl(n,'a')}) => [{kl(n,'a')}]
""")
L.append("/-! ### encdec.rs: `encrypt::<KEYS>`, `decrypt::<KEYS>` -/\n")
for n in (11,13,15):
  for d in ("encrypt","decrypt"):
    L.append(f"""theorem {d}_{n}_eq ({ks(n)} b : BitVec 128) :
    ni_{d}_{n} {ks(n)} b = BC.AesNi.{d} [{kl(n)}] b := by
  simp only [ni_{d}_{n}, cat16]
  rfl
""")
L.append("/-! ### expand.rs -/\n")
for bits, n, lem in ((128, 11, "cat16"), (192, 13, "key192_hi, key192_lo, shuffle_0, shuffle_1"), (256, 15, "key256_hi, key256_lo")):
    L.append(f"""theorem aes{bits}_expand_key_eq (key : BitVec {bits}) :
    l{n} (ni_aes{bits}_expand_key key) = BC.AesNi.aes{bits}_expand_key key := by
  simp only [ni_aes{bits}_expand_key, {lem}]
  rfl
""")
for n in (11,13,15):
    L.append(f"""theorem inv_keys_{n}_eq ({ks(n)} : BitVec 128) :
    l{n} (ni_inv_keys_{n} {ks(n)}) = BC.AesNi.inv_keys [{kl(n)}] := by
  rfl
""")
L.append("/-! ### encdec.rs: `encrypt_par::<KEYS, U9>`, `decrypt_par::<KEYS, U9>` (with `load`, `store`, `xor`, `aesenc`, … inlined) -/\n")
for n in (11,13,15):
  for d in ("encrypt_par","decrypt_par"):
    if n == 15: L.append("set_option maxHeartbeats 1000000 in")
    L.append(f"""theorem {d}_{n}_eq ({ks(n)} {ks(9,'b')} : BitVec 128) :
    l9 (ni_{d}_{n} {ks(n)} {ks(9,'b')}) = BC.AesNi.{d} [{kl(n)}] [{kl(9,'b')}] := by
  simp only [ni_{d}_{n}, cat16]
  rfl
""")
L.append("/-! ### hazmat.rs -/\n")
for f in ("cipher_round", "equiv_inv_cipher_round"):
    L.append(f"""theorem hazmat_{f}_eq (block round_key : BitVec 128) :
    ni_hazmat_{f} block round_key = BC.AesNi.{f} block round_key := by
  simp only [ni_hazmat_{f}, cat16]
  rfl

theorem hazmat_{f}_par_eq ({ks(8,'b')} {ks(8)} : BitVec 128) :
    l8 (ni_hazmat_{f}_par {ks(8,'b')} {ks(8)}) = BC.AesNi.{f}_par [{kl(8,'b')}] [{kl(8)}] := by
  simp only [ni_hazmat_{f}_par, cat16]
  rfl
""")
for f in ("mix_columns", "inv_mix_columns"):
    L.append(f"""theorem hazmat_{f}_eq (block : BitVec 128) :
    ni_hazmat_{f} block = BC.AesNi.{f} block := by
  simp only [ni_hazmat_{f}, cat16]
  rfl
""")
L.append("end BC.GenAesNi")
open("/tmp/dev/w_intrin/src/BlockCiphers/Proofs/GenAesNi.lean","w").write("\n".join(L))
