def ks(n, p="k"): return " ".join(f"{p}{i}" for i in range(n))
def kl(n, p="k"): return ", ".join(f"{p}{i}" for i in range(n))
def cat(x, hi, n): return " ++ ".join(f"{x}.extractLsb' {hi - 8*i} 8" for i in range(n))
def tup(n): return " × ".join(["BitVec 128"] * n)
def rng(n): return "[" + ",".join(str(i) for i in range(n)) + "]"
PAR = {11: 21, 13: 19, 15: 17}
L = []
L.append(f"""import BlockCiphers.Gen.Aes_Armv8
import BlockCiphers.Impl.AesArmv8
import Std.Tactic.BVDecide
/-
Tie theorems: the functions regenerated from `/repo/aes/src/armv8/{{encdec,expand,hazmat}}.rs` (`Gen/Aes_Armv8.lean`, intrinsics mapped
to `Prelude/ArmIntrinsics.lean` by the extern table of the translator) ARE the functions of the hand-written model
`Impl/AesArmv8.lean`, for all inputs.  Round keys / registers: one `BitVec 128` each (register image, element 0 least
significant); blocks and keys: `BitVec (8n)`, byte 0 most significant; the model's `Bytes` key is `unpackBE n key`.  A tuple of
registers returned by a regenerated function is compared with the model's `List` through `l<n>`.
`expand_key::<L, N>`: the translator executes the `[u32]` view (`slice::from_raw_parts_mut`) of the register array as the
32-bit lanes of the registers and returns `BC.X86.ofDwords c3 c2 c1 c0` per register; the model's generic word loop
(`expand_columns`, `List.foldl` over `List.range'`) is evaluated by `simp only` on the literal index lists.
Produced by mk_armv8.py (only the long argument lists are mechanical).
-/
namespace BC.GenAesArmv8
open BC.Gen.Fn BC.X86 BC.Arm
set_option maxRecDepth 100000
set_option linter.unusedSimpArgs false

/-! ### glue -/

theorem cat16 (x : BitVec 128) : {cat('x',120,16)} = x := by
  bv_decide (config := {{ timeout := 300 }})

/-- byte extraction as written by `unpackBE` -/
theorem ext8 {{w : Nat}} (x : BitVec w) (s : Nat) : x.extractLsb' s 8 = (x >>> s).setWidth 8 := by
  apply BitVec.eq_of_toNat_eq
  simp
""")
for n in (11, 13, 15, 16, 24, 32):
    L.append(f"theorem range{n} : List.range {n} = {rng(n)} := by decide +kernel")
L.append("")
for n in (8, 11, 13, 15, 17, 19, 21):
    L.append(f"""def l{n} (t : {tup(n)}) : List (BitVec 128) :=
  match t with
  | ({kl(n,'a')}) => [{kl(n,'a')}]
""")
L.append("/-! ### encdec.rs: `encrypt::<KEYS>`, `decrypt::<KEYS>` -/\n")
for n in (11,13,15):
  for d in ("encrypt","decrypt"):
    L.append(f"""theorem {d}_{n}_eq ({ks(n)} b : BitVec 128) :
    armv8_{d}_{n} {ks(n)} b = BC.AesArmv8.{d} [{kl(n)}] b := by
  simp only [armv8_{d}_{n}, cat16]
  rfl
""")
L.append("/-! ### expand.rs -/\n")
for kb, n in ((16, 11), (24, 13), (32, 15)):
    L.append(f"""theorem expand_key_{kb}_{n}_eq (key : BitVec {8*kb}) :
    l{n} (armv8_expand_key_{kb}_{n} key) = BC.AesArmv8.expand_key (BC.unpackBE {kb} key) {n} := by
  simp only [armv8_expand_key_{kb}_{n}, ext8, l{n}]
  simp only [BC.AesArmv8.expand_key, BC.AesArmv8.expand_columns, BC.unpackBE, range{kb}, range{n}, List.map_cons, List.map_nil,
    BC.AesArmv8.key_columns, BC.AesArmv8.store_columns, List.length_cons, List.length_nil, Nat.reduceAdd, Nat.reduceMul, Nat.reduceSub,
    Nat.reduceDiv, List.range', List.foldl_cons, List.foldl_nil, BC.AesArmv8.expand_word, Nat.reduceMod, ↓reduceIte,
    List.replicate, List.set_cons_zero, List.set_cons_succ, List.getD_cons_zero, List.getD_cons_succ,
    BC.AesArmv8.column_reg, BC.AesArmv8.ROUND_CONSTS, BC.AesArmv8.sub_word, Nat.reduceGT, false_and, true_and, Nat.reduceEqDiff]
""")
for n in (11,13,15):
    L.append(f"""theorem inv_expanded_keys_{n}_eq ({ks(n)} : BitVec 128) :
    l{n} (armv8_inv_expanded_keys_{n} {ks(n)}) = BC.AesArmv8.inv_expanded_keys [{kl(n)}] := by
  rfl
""")
L.append("/-! ### encdec.rs: `encrypt_par::<KEYS, ParBlocks>`, `decrypt_par::<KEYS, ParBlocks>` for the three instantiations of armv8.rs (U21 / U19 / U17) -/\n")
for n in (11,13,15):
  m = PAR[n]
  for d, r in (("encrypt_par", "enc_par_round"),("decrypt_par", "dec_par_round")):
    L.append(f"""theorem {d}_{n}_eq ({ks(n)} {ks(m,'b')} : BitVec 128) :
    l{m} (armv8_{d}_{n} {ks(n)} {ks(m,'b')}) = BC.AesArmv8.{d} [{kl(n)}] [{kl(m,'b')}] := by
  simp only [armv8_{d}_{n}, cat16, l{m}]
  simp only [BC.AesArmv8.{d}, BC.AesArmv8.{r}, List.map_cons, List.map_nil, List.length_cons, List.length_nil, Nat.reduceAdd,
    Nat.reduceSub, List.getD_cons_zero, List.getD_cons_succ, ge_iff_le, Nat.reduceLeDiff, Nat.reduceEqDiff, ↓reduceIte]
""")
L.append("/-! ### hazmat.rs -/\n")
for f in ("cipher_round", "equiv_inv_cipher_round"):
    L.append(f"""theorem hazmat_{f}_eq (block round_key : BitVec 128) :
    armv8_hazmat_{f} block round_key = BC.AesArmv8.{f} block round_key := by
  simp only [armv8_hazmat_{f}, cat16]
  rfl

theorem hazmat_{f}_par_eq ({ks(8,'b')} {ks(8)} : BitVec 128) :
    l8 (armv8_hazmat_{f}_par {ks(8,'b')} {ks(8)}) = BC.AesArmv8.{f}_par [{kl(8,'b')}] [{kl(8)}] := by
  simp only [armv8_hazmat_{f}_par, cat16]
  rfl
""")
for f in ("mix_columns", "inv_mix_columns"):
    L.append(f"""theorem hazmat_{f}_eq (block : BitVec 128) :
    armv8_hazmat_{f} block = BC.AesArmv8.{f} block := by
  simp only [armv8_hazmat_{f}, cat16]
  rfl
""")
L.append("end BC.GenAesArmv8")
open("/tmp/dev/w_intrin/src/BlockCiphers/Proofs/GenAesArmv8.lean","w").write("\n".join(L))
