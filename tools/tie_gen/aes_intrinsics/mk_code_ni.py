def ks(n, p="k"): return " ".join(f"{p}{i}" for i in range(n))
def kl(n, p="k"): return ", ".join(f"{p}{i}" for i in range(n))
def tup(n): return " × ".join(["BitVec 128"] * n)
L = []
L.append("""import BlockCiphers.Gen.Aes_Ni
import BlockCiphers.Proofs.GenAesNi
import BlockCiphers.Proofs.AesNi
import BlockCiphers.Proofs.AesNiPar
/-
Code-level theorems for the AES-NI backend (`aes/src/ni/{expand,encdec,hazmat}.rs`), AES-128/192/256.
`enc<N>` / `dec<N>` / `encpar<N>` / `decpar<N>` are built ONLY from regenerated definitions (`Gen/Aes_Ni.lean`):
  enc<N> key b    = encrypt::<KEYS>(&aes<N>_expand_key(key), b)
  dec<N> key b    = decrypt::<KEYS>(&inv_keys(&aes<N>_expand_key(key)), b)        (what `Aes<N>Dec::new(key)` / `Aes<N>::new(key)` hold)
  encpar<N>, decpar<N>: the same with encrypt_par / decrypt_par::<KEYS, U9> on 9 blocks.
The intrinsics occurring in the regenerated text are the transcriptions of the Intel SDM in `Prelude/X86Intrinsics.lean`.
For every key and every block: round trips; equality with FIPS-197 AES (`Spec.Aes.encrypt` / `decrypt`), the key being passed to
the specification as its bytes `unpackBE n key` (byte 0 = most significant byte of the `BitVec`); every lane of the 9-block
functions equals the single-block function; the hazmat functions are the FIPS-197 layer compositions.
They compose the ties of `Proofs/GenAesNi.lean` with the model theorems of `Proofs/AesNi.lean` (C02/C01/C17) and
`Proofs/AesNiPar.lean`.  Produced by mk_code_ni.py (only the long tuple patterns are mechanical).
-/
namespace BC.Code.AesNi
open BC.Gen.Fn BC.GenAesNi
set_option maxRecDepth 100000
""")
for n in (11, 13, 15):
    L.append(f"""/-! ### auxiliary: the regenerated functions on a tuple of {n} round keys -/

/-- `encrypt::<{n}>` on a round-key tuple (regenerated code only) -/
def encT{n} (t : {tup(n)}) (b : BitVec 128) : BitVec 128 :=
  match t with
  | ({kl(n)}) => ni_encrypt_{n} {ks(n)} b
/-- `decrypt::<{n}>` on a round-key tuple (regenerated code only) -/
def decT{n} (t : {tup(n)}) (b : BitVec 128) : BitVec 128 :=
  match t with
  | ({kl(n)}) => ni_decrypt_{n} {ks(n)} b
/-- `inv_keys::<{n}>` on a round-key tuple (regenerated code only) -/
def invT{n} (t : {tup(n)}) : {tup(n)} :=
  match t with
  | ({kl(n)}) => ni_inv_keys_{n} {ks(n)}
def encparT{n} (t : {tup(n)}) ({ks(9,'b')} : BitVec 128) : {tup(9)} :=
  match t with
  | ({kl(n)}) => ni_encrypt_par_{n} {ks(n)} {ks(9,'b')}
def decparT{n} (t : {tup(n)}) ({ks(9,'b')} : BitVec 128) : {tup(9)} :=
  match t with
  | ({kl(n)}) => ni_decrypt_par_{n} {ks(n)} {ks(9,'b')}

theorem l{n}_length (t : {tup(n)}) : (l{n} t).length = {n} := by
  obtain ⟨{kl(n)}⟩ := t
  rfl
theorem encT{n}_eq (t : {tup(n)}) (b : BitVec 128) : encT{n} t b = BC.AesNi.encrypt (l{n} t) b := by
  obtain ⟨{kl(n)}⟩ := t
  exact encrypt_{n}_eq ..
theorem decT{n}_eq (t : {tup(n)}) (b : BitVec 128) : decT{n} t b = BC.AesNi.decrypt (l{n} t) b := by
  obtain ⟨{kl(n)}⟩ := t
  exact decrypt_{n}_eq ..
theorem invT{n}_eq (t : {tup(n)}) : l{n} (invT{n} t) = BC.AesNi.inv_keys (l{n} t) := by
  obtain ⟨{kl(n)}⟩ := t
  exact inv_keys_{n}_eq ..
theorem encparT{n}_eq (t : {tup(n)}) ({ks(9,'b')} : BitVec 128) :
    l9 (encparT{n} t {ks(9,'b')}) = [{kl(9,'b')}].map (encT{n} t) := by
  have h : (l{n} t).length = 11 ∨ (l{n} t).length = 13 ∨ (l{n} t).length = 15 := by simp only [l{n}_length]; decide
  have e : encT{n} t = BC.AesNi.encrypt (l{n} t) := funext (encT{n}_eq t)
  rw [e, ← BC.AesNi.encrypt_par_eq_map _ _ h]
  obtain ⟨{kl(n)}⟩ := t
  exact encrypt_par_{n}_eq ..
theorem decparT{n}_eq (t : {tup(n)}) ({ks(9,'b')} : BitVec 128) :
    l9 (decparT{n} t {ks(9,'b')}) = [{kl(9,'b')}].map (decT{n} t) := by
  have h : (l{n} t).length = 11 ∨ (l{n} t).length = 13 ∨ (l{n} t).length = 15 := by simp only [l{n}_length]; decide
  have e : decT{n} t = BC.AesNi.decrypt (l{n} t) := funext (decT{n}_eq t)
  rw [e, ← BC.AesNi.decrypt_par_eq_map _ _ h]
  obtain ⟨{kl(n)}⟩ := t
  exact decrypt_par_{n}_eq ..
""")
for bits, n, kb in ((128, 11, 16), (192, 13, 24), (256, 15, 32)):
    L.append(f"""/-! ## AES-{bits} -/

/-- `encrypt::<{n}>(&aes{bits}_expand_key(key), block)` — regenerated code only -/
def enc{bits} (key : BitVec {bits}) (b : BitVec 128) : BitVec 128 :=
  match ni_aes{bits}_expand_key key with
  | ({kl(n)}) => ni_encrypt_{n} {ks(n)} b

/-- `decrypt::<{n}>(&inv_keys(&aes{bits}_expand_key(key)), block)` — regenerated code only -/
def dec{bits} (key : BitVec {bits}) (b : BitVec 128) : BitVec 128 :=
  match ni_aes{bits}_expand_key key with
  | ({kl(n)}) =>
    match ni_inv_keys_{n} {ks(n)} with
    | ({kl(n,'d')}) => ni_decrypt_{n} {ks(n,'d')} b

/-- `encrypt_par::<{n}, U9>(&aes{bits}_expand_key(key), blocks)` — regenerated code only -/
def encpar{bits} (key : BitVec {bits}) ({ks(9,'b')} : BitVec 128) : {tup(9)} :=
  match ni_aes{bits}_expand_key key with
  | ({kl(n)}) => ni_encrypt_par_{n} {ks(n)} {ks(9,'b')}

/-- `decrypt_par::<{n}, U9>(&inv_keys(&aes{bits}_expand_key(key)), blocks)` — regenerated code only -/
def decpar{bits} (key : BitVec {bits}) ({ks(9,'b')} : BitVec 128) : {tup(9)} :=
  match ni_aes{bits}_expand_key key with
  | ({kl(n)}) =>
    match ni_inv_keys_{n} {ks(n)} with
    | ({kl(n,'d')}) => ni_decrypt_par_{n} {ks(n,'d')} {ks(9,'b')}

theorem enc{bits}_T (key : BitVec {bits}) (b : BitVec 128) : enc{bits} key b = encT{n} (ni_aes{bits}_expand_key key) b := rfl
theorem dec{bits}_T (key : BitVec {bits}) (b : BitVec 128) : dec{bits} key b = decT{n} (invT{n} (ni_aes{bits}_expand_key key)) b := rfl
theorem encpar{bits}_T (key : BitVec {bits}) ({ks(9,'b')} : BitVec 128) :
    encpar{bits} key {ks(9,'b')} = encparT{n} (ni_aes{bits}_expand_key key) {ks(9,'b')} := rfl
theorem decpar{bits}_T (key : BitVec {bits}) ({ks(9,'b')} : BitVec 128) :
    decpar{bits} key {ks(9,'b')} = decparT{n} (invT{n} (ni_aes{bits}_expand_key key)) {ks(9,'b')} := rfl

/-- the regenerated code is the model -/
theorem enc{bits}_eq_impl (key : BitVec {bits}) (b : BitVec 128) : enc{bits} key b = BC.AesNi.encrypt{bits} key b := by
  rw [enc{bits}_T, encT{n}_eq, aes{bits}_expand_key_eq, BC.AesNi.encrypt{bits}_def]
theorem dec{bits}_eq_impl (key : BitVec {bits}) (b : BitVec 128) : dec{bits} key b = BC.AesNi.decrypt{bits} key b := by
  rw [dec{bits}_T, decT{n}_eq, invT{n}_eq, aes{bits}_expand_key_eq, BC.AesNi.decrypt{bits}_def]

theorem dec{bits}_enc{bits} (key : BitVec {bits}) (b : BitVec 128) : dec{bits} key (enc{bits} key b) = b := by
  rw [enc{bits}_eq_impl, dec{bits}_eq_impl, BC.AesNi.decrypt{bits}_encrypt{bits}]
theorem enc{bits}_dec{bits} (key : BitVec {bits}) (b : BitVec 128) : enc{bits} key (dec{bits} key b) = b := by
  rw [enc{bits}_eq_impl, dec{bits}_eq_impl, BC.AesNi.encrypt{bits}_decrypt{bits}]
/-- = FIPS-197 `Cipher` with `KeyExpansion` of the {kb} key bytes -/
theorem enc{bits}_eq_spec (key : BitVec {bits}) (b : BitVec 128) : enc{bits} key b = BC.Spec.Aes.encrypt (BC.unpackBE {kb} key) b := by
  rw [enc{bits}_eq_impl, BC.AesNi.encrypt{bits}_eq_spec]
/-- = FIPS-197 `InvCipher` -/
theorem dec{bits}_eq_spec (key : BitVec {bits}) (b : BitVec 128) : dec{bits} key b = BC.Spec.Aes.decrypt (BC.unpackBE {kb} key) b := by
  rw [dec{bits}_eq_impl, BC.AesNi.decrypt{bits}_eq_spec]

/-- every lane of the 9-block function is the single-block function -/
theorem encpar{bits}_lanes (key : BitVec {bits}) ({ks(9,'b')} : BitVec 128) :
    l9 (encpar{bits} key {ks(9,'b')}) = [{", ".join(f"enc{bits} key b{i}" for i in range(9))}] := by
  rw [encpar{bits}_T, encparT{n}_eq]
  rfl
theorem decpar{bits}_lanes (key : BitVec {bits}) ({ks(9,'b')} : BitVec 128) :
    l9 (decpar{bits} key {ks(9,'b')}) = [{", ".join(f"dec{bits} key b{i}" for i in range(9))}] := by
  rw [decpar{bits}_T, decparT{n}_eq]
  rfl
""")
L.append("""/-! ## hazmat.rs (regenerated code = FIPS-197 layers) -/

open BC.Spec.Aes in
theorem hazmat_cipher_round_eq_spec (b k : BitVec 128) :
    ni_hazmat_cipher_round b k = mixColumns (shiftRows (subBytes b)) ^^^ k := by
  rw [hazmat_cipher_round_eq, BC.AesNi.cipher_round_eq]
open BC.Spec.Aes in
theorem hazmat_equiv_inv_cipher_round_eq_spec (b k : BitVec 128) :
    ni_hazmat_equiv_inv_cipher_round b k = invMixColumns (invShiftRows (invSubBytes b)) ^^^ k := by
  rw [hazmat_equiv_inv_cipher_round_eq, BC.AesNi.equiv_inv_cipher_round_eq]
theorem hazmat_mix_columns_eq_spec (b : BitVec 128) : ni_hazmat_mix_columns b = BC.Spec.Aes.mixColumns b := by
  rw [hazmat_mix_columns_eq, BC.AesNi.mix_columns_eq]
theorem hazmat_inv_mix_columns_eq_spec (b : BitVec 128) : ni_hazmat_inv_mix_columns b = BC.Spec.Aes.invMixColumns b := by
  rw [hazmat_inv_mix_columns_eq, BC.AesNi.inv_mix_columns_eq]
theorem hazmat_inv_mix_mix (b : BitVec 128) : ni_hazmat_inv_mix_columns (ni_hazmat_mix_columns b) = b := by
  rw [hazmat_inv_mix_columns_eq, hazmat_mix_columns_eq, BC.AesNi.inv_mix_columns_mix_columns]
theorem hazmat_mix_inv_mix (b : BitVec 128) : ni_hazmat_mix_columns (ni_hazmat_inv_mix_columns b) = b := by
  rw [hazmat_inv_mix_columns_eq, hazmat_mix_columns_eq, BC.AesNi.mix_columns_inv_mix_columns]
""")
for f in ("cipher_round", "equiv_inv_cipher_round"):
    L.append(f"""/-- the 8-block form is 8 independent single-block calls -/
theorem hazmat_{f}_par_lanes ({ks(8,'b')} {ks(8)} : BitVec 128) :
    l8 (ni_hazmat_{f}_par {ks(8,'b')} {ks(8)}) = [{", ".join(f"ni_hazmat_{f} b{i} k{i}" for i in range(8))}] := by
  simp only [hazmat_{f}_par_eq, hazmat_{f}_eq, BC.AesNi.{f}_par_eq]
""")
L.append("end BC.Code.AesNi")
open("/tmp/dev/w_intrin/src/BlockCiphers/Proofs/CodeAesNi.lean","w").write("\n".join(L))
