def ks(n, p="k"): return " ".join(f"{p}{i}" for i in range(n))
def kl(n, p="k"): return ", ".join(f"{p}{i}" for i in range(n))
def tup(n): return " × ".join(["BitVec 128"] * n)
PAR = {11: 21, 13: 19, 15: 17}
L = []
L.append("""import BlockCiphers.Gen.Aes_Armv8
import BlockCiphers.Proofs.GenAesArmv8
import BlockCiphers.Proofs.AesArmv8
import BlockCiphers.Proofs.AesArmv8Par
/-
Code-level theorems for the ARMv8 Cryptography-Extensions backend (`aes/src/armv8/{expand,encdec,hazmat}.rs`), AES-128/192/256.
`enc<N>` / `dec<N>` / `encpar<N>` / `decpar<N>` are built ONLY from regenerated definitions (`Gen/Aes_Armv8.lean`):
  enc<N> key b    = encrypt::<KEYS>(&expand_key::<L, KEYS>(key), b)
  dec<N> key b    = decrypt::<KEYS>(&inv_expanded_keys(&expand_key::<L, KEYS>(key)), b)
  encpar<N>, decpar<N>: the same with encrypt_par / decrypt_par::<KEYS, ParBlocks> on ParBlocks = 21 / 19 / 17 blocks.
The intrinsics occurring in the regenerated text are the transcriptions of the Arm ARM in `Prelude/ArmIntrinsics.lean` (trusted:
no AArch64 hardware in the sandbox, see that file).
For every key and every block: round trips; equality with FIPS-197 AES (`Spec.Aes.encrypt` / `decrypt`), the key being passed to
the specification as its bytes `unpackBE n key`; every lane of the ParBlocks-block functions equals the single-block function;
the hazmat functions are the FIPS-197 layer compositions.
They compose the ties of `Proofs/GenAesArmv8.lean` with the model theorems of `Proofs/AesArmv8.lean` (C02/C01/C17) and
`Proofs/AesArmv8Par.lean`.  Produced by mk_code_armv8.py (only the long tuple patterns are mechanical).
-/
namespace BC.Code.AesArmv8
open BC.Gen.Fn BC.GenAesArmv8
set_option maxRecDepth 100000
""")
for n in (11, 13, 15):
    m = PAR[n]
    bl = "[" + kl(m,'b') + "]"
    L.append(f"""/-! ### auxiliary: the regenerated functions on a tuple of {n} round keys -/

/-- `encrypt::<{n}>` on a round-key tuple (regenerated code only) -/
def encT{n} (t : {tup(n)}) (b : BitVec 128) : BitVec 128 :=
  match t with
  | ({kl(n)}) => armv8_encrypt_{n} {ks(n)} b
/-- `decrypt::<{n}>` on a round-key tuple (regenerated code only) -/
def decT{n} (t : {tup(n)}) (b : BitVec 128) : BitVec 128 :=
  match t with
  | ({kl(n)}) => armv8_decrypt_{n} {ks(n)} b
/-- `inv_expanded_keys::<{n}>` on a round-key tuple (regenerated code only) -/
def invT{n} (t : {tup(n)}) : {tup(n)} :=
  match t with
  | ({kl(n)}) => armv8_inv_expanded_keys_{n} {ks(n)}
def encparT{n} (t : {tup(n)}) ({ks(m,'b')} : BitVec 128) : {tup(m)} :=
  match t with
  | ({kl(n)}) => armv8_encrypt_par_{n} {ks(n)} {ks(m,'b')}
def decparT{n} (t : {tup(n)}) ({ks(m,'b')} : BitVec 128) : {tup(m)} :=
  match t with
  | ({kl(n)}) => armv8_decrypt_par_{n} {ks(n)} {ks(m,'b')}

theorem l{n}_length (t : {tup(n)}) : (l{n} t).length = {n} := by
  obtain ⟨{kl(n)}⟩ := t
  rfl
theorem encT{n}_eq (t : {tup(n)}) (b : BitVec 128) : encT{n} t b = BC.AesArmv8.encrypt (l{n} t) b := by
  obtain ⟨{kl(n)}⟩ := t
  exact encrypt_{n}_eq ..
theorem decT{n}_eq (t : {tup(n)}) (b : BitVec 128) : decT{n} t b = BC.AesArmv8.decrypt (l{n} t) b := by
  obtain ⟨{kl(n)}⟩ := t
  exact decrypt_{n}_eq ..
theorem invT{n}_eq (t : {tup(n)}) : l{n} (invT{n} t) = BC.AesArmv8.inv_expanded_keys (l{n} t) := by
  obtain ⟨{kl(n)}⟩ := t
  exact inv_expanded_keys_{n}_eq ..
theorem encparT{n}_eq (t : {tup(n)}) ({ks(m,'b')} : BitVec 128) :
    l{m} (encparT{n} t {ks(m,'b')}) = {bl}.map (encT{n} t) := by
  have h : (l{n} t).length = 11 ∨ (l{n} t).length = 13 ∨ (l{n} t).length = 15 := by simp only [l{n}_length]; decide
  have e : encT{n} t = BC.AesArmv8.encrypt (l{n} t) := funext (encT{n}_eq t)
  rw [e, ← BC.AesArmv8.encrypt_par_eq_map _ _ h]
  obtain ⟨{kl(n)}⟩ := t
  exact encrypt_par_{n}_eq ..
theorem decparT{n}_eq (t : {tup(n)}) ({ks(m,'b')} : BitVec 128) :
    l{m} (decparT{n} t {ks(m,'b')}) = {bl}.map (decT{n} t) := by
  have h : (l{n} t).length = 11 ∨ (l{n} t).length = 13 ∨ (l{n} t).length = 15 := by simp only [l{n}_length]; decide
  have e : decT{n} t = BC.AesArmv8.decrypt (l{n} t) := funext (decT{n}_eq t)
  rw [e, ← BC.AesArmv8.decrypt_par_eq_map _ _ h]
  obtain ⟨{kl(n)}⟩ := t
  exact decrypt_par_{n}_eq ..
""")
for bits, n, kb in ((128, 11, 16), (192, 13, 24), (256, 15, 32)):
    m = PAR[n]
    ek = f"armv8_expand_key_{kb}_{n}"
    L.append(f"""/-! ## AES-{bits} -/

/-- `encrypt::<{n}>(&expand_key::<{kb}, {n}>(key), block)` — regenerated code only -/
def enc{bits} (key : BitVec {bits}) (b : BitVec 128) : BitVec 128 :=
  match {ek} key with
  | ({kl(n)}) => armv8_encrypt_{n} {ks(n)} b

/-- `decrypt::<{n}>(&inv_expanded_keys(&expand_key::<{kb}, {n}>(key)), block)` — regenerated code only -/
def dec{bits} (key : BitVec {bits}) (b : BitVec 128) : BitVec 128 :=
  match {ek} key with
  | ({kl(n)}) =>
    match armv8_inv_expanded_keys_{n} {ks(n)} with
    | ({kl(n,'d')}) => armv8_decrypt_{n} {ks(n,'d')} b

/-- `encrypt_par::<{n}, U{m}>(&expand_key::<{kb}, {n}>(key), blocks)` — regenerated code only -/
def encpar{bits} (key : BitVec {bits}) ({ks(m,'b')} : BitVec 128) : {tup(m)} :=
  match {ek} key with
  | ({kl(n)}) => armv8_encrypt_par_{n} {ks(n)} {ks(m,'b')}

/-- `decrypt_par::<{n}, U{m}>(&inv_expanded_keys(&expand_key::<{kb}, {n}>(key)), blocks)` — regenerated code only -/
def decpar{bits} (key : BitVec {bits}) ({ks(m,'b')} : BitVec 128) : {tup(m)} :=
  match {ek} key with
  | ({kl(n)}) =>
    match armv8_inv_expanded_keys_{n} {ks(n)} with
    | ({kl(n,'d')}) => armv8_decrypt_par_{n} {ks(n,'d')} {ks(m,'b')}

theorem enc{bits}_T (key : BitVec {bits}) (b : BitVec 128) : enc{bits} key b = encT{n} ({ek} key) b := rfl
theorem dec{bits}_T (key : BitVec {bits}) (b : BitVec 128) : dec{bits} key b = decT{n} (invT{n} ({ek} key)) b := rfl
theorem encpar{bits}_T (key : BitVec {bits}) ({ks(m,'b')} : BitVec 128) :
    encpar{bits} key {ks(m,'b')} = encparT{n} ({ek} key) {ks(m,'b')} := rfl
theorem decpar{bits}_T (key : BitVec {bits}) ({ks(m,'b')} : BitVec 128) :
    decpar{bits} key {ks(m,'b')} = decparT{n} (invT{n} ({ek} key)) {ks(m,'b')} := rfl

/-- the regenerated code is the model -/
theorem enc{bits}_eq_impl (key : BitVec {bits}) (b : BitVec 128) : enc{bits} key b = BC.AesArmv8.encrypt{bits} key b := by
  rw [enc{bits}_T, encT{n}_eq, expand_key_{kb}_{n}_eq, BC.AesArmv8.encrypt{bits}_def]
theorem dec{bits}_eq_impl (key : BitVec {bits}) (b : BitVec 128) : dec{bits} key b = BC.AesArmv8.decrypt{bits} key b := by
  rw [dec{bits}_T, decT{n}_eq, invT{n}_eq, expand_key_{kb}_{n}_eq, BC.AesArmv8.decrypt{bits}_def]

theorem dec{bits}_enc{bits} (key : BitVec {bits}) (b : BitVec 128) : dec{bits} key (enc{bits} key b) = b := by
  rw [enc{bits}_eq_impl, dec{bits}_eq_impl, BC.AesArmv8.decrypt{bits}_encrypt{bits}]
theorem enc{bits}_dec{bits} (key : BitVec {bits}) (b : BitVec 128) : enc{bits} key (dec{bits} key b) = b := by
  rw [enc{bits}_eq_impl, dec{bits}_eq_impl, BC.AesArmv8.encrypt{bits}_decrypt{bits}]
/-- = FIPS-197 `Cipher` with `KeyExpansion` of the {kb} key bytes -/
theorem enc{bits}_eq_spec (key : BitVec {bits}) (b : BitVec 128) : enc{bits} key b = BC.Spec.Aes.encrypt (BC.unpackBE {kb} key) b := by
  rw [enc{bits}_eq_impl, BC.AesArmv8.encrypt{bits}_eq_spec]
/-- = FIPS-197 `InvCipher` -/
theorem dec{bits}_eq_spec (key : BitVec {bits}) (b : BitVec 128) : dec{bits} key b = BC.Spec.Aes.decrypt (BC.unpackBE {kb} key) b := by
  rw [dec{bits}_eq_impl, BC.AesArmv8.decrypt{bits}_eq_spec]

/-- every lane of the {m}-block function is the single-block function -/
theorem encpar{bits}_lanes (key : BitVec {bits}) ({ks(m,'b')} : BitVec 128) :
    l{m} (encpar{bits} key {ks(m,'b')}) = [{", ".join(f"enc{bits} key b{i}" for i in range(m))}] := by
  rw [encpar{bits}_T, encparT{n}_eq]
  rfl
theorem decpar{bits}_lanes (key : BitVec {bits}) ({ks(m,'b')} : BitVec 128) :
    l{m} (decpar{bits} key {ks(m,'b')}) = [{", ".join(f"dec{bits} key b{i}" for i in range(m))}] := by
  rw [decpar{bits}_T, decparT{n}_eq]
  rfl
""")
L.append("""/-! ## hazmat.rs (regenerated code = FIPS-197 layers) -/

open BC.Spec.Aes in
theorem hazmat_cipher_round_eq_spec (b k : BitVec 128) :
    armv8_hazmat_cipher_round b k = mixColumns (shiftRows (subBytes b)) ^^^ k := by
  rw [hazmat_cipher_round_eq, BC.AesArmv8.cipher_round_eq]
open BC.Spec.Aes in
theorem hazmat_equiv_inv_cipher_round_eq_spec (b k : BitVec 128) :
    armv8_hazmat_equiv_inv_cipher_round b k = invMixColumns (invShiftRows (invSubBytes b)) ^^^ k := by
  rw [hazmat_equiv_inv_cipher_round_eq, BC.AesArmv8.equiv_inv_cipher_round_eq]
theorem hazmat_mix_columns_eq_spec (b : BitVec 128) : armv8_hazmat_mix_columns b = BC.Spec.Aes.mixColumns b := by
  rw [hazmat_mix_columns_eq, BC.AesArmv8.mix_columns_eq]
theorem hazmat_inv_mix_columns_eq_spec (b : BitVec 128) : armv8_hazmat_inv_mix_columns b = BC.Spec.Aes.invMixColumns b := by
  rw [hazmat_inv_mix_columns_eq, BC.AesArmv8.inv_mix_columns_eq]
theorem hazmat_inv_mix_mix (b : BitVec 128) : armv8_hazmat_inv_mix_columns (armv8_hazmat_mix_columns b) = b := by
  rw [hazmat_inv_mix_columns_eq, hazmat_mix_columns_eq, BC.AesArmv8.inv_mix_columns_mix_columns]
theorem hazmat_mix_inv_mix (b : BitVec 128) : armv8_hazmat_mix_columns (armv8_hazmat_inv_mix_columns b) = b := by
  rw [hazmat_inv_mix_columns_eq, hazmat_mix_columns_eq, BC.AesArmv8.mix_columns_inv_mix_columns]
""")
for f in ("cipher_round", "equiv_inv_cipher_round"):
    L.append(f"""/-- the 8-block form is 8 independent single-block calls -/
theorem hazmat_{f}_par_lanes ({ks(8,'b')} {ks(8)} : BitVec 128) :
    l8 (armv8_hazmat_{f}_par {ks(8,'b')} {ks(8)}) = [{", ".join(f"armv8_hazmat_{f} b{i} k{i}" for i in range(8))}] := by
  simp only [hazmat_{f}_par_eq, hazmat_{f}_eq, BC.AesArmv8.{f}_par_eq]
""")
L.append("end BC.Code.AesArmv8")
open("/tmp/dev/w_intrin/src/BlockCiphers/Proofs/CodeAesArmv8.lean","w").write("\n".join(L))
