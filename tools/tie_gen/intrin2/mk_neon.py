#!/usr/bin/env python3
"""generates Proofs/GenCipherKuznyechikNeon.lean and Proofs/GenKeysKuznyechikNeon.lean"""
import os
SRC = os.environ.get("KUZ_SRC", "/tmp/dev/w_intrin2/src")  # tree holding BlockCiphers/Gen (inputs) and BlockCiphers/Proofs (outputs)
import re
T3 = open(os.path.join(os.path.dirname(os.path.abspath(__file__)), "frag_neon.lean.txt")).read()
lane_lemmas = T3[T3.index("theorem ext_shift"):T3.index("end T3")]
genc = open(SRC + "/BlockCiphers/Gen/Cipher_Kuznyechik_neon.lean").read()
genk = open(SRC + "/BlockCiphers/Gen/Keys_Kuznyechik_neon.lean").read()
dec = genc[genc.index("def kuznyechik_neon_decrypt_block (self_00"):genc.index("kuznyechik_neon_encrypt_par_blocks_tbl0")]
sb = re.findall(r"let tbl(?:_\d+)? := BC\.Arm\.vld1q_u8 (0x[0-9a-f]+#128)", dec)
PC, PIC = sb[:16], sb[16:32]
assert len(sb) == 32 and sb[0].startswith("0xfceedd11"), (len(sb), sb[:1])
kb_ = genk[genk.index("def kuznyechik_neon_enckeys_new (key"):genk.index("kuznyechik_neon_inv_enc_keys_tbl0")]
KC = re.findall(r"veorq_u8 k[12](?:_\d+)? \(BC\.Arm\.vld1q_u8 (0x[0-9a-f]+#128)\)", kb_)
assert len(KC) == 32, len(KC)
NPAR = 8
R16 = range(16)
ks = " ".join(f"k{i}" for i in range(10)); kc = ", ".join(f"k{i}" for i in range(10))
es = " ".join(f"e{i}" for i in range(10)); ec = ", ".join(f"e{i}" for i in range(10))
rs = " ".join(f"r{i}" for i in R16)
blk = lambda v: " ++ ".join(f"({v}.extractLsb' {8*i} 8)" for i in range(15, -1, -1))
kb = lambda lo: " ++ ".join(f"(key.extractLsb' {8*i} 8)" for i in range(lo + 15, lo - 1, -1))
PR = " ".join(f"(BC.Arm.vld1q_u8 {c})" for c in PC)
PIR = " ".join(f"(BC.Arm.vld1q_u8 {c})" for c in PIC)

def chain(mem, ind):
    s = f"getG {mem} {ind} 0"
    for i in range(1, 8):
        s = f"BC.Arm.veorq_u8 ({s}) (getG {mem} {ind} {i})"
    return s

def enc_body(b):
    s = f"loadG {b}"
    for i in range(9):
        s = f"trG mem (BC.Arm.veorq_u8 ({s}) k{i})"
    return f"storeG (BC.Arm.veorq_u8 ({s}) k9)"

def dec_body(b):
    s = f"trG mem (subG {PR} (BC.Arm.veorq_u8 (loadG {b}) k0))"
    for i in range(1, 9):
        s = f"BC.Arm.veorq_u8 (trG mem ({s})) k{i}"
    return f"storeG (BC.Arm.veorq_u8 (subG {PIR} ({s})) k9)"

def mem_ok(fn, soft, tab, S):
    eqs = "\n".join(f"theorem {fn}_tbl_{i} : kuznyechik_neon_{fn}_tbl{i} = kuznyechik_soft_{soft}_tbl{i} := rfl" for i in R16)
    rw = ", ".join(f"{fn}_tbl_{i}" for i in R16)
    return f"""{eqs}
theorem {fn}_mem : MemOK {tab}.get kuznyechik_neon_{fn}_mem0 := by
  rw [kuznyechik_neon_{fn}_mem0, {rw}]
  exact memOK_of_rows _ {"_ " * 16}{S}
"""

bsN = " ".join(f"b{j}" for j in range(NPAR))
tyN = " × ".join(["BitVec 128"] * NPAR)
def proj(j):
    return "t" + ".2" * j + (".1" if j < NPAR - 1 else "")

out = f'''import BlockCiphers.Gen.Cipher_Kuznyechik_neon
import BlockCiphers.Proofs.GenCipherKuznyechikSse2
import BlockCiphers.Proofs.KuznyechikNeon
/-!
Tie of the regenerated NEON back end of Kuznyechik (`Gen/Cipher_Kuznyechik_neon.lean`, translated from
/repo/kuznyechik/src/neon/backends.rs: the `core::arch::aarch64` intrinsics as calls of their transcriptions in
Prelude/ArmIntrinsics.lean and Prelude/KuzIntrinsics.lean, the fused tables read through the data-dependent pointers of `get!`
as `BC.Gen.memRead16`, the sixteen `vld1q_u8(&sbox[16·j])` of `sub_bytes` as loads of constant memory) to the model
`BC.Kuznyechik.Neon`: for ALL round keys `k0 … k9` and ALL blocks

    kuznyechik_neon_encrypt_block k0 … k9 b = Neon.encrypt_block ⟨k0, …, k9⟩ b
    kuznyechik_neon_decrypt_block k0 … k9 b = Neon.decrypt_block ⟨k0, …, k9⟩ b
    kuznyechik_neon_encrypt_par_blocks k0 … k9 b0 … b7  (as a list) = Neon.encrypt_par_blocks ⟨k0, …, k9⟩ [b0, …, b7]
    kuznyechik_neon_decrypt_par_blocks k0 … k9 b0 … b7  (as a list) = Neon.decrypt_par_blocks ⟨k0, …, k9⟩ [b0, …, b7]

Same steps as Proofs/GenCipherKuznyechikSse2.lean (whose `MemOK`, `memOK_of_rows`, `load_at_of_aligned` are reused; the model's
NEON `transform` is definitionally its SSE2 `transform`: `Neon.transform_eq_sse2`).  `vqtbl4q_u8` (TBL on the 512-bit
concatenation of four registers, Prelude/KuzIntrinsics.lean) is the model's four-way case distinction (`lane_eq`, `vqtbl4q_eq`);
the 2 × 16 constant registers of `sub_bytes` are the model's `ld_sbox P (16·j)` / `ld_sbox P_INV (16·j)` (kernel evaluation).
-/
set_option maxRecDepth 100000
set_option linter.unusedSimpArgs false
set_option linter.unusedVariables false
namespace BC.GenCipher.KuznyechikNeon
open BC BC.Kuznyechik BC.Gen.Fn BC.GenCipher.KuznyechikSse2
open BC.GenCipher.Kuznyechik (encS decS)

/-! ### the extern intrinsics are the model's -/
theorem vld1q_eq (m : BitVec 128) : BC.Arm.vld1q_u8 m = Neon.vld1q_u8 m := rfl
theorem vst1q_eq (m : BitVec 128) : BC.Arm.vst1q_u8 m = Neon.vst1q_u8 m := rfl
theorem veorq_eq (a b : BitVec 128) : BC.Arm.veorq_u8 a b = Neon.veorq_u8 a b := rfl
theorem vorrq_eq (a b : BitVec 128) : BC.Arm.vorrq_u8 a b = Neon.vorrq_u8 a b := rfl
theorem vdupq_eq (v : BitVec 8) : BC.Arm.vdupq_n_u8 v = Neon.vdupq_n_u8 v := rfl
theorem vzip1q_eq (a b : BitVec 128) : BC.Arm.vzip1q_u8 a b = Neon.vzip1q_u8 a b := unpacklo_eq a b
theorem vzip2q_eq (a b : BitVec 128) : BC.Arm.vzip2q_u8 a b = Neon.vzip2q_u8 a b := unpackhi_eq a b
theorem vcombine_eq (lo hi : BitVec 64) : BC.Arm.vcombine_u8 (BC.Arm.vcreate_u8 lo) (BC.Arm.vcreate_u8 hi) = Neon.vcombine_u8 lo hi := rfl
theorem vreinterpret_eq (a : BitVec 128) : BC.Arm.vreinterpretq_u16_u8 a = Neon.vreinterpretq_u16_u8 a := rfl
theorem vgetq_lane_eq (a : BitVec 128) (k : Nat) : BC.Arm.vgetq_lane_u16 a k = Neon.vgetq_lane_u16 a k := rfl
theorem vshl4_eq (a : BitVec 128) : BC.Arm.vshlq_n_u16 a 4 = Neon.vshlq_n_u16 a 4 := by
  simp only [BC.Arm.vshlq_n_u16, BC.X86.word, Neon.vshlq_n_u16, Neon.vgetq_lane_u16, range8, List.foldl, Nat.reduceSub, Nat.reduceMul]
  bv_decide
theorem ofLeBytes_cat (f : Nat → BitVec 8) : ofLeBytes f = {" ++ ".join(f"f {i}" for i in range(15, -1, -1))} := by
  simp only [ofLeBytes, range16, List.foldl, Nat.reduceSub]
  bv_decide
theorem vsubq_eq (a b : BitVec 128) : BC.Arm.vsubq_u8 a b = Neon.vsubq_u8 a b := by
  simp only [BC.Arm.vsubq_u8, Neon.vsubq_u8, ofLeBytes_cat, BC.X86.byte, leByte]

{lane_lemmas}
/-- TBL on the 512-bit table `t3:t2:t1:t0` is the model's `vqtbl4q_u8` -/
theorem vqtbl4q_eq (t0 t1 t2 t3 idx : BitVec 128) : BC.Arm.vqtbl4q_u8 t0 t1 t2 t3 idx = Neon.vqtbl4q_u8 ⟨t0, t1, t2, t3⟩ idx := by
  simp only [BC.Arm.vqtbl4q_u8, Neon.vqtbl4q_u8_eq, ofLeBytes_cat, BC.X86.byte, lane_eq, leByte]

/-! ### `transform` -/

/-- `get!(table, ind, i)` -/
def getG (mem : List (Array Nat)) (ind : BitVec 128) (i : Nat) : BitVec 128 :=
  BC.Arm.vld1q_u8 (BC.Gen.memRead16 mem ((BC.Arm.vgetq_lane_u16 ind i).setWidth 64).toNat)

def indG : BitVec 128 := BC.Arm.vcombine_u8 (BC.Arm.vcreate_u8 0x706050403020100#64) (BC.Arm.vcreate_u8 0xf0e0d0c0b0a0908#64)
theorem indG_eq : indG = Sse2.ind := rfl

/-- `transform(block, table)` as generated -/
def trG (mem : List (Array Nat)) (b : BitVec 128) : BitVec 128 :=
  BC.Arm.veorq_u8
    ({chain("mem", "(BC.Arm.vshlq_n_u16 (BC.Arm.vreinterpretq_u16_u8 (BC.Arm.vzip1q_u8 b indG)) 4)")})
    ({chain("mem", "(BC.Arm.vshlq_n_u16 (BC.Arm.vreinterpretq_u16_u8 (BC.Arm.vzip2q_u8 b indG)) 4)")})

theorem getG_eq (tab : Vector (BitVec 128) 4096) (mem : List (Array Nat)) (h : MemOK tab mem) (x : BitVec 128) (k : Nat)
    (ha : (Sse2._mm_extract_epi16 x k).toNat % 16 = 0) : getG mem x k = Sse2.get tab x k := by
  unfold getG Sse2.get
  exact (load_memRead16 mem _).trans (load_at_of_aligned tab mem h _ ha)
'''
for k in range(8):
    for side, un in (("lind", "unpacklo"), ("rind", "unpackhi")):
        out += f'''theorem getG_{side}_{k} (tab : Vector (BitVec 128) 4096) (mem : List (Array Nat)) (h : MemOK tab mem) (v : BitVec 128) :
    getG mem (Sse2._mm_slli_epi16 (Sse2._mm_{un}_epi8 v Sse2.ind) 4) {k} = Sse2.get tab (Sse2._mm_slli_epi16 (Sse2._mm_{un}_epi8 v Sse2.ind) 4) {k} := by
  apply getG_eq tab mem h _ {k}
  rw [Sse2.{side}_lane_{k}, laneIdx_toNat _ _ (by decide)]
  omega
'''
gl = ", ".join(f"getG_{s}_{k} tab mem h" for s in ("lind", "rind") for k in range(8))
ldP = "\n".join(f"theorem ldP_{j} : BC.Arm.vld1q_u8 {PC[j]} = Neon.ld_sbox P {16*j} := by\n  rw [ld_sbox_tbl _ P BC.GenCipher.Kuznyechik.p_fin {16*j} (by decide)]; decide +kernel" for j in R16)
ldPI = "\n".join(f"theorem ldPI_{j} : BC.Arm.vld1q_u8 {PIC[j]} = Neon.ld_sbox P_INV {16*j} := by\n  rw [ld_sbox_tbl _ P_INV BC.GenCipher.Kuznyechik.pinvS_e {16*j} (by decide)]; decide +kernel" for j in R16)
ld_tbl = f"""/-- `vld1q_u8(&sbox[off])` through a regenerated copy `s` of the S-box -/
theorem ld_sbox_tbl (s : Array Nat) (sbox : Vector (BitVec 8) 256) (hs : ∀ n : Fin 256, BC.Gen.tblAt s n.val 8 = lut sbox (BitVec.ofNat 8 n.val))
    (off : Nat) (h : off + 15 < 256) :
    Neon.ld_sbox sbox off = {" ++ ".join(f"BC.Gen.tblAt s (off + {j}) 8" for j in range(15, -1, -1))} := by
  rw [Neon.ld_sbox, ofLeBytes_cat]
  rw [{", ".join(f"hs ⟨off + {j}, by omega⟩" for j in range(15, -1, -1))}]
"""
out += f'''
theorem zip1_sse2 (a b : BitVec 128) : BC.Arm.vzip1q_u8 a b = Sse2._mm_unpacklo_epi8 a b := unpacklo_eq a b
theorem zip2_sse2 (a b : BitVec 128) : BC.Arm.vzip2q_u8 a b = Sse2._mm_unpackhi_epi8 a b := unpackhi_eq a b
theorem vshl4_sse2 (a : BitVec 128) : BC.Arm.vshlq_n_u16 a 4 = Sse2._mm_slli_epi16 a 4 := vshl4_eq a

theorem trG_eq (tab : Vector (BitVec 128) 4096) (mem : List (Array Nat)) (h : MemOK tab mem) (b : BitVec 128) :
    trG mem b = Neon.transform b tab := by
  rw [Neon.transform_eq_sse2]
  simp only [trG, Sse2.transform, indG_eq, BC.Arm.vreinterpretq_u16_u8, zip1_sse2, zip2_sse2, vshl4_sse2, BC.Arm.veorq_u8, Sse2._mm_xor_si128, {gl}]

/-! ### `sub_bytes` -/

/-- `sub_bytes(block, sbox)` as generated; `r0 … r15` = the registers `vld1q_u8(&sbox[16·j])` -/
def subG ({rs} b : BitVec 128) : BitVec 128 :=
  let value_vector := BC.Arm.vdupq_n_u8 0x40#8
  let result1 := BC.Arm.vqtbl4q_u8 r0 r1 r2 r3 b
  let block_1 := BC.Arm.vsubq_u8 b value_vector
  let result2 := BC.Arm.vqtbl4q_u8 r4 r5 r6 r7 block_1
  let block_2 := BC.Arm.vsubq_u8 block_1 value_vector
  let result3 := BC.Arm.vqtbl4q_u8 r8 r9 r10 r11 block_2
  let block_3 := BC.Arm.vsubq_u8 block_2 value_vector
  let result4 := BC.Arm.vqtbl4q_u8 r12 r13 r14 r15 block_3
  BC.Arm.vorrq_u8 (BC.Arm.vorrq_u8 result1 result2) (BC.Arm.vorrq_u8 result3 result4)

theorem subG_eq (sbox : Vector (BitVec 8) 256) (b : BitVec 128) :
    subG {" ".join(f"(Neon.ld_sbox sbox {16*j})" for j in R16)} b = Neon.sub_bytes b sbox := by
  simp only [subG, Neon.sub_bytes, Neon.sbox_part, vqtbl4q_eq, vsubq_eq, vorrq_eq, vdupq_eq, Nat.reduceAdd, Nat.zero_add]

{ld_tbl}
{ldP}
{ldPI}

theorem subG_P (b : BitVec 128) : subG {PR} b = Neon.sub_bytes b P := by
  rw [{", ".join(f"ldP_{j}" for j in R16)}]; exact subG_eq P b
theorem subG_P_INV (b : BitVec 128) : subG {PIR} b = Neon.sub_bytes b P_INV := by
  rw [{", ".join(f"ldPI_{j}" for j in R16)}]; exact subG_eq P_INV b

/-! ### load / store of a block -/

def loadG (block : BitVec 128) : BitVec 128 := BC.Arm.vld1q_u8 ({blk("block")})
def storeG (b : BitVec 128) : BitVec 128 :=
  let mem := BC.Arm.vst1q_u8 b
  {blk("mem")}
theorem loadG_eq (block : BitVec 128) : loadG block = Neon.vld1q_u8 block := by
  simp only [loadG, bytes_id, vld1q_eq]
theorem storeG_eq (b : BitVec 128) : storeG b = Neon.vst1q_u8 b := by
  simp only [storeG, bytes_id, vst1q_eq]

/-! ### `encrypt_block`, `decrypt_block` -/

def encG (mem : List (Array Nat)) ({ks} b : BitVec 128) : BitVec 128 :=
  {enc_body("b")}

def decG (mem : List (Array Nat)) ({ks} b : BitVec 128) : BitVec 128 :=
  {dec_body("b")}

theorem encG_eq (mem : List (Array Nat)) (h : MemOK ENC_TABLE.get mem) ({ks} b : BitVec 128) :
    encG mem {ks} b = Neon.encrypt_block ⟨{kc}⟩ b := by
  simp only [encG, Neon.encrypt_block, List.foldl, loadG_eq, storeG_eq, veorq_eq, trG_eq _ mem h]

theorem decG_eq (mem : List (Array Nat)) (h : MemOK DEC_TABLE.get mem) ({ks} b : BitVec 128) :
    decG mem {ks} b = Neon.decrypt_block ⟨{kc}⟩ b := by
  simp only [decG, Neon.decrypt_block, List.foldl, loadG_eq, storeG_eq, veorq_eq, trG_eq _ mem h, subG_P, subG_P_INV]

{mem_ok("encrypt_block", "encrypt_block", "ENC_TABLE", "encS")}
{mem_ok("decrypt_block", "decrypt_block", "DEC_TABLE", "decS")}
theorem neon_encrypt_block_eq_G ({ks} b : BitVec 128) :
    kuznyechik_neon_encrypt_block {ks} b = encG kuznyechik_neon_encrypt_block_mem0 {ks} b := by
  kuz_kernel_rfl

theorem neon_decrypt_block_eq_G ({ks} b : BitVec 128) :
    kuznyechik_neon_decrypt_block {ks} b = decG kuznyechik_neon_decrypt_block_mem0 {ks} b := by
  kuz_kernel_rfl

/-- the regenerated `EncBackend::encrypt_block` (neon) is the model's `Neon.encrypt_block`, all keys, all blocks -/
theorem kuznyechik_neon_encrypt_block_eq ({ks} b : BitVec 128) :
    kuznyechik_neon_encrypt_block {ks} b = Neon.encrypt_block ⟨{kc}⟩ b := by
  rw [neon_encrypt_block_eq_G, encG_eq _ encrypt_block_mem]

/-- the regenerated `DecBackend::decrypt_block` (neon) is the model's `Neon.decrypt_block`, all keys, all blocks -/
theorem kuznyechik_neon_decrypt_block_eq ({ks} b : BitVec 128) :
    kuznyechik_neon_decrypt_block {ks} b = Neon.decrypt_block ⟨{kc}⟩ b := by
  rw [neon_decrypt_block_eq_G, decG_eq _ decrypt_block_mem]

/-! ### `encrypt_par_blocks`, `decrypt_par_blocks` (ParBlocksSize = 8) -/

{mem_ok("encrypt_par_blocks", "encrypt_block", "ENC_TABLE", "encS")}
{mem_ok("decrypt_par_blocks", "decrypt_block", "DEC_TABLE", "decS")}
theorem neon_encrypt_par_blocks_eq_G ({ks} {bsN} : BitVec 128) :
    kuznyechik_neon_encrypt_par_blocks {ks} {bsN} =
      ({", ".join(f"encG kuznyechik_neon_encrypt_par_blocks_mem0 {ks} b{j}" for j in range(NPAR))}) := by
  kuz_kernel_rfl

theorem neon_decrypt_par_blocks_eq_G ({ks} {bsN} : BitVec 128) :
    kuznyechik_neon_decrypt_par_blocks {ks} {bsN} =
      ({", ".join(f"decG kuznyechik_neon_decrypt_par_blocks_mem0 {ks} b{j}" for j in range(NPAR))}) := by
  kuz_kernel_rfl

/-- the eight output blocks as a list -/
def list8 (t : {tyN}) : List (BitVec 128) := [{", ".join(proj(j) for j in range(NPAR))}]

/-- lane-wise form: the regenerated `encrypt_par_blocks` is `encrypt_block` on each of the eight blocks -/
theorem kuznyechik_neon_encrypt_par_blocks_lanes ({ks} {bsN} : BitVec 128) :
    kuznyechik_neon_encrypt_par_blocks {ks} {bsN} =
      ({", ".join(f"Neon.encrypt_block ⟨{kc}⟩ b{j}" for j in range(NPAR))}) := by
  rw [neon_encrypt_par_blocks_eq_G]
  simp only [encG_eq _ encrypt_par_blocks_mem]

theorem kuznyechik_neon_decrypt_par_blocks_lanes ({ks} {bsN} : BitVec 128) :
    kuznyechik_neon_decrypt_par_blocks {ks} {bsN} =
      ({", ".join(f"Neon.decrypt_block ⟨{kc}⟩ b{j}" for j in range(NPAR))}) := by
  rw [neon_decrypt_par_blocks_eq_G]
  simp only [decG_eq _ decrypt_par_blocks_mem]

/-- the regenerated `EncBackend::encrypt_par_blocks` (neon) is the model's `Neon.encrypt_par_blocks` on eight blocks -/
theorem kuznyechik_neon_encrypt_par_blocks_eq ({ks} {bsN} : BitVec 128) :
    list8 (kuznyechik_neon_encrypt_par_blocks {ks} {bsN}) = Neon.encrypt_par_blocks ⟨{kc}⟩ [{", ".join(f"b{j}" for j in range(NPAR))}] := by
  rw [kuznyechik_neon_encrypt_par_blocks_lanes, Neon.encrypt_par_blocks_eq_map _ _ rfl]
  rfl

/-- the regenerated `DecBackend::decrypt_par_blocks` (neon) is the model's `Neon.decrypt_par_blocks` on eight blocks -/
theorem kuznyechik_neon_decrypt_par_blocks_eq ({ks} {bsN} : BitVec 128) :
    list8 (kuznyechik_neon_decrypt_par_blocks {ks} {bsN}) = Neon.decrypt_par_blocks ⟨{kc}⟩ [{", ".join(f"b{j}" for j in range(NPAR))}] := by
  rw [kuznyechik_neon_decrypt_par_blocks_lanes, Neon.decrypt_par_blocks_eq_map _ _ rfl]
  rfl

end BC.GenCipher.KuznyechikNeon
'''
open(SRC + "/BlockCiphers/Proofs/GenCipherKuznyechikNeon.lean", "w").write(out)

C = lambda i: f"(BC.Arm.vld1q_u8 {KC[i]})"
outk = f'''import BlockCiphers.Gen.Keys_Kuznyechik_neon
import BlockCiphers.Proofs.GenCipherKuznyechikNeon
import BlockCiphers.Proofs.GenKeysKuznyechikSoft
/-!
Tie of the regenerated key functions of the NEON back end of Kuznyechik (`Gen/Keys_Kuznyechik_neon.lean`): `EncKeys::new`
(= `expand_enc_keys`, /repo/kuznyechik/src/neon/{{mod.rs,backends.rs}}) and `inv_enc_keys` to the model `BC.Kuznyechik.Neon`:

    kuznyechik_neon_enckeys_new key       = rkTuple (Neon.expand_enc_keys key)
    kuznyechik_neon_inv_enc_keys e0 … e9  = rkTuple (Neon.inv_enc_keys ⟨e0, …, e9⟩)
    kuznyechik_neon_encdeckeys_from e0 … e9 = rkTuple2 (Neon.EncDecKeys.fromEnc ⟨⟨e0, …, e9⟩⟩)   (enc keys, then dec keys)
    kuznyechik_neon_deckeys_from e0 … e9    = rkTuple (Neon.DecKeys.fromEnc ⟨⟨e0, …, e9⟩⟩).keys

for ALL inputs; proof as in Proofs/GenKeysKuznyechikSse2.lean.
-/
set_option maxRecDepth 100000
set_option linter.unusedSimpArgs false
namespace BC.GenKeys.KuznyechikNeon
open BC BC.Kuznyechik BC.Gen.Fn BC.GenCipher.KuznyechikNeon BC.GenKeys.Kuznyechik
open BC.GenCipher.Kuznyechik (encS decS)
open BC.GenCipher.KuznyechikSse2 (MemOK memOK_of_rows)

{mem_ok("enckeys_new", "encrypt_block", "ENC_TABLE", "encS")}
{mem_ok("inv_enc_keys", "decrypt_block", "DEC_TABLE", "decS")}
{chr(10).join(f"theorem ldc_{i} : BC.Arm.vld1q_u8 {KC[i]} = next_const {i} (by decide) := by rw [nc{i}]; decide +kernel" for i in range(32))}

theorem key_hi (key : BitVec 256) : {kb(16)} = key.extractLsb' 128 128 := by bv_decide
theorem key_lo (key : BitVec 256) : {kb(0)} = key.extractLsb' 0 128 := by bv_decide

def expandG (mem : List (Array Nat)) (key : BitVec 256) :=
  let p0 : BitVec 128 × BitVec 128 := (BC.Arm.vld1q_u8 ({kb(16)}), BC.Arm.vld1q_u8 ({kb(0)}))
  let p1 := step4 (trG mem) p0 {" ".join(C(i) for i in range(0, 8))}
  let p2 := step4 (trG mem) p1 {" ".join(C(i) for i in range(8, 16))}
  let p3 := step4 (trG mem) p2 {" ".join(C(i) for i in range(16, 24))}
  let p4 := step4 (trG mem) p3 {" ".join(C(i) for i in range(24, 32))}
  (p0.1, p0.2, p1.1, p1.2, p2.1, p2.2, p3.1, p3.2, p4.1, p4.2)

theorem neon_enckeys_new_eq_G (key : BitVec 256) :
    kuznyechik_neon_enckeys_new key = expandG kuznyechik_neon_enckeys_new_mem0 key := by
  kuz_kernel_rfl

theorem expandG_eq (mem : List (Array Nat)) (h : MemOK ENC_TABLE.get mem) (key : BitVec 256) :
    expandG mem key = rkTuple (Neon.expand_enc_keys key) := by
  have htr : trG mem = fun t => Neon.transform t ENC_TABLE.get := funext (trG_eq _ mem h)
  simp only [expandG, {", ".join(f"ldc_{i}" for i in range(32))}]
  simp only [rkTuple, Neon.expand_enc_keys, expand_with, inner_0, inner_1, inner_2, inner_3, htr, key_hi, key_lo, vld1q_eq]

/-- the regenerated `EncKeys::new` (neon) computes the model's `Neon.expand_enc_keys`, for every key -/
theorem kuznyechik_neon_enckeys_new_eq (key : BitVec 256) :
    kuznyechik_neon_enckeys_new key = rkTuple (Neon.expand_enc_keys key) := by
  rw [neon_enckeys_new_eq_G, expandG_eq _ enckeys_new_mem]

def invG (mem : List (Array Nat)) ({es} : BitVec 128) :=
  (e9, {", ".join(f"trG mem (subG {PR} e{i})" for i in range(8, 0, -1))}, e0)

theorem neon_inv_enc_keys_eq_G ({es} : BitVec 128) :
    kuznyechik_neon_inv_enc_keys {es} = invG kuznyechik_neon_inv_enc_keys_mem0 {es} := by
  kuz_kernel_rfl

theorem invG_eq (mem : List (Array Nat)) (h : MemOK DEC_TABLE.get mem) ({es} : BitVec 128) :
    invG mem {es} = rkTuple (Neon.inv_enc_keys ⟨{ec}⟩) := by
  simp only [invG, rkTuple, Neon.inv_enc_keys, inv_with, trG_eq _ mem h, subG_P]

/-- the regenerated `inv_enc_keys` (neon) is the model's `Neon.inv_enc_keys`, for all ten encryption keys -/
theorem kuznyechik_neon_inv_enc_keys_eq ({es} : BitVec 128) :
    kuznyechik_neon_inv_enc_keys {es} = rkTuple (Neon.inv_enc_keys ⟨{ec}⟩) := by
  rw [neon_inv_enc_keys_eq_G, invG_eq _ inv_enc_keys_mem]

/-! ### the conversions `From<EncKeys> for EncDecKeys`, `From<EncKeys> for DecKeys` -/

{mem_ok("encdeckeys_from", "decrypt_block", "DEC_TABLE", "decS")}
{mem_ok("deckeys_from", "decrypt_block", "DEC_TABLE", "decS")}
/-- the twenty round keys of an `EncDecKeys`, in declaration order (`enc`, then `dec`) -/
def rkTuple2 (k : EncDecKeys) := ({", ".join(f"k.enc.k{i}" for i in range(10))}, {", ".join(f"k.dec.k{i}" for i in range(10))})

theorem neon_encdeckeys_from_eq_G ({es} : BitVec 128) :
    kuznyechik_neon_encdeckeys_from {es} =
      ({ec}, e9, {", ".join(f"trG kuznyechik_neon_encdeckeys_from_mem0 (subG {PR} e{i})" for i in range(8, 0, -1))}, e0) := by
  kuz_kernel_rfl

/-- the regenerated `EncDecKeys::from(EncKeys)` (neon) is the model's `Neon.EncDecKeys.fromEnc` -/
theorem kuznyechik_neon_encdeckeys_from_eq ({es} : BitVec 128) :
    kuznyechik_neon_encdeckeys_from {es} = rkTuple2 (Neon.EncDecKeys.fromEnc ⟨⟨{ec}⟩⟩) := by
  rw [neon_encdeckeys_from_eq_G]
  simp only [rkTuple2, Neon.EncDecKeys.fromEnc, Neon.inv_enc_keys, inv_with, trG_eq _ _ encdeckeys_from_mem, subG_P]

theorem neon_deckeys_from_eq_G ({es} : BitVec 128) :
    kuznyechik_neon_deckeys_from {es} = invG kuznyechik_neon_deckeys_from_mem0 {es} := by
  kuz_kernel_rfl

/-- the regenerated `DecKeys::from(EncKeys)` (neon) is the model's `Neon.DecKeys.fromEnc` -/
theorem kuznyechik_neon_deckeys_from_eq ({es} : BitVec 128) :
    kuznyechik_neon_deckeys_from {es} = rkTuple (Neon.DecKeys.fromEnc ⟨⟨{ec}⟩⟩).keys := by
  rw [neon_deckeys_from_eq_G, invG_eq _ deckeys_from_mem]
  rfl

end BC.GenKeys.KuznyechikNeon
'''
open(SRC + "/BlockCiphers/Proofs/GenKeysKuznyechikNeon.lean", "w").write(outk)
