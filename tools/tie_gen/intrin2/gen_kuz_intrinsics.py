import memo, funcs, sys, time
out = "/tmp/dev/w_intrin2/src/BlockCiphers/Gen"
which = sys.argv[1:] or ["sse2", "neon"]
for be in which:
    f = f"Kuznyechik_{be}"
    t0 = time.time()
    b = funcs.generate(out, targets=[t for t in funcs.CIPHER_TARGETS if t.get("file") == f], fname=f"Cipher_{f}.lean")
    b += funcs.generate(out, targets=[t for t in funcs.KEY_TARGETS if t.get("file") == f], fname=f"Keys_{f}.lean")
    print(be, b, time.time() - t0)
