#!/usr/bin/env python3
"""generates Proofs/GenKeysKuznyechikSse2.lean"""
import os
SRC = os.environ.get("KUZ_SRC", "/tmp/dev/w_intrin2/src")  # tree holding BlockCiphers/Gen (inputs) and BlockCiphers/Proofs (outputs)
import re
gen = open(SRC + "/BlockCiphers/Gen/Keys_Kuznyechik_sse2.lean").read()
body = gen[gen.index("def kuznyechik_sse2_enckeys_new (key"):gen.index("kuznyechik_sse2_inv_enc_keys_tbl0")]
consts = re.findall(r"BC\.X86\._mm_load_si128 (0x[0-9a-f]+#128)", body)
assert len(consts) == 32, len(consts)
R16 = range(16)
es = " ".join(f"e{i}" for i in range(10))
ec = ", ".join(f"e{i}" for i in range(10))
kb = lambda lo: " ++ ".join(f"(key.extractLsb' {8*i} 8)" for i in range(lo + 15, lo - 1, -1))
C = lambda i: f"(BC.X86._mm_load_si128 {consts[i]})"

def mem_ok(fn, soft, tab, S):
    eqs = "\n".join(f"theorem {fn}_tbl_{i} : kuznyechik_sse2_{fn}_tbl{i} = kuznyechik_soft_{soft}_tbl{i} := rfl" for i in R16)
    rw = ", ".join(f"{fn}_tbl_{i}" for i in R16)
    return f"""{eqs}
theorem {fn}_mem : MemOK {tab}.get kuznyechik_sse2_{fn}_mem0 := by
  rw [kuznyechik_sse2_{fn}_mem0, {rw}]
  exact memOK_of_rows _ {"_ " * 16}{S}
"""

out = f'''import BlockCiphers.Gen.Keys_Kuznyechik_sse2
import BlockCiphers.Proofs.GenCipherKuznyechikSse2
import BlockCiphers.Proofs.GenKeysKuznyechikSoft
/-!
Tie of the regenerated key functions of the SSE2 back end of Kuznyechik (`Gen/Keys_Kuznyechik_sse2.lean`): `EncKeys::new`
(= `expand_enc_keys`, /repo/kuznyechik/src/sse2/{{mod.rs,backends.rs}}) and `inv_enc_keys` (the decryption keys of
`EncDecKeys::from(EncKeys)` / `DecKeys::from(EncKeys)`) to the model `BC.Kuznyechik.Sse2`: for ALL inputs

    kuznyechik_sse2_enckeys_new key       = rkTuple (Sse2.expand_enc_keys key)
    kuznyechik_sse2_inv_enc_keys e0 … e9  = rkTuple (Sse2.inv_enc_keys ⟨e0, …, e9⟩)
    kuznyechik_sse2_encdeckeys_from e0 … e9 = rkTuple2 (Sse2.EncDecKeys.fromEnc ⟨⟨e0, …, e9⟩⟩)   (enc keys, then dec keys)
    kuznyechik_sse2_deckeys_from e0 … e9    = rkTuple (Sse2.DecKeys.fromEnc ⟨⟨e0, …, e9⟩⟩).keys

Proof as in Proofs/GenCipherKuznyechikSse2.lean (`trG`, `subG`, `MemOK`); the 32 iteration constants
`next_const!(i) = _mm_load_si128(KEYGEN.as_ptr().add(i))` — constant memory, folded by the translator into the sixteen
bytes of `KEYGEN[i]` — are the model's `next_const i` (`ldc_<i>`, through `nc<i>` of Proofs/GenKeysKuznyechikSoft.lean).
-/
set_option maxRecDepth 100000
set_option linter.unusedSimpArgs false
namespace BC.GenKeys.KuznyechikSse2
open BC BC.Kuznyechik BC.Gen.Fn BC.GenCipher.KuznyechikSse2 BC.GenKeys.Kuznyechik
open BC.GenCipher.Kuznyechik (encS decS p_at)

{mem_ok("enckeys_new", "encrypt_block", "ENC_TABLE", "encS")}
{mem_ok("inv_enc_keys", "decrypt_block", "DEC_TABLE", "decS")}
'''
for i in range(32):
    out += f"theorem ldc_{i} : BC.X86._mm_load_si128 {consts[i]} = next_const {i} (by decide) := by rw [nc{i}]; decide +kernel\n"
out += f'''
theorem key_hi (key : BitVec 256) : {kb(16)} = key.extractLsb' 128 128 := by bv_decide
theorem key_lo (key : BitVec 256) : {kb(0)} = key.extractLsb' 0 128 := by bv_decide

def expandG (mem : List (Array Nat)) (key : BitVec 256) :=
  let p0 : BitVec 128 × BitVec 128 := (BC.X86._mm_loadu_si128 ({kb(16)}), BC.X86._mm_loadu_si128 ({kb(0)}))
  let p1 := step4 (trG mem) p0 {" ".join(C(i) for i in range(0, 8))}
  let p2 := step4 (trG mem) p1 {" ".join(C(i) for i in range(8, 16))}
  let p3 := step4 (trG mem) p2 {" ".join(C(i) for i in range(16, 24))}
  let p4 := step4 (trG mem) p3 {" ".join(C(i) for i in range(24, 32))}
  (p0.1, p0.2, p1.1, p1.2, p2.1, p2.2, p3.1, p3.2, p4.1, p4.2)

theorem sse2_enckeys_new_eq_G (key : BitVec 256) :
    kuznyechik_sse2_enckeys_new key = expandG kuznyechik_sse2_enckeys_new_mem0 key := by
  kuz_kernel_rfl

theorem expandG_eq (mem : List (Array Nat)) (h : MemOK ENC_TABLE.get mem) (key : BitVec 256) :
    expandG mem key = rkTuple (Sse2.expand_enc_keys key) := by
  have htr : trG mem = fun t => Sse2.transform t ENC_TABLE.get := funext (trG_eq _ mem h)
  simp only [expandG, rkTuple, Sse2.expand_enc_keys, expand_with, inner_0, inner_1, inner_2, inner_3, htr, key_hi, key_lo, loadu_eq,
    {", ".join(f"ldc_{i}" for i in range(32))}]

/-- the regenerated `EncKeys::new` (sse2) computes the model's `Sse2.expand_enc_keys`, for every key -/
theorem kuznyechik_sse2_enckeys_new_eq (key : BitVec 256) :
    kuznyechik_sse2_enckeys_new key = rkTuple (Sse2.expand_enc_keys key) := by
  rw [sse2_enckeys_new_eq_G, expandG_eq _ enckeys_new_mem]

def invG (mem : List (Array Nat)) ({es} : BitVec 128) :=
  (e9, {", ".join(f"trG mem (subG BC.Gen.kuznyechik_P e{i})" for i in range(8, 0, -1))}, e0)

theorem sse2_inv_enc_keys_eq_G ({es} : BitVec 128) :
    kuznyechik_sse2_inv_enc_keys {es} = invG kuznyechik_sse2_inv_enc_keys_mem0 {es} := by
  kuz_kernel_rfl

theorem invG_eq (mem : List (Array Nat)) (h : MemOK DEC_TABLE.get mem) ({es} : BitVec 128) :
    invG mem {es} = rkTuple (Sse2.inv_enc_keys ⟨{ec}⟩) := by
  simp only [invG, rkTuple, Sse2.inv_enc_keys, inv_with, trG_eq _ mem h, subG_eq _ P p_at]

/-- the regenerated `inv_enc_keys` (sse2) is the model's `Sse2.inv_enc_keys`, for all ten encryption keys -/
theorem kuznyechik_sse2_inv_enc_keys_eq ({es} : BitVec 128) :
    kuznyechik_sse2_inv_enc_keys {es} = rkTuple (Sse2.inv_enc_keys ⟨{ec}⟩) := by
  rw [sse2_inv_enc_keys_eq_G, invG_eq _ inv_enc_keys_mem]

/-! ### the conversions `From<EncKeys> for EncDecKeys`, `From<EncKeys> for DecKeys` -/

{mem_ok("encdeckeys_from", "decrypt_block", "DEC_TABLE", "decS")}
{mem_ok("deckeys_from", "decrypt_block", "DEC_TABLE", "decS")}
/-- the twenty round keys of an `EncDecKeys`, in declaration order (`enc`, then `dec`) -/
def rkTuple2 (k : EncDecKeys) := ({", ".join(f"k.enc.k{i}" for i in range(10))}, {", ".join(f"k.dec.k{i}" for i in range(10))})

theorem sse2_encdeckeys_from_eq_G ({es} : BitVec 128) :
    kuznyechik_sse2_encdeckeys_from {es} =
      ({ec}, e9, {", ".join(f"trG kuznyechik_sse2_encdeckeys_from_mem0 (subG BC.Gen.kuznyechik_P e{i})" for i in range(8, 0, -1))}, e0) := by
  kuz_kernel_rfl

/-- the regenerated `EncDecKeys::from(EncKeys)` (sse2) is the model's `Sse2.EncDecKeys.fromEnc` -/
theorem kuznyechik_sse2_encdeckeys_from_eq ({es} : BitVec 128) :
    kuznyechik_sse2_encdeckeys_from {es} = rkTuple2 (Sse2.EncDecKeys.fromEnc ⟨⟨{ec}⟩⟩) := by
  rw [sse2_encdeckeys_from_eq_G]
  simp only [rkTuple2, Sse2.EncDecKeys.fromEnc, Sse2.inv_enc_keys, inv_with, trG_eq _ _ encdeckeys_from_mem, subG_eq _ P p_at]

theorem sse2_deckeys_from_eq_G ({es} : BitVec 128) :
    kuznyechik_sse2_deckeys_from {es} = invG kuznyechik_sse2_deckeys_from_mem0 {es} := by
  kuz_kernel_rfl

/-- the regenerated `DecKeys::from(EncKeys)` (sse2) is the model's `Sse2.DecKeys.fromEnc` -/
theorem kuznyechik_sse2_deckeys_from_eq ({es} : BitVec 128) :
    kuznyechik_sse2_deckeys_from {es} = rkTuple (Sse2.DecKeys.fromEnc ⟨⟨{ec}⟩⟩).keys := by
  rw [sse2_deckeys_from_eq_G, invG_eq _ deckeys_from_mem]
  rfl

end BC.GenKeys.KuznyechikSse2
'''
open(SRC + "/BlockCiphers/Proofs/GenKeysKuznyechikSse2.lean", "w").write(out)
