#!/usr/bin/env python3
"""generates Proofs/GenCipherKuznyechikSse2.lean"""
import os
SRC = os.environ.get("KUZ_SRC", "/tmp/dev/w_intrin2/src")  # tree holding BlockCiphers/Gen (inputs) and BlockCiphers/Proofs (outputs)
import sys
T1 = open(os.path.join(os.path.dirname(os.path.abspath(__file__)), "frag_sse2.lean.txt")).read()
common = T1[T1.index("theorem rev128_eq"):T1.index("end BC.GenCipher.KuznyechikSse2")]
R16 = range(16)
ts = " ".join(f"t{i}" for i in R16)
tl = ", ".join(f"t{i}" for i in R16)
ks = " ".join(f"k{i}" for i in range(10))
kc = ", ".join(f"k{i}" for i in range(10))
blk = lambda v: " ++ ".join(f"({v}.extractLsb' {8*i} 8)" for i in range(15, -1, -1))

def chain(f, mem, ind):
    s = f"getG {mem} {ind} 0"
    for i in range(1, 8):
        s = f"BC.X86._mm_xor_si128 ({s}) (getG {mem} {ind} {i})"
    return s

sub_args = " ".join(f"(BC.Gen.tblAt s ((t{i} >>> 8).setWidth 64).toNat 8) (BC.Gen.tblAt s ((t{i} &&& 0xff#16).setWidth 64).toNat 8)" for i in range(7, -1, -1))

def enc_body(b):
    s = f"loadG {b}"
    for i in range(9):
        s = f"trG mem (BC.X86._mm_xor_si128 ({s}) k{i})"
    return f"storeG (BC.X86._mm_xor_si128 ({s}) k9)"

def dec_body(b):
    s = f"trG mem (subG BC.Gen.kuznyechik_P (BC.X86._mm_xor_si128 (loadG {b}) k0))"
    for i in range(1, 9):
        s = f"BC.X86._mm_xor_si128 (trG mem ({s})) k{i}"
    return f"storeG (BC.X86._mm_xor_si128 (subG pinv ({s})) k9)"

def tbl_eqs(fn, soft, n):
    return "\n".join(f"theorem {fn}_tbl_{i} : kuznyechik_sse2_{fn}_tbl{i} = kuznyechik_soft_{soft}_tbl{i} := rfl" for i in range(n))

def mem_ok(fn, soft, tab, S):
    rw = ", ".join(f"{fn}_tbl_{i}" for i in R16)
    return f"""{tbl_eqs(fn, soft, 17 if soft == "decrypt_block" else 16)}
theorem {fn}_mem : MemOK {tab}.get kuznyechik_sse2_{fn}_mem0 := by
  rw [kuznyechik_sse2_{fn}_mem0, {rw}]
  exact memOK_of_rows _ {"_ " * 16}{S}
"""

out = f'''import BlockCiphers.Gen.Cipher_Kuznyechik_sse2
import BlockCiphers.Proofs.GenCipherKuznyechikSoft
import BlockCiphers.Proofs.KuznyechikBackends
/-!
Tie of the regenerated SSE2 back end of Kuznyechik (`Gen/Cipher_Kuznyechik_sse2.lean`, translated from
/repo/kuznyechik/src/sse2/backends.rs: `_mm_*` intrinsics as calls of their transcriptions in Prelude/X86Intrinsics.lean and
Prelude/KuzIntrinsics.lean, the fused tables computed by running the crate's `const fn`s and read through the data-dependent
pointers of `get!` as `BC.Gen.memRead16`) to the model `BC.Kuznyechik.Sse2`: for ALL round keys `k0 … k9` and ALL blocks

    kuznyechik_sse2_encrypt_block k0 … k9 b = Sse2.encrypt_block ⟨k0, …, k9⟩ b
    kuznyechik_sse2_decrypt_block k0 … k9 b = Sse2.decrypt_block ⟨k0, …, k9⟩ b
    kuznyechik_sse2_encrypt_par_blocks k0 … k9 b0 b1 b2 b3  (as a list) = Sse2.encrypt_par_blocks ⟨k0, …, k9⟩ [b0, b1, b2, b3]
    kuznyechik_sse2_decrypt_par_blocks k0 … k9 b0 b1 b2 b3  (as a list) = Sse2.decrypt_par_blocks ⟨k0, …, k9⟩ [b0, b1, b2, b3]

Steps: (0) every extern intrinsic of the Prelude equals the intrinsic function of the model (`loadu_eq` … `set_epi8_eq`);
(1) the generated text is definitionally the composition `encG` / `decG` of `trG` (`transform`) and `subG` (`sub_bytes`)
— kernel check (`kuz_kernel_rfl`); (2) the chunk tables are those of the big_soft translation (equality of array literals),
hence the model's `ENC_TABLE` / `DEC_TABLE` (`encS`, `decS` of Proofs/GenCipherKuznyechikSoft.lean): `MemOK`;
(3) the byte offset `_mm_extract_epi16(lind, k)` is a multiple of 16 (`Sse2.lind_lane_k`, `laneIdx_toNat` of
Proofs/KuznyechikSse2.lean), so the 16-byte load `memRead16` at that offset is word `offset / 16` = the model's `load_at`
(`getG_lind_k`, `getG_rind_k`); (4) the parallel functions are lane-wise the single-block ones (kernel check) and the
model's `*_par_blocks` on `ParBlocksSize` blocks is the map of the single-block function (Thm C04).
-/
set_option maxRecDepth 100000
set_option linter.unusedSimpArgs false
set_option linter.unusedVariables false
namespace BC.GenCipher.KuznyechikSse2
open BC BC.Kuznyechik BC.Gen.Fn BC.GenCipher.Kuznyechik

/-! ### the extern intrinsics are the model's -/
{common}
theorem row_at (tab : Vector (BitVec 128) 4096) (t : Array Nat) (i : Fin 16)
    (h : ∀ x : BitVec 8, BC.Gen.tblAt t (x.setWidth 64).toNat 128 = row tab i x) (x : Nat) (hx : x < 256) :
    BC.Gen.tblAt t x 128 = tab[256 * i.val + x]'(by have := i.isLt; omega) := by
  have h1 := h (BitVec.ofNat 8 x)
  rw [idx8] at h1
  simp only [row, BitVec.toNat_ofNat, Nat.reducePow, Nat.mod_eq_of_lt hx] at h1
  exact h1

theorem memWord_rows (tab : Vector (BitVec 128) 4096) ({ts} : Array Nat) (h : RowsOK tab {ts})
    (i x : Nat) (hi : i < 16) (hx : x < 256) :
    BC.Gen.memWord [{tl}] (256 * i + x) = tab[256 * i + x]'(by omega) := by
  have e1 : (256 * i + x) / 256 = i := by omega
  have e2 : (256 * i + x) % 256 = x := by omega
  unfold BC.Gen.memWord
  rw [e1, e2]
  match i, hi with
{chr(10).join(f"  | {i}, _ => exact row_at tab t{i} ⟨{i}, by decide⟩ h.h{i} x hx" for i in R16)}
  | n + 16, h' => omega

theorem memOK_of_rows (tab : Vector (BitVec 128) 4096) ({ts} : Array Nat) (h : RowsOK tab {ts}) :
    MemOK tab [{tl}] := by
  intro q hq
  have e : q = 256 * (q / 256) + q % 256 := by omega
  calc BC.Gen.memWord [{tl}] q = BC.Gen.memWord [{tl}] (256 * (q / 256) + q % 256) := by rw [← e]
    _ = tab[256 * (q / 256) + q % 256]'(by omega) := memWord_rows tab {ts} h _ _ (by omega) (by omega)
    _ = tab[q] := vec_getElem_congr _ _ _ _ _ e.symm

/-! ### `transform` -/

/-- `get!(table, ind, i)` -/
def getG (mem : List (Array Nat)) (ind : BitVec 128) (i : Nat) : BitVec 128 :=
  BC.X86._mm_load_si128 (BC.Gen.memRead16 mem (((BC.X86._mm_extract_epi16 ind i).setWidth 16).setWidth 64).toNat)

def indG : BitVec 128 := BC.X86._mm_set_epi64x 0xf0e0d0c0b0a0908#64 0x706050403020100#64
theorem indG_eq : indG = Sse2.ind := rfl

/-- `transform(block, table)` as generated -/
def trG (mem : List (Array Nat)) (b : BitVec 128) : BitVec 128 :=
  BC.X86._mm_xor_si128
    ({chain("getG", "mem", "(BC.X86._mm_slli_epi16 (BC.X86._mm_unpacklo_epi8 b indG) 4)")})
    ({chain("getG", "mem", "(BC.X86._mm_slli_epi16 (BC.X86._mm_unpackhi_epi8 b indG) 4)")})

theorem getG_eq (tab : Vector (BitVec 128) 4096) (mem : List (Array Nat)) (h : MemOK tab mem) (x : BitVec 128) (k : Nat) (hk : k < 8)
    (ha : (Sse2._mm_extract_epi16 x k).toNat % 16 = 0) : getG mem x k = Sse2.get tab x k := by
  unfold getG Sse2.get
  rw [load_memRead16, extract_eq _ k hk]
  exact load_at_of_aligned tab mem h _ ha
'''
for k in range(8):
    for side, un in (("lind", "unpacklo"), ("rind", "unpackhi")):
        lane = k if side == "lind" else 8 + k
        out += f'''theorem getG_{side}_{k} (tab : Vector (BitVec 128) 4096) (mem : List (Array Nat)) (h : MemOK tab mem) (v : BitVec 128) :
    getG mem (Sse2._mm_slli_epi16 (Sse2._mm_{un}_epi8 v Sse2.ind) 4) {k} = Sse2.get tab (Sse2._mm_slli_epi16 (Sse2._mm_{un}_epi8 v Sse2.ind) 4) {k} := by
  apply getG_eq tab mem h _ {k} (by decide)
  rw [Sse2.{side}_lane_{k}, laneIdx_toNat _ _ (by decide)]
  omega
'''
gl = ", ".join(f"getG_{s}_{k} tab mem h" for s in ("lind", "rind") for k in range(8))
out += f'''
theorem trG_eq (tab : Vector (BitVec 128) 4096) (mem : List (Array Nat)) (h : MemOK tab mem) (b : BitVec 128) :
    trG mem b = Sse2.transform b tab := by
  simp only [trG, Sse2.transform, indG_eq, unpacklo_eq, unpackhi_eq, slli4_eq, xor_eq, {gl}]

/-! ### `sub_bytes` -/

/-- `sub_bytes(block, sbox)` as generated -/
def subG (s : Array Nat) (b : BitVec 128) : BitVec 128 :=
{chr(10).join(f"  let t{i} := (BC.X86._mm_extract_epi16 b {i}).setWidth 16" for i in range(8))}
  BC.X86._mm_set_epi8 {sub_args}

theorem hi_at (s : Array Nat) (sbox : Vector (BitVec 8) 256) (hs : ∀ x : BitVec 8, BC.Gen.tblAt s (x.setWidth 64).toNat 8 = lut sbox x)
    (t : BitVec 16) : BC.Gen.tblAt s ((t >>> 8).setWidth 64).toNat 8 = lut sbox ((t >>> 8).setWidth 8) := by
  have e : (t >>> 8).setWidth 64 = ((t >>> 8).setWidth 8).setWidth 64 := by bv_decide
  rw [e, hs]
theorem lo_at (s : Array Nat) (sbox : Vector (BitVec 8) 256) (hs : ∀ x : BitVec 8, BC.Gen.tblAt s (x.setWidth 64).toNat 8 = lut sbox x)
    (t : BitVec 16) : BC.Gen.tblAt s ((t &&& 0xff#16).setWidth 64).toNat 8 = lut sbox ((t &&& 0xFF#16).setWidth 8) := by
  have e : (t &&& 0xff#16).setWidth 64 = ((t &&& 0xff#16).setWidth 8).setWidth 64 := by bv_decide
  rw [e, hs]

theorem subG_eq (s : Array Nat) (sbox : Vector (BitVec 8) 256) (hs : ∀ x : BitVec 8, BC.Gen.tblAt s (x.setWidth 64).toNat 8 = lut sbox x)
    (b : BitVec 128) : subG s b = Sse2.sub_bytes b sbox := by
  simp only [subG, Sse2.sub_bytes, set_epi8_eq, hi_at s sbox hs, lo_at s sbox hs,
    {", ".join(f"extract_eq b {i} (by decide)" for i in range(8))}]

/-! ### load / store of a block -/

def loadG (block : BitVec 128) : BitVec 128 := BC.X86._mm_loadu_si128 ({blk("block")})
def storeG (b : BitVec 128) : BitVec 128 :=
  let mem := BC.X86._mm_storeu_si128 b
  {blk("mem")}
theorem bytes_id (x : BitVec 128) : {blk("x")} = x := by bv_decide
theorem loadG_eq (block : BitVec 128) : loadG block = Sse2._mm_loadu_si128 block := by
  simp only [loadG, bytes_id, loadu_eq]
theorem storeG_eq (b : BitVec 128) : storeG b = Sse2._mm_storeu_si128 b := by
  simp only [storeG, bytes_id, storeu_eq]

/-! ### `encrypt_block`, `decrypt_block` -/

def encG (mem : List (Array Nat)) ({ks} b : BitVec 128) : BitVec 128 :=
  {enc_body("b")}

def decG (mem : List (Array Nat)) (pinv : Array Nat) ({ks} b : BitVec 128) : BitVec 128 :=
  {dec_body("b")}

theorem encG_eq (mem : List (Array Nat)) (h : MemOK ENC_TABLE.get mem) ({ks} b : BitVec 128) :
    encG mem {ks} b = Sse2.encrypt_block ⟨{kc}⟩ b := by
  simp only [encG, Sse2.encrypt_block, List.foldl, loadG_eq, storeG_eq, xor_eq, trG_eq _ mem h]

theorem decG_eq (mem : List (Array Nat)) (h : MemOK DEC_TABLE.get mem) (pinv : Array Nat) (hp : PinvOK pinv) ({ks} b : BitVec 128) :
    decG mem pinv {ks} b = Sse2.decrypt_block ⟨{kc}⟩ b := by
  simp only [decG, Sse2.decrypt_block, List.foldl, loadG_eq, storeG_eq, xor_eq, trG_eq _ mem h, subG_eq _ P p_at, subG_eq _ P_INV hp]

{mem_ok("encrypt_block", "encrypt_block", "ENC_TABLE", "encS")}
{mem_ok("decrypt_block", "decrypt_block", "DEC_TABLE", "decS")}
theorem decrypt_block_pinv : PinvOK kuznyechik_sse2_decrypt_block_tbl16 := by rw [decrypt_block_tbl_16]; exact pinvS

theorem sse2_encrypt_block_eq_G ({ks} b : BitVec 128) :
    kuznyechik_sse2_encrypt_block {ks} b = encG kuznyechik_sse2_encrypt_block_mem0 {ks} b := by
  kuz_kernel_rfl

theorem sse2_decrypt_block_eq_G ({ks} b : BitVec 128) :
    kuznyechik_sse2_decrypt_block {ks} b = decG kuznyechik_sse2_decrypt_block_mem0 kuznyechik_sse2_decrypt_block_tbl16 {ks} b := by
  kuz_kernel_rfl

/-- the regenerated `EncBackend::encrypt_block` (sse2) is the model's `Sse2.encrypt_block`, all keys, all blocks -/
theorem kuznyechik_sse2_encrypt_block_eq ({ks} b : BitVec 128) :
    kuznyechik_sse2_encrypt_block {ks} b = Sse2.encrypt_block ⟨{kc}⟩ b := by
  rw [sse2_encrypt_block_eq_G, encG_eq _ encrypt_block_mem]

/-- the regenerated `DecBackend::decrypt_block` (sse2) is the model's `Sse2.decrypt_block`, all keys, all blocks -/
theorem kuznyechik_sse2_decrypt_block_eq ({ks} b : BitVec 128) :
    kuznyechik_sse2_decrypt_block {ks} b = Sse2.decrypt_block ⟨{kc}⟩ b := by
  rw [sse2_decrypt_block_eq_G, decG_eq _ decrypt_block_mem _ decrypt_block_pinv]

/-! ### `encrypt_par_blocks`, `decrypt_par_blocks` (ParBlocksSize = 4) -/

{mem_ok("encrypt_par_blocks", "encrypt_block", "ENC_TABLE", "encS")}
{mem_ok("decrypt_par_blocks", "decrypt_block", "DEC_TABLE", "decS")}
theorem decrypt_par_blocks_pinv : PinvOK kuznyechik_sse2_decrypt_par_blocks_tbl16 := by rw [decrypt_par_blocks_tbl_16]; exact pinvS

theorem sse2_encrypt_par_blocks_eq_G ({ks} b0 b1 b2 b3 : BitVec 128) :
    kuznyechik_sse2_encrypt_par_blocks {ks} b0 b1 b2 b3 =
      ({", ".join(f"encG kuznyechik_sse2_encrypt_par_blocks_mem0 {ks} b{j}" for j in range(4))}) := by
  kuz_kernel_rfl

theorem sse2_decrypt_par_blocks_eq_G ({ks} b0 b1 b2 b3 : BitVec 128) :
    kuznyechik_sse2_decrypt_par_blocks {ks} b0 b1 b2 b3 =
      ({", ".join(f"decG kuznyechik_sse2_decrypt_par_blocks_mem0 kuznyechik_sse2_decrypt_par_blocks_tbl16 {ks} b{j}" for j in range(4))}) := by
  kuz_kernel_rfl

/-- the four output blocks as a list -/
def list4 (t : BitVec 128 × BitVec 128 × BitVec 128 × BitVec 128) : List (BitVec 128) := [t.1, t.2.1, t.2.2.1, t.2.2.2]

/-- lane-wise form: the regenerated `encrypt_par_blocks` is `encrypt_block` on each of the four blocks -/
theorem kuznyechik_sse2_encrypt_par_blocks_lanes ({ks} b0 b1 b2 b3 : BitVec 128) :
    kuznyechik_sse2_encrypt_par_blocks {ks} b0 b1 b2 b3 =
      ({", ".join(f"Sse2.encrypt_block ⟨{kc}⟩ b{j}" for j in range(4))}) := by
  rw [sse2_encrypt_par_blocks_eq_G]
  simp only [encG_eq _ encrypt_par_blocks_mem]

theorem kuznyechik_sse2_decrypt_par_blocks_lanes ({ks} b0 b1 b2 b3 : BitVec 128) :
    kuznyechik_sse2_decrypt_par_blocks {ks} b0 b1 b2 b3 =
      ({", ".join(f"Sse2.decrypt_block ⟨{kc}⟩ b{j}" for j in range(4))}) := by
  rw [sse2_decrypt_par_blocks_eq_G]
  simp only [decG_eq _ decrypt_par_blocks_mem _ decrypt_par_blocks_pinv]

/-- the regenerated `EncBackend::encrypt_par_blocks` (sse2) is the model's `Sse2.encrypt_par_blocks` on four blocks -/
theorem kuznyechik_sse2_encrypt_par_blocks_eq ({ks} b0 b1 b2 b3 : BitVec 128) :
    list4 (kuznyechik_sse2_encrypt_par_blocks {ks} b0 b1 b2 b3) = Sse2.encrypt_par_blocks ⟨{kc}⟩ [b0, b1, b2, b3] := by
  rw [kuznyechik_sse2_encrypt_par_blocks_lanes, Sse2.encrypt_par_blocks_eq_map _ _ rfl]
  rfl

/-- the regenerated `DecBackend::decrypt_par_blocks` (sse2) is the model's `Sse2.decrypt_par_blocks` on four blocks -/
theorem kuznyechik_sse2_decrypt_par_blocks_eq ({ks} b0 b1 b2 b3 : BitVec 128) :
    list4 (kuznyechik_sse2_decrypt_par_blocks {ks} b0 b1 b2 b3) = Sse2.decrypt_par_blocks ⟨{kc}⟩ [b0, b1, b2, b3] := by
  rw [kuznyechik_sse2_decrypt_par_blocks_lanes, Sse2.decrypt_par_blocks_eq_map _ _ rfl]
  rfl

end BC.GenCipher.KuznyechikSse2
'''
open(SRC + "/BlockCiphers/Proofs/GenCipherKuznyechikSse2.lean", "w").write(out)
