#!/usr/bin/env python3
"""generates Proofs/CodeKuznyechik{Sse2,Neon}.lean"""
import os
SRC = os.environ.get("KUZ_SRC", "/tmp/dev/w_intrin2/src")  # tree holding BlockCiphers/Gen (inputs) and BlockCiphers/Proofs (outputs)
import sys
be, Be, n = sys.argv[1], sys.argv[1].capitalize(), int(sys.argv[2])
ks = " ".join(f"k{i}" for i in range(10)); kc = ", ".join(f"k{i}" for i in range(10))
es = " ".join(f"e{i}" for i in range(10)); ec = ", ".join(f"e{i}" for i in range(10))
ds = " ".join(f"d{i}" for i in range(10)); dc = ", ".join(f"d{i}" for i in range(10))
bs = " ".join(f"b{j}" for j in range(n))
ty = " × ".join(["BitVec 128"] * n)
tup = lambda f: "(" + ", ".join(f(j) for j in range(n)) + ")"
pat = tup(lambda j: f"c{j}")
intr = "`_mm_*`" if be == "sse2" else "NEON"
out = f'''import BlockCiphers.Gen.Cipher_Kuznyechik_{be}
import BlockCiphers.Gen.Keys_Kuznyechik_{be}
import BlockCiphers.Proofs.GenCipherKuznyechik{Be}
import BlockCiphers.Proofs.GenKeysKuznyechik{Be}
import BlockCiphers.Proofs.Kuznyechik
/-!
Code-level theorems for Kuznyechik, {be.upper()} back end: statements mention ONLY the regenerated code
(`BC.Gen.Fn.kuznyechik_{be}_enckeys_new`, `kuznyechik_{be}_inv_enc_keys`, `kuznyechik_{be}_encdeckeys_from`, `kuznyechik_{be}_deckeys_from`, `kuznyechik_{be}_encrypt_block`,
`kuznyechik_{be}_decrypt_block`, `kuznyechik_{be}_encrypt_par_blocks`, `kuznyechik_{be}_decrypt_par_blocks`, translated from
/repo/kuznyechik/src/{be}/{{mod.rs,backends.rs}}: the {intr} intrinsics are calls of their transcriptions in
Prelude/{"X86" if be == "sse2" else "Arm"}Intrinsics.lean and Prelude/KuzIntrinsics.lean, the fused tables of fused_tables.rs are computed from the crate's
`const fn`s) and the specification `BC.Spec.Kuznyechik` (GOST R 34.12-2015).  Composition of
  (1) `BC.Kuznyechik.{Be}.decrypt_encrypt`, `encrypt_decrypt`, `encrypt_eq_spec`, `decrypt_eq_spec` (Proofs/Kuznyechik.lean;
      Thm C01 / C03 / C07),
  (2) `BC.GenCipher.Kuznyechik{Be}.kuznyechik_{be}_encrypt_block_eq`, `…_decrypt_block_eq`, `…_encrypt_par_blocks_lanes`,
      `…_decrypt_par_blocks_lanes` (the parallel functions are lane-wise the single-block ones; Thm C04),
  (3) `BC.GenKeys.Kuznyechik{Be}.kuznyechik_{be}_enckeys_new_eq`, `kuznyechik_{be}_inv_enc_keys_eq`.
`Kuznyechik::new(key)` is `EncDecKeys::from(EncKeys::new(key))` = `{{ enc: expand_enc_keys(key), dec: inv_enc_keys(&enc) }}`:
`enc` / `encPar` run `encrypt_block` / `encrypt_par_blocks` on the first, `dec` / `decPar` the decrypting functions on the second.
The key is a `BitVec 256`, a block a `BitVec 128`, byte 0 of the Rust array = most significant byte; `ParBlocksSize` = {n}.
-/
set_option maxRecDepth 100000
set_option linter.unusedVariables false
namespace BC.Code.Kuznyechik{Be}
open BC BC.Gen.Fn

/-- `EncBackend(&EncKeys::new(key).0).encrypt_block(b)` on the regenerated code -/
def enc (key : BitVec 256) (b : BitVec 128) : BitVec 128 :=
  match kuznyechik_{be}_enckeys_new key with
  | ({kc}) => kuznyechik_{be}_encrypt_block {ks} b

/-- `DecBackend(&inv_enc_keys(&EncKeys::new(key).0)).decrypt_block(b)` on the regenerated code -/
def dec (key : BitVec 256) (b : BitVec 128) : BitVec 128 :=
  match kuznyechik_{be}_enckeys_new key with
  | ({ec}) =>
    match kuznyechik_{be}_inv_enc_keys {es} with
    | ({dc}) => kuznyechik_{be}_decrypt_block {ds} b

/-- `EncBackend(&EncKeys::new(key).0).encrypt_par_blocks([b0, …])` on the regenerated code -/
def encPar (key : BitVec 256) ({bs} : BitVec 128) : {ty} :=
  match kuznyechik_{be}_enckeys_new key with
  | ({kc}) => kuznyechik_{be}_encrypt_par_blocks {ks} {bs}

/-- `DecBackend(&inv_enc_keys(&EncKeys::new(key).0)).decrypt_par_blocks([b0, …])` on the regenerated code -/
def decPar (key : BitVec 256) ({bs} : BitVec 128) : {ty} :=
  match kuznyechik_{be}_enckeys_new key with
  | ({ec}) =>
    match kuznyechik_{be}_inv_enc_keys {es} with
    | ({dc}) => kuznyechik_{be}_decrypt_par_blocks {ds} {bs}

/-! ### bridges to the model -/

theorem enc_eq_impl (key : BitVec 256) (b : BitVec 128) :
    enc key b = BC.Kuznyechik.{Be}.encrypt_block (BC.Kuznyechik.{Be}.expand_enc_keys key) b := by
  unfold enc
  rw [BC.GenKeys.Kuznyechik{Be}.kuznyechik_{be}_enckeys_new_eq key]
  simp only [BC.GenKeys.Kuznyechik.rkTuple]
  exact BC.GenCipher.Kuznyechik{Be}.kuznyechik_{be}_encrypt_block_eq {"_ " * 10}b

theorem dec_eq_impl (key : BitVec 256) (b : BitVec 128) :
    dec key b = BC.Kuznyechik.{Be}.decrypt_block
      (BC.Kuznyechik.{Be}.inv_enc_keys (BC.Kuznyechik.{Be}.expand_enc_keys key)) b := by
  unfold dec
  rw [BC.GenKeys.Kuznyechik{Be}.kuznyechik_{be}_enckeys_new_eq key]
  simp only [BC.GenKeys.Kuznyechik.rkTuple]
  rw [BC.GenKeys.Kuznyechik{Be}.kuznyechik_{be}_inv_enc_keys_eq]
  simp only [BC.GenKeys.Kuznyechik.rkTuple]
  exact BC.GenCipher.Kuznyechik{Be}.kuznyechik_{be}_decrypt_block_eq {"_ " * 10}b

/-! ### round trips on the regenerated code -/

theorem dec_enc (key : BitVec 256) (b : BitVec 128) : dec key (enc key b) = b := by
  rw [enc_eq_impl, dec_eq_impl, BC.Kuznyechik.{Be}.decrypt_encrypt]

theorem enc_dec (key : BitVec 256) (b : BitVec 128) : enc key (dec key b) = b := by
  rw [enc_eq_impl, dec_eq_impl, BC.Kuznyechik.{Be}.encrypt_decrypt]

/-! ### conformance of the regenerated code to GOST R 34.12-2015 -/

theorem enc_eq_spec (key : BitVec 256) (b : BitVec 128) : enc key b = BC.Spec.Kuznyechik.encrypt key b := by
  rw [enc_eq_impl, BC.Kuznyechik.{Be}.encrypt_eq_spec]

theorem dec_eq_spec (key : BitVec 256) (b : BitVec 128) : dec key b = BC.Spec.Kuznyechik.decrypt key b := by
  rw [dec_eq_impl, BC.Kuznyechik.{Be}.decrypt_eq_spec]

/-! ### the parallel forms, lane-wise -/

/-- `encrypt_par_blocks` is `encrypt_block` on each of the {n} blocks (regenerated code on both sides) -/
theorem encPar_lanes (key : BitVec 256) ({bs} : BitVec 128) :
    encPar key {bs} = {tup(lambda j: f"enc key b{j}")} := by
  unfold encPar enc
  rw [BC.GenKeys.Kuznyechik{Be}.kuznyechik_{be}_enckeys_new_eq key]
  simp only [BC.GenKeys.Kuznyechik.rkTuple]
  rw [BC.GenCipher.Kuznyechik{Be}.kuznyechik_{be}_encrypt_par_blocks_lanes]
  simp only [BC.GenCipher.Kuznyechik{Be}.kuznyechik_{be}_encrypt_block_eq]

/-- `decrypt_par_blocks` is `decrypt_block` on each of the {n} blocks -/
theorem decPar_lanes (key : BitVec 256) ({bs} : BitVec 128) :
    decPar key {bs} = {tup(lambda j: f"dec key b{j}")} := by
  unfold decPar dec
  rw [BC.GenKeys.Kuznyechik{Be}.kuznyechik_{be}_enckeys_new_eq key]
  simp only [BC.GenKeys.Kuznyechik.rkTuple]
  rw [BC.GenKeys.Kuznyechik{Be}.kuznyechik_{be}_inv_enc_keys_eq]
  simp only [BC.GenKeys.Kuznyechik.rkTuple]
  rw [BC.GenCipher.Kuznyechik{Be}.kuznyechik_{be}_decrypt_par_blocks_lanes]
  simp only [BC.GenCipher.Kuznyechik{Be}.kuznyechik_{be}_decrypt_block_eq]

theorem encPar_eq_spec (key : BitVec 256) ({bs} : BitVec 128) :
    encPar key {bs} = {tup(lambda j: f"BC.Spec.Kuznyechik.encrypt key b{j}")} := by
  simp only [encPar_lanes, enc_eq_spec]

theorem decPar_eq_spec (key : BitVec 256) ({bs} : BitVec 128) :
    decPar key {bs} = {tup(lambda j: f"BC.Spec.Kuznyechik.decrypt key b{j}")} := by
  simp only [decPar_lanes, dec_eq_spec]

/-- round trip of the parallel functions -/
theorem decPar_encPar (key : BitVec 256) ({bs} : BitVec 128) :
    (match encPar key {bs} with | {pat} => decPar key {" ".join(f"c{j}" for j in range(n))}) = {tup(lambda j: f"b{j}")} := by
  simp only [encPar_lanes, decPar_lanes, dec_enc]

theorem encPar_decPar (key : BitVec 256) ({bs} : BitVec 128) :
    (match decPar key {bs} with | {pat} => encPar key {" ".join(f"c{j}" for j in range(n))}) = {tup(lambda j: f"b{j}")} := by
  simp only [encPar_lanes, decPar_lanes, enc_dec]

/-! ### the three cipher types: `Kuznyechik` (keys through `EncDecKeys::from`), `KuznyechikEnc`, `KuznyechikDec` (`DecKeys::from`) -/

/-- `Kuznyechik::new(key)` is `EncDecKeys::from(EncKeys::new(key))`; `encrypt_block` runs on its `enc` keys -/
def encK (key : BitVec 256) (b : BitVec 128) : BitVec 128 :=
  match kuznyechik_{be}_enckeys_new key with
  | ({ec}) =>
    match kuznyechik_{be}_encdeckeys_from {es} with
    | ({kc}, {dc}) => kuznyechik_{be}_encrypt_block {ks} b

/-- … and `decrypt_block` on its `dec` keys -/
def decK (key : BitVec 256) (b : BitVec 128) : BitVec 128 :=
  match kuznyechik_{be}_enckeys_new key with
  | ({ec}) =>
    match kuznyechik_{be}_encdeckeys_from {es} with
    | ({kc}, {dc}) => kuznyechik_{be}_decrypt_block {ds} b

/-- `KuznyechikDec::new(key)` is `DecKeys::from(EncKeys::new(key))` -/
def decD (key : BitVec 256) (b : BitVec 128) : BitVec 128 :=
  match kuznyechik_{be}_enckeys_new key with
  | ({ec}) =>
    match kuznyechik_{be}_deckeys_from {es} with
    | ({dc}) => kuznyechik_{be}_decrypt_block {ds} b

theorem encK_eq (key : BitVec 256) (b : BitVec 128) : encK key b = enc key b := by
  unfold encK enc
  rw [BC.GenKeys.Kuznyechik{Be}.kuznyechik_{be}_enckeys_new_eq key]
  simp only [BC.GenKeys.Kuznyechik.rkTuple]
  rw [BC.GenKeys.Kuznyechik{Be}.kuznyechik_{be}_encdeckeys_from_eq]
  simp only [BC.GenKeys.Kuznyechik{Be}.rkTuple2, BC.Kuznyechik.{Be}.EncDecKeys.fromEnc]

theorem decK_eq (key : BitVec 256) (b : BitVec 128) : decK key b = dec key b := by
  unfold decK dec
  rw [BC.GenKeys.Kuznyechik{Be}.kuznyechik_{be}_enckeys_new_eq key]
  simp only [BC.GenKeys.Kuznyechik.rkTuple]
  rw [BC.GenKeys.Kuznyechik{Be}.kuznyechik_{be}_encdeckeys_from_eq, BC.GenKeys.Kuznyechik{Be}.kuznyechik_{be}_inv_enc_keys_eq]
  simp only [BC.GenKeys.Kuznyechik{Be}.rkTuple2, BC.GenKeys.Kuznyechik.rkTuple, BC.Kuznyechik.{Be}.EncDecKeys.fromEnc]

theorem decD_eq (key : BitVec 256) (b : BitVec 128) : decD key b = dec key b := by
  unfold decD dec
  rw [BC.GenKeys.Kuznyechik{Be}.kuznyechik_{be}_enckeys_new_eq key]
  simp only [BC.GenKeys.Kuznyechik.rkTuple]
  rw [BC.GenKeys.Kuznyechik{Be}.kuznyechik_{be}_deckeys_from_eq, BC.GenKeys.Kuznyechik{Be}.kuznyechik_{be}_inv_enc_keys_eq]
  simp only [BC.GenKeys.Kuznyechik.rkTuple, BC.Kuznyechik.{Be}.DecKeys.fromEnc]

/-- round trips and conformance for the `Kuznyechik` / `KuznyechikDec` key paths -/
theorem decK_encK (key : BitVec 256) (b : BitVec 128) : decK key (encK key b) = b := by rw [encK_eq, decK_eq, dec_enc]
theorem encK_decK (key : BitVec 256) (b : BitVec 128) : encK key (decK key b) = b := by rw [encK_eq, decK_eq, enc_dec]
theorem decD_enc (key : BitVec 256) (b : BitVec 128) : decD key (enc key b) = b := by rw [decD_eq, dec_enc]
theorem encK_eq_spec (key : BitVec 256) (b : BitVec 128) : encK key b = BC.Spec.Kuznyechik.encrypt key b := by rw [encK_eq, enc_eq_spec]
theorem decK_eq_spec (key : BitVec 256) (b : BitVec 128) : decK key b = BC.Spec.Kuznyechik.decrypt key b := by rw [decK_eq, dec_eq_spec]
theorem decD_eq_spec (key : BitVec 256) (b : BitVec 128) : decD key b = BC.Spec.Kuznyechik.decrypt key b := by rw [decD_eq, dec_eq_spec]

end BC.Code.Kuznyechik{Be}
'''
open(SRC + f"/BlockCiphers/Proofs/CodeKuznyechik{Be}.lean", "w").write(out)
