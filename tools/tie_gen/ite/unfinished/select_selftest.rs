fn f(a: u32, b: u32) -> u32 {
    if a == 0 {
        return b;
    }
    let mut x = a.wrapping_add(b);
    if x < 5 {
        x += 1;
        return x;
    }
    x ^ 3
}

fn g(v: &mut [u32; 2], a: u32) -> u32 {
    v[0] = 1;
    if a > 7 {
        v[1] = 5;
        return 2;
    }
    v[0] = a;
    for i in 0..2 {
        if v[i] == 3 {
            return 9;
        }
        v[i] ^= 1;
    }
    0
}

fn callee(a: u8) -> u8 {
    if a & 1 != 0 {
        if a >= 0x80 {
            return 7;
        }
        return a >> 1;
    }
    a
}

fn caller(a: u8, b: u8) -> u8 {
    let mut r = callee(a);
    if b == 2 || (b > 100 && a != 3) {
        r ^= callee(b);
    }
    match r {
        0 | 1 => 10,
        7 => r,
        _ => callee(r),
    }
}

fn brk(a: u8) -> u8 {
    let mut r = 0u8;
    for i in 0..4 {
        if a == i {
            break;
        }
        r += 1;
    }
    r
}

fn lp(mut a: u8) -> u8 {
    let mut n = 0u8;
    while a != 1 {
        a = a.wrapping_mul(3);
        n += 1;
    }
    n
}

fn sg(a: u32, b: u32) -> u32 {
    let d = (a as i32) - (b as i32);
    if d <= -1 { b - a } else { a - b }
}
