from gen import *
from encdec import lifted_lemmas

def flat_defs():
    out = ["def untup (t : T8) : St := ⟨t.1, t.2.1, t.2.2.1, t.2.2.2.1, t.2.2.2.2.1, t.2.2.2.2.2.1, t.2.2.2.2.2.2.1, t.2.2.2.2.2.2.2⟩",
           "theorem untup_tup (s : St) : untup (tup s) = s := rfl",
           "def t_arcb (s : T8) (bit : Nat) : T8 := tup (add_round_constant_bit (untup s) bit)",
           "theorem t_arcb_tup (s : St) (bit : Nat) : t_arcb (tup s) bit = tup (add_round_constant_bit s bit) := rfl",
           "def t_xc (p c : T8) (r : Nat) : T8 := tup (xor_columns_st (untup p) (untup c) r)",
           "theorem t_xc_tup (p c : St) (r : Nat) : t_xc (tup p) (tup c) r = tup (xor_columns_st p c r) := rfl",
           "def t_zip (f : W → W → W) (a b : T8) : T8 := tup (St.zip f (untup a) (untup b))",
           "theorem t_zip_tup (f : W → W → W) (a b : St) : t_zip f (tup a) (tup b) = tup (St.zip f a b) := rfl",
           "def t_zip3 (f : W → W → W → W) (a b c : T8) : T8 := tup (St.zip3 f (untup a) (untup b) (untup c))",
           "theorem t_zip3_tup (f : W → W → W → W) (a b c : St) : t_zip3 f (tup a) (tup b) (tup c) = tup (St.zip3 f a b c) := rfl",
           ]
    for n in (11, 13, 15):
        args = " ".join(f"r{i}" for i in range(n))
        comps = ", ".join(f"r{i}.{p[2:]}" for i in range(n) for p in PROJ)
        out.append(f"def flat{n} ({args} : T8) :=\n  ({comps})")
        out.append(f"/-- the flat `[u32; {8*n}]` round-key array of an `Array St` with {n} entries -/\ndef flatA{n} (a : Array St) :=\n  flat{n} " + " ".join(f"(tup (rd a {i}))" for i in range(n)))
    return "\n".join(out) + "\n"

# ---- chains: list of (name, tuple-level expr, model-level expr); names get prefix g<bits>_/m<bits>_ and are applied to key
def chain128():
    ch = [("0", "bs key key", "bitslice key key")]
    for r in range(10):
        bits = [r] if r < 8 else [r - 8, r - 7, r - 5, r - 4]
        t = f"nots (sb (G{r}))"; m = f"sub_bytes_nots (sub_bytes (M{r}))"
        for b in bits:
            t = f"t_arcb ({t}) {b}"; m = f"add_round_constant_bit ({m}) {b}"
        ch.append((f"{r+1}", f"t_xc (G{r}) ({t}) (ror_distance 1 3)", f"xor_columns_st (M{r}) ({m}) (ror_distance 1 3)"))
    return ch, [f"{i}" for i in range(11)]

def keyblock(bits, k):
    """text of the k-th (0/1) inlined bitslice(key part, key part) of the generated key schedule"""
    ls = gen_lines("Aes_Fs32", f"fs32_aes{bits}_key_schedule")
    blk = ls[1 + 44 * k: 45 + 44 * k]
    assert "extractLsb'" in blk[0] and "extractLsb'" in blk[7] and "extractLsb'" not in blk[8], blk[:9]
    assert "extractLsb'" not in ls[45 + 44 * k] or k == 0
    names = [re.match(r"  let (\w+) :=", l).group(1) for l in blk[-12:]]
    a = names[1::3]; b = names[2::3]
    return "\n".join(blk) + "\n  (" + ", ".join(b + a) + ")"

def chain256():
    ch = [("0", "KEYBLOCK0", "bitslice (key256_lo key) (key256_lo key)"),
          ("1", "KEYBLOCK1", "bitslice (key256_hi key) (key256_hi key)")]
    for i in range(2, 15):
        if i % 2 == 0:
            rc = (i - 2) // 2
            ch.append((f"{i}", f"t_xc (G{i-2}) (t_arcb (nots (sb (G{i-1}))) {rc}) (ror_distance 1 3)",
                       f"xor_columns_st (M{i-2}) (add_round_constant_bit (sub_bytes_nots (sub_bytes (M{i-1}))) {rc}) (ror_distance 1 3)"))
        else:
            ch.append((f"{i}", f"t_xc (G{i-2}) (nots (sb (G{i-1}))) (ror_distance 0 3)",
                       f"xor_columns_st (M{i-2}) (sub_bytes_nots (sub_bytes (M{i-1}))) (ror_distance 0 3)"))
    return ch, [f"{i}" for i in range(15)]

def chain192():
    ch = [("0", "KEYBLOCK0", "bitslice (key192_lo key) (key192_lo key)"),
          ("t0", "KEYBLOCK1", "bitslice (key192_hi key) (key192_hi key)")]
    prev, tmp = "0", "t0"
    ents = ["0"]
    rcon = 0
    for j in range(4):
        e = 3 * j + 1
        ch.append((f"x{j}", f"t_zip ks192_A (G{tmp}) (G{prev})", f"St.zip ks192_A (M{tmp}) (M{prev})"))
        ch.append((f"u{j}", f"t_arcb (nots (sb (G{tmp}))) {rcon}", f"add_round_constant_bit (sub_bytes_nots (sub_bytes (M{tmp}))) {rcon}")); rcon += 1
        ch.append((f"{e}", f"t_zip ks192_B (Gx{j}) (Gu{j})", f"St.zip ks192_B (Mx{j}) (Mu{j})"))
        ch.append((f"{e+1}", f"t_zip ks192_C (G{prev}) (G{e})", f"St.zip ks192_C (M{prev}) (M{e})"))
        ch.append((f"v{j}", f"t_arcb (nots (sb (G{e+1}))) {rcon}", f"add_round_constant_bit (sub_bytes_nots (sub_bytes (M{e+1}))) {rcon}")); rcon += 1
        ch.append((f"{e+2}", f"t_zip3 ks192_D (G{e}) (G{e+1}) (Gv{j})", f"St.zip3 ks192_D (M{e}) (M{e+1}) (Mv{j})"))
        ents += [f"{e}", f"{e+1}", f"{e+2}"]
        if j < 3:
            ch.append((f"t{j+1}", f"t_zip ks192_E (G{e+2}) (G{e+1})", f"St.zip ks192_E (M{e+2}) (M{e+1})"))
        prev, tmp = f"{e+2}", f"t{j+1}"
    return ch, ents

def adjust(bits, i, compact):
    """names of the (inv_shift_rows) adjustment applied to entry i, or None"""
    n = {128: 10, 192: 12, 256: 14}[bits]
    if i == 0:
        return None
    if compact:
        return "isr1" if i % 2 == 1 else None
    if bits == 192:
        return {1: "isr1", 2: "isr2", 3: "isr3", 0: None}[i % 4]
    # 128/256: groups starting at 1,5,(9) of three, then the last odd one isr1
    if i == n - 1:
        return "isr1"
    return {1: "isr1", 2: "isr2", 3: "isr3", 0: None}[i % 4] if i < n - 1 else None

def ks_block(bits, both=True):
    ch, ents = {128: chain128, 192: chain192, 256: chain256}[bits]()
    kb = bits
    out = []
    def sub(e, pre):
        return re.sub(r"\b([GM])([0-9a-z]+)\b", lambda m: f"{m.group(1).lower()}{bits}_{m.group(2)} key", e)
    for nm, t, m in ch:
        if t.startswith("KEYBLOCK"):
            out.append(f"def g{bits}_{nm} (key : BitVec {kb}) : T8 :=\n{keyblock(bits, int(t[-1]))}")
            out.append(f"def m{bits}_{nm} (key : BitVec {kb}) : St := {sub(m, 'm')}")
            continue
        out.append(f"def g{bits}_{nm} (key : BitVec {kb}) : T8 := {sub(t, 'g')}")
        out.append(f"def m{bits}_{nm} (key : BitVec {kb}) : St := {sub(m, 'm')}")
    lemmas = []
    for nm, t, m in ch:
        deps = sorted(set(re.findall(r"\bG([0-9a-z]+)\b", t)))
        simp = [f"g{bits}_{nm}", f"m{bits}_{nm}"] + [f"g{bits}_{d}_eq" for d in deps] + ["bs_tup", "sb_tup", "nots_tup", "t_arcb_tup", "t_xc_tup", "t_zip_tup", "t_zip3_tup"]
        if t.startswith("KEYBLOCK"):
            out.append(f"theorem g{bits}_{nm}_eq (key : BitVec {kb}) : g{bits}_{nm} key = tup (m{bits}_{nm} key) := by\n  simp only [g{bits}_{nm}, m{bits}_{nm}, bitslice, index_swaps, le32, delta_swap_2, key{bits}_lo, key{bits}_hi, tup, Prod.mk.injEq]\n  refine ⟨?_, ?_, ?_, ?_, ?_, ?_, ?_, ?_⟩ <;> bv_decide (config := {{ timeout := 600 }})")
            continue
        out.append(f"theorem g{bits}_{nm}_eq (key : BitVec {kb}) : g{bits}_{nm} key = tup (m{bits}_{nm} key) := by\n  simp only [{', '.join(simp)}]")
    n = len(ents)
    for compact in ((False, True) if both else (False,)):
        sfx = "_compact" if compact else ""
        gl, ml = [], []
        for i, e in enumerate(ents):
            g = f"g{bits}_{e} key"; m = f"m{bits}_{e} key"
            a = adjust(bits, i, compact)
            if a:
                g = f"{a} ({g})"; m = f"{LEAFS[a][1]} ({m})"
            if i > 0:
                g = f"nots ({g})"; m = f"sub_bytes_nots ({m})"
            gl.append(f"({g})"); ml.append(m)
        nm = f"aes{bits}_key_schedule{sfx}"
        out.append(f"""
theorem {nm}_comp (key : BitVec {kb}) :
    fs32_{nm} key = flat{n} {' '.join(gl)} := by
  kernel_rfl

theorem {nm}_model (key : BitVec {kb}) :
    BC.AesFs32.{nm} key = #[{', '.join(ml)}] := by
  kernel_rfl

/-- the regenerated `{nm}` is the model's `{nm}` (flattened) -/
theorem {nm}_eq (key : BitVec {kb}) :
    fs32_{nm} key = flatA{n} (BC.AesFs32.{nm} key) := by
  rw [{nm}_comp, {nm}_model]
  simp only [{', '.join(f'g{bits}_{e}_eq' for e in ents)}, nots_tup, isr1_tup, isr2_tup, isr3_tup]
  rfl
""")
    return "\n".join(out) + "\n"

