#!/usr/bin/env python3
"""generator of the tie-proof files for fixslice32 whole functions"""
import re, sys
import os
W = os.environ.get("TIE_OUT", "/tmp/dev/w_tieI")          # output: $W/out/GenAesFs32*.lean
GENSRC = os.environ.get("TIE_GEN", "/tmp/dev/lib/BlockCiphers/Gen")   # generated sources Aes_Fs32.lean

def gen_lines(fname, defname):
    src = open(f"{GENSRC}/{fname}.lean").read().split("\n")
    i = next(n for n, l in enumerate(src) if l.startswith(f"def {defname} "))
    j = i + 1
    while src[j].startswith("  "):
        j += 1
    return src[i:j]

def invbs_def():
    ls = gen_lines("Aes_Fs32", "fs32_aes128_encrypt")
    # last 8 "let a_N := s.. ^^^ rkeys8x"
    idx = max(n for n, l in enumerate(ls) if re.match(r"  let a_\d+ := \S+ \^\^\^ rkeys87$", l))
    names = [re.match(r"  let (a_\d+) :=", ls[k]).group(1) for k in range(idx - 7, idx + 1)]
    body = ls[idx + 1:]
    args = " ".join(names)
    return (f"/-- the `inv_bitslice` part of the generated whole functions (text of `fs32_aes128_encrypt` after the last add_round_key) -/\n"
            f"def g_inv_bitslice ({args} : BitVec 32) : BitVec 128 × BitVec 128 :=\n" + "\n".join(body) + "\n")

PROJ = ["s.1", "s.2.1", "s.2.2.1", "s.2.2.2.1", "s.2.2.2.2.1", "s.2.2.2.2.2.1", "s.2.2.2.2.2.2.1", "s.2.2.2.2.2.2.2"]
KPROJ = [p.replace("s.", "k.") for p in PROJ]

LEAFS = {  # lifted name -> (gen leaf, model fn, leaf lemma)
    "sb": ("fs32_sub_bytes", "sub_bytes", "sub_bytes_eq"),
    "isb": ("fs32_inv_sub_bytes", "inv_sub_bytes", "inv_sub_bytes_eq"),
    "nots": ("fs32_sub_bytes_nots", "sub_bytes_nots", "sub_bytes_nots_eq"),
    "sr1": ("fs32_shift_rows_1", "shift_rows_1", "shift_rows_1_eq"),
    "sr2": ("fs32_shift_rows_2", "shift_rows_2", "shift_rows_2_eq"),
    "sr3": ("fs32_shift_rows_3", "shift_rows_3", "shift_rows_3_eq"),
    "isr1": ("fs32_inv_shift_rows_1", "inv_shift_rows_1", "inv_shift_rows_1_eq"),
    "isr2": ("fs32_inv_shift_rows_2", "inv_shift_rows_2", "inv_shift_rows_2_eq"),
    "isr3": ("fs32_inv_shift_rows_3", "inv_shift_rows_3", "inv_shift_rows_3_eq"),
    **{f"mc{i}": (f"fs32_mix_columns_{i}", f"mix_columns_{i}", f"mix_columns_{i}_eq") for i in range(4)},
    **{f"imc{i}": (f"fs32_inv_mix_columns_{i}", f"inv_mix_columns_{i}", f"inv_mix_columns_{i}_eq") for i in range(4)},
}

def common():
    out = []
    out.append("abbrev W := BitVec 32")
    out.append("abbrev T8 := W × W × W × W × W × W × W × W\n")
    for n, (g, m, l) in LEAFS.items():
        out.append(f"def {n} (s : T8) : T8 := {g} {' '.join(PROJ)}")
    out.append(f"def ark (s k : T8) : T8 := fs32_add_round_key {' '.join(PROJ)} {' '.join(KPROJ)}")
    out.append("def bs (b0 b1 : BitVec 128) : T8 := fs32_bitslice b0 b1")
    out.append(invbs_def())
    out.append(f"def invbs (s : T8) : BitVec 128 × BitVec 128 := g_inv_bitslice {' '.join(PROJ)}\n")
    return "\n".join(out)

def enc_rounds(n, compact):
    """list of op names applied in order (ark entries are ('ark', r))"""
    ops = [("ark", 0)]
    for r in range(1, n):
        if compact:
            ops += ["sb", "mc1" if r % 2 else "mc0", ("ark", r)] + (["sr2"] if r % 2 else [])
        else:
            ops += ["sb", f"mc{r % 4}", ("ark", r)]
    if not compact and n % 4 == 2:
        ops.append("sr2")
    ops += ["sb", ("ark", n)]
    return ops

def dec_rounds(n, compact):
    ops = [("ark", n), "isb"]
    if not compact and n % 4 == 2:
        ops.append("isr2")
    for r in range(n - 1, 0, -1):
        if compact:
            ops += (["isr2"] if r % 2 else []) + [("ark", r), "imc1" if r % 2 else "imc0", "isb"]
        else:
            ops += [("ark", r), f"imc{r % 4}", "isb"]
    ops.append(("ark", 0))
    return ops

def ktuple(r):
    return "(" + ", ".join(f"k{8*r+i}" for i in range(8)) + ")"

def kst(r):
    return "⟨" + ", ".join(f"k{8*r+i}" for i in range(8)) + "⟩"

def comp_expr(ops, model=False):
    e = "bs b0 b1" if not model else "bitslice b0 b1"
    for op in ops:
        if isinstance(op, tuple):
            e = f"ark ({e}) {ktuple(op[1])}" if not model else f"add_round_key ({e}) {kst(op[1])}"
        else:
            e = f"{op} ({e})" if not model else f"{LEAFS[op][1]} ({e})"
    return f"invbs ({e})" if not model else f"inv_bitslice ({e})"

def kargs(n):
    return " ".join(f"k{i}" for i in range(8 * (n + 1)))

if __name__ == "__main__":
    pass
