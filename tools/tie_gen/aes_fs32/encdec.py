from gen import *
hdr = """import BlockCiphers.Gen.Funcs
import BlockCiphers.Gen.Aes_Fs32
import BlockCiphers.Impl.AesFixslice32
import BlockCiphers.Proofs.GenFuncsFs32
import Std.Tactic.BVDecide
import Lean
open Lean Elab Tactic Meta
set_option maxRecDepth 100000
set_option linter.unusedSimpArgs false
namespace BC.GenAesFs32
open BC.Gen.Fn BC.AesFs32
open BC.GenFuncs.AesFs32

/-- closes `a = b` with `Eq.refl a`, leaving the definitional-equality check to the kernel -/
elab "kernel_rfl" : tactic => do
  let g ← getMainGoal
  let t ← instantiateMVars (← g.getType)
  let some (_, lhs, _) := t.eq? | throwError "kernel_rfl: not an equality"
  g.assign (← mkEqRefl lhs)

"""
def lifted_lemmas():
    out = []
    for n, (g, m, l) in LEAFS.items():
        out.append(f"theorem {n}_tup (s : St) : {n} (tup s) = tup ({m} s) := {l} s")
    out.append("theorem ark_tup (s : St) (a0 a1 a2 a3 a4 a5 a6 a7 : W) :\n    ark (tup s) (a0, a1, a2, a3, a4, a5, a6, a7) = tup (add_round_key s ⟨a0, a1, a2, a3, a4, a5, a6, a7⟩) :=\n  add_round_key_eq s ⟨a0, a1, a2, a3, a4, a5, a6, a7⟩")
    out.append("theorem bs_tup (b0 b1 : BitVec 128) : bs b0 b1 = tup (bitslice b0 b1) := bitslice_eq b0 b1")
    out.append("""theorem g_inv_bitslice_eq (a0 a1 a2 a3 a4 a5 a6 a7 : W) :
    g_inv_bitslice a0 a1 a2 a3 a4 a5 a6 a7 =
      ((inv_bitslice ⟨a0, a1, a2, a3, a4, a5, a6, a7⟩).b0, (inv_bitslice ⟨a0, a1, a2, a3, a4, a5, a6, a7⟩).b1) := by
  simp only [g_inv_bitslice, inv_bitslice, index_swaps, delta_swap_2, putLe32, Prod.mk.injEq]
  constructor <;> bv_decide (config := { timeout := 600 })
theorem invbs_tup (s : St) : invbs (tup s) = ((inv_bitslice s).b0, (inv_bitslice s).b1) :=
  g_inv_bitslice_eq s.s0 s.s1 s.s2 s.s3 s.s4 s.s5 s.s6 s.s7""")
    return "\n".join(out) + "\n"

def rkarr(n):
    return "#[" + ", ".join(kst(r) for r in range(n + 1)) + "]"

def whole(bits, n, d, compact):
    sfx = "_compact" if compact else ""
    ops = (enc_rounds if d == "encrypt" else dec_rounds)(n, compact)
    nm = f"aes{bits}_{d}{sfx}"
    ka = kargs(n)
    lem = sorted({(op if isinstance(op, str) else "ark") + "_tup" for op in ops})
    return f"""
theorem {nm}_comp ({ka} : W) (b0 b1 : BitVec 128) :
    fs32_{nm} {ka} b0 b1 = {comp_expr(ops)} := by
  kernel_rfl

theorem {nm}_model ({ka} : W) (b0 b1 : BitVec 128) :
    BC.AesFs32.{nm} (rkFn {rkarr(n)}) ⟨b0, b1⟩ = {comp_expr(ops, model=True)} := by
  rfl

/-- the regenerated `{nm}` is the model's `{nm}` -/
theorem {nm}_eq ({ka} : W) (b0 b1 : BitVec 128) :
    fs32_{nm} {ka} b0 b1 =
      ((BC.AesFs32.{nm} (rkFn {rkarr(n)}) ⟨b0, b1⟩).b0,
       (BC.AesFs32.{nm} (rkFn {rkarr(n)}) ⟨b0, b1⟩).b1) := by
  rw [{nm}_comp, {nm}_model]
  simp only [bs_tup, invbs_tup, {", ".join(lem)}]
"""
