o = []
w = o.append
w('''import BlockCiphers.Gen.Aes_Fs64
import BlockCiphers.Gen.Aes_Fs64c
import BlockCiphers.Proofs.GenAesFs64Ed128
import BlockCiphers.Proofs.GenAesFs64Ed128c
import BlockCiphers.Proofs.GenAesFs64Ed192
import BlockCiphers.Proofs.GenAesFs64Ed192c
import BlockCiphers.Proofs.GenAesFs64Ed256
import BlockCiphers.Proofs.GenAesFs64Ed256c
import BlockCiphers.Proofs.GenAesFs64Ks128
import BlockCiphers.Proofs.GenAesFs64Ks192
import BlockCiphers.Proofs.GenAesFs64Ks256
import BlockCiphers.Proofs.AesFixslice
import BlockCiphers.Proofs.AesNiBytes
import Std.Tactic.BVDecide
/-
Code-level theorems for the 64-bit fixsliced AES software backend (`aes/src/soft/fixslice64.rs`), AES-128/192/256, default
build and `--cfg aes_compact` build.
`enc<N>[c]` / `dec<N>[c]` are built ONLY from regenerated definitions (`Gen/Aes_Fs64.lean`, `Gen/Aes_Fs64c.lean`:
`fs64_aes<N>_key_schedule[_compact]`, `fs64_aes<N>_{en,de}crypt[_compact]`).  The backend processes a batch of 4 blocks, so
`enc`/`dec` take 4 blocks and return the 4-tuple of results.  For every key and every batch: round trips, and every lane
equals FIPS-197 AES (`Spec.Aes.encrypt` / `decrypt`, S-box computed from GF(2^8) inversion) of that block, the key being
passed to the specification as its bytes `unpackBE n key` (byte 0 = most significant byte of the `BitVec`).
They compose: key-schedule ties `GenAesFs64Ks<N>.aes<N>_key_schedule[_compact]_eq`, cipher ties
`GenAesFs64Ed<N>[c].aes<N>_{en,de}crypt[_compact]_eq_fn`, model theorems `Proofs/AesFs64RoundTrip` (batch round trips),
`Proofs/AesFs64Bytes.aes<N>[_compact]_eq_spec` (batch conformance; the source of `AesSoft.soft_conforms_<N>`, Thm/C02).
Produced by gen_fs64.py (only the long tuple patterns are mechanical).
-/
namespace BC.Code.AesFs64
open BC.Gen.Fn
set_option maxRecDepth 100000

/-! ### glue: a `BitVec (8n)` is the big-endian packing of its `n` bytes -/
''')
for n in (16, 24, 32):
    bits = 8 * n
    hs = ", ".join(f"h{i}" for i in range(n))
    rng = "[" + ",".join(str(i) for i in range(n)) + "]"
    w(f'''theorem range{n} : List.range {n} = {rng} := by decide +kernel

theorem unpackBE{n}_inj (x y : BitVec {bits}) (h : BC.unpackBE {n} x = BC.unpackBE {n} y) : x = y := by
  simp only [BC.unpackBE, range{n}, List.map_cons, List.map_nil, List.cons.injEq, Nat.reduceSub, Nat.reduceMul, and_true] at h
  obtain ⟨{hs}⟩ := h
  bv_decide (config := {{ timeout := 300 }})

theorem unpackBE{n}_length (x : BitVec {bits}) : (BC.unpackBE {n} x).length = {n} := by simp [BC.unpackBE]

theorem pack_unpack{n} (key : BitVec {bits}) : BC.packBE {n} (BC.unpackBE {n} key) = key :=
  unpackBE{n}_inj _ _ (BC.AesNi.unpack_pack{n} _ (unpackBE{n}_length key))
''')
T4 = "BitVec 128 × BitVec 128 × BitVec 128 × BitVec 128"
for N, nrk, n in ((128, 11, 16), (192, 13, 24), (256, 15, 32)):
    nv = 8 * nrk
    vs = [f"k{i}" for i in range(nv)]
    P = "(" + ", ".join(vs) + ")"; A = " ".join(vs)
    for c, cs, cdoc in (("", "", "default build"), ("c", "_compact", "`--cfg aes_compact` build")):
        E, D = f"enc{N}{c}", f"dec{N}{c}"
        ks = f"fs64_aes{N}_key_schedule{cs}"
        mks = f"BC.AesFs64.aes{N}_key_schedule{cs}"
        w(f"/-! ## AES-{N}, {cdoc} -/\n")
        for nm, fn in ((E, "encrypt"), (D, "decrypt")):
            w(f"/-- `aes{N}_{fn}(&aes{N}_key_schedule(key), blocks)` of fixslice64.rs, {cdoc} — regenerated code only -/")
            w(f"def {nm} (key : BitVec {N}) (b0 b1 b2 b3 : BitVec 128) : {T4} :=")
            w(f"  match {ks} key with")
            w(f"  | {P} => fs64_aes{N}_{fn}{cs} {A} b0 b1 b2 b3\n")
        for nm, fn in ((E, "encrypt"), (D, "decrypt")):
            w(f'''theorem {nm}_eq_impl (key : BitVec {N}) (b0 b1 b2 b3 : BitVec 128) :
    {nm} key b0 b1 b2 b3 = BC.GenAes.Fs64.outB (BC.AesFs64.aes{N}_{fn}{cs} (BC.AesFs64.rkFn ({mks} key)) ⟨b0, b1, b2, b3⟩) := by
  unfold {nm}
  rw [BC.GenAes.Fs64.aes{N}_key_schedule{cs}_eq]
  exact BC.GenAes.Fs64.aes{N}_{fn}{cs}_eq_fn (BC.AesFs64.rkFn ({mks} key)) b0 b1 b2 b3
''')
        for (X, Y, xf, yf) in ((D, E, "decrypt", "encrypt"), (E, D, "encrypt", "decrypt")):
            doc = "/-- decryption inverts encryption on every batch, every key -/\n" if X == D else ""
            w(f'''{doc}theorem {X}_{Y} (key : BitVec {N}) (b0 b1 b2 b3 : BitVec 128) :
    (match {Y} key b0 b1 b2 b3 with | (c0, c1, c2, c3) => {X} key c0 c1 c2 c3) = (b0, b1, b2, b3) := by
  rw [{Y}_eq_impl]
  generalize hX : BC.AesFs64.aes{N}_{yf}{cs} (BC.AesFs64.rkFn ({mks} key)) ⟨b0, b1, b2, b3⟩ = X
  show {X} key X.b0 X.b1 X.b2 X.b3 = _
  rw [{X}_eq_impl]
  have e : (⟨X.b0, X.b1, X.b2, X.b3⟩ : BC.AesFs64.Batch) = X := rfl
  rw [e, ← hX, BC.AesFs64.aes{N}_{xf}{cs}_aes{N}_{yf}{cs}]; rfl
''')
        sp = f"BC.AesFs64.aes{N}{cs}_eq_spec"
        for nm, fn, idx in ((E, "encrypt", ".2.2.1"), (D, "decrypt", ".2.2.2")):
            doc = "/-- every lane of the regenerated code computes FIPS-197 AES of that block -/\n" if nm == E else ""
            w(f'''{doc}theorem {nm}_eq_spec (key : BitVec {N}) (b0 b1 b2 b3 : BitVec 128) :
    {nm} key b0 b1 b2 b3 = (BC.Spec.Aes.{fn} (BC.unpackBE {n} key) b0, BC.Spec.Aes.{fn} (BC.unpackBE {n} key) b1,
      BC.Spec.Aes.{fn} (BC.unpackBE {n} key) b2, BC.Spec.Aes.{fn} (BC.unpackBE {n} key) b3) := by
  have h := ({sp} (BC.unpackBE {n} key) (unpackBE{n}_length key)){idx} ⟨b0, b1, b2, b3⟩
  rw [pack_unpack{n}] at h
  rw [{nm}_eq_impl, h]; rfl
''')
w("end BC.Code.AesFs64")
open("/tmp/dev/w_codeK/out/CodeAesFs64.lean", "w").write("\n".join(o) + "\n")
