vs = [f"k{i}_{j}" for i in range(33) for j in range(4)]
P = "(" + ", ".join(vs) + ")"; A = " ".join(vs)
gets = " ".join(f"(rk.get {i})" for i in range(33))
lit = "#[" + ", ".join(f"rk.get {i}" for i in range(33)) + "]"
under = " :: ".join("_" for _ in range(33)) + " :: []"
T = " × ".join(["BitVec 32"] * 132)
o = []
w = o.append
w(f'''import BlockCiphers.Gen.Cipher_Serpent
import BlockCiphers.Gen.Keys_Serpent
import BlockCiphers.Proofs.GenCipherSerpent
import BlockCiphers.Proofs.GenKeysSerpent
import BlockCiphers.Proofs.Serpent
import BlockCiphers.Proofs.SerpentSpec
/-
Code-level theorems for the `serpent` crate, key lengths 16, 17, 19, 24, 31, 32 bytes (the lengths for which the constructor
`Serpent::new_from_slice` has been regenerated and tied, `Proofs/GenKeysSerpent`), default build (unrolled rounds) and the
`--cfg serpent_no_unroll` build (`serpent_loop_*`).
`enc_<n>` / `dec_<n>` / `loop_enc_<n>` / `loop_dec_<n>` are built ONLY from regenerated definitions (`Gen/Keys_Serpent.lean`:
`serpent_new_from_slice_<n>`; `Gen/Cipher_Serpent.lean`: `serpent_[loop_]{{en,de}}crypt_block`).  For every key and every block:
round trips and equality with the Serpent specification (`Spec/Serpent.lean`; the key is passed as its `n` bytes
`unpackBE n key`, byte 0 = most significant byte of the `BitVec`, as in the key tie).
They compose: key ties `GenKeysSerpent.new_from_slice_<n>_eq`, cipher ties `GenCipherSerpent.[loop_]{{en,de}}crypt_block_eq`,
model theorems `Proofs/Serpent` (round trip), `Proofs/SerpentSpec` (conformance, Thm/C08).
Produced by gen_serpent.py (only the 132-component patterns are mechanical).
-/
namespace BC.Code.Serpent
open BC.Gen.Fn
set_option maxRecDepth 100000

/-- the flattened field `round_keys: [[u32; 4]; 33]` -/
abbrev Fields := {T}

/-! ### the four regenerated block functions applied to a flattened field tuple (regenerated code only) -/
''')
FN = {"encT": "serpent_encrypt_block", "decT": "serpent_decrypt_block",
      "loopEncT": "serpent_loop_encrypt_block", "loopDecT": "serpent_loop_decrypt_block"}
IMPL = {"encT": "BC.Serpent.encrypt", "decT": "BC.Serpent.decrypt", "loopEncT": "BC.Serpent.encryptLoop", "loopDecT": "BC.Serpent.decryptLoop"}
TIE = {"encT": "encrypt_block_eq", "decT": "decrypt_block_eq", "loopEncT": "loop_encrypt_block_eq", "loopDecT": "loop_decrypt_block_eq"}
for n, f in FN.items():
    w(f"def {n} (t : Fields) (b : BitVec 128) : BitVec 128 :=\n  match t with\n  | {P} => {f} {A} b\n")
w(f'''/-! ### glue: a 33-entry round-key array is the literal array of its entries -/

theorem rk_eta (rk : BC.Serpent.RoundKeys) (h : rk.size = 33) : {lit} = rk := by
  obtain ⟨l⟩ := rk
  match l, h with
  | {under}, _ => rfl

theorem unpackBE_length (n : Nat) {{w : Nat}} (x : BitVec w) : (BC.unpackBE n x).length = n := by
  simp [BC.unpackBE]
''')
for n in FN:
    w(f'''theorem {n}_eq (rk : BC.Serpent.RoundKeys) (h : rk.size = 33) (b : BitVec 128) :
    {n} (BC.GenKeys.Serpent.rkTuple rk) b = {IMPL[n]} rk b := by
  have e := rk_eta rk h
  conv => rhs; rw [← e]
  exact BC.GenCipher.Serpent.{TIE[n]} {gets} b
''')
for L in (16, 17, 19, 24, 31, 32):
    kw = 8 * L
    w(f"/-! ## key length {L} bytes -/\n")
    for pre, (e, d) in (("", ("encT", "decT")), ("loop_", ("loopEncT", "loopDecT"))):
        E, D = f"{pre}enc_{L}", f"{pre}dec_{L}"
        build = "default build (rounds unrolled)" if pre == "" else "`--cfg serpent_no_unroll` build"
        for nm, t, fn in ((E, e, "encrypt"), (D, d, "decrypt")):
            w(f"/-- `Serpent::new_from_slice(key).{fn}_block(b)`, {L}-byte key, {build} — regenerated code only -/")
            w(f"def {nm} (key : BitVec {kw}) (b : BitVec 128) : BitVec 128 :=\n  match serpent_new_from_slice_{L} key with\n  | {P} => {FN[t]} {A} b\n")
        for nm, t in ((E, e), (D, d)):
            w(f'''theorem {nm}_eq_impl (key : BitVec {kw}) (b : BitVec 128) :
    {nm} key b = {IMPL[t]} (BC.Serpent.keySchedule (BC.unpackBE {L} key)) b := by
  have h : {nm} key b = {t} (serpent_new_from_slice_{L} key) b := rfl
  rw [h, BC.GenKeys.Serpent.new_from_slice_{L}_eq, {t}_eq _ (BC.Serpent.keySchedule_size _)]
''')
        rt1 = "BC.Serpent.decrypt_encrypt" if pre == "" else "BC.Serpent.decryptLoop_encryptLoop"
        rt2 = "BC.Serpent.encrypt_decrypt" if pre == "" else "BC.Serpent.encryptLoop_decryptLoop"
        w(f'''/-- decryption inverts encryption, every {L}-byte key, every block -/
theorem {D}_{E} (key : BitVec {kw}) (b : BitVec 128) : {D} key ({E} key b) = b := by
  rw [{E}_eq_impl, {D}_eq_impl]; exact {rt1} _ b
theorem {E}_{D} (key : BitVec {kw}) (b : BitVec 128) : {E} key ({D} key b) = b := by
  rw [{D}_eq_impl, {E}_eq_impl]; exact {rt2} _ b
/-- the regenerated code computes Serpent of the specification -/
theorem {E}_eq_spec (key : BitVec {kw}) (b : BitVec 128) : {E} key b = BC.Spec.Serpent.encrypt (BC.unpackBE {L} key) b := by
  rw [{E}_eq_impl]
  exact BC.Serpent.encrypt_eq_spec _ (by rw [unpackBE_length]; decide) (by rw [unpackBE_length]; decide) b
theorem {D}_eq_spec (key : BitVec {kw}) (b : BitVec 128) : {D} key b = BC.Spec.Serpent.decrypt (BC.unpackBE {L} key) b := by
  rw [{D}_eq_impl]
  exact BC.Serpent.decrypt_eq_spec _ (by rw [unpackBE_length]; decide) (by rw [unpackBE_length]; decide) b
''')
w("end BC.Code.Serpent")
open("/tmp/dev/w_codeK/out/CodeSerpent.lean", "w").write("\n".join(o) + "\n")
