vs = [f"k{i}" for i in range(80)]
P = "(" + ", ".join(vs) + ")"; A = " ".join(vs); O = "⟨" + ", ".join(vs) + "⟩"
s = f'''import BlockCiphers.Gen.Cipher_Gift
import BlockCiphers.Gen.Keys_Gift
import BlockCiphers.Proofs.GenCipherGift
import BlockCiphers.Proofs.GenKeysGift
import BlockCiphers.Proofs.Gift
import BlockCiphers.Proofs.GiftConf
/-
Code-level theorems for the `gift-cipher` crate (`Gift128`, 16-byte key, 16-byte block).
`enc` / `dec` are built ONLY from regenerated definitions (`Gen/Keys_Gift.lean`: `gift128_new`; `Gen/Cipher_Gift.lean`:
`gift128_encrypt_block` / `gift128_decrypt_block`).  For every key and every block: round trips, and equality with the GIFT-128
specification (`Spec/Gift.lean`, the bit-level description of the GIFT paper).
They compose: key tie `Proofs/GenKeysGift.precomputeRkeys_eq_new`, cipher ties `Proofs/GenCipherGift.{{en,de}}crypt_block_eq`,
model theorems `Proofs/Gift` (round trip), `Proofs/GiftConf` (conformance, Thm/C10).
Produced by gen_gift.py (only the 80-component patterns are mechanical).
-/
namespace BC.Code.Gift
open BC.Gen.Fn
set_option maxRecDepth 100000

/-- `Gift128::new(key).encrypt_block(b)` — regenerated code only -/
def enc (key : BitVec 128) (b : BitVec 128) : BitVec 128 :=
  match gift128_new key with
  | {P} => gift128_encrypt_block {A} b

/-- `Gift128::new(key).decrypt_block(b)` — regenerated code only -/
def dec (key : BitVec 128) (b : BitVec 128) : BitVec 128 :=
  match gift128_new key with
  | {P} => gift128_decrypt_block {A} b

theorem enc_eq_impl (key b : BitVec 128) : enc key b = BC.Gift.encrypt (BC.Gift.precomputeRkeys key) b := by
  rw [BC.GenKeys.Gift.precomputeRkeys_eq_new]; unfold enc
  generalize gift128_new key = t
  obtain {O} := t
  exact BC.GenCipher.Gift.encrypt_block_eq {A} b

theorem dec_eq_impl (key b : BitVec 128) : dec key b = BC.Gift.decrypt (BC.Gift.precomputeRkeys key) b := by
  rw [BC.GenKeys.Gift.precomputeRkeys_eq_new]; unfold dec
  generalize gift128_new key = t
  obtain {O} := t
  exact BC.GenCipher.Gift.decrypt_block_eq {A} b

/-- decryption inverts encryption, every key, every block -/
theorem dec_enc (key b : BitVec 128) : dec key (enc key b) = b := by
  rw [enc_eq_impl, dec_eq_impl]; exact BC.Gift.decrypt_encrypt key b
theorem enc_dec (key b : BitVec 128) : enc key (dec key b) = b := by
  rw [dec_eq_impl, enc_eq_impl]; exact BC.Gift.encrypt_decrypt key b

/-- the regenerated code computes GIFT-128 of the specification -/
theorem enc_eq_spec (key b : BitVec 128) : enc key b = BC.Spec.Gift.encrypt key b := by
  rw [enc_eq_impl]; exact BC.Gift.Conf.encrypt_eq_spec key b
theorem dec_eq_spec (key b : BitVec 128) : dec key b = BC.Spec.Gift.decrypt key b := by
  rw [dec_eq_impl]; exact BC.Gift.Conf.decrypt_eq_spec key b

end BC.Code.Gift
'''
open("/tmp/dev/w_codeK/out/CodeGift.lean", "w").write(s)
