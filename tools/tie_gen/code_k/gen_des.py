def ks(p, n=16): return [f"{p}{i}" for i in range(n)]
def pat(vs): return "(" + ", ".join(vs) + ")"
out = []
w = out.append
w('''import BlockCiphers.Gen.Cipher_Des
import BlockCiphers.Gen.Keys_Des
import BlockCiphers.Proofs.GenCipherDes
import BlockCiphers.Proofs.GenKeysDes
import BlockCiphers.Proofs.Des
import BlockCiphers.Proofs.DesSpec
/-
Code-level theorems for the `des` crate: `Des`, `TdesEde3`, `TdesEee3`, `TdesEde2`, `TdesEee2`.
`enc*` / `dec*` are built ONLY from regenerated definitions (`Gen/Keys_Des.lean`: `*_new`; `Gen/Cipher_Des.lean`:
`*_encrypt_block` / `*_decrypt_block`).  The theorems state, for every key and every block, the round trips and the equality
with FIPS 46-3 DES / SP 800-67 TDEA (and the EEE chains) of `Spec/Des.lean`; the key parts K1, K2(, K3) are written
as the explicit slices `key.extractLsb' …` (bytes 0..8, 8..16(, 16..24) of the key; = the model's `k1of3` … by definition).
They compose: key ties `Proofs/GenKeysDes`, cipher ties `Proofs/GenCipherDes`, model theorems `Proofs/Des`, `Proofs/DesSpec`.
Produced by gen_des.py (only the long tuple patterns are mechanical).
-/
namespace BC.Code.Des
open BC.Gen.Fn
set_option maxRecDepth 100000

/-! ### glue: a `Tdes3` / `Tdes2` whose parts have 16 keys each is determined by the concatenation of its fields -/

theorem tdes3_of_fields (T : BC.Des.Tdes3) (h1 : T.d1.length = 16) (h2 : T.d2.length = 16) :
    T = { d1 := (BC.GenKeys.Des.fields3 T).take 16, d2 := ((BC.GenKeys.Des.fields3 T).drop 16).take 16,
          d3 := (BC.GenKeys.Des.fields3 T).drop 32 } := by
  obtain ⟨l1, l2, l3⟩ := T
  match l1, h1, l2, h2 with
  | [_, _, _, _, _, _, _, _, _, _, _, _, _, _, _, _], _, [_, _, _, _, _, _, _, _, _, _, _, _, _, _, _, _], _ => rfl

theorem tdes2_of_fields (T : BC.Des.Tdes2) (h1 : T.d1.length = 16) :
    T = { d1 := (BC.GenKeys.Des.fields2 T).take 16, d2 := (BC.GenKeys.Des.fields2 T).drop 16 } := by
  obtain ⟨l1, l2⟩ := T
  match l1, h1 with
  | [_, _, _, _, _, _, _, _, _, _, _, _, _, _, _, _], _ => rfl
''')
def family(suffix, gen, keyw, n, impl, spec, rt, sp, doc):
    g = gen.lower()
    if n == 1:
        vs = ks("k")
    else:
        vs = sum([ks(f"d{j+1}k") for j in range(n)], [])
    args = " ".join(vs)
    w(f"/-! ## `{gen}` ({keyw//8}-byte key): {doc} -/\n")
    for d, fn in (("enc", "encrypt"), ("dec", "decrypt")):
        w(f"/-- `{gen}::new(key).{fn}_block(b)` — regenerated code only -/")
        w(f"def {d}{suffix} (key : BitVec {keyw}) (b : BitVec 64) : BitVec 64 :=")
        w(f"  match {g}_new key with")
        w(f"  | {pat(vs)} => {g}_{fn}_block {args} b")
        w("")
    for i, (d, fn) in enumerate((("enc", "encrypt"), ("dec", "decrypt"))):
        w(f"theorem {d}{suffix}_eq_impl (key : BitVec {keyw}) (b : BitVec 64) : {d}{suffix} key b = {impl[i]} b := by")
        if n == 1:
            w(f"  unfold {d}{suffix} {impl[i].split()[0]}")
            w(f"  rw [← BC.GenKeys.Des.new_list key]")
        elif n == 3:
            w(f"  have hT := tdes3_of_fields (BC.Des.Tdes3.new key) rfl rfl")
            w(f"  rw [← BC.GenKeys.Des.{g}_new_list key] at hT")
            w(f"  rw [hT]; unfold {d}{suffix}")
        else:
            w(f"  have hT := tdes2_of_fields (BC.Des.Tdes2.new key) rfl")
            w(f"  rw [← BC.GenKeys.Des.{g}_new_list key] at hT")
            w(f"  rw [hT]; unfold {d}{suffix}")
        w(f"  generalize {g}_new key = t")
        w(f"  obtain ⟨{', '.join(vs)}⟩ := t")
        w(f"  exact BC.GenCipher.Des.{g}_{fn}_block_eq {args} b")
        w("")
    w(f"/-- decryption inverts encryption, every key, every block -/")
    w(f"theorem dec{suffix}_enc{suffix} (key : BitVec {keyw}) (b : BitVec 64) : dec{suffix} key (enc{suffix} key b) = b := by")
    w(f"  rw [enc{suffix}_eq_impl, dec{suffix}_eq_impl]; exact {rt[0]} key b")
    w(f"theorem enc{suffix}_dec{suffix} (key : BitVec {keyw}) (b : BitVec 64) : enc{suffix} key (dec{suffix} key b) = b := by")
    w(f"  rw [dec{suffix}_eq_impl, enc{suffix}_eq_impl]; exact {rt[1]} key b")
    w(f"/-- the regenerated code computes the standard's function -/")
    w(f"theorem enc{suffix}_eq_spec (key : BitVec {keyw}) (b : BitVec 64) : enc{suffix} key b = {spec[0]} b := by")
    w(f"  rw [enc{suffix}_eq_impl]; exact {sp[0]} key b")
    w(f"theorem dec{suffix}_eq_spec (key : BitVec {keyw}) (b : BitVec 64) : dec{suffix} key b = {spec[1]} b := by")
    w(f"  rw [dec{suffix}_eq_impl]; exact {sp[1]} key b")
    w("")

family("", "Des", 64, 1, ("BC.Des.desEnc key", "BC.Des.desDec key"),
       ("BC.Spec.Des.des key", "BC.Spec.Des.desInv key"),
       ("BC.Des.decrypt_encrypt", "BC.Des.encrypt_decrypt"), ("BC.Des.desEnc_eq_spec", "BC.Des.desDec_eq_spec"),
       "FIPS 46-3 DES")
k3 = "(key.extractLsb' 128 64) (key.extractLsb' 64 64) (key.extractLsb' 0 64)"
k2 = "(key.extractLsb' 64 64) (key.extractLsb' 0 64) (key.extractLsb' 64 64)"
for (suf, gen, kw, n, m, T, kk, se, sd, doc) in [
    ("_ede3", "TdesEde3", 192, 3, "ede3", "Tdes3", k3, "tdeaEnc", "tdeaDec", "SP 800-67 TDEA, keying option 1"),
    ("_eee3", "TdesEee3", 192, 3, "eee3", "Tdes3", k3, "eeeEnc", "eeeDec", "three encryptions in a row (EEE)"),
    ("_ede2", "TdesEde2", 128, 2, "ede2", "Tdes2", k2, "tdeaEnc", "tdeaDec", "SP 800-67 TDEA, keying option 2 (K3 = K1)"),
    ("_eee2", "TdesEee2", 128, 2, "eee2", "Tdes2", k2, "eeeEnc", "eeeDec", "EEE with K3 = K1"),
]:
    M = m[0].upper() + m[1:]
    family(suf, gen, kw, n, (f"BC.Des.{m}Enc (BC.Des.{T}.new key)", f"BC.Des.{m}Dec (BC.Des.{T}.new key)"),
           (f"BC.Spec.Des.{se} {kk}", f"BC.Spec.Des.{sd} {kk}"),
           (f"BC.Des.tdes{M}_dec_enc", f"BC.Des.tdes{M}_enc_dec"), (f"BC.Des.{m}Enc_eq_spec", f"BC.Des.{m}Dec_eq_spec"), doc)
w("end BC.Code.Des")
open("/tmp/dev/w_codeK/out/CodeDes.lean", "w").write("\n".join(out) + "\n")
