o = []
w = o.append
w('''import BlockCiphers.Gen.Aes_Fs32
import BlockCiphers.Gen.Aes_Fs32c
import BlockCiphers.Proofs.GenAesFs32
import BlockCiphers.Proofs.GenAesFs32Keys
import BlockCiphers.Proofs.AesFixslice
import BlockCiphers.Proofs.AesNiBytes
import Std.Tactic.BVDecide
/-
Code-level theorems for the 32-bit fixsliced AES software backend (`aes/src/soft/fixslice32.rs`), AES-128/192/256, default
build and `--cfg aes_compact` build.
`enc<N>[c]` / `dec<N>[c]` are built ONLY from regenerated definitions (`Gen/Aes_Fs32.lean`, `Gen/Aes_Fs32c.lean`:
`fs32_aes<N>_key_schedule[_compact]`, `fs32_aes<N>_{en,de}crypt[_compact]`).  The backend processes a batch of 2 blocks, so
`enc`/`dec` take 2 blocks and return the pair of results.  For every key and every batch: round trips, and every lane
equals FIPS-197 AES (`Spec.Aes.encrypt` / `decrypt`) of that block, the key being passed to the specification as its bytes
`unpackBE n key` (byte 0 = most significant byte of the `BitVec`).
They compose: key-schedule ties `GenAesFs32Keys.aes<N>_key_schedule[_compact]_eq` (+ `…_model`: the model's schedule as a
literal array), cipher ties `GenAesFs32.aes<N>_{en,de}crypt[_compact]_eq`, model theorems `Proofs/AesFs32RoundTrip` (batch
round trips), `Proofs/AesFs32Bytes.aes<N>[_compact]_eq_spec` (batch conformance; source of `AesSoft.soft_conforms_<N>`, C02).
Produced by gen_fs32.py (only the long tuple patterns are mechanical).
-/
namespace BC.Code.AesFs32
open BC.Gen.Fn
set_option maxRecDepth 100000

/-! ### glue: a `BitVec (8n)` is the big-endian packing of its `n` bytes -/
''')
for n in (16, 24, 32):
    bits = 8 * n
    hs = ", ".join(f"h{i}" for i in range(n))
    rng = "[" + ",".join(str(i) for i in range(n)) + "]"
    w(f'''theorem range{n} : List.range {n} = {rng} := by decide +kernel

theorem unpackBE{n}_inj (x y : BitVec {bits}) (h : BC.unpackBE {n} x = BC.unpackBE {n} y) : x = y := by
  simp only [BC.unpackBE, range{n}, List.map_cons, List.map_nil, List.cons.injEq, Nat.reduceSub, Nat.reduceMul, and_true] at h
  obtain ⟨{hs}⟩ := h
  bv_decide (config := {{ timeout := 300 }})

theorem unpackBE{n}_length (x : BitVec {bits}) : (BC.unpackBE {n} x).length = {n} := by simp [BC.unpackBE]

theorem pack_unpack{n} (key : BitVec {bits}) : BC.packBE {n} (BC.unpackBE {n} key) = key :=
  unpackBE{n}_inj _ _ (BC.AesNi.unpack_pack{n} _ (unpackBE{n}_length key))
''')
T2 = "BitVec 128 × BitVec 128"
for N, nrk, n in ((128, 11, 16), (192, 13, 24), (256, 15, 32)):
    nv = 8 * nrk
    vs = [f"k{i}" for i in range(nv)]
    P = "(" + ", ".join(vs) + ")"; A = " ".join(vs)
    TT = " × ".join(["BitVec 32"] * nv)
    Ks = " ".join(f"K{i}" for i in range(nrk))
    Klit = "#[" + ", ".join(f"K{i}" for i in range(nrk)) + "]"
    Kfields = " ".join(f"K{i}.s{j}" for i in range(nrk) for j in range(8))
    us = " ".join("_" for _ in range(nrk))
    for c, cs, cdoc in (("", "", "default build"), ("c", "_compact", "`--cfg aes_compact` build")):
        E, D = f"enc{N}{c}", f"dec{N}{c}"
        ks = f"fs32_aes{N}_key_schedule{cs}"
        mks = f"BC.AesFs32.aes{N}_key_schedule{cs}"
        w(f"/-! ## AES-{N}, {cdoc} -/\n")
        for nm, fn in ((E, "encrypt"), (D, "decrypt")):
            w(f"/-- `aes{N}_{fn}(&aes{N}_key_schedule(key), blocks)` of fixslice32.rs, {cdoc} — regenerated code only -/")
            w(f"def {nm} (key : BitVec {N}) (b0 b1 : BitVec 128) : {T2} :=")
            w(f"  match {ks} key with")
            w(f"  | {P} => fs32_aes{N}_{fn}{cs} {A} b0 b1\n")
            w(f"/-- the same on an arbitrary flat round-key tuple (auxiliary; regenerated code only) -/")
            w(f"def {nm}T (t : {TT}) (b0 b1 : BitVec 128) : {T2} :=")
            w(f"  match t with")
            w(f"  | {P} => fs32_aes{N}_{fn}{cs} {A} b0 b1\n")
        for nm, fn in ((E, "encrypt"), (D, "decrypt")):
            w(f'''theorem {nm}T_lit ({Ks} : BC.AesFs32.St) (b0 b1 : BitVec 128) :
    {nm}T (BC.GenAesFs32.flatA{nrk} {Klit}) b0 b1 =
      ((BC.AesFs32.aes{N}_{fn}{cs} (BC.AesFs32.rkFn {Klit}) ⟨b0, b1⟩).b0, (BC.AesFs32.aes{N}_{fn}{cs} (BC.AesFs32.rkFn {Klit}) ⟨b0, b1⟩).b1) :=
  BC.GenAesFs32.aes{N}_{fn}{cs}_eq {Kfields} b0 b1

theorem {nm}_eq_impl (key : BitVec {N}) (b0 b1 : BitVec 128) :
    {nm} key b0 b1 = ((BC.AesFs32.aes{N}_{fn}{cs} (BC.AesFs32.rkFn ({mks} key)) ⟨b0, b1⟩).b0,
      (BC.AesFs32.aes{N}_{fn}{cs} (BC.AesFs32.rkFn ({mks} key)) ⟨b0, b1⟩).b1) := by
  have h : {nm} key b0 b1 = {nm}T ({ks} key) b0 b1 := rfl
  rw [h, BC.GenAesFs32.aes{N}_key_schedule{cs}_eq, BC.GenAesFs32.aes{N}_key_schedule{cs}_model]
  exact {nm}T_lit {us} b0 b1
''')
        for (X, Y, xf, yf) in ((D, E, "decrypt", "encrypt"), (E, D, "encrypt", "decrypt")):
            doc = "/-- decryption inverts encryption on every batch, every key -/\n" if X == D else ""
            w(f'''{doc}theorem {X}_{Y} (key : BitVec {N}) (b0 b1 : BitVec 128) :
    (match {Y} key b0 b1 with | (c0, c1) => {X} key c0 c1) = (b0, b1) := by
  rw [{Y}_eq_impl]
  generalize hX : BC.AesFs32.aes{N}_{yf}{cs} (BC.AesFs32.rkFn ({mks} key)) ⟨b0, b1⟩ = X
  show {X} key X.b0 X.b1 = _
  rw [{X}_eq_impl]
  have e : (⟨X.b0, X.b1⟩ : BC.AesFs32.Batch) = X := rfl
  rw [e, ← hX, BC.AesFs32.aes{N}_{xf}{cs}_aes{N}_{yf}{cs}]
''')
        sp = f"BC.AesFs32.aes{N}{cs}_eq_spec"
        for nm, fn, idx in ((E, "encrypt", ".2.2.1"), (D, "decrypt", ".2.2.2")):
            doc = "/-- every lane of the regenerated code computes FIPS-197 AES of that block -/\n" if nm == E else ""
            w(f'''{doc}theorem {nm}_eq_spec (key : BitVec {N}) (b0 b1 : BitVec 128) :
    {nm} key b0 b1 = (BC.Spec.Aes.{fn} (BC.unpackBE {n} key) b0, BC.Spec.Aes.{fn} (BC.unpackBE {n} key) b1) := by
  have h := ({sp} (BC.unpackBE {n} key) (unpackBE{n}_length key)){idx} ⟨b0, b1⟩
  rw [pack_unpack{n}] at h
  rw [{nm}_eq_impl, h]; rfl
''')
w("end BC.Code.AesFs32")
open("/tmp/dev/w_codeK/out/CodeAesFs32.lean", "w").write("\n".join(o) + "\n")
