import re
src=open('/tmp/dev/lib/BlockCiphers/Gen/Cipher_Magma.lean').read()
hdr=r'''import Lean
import BlockCiphers.Gen.Cipher_Magma
import BlockCiphers.Impl.Magma
import BlockCiphers.Proofs.MagmaSpec
import Std.Tactic.BVDecide
/-
Tie of the regenerated `Gost89<S>::encrypt_block` / `decrypt_block` of the `magma` crate (`Gen/Cipher_Magma.lean`, one pair
per bundled S-box set: Tc26 (= Magma), TestSbox, CryptoProA..D) to the model `Impl/Magma.lean`, for ALL keys and blocks.

The generated text has the four expanded tables `EXP_SBOX = gen_exp_sbox(&SBOX)` as evaluated constants
(`…_tbl0..3 : Array Nat`), the 32 calls of `g` inlined and the pair `v` kept as (unnamed) xor chains.
* `TablesOf S t0 t1 t2 t3` (checked by `decide +kernel`, one list comparison per table) says that the constants are the
  model's `genExpSbox S`, through `expByte_genExpSbox` of `Proofs/MagmaSpec.lean` (entry = pair of nibble substitutions);
* `gstep` is one inlined `g`; `gstep_eq`: over such tables it is the model's `g (genExpSbox S)`;
* per function: `extract_lets`, every `g_r_i` is recognised (`rfl`) as a `gstep`, every state word as
  `previous ^^^ g …`, and the model's 32 rounds (`encryptExp_eq` / `decryptExp_eq` + the literal round orders) are rewritten
  one by one onto the generated variables.
This file is produced by `tools/gen_magma.py` from the generated text (it refers to the `let` names of
`Gen/Cipher_Magma.lean`): after a re-translation re-run the script, then check the file with `lean`.
-/
namespace BC.GenCipher.Magma
open BC.Gen.Fn BC.Magma
set_option maxRecDepth 100000

open Lean Elab Tactic Meta in
/-- make the (hygienic) names of the local `let` variables introduced by `extract_lets` accessible -/
elab "name_lets" : tactic => do
  liftMetaTactic fun g => g.withContext do
    let mut lctx ← getLCtx
    for d in lctx do
      if d.isLet then lctx := lctx.setUserName d.fvarId d.userName.eraseMacroScopes
    let g' ← mkFreshExprMVarAt lctx (← getLocalInstances) (← g.getType) .syntheticOpaque (← g.getTag)
    g.assign g'
    return [g'.mvarId!]

/-! ### tables -/

/-- look-up in a regenerated constant table whose entries are known as a list -/
theorem tbl_of_list (t : Array Nat) (G : Fin 256 → BitVec 8)
    (hL : t.toList.map (BitVec.ofNat 8) = List.ofFn G) (n : Fin 256) : BC.Gen.tblAt t n.val 8 = G n := by
  have h1 := congrArg (fun l => l[n.val]?) hL
  simp only [List.getElem?_map, List.getElem?_ofFn, n.isLt, dite_true, Array.getElem?_toList] at h1
  unfold BC.Gen.tblAt
  rw [Array.getD_eq_getD_getElem?]
  cases h : t[n.val]? with
  | none => rw [h] at h1; simp at h1
  | some v => rw [h] at h1; simpa using h1

/-- row `i` of `gen_exp_sbox(S)`, by `expByte_genExpSbox`: entry `x` = `S[2i+1][x >> 4] ‖ S[2i][x & 15]` -/
def expRow (S : SmallSbox) (i : Fin 4) : List (BitVec 8) :=
  List.ofFn (fun n : Fin 256 =>
    Spec.Magma.sub S ⟨2 * i.val + 1, by omega⟩ ((BitVec.ofFin n : BitVec 8).extractLsb' 4 4) ++
    Spec.Magma.sub S ⟨2 * i.val, by omega⟩ ((BitVec.ofFin n : BitVec 8).extractLsb' 0 4))

/-- the four constant tables of a generated function are `gen_exp_sbox(S)` -/
def TablesOf (S : SmallSbox) (t0 t1 t2 t3 : Array Nat) : Prop :=
  t0.toList.map (BitVec.ofNat 8) = expRow S 0 ∧ t1.toList.map (BitVec.ofNat 8) = expRow S 1 ∧
  t2.toList.map (BitVec.ofNat 8) = expRow S 2 ∧ t3.toList.map (BitVec.ofNat 8) = expRow S 3

instance (S : SmallSbox) (t0 t1 t2 t3 : Array Nat) : Decidable (TablesOf S t0 t1 t2 t3) := by
  unfold TablesOf; infer_instance

theorem tbl_expByte (S : SmallSbox) (t : Array Nat) (i : Fin 4) (h : t.toList.map (BitVec.ofNat 8) = expRow S i)
    (y : BitVec 8) : BC.Gen.tblAt t y.toNat 8 = expByte (genExpSbox S) i y := by
  rw [expByte_genExpSbox]
  exact tbl_of_list t _ h ⟨y.toNat, y.isLt⟩

/-! ### one inlined `g` -/

/-- one inlined call `S::g(a, key)` of the generated text, the four expanded tables as parameters -/
def gstep (t0 t1 t2 t3 : Array Nat) (a key : BitVec 32) : BitVec 32 :=
  let a_1 := a + key
  let k := ((a_1 &&& 0xff#32) >>> 0).setWidth 64
  let v := 0x0#32 + (((BC.Gen.tblAt t0 k.toNat 8).setWidth 32) <<< 0)
  let k_1 := ((a_1 &&& 0xff00#32) >>> 8).setWidth 64
  let v_1 := v + (((BC.Gen.tblAt t1 k_1.toNat 8).setWidth 32) <<< 8)
  let k_2 := ((a_1 &&& 0xff0000#32) >>> 16).setWidth 64
  let v_2 := v_1 + (((BC.Gen.tblAt t2 k_2.toNat 8).setWidth 32) <<< 16)
  let k_3 := ((a_1 &&& 0xff000000#32) >>> 24).setWidth 64
  let v_3 := v_2 + (((BC.Gen.tblAt t3 k_3.toNat 8).setWidth 32) <<< 24)
  v_3.rotateLeft 11

theorem idx0 (x : BitVec 32) : (((x &&& 0xff#32) >>> 0).setWidth 64).toNat = (x.extractLsb' 0 8).toNat := by
  have h : ((x &&& 0xff#32) >>> 0).setWidth 64 = (x.extractLsb' 0 8).setWidth 64 := by bv_decide
  rw [h, BitVec.toNat_setWidth]; have := (x.extractLsb' 0 8).isLt; omega
theorem idx1 (x : BitVec 32) : (((x &&& 0xff00#32) >>> 8).setWidth 64).toNat = (x.extractLsb' 8 8).toNat := by
  have h : ((x &&& 0xff00#32) >>> 8).setWidth 64 = (x.extractLsb' 8 8).setWidth 64 := by bv_decide
  rw [h, BitVec.toNat_setWidth]; have := (x.extractLsb' 8 8).isLt; omega
theorem idx2 (x : BitVec 32) : (((x &&& 0xff0000#32) >>> 16).setWidth 64).toNat = (x.extractLsb' 16 8).toNat := by
  have h : ((x &&& 0xff0000#32) >>> 16).setWidth 64 = (x.extractLsb' 16 8).setWidth 64 := by bv_decide
  rw [h, BitVec.toNat_setWidth]; have := (x.extractLsb' 16 8).isLt; omega
theorem idx3 (x : BitVec 32) : (((x &&& 0xff000000#32) >>> 24).setWidth 64).toNat = (x.extractLsb' 24 8).toNat := by
  have h : ((x &&& 0xff000000#32) >>> 24).setWidth 64 = (x.extractLsb' 24 8).setWidth 64 := by bv_decide
  rw [h, BitVec.toNat_setWidth]; have := (x.extractLsb' 24 8).isLt; omega

/-- the inlined `g` over tables that are `gen_exp_sbox(S)` is the model's `g` -/
theorem gstep_eq {S : SmallSbox} {t0 t1 t2 t3 : Array Nat} (h : TablesOf S t0 t1 t2 t3) (a key : BitVec 32) :
    gstep t0 t1 t2 t3 a key = g (genExpSbox S) a key := by
  have h0 := tbl_expByte S t0 0 h.1 ((a + key).extractLsb' 0 8)
  have h1 := tbl_expByte S t1 1 h.2.1 ((a + key).extractLsb' 8 8)
  have h2 := tbl_expByte S t2 2 h.2.2.1 ((a + key).extractLsb' 16 8)
  have h3 := tbl_expByte S t3 3 h.2.2.2 ((a + key).extractLsb' 24 8)
  simp only [gstep, g, applySbox_eq_bytes, idx0, idx1, idx2, idx3, h0, h1, h2, h3]
  generalize expByte (genExpSbox S) 0 _ = e0
  generalize expByte (genExpSbox S) 1 _ = e1
  generalize expByte (genExpSbox S) 2 _ = e2
  generalize expByte (genExpSbox S) 3 _ = e3
  bv_decide

/-! ### block bytes, key, rounds -/

/-- `to_u32(&block[0..4])` / `to_u32(&block[4..8])` in the translator's block convention -/
def hi4 (b : BitVec 64) : BitVec 32 :=
  (b.extractLsb' 56 8) ++ (b.extractLsb' 48 8) ++ (b.extractLsb' 40 8) ++ (b.extractLsb' 32 8)
def lo4 (b : BitVec 64) : BitVec 32 :=
  (b.extractLsb' 24 8) ++ (b.extractLsb' 16 8) ++ (b.extractLsb' 8 8) ++ (b.extractLsb' 0 8)

theorem load_bytes (b : BitVec 64) : load b = { v0 := hi4 b, v1 := lo4 b } := by
  simp only [load, hi4, lo4, V.mk.injEq]
  constructor <;> bv_decide

/-- the two `copy_from_slice(&… .to_be_bytes())` -/
theorem out_bytes (x y : BitVec 32) :
    (x.extractLsb' 24 8) ++ (x.extractLsb' 16 8) ++ (x.extractLsb' 8 8) ++ (x.extractLsb' 0 8) ++
      (y.extractLsb' 24 8) ++ (y.extractLsb' 16 8) ++ (y.extractLsb' 8 8) ++ (y.extractLsb' 0 8) = x ++ y := by
  bv_decide

/-- the cipher instance with the eight key words `self.key[0..8]` -/
def mk (k0 k1 k2 k3 k4 k5 k6 k7 : BitVec 32) : Gost89 := { key := #v[k0, k1, k2, k3, k4, k5, k6, k7] }

section
variable (exp : ExpSbox) (k0 k1 k2 k3 k4 k5 k6 k7 x y : BitVec 32)
theorem round0 : round exp (mk k0 k1 k2 k3 k4 k5 k6 k7) 0 ⟨x, y⟩ = ⟨y, x ^^^ g exp y k0⟩ := rfl
theorem round1 : round exp (mk k0 k1 k2 k3 k4 k5 k6 k7) 1 ⟨x, y⟩ = ⟨y, x ^^^ g exp y k1⟩ := rfl
theorem round2 : round exp (mk k0 k1 k2 k3 k4 k5 k6 k7) 2 ⟨x, y⟩ = ⟨y, x ^^^ g exp y k2⟩ := rfl
theorem round3 : round exp (mk k0 k1 k2 k3 k4 k5 k6 k7) 3 ⟨x, y⟩ = ⟨y, x ^^^ g exp y k3⟩ := rfl
theorem round4 : round exp (mk k0 k1 k2 k3 k4 k5 k6 k7) 4 ⟨x, y⟩ = ⟨y, x ^^^ g exp y k4⟩ := rfl
theorem round5 : round exp (mk k0 k1 k2 k3 k4 k5 k6 k7) 5 ⟨x, y⟩ = ⟨y, x ^^^ g exp y k5⟩ := rfl
theorem round6 : round exp (mk k0 k1 k2 k3 k4 k5 k6 k7) 6 ⟨x, y⟩ = ⟨y, x ^^^ g exp y k6⟩ := rfl
theorem round7 : round exp (mk k0 k1 k2 k3 k4 k5 k6 k7) 7 ⟨x, y⟩ = ⟨y, x ^^^ g exp y k7⟩ := rfl
end

theorem finRange8 : List.finRange 8 = [0, 1, 2, 3, 4, 5, 6, 7] := by decide

theorem encrypt_unfold (S : SmallSbox) (c : Gost89) (b : BitVec 64) : encrypt S c b =
    store (round (genExpSbox S) c 0 (round (genExpSbox S) c 1 (round (genExpSbox S) c 2 (round (genExpSbox S) c 3
      (round (genExpSbox S) c 4 (round (genExpSbox S) c 5 (round (genExpSbox S) c 6 (round (genExpSbox S) c 7
      (round (genExpSbox S) c 7 (round (genExpSbox S) c 6 (round (genExpSbox S) c 5 (round (genExpSbox S) c 4
      (round (genExpSbox S) c 3 (round (genExpSbox S) c 2 (round (genExpSbox S) c 1 (round (genExpSbox S) c 0
      (round (genExpSbox S) c 7 (round (genExpSbox S) c 6 (round (genExpSbox S) c 5 (round (genExpSbox S) c 4
      (round (genExpSbox S) c 3 (round (genExpSbox S) c 2 (round (genExpSbox S) c 1 (round (genExpSbox S) c 0
      (round (genExpSbox S) c 7 (round (genExpSbox S) c 6 (round (genExpSbox S) c 5 (round (genExpSbox S) c 4
      (round (genExpSbox S) c 3 (round (genExpSbox S) c 2 (round (genExpSbox S) c 1 (round (genExpSbox S) c 0
      (load b))))))))))))))))))))))))))))))))) := by
  simp only [encrypt, encryptExp_eq, encOrder, finRange8, List.reverse_cons, List.reverse_nil, List.nil_append,
    List.cons_append, List.foldl_cons, List.foldl_nil]

theorem decrypt_unfold (S : SmallSbox) (c : Gost89) (b : BitVec 64) : decrypt S c b =
    store (round (genExpSbox S) c 0 (round (genExpSbox S) c 1 (round (genExpSbox S) c 2 (round (genExpSbox S) c 3
      (round (genExpSbox S) c 4 (round (genExpSbox S) c 5 (round (genExpSbox S) c 6 (round (genExpSbox S) c 7
      (round (genExpSbox S) c 0 (round (genExpSbox S) c 1 (round (genExpSbox S) c 2 (round (genExpSbox S) c 3
      (round (genExpSbox S) c 4 (round (genExpSbox S) c 5 (round (genExpSbox S) c 6 (round (genExpSbox S) c 7
      (round (genExpSbox S) c 0 (round (genExpSbox S) c 1 (round (genExpSbox S) c 2 (round (genExpSbox S) c 3
      (round (genExpSbox S) c 4 (round (genExpSbox S) c 5 (round (genExpSbox S) c 6 (round (genExpSbox S) c 7
      (round (genExpSbox S) c 7 (round (genExpSbox S) c 6 (round (genExpSbox S) c 5 (round (genExpSbox S) c 4
      (round (genExpSbox S) c 3 (round (genExpSbox S) c 2 (round (genExpSbox S) c 1 (round (genExpSbox S) c 0
      (load b))))))))))))))))))))))))))))))))) := by
  simp only [decrypt, decryptExp_eq, decOrder, finRange8, List.reverse_cons, List.reverse_nil, List.nil_append,
    List.cons_append, List.foldl_cons, List.foldl_nil]
'''
out=[hdr]
SB={'tc26':'Tc26','testsbox':'TestSbox','cryptoproa':'CryptoProA','cryptoprob':'CryptoProB','cryptoproc':'CryptoProC','cryptoprod':'CryptoProD'}
for m in re.finditer(r'def gost89_(\w+?)_(encrypt|decrypt)_block ((?:\(\w+ : BitVec \d+\) )+): BitVec 64 :=\n((?:  .*\n)+)',src):
    sb,dirn,body=m.group(1),m.group(2),m.group(4)
    fn=f'gost89_{sb}_{dirn}_block'
    S=SB[sb]
    lets=re.findall(r'^  let (\w+) := (.*)$',body,re.M)
    rounds=[]  # (input var, key idx)
    for v,e in lets:
        mm=re.fullmatch(r'(\w+) \+ self_key(\d)',e)
        if mm: rounds.append((mm.group(1),int(mm.group(2))))
    grs=[v for v,e in lets if re.fullmatch(r'g_r(_\d+)?',v)]
    assert len(rounds)==32 and len(grs)==32
    tb=' '.join(f'{fn}_tbl{i}' for i in range(4))
    ks=' '.join(f'self_key{i}' for i in range(8))
    L=[]
    L.append(f'theorem {fn}_tables : TablesOf {S} {tb} := by decide +kernel\n')
    L.append(f"/-- `{fn}` (regenerated `Gost89<{S}>::{dirn}_block`) is the model's `{dirn} {S}`, for all keys and blocks -/")
    L.append(f'theorem {fn}_eq ({ks} : BitVec 32) (block : BitVec 64) :')
    L.append(f'    {fn} {ks} block = {dirn} {S} (mk {ks}) block := by')
    L.append(f'  unfold {fn}')
    L.append('  extract_lets -merge')
    L.append('  name_lets')
    L.append(f'  have T := @gstep_eq _ _ _ _ _ {fn}_tables')
    # state words: w[-1]=hi4 block, w[0]=a (=lo4 block), w[i+1] = w[i-1] ^^^ g(w[i], key)
    w={-1:'hi4 block'}
    for i,(inp,kj) in enumerate(rounds): w[i]=inp
    assert w[0]=='a'
    L.append('  have hl : load block = { v0 := hi4 block, v1 := a } := load_bytes block')
    for i,(inp,kj) in enumerate(rounds):
        L.append(f'  have g{i} : {grs[i]} = g (genExpSbox {S}) {inp} self_key{kj} := (T {inp} self_key{kj}) ▸ rfl')
    for i in range(31):
        kj=rounds[i][1]
        L.append(f'  have r{i} : round (genExpSbox {S}) (mk {ks}) {kj} ⟨{w[i-1]}, {w[i]}⟩ = ⟨{w[i]}, {w[i+1]}⟩ := by')
        L.append(f'    rw [round{kj}, ← g{i}]'+('; rfl' if i==0 else ''))
    kj=rounds[31][1]
    L.append(f'  have r31 : round (genExpSbox {S}) (mk {ks}) {kj} ⟨{w[30]}, {w[31]}⟩ = ⟨{w[31]}, {w[30]} ^^^ {grs[31]}⟩ := by')
    L.append(f'    rw [round{kj}, ← g31]')
    L.append(f'  rw [out_bytes, {dirn}_unfold, hl, '+', '.join(f'r{i}' for i in range(32))+']')
    L.append('  rfl')
    out.append('\n'.join(L)+'\n')
out.append('end BC.GenCipher.Magma\n')
open('/tmp/dev/w_tieB/out/GenCipherMagma.lean','w').write('\n'.join(out))
