import re
src=open('/tmp/dev/lib/BlockCiphers/Gen/Cipher_Des.lean').read()
defs=re.split(r'\n(?=/-- )',src)
out=[]
out.append('''import Lean
import BlockCiphers.Gen.Cipher_Des
import BlockCiphers.Impl.Des
import BlockCiphers.Proofs.GenFuncsDes
import Std.Tactic.BVDecide
/-
Tie of the regenerated whole-cipher functions of the `des` crate (`Gen/Cipher_Des.lean`: `Des`, `TdesEde3`, `TdesEde2`,
`TdesEee3`, `TdesEee2` `encrypt_block` / `decrypt_block`, translated from the current Rust text with all calls inlined and
the round loop unrolled) to the hand-written model `Impl/Des.lean`, for ALL round keys and ALL blocks.

Method: the generated text is one long chain of `let`s.  `extract_lets` turns it into local definitions (sharing kept),
then every segment of the chain is recognised, by `rfl`, as one call of a regenerated leaf function of `Gen/Funcs.lean`
(`des_ip`, `des_round`, `des_fp`), and `Proofs/GenFuncsDes.lean` (`ip_eq`, `round_eq`, `fp_eq`) rewrites these to the
model's functions.  No bit-blasting except for `bytes_id` (`u64::from_be_bytes` of the block bytes is the block).
This file is produced by `tools/gen_des.py` from the generated text (it refers to the `let` names of
`Gen/Cipher_Des.lean`): after a re-translation re-run the script, then check the file with `lean`.
-/
namespace BC.GenCipher.Des
open BC.Gen.Fn
set_option maxRecDepth 100000

open Lean Elab Tactic Meta in
/-- make the (hygienic) names of the local `let` variables introduced by `extract_lets` accessible -/
elab "name_lets" : tactic => do
  liftMetaTactic fun g => g.withContext do
    let mut lctx ← getLCtx
    for d in lctx do
      if d.isLet then lctx := lctx.setUserName d.fvarId d.userName.eraseMacroScopes
    let g' ← mkFreshExprMVarAt lctx (← getLocalInstances) (← g.getType) .syntheticOpaque (← g.getTag)
    g.assign g'
    return [g'.mvarId!]

/-- `u64::from_be_bytes(block)` / `to_be_bytes`: in the translator's block convention (byte 0 = most significant byte)
both are the identity -/
theorem bytes_id (x : BitVec 64) :
    (x.extractLsb' 56 8) ++ (x.extractLsb' 48 8) ++ (x.extractLsb' 40 8) ++ (x.extractLsb' 32 8) ++
      (x.extractLsb' 24 8) ++ (x.extractLsb' 16 8) ++ (x.extractLsb' 8 8) ++ (x.extractLsb' 0 8) = x := by
  bv_decide
''')
ks=' '.join(f'k{i}' for i in range(16))
def nest(order):
    t='des_ip x'
    for i in order: t=f'des_round ({t}) k{i}'
    return t
klist='['+', '.join(f'k{i}' for i in range(16))+']'
out.append(f'''/-- the sixteen rounds in key order = `Des::encrypt` of the model -/
theorem core_enc ({ks} x : BitVec 64) :
    des_fp (({nest(range(16))}).rotateRight 32) =
      BC.Des.encrypt {klist} x := by
  simp only [GenFuncs.Des.fp_eq, GenFuncs.Des.round_eq, GenFuncs.Des.ip_eq, BC.Des.encrypt, List.foldl]

/-- the sixteen rounds in reverse key order = `Des::decrypt` of the model -/
theorem core_dec ({ks} x : BitVec 64) :
    des_fp (({nest(reversed(range(16)))}).rotateRight 32) =
      BC.Des.decrypt {klist} x := by
  simp only [GenFuncs.Des.fp_eq, GenFuncs.Des.round_eq, GenFuncs.Des.ip_eq, BC.Des.decrypt, List.foldl,
    List.reverse, List.reverseAux]
''')
model={'des':None,'tdesede3':'ede3','tdesede2':'ede2','tdeseee3':'eee3','tdeseee2':'eee2'}
for d in defs:
    m=re.search(r'def (\w+)_(encrypt|decrypt)_block ((?:\(\w+ : BitVec 64\) )+): BitVec 64 :=',d)
    if not m: continue
    name,dirn=m.group(1),m.group(2)
    params=re.findall(r'\((\w+) : BitVec 64\)',m.group(3))
    assert params[-1]=='block'
    fields=params[:-1]
    lets=re.findall(r'^  let (\w+) := (.*)$',d,re.M)
    # stages
    keyseq=[(v,re.search(r'\^\^\^ (self_\w+)$',e).group(1)) for v,e in lets if re.fullmatch(r'val(_\d+)?',v) and re.search(r'\^\^\^ self_',e)]
    keys=[k for _,k in keyseq]
    rounds=[v for v,e in lets if re.fullmatch(r'round_r(_\d+)?',v)]
    msgs=[(v,re.match(r'(\w+)\.rotateRight 32',e).group(1)) for v,e in lets if re.fullmatch(r'message(_\d+)?',v)]
    ds=[v for v,e in lets if re.fullmatch(r'delta_swap_r(_\d+)?',v)]
    nst=len(keys)//16
    assert len(rounds)==16*nst and len(msgs)==nst and len(ds)==10*nst
    L=[]
    bn=' '.join(fields)
    # group fields
    grp={}
    for f in fields:
        g=re.match(r'self_(d\d_)?keys(\d+)',f)
        grp.setdefault(g.group(1) or '',[]).append(f)
    def lst(g): return '['+', '.join(grp[g])+']'
    if model[name] is None:
        rhs=f'BC.Des.{dirn} {lst("")} block'
    else:
        st='{ '+', '.join(f'{g[:-1]} := {lst(g)}' for g in sorted(grp))+' }'
        rhs=f'BC.Des.{model[name]}{"Enc" if dirn=="encrypt" else "Dec"} {st} block'
    L.append(f'/-- `{name}_{dirn}_block` (regenerated) is the model\'s function, for all round keys and blocks -/')
    L.append(f'theorem {name}_{dirn}_block_eq ({bn} block : BitVec 64) :')
    L.append(f'    {name}_{dirn}_block {bn} block =')
    L.append(f'      {rhs} := by')
    L.append(f'  unfold {name}_{dirn}_block')
    L.append('  extract_lets -merge')
    L.append('  name_lets')
    L.append('  have hd : data = block := bytes_id block')
    inp='data'
    stages=[]
    for s in range(nst):
        ipv=ds[10*s+4]; fpv=ds[10*s+9]
        kk=keys[16*s:16*s+16]; rr=rounds[16*s:16*s+16]
        g=re.match(r'self_(d\d_)?keys(\d+)',kk[0]).group(1) or ''
        idx=[int(re.match(r'self_(?:d\d_)?keys(\d+)',k).group(1)) for k in kk]
        if idx==list(range(16)): op='enc'
        elif idx==list(range(15,-1,-1)): op='dec'
        else: raise Exception('key order')
        assert all((re.match(r'self_(d\d_)?keys(\d+)',k).group(1) or '')==g for k in kk)
        assert msgs[s][1]==rr[15]
        L.append(f'  have hi{s} : {ipv} = des_ip {inp} := rfl')
        prev=ipv
        for i in range(16):
            L.append(f'  have hr{s}_{i} : {rr[i]} = des_round {prev} {kk[i]} := rfl')
            prev=rr[i]
        L.append(f'  have hf{s} : {fpv} = des_fp ({rr[15]}.rotateRight 32) := rfl')
        full={'enc':'encrypt','dec':'decrypt'}[op]
        L.append(f'  have hs{s} : {fpv} = BC.Des.{full} {lst(g)} {inp} := by')
        L.append(f'    rw [hf{s}, '+', '.join(f'hr{s}_{i}' for i in reversed(range(16)))+f', hi{s}]')
        L.append(f'    apply core_{op}')
        inp=fpv
    L.append('  rw [bytes_id, '+', '.join(f'hs{s}' for s in reversed(range(nst)))+', hd]')
    if model[name] is not None:
        L[-1]+='\n  rfl'
    out.append('\n'.join(L)+'\n')
out.append('end BC.GenCipher.Des\n')
open('/tmp/dev/w_tieB/out/GenCipherDes.lean','w').write('\n'.join(out))
