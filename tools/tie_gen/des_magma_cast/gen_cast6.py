import re
src=open('/tmp/dev/lib/BlockCiphers/Gen/Cipher_Cast6.lean').read()
MN=[f'm{q}_{j}' for q in range(12) for j in range(4)]
RN=[f'r{q}_{j}' for q in range(12) for j in range(4)]
MS=' '.join(MN); RS=' '.join(RN)
KM='['+', '.join('⟨'+', '.join(f'm{q}_{j}' for j in range(4))+'⟩' for q in range(12))+']'
KR='['+', '.join('⟨'+', '.join(f'r{q}_{j}' for j in range(4))+'⟩' for q in range(12))+']'
def km(q): return '⟨'+', '.join(f'm{q}_{j}' for j in range(4))+'⟩'
def kr(q): return '⟨'+', '.join(f'r{q}_{j}' for j in range(4))+'⟩'
def chain(seq):
    t='x'
    for kind,q in seq: t=f'{kind}Quad ({t}) {km(q)} {kr(q)}'
    return t
encseq=[('forward',q) for q in range(6)]+[('reverse',q) for q in range(6,12)]
decseq=[('forward',q) for q in range(11,5,-1)]+[('reverse',q) for q in range(5,-1,-1)]
hdr=r'''import Lean
import BlockCiphers.Gen.Cipher_Cast6
import BlockCiphers.Impl.Cast6
import BlockCiphers.Proofs.GenTables
import Std.Tactic.BVDecide
/-
Tie of the regenerated `Cast6::encrypt_block` / `decrypt_block` (`Gen/Cipher_Cast6.lean`: the twelve quad-round calls with
`forward_quad` / `reverse_quad` and the macros `f1!/f2!/f3!` inlined) to the model `Impl/Cast6.lean`, for ALL
masking / rotate keys (12 × 4 each) and ALL blocks.

* `tbl_eq`: `tblAt cast6_Sj n 32` (regenerated table) is the model's `Sj.getD n 0` (from `cast6_Sj_eq`, `Proofs/GenTables.lean`);
* `f1g/f2g/f3g` = the inlined macros, tied to the model's `f1/f2/f3` by index normalisation only (ARX: no bit-blasting);
* per function: `extract_lets`, each new word is recognised (`rfl`) as `old ^^^ f?g input m r`, every group of four as one
  `forwardQuad` / `reverseQuad` of the model, and the model's twelve calls are rewritten one at a time.
This file is produced by `tools/gen_cast6.py` from the generated text (it refers to the `let` names of
`Gen/Cipher_Cast6.lean`): after a re-translation re-run the script, then check the file with `lean`.
-/
namespace BC.GenCipher.Cast6
open BC.Gen.Fn BC.Cast6
set_option maxRecDepth 100000

open Lean Elab Tactic Meta in
/-- make the (hygienic) names of the local `let` variables introduced by `extract_lets` accessible -/
elab "name_lets" : tactic => do
  liftMetaTactic fun g => g.withContext do
    let mut lctx ← getLCtx
    for d in lctx do
      if d.isLet then lctx := lctx.setUserName d.fvarId d.userName.eraseMacroScopes
    let g' ← mkFreshExprMVarAt lctx (← getLocalInstances) (← g.getType) .syntheticOpaque (← g.getTag)
    g.assign g'
    return [g'.mvarId!]

/-! ### tables and indices -/

theorem tbl_eq (t : Array Nat) (a : Array (BitVec 32)) (h : t.toList = BC.GenTables.nats32 a) (n : Nat) :
    BC.Gen.tblAt t n 32 = a.getD n 0#32 := by
  have h1 := congrArg (fun l => l[n]?) h
  simp only [BC.GenTables.nats32, List.getElem?_map, Array.getElem?_toList] at h1
  unfold BC.Gen.tblAt
  rw [Array.getD_eq_getD_getElem?, Array.getD_eq_getD_getElem?, h1]
  cases a[n]? with
  | none => rfl
  | some v => simp

theorem s1 (x : BitVec 32) : BC.Gen.tblAt BC.Gen.cast6_S1 x.toNat 32 = sb S1 x := tbl_eq _ _ BC.GenTables.cast6_S1_eq _
theorem s2 (x : BitVec 32) : BC.Gen.tblAt BC.Gen.cast6_S2 x.toNat 32 = sb S2 x := tbl_eq _ _ BC.GenTables.cast6_S2_eq _
theorem s3 (x : BitVec 32) : BC.Gen.tblAt BC.Gen.cast6_S3 x.toNat 32 = sb S3 x := tbl_eq _ _ BC.GenTables.cast6_S3_eq _
theorem s4 (x : BitVec 32) : BC.Gen.tblAt BC.Gen.cast6_S4 x.toNat 32 = sb S4 x := tbl_eq _ _ BC.GenTables.cast6_S4_eq _

/-- `x as usize` of a `u32` -/
theorem idx (x : BitVec 32) : (x.setWidth 64).toNat = x.toNat := by
  rw [BitVec.toNat_setWidth]; have := x.isLt; omega
/-- `u32::from(r)` of a `u8` -/
theorem rot (x : BitVec 8) : (x.setWidth 32).toNat = x.toNat := by
  rw [BitVec.toNat_setWidth]; have := x.isLt; omega

/-! ### the inlined `f1!`, `f2!`, `f3!` -/

def f1g (d m : BitVec 32) (r : BitVec 8) : BitVec 32 :=
  let i := (m + d).rotateLeft (r.setWidth 32).toNat
  (((BC.Gen.tblAt BC.Gen.cast6_S1 ((i >>> 24).setWidth 64).toNat 32) ^^^ (BC.Gen.tblAt BC.Gen.cast6_S2 (((i >>> 16) &&& 0xff#32).setWidth 64).toNat 32)) - (BC.Gen.tblAt BC.Gen.cast6_S3 (((i >>> 8) &&& 0xff#32).setWidth 64).toNat 32)) + (BC.Gen.tblAt BC.Gen.cast6_S4 ((i &&& 0xff#32).setWidth 64).toNat 32)
def f2g (d m : BitVec 32) (r : BitVec 8) : BitVec 32 :=
  let i := (m ^^^ d).rotateLeft (r.setWidth 32).toNat
  (((BC.Gen.tblAt BC.Gen.cast6_S1 ((i >>> 24).setWidth 64).toNat 32) - (BC.Gen.tblAt BC.Gen.cast6_S2 (((i >>> 16) &&& 0xff#32).setWidth 64).toNat 32)) + (BC.Gen.tblAt BC.Gen.cast6_S3 (((i >>> 8) &&& 0xff#32).setWidth 64).toNat 32)) ^^^ (BC.Gen.tblAt BC.Gen.cast6_S4 ((i &&& 0xff#32).setWidth 64).toNat 32)
def f3g (d m : BitVec 32) (r : BitVec 8) : BitVec 32 :=
  let i := (m - d).rotateLeft (r.setWidth 32).toNat
  (((BC.Gen.tblAt BC.Gen.cast6_S1 ((i >>> 24).setWidth 64).toNat 32) + (BC.Gen.tblAt BC.Gen.cast6_S2 (((i >>> 16) &&& 0xff#32).setWidth 64).toNat 32)) ^^^ (BC.Gen.tblAt BC.Gen.cast6_S3 (((i >>> 8) &&& 0xff#32).setWidth 64).toNat 32)) - (BC.Gen.tblAt BC.Gen.cast6_S4 ((i &&& 0xff#32).setWidth 64).toNat 32)

theorem f1g_eq (d m : BitVec 32) (r : BitVec 8) : f1g d m r = f1 d m r := by
  simp only [f1g, f1, idx, rot, s1, s2, s3, s4]
theorem f2g_eq (d m : BitVec 32) (r : BitVec 8) : f2g d m r = f2 d m r := by
  simp only [f2g, f2, idx, rot, s1, s2, s3, s4]
theorem f3g_eq (d m : BitVec 32) (r : BitVec 8) : f3g d m r = f3 d m r := by
  simp only [f3g, f3, idx, rot, s1, s2, s3, s4]

/-! ### block words, key material, quad-rounds -/

/-- `to_u32s::<4>(block)[j]` in the translator's block convention -/
def w0 (b : BitVec 128) : BitVec 32 :=
  (b.extractLsb' 120 8) ++ (b.extractLsb' 112 8) ++ (b.extractLsb' 104 8) ++ (b.extractLsb' 96 8)
def w1 (b : BitVec 128) : BitVec 32 :=
  (b.extractLsb' 88 8) ++ (b.extractLsb' 80 8) ++ (b.extractLsb' 72 8) ++ (b.extractLsb' 64 8)
def w2 (b : BitVec 128) : BitVec 32 :=
  (b.extractLsb' 56 8) ++ (b.extractLsb' 48 8) ++ (b.extractLsb' 40 8) ++ (b.extractLsb' 32 8)
def w3 (b : BitVec 128) : BitVec 32 :=
  (b.extractLsb' 24 8) ++ (b.extractLsb' 16 8) ++ (b.extractLsb' 8 8) ++ (b.extractLsb' 0 8)

theorem read_bytes (b : BitVec 128) : quadOfBits b = ⟨w0 b, w1 b, w2 b, w3 b⟩ := by
  simp only [quadOfBits, w0, w1, w2, w3, Quad.mk.injEq]
  refine ⟨?_, ?_, ?_, ?_⟩ <;> bv_decide

/-- `to_u8s::<16>(&beta)` -/
theorem out_bytes (a b c d : BitVec 32) :
    (a.extractLsb' 24 8) ++ (a.extractLsb' 16 8) ++ (a.extractLsb' 8 8) ++ (a.extractLsb' 0 8) ++
      (b.extractLsb' 24 8) ++ (b.extractLsb' 16 8) ++ (b.extractLsb' 8 8) ++ (b.extractLsb' 0 8) ++
      (c.extractLsb' 24 8) ++ (c.extractLsb' 16 8) ++ (c.extractLsb' 8 8) ++ (c.extractLsb' 0 8) ++
      (d.extractLsb' 24 8) ++ (d.extractLsb' 16 8) ++ (d.extractLsb' 8 8) ++ (d.extractLsb' 0 8) =
    bitsOfQuad ⟨a, b, c, d⟩ := by
  simp only [bitsOfQuad]
  bv_decide

/-- the struct `Cast6 { masking: [[u32; 4]; 12], rotate: [[u8; 4]; 12] }` with explicit elements -/
def mk (MS : BitVec 32)
    (RS : BitVec 8) : Cast6 :=
  { masking := KM,
    rotate := KR }

theorem fq (a b c d m0 m1 m2 m3 : BitVec 32) (r0 r1 r2 r3 : BitVec 8) :
    forwardQuad ⟨a, b, c, d⟩ ⟨m0, m1, m2, m3⟩ ⟨r0, r1, r2, r3⟩ =
      ⟨a ^^^ f3 (b ^^^ f2 (c ^^^ f1 d m0 r0) m1 r1) m2 r2, b ^^^ f2 (c ^^^ f1 d m0 r0) m1 r1, c ^^^ f1 d m0 r0,
       d ^^^ f1 (a ^^^ f3 (b ^^^ f2 (c ^^^ f1 d m0 r0) m1 r1) m2 r2) m3 r3⟩ := rfl
theorem rq (a b c d m0 m1 m2 m3 : BitVec 32) (r0 r1 r2 r3 : BitVec 8) :
    reverseQuad ⟨a, b, c, d⟩ ⟨m0, m1, m2, m3⟩ ⟨r0, r1, r2, r3⟩ =
      ⟨a ^^^ f3 b m2 r2, b ^^^ f2 c m1 r1, c ^^^ f1 (d ^^^ f1 a m3 r3) m0 r0, d ^^^ f1 a m3 r3⟩ := rfl

theorem enc_unfold (MS : BitVec 32)
    (RS : BitVec 8) (x : Quad) :
    encryptQuad (mk MS
      RS) x =
    ENCCHAIN := rfl
theorem dec_unfold (MS : BitVec 32)
    (RS : BitVec 8) (x : Quad) :
    decryptQuad (mk MS
      RS) x =
    DECCHAIN := rfl
'''
hdr=hdr.replace('ENCCHAIN',chain(encseq)).replace('DECCHAIN',chain(decseq)).replace('KM',KM).replace('KR',KR).replace('MS',MS).replace('RS',RS)
out=[hdr]
def wname(e):
    mm=re.fullmatch(r"\(\(block\.extractLsb' (\d+) 8\) \+\+ \(block\.extractLsb' \d+ 8\) \+\+ \(block\.extractLsb' \d+ 8\) \+\+ \(block\.extractLsb' \d+ 8\)\)",e)
    if mm: return {'120':'w0 block','88':'w1 block','56':'w2 block','24':'w3 block'}[mm.group(1)]
    assert re.fullmatch(r'\w+',e),e
    return e
for m in re.finditer(r'def cast6_(encrypt|decrypt)_block ((?:\(\w+ : BitVec \d+\) )+): BitVec 128 :=\n((?:  .*\n)+)',src):
    dirn,body=m.group(1),m.group(3)
    fn=f'cast6_{dirn}_block'
    params=[p for p,_ in re.findall(r'\((\w+) : BitVec (\d+)\)',m.group(2))]
    PM=[f'self_masking{q}{j}' for q in range(12) for j in range(4)]; PR=[f'self_rotate{q}{j}' for q in range(12) for j in range(4)]
    assert params==PM+PR+['block']
    lets=re.findall(r'^  let (\w+) := (.*)$',body,re.M)
    steps=[]
    for k in range(0,len(lets),2):
        iv,ie=lets[k]; v,e=lets[k+1]
        mm=re.fullmatch(r'\((self_masking\d+) (\+|\^\^\^|-) (.*)\)\.rotateLeft \((self_rotate\d+)\.setWidth 32\)\.toNat',ie)
        assert mm, ie
        assert mm.group(1)[len('self_masking'):]==mm.group(4)[len('self_rotate'):]
        op={'+':1,'^^^':2,'-':3}[mm.group(2)]
        inp=wname(mm.group(3))
        prev=wname(re.match(r'(.*?) \^\^\^ \(\(\(\(BC',e).group(1))
        steps.append((v,prev,op,inp,mm.group(1),mm.group(4)))
    assert len(steps)==48
    L=[]
    PMs=' '.join(PM); PRs=' '.join(PR)
    L.append(f"/-- `{fn}` (regenerated `Cast6::{dirn}_block`) is the model's `{dirn}`, for all keys and blocks -/")
    L.append(f'theorem {fn}_eq ({PMs} : BitVec 32)')
    L.append(f'    ({PRs} : BitVec 8) (block : BitVec 128) :')
    L.append(f'    {fn} {PMs}')
    L.append(f'      {PRs} block =')
    L.append(f'    {dirn} (mk {PMs}')
    L.append(f'      {PRs}) block := by')
    L.append(f'  unfold {fn}')
    L.append('  extract_lets -merge')
    L.append('  name_lets')
    for i,(v,prev,op,inp,mn,rn) in enumerate(steps):
        pin=f'({inp})' if ' ' in inp else inp
        L.append(f'  have h{i} : {v} = {prev} ^^^ f{op} {pin} {mn} {rn} := (f{op}g_eq {pin} {mn} {rn}) ▸ rfl')
    st={'a':'w0 block','b':'w1 block','c':'w2 block','d':'w3 block'}
    for q in range(12):
        g=steps[4*q:4*q+4]
        letters=[re.match(r'[abcd]',v).group(0) for v,*_ in g]
        qi=g[0][4][len('self_masking'):-1]
        if letters==['c','b','a','d']: kind='forward'; order=[0,1,2,3]
        elif letters==['d','a','b','c']: kind='reverse'; order=[0,3,1,2]
        else: raise Exception(letters)
        # check keys: row qi, element index by position
        exp_j={'forward':[0,1,2,3],'reverse':[3,2,1,0]}[kind]
        for (v,prev,op,inp,mn,rn),j in zip(g,exp_j): assert mn==f'self_masking{qi}{j}',(mn,qi,j)
        for (v,prev,op,inp,mn,rn),l in zip(g,letters): assert prev==st[l],(prev,st[l])
        new=dict(st)
        for (v,*_),l in zip(g,letters): new[l]=v
        kmq='⟨'+', '.join(f'self_masking{qi}{j}' for j in range(4))+'⟩'
        krq='⟨'+', '.join(f'self_rotate{qi}{j}' for j in range(4))+'⟩'
        L.append(f'  have Q{q} : {kind}Quad ⟨{st["a"]}, {st["b"]}, {st["c"]}, {st["d"]}⟩ {kmq} {krq} = ⟨{new["a"]}, {new["b"]}, {new["c"]}, {new["d"]}⟩ := by')
        L.append(f'    rw [{"fq" if kind=="forward" else "rq"}, '+', '.join(f'← h{4*q+o}' for o in order)+']')
        st=new
    short={'encrypt':'enc','decrypt':'dec'}[dirn]
    L.append(f'  rw [out_bytes, {dirn}, {short}_unfold, read_bytes, '+', '.join(f'Q{q}' for q in range(12))+']')
    out.append('\n'.join(L)+'\n')
out.append('end BC.GenCipher.Cast6\n')
open('/tmp/dev/w_tieB/out/GenCipherCast6.lean','w').write('\n'.join(out))
