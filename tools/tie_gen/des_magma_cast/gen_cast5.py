import re
src=open('/tmp/dev/lib/BlockCiphers/Gen/Cipher_Cast5.lean').read()
ms=' '.join(f'm{i}' for i in range(16)); rs=' '.join(f'r{i}' for i in range(16))
hdr=r'''import Lean
import BlockCiphers.Gen.Cipher_Cast5
import BlockCiphers.Impl.Cast5
import BlockCiphers.Proofs.GenTables
import Std.Tactic.BVDecide
/-
Tie of the regenerated `Cast5::encrypt_block` / `decrypt_block` (`Gen/Cipher_Cast5.lean`; the translator emits one pair for
`small_key = false` (16 rounds, `cast5_16r_*`) and one for `small_key = true` (12 rounds, `cast5_12r_*`)) to the model
`Impl/Cast5.lean`, for ALL masking / rotate keys and ALL blocks.

* `tbl_eq`: a look-up `tblAt cast5_Sj n 32` in the regenerated table is the model's `Consts.Sj[n]!` (from the list
  equalities `cast5_Sj_eq` of `Proofs/GenTables.lean`);
* `f1g/f2g/f3g` are the inlined `f1!/f2!/f3!` of the generated text, `f?g_eq` ties them to the model's `f1/f2/f3`
  (only index normalisation `(x.setWidth 64).toNat = x.toNat`, no bit-blasting: the rounds are ARX);
* per function: `extract_lets`, each `r_{i+1}` is recognised (`rfl`) as `r_{i-1} ^^^ f?g r_i m rot`, and the model's
  unrolled rounds are rewritten one at a time onto the generated variables.
This file is produced by `tools/gen_cast5.py` from the generated text (it refers to the `let` names of
`Gen/Cipher_Cast5.lean`): after a re-translation re-run the script, then check the file with `lean`.
-/
namespace BC.GenCipher.Cast5
open BC.Gen.Fn BC.Cast5
set_option maxRecDepth 100000

open Lean Elab Tactic Meta in
/-- make the (hygienic) names of the local `let` variables introduced by `extract_lets` accessible -/
elab "name_lets" : tactic => do
  liftMetaTactic fun g => g.withContext do
    let mut lctx ← getLCtx
    for d in lctx do
      if d.isLet then lctx := lctx.setUserName d.fvarId d.userName.eraseMacroScopes
    let g' ← mkFreshExprMVarAt lctx (← getLocalInstances) (← g.getType) .syntheticOpaque (← g.getTag)
    g.assign g'
    return [g'.mvarId!]

/-! ### tables and indices -/

/-- a look-up in a regenerated `[u32; N]` table that equals (as a list of numbers) a model table is the model's
`a[n]!`, for every index (both give 0 out of range) -/
theorem tbl_eq (t : Array Nat) (a : Array (BitVec 32)) (h : t.toList = BC.GenTables.nats32 a) (n : Nat) :
    BC.Gen.tblAt t n 32 = a[n]! := by
  have h1 := congrArg (fun l => l[n]?) h
  simp only [BC.GenTables.nats32, List.getElem?_map, Array.getElem?_toList] at h1
  unfold BC.Gen.tblAt
  rw [Array.getD_eq_getD_getElem?, h1, getElem!_def]
  cases a[n]? with
  | none => rfl
  | some v => simp

theorem s1 (n : Nat) : BC.Gen.tblAt BC.Gen.cast5_S1 n 32 = Consts.S1[n]! := tbl_eq _ _ BC.GenTables.cast5_S1_eq n
theorem s2 (n : Nat) : BC.Gen.tblAt BC.Gen.cast5_S2 n 32 = Consts.S2[n]! := tbl_eq _ _ BC.GenTables.cast5_S2_eq n
theorem s3 (n : Nat) : BC.Gen.tblAt BC.Gen.cast5_S3 n 32 = Consts.S3[n]! := tbl_eq _ _ BC.GenTables.cast5_S3_eq n
theorem s4 (n : Nat) : BC.Gen.tblAt BC.Gen.cast5_S4 n 32 = Consts.S4[n]! := tbl_eq _ _ BC.GenTables.cast5_S4_eq n

/-- `x as usize` of a `u32` -/
theorem idx (x : BitVec 32) : (x.setWidth 64).toNat = x.toNat := by
  rw [BitVec.toNat_setWidth]; have := x.isLt; omega
/-- `u32::from(rot)` of a `u8` -/
theorem rot (x : BitVec 8) : (x.setWidth 32).toNat = x.toNat := by
  rw [BitVec.toNat_setWidth]; have := x.isLt; omega

/-! ### the inlined `f1!`, `f2!`, `f3!` -/

def f1g (d m : BitVec 32) (r : BitVec 8) : BitVec 32 :=
  let i := (m + d).rotateLeft (r.setWidth 32).toNat
  (((BC.Gen.tblAt BC.Gen.cast5_S1 ((i >>> 24).setWidth 64).toNat 32) ^^^ (BC.Gen.tblAt BC.Gen.cast5_S2 (((i >>> 16) &&& 0xff#32).setWidth 64).toNat 32)) - (BC.Gen.tblAt BC.Gen.cast5_S3 (((i >>> 8) &&& 0xff#32).setWidth 64).toNat 32)) + (BC.Gen.tblAt BC.Gen.cast5_S4 ((i &&& 0xff#32).setWidth 64).toNat 32)
def f2g (d m : BitVec 32) (r : BitVec 8) : BitVec 32 :=
  let i := (m ^^^ d).rotateLeft (r.setWidth 32).toNat
  (((BC.Gen.tblAt BC.Gen.cast5_S1 ((i >>> 24).setWidth 64).toNat 32) - (BC.Gen.tblAt BC.Gen.cast5_S2 (((i >>> 16) &&& 0xff#32).setWidth 64).toNat 32)) + (BC.Gen.tblAt BC.Gen.cast5_S3 (((i >>> 8) &&& 0xff#32).setWidth 64).toNat 32)) ^^^ (BC.Gen.tblAt BC.Gen.cast5_S4 ((i &&& 0xff#32).setWidth 64).toNat 32)
def f3g (d m : BitVec 32) (r : BitVec 8) : BitVec 32 :=
  let i := (m - d).rotateLeft (r.setWidth 32).toNat
  (((BC.Gen.tblAt BC.Gen.cast5_S1 ((i >>> 24).setWidth 64).toNat 32) + (BC.Gen.tblAt BC.Gen.cast5_S2 (((i >>> 16) &&& 0xff#32).setWidth 64).toNat 32)) ^^^ (BC.Gen.tblAt BC.Gen.cast5_S3 (((i >>> 8) &&& 0xff#32).setWidth 64).toNat 32)) - (BC.Gen.tblAt BC.Gen.cast5_S4 ((i &&& 0xff#32).setWidth 64).toNat 32)

theorem f1g_eq (d m : BitVec 32) (r : BitVec 8) : f1g d m r = f1 d m r := by
  simp only [f1g, f1, s1, s2, s3, s4, idx, rot]
theorem f2g_eq (d m : BitVec 32) (r : BitVec 8) : f2g d m r = f2 d m r := by
  simp only [f2g, f2, s1, s2, s3, s4, idx, rot]
theorem f3g_eq (d m : BitVec 32) (r : BitVec 8) : f3g d m r = f3 d m r := by
  simp only [f3g, f3, s1, s2, s3, s4, idx, rot]

/-! ### block bytes, key material, rounds -/

def hi4 (b : BitVec 64) : BitVec 32 :=
  (b.extractLsb' 56 8) ++ (b.extractLsb' 48 8) ++ (b.extractLsb' 40 8) ++ (b.extractLsb' 32 8)
def lo4 (b : BitVec 64) : BitVec 32 :=
  (b.extractLsb' 24 8) ++ (b.extractLsb' 16 8) ++ (b.extractLsb' 8 8) ++ (b.extractLsb' 0 8)

theorem read_bytes (b : BitVec 64) : readBlock b = { l := hi4 b, r := lo4 b } := by
  simp only [readBlock, hi4, lo4, LR.mk.injEq]
  constructor <;> bv_decide

theorem out_bytes (x y : BitVec 32) :
    (x.extractLsb' 24 8) ++ (x.extractLsb' 16 8) ++ (x.extractLsb' 8 8) ++ (x.extractLsb' 0 8) ++
      (y.extractLsb' 24 8) ++ (y.extractLsb' 16 8) ++ (y.extractLsb' 8 8) ++ (y.extractLsb' 0 8) = x ++ y := by
  bv_decide

/-- the struct `Cast5 { masking, rotate, small_key }` with explicit elements -/
def mk (MS : BitVec 32) (RS : BitVec 8) (sk : Bool) : Keys :=
  { masking := #[MLIST], rotate := #[RLIST], small_key := sk }

theorem r1 (m : BitVec 32) (rot : BitVec 8) (x y : BitVec 32) : round1 m rot ⟨x, y⟩ = ⟨y, x ^^^ f1 y m rot⟩ := rfl
theorem r2 (m : BitVec 32) (rot : BitVec 8) (x y : BitVec 32) : round2 m rot ⟨x, y⟩ = ⟨y, x ^^^ f2 y m rot⟩ := rfl
theorem r3 (m : BitVec 32) (rot : BitVec 8) (x y : BitVec 32) : round3 m rot ⟨x, y⟩ = ⟨y, x ^^^ f3 y m rot⟩ := rfl

theorem enc16 (MS : BitVec 32) (RS : BitVec 8) (x : LR) : encRounds (mk MS RS false) x =
    round1 m15 r15 (round3 m14 r14 (round2 m13 r13 (round1 m12 r12 (round3 m11 r11 (round2 m10 r10 (round1 m9 r9
    (round3 m8 r8 (round2 m7 r7 (round1 m6 r6 (round3 m5 r5 (round2 m4 r4 (round1 m3 r3 (round3 m2 r2 (round2 m1 r1
    (round1 m0 r0 x))))))))))))))) := rfl
theorem enc12 (MS : BitVec 32) (RS : BitVec 8) (x : LR) : encRounds (mk MS RS true) x =
    round3 m11 r11 (round2 m10 r10 (round1 m9 r9
    (round3 m8 r8 (round2 m7 r7 (round1 m6 r6 (round3 m5 r5 (round2 m4 r4 (round1 m3 r3 (round3 m2 r2 (round2 m1 r1
    (round1 m0 r0 x))))))))))) := rfl
theorem dec16 (MS : BitVec 32) (RS : BitVec 8) (x : LR) : decRounds (mk MS RS false) x =
    round1 m0 r0 (round2 m1 r1 (round3 m2 r2 (round1 m3 r3 (round2 m4 r4 (round3 m5 r5 (round1 m6 r6 (round2 m7 r7
    (round3 m8 r8 (round1 m9 r9 (round2 m10 r10 (round3 m11 r11 (round1 m12 r12 (round2 m13 r13 (round3 m14 r14
    (round1 m15 r15 x))))))))))))))) := rfl
theorem dec12 (MS : BitVec 32) (RS : BitVec 8) (x : LR) : decRounds (mk MS RS true) x =
    round1 m0 r0 (round2 m1 r1 (round3 m2 r2 (round1 m3 r3 (round2 m4 r4 (round3 m5 r5 (round1 m6 r6 (round2 m7 r7
    (round3 m8 r8 (round1 m9 r9 (round2 m10 r10 (round3 m11 r11 x))))))))))) := rfl
'''
hdr=hdr.replace('MLIST',', '.join(f'm{i}' for i in range(16))).replace('RLIST',', '.join(f'r{i}' for i in range(16))).replace('MS',ms).replace('RS',rs)
out=[hdr]
for m in re.finditer(r'def cast5_(16r|12r)_(encrypt|decrypt)_block ((?:\(\w+ : BitVec \d+\) )+): BitVec 64 :=\n((?:  .*\n)+)',src):
    var,dirn,body=m.group(1),m.group(2),m.group(4)
    fn=f'cast5_{var}_{dirn}_block'
    params=re.findall(r'\((\w+) : BitVec (\d+)\)',m.group(3))
    assert [p for p,_ in params]==[f'self_masking{i}' for i in range(16)]+[f'self_rotate{i}' for i in range(16)]+['block']
    lets=re.findall(r'^  let (\w+) := (.*)$',body,re.M)
    assert lets[0][0]=='l' and lets[1][0]=='r'
    rounds=[]
    k=2
    while k<len(lets):
        iv,ie=lets[k]; rv,re_=lets[k+1]
        mm=re.fullmatch(r'\(self_masking(\d+) (\+|\^\^\^|-) (\w+)\)\.rotateLeft \(self_rotate(\d+)\.setWidth 32\)\.toNat',ie)
        assert mm and mm.group(1)==mm.group(4), ie
        j=int(mm.group(1)); op={'+':1,'^^^':2,'-':3}[mm.group(2)]; inp=mm.group(3)
        prev=re.match(r'(\w+) \^\^\^ \(',re_).group(1)
        rounds.append((rv,prev,inp,j,op))
        k+=2
    n=len(rounds); assert n==int(var[:-1])
    sk='false' if n==16 else 'true'
    MSs=' '.join(f'self_masking{i}' for i in range(16)); RSs=' '.join(f'self_rotate{i}' for i in range(16))
    L=[]
    L.append(f"/-- `{fn}` (regenerated `Cast5::{dirn}_block`, `small_key = {sk}`) is the model's `{dirn}`, for all keys and blocks -/")
    L.append(f'theorem {fn}_eq ({MSs} : BitVec 32)')
    L.append(f'    ({RSs} : BitVec 8) (block : BitVec 64) :')
    L.append(f'    {fn} {MSs}')
    L.append(f'      {RSs} block =')
    L.append(f'    {dirn} (mk {MSs}')
    L.append(f'      {RSs} {sk}) block := by')
    L.append(f'  unfold {fn}')
    L.append('  extract_lets -merge')
    L.append('  name_lets')
    L.append('  have hl : readBlock block = { l := l, r := r } := read_bytes block')
    for i,(rv,prev,inp,j,op) in enumerate(rounds):
        L.append(f'  have h{i} : {rv} = {prev} ^^^ f{op} {inp} self_masking{j} self_rotate{j} := (f{op}g_eq {inp} self_masking{j} self_rotate{j}) ▸ rfl')
    for i,(rv,prev,inp,j,op) in enumerate(rounds):
        L.append(f'  have R{i} : round{op} self_masking{j} self_rotate{j} ⟨{prev}, {inp}⟩ = ⟨{inp}, {rv}⟩ := by rw [r{op}, ← h{i}]')
    short={'encrypt':'enc','decrypt':'dec'}[dirn]
    L.append(f'  rw [out_bytes, {dirn}, {short}{n}, hl, '+', '.join(f'R{i}' for i in range(n))+']')
    L.append('  rfl')
    out.append('\n'.join(L)+'\n')
out.append('end BC.GenCipher.Cast5\n')
open('/tmp/dev/w_tieB/out/GenCipherCast5.lean','w').write('\n'.join(out))
