#!/usr/bin/env python3
"""writes Proofs/GenCipherBlowfish.lean (tie of Gen/Cipher_Blowfish.lean to Impl/Blowfish.lean)"""
import sys, re
GEN = open(sys.argv[2]).read()

def lets(fn):
    """names assigned to l / r in the body of the generated def, in order"""
    body = GEN.split(f"def {fn} ")[1].split("\n\n")[0]
    L = re.findall(r"^  let (l(?:_\d+)?) :=", body, re.M)
    R = re.findall(r"^  let (r(?:_\d+)?) :=", body, re.M)
    return L, R

def unrolled_proof(fn, pairs, l0, r0, skip):
    """extract_lets proof: step k maps the (l, r) names before it to those after it"""
    L, R = lets(fn)
    L, R = [l0] + L[skip:], [r0] + R[skip:]
    out = f"  unfold {fn}\n  extract_lets -merge\n  name_lets\n"
    for k, (a, b) in enumerate(pairs):
        out += f"  have h{k} : stepG s p{a} p{b} ⟨{L[2*k]}, {R[2*k]}⟩ = ⟨{L[2*k+2]}, {R[2*k+2]}⟩ := rfl\n"
    out += "  rw [" + ", ".join(f"h{k}" for k in range(len(pairs))) + "]\n  all_goals rfl\n"
    return out
P = " ".join(f"p{i}" for i in range(18))
PB = f"({P} : BitVec 32)"
S = "(s : Array (BitVec 32))"
def comp(order):
    t = "x"
    for (a, b) in order:
        t = f"stepG s p{a} p{b} ({t})"
    return t
enc_pairs = [(2 * i, 2 * i + 1) for i in range(8)]
dec_pairs = [(2 * i + 1, 2 * i) for i in range(8, 0, -1)]
out = f"""import Lean
import BlockCiphers.Gen.Cipher_Blowfish
import BlockCiphers.Impl.Blowfish
import Std.Tactic.BVDecide
/-
Tie of the regenerated functions of the `blowfish` crate (`Gen/Cipher_Blowfish.lean`: `Blowfish::round_function`, the inherent
`encrypt` / `decrypt` on `[u32; 2]`, `bc_encrypt` (bcrypt feature), and `encrypt_block` / `decrypt_block` of `Blowfish<BE>` and
`Blowfish<LE>`) to the model `Impl/Blowfish.lean`, for ALL states — the 18 words of `self.p` as explicit arguments, the four
S-boxes `self.s : [[u32; 256]; 4]` as ONE `Array (BitVec 32)` in memory order (the convention of the model's `State.s`) —
and ALL blocks.  Nothing is bit-blasted except the byte loads/stores: the rounds are ARX with data-dependent table reads.

 * `rfg` is the text of the inlined `round_function`; `rfg_eq`: it is the model's `round_function` (index normalisation only);
 * `stepG` is one pass of the loop body in the shape of the generated text; `encRound_i` / `decRound_i`: the model's loop body
   for the literal `i` is `stepG` with the literal `p` words;
 * `*_unrolled`: the generated definitions ARE the eight nested `stepG` (by `rfl`: unfolding of `let`s only).
Produced by `tools/gen_blowfish_tie.py`.
-/
namespace BC.GenCipher.Blowfish
open BC.Gen.Fn BC.Blowfish
set_option maxRecDepth 100000

open Lean Elab Tactic Meta in
/-- make the (hygienic) names of the local `let` variables introduced by `extract_lets` accessible -/
elab "name_lets" : tactic => do
  liftMetaTactic fun g => g.withContext do
    let mut lctx ← getLCtx
    for d in lctx do
      if d.isLet then lctx := lctx.setUserName d.fvarId d.userName.eraseMacroScopes
    let g' ← mkFreshExprMVarAt lctx (← getLocalInstances) (← g.getType) .syntheticOpaque (← g.getTag)
    g.assign g'
    return [g'.mvarId!]

/-- the state `Blowfish {{ s, p }}` with explicit `p` words -/
def mkSt {S} {PB} : State := {{ p := #[{", ".join(f"p{i}" for i in range(18))}], s := s }}

/-- `x as usize` of a `u32` -/
theorem idx (x : BitVec 32) : (x.setWidth 64).toNat = x.toNat := by
  rw [BitVec.toNat_setWidth]; have := x.isLt; omega

/-- the inlined `round_function` of the generated text -/
def rfg {S} (x : BitVec 32) : BitVec 32 :=
  let a := s[((x >>> 24).setWidth 64).toNat]!
  let b := s[256 + (((x >>> 16) &&& 0xff#32).setWidth 64).toNat]!
  let c := s[512 + (((x >>> 8) &&& 0xff#32).setWidth 64).toNat]!
  let d := s[768 + ((x &&& 0xff#32).setWidth 64).toNat]!
  ((a + b) ^^^ c) + d

theorem rfg_eq (st : State) (x : BitVec 32) : rfg st.s x = round_function st x := by
  simp only [rfg, round_function, sIdx, idx, Nat.mul_zero, Nat.zero_add, Nat.mul_one]

/-- `blowfish_round_function` (regenerated `Blowfish::round_function`) is the model's `round_function`, for all states and words -/
theorem blowfish_round_function_eq {S} {PB} (x : BitVec 32) :
    blowfish_round_function s {P} x = round_function (mkSt s {P}) x :=
  rfg_eq (mkSt s {P}) x

/-- one pass of the loop body of `encrypt` / `decrypt`, in the shape of the generated text -/
def stepG {S} (pa pb : BitVec 32) (x : LR) : LR :=
  let l := x.l ^^^ pa
  let r := x.r ^^^ rfg s l
  let r := r ^^^ pb
  let l := l ^^^ rfg s r
  {{ l := l, r := r }}

"""
for i in range(8):
    out += f"theorem encRound_{i} {S} {PB} (x : LR) : encRound (mkSt s {P}) x {i} = stepG s p{2*i} p{2*i+1} x := by\n  simp only [encRound, stepG, ← rfg_eq]; rfl\n"
for i in range(1, 9):
    out += f"theorem decRound_{i} {S} {PB} (x : LR) : decRound (mkSt s {P}) x {i} = stepG s p{2*i+1} p{2*i} x := by\n  simp only [decRound, stepG, ← rfg_eq]; rfl\n"
out += f"""
theorem encrypt_unrolled {S} {PB} (x : LR) : encrypt (mkSt s {P}) x =
    (let y := {comp(enc_pairs)}
     {{ l := y.r ^^^ p17, r := y.l ^^^ p16 }}) := by
  simp only [encrypt, List.range, List.range.loop, List.foldl, {", ".join(f"encRound_{i}" for i in range(8))}]
  rfl

theorem decrypt_unrolled {S} {PB} (x : LR) : decrypt (mkSt s {P}) x =
    (let y := {comp(dec_pairs)}
     {{ l := y.r ^^^ p0, r := y.l ^^^ p1 }}) := by
  have h : (List.range' 1 8).reverse = [8, 7, 6, 5, 4, 3, 2, 1] := by decide
  simp only [decrypt, h, List.foldl, {", ".join(f"decRound_{i}" for i in range(1, 9))}]
  rfl

theorem gen_encrypt_unrolled {S} {PB} (l0 r0 : BitVec 32) : blowfish_encrypt s {P} l0 r0 =
    (fun y : LR => (y.r ^^^ p17, y.l ^^^ p16)) ({comp(enc_pairs).replace("(x)", "⟨l0, r0⟩")}) := by
{unrolled_proof("blowfish_encrypt", enc_pairs, "l0", "r0", 0)}

theorem gen_decrypt_unrolled {S} {PB} (l0 r0 : BitVec 32) : blowfish_decrypt s {P} l0 r0 =
    (fun y : LR => (y.r ^^^ p0, y.l ^^^ p1)) ({comp(dec_pairs).replace("(x)", "⟨l0, r0⟩")}) := by
{unrolled_proof("blowfish_decrypt", dec_pairs, "l0", "r0", 0)}

/-- `blowfish_encrypt` (regenerated inherent `Blowfish::encrypt` on `[u32; 2]`) is the model's `encrypt`, for all states and inputs -/
theorem blowfish_encrypt_eq {S} {PB} (l r : BitVec 32) :
    blowfish_encrypt s {P} l r =
      ((encrypt (mkSt s {P}) {{ l := l, r := r }}).l, (encrypt (mkSt s {P}) {{ l := l, r := r }}).r) := by
  rw [gen_encrypt_unrolled, encrypt_unrolled]

/-- `blowfish_decrypt` (regenerated inherent `Blowfish::decrypt`) is the model's `decrypt` -/
theorem blowfish_decrypt_eq {S} {PB} (l r : BitVec 32) :
    blowfish_decrypt s {P} l r =
      ((decrypt (mkSt s {P}) {{ l := l, r := r }}).l, (decrypt (mkSt s {P}) {{ l := l, r := r }}).r) := by
  rw [gen_decrypt_unrolled, decrypt_unrolled]

/-- `blowfish_bc_encrypt` (regenerated `Blowfish::<BE>::bc_encrypt`, bcrypt feature) is the model's `bc_encrypt` -/
theorem blowfish_bc_encrypt_eq {S} {PB} (l r : BitVec 32) :
    blowfish_bc_encrypt s {P} l r =
      ((bc_encrypt (mkSt s {P}) {{ l := l, r := r }}).l, (bc_encrypt (mkSt s {P}) {{ l := l, r := r }}).r) :=
  blowfish_encrypt_eq s {P} l r

/-! ### block interface -/

def hi4 (b : BitVec 64) : BitVec 32 :=
  (b.extractLsb' 56 8) ++ (b.extractLsb' 48 8) ++ (b.extractLsb' 40 8) ++ (b.extractLsb' 32 8)
def lo4 (b : BitVec 64) : BitVec 32 :=
  (b.extractLsb' 24 8) ++ (b.extractLsb' 16 8) ++ (b.extractLsb' 8 8) ++ (b.extractLsb' 0 8)
def hi4le (b : BitVec 64) : BitVec 32 :=
  (b.extractLsb' 32 8) ++ (b.extractLsb' 40 8) ++ (b.extractLsb' 48 8) ++ (b.extractLsb' 56 8)
def lo4le (b : BitVec 64) : BitVec 32 :=
  (b.extractLsb' 0 8) ++ (b.extractLsb' 8 8) ++ (b.extractLsb' 16 8) ++ (b.extractLsb' 24 8)

theorem read_be (b : BitVec 64) : readBlock .BE b = {{ l := hi4 b, r := lo4 b }} := by
  simp only [readBlock, wordIO, hi4, lo4, LR.mk.injEq]
  constructor <;> bv_decide
theorem read_le (b : BitVec 64) : readBlock .LE b = {{ l := hi4le b, r := lo4le b }} := by
  simp only [readBlock, wordIO, bswap32, hi4le, lo4le, LR.mk.injEq]
  constructor <;> bv_decide
theorem write_be (x : LR) : writeBlock .BE x =
    (x.l.extractLsb' 24 8) ++ (x.l.extractLsb' 16 8) ++ (x.l.extractLsb' 8 8) ++ (x.l.extractLsb' 0 8) ++
      (x.r.extractLsb' 24 8) ++ (x.r.extractLsb' 16 8) ++ (x.r.extractLsb' 8 8) ++ (x.r.extractLsb' 0 8) := by
  simp only [writeBlock, wordIO]
  bv_decide
theorem write_le (x : LR) : writeBlock .LE x =
    (x.l.extractLsb' 0 8) ++ (x.l.extractLsb' 8 8) ++ (x.l.extractLsb' 16 8) ++ (x.l.extractLsb' 24 8) ++
      (x.r.extractLsb' 0 8) ++ (x.r.extractLsb' 8 8) ++ (x.r.extractLsb' 16 8) ++ (x.r.extractLsb' 24 8) := by
  simp only [writeBlock, wordIO, bswap32]
  bv_decide
"""
for bo, BO, hi, lo, wr in (("be", ".BE", "hi4", "lo4", ("24", "16", "8", "0")), ("le", ".LE", "hi4le", "lo4le", ("0", "8", "16", "24"))):
    for d, pairs, fa, fb in (("encrypt", enc_pairs, "p17", "p16"), ("decrypt", dec_pairs, "p0", "p1")):
        wl = " ++ ".join(f"(z.l.extractLsb' {k} 8)" for k in wr)
        wrr = " ++ ".join(f"(z.r.extractLsb' {k} 8)" for k in wr)
        out += f"""
theorem gen_{bo}_{d}_block_unrolled {S} {PB} (block : BitVec 64) : blowfish_{bo}_{d}_block s {P} block =
    (fun y : LR => (fun z : LR => {wl} ++ {wrr}) {{ l := y.r ^^^ {fa}, r := y.l ^^^ {fb} }})
      ({comp(pairs).replace("(x)", f"⟨{hi} block, {lo} block⟩")}) := by
{unrolled_proof(f"blowfish_{bo}_{d}_block", pairs, f"{hi} block", f"{lo} block", 1)}

/-- `blowfish_{bo}_{d}_block` (regenerated `Blowfish<{bo.upper()}>::{d}_block`) is the model's `{d}Block {BO}`, for all states and blocks -/
theorem blowfish_{bo}_{d}_block_eq {S} {PB} (block : BitVec 64) :
    blowfish_{bo}_{d}_block s {P} block = {d}Block {BO} (mkSt s {P}) block := by
  rw [gen_{bo}_{d}_block_unrolled, {d}Block, read_{bo}, {d}_unrolled, write_{bo}]
"""
out += "\nend BC.GenCipher.Blowfish\n"
open(sys.argv[1], "w").write(out)
