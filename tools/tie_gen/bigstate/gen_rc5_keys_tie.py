#!/usr/bin/env python3
"""writes Proofs/GenKeysRc5.lean (tie of Gen/Keys_Rc5.lean to Impl/Rc5.lean); usage: gen_rc5_keys_tie.py OUT Gen/Keys_Rc5.lean
The proof script names the `let` variables of the generated text: the naming of the translator (`fresh`) is replayed here for
the straight-line key expansion, and checked against the result tuple of the generated definitions."""
import sys, re
GEN = open(sys.argv[2]).read()
INST = [(32, 12, 16), (16, 16, 8), (64, 24, 24), (8, 12, 4)]
PQ = {8: (0xb7, 0x9f), 16: (0xb7e1, 0x9e37), 32: (0xb7e15163, 0x9e3779b9), 64: (0xb7e151628aed2a6b, 0x9e3779b97f4a7c15)}


def body(fn):
    return GEN.split(f"def {fn} ")[1].split("\n\n")[0]


class Names:
    def __init__(self):
        self.n = {}

    def fresh(self, base):
        k = self.n.get(base, 0)
        self.n[base] = k + 1
        return base if k == 0 else f"{base}_{k}"


def lit(x, w):
    return x if isinstance(x, str) else f"{x:#x}#{w}"


def replay(w, r, b, S, L, nm, kiw):
    """replays the naming of key_into_words (if kiw) and mix_in; returns (L0 after kiw, [states])"""
    u, M = w // 8, (1 << w) - 1
    isc = lambda x: isinstance(x, int)

    def add(x, y):
        return (x + y) & M if isc(x) and isc(y) else nm.fresh("wrapping_add_r")

    def rotl(x, n):
        if isc(x) and isc(n):
            k = n % w
            return ((x << k) | (x >> (w - k))) & M if k else x
        return nm.fresh("rotate_left_r")
    kst = []
    if kiw:
        L = [0] * ((b + u - 1) // u)
        kst.append(list(L))
        for i in range(b - 1, -1, -1):
            j = i // u
            rotl(L[j], 8)
            L[j] = nm.fresh("key_as_words")
            kst.append(list(L))
    L0 = list(L)
    S, L = list(S), list(L)
    i = j = 0
    a = bb = 0
    states = [(list(S), list(L), i, j, a, bb)]
    for _ in range(3 * max(len(L), len(S))):
        S[i] = rotl(add(add(S[i], a), bb), 3)
        a = S[i]
        t = add(add(L[j], a), bb)
        L[j] = rotl(t, add(a, bb))
        bb = L[j]
        i, j = (i + 1) % len(S), (j + 1) % len(L)
        states.append((list(S), list(L), i, j, a, bb))
    return L0, states, kst


def kiw_steps(w, b, kst):
    """`have hL : keyIntoWords w b (unpackBE b key) = #[…]`, one `rfl` per byte of the key"""
    arr = lambda L: "#[" + ", ".join(lit(x, w) for x in L) + "]"
    out = f"  have g0 : keyIntoWords {w} {b} (unpackBE {b} key) = kiwLoop {w} (unpackBE {b} key) {b} {arr(kst[0])} := rfl\n"
    for k in range(b):
        out += (f"  have g{k+1} : keyIntoWords {w} {b} (unpackBE {b} key) = kiwLoop {w} (unpackBE {b} key) {b-k-1} {arr(kst[k+1])} := by\n"
                f"    rw [g{k}]; exact kiwLoop_step {w} (unpackBE {b} key) {b-k-1} {arr(kst[k])} {arr(kst[k+1])} rfl\n  clear g{k}\n")
    out += f"  have hL : keyIntoWords {w} {b} (unpackBE {b} key) = {arr(kst[-1])} := g{b}\n"
    return out


def kiw_proof(w, r, b):
    nm = Names()
    _, _, kst = replay(w, r, b, [0] * (2 * (r + 1)), None, nm, True)
    return kiw_steps(w, b, kst)


def st(s, w):
    S, L, i, j, a, b = s
    return (f"({{ S := #[{', '.join(lit(x, w) for x in S)}], L := #[{', '.join(lit(x, w) for x in L)}], i := {i}, j := {j}, "
            f"a := {lit(a, w)}, b := {lit(b, w)} }} : MixSt {w})")


out = """import Lean
import BlockCiphers.Gen.Keys_Rc5
import BlockCiphers.Impl.Rc5
/-
Tie of the regenerated key expansion of the `rc5` crate (`Gen/Keys_Rc5.lean`: `RC5::new`, `substitute_key`,
`key_into_words`, `initialize_expanded_key_table`, `mix_in` for `RC5<u32, U12, U16>`, `RC5<u16, U16, U8>`,
`RC5<u64, U24, U24>`, `RC5<u8, U12, U4>`) to the model `BC.Rc5.substituteKey`, `keyIntoWords`, `initTable`, `mixIn` of
`Impl/Rc5.lean`, for ALL keys (resp. all key tables / key words for `mix_in`).  The key expansion is ARX with data-dependent
rotations: nothing is bit-blasted.  Per function: `extract_lets`; `keyIntoWords` of the unpacked key and `initTable` are the
arrays of the generated variables / folded constants (`rfl`); each of the 3·max(t, c) iterations of `mix_in` is ONE `rfl`
(`mixStep` of the literal state of the generated variables = the next literal state); the iterations are chained with
`iter_succ'`.
Produced by `tools/gen_rc5_keys_tie.py` (it replays the `let` naming of the translator and checks it against the result tuple
of `Gen/Keys_Rc5.lean`).
-/
namespace BC.GenKeys.Rc5
open BC BC.Rc5 BC.Gen.Fn
set_option maxRecDepth 100000

open Lean Elab Tactic Meta in
/-- make the (hygienic) names of the local `let` variables introduced by `extract_lets` accessible -/
elab "name_lets" : tactic => do
  liftMetaTactic fun g => g.withContext do
    let mut lctx ← getLCtx
    for d in lctx do
      if d.isLet then lctx := lctx.setUserName d.fvarId d.userName.eraseMacroScopes
    let g' ← mkFreshExprMVarAt lctx (← getLocalInstances) (← g.getType) .syntheticOpaque (← g.getTag)
    g.assign g'
    return [g'.mvarId!]

/-- one iteration of `mix_in` on a literal state: every component of the next state separately (`rfl` each; the index
updates by `simp`: `%` of literals) -/
theorem mixStep_lit {w : Nat} (s : MixSt w) (S' L' : Array (BitVec w)) (i' j' : Nat) (a' b' : BitVec w)
    (hS : s.S.setIfInBounds s.i (rotlW (s.S.getD s.i 0 + s.a + s.b) (BitVec.ofNat w 3)) = S')
    (ha : S'.getD s.i 0 = a')
    (hL : s.L.setIfInBounds s.j (rotlW (s.L.getD s.j 0 + a' + s.b) (a' + s.b)) = L')
    (hb : L'.getD s.j 0 = b')
    (hi : (s.i + 1) % S'.size = i') (hj : (s.j + 1) % L'.size = j') :
    mixStep s = { S := S', L := L', i := i', j := j', a := a', b := b' } := by
  subst hS ha hL hb hi hj; rfl

/-- one iteration of the loop of `key_into_words` -/
theorem kiwLoop_step (w : Nat) (key : Bytes) (i : Nat) (L L' : Array (BitVec w))
    (h : L.setIfInBounds (i / wordBytes w) ((L.getD (i / wordBytes w) 0).rotateLeft 8 + (key.getD i 0).setWidth w) = L') :
    kiwLoop w key (i + 1) L = kiwLoop w key i L' := by
  subst h; rfl

"""
for w, r, b in INST:
    pre = f"rc5_{w}_{r}_{b}"
    u, t = w // 8, 2 * (r + 1)
    c = (b + u - 1) // u
    P, Q = PQ[w]
    S0 = [(P + i * Q) & ((1 << w) - 1) for i in range(t)]
    tupT = " × ".join([f"BitVec {w}"] * t)
    tupC = " × ".join([f"BitVec {w}"] * c)
    xs = [f"x{i}" for i in range(t)]
    ys = [f"x{i}" for i in range(c)]
    out += f"""/-! ### {pre}: `RC5<u{w}, U{r}, U{b}>` ({t} key-table words, {c} key words, {3 * max(t, c)} mixing iterations) -/

/-- the result tuple of the regenerated functions as the model's array -/
def {pre}_tbl (t : {tupT}) : Array (BitVec {w}) :=
  match t with
  | ({", ".join(xs)}) => #[{", ".join(xs)}]
def {pre}_kw (t : {tupC}) : Array (BitVec {w}) :=
  match t with
  | ({", ".join(ys)}) => #[{", ".join(ys)}]

/-- `{pre}_key_into_words` (regenerated `RC5::key_into_words`) is the model's `keyIntoWords` -/
theorem {pre}_key_into_words_eq (key : BitVec {8*b}) :
    {pre}_kw ({pre}_key_into_words key) = keyIntoWords {w} {b} (unpackBE {b} key) := by
  unfold {pre}_key_into_words
  extract_lets -merge
  name_lets
{kiw_proof(w, r, b)}  rw [hL]
  rfl

/-- `{pre}_initialize_expanded_key_table` (regenerated) is the model's `initTable` -/
theorem {pre}_initialize_expanded_key_table_eq :
    {pre}_tbl {pre}_initialize_expanded_key_table = initTable {w} {r} := by decide +kernel

"""
    for fn, mode in (("mix_in", "mix"), ("substitute_key", "key"), ("new", "key")):
        nm = Names()
        if mode == "mix":
            S = [f"key_table{i}" for i in range(t)]
            L = [f"key_as_words{i}" for i in range(c)]
            L0, states, kst = replay(w, r, b, S, L, nm, False)
        else:
            L0, states, kst = replay(w, r, b, S0, None, nm, True)
        final = states[-1][0]
        res = body(f"{pre}_{fn}").strip().splitlines()[-1].strip()
        assert res == "(" + ", ".join(lit(x, w) for x in final) + ")", (pre, fn, res[:200], final[:5])
        N = len(states) - 1
        if mode == "mix":
            args = " ".join(S + L)
            binder = f"({args} : BitVec {w})"
            stmt = f"{pre}_tbl ({pre}_mix_in {args}) = mixIn #[{', '.join(S)}] #[{', '.join(L)}]"
            doc = f"`{pre}_mix_in` (regenerated `RC5::mix_in`) is the model's `mixIn`, for all key tables and key words"
        else:
            binder = f"(key : BitVec {8*b})"
            stmt = f"{pre}_tbl ({pre}_{fn} key) = substituteKey {w} {r} {b} (unpackBE {b} key)"
            doc = f"`{pre}_{fn}` (regenerated `RC5::{fn}`" + (", the field `key_table` of the constructed cipher" if fn == "new" else "") + ") is the model's `substituteKey`, for all keys"
        out += f"/-- {doc} -/\ntheorem {pre}_{fn}_eq {binder} :\n    {stmt} := by\n"
        out += f"  unfold {pre}_{fn}\n  extract_lets -merge\n  name_lets\n"
        s0 = st(states[0], w)
        if mode == "key":
            out += kiw_steps(w, b, kst)
            out += f"  have hS : initTable {w} {r} = #[{', '.join(lit(x, w) for x in S0)}] := by decide +kernel\n"
            out += f"  have hM : mixIn #[{', '.join(lit(x, w) for x in S0)}] #[{', '.join(L0)}] = (iter mixStep {N} {s0}).S := rfl\n"
        else:
            out += f"  have hM : mixIn #[{', '.join(S)}] #[{', '.join(L)}] = (iter mixStep {N} {s0}).S := rfl\n"
        out += f"  have e0 : iter mixStep 0 {s0} = {s0} := rfl\n"
        for k in range(N):
            S1, L1, i1, j1, a1, b1 = states[k + 1]
            arr = lambda A: "#[" + ", ".join(lit(x, w) for x in A) + "]"
            out += (f"  have e{k+1} : iter mixStep {k+1} {s0} = {st(states[k+1], w)} := by\n    rw [iter_succ', e{k}]\n"
                    f"    exact mixStep_lit {st(states[k], w)} {arr(S1)} {arr(L1)} {i1} {j1} {lit(a1, w)} {lit(b1, w)} rfl rfl rfl rfl (by simp) (by simp)\n")
            out += f"  clear e{k}\n"
        if mode == "key":
            out += f"  rw [substituteKey, hL, hS, hM, e{N}]\n  rfl\n\n"
        else:
            out += f"  rw [hM, e{N}]\n  rfl\n\n"
out += "end BC.GenKeys.Rc5\n"
open(sys.argv[1], "w").write(out)
