#!/usr/bin/env python3
"""writes Proofs/GenKeysRc5.lean (tie of Gen/Keys_Rc5.lean to Impl/Rc5.lean, all keys); usage: gen_rc5_keys_tie.py OUT
Independent of the text of Gen/Keys_Rc5.lean (no `let` names, no folded constants are replayed): only the names and
arities of the regenerated functions are used."""
import sys
INST = [(32, 12, 16), (16, 16, 8), (64, 24, 24), (8, 12, 4)]

out = """import Lean
import BlockCiphers.Gen.Keys_Rc5
import BlockCiphers.Impl.Rc5
/-
Tie of the regenerated key expansion of the `rc5` crate (`Gen/Keys_Rc5.lean`: `RC5::new`, `substitute_key`,
`key_into_words`, `initialize_expanded_key_table`, `mix_in` for `RC5<u32, U12, U16>`, `RC5<u16, U16, U8>`,
`RC5<u64, U24, U24>`, `RC5<u8, U12, U4>`) to the model `BC.Rc5.substituteKey`, `keyIntoWords`, `initTable`, `mixIn` of
`Impl/Rc5.lean`, for ALL keys (resp. all key tables / key words for `mix_in`).

The key expansion is ARX with data-dependent rotations: nothing is bit-blasted.  Every equation below whose proof is
`kernel_rfl` holds BY COMPUTATION (both sides reduce to the same term: the model's loops over literal arrays of
variables unfold to exactly the straight-line text of the regenerated function) and is checked by the Lean KERNEL's
definitional-equality test: the tactic `kernel_rfl` closes `a = b` with the term `@rfl _ a` WITHOUT asking the elaborator's
(much slower, transparency-limited) unifier first; the kernel then type-checks the declaration, i.e. decides `a ≡ b`
(a wrong statement is rejected: "(kernel) declaration type mismatch").  Nothing is assumed (it is to `rfl` what
`decide +kernel` is to `decide`).

Per instantiation:
  * `_mix_in_eq`            : regenerated `mix_in` = `mixIn`, for ALL key tables and ALL key words      (kernel_rfl)
  * `_key_into_words_eq`    : regenerated `key_into_words` = `keyIntoWords` of the unpacked key, all keys (kernel_rfl)
  * `_initialize_expanded_key_table_eq` : = `initTable`                                                 (decide +kernel)
  * `_substitute_key_unfold`, `_new_unfold` : the regenerated `substitute_key` / `new` (calls inlined and constants folded
    by the translator) are the regenerated `mix_in` applied to the regenerated `initialize_expanded_key_table` and
    `key_into_words`                                                                                     (kernel_rfl)
  * `_substitute_key_eq`, `_new_eq` : = `substituteKey w r b (unpackBE b key)` for all keys — composition of the above
    (no computation).
(A direct `kernel_rfl` of `_new_eq` works for u8 and u16 only: with 32/64-bit words the kernel runs into a unary recursion on
a folded 32-bit constant; the route through the generic `_mix_in_eq` avoids comparing folded constants with model terms.)
Produced by `tools/tie_gen/bigstate/gen_rc5_keys_tie.py`.
-/
namespace BC.GenKeys.Rc5
open BC BC.Rc5 BC.Gen.Fn
set_option maxRecDepth 100000

open Lean Elab Tactic Meta in
/-- close `a = b` by `@rfl _ a`, the definitional equality `a ≡ b` being checked by the kernel only -/
elab "kernel_rfl" : tactic => do
  let g ← getMainGoal
  let t ← instantiateMVars (← g.getType)
  let some (_, lhs, _) := t.eq? | throwError "kernel_rfl: not an equality"
  g.assign (← mkEqRefl lhs)

"""
for w, r, b in INST:
    pre = f"rc5_{w}_{r}_{b}"
    u, t = w // 8, 2 * (r + 1)
    c = (b + u - 1) // u
    tupT = " × ".join([f"BitVec {w}"] * t)
    tupC = " × ".join([f"BitVec {w}"] * c)
    xs = [f"x{i}" for i in range(t)]
    ys = [f"y{i}" for i in range(c)]
    S = [f"s{i}" for i in range(t)]
    L = [f"l{i}" for i in range(c)]
    out += f"""/-! ### {pre}: `RC5<u{w}, U{r}, U{b}>` ({t} key-table words, {c} key words, {3 * max(t, c)} mixing iterations) -/

/-- the result tuple of the regenerated functions as the model's array -/
def {pre}_tbl (t : {tupT}) : Array (BitVec {w}) :=
  match t with
  | ({", ".join(xs)}) => #[{", ".join(xs)}]
def {pre}_kw (t : {tupC}) : Array (BitVec {w}) :=
  match t with
  | ({", ".join(ys)}) => #[{", ".join(ys)}]

/-- the regenerated `mix_in` on tuples -/
def {pre}_mix_in_t (S : {tupT}) (L : {tupC}) : {tupT} :=
  match S, L with
  | ({", ".join(xs)}), ({", ".join(ys)}) => {pre}_mix_in {" ".join(xs + ys)}

/-- `{pre}_mix_in` (regenerated `RC5::mix_in`) is the model's `mixIn`, for all key tables and key words -/
theorem {pre}_mix_in_eq ({" ".join(S + L)} : BitVec {w}) :
    {pre}_tbl ({pre}_mix_in {" ".join(S + L)}) = mixIn #[{", ".join(S)}] #[{", ".join(L)}] := by
  kernel_rfl

theorem {pre}_mix_in_t_eq (S : {tupT}) (L : {tupC}) :
    {pre}_tbl ({pre}_mix_in_t S L) = mixIn ({pre}_tbl S) ({pre}_kw L) := by
  obtain ⟨{", ".join(S)}⟩ := S
  obtain ⟨{", ".join(L)}⟩ := L
  exact {pre}_mix_in_eq {" ".join(S + L)}

/-- `{pre}_key_into_words` (regenerated `RC5::key_into_words`) is the model's `keyIntoWords`, for all keys -/
theorem {pre}_key_into_words_eq (key : BitVec {8*b}) :
    {pre}_kw ({pre}_key_into_words key) = keyIntoWords {w} {b} (unpackBE {b} key) := by
  kernel_rfl

/-- `{pre}_initialize_expanded_key_table` (regenerated) is the model's `initTable` -/
theorem {pre}_initialize_expanded_key_table_eq :
    {pre}_tbl {pre}_initialize_expanded_key_table = initTable {w} {r} := by decide +kernel

/-- the regenerated `substitute_key` (calls inlined, constants folded) is the regenerated `mix_in` of the regenerated
`initialize_expanded_key_table` and `key_into_words` -/
theorem {pre}_substitute_key_unfold (key : BitVec {8*b}) :
    {pre}_substitute_key key = {pre}_mix_in_t {pre}_initialize_expanded_key_table ({pre}_key_into_words key) := by
  kernel_rfl

/-- likewise `RC5::new` (`Self {{ key_table: Self::substitute_key(key) }}`) -/
theorem {pre}_new_unfold (key : BitVec {8*b}) :
    {pre}_new key = {pre}_mix_in_t {pre}_initialize_expanded_key_table ({pre}_key_into_words key) := by
  kernel_rfl

/-- `{pre}_substitute_key` (regenerated `RC5::substitute_key`) is the model's `substituteKey`, for all keys -/
theorem {pre}_substitute_key_eq (key : BitVec {8*b}) :
    {pre}_tbl ({pre}_substitute_key key) = substituteKey {w} {r} {b} (unpackBE {b} key) := by
  rw [{pre}_substitute_key_unfold, {pre}_mix_in_t_eq, {pre}_initialize_expanded_key_table_eq,
    {pre}_key_into_words_eq, substituteKey]

/-- `{pre}_new` (regenerated `RC5::new`, the field `key_table` of the constructed cipher) is the model's
`substituteKey`, for all keys -/
theorem {pre}_new_eq (key : BitVec {8*b}) :
    {pre}_tbl ({pre}_new key) = substituteKey {w} {r} {b} (unpackBE {b} key) := by
  rw [{pre}_new_unfold, {pre}_mix_in_t_eq, {pre}_initialize_expanded_key_table_eq,
    {pre}_key_into_words_eq, substituteKey]

"""
out += "end BC.GenKeys.Rc5\n"
open(sys.argv[1], "w").write(out)
