#!/usr/bin/env python3
"""writes Proofs/GenCipherRc5.lean (tie of Gen/Cipher_Rc5.lean to Impl/Rc5.lean); usage: gen_rc5_tie.py OUT Gen/Cipher_Rc5.lean"""
import sys, re
GEN = open(sys.argv[2]).read()
INST = [(32, 12, 16), (16, 16, 8), (64, 24, 24), (8, 12, 4)]


def body(fn):
    return GEN.split(f"def {fn} ")[1].split("\n\n")[0]


def names(fn, base):
    return re.findall(rf"^  let ({base}(?:_\d+)?) :=", body(fn), re.M)


out = """import Lean
import BlockCiphers.Gen.Cipher_Rc5
import BlockCiphers.Impl.Rc5
import BlockCiphers.Proofs.GenCipherSpeck
import Std.Tactic.BVDecide
/-
Tie of the regenerated `RC5<W, R, B>::encrypt_block` / `decrypt_block` (`Gen/Cipher_Rc5.lean`; the translator instantiates
`RC5<u32, U12, U16>`, `RC5<u16, U16, U8>`, `RC5<u64, U24, U24>`, `RC5<u8, U12, U4>` and resolves the `Word` trait methods to
the `impl Word for uN` of `primitives.rs`) to the model `BC.Rc5.encryptBlock` / `decryptBlock` of `Impl/Rc5.lean` (generic in
the word width and the number of rounds), for ALL expanded key tables (the 2(R+1) words of `self.key_table` as explicit
arguments) and ALL blocks.  RC5 is ARX with data-dependent rotations: nothing is bit-blasted except the byte loads/stores.

 * `rl<w>` / `rr<w>`: the text of the inlined `Word::rotate_left` / `rotate_right` of `impl Word for u<w>` (u8/u16: the amount
   cast to `u32`; u32: passed as is; u64: reduced modulo 64, then cast); `rotlW_<w>` / `rotrW_<w>`: they are the model's
   `rotlW` / `rotrW` at that width;
 * `encG` / `decG`: one round in the shape of the generated text; `*_encRound_i`: the model's round for the literal `i`;
 * `*_gen_enc` / `*_gen_dec`: the generated definitions ARE the nested `encG` / `decG` (`extract_lets`, one `rfl` per round);
 * `*_load` / `*_store`: `words_from_block` / `block_from_words` on `unpackBE` byte lists (bridging lemmas about the model).
Produced by `tools/gen_rc5_tie.py` from the generated text (it refers to the `let` names of `Gen/Cipher_Rc5.lean`).
-/
namespace BC.GenCipher.Rc5
open BC BC.Rc5 BC.Gen.Fn
set_option maxRecDepth 100000

open Lean Elab Tactic Meta in
/-- make the (hygienic) names of the local `let` variables introduced by `extract_lets` accessible -/
elab "name_lets" : tactic => do
  liftMetaTactic fun g => g.withContext do
    let mut lctx ← getLCtx
    for d in lctx do
      if d.isLet then lctx := lctx.setUserName d.fvarId d.userName.eraseMacroScopes
    let g' ← mkFreshExprMVarAt lctx (← getLocalInstances) (← g.getType) .syntheticOpaque (← g.getTag)
    g.assign g'
    return [g'.mvarId!]

/-! ### bytes ↔ words -/

theorem ofNat_foldr (w : Nat) (bs : Bytes) :
    BitVec.ofNat w (bs.foldr (fun b acc => acc * 256 + b.toNat) 0) =
      bs.foldr (fun b acc => acc * 256#w + b.setWidth w) 0#w := by
  induction bs with
  | nil => rfl
  | cons b bs ih =>
    simp only [List.foldr_cons, ← ih]
    rw [BitVec.ofNat_add, BitVec.ofNat_mul, BitVec.ofNat_toNat]

/-- `from_le_bytes` as a Horner fold in the word type -/
theorem fromLE_fold (w : Nat) (bs : Bytes) :
    fromLE w bs = bs.foldr (fun b acc => acc * 256#w + b.setWidth w) 0#w := by
  rw [fromLE, bytesToNatLE, ofNat_foldr]

/-- `to_le_bytes` is the reversed `unpackBE` -/
theorem toLE_eq {w : Nat} (x : BitVec w) : toLE x = (unpackBE (w / 8) x).reverse := by
  rw [← BC.GenCipher.Speck.toBEn_toNat, toBEn, List.reverse_reverse]; rfl

/-! ### `Word::rotate_left` / `rotate_right` of the four instantiated `impl Word` -/

def rl8 (x n : BitVec 8) : BitVec 8 := x.rotateLeft (n.setWidth 32).toNat
def rr8 (x n : BitVec 8) : BitVec 8 := x.rotateRight (n.setWidth 32).toNat
def rl16 (x n : BitVec 16) : BitVec 16 := x.rotateLeft (n.setWidth 32).toNat
def rr16 (x n : BitVec 16) : BitVec 16 := x.rotateRight (n.setWidth 32).toNat
def rl32 (x n : BitVec 32) : BitVec 32 := x.rotateLeft n.toNat
def rr32 (x n : BitVec 32) : BitVec 32 := x.rotateRight n.toNat
def rl64 (x n : BitVec 64) : BitVec 64 := x.rotateLeft ((n % 0x40#64).setWidth 32).toNat
def rr64 (x n : BitVec 64) : BitVec 64 := x.rotateRight ((n % 0x40#64).setWidth 32).toNat

theorem rotlW_8 (x n : BitVec 8) : rotlW x n = rl8 x n := by unfold rotlW rl8; rw [if_pos (by decide)]
theorem rotrW_8 (x n : BitVec 8) : rotrW x n = rr8 x n := by unfold rotrW rr8; rw [if_pos (by decide)]
theorem rotlW_16 (x n : BitVec 16) : rotlW x n = rl16 x n := by unfold rotlW rl16; rw [if_pos (by decide)]
theorem rotrW_16 (x n : BitVec 16) : rotrW x n = rr16 x n := by unfold rotrW rr16; rw [if_pos (by decide)]
theorem rotlW_32 (x n : BitVec 32) : rotlW x n = rl32 x n := by unfold rotlW rl32; rw [if_pos (by decide), BitVec.setWidth_eq]
theorem rotrW_32 (x n : BitVec 32) : rotrW x n = rr32 x n := by unfold rotrW rr32; rw [if_pos (by decide), BitVec.setWidth_eq]
theorem rotlW_64 (x n : BitVec 64) : rotlW x n = rl64 x n := by unfold rotlW rl64; rw [if_neg (by decide)]
theorem rotrW_64 (x n : BitVec 64) : rotrW x n = rr64 x n := by unfold rotrW rr64; rw [if_neg (by decide)]

/-- one round of `encrypt_block`, in the shape of the generated text -/
def encG {w : Nat} (rl : BitVec w → BitVec w → BitVec w) (ka kb : BitVec w) (s : St w) : St w :=
  let a := rl (s.a ^^^ s.b) s.b + ka
  let b := rl (s.b ^^^ a) a + kb
  { a := a, b := b }

/-- one round of `decrypt_block`, in the shape of the generated text -/
def decG {w : Nat} (rr : BitVec w → BitVec w → BitVec w) (ka kb : BitVec w) (s : St w) : St w :=
  let b := rr (s.b - kb) s.a ^^^ s.a
  let a := rr (s.a - ka) b ^^^ b
  { a := a, b := b }

"""
for w, r, kb in INST:
    pre = f"rc5_{w}_{r}_{kb}"
    u, n, t = w // 8, w // 4, 2 * (r + 1)
    K = " ".join(f"k{i}" for i in range(t))
    KB = f"({K} : BitVec {w})"
    mk = f"({pre}_key {K})"
    # generated load / store expressions
    ea = " ++ ".join(f"(block.extractLsb' {8 * (u + j)} 8)" for j in range(u))
    eb = " ++ ".join(f"(block.extractLsb' {8 * j} 8)" for j in range(u))
    eo = " ++ ".join([f"(a.extractLsb' {8 * j} 8)" for j in range(u)] + [f"(b.extractLsb' {8 * j} 8)" for j in range(u)])
    la = ", ".join(f"(block >>> {8 * (n - 1 - j)}).setWidth 8" for j in range(u))
    lb = ", ".join(f"(block >>> {8 * (n - 1 - j)}).setWidth 8" for j in range(u, n))
    sa = ", ".join([f"(s.a >>> {8 * j}).setWidth 8" for j in range(u)] + [f"(s.b >>> {8 * j}).setWidth 8" for j in range(u)])
    so = ", ".join(f"(o >>> {8 * (n - 1 - j)}).setWidth 8" for j in range(n))
    enc_nest = f"⟨a + k0, b + k1⟩"
    for i in range(1, r + 1):
        enc_nest = f"encG rl{w} k{2*i} k{2*i+1} ({enc_nest})"
    dec_nest = "⟨a, b⟩"
    for i in range(r, 0, -1):
        dec_nest = f"decG rr{w} k{2*i} k{2*i+1} ({dec_nest})"
    out += f"""/-! ### {pre}: `RC5<u{w}, U{r}, U{kb}>`, {n}-byte block, {r} rounds, {t} key-table words -/

def {pre}_key {KB} : Array (BitVec {w}) := #[{", ".join(f"k{i}" for i in range(t))}]
/-- the generated `a`, `b` (block bytes → words, little-endian) and output expression -/
def {pre}_a (block : BitVec {8*n}) : BitVec {w} := ({ea})
def {pre}_b (block : BitVec {8*n}) : BitVec {w} := ({eb})
def {pre}_out (a b : BitVec {w}) : BitVec {8*n} := {eo}

theorem {pre}_load (block : BitVec {8*n}) :
    wordsFromBlock {w} (unpackBE {n} block) = ⟨{pre}_a block, {pre}_b block⟩ := by
  have h : wordsFromBlock {w} (unpackBE {n} block) = ⟨fromLE {w} [{la}], fromLE {w} [{lb}]⟩ := rfl
  rw [h]
  simp only [fromLE_fold, List.foldr_cons, List.foldr_nil, {pre}_a, {pre}_b, St.mk.injEq]
  constructor <;> bv_decide (config := {{ timeout := 300 }})

theorem {pre}_store (s : St {w}) : blockFromWords s = unpackBE {n} ({pre}_out s.a s.b) := by
  have h2 : blockFromWords s = [{sa}] := by
    rw [blockFromWords, toLE_eq, toLE_eq]; rfl
  have h3 : ∀ o : BitVec {8*n}, unpackBE {n} o = [{so}] := fun _ => rfl
  rw [h2, h3]
  simp only [{pre}_out, List.cons.injEq, and_true]
  bv_decide (config := {{ timeout := 300 }})

"""
    for i in range(1, r + 1):
        out += f"theorem {pre}_encRound_{i} {KB} (s : St {w}) : encRound {mk} {i} s = encG rl{w} k{2*i} k{2*i+1} s := by\n  simp only [encRound, encG, rotlW_{w}]; rfl\n"
        out += f"theorem {pre}_decRound_{i} {KB} (s : St {w}) : decRound {mk} {i} s = decG rr{w} k{2*i} k{2*i+1} s := by\n  simp only [decRound, decG, rotrW_{w}]; rfl\n"
    eu, du = "s", "s"
    for i in range(1, r + 1):
        eu = f"encRound key {i} ({eu})"
    for i in range(r, 0, -1):
        du = f"decRound key {i} ({du})"
    out += f"""
theorem {pre}_encLoop (key : Array (BitVec {w})) (s : St {w}) : encLoop key {r} s = {eu} := rfl
theorem {pre}_decLoop (key : Array (BitVec {w})) (s : St {w}) : decLoop key {r} s = {du} := rfl

theorem {pre}_encryptWords {KB} (a b : BitVec {w}) : encryptWords {mk} {r} ⟨a, b⟩ =
    {enc_nest} := by
  simp only [encryptWords, {pre}_encLoop, {", ".join(f"{pre}_encRound_{i}" for i in range(1, r + 1))}]
  rfl

theorem {pre}_decryptWords {KB} (a b : BitVec {w}) : decryptWords {mk} {r} ⟨a, b⟩ =
    (fun t : St {w} => ({{ a := t.a - k0, b := t.b - k1 }} : St {w})) ({dec_nest}) := by
  simp only [decryptWords, {pre}_decLoop, {", ".join(f"{pre}_decRound_{i}" for i in range(1, r + 1))}]
  rfl

"""
    # generated side
    W = names(f"{pre}_encrypt_block", "wrapping_add_r")
    assert len(W) == t, (pre, len(W))
    proof = f"  unfold {pre}_encrypt_block\n  extract_lets -merge\n  name_lets\n"
    proof += f"  have h0 : ({{ a := {pre}_a block + k0, b := {pre}_b block + k1 }} : St {w}) = ⟨{W[0]}, {W[1]}⟩ := rfl\n"
    for i in range(1, r + 1):
        proof += f"  have h{i} : encG rl{w} k{2*i} k{2*i+1} ⟨{W[2*i-2]}, {W[2*i-1]}⟩ = ⟨{W[2*i]}, {W[2*i+1]}⟩ := rfl\n"
    proof += "  rw [" + ", ".join(f"h{i}" for i in range(r + 1)) + "]\n  all_goals rfl\n"
    gen_enc = enc_nest.replace("⟨a + k0, b + k1⟩", f"⟨{pre}_a block + k0, {pre}_b block + k1⟩")
    out += f"""theorem {pre}_gen_enc {KB} (block : BitVec {8*n}) : {pre}_encrypt_block {K} block =
    (fun y : St {w} => {pre}_out y.a y.b) ({gen_enc}) := by
{proof}
"""
    X = names(f"{pre}_decrypt_block", "bitxor_r")
    Sb = names(f"{pre}_decrypt_block", "wrapping_sub_r")
    assert len(X) == 2 * r and len(Sb) == 2 * r + 2
    proof = f"  unfold {pre}_decrypt_block\n  extract_lets -merge\n  name_lets\n"
    cur = (f"{pre}_a block", f"{pre}_b block")
    for k, i in enumerate(range(r, 0, -1)):
        nxt = (X[2 * k + 1], X[2 * k])
        proof += f"  have h{k} : decG rr{w} k{2*i} k{2*i+1} ⟨{cur[0]}, {cur[1]}⟩ = ⟨{nxt[0]}, {nxt[1]}⟩ := rfl\n"
        cur = nxt
    proof += "  rw [" + ", ".join(f"h{k}" for k in range(r)) + "]\n  all_goals rfl\n"
    gen_dec = dec_nest.replace("⟨a, b⟩", f"⟨{pre}_a block, {pre}_b block⟩")
    out += f"""theorem {pre}_gen_dec {KB} (block : BitVec {8*n}) : {pre}_decrypt_block {K} block =
    (fun y : St {w} => {pre}_out y.a y.b) ((fun t : St {w} => ({{ a := t.a - k0, b := t.b - k1 }} : St {w})) ({gen_dec})) := by
{proof}
/-- `RC5<u{w}, U{r}, U{kb}>::encrypt_block` as regenerated from the Rust source IS the model's `encryptBlock`, for all key tables and blocks -/
theorem {pre}_encrypt_block_eq {KB} (block : BitVec {8*n}) :
    unpackBE {n} ({pre}_encrypt_block {K} block) = encryptBlock {mk} {r} (unpackBE {n} block) := by
  rw [encryptBlock, {pre}_load, {pre}_encryptWords, {pre}_store, {pre}_gen_enc]

/-- `RC5<u{w}, U{r}, U{kb}>::decrypt_block` as regenerated from the Rust source IS the model's `decryptBlock` -/
theorem {pre}_decrypt_block_eq {KB} (block : BitVec {8*n}) :
    unpackBE {n} ({pre}_decrypt_block {K} block) = decryptBlock {mk} {r} (unpackBE {n} block) := by
  rw [decryptBlock, {pre}_load, {pre}_decryptWords, {pre}_store, {pre}_gen_dec]

/-- the same for an arbitrary {n}-byte block given as a byte list -/
theorem {pre}_encryptBlock_bytes {KB} (bs : Bytes) (h : bs.length = {n}) :
    encryptBlock {mk} {r} bs = unpackBE {n} ({pre}_encrypt_block {K} (packBE {n} bs)) := by
  rw [{pre}_encrypt_block_eq, BC.GenCipher.Speck.unpackBE_packBE _ _ h]
theorem {pre}_decryptBlock_bytes {KB} (bs : Bytes) (h : bs.length = {n}) :
    decryptBlock {mk} {r} bs = unpackBE {n} ({pre}_decrypt_block {K} (packBE {n} bs)) := by
  rw [{pre}_decrypt_block_eq, BC.GenCipher.Speck.unpackBE_packBE _ _ h]

"""
out += "end BC.GenCipher.Rc5\n"
open(sys.argv[1], "w").write(out)
