#!/usr/bin/env python3
"""writes Proofs/CodeBeltWide.lean; usage: gen_belt_wide_code.py OUT [lengths…]"""
import sys
OUT = sys.argv[1]
NS = [int(x) for x in sys.argv[2:]] or [32, 33, 47, 48, 64]
K = " ".join(f"k{i}" for i in range(8))
KP = ", ".join(f"k{i}" for i in range(8))
KV = "#v[" + KP + "]"
proj = ["(beltblock_new K)." + "2." * i + "1" for i in range(7)] + ["(beltblock_new K)." + "2." * 6 + "2"]
out = f"""import Std.Tactic.BVDecide
import BlockCiphers.Gen.Cipher_Belt_wide
import BlockCiphers.Gen.Keys_Belt_block
import BlockCiphers.Proofs.GenBeltWide
import BlockCiphers.Proofs.GenKeysBelt
import BlockCiphers.Proofs.BeltWide
import BlockCiphers.Proofs.BeltWideSpec
/-!
Code-level theorems for the BelT wide block (`belt_wblock_enc` / `belt_wblock_dec` of `belt-block`, STB 34.101.31 §6.2;
property C18) on data of n ∈ {{{", ".join(map(str, NS))}}} bytes: the statements mention ONLY the regenerated code
(`BC.Gen.Fn.belt_wblock_enc_<n>` / `belt_wblock_dec_<n>` of `Gen/Cipher_Belt_wide.lean`, `beltblock_new` of
`Gen/Keys_Belt_block.lean`) and the specification `BC.Spec.Belt.wblockEnc` / `wblockDec`.  Data are `BitVec (8n)`, byte 0 =
most significant byte; the regenerated functions return the buffer after the call (the `Result` is `Ok` on these lengths:
part of the tie `BC.GenCipher.BeltWide.belt_wblock_enc_<n>_eq`).
  * `dec_enc_<n>`, `enc_dec_<n>` : round trips for ALL 8 key words and all data;
  * `wenc_<n> K data` := regenerated `belt_wblock_enc_<n>` with the key words `to_u32::<8>(K)` computed by the regenerated
    `BeltBlock::new` (`beltblock_new K`); `wenc_<n>_eq_spec`, `wdec_<n>_eq_spec` : = belt-wblock of the standard with the
    32-byte key `K`; `wdec_wenc_<n>`, `wenc_wdec_<n>`.
Composition of (1) `BC.Belt.wblockDec_wblockEnc`, `wblockEnc_wblockDec` (Proofs/BeltWide.lean), `wblockEnc_eq_spec`,
`wblockDec_eq_spec` (Proofs/BeltWideSpec.lean) — Thm C18; (2) the ties of `Proofs/GenBeltWide.lean`; (3)
`BC.GenKeys.Belt.new_eq`.
Produced by `tools/tie_gen/bigstate/gen_belt_wide_code.py`.
-/
set_option maxRecDepth 100000
namespace BC.Code.BeltWide
open BC BC.Gen.Fn BC.Belt BC.GenCipher.BeltWide

/-- the key words of the model for the 32-byte key `K` are those of the regenerated `BeltBlock::new` -/
theorem toKey_eq (K : BitVec 256) : toKey K = #v[{", ".join(proj)}] :=
  congrArg BeltBlock.key (BC.GenKeys.Belt.new_eq K)

"""
for n in NS:
    out += f"""/-! ### n = {n} -/

theorem pack_unpack_{n} (x : BitVec {8*n}) : packL_{n} (unpackBE {n} x) = x := by
  rw [unpack{n}_lit]
  simp only [packL_{n}, List.getD_cons_zero, List.getD_cons_succ]
  bv_decide

theorem unpack_inj_{n} (x y : BitVec {8*n}) (h : unpackBE {n} x = unpackBE {n} y) : x = y := by
  rw [← pack_unpack_{n} x, h, pack_unpack_{n}]

/-- `belt_wblock_dec ∘ belt_wblock_enc = id` on the regenerated code: all key words, all data -/
theorem dec_enc_{n} (data : BitVec {8*n}) ({K} : BitVec 32) :
    belt_wblock_dec_{n} (belt_wblock_enc_{n} data {K}) {K} = data := by
  apply unpack_inj_{n}
  have h1 := belt_wblock_enc_{n}_eq data {K}
  have h2 := belt_wblock_dec_{n}_eq (belt_wblock_enc_{n} data {K}) {K}
  have h3 := wblockDec_wblockEnc (unpackBE {n} data) {KV} (by rw [len_{n}]; decide)
  rw [← h1] at h3
  exact (Prod.mk.inj (h2.trans h3)).2

/-- `belt_wblock_enc ∘ belt_wblock_dec = id` -/
theorem enc_dec_{n} (data : BitVec {8*n}) ({K} : BitVec 32) :
    belt_wblock_enc_{n} (belt_wblock_dec_{n} data {K}) {K} = data := by
  apply unpack_inj_{n}
  have h1 := belt_wblock_dec_{n}_eq data {K}
  have h2 := belt_wblock_enc_{n}_eq (belt_wblock_dec_{n} data {K}) {K}
  have h3 := wblockEnc_wblockDec (unpackBE {n} data) {KV} (by rw [len_{n}]; decide)
  rw [← h1] at h3
  exact (Prod.mk.inj (h2.trans h3)).2

/-- `belt_wblock_enc(data, &to_u32::<8>(K))` on the regenerated code -/
def wenc_{n} (K : BitVec 256) (data : BitVec {8*n}) : BitVec {8*n} :=
  match beltblock_new K with
  | ({KP}) => belt_wblock_enc_{n} data {K}

def wdec_{n} (K : BitVec 256) (data : BitVec {8*n}) : BitVec {8*n} :=
  match beltblock_new K with
  | ({KP}) => belt_wblock_dec_{n} data {K}

/-- bridge to the model -/
theorem wenc_{n}_eq_impl (K : BitVec 256) (data : BitVec {8*n}) :
    (WRes.ok, unpackBE {n} (wenc_{n} K data)) = wblockEnc (unpackBE {n} data) (toKey K) := by
  rw [toKey_eq]
  unfold wenc_{n}
  generalize beltblock_new K = t
  obtain ⟨{KP}⟩ := t
  exact belt_wblock_enc_{n}_eq data {K}

theorem wdec_{n}_eq_impl (K : BitVec 256) (data : BitVec {8*n}) :
    (WRes.ok, unpackBE {n} (wdec_{n} K data)) = wblockDec (unpackBE {n} data) (toKey K) := by
  rw [toKey_eq]
  unfold wdec_{n}
  generalize beltblock_new K = t
  obtain ⟨{KP}⟩ := t
  exact belt_wblock_dec_{n}_eq data {K}

/-- the regenerated `belt_wblock_enc` on {n} bytes is belt-wblock encryption of STB 34.101.31 §6.2.3, every key, all data -/
theorem wenc_{n}_eq_spec (K : BitVec 256) (data : BitVec {8*n}) :
    unpackBE {n} (wenc_{n} K data) = Spec.Belt.wblockEnc K (unpackBE {n} data) := by
  have h := wenc_{n}_eq_impl K data
  rw [wblockEnc_eq_spec K _ (by rw [len_{n}]; decide) (by rw [len_{n}]; decide)] at h
  exact (Prod.mk.inj h).2

/-- … and `belt_wblock_dec` is belt-wblock decryption (§6.2.4) -/
theorem wdec_{n}_eq_spec (K : BitVec 256) (data : BitVec {8*n}) :
    unpackBE {n} (wdec_{n} K data) = Spec.Belt.wblockDec K (unpackBE {n} data) := by
  have h := wdec_{n}_eq_impl K data
  rw [wblockDec_eq_spec K _ (by rw [len_{n}]; decide) (by rw [len_{n}]; decide)] at h
  exact (Prod.mk.inj h).2

theorem wdec_wenc_{n} (K : BitVec 256) (data : BitVec {8*n}) : wdec_{n} K (wenc_{n} K data) = data := by
  unfold wdec_{n} wenc_{n}
  generalize beltblock_new K = t
  obtain ⟨{KP}⟩ := t
  exact dec_enc_{n} data {K}

theorem wenc_wdec_{n} (K : BitVec 256) (data : BitVec {8*n}) : wenc_{n} K (wdec_{n} K data) = data := by
  unfold wdec_{n} wenc_{n}
  generalize beltblock_new K = t
  obtain ⟨{KP}⟩ := t
  exact enc_dec_{n} data {K}

"""
out += "end BC.Code.BeltWide\n"
open(OUT, "w").write(out)
