#!/usr/bin/env python3
"""writes Proofs/CodeRc5.lean; usage: gen_rc5_code.py OUT"""
import sys
INST = [(32, 12, 16), (16, 16, 8), (64, 24, 24), (8, 12, 4)]
out = """import BlockCiphers.Gen.Cipher_Rc5
import BlockCiphers.Proofs.GenCipherRc5
import BlockCiphers.Proofs.Rc5
import BlockCiphers.Proofs.Rc5Spec
/-!
Code-level theorems for RC5 (`RC5<u32, U12, U16>`, `RC5<u16, U16, U8>`, `RC5<u64, U24, U24>`, `RC5<u8, U12, U4>`): statements
mention ONLY the regenerated code (`BC.Gen.Fn.rc5_<w>_<r>_<b>_encrypt_block` / `_decrypt_block` of `Gen/Cipher_Rc5.lean`) and the
specification `BC.Spec.Rc5` (Rivest 1994).  The tie of the regenerated key expansion (`Gen/Keys_Rc5.lean`) for all keys is
open, so the theorems are stated for an ARBITRARY expanded key table (the 2(R+1) words of `self.key_table`; every table a key
can produce is an instance).  Blocks are `BitVec`s, byte 0 of the Rust array = most significant byte; the statements are on
the byte lists `unpackBE n ·` (the Spec's convention).  Composition of
  (1) `BC.Rc5.decryptBlock_encryptBlock`, `encryptBlock_decryptBlock` (Proofs/Rc5.lean; Thm C01), `encryptBlock_eq_spec`,
      `decryptBlock_eq_spec` (Proofs/Rc5Spec.lean; Thm C10),
  (2) the ties of `Proofs/GenCipherRc5.lean`.
Produced by `tools/gen_rc5_code.py`.
-/
set_option maxRecDepth 100000
namespace BC.Code.Rc5
open BC BC.Gen.Fn BC.Rc5 BC.GenCipher.Rc5

"""
for w, r, b in INST:
    pre = f"rc5_{w}_{r}_{b}"
    n, t = w // 4, 2 * (r + 1)
    K = " ".join(f"k{i}" for i in range(t))
    KB = f"({K} : BitVec {w})"
    KL = "[" + ", ".join(f"k{i}" for i in range(t)) + "]"
    out += f"""/-! ### `RC5<u{w}, U{r}, U{b}>` -/

theorem {pre}_len (x : BitVec {8*n}) : (unpackBE {n} x).length = 2 * wordBytes {w} := by simp [unpackBE, wordBytes]

/-- `decrypt_block ∘ encrypt_block = id` on the regenerated code, every key table, every block -/
theorem {pre}_dec_enc {KB} (blk : BitVec {8*n}) :
    unpackBE {n} ({pre}_decrypt_block {K} ({pre}_encrypt_block {K} blk)) = unpackBE {n} blk := by
  rw [{pre}_decrypt_block_eq, {pre}_encrypt_block_eq]
  exact decryptBlock_encryptBlock (by decide) _ _ _ ({pre}_len blk)

theorem {pre}_enc_dec {KB} (blk : BitVec {8*n}) :
    unpackBE {n} ({pre}_encrypt_block {K} ({pre}_decrypt_block {K} blk)) = unpackBE {n} blk := by
  rw [{pre}_encrypt_block_eq, {pre}_decrypt_block_eq]
  exact encryptBlock_decryptBlock (by decide) _ _ _ ({pre}_len blk)

/-- the regenerated `encrypt_block` is Rivest's RC5 encryption with the given table -/
theorem {pre}_enc_eq_spec {KB} (blk : BitVec {8*n}) :
    unpackBE {n} ({pre}_encrypt_block {K} blk) = Spec.Rc5.encryptBytes {KL} {r} (unpackBE {n} blk) := by
  rw [{pre}_encrypt_block_eq, encryptBlock_eq_spec (by decide)]; rfl

theorem {pre}_dec_eq_spec {KB} (blk : BitVec {8*n}) :
    unpackBE {n} ({pre}_decrypt_block {K} blk) = Spec.Rc5.decryptBytes {KL} {r} (unpackBE {n} blk) := by
  rw [{pre}_decrypt_block_eq, decryptBlock_eq_spec (by decide)]; rfl

"""
out += "end BC.Code.Rc5\n"
open(sys.argv[1], "w").write(out)
