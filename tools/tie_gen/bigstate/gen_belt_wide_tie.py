#!/usr/bin/env python3
"""writes Proofs/GenBeltWide.lean (all-input tie of Gen/Cipher_Belt_wide.lean to Impl/Belt.lean wblockEnc/wblockDec)
usage: gen_belt_wide_tie.py OUT Gen/Cipher_Belt_block.lean [lengths…]
The only text taken from the generated sources is the body of `beltblock_encrypt_block` between the four word loads and the
result expression (copied into `coreW`; `block_eq_core` re-checks the copy against the regenerated definition)."""
import sys, re
OUT, BLK = sys.argv[1], sys.argv[2]
NS = [int(x) for x in sys.argv[3:]] or [32, 33, 47, 48, 64]
src = open(BLK).read()
body = src.split("def beltblock_encrypt_block ")[1].split("\n\n")[0].splitlines()
sig, lines = body[0], body[1:]
exp_loads = [
    "let a := ((block.extractLsb' 96 8) ++ (block.extractLsb' 104 8) ++ (block.extractLsb' 112 8) ++ (block.extractLsb' 120 8))",
    "let b := ((block.extractLsb' 64 8) ++ (block.extractLsb' 72 8) ++ (block.extractLsb' 80 8) ++ (block.extractLsb' 88 8))",
    "let c := ((block.extractLsb' 32 8) ++ (block.extractLsb' 40 8) ++ (block.extractLsb' 48 8) ++ (block.extractLsb' 56 8))",
    "let d := ((block.extractLsb' 0 8) ++ (block.extractLsb' 8 8) ++ (block.extractLsb' 16 8) ++ (block.extractLsb' 24 8))"]
assert [l.strip() for l in lines[:4]] == exp_loads, lines[:4]
final = lines[-1].strip()
ws = re.findall(r"\((\w+)\.extractLsb' 0 8\)", final)
assert len(ws) == 4
assert final == " ++ ".join(f"({w}.extractLsb' {s} 8)" for w in ws for s in (0, 8, 16, 24)), final
core = "\n".join(lines[4:-1])
assert not re.search(r"\bblock\b", core)
K = " ".join(f"k{i}" for i in range(8))
SK = " ".join(f"self_key{i}" for i in range(8))
KV = "#v[" + ", ".join(f"k{i}" for i in range(8)) + "]"

out = f"""import Lean
import Std.Tactic.BVDecide
import BlockCiphers.Gen.Cipher_Belt_block
import BlockCiphers.Gen.Cipher_Belt_wide
import BlockCiphers.Impl.Belt
import BlockCiphers.Proofs.BeltWide
import BlockCiphers.Proofs.GenCipherBelt
import BlockCiphers.Proofs.AesNiBytes
/-
ALL-INPUT tie of the regenerated BelT wide-block functions `belt_wblock_enc_<n>` / `belt_wblock_dec_<n>`
(`Gen/Cipher_Belt_wide.lean`, data lengths n ∈ {{{", ".join(map(str, NS))}}}) to the model `BC.Belt.wblockEnc` / `wblockDec` of
`Impl/Belt.lean`: for all 8 key words and all data,
    (WRes.ok, unpackBE n (belt_wblock_enc_n data k0 … k7)) = wblockEnc (unpackBE n data) #v[k0, …, k7]        (and dec).

Route.  (1) The model's round functions are restated with two parameters made explicit (`encRoundP`, `decRoundP`):
`chunks_exact(16)` by a fuel recursion `chunks16` that the kernel can unfold (`chunksExact` is defined by well-founded
recursion; `chunksF_eq`), and the 16-byte block encryption `R : Bytes → Bytes` (`rawBytes key` in the model).  `R` is only
ever applied to 16-byte strings (`encRoundP_congr`, `decRoundP_congr`, with the buffer-length invariant through the loops),
so `R` may be replaced by any function that agrees with `rawBytes key` on 16-byte strings (`wblockEnc_eqP`, `wblockDec_eqP`).
(2) `RG k0 … k7` is such a function, written with the regenerated block cipher on WORDS: `coreW` is the text of the regenerated
`beltblock_encrypt_block` between the four word loads and the result expression (`block_eq_core`: the regenerated
`beltblock_encrypt_block` is load ∘ `coreW` ∘ store, checked by the kernel), `RG_eq` (from the block tie
`BC.GenCipher.Belt.encrypt_block_eq'` and byte-level glue by `bv_decide`).
(3) Per length: `gen_enc_n`/`gen_dec_n`: the regenerated straight-line function IS the byte-list program
`packL_n (forRange 1 (2⌈n/16⌉) (encRoundP (RG k…) 8 n) (unpackBE n data))` BY COMPUTATION (`kernel_rfl`: the equation is
closed with `@rfl _ lhs` and the definitional equality is checked by the Lean kernel when the theorem is added; a wrong
statement is rejected; nothing is assumed, nothing is bit-blasted), then `unpackBE n ∘ packL_n = id` on lists of length n.
Produced by `tools/tie_gen/bigstate/gen_belt_wide_tie.py`.
-/
namespace BC.GenCipher.BeltWide
open BC BC.Belt BC.Gen.Fn
set_option maxRecDepth 100000
set_option linter.unusedVariables false

open Lean Elab Tactic Meta in
/-- close `a = b` by `@rfl _ a`, the definitional equality `a ≡ b` being checked by the kernel only -/
elab "kernel_rfl" : tactic => do
  let g ← getMainGoal
  let t ← instantiateMVars (← g.getType)
  let some (_, lhs, _) := t.eq? | throwError "kernel_rfl: not an equality"
  g.assign (← mkEqRefl lhs)

/-! ### (1) the model's rounds with `chunks_exact` computable and the block encryption as a parameter -/

def chunksF : Nat → Bytes → List Bytes
  | 0, _ => []
  | f + 1, l => if l.length < 16 then [] else l.take 16 :: chunksF f (l.drop 16)

/-- `chunks_exact(16)` by recursion on a fuel (the length) -/
def chunks16 (l : Bytes) : List Bytes := chunksF l.length l

theorem chunksF_eq (f : Nat) (l : Bytes) (h : l.length ≤ f) : chunksExact 16 l = chunksF f l := by
  induction f generalizing l with
  | zero =>
    have : l = [] := List.length_eq_zero_iff.mp (by omega)
    subst this; rw [chunksExact]; simp [chunksF]
  | succ f ih =>
    rw [chunksExact, chunksF]
    by_cases hl : l.length < 16
    · rw [dif_pos (Or.inr hl), if_pos hl]
    · rw [dif_neg (by omega), if_neg hl, ih _ (by simp only [List.length_drop]; omega)]

theorem chunks16_eq (l : Bytes) : chunksExact 16 l = chunks16 l := chunksF_eq _ _ (Nat.le_refl _)

/-- `wblockEncRound` with the block encryption `R` as a parameter -/
def encRoundP (R : Bytes → Bytes) (ub : Nat) (len : Nat) (i : Nat) (data : Bytes) : Bytes :=
  let s := (chunks16 (slice data 0 (len - 1))).foldl xorSet zeroBlock
  let data := copyWithin data 16 len 0
  let data := setSlice data (len - 16) s
  let s := R s
  let data := modifySlice data (len - 32) (len - 16) (fun t => xorSet t s)
  let data := modifySlice data (len - 32) (len - 16) (fun t => xorSet t (usizeLE ub i))
  data

/-- `wblockDecRound` with the block encryption `R` as a parameter -/
def decRoundP (R : Bytes → Bytes) (ub : Nat) (len : Nat) (i : Nat) (data : Bytes) : Bytes :=
  let tail_pos := len - 16
  let s := slice data tail_pos len
  let data := copyWithin data 0 tail_pos 16
  let s_enc := R s
  let data := modifySlice data tail_pos len (fun t => xorSet t s_enc)
  let data := modifySlice data tail_pos len (fun t => xorSet t (usizeLE ub i))
  let r1 := ((chunks16 (slice data 0 (len - 1))).drop 1).foldl xorSet s
  setSlice data 0 r1

theorem wblockEncRound_eqP (ub : Nat) (key : Key) (len i : Nat) (data : Bytes) :
    wblockEncRound ub key len i data = encRoundP (rawBytes key) ub len i data := by
  simp only [wblockEncRound, encRoundP, chunks16_eq]

theorem wblockDecRound_eqP (ub : Nat) (key : Key) (len i : Nat) (data : Bytes) :
    wblockDecRound ub key len i data = decRoundP (rawBytes key) ub len i data := by
  simp only [wblockDecRound, decRoundP, chunks16_eq]

theorem encRoundP_congr (R1 R2 : Bytes → Bytes) (h : ∀ s, s.length = 16 → R1 s = R2 s) (ub len i : Nat) (data : Bytes) :
    encRoundP R1 ub len i data = encRoundP R2 ub len i data := by
  simp only [encRoundP]
  rw [h _ (by rw [foldl_xorSet_length]; simp [zeroBlock])]

theorem decRoundP_congr (R1 R2 : Bytes → Bytes) (h : ∀ s, s.length = 16 → R1 s = R2 s) (ub len i : Nat) (data : Bytes)
    (hl : data.length = len) (h16 : 16 ≤ len) :
    decRoundP R1 ub len i data = decRoundP R2 ub len i data := by
  simp only [decRoundP]
  rw [h _ (by simp only [slice, List.length_drop, List.length_take]; omega)]

theorem foldl_congr_inv {{α ι : Type}} (P : α → Prop) (f g : ι → α → α) (l : List ι)
    (hP : ∀ i s, P s → P (f i s)) (h : ∀ i s, P s → f i s = g i s) (s : α) (hs : P s) :
    l.foldl (fun s i => f i s) s = l.foldl (fun s i => g i s) s := by
  induction l generalizing s with
  | nil => rfl
  | cons i l ih =>
    simp only [List.foldl_cons]
    rw [← h i s hs]
    exact ih _ (hP i s hs)

/-- `belt_wblock_enc` of the model with any block encryption that agrees with `rawBytes key` on 16-byte strings -/
theorem wblockEnc_eqP (R : Bytes → Bytes) (key : Key) (hR : ∀ s, s.length = 16 → R s = rawBytes key s) (data : Bytes)
    (n : Nat) (hn : data.length = n) (h : 32 ≤ n) :
    wblockEnc data key = (.ok, forRange 1 (2 * ((n + 15) / 16)) (encRoundP R 8 n) data) := by
  subst hn
  unfold wblockEnc wblockEncU
  rw [if_neg (by omega)]
  simp only [forRange]
  congr 1
  exact foldl_congr_inv (fun s : Bytes => s.length = data.length) _ _ _
    (fun i s hs => wblockEncRound_length 8 key _ i s hs h)
    (fun i s hs => by rw [wblockEncRound_eqP]; exact encRoundP_congr _ _ (fun s hs => (hR s hs).symm) _ _ _ _) data rfl

theorem wblockDec_eqP (R : Bytes → Bytes) (key : Key) (hR : ∀ s, s.length = 16 → R s = rawBytes key s) (data : Bytes)
    (n : Nat) (hn : data.length = n) (h : 32 ≤ n) :
    wblockDec data key = (.ok, forRangeRev 1 (2 * ((n + 15) / 16)) (decRoundP R 8 n) data) := by
  subst hn
  unfold wblockDec wblockDecU
  rw [if_neg (by omega)]
  simp only [forRangeRev]
  congr 1
  exact foldl_congr_inv (fun s : Bytes => s.length = data.length) _ _ _
    (fun i s hs => wblockDecRound_length 8 key _ i s hs h)
    (fun i s hs => by
      rw [wblockDecRound_eqP]
      exact decRoundP_congr _ _ (fun s hs => (hR s hs).symm) _ _ _ _ hs (by omega)) data rfl

/-! ### (2) the regenerated block encryption on words -/

/-- the regenerated `beltblock_encrypt_block` between the four word loads and the result expression -/
def coreW ({SK} a b c d : BitVec 32) : BitVec 32 × BitVec 32 × BitVec 32 × BitVec 32 :=
{core}
  ({", ".join(ws)})

def loadA (block : BitVec 128) : BitVec 32 := ((block.extractLsb' 96 8) ++ (block.extractLsb' 104 8) ++ (block.extractLsb' 112 8) ++ (block.extractLsb' 120 8))
def loadB (block : BitVec 128) : BitVec 32 := ((block.extractLsb' 64 8) ++ (block.extractLsb' 72 8) ++ (block.extractLsb' 80 8) ++ (block.extractLsb' 88 8))
def loadC (block : BitVec 128) : BitVec 32 := ((block.extractLsb' 32 8) ++ (block.extractLsb' 40 8) ++ (block.extractLsb' 48 8) ++ (block.extractLsb' 56 8))
def loadD (block : BitVec 128) : BitVec 32 := ((block.extractLsb' 0 8) ++ (block.extractLsb' 8 8) ++ (block.extractLsb' 16 8) ++ (block.extractLsb' 24 8))
def storeW (w : BitVec 32 × BitVec 32 × BitVec 32 × BitVec 32) : BitVec 128 :=
  match w with
  | (x0, x1, x2, x3) => {" ++ ".join(f"(x{j}.extractLsb' {s} 8)" for j in range(4) for s in (0, 8, 16, 24))}
/-- the 16 result bytes `from_u32` of the four words -/
def bytesW (w : BitVec 32 × BitVec 32 × BitVec 32 × BitVec 32) : Bytes :=
  match w with
  | (x0, x1, x2, x3) => [{", ".join(f"x{j}.extractLsb' {s} 8" for j in range(4) for s in (0, 8, 16, 24))}]

/-- the copy `coreW` IS the regenerated block encryption (kernel check against `Gen/Cipher_Belt_block.lean`) -/
theorem block_eq_core ({K} : BitVec 32) (block : BitVec 128) :
    beltblock_encrypt_block {K} block = storeW (coreW {K} (loadA block) (loadB block) (loadC block) (loadD block)) := by
  kernel_rfl

/-- the block encryption of the wide-block rounds: `to_u32` of the 16 bytes, `coreW`, `from_u32` -/
def RG ({K} : BitVec 32) (s : Bytes) : Bytes :=
  bytesW (coreW {K}
    (s.getD 3 0 ++ s.getD 2 0 ++ s.getD 1 0 ++ s.getD 0 0) (s.getD 7 0 ++ s.getD 6 0 ++ s.getD 5 0 ++ s.getD 4 0)
    (s.getD 11 0 ++ s.getD 10 0 ++ s.getD 9 0 ++ s.getD 8 0) (s.getD 15 0 ++ s.getD 14 0 ++ s.getD 13 0 ++ s.getD 12 0))

theorem unpack16_lit (B : BitVec 128) : unpackBE 16 B = [{", ".join(f"(B >>> {8*(15-i)}).setWidth 8" for i in range(16))}] := rfl

theorem bytesW_eq (w : BitVec 32 × BitVec 32 × BitVec 32 × BitVec 32) : unpackBE 16 (storeW w) = bytesW w := by
  obtain ⟨x0, x1, x2, x3⟩ := w
  rw [unpack16_lit]
  simp only [storeW, bytesW, List.cons.injEq, and_true]
  refine ⟨{", ".join(["?_"]*16)}⟩ <;> bv_decide

theorem RG_unpack ({K} : BitVec 32) (B : BitVec 128) :
    RG {K} (unpackBE 16 B) = unpackBE 16 (beltblock_encrypt_block {K} B) := by
  rw [block_eq_core, bytesW_eq, RG, unpack16_lit]
  simp only [List.getD_cons_zero, List.getD_cons_succ]
  have ha : ((B >>> 96).setWidth 8 ++ (B >>> 104).setWidth 8 ++ (B >>> 112).setWidth 8 ++ (B >>> 120).setWidth 8 : BitVec 32) = loadA B := by
    unfold loadA; bv_decide
  have hb : ((B >>> 64).setWidth 8 ++ (B >>> 72).setWidth 8 ++ (B >>> 80).setWidth 8 ++ (B >>> 88).setWidth 8 : BitVec 32) = loadB B := by
    unfold loadB; bv_decide
  have hc : ((B >>> 32).setWidth 8 ++ (B >>> 40).setWidth 8 ++ (B >>> 48).setWidth 8 ++ (B >>> 56).setWidth 8 : BitVec 32) = loadC B := by
    unfold loadC; bv_decide
  have hd : ((B >>> 0).setWidth 8 ++ (B >>> 8).setWidth 8 ++ (B >>> 16).setWidth 8 ++ (B >>> 24).setWidth 8 : BitVec 32) = loadD B := by
    unfold loadD; bv_decide
  rw [ha, hb, hc, hd]

/-- `RG` is the model's block encryption on 16-byte strings -/
theorem RG_eq ({K} : BitVec 32) (s : Bytes) (hs : s.length = 16) :
    RG {K} s = rawBytes {KV} s := by
  have e := BC.AesNi.unpack_pack16 s hs
  rw [rawBytes]
  show _ = unpackBE 16 (BC.Belt.encrypt ⟨BC.GenCipher.Belt.mkKey {K}⟩ (packBE 16 s))
  rw [← BC.GenCipher.Belt.encrypt_block_eq', ← RG_unpack, e]

/-! ### packing a byte list of known length -/

theorem list_eq_getD (X : Bytes) (n : Nat) (h : X.length = n) : X = (List.range n).map (fun i => X.getD i 0) := by
  apply List.ext_getElem
  · simp [h]
  · intro i h1 h2
    simp only [List.getElem_map, List.getElem_range, List.getD_eq_getElem?_getD]
    rw [List.getElem?_eq_getElem h1]; rfl

"""
for n in NS:
    m = 2 * ((n + 15) // 16)
    gl = [f"X.getD {i} 0" for i in range(n)]
    bs = [f"b{i}" for i in range(n)]
    out += f"""/-! ### (3) n = {n} ({m} rounds) -/

def packL_{n} (X : Bytes) : BitVec {8*n} := {" ++ ".join(gl)}

theorem unpack{n}_lit (B : BitVec {8*n}) : unpackBE {n} B = [{", ".join(f"(B >>> {8*(n-1-i)}).setWidth 8" for i in range(n))}] := rfl

theorem unpack_packL_{n} (X : Bytes) (h : X.length = {n}) : unpackBE {n} (packL_{n} X) = X := by
  have e : ∀ {" ".join(bs)} : BitVec 8, unpackBE {n} ({" ++ ".join(bs)} : BitVec {8*n}) = [{", ".join(bs)}] := by
    intro {" ".join(bs)}
    rw [unpack{n}_lit]
    simp only [List.cons.injEq, and_true]
    refine ⟨{", ".join(["?_"]*n)}⟩ <;> bv_decide
  rw [packL_{n}, e]
  exact (list_eq_getD X {n} h).symm

theorem len_{n} (data : BitVec {8*n}) : (unpackBE {n} data).length = {n} := by simp [unpackBE]

/-- the regenerated `belt_wblock_enc` on {n} bytes is the byte-list program of the model's rounds, by computation -/
theorem gen_enc_{n} (data : BitVec {8*n}) ({K} : BitVec 32) :
    belt_wblock_enc_{n} data {K} = packL_{n} (forRange 1 (2 * (({n} + 15) / 16)) (encRoundP (RG {K}) 8 {n}) (unpackBE {n} data)) := by
  kernel_rfl

theorem gen_dec_{n} (data : BitVec {8*n}) ({K} : BitVec 32) :
    belt_wblock_dec_{n} data {K} = packL_{n} (forRangeRev 1 (2 * (({n} + 15) / 16)) (decRoundP (RG {K}) 8 {n}) (unpackBE {n} data)) := by
  kernel_rfl

/-- **`belt_wblock_enc` on {n} bytes**: regenerated function = model, all keys, all data -/
theorem belt_wblock_enc_{n}_eq (data : BitVec {8*n}) ({K} : BitVec 32) :
    (WRes.ok, unpackBE {n} (belt_wblock_enc_{n} data {K})) = wblockEnc (unpackBE {n} data) {KV} := by
  have hl := (wblockEncU_ok 8 (unpackBE {n} data) {KV} (by rw [len_{n}]; decide)).2
  have hE := wblockEnc_eqP (RG {K}) {KV} (RG_eq {K}) (unpackBE {n} data) {n} (len_{n} data) (by decide)
  rw [gen_enc_{n}, hE]
  change (wblockEnc (unpackBE {n} data) {KV}).2.length = _ at hl
  rw [hE, len_{n}] at hl
  rw [unpack_packL_{n} _ hl]

/-- **`belt_wblock_dec` on {n} bytes** -/
theorem belt_wblock_dec_{n}_eq (data : BitVec {8*n}) ({K} : BitVec 32) :
    (WRes.ok, unpackBE {n} (belt_wblock_dec_{n} data {K})) = wblockDec (unpackBE {n} data) {KV} := by
  have hl := (wblockDecU_ok 8 (unpackBE {n} data) {KV} (by rw [len_{n}]; decide)).2
  have hE := wblockDec_eqP (RG {K}) {KV} (RG_eq {K}) (unpackBE {n} data) {n} (len_{n} data) (by decide)
  rw [gen_dec_{n}, hE]
  change (wblockDec (unpackBE {n} data) {KV}).2.length = _ at hl
  rw [hE, len_{n}] at hl
  rw [unpack_packL_{n} _ hl]

"""
out += "end BC.GenCipher.BeltWide\n"
open(OUT, "w").write(out)
