#!/usr/bin/env python3
"""writes Proofs/CodeRc5Keyed.lean; usage: gen_rc5_code_keyed.py OUT"""
import sys
INST = [(32, 12, 16), (16, 16, 8), (64, 24, 24), (8, 12, 4)]
PQ = {8: (0xb7, 0x9f), 16: (0xb7e1, 0x9e37), 32: (0xb7e15163, 0x9e3779b9), 64: (0xb7e151628aed2a6b, 0x9e3779b97f4a7c15)}
out = """import Std.Tactic.BVDecide
import BlockCiphers.Gen.Cipher_Rc5
import BlockCiphers.Gen.Keys_Rc5
import BlockCiphers.Proofs.GenCipherRc5
import BlockCiphers.Proofs.GenKeysRc5
import BlockCiphers.Proofs.Rc5
import BlockCiphers.Proofs.Rc5Spec
/-!
Code-level theorems for RC5 WITH the key expansion (`RC5<u32, U12, U16>`, `RC5<u16, U16, U8>`, `RC5<u64, U24, U24>`,
`RC5<u8, U12, U4>`), for ALL keys and ALL blocks: the statements mention ONLY the regenerated code
(`BC.Gen.Fn.rc5_<w>_<r>_<b>_new` of `Gen/Keys_Rc5.lean`, `…_encrypt_block` / `…_decrypt_block` of `Gen/Cipher_Rc5.lean`) and
the specification `BC.Spec.Rc5` (Rivest 1994: `expand`, `encryptBytes`, `decryptBytes`, `IsP`, `IsQ`).
  `<pre>_enc key blk` := regenerated `encrypt_block` on the fields of the cipher constructed by the regenerated `new key`.
Keys and blocks are `BitVec`s, byte 0 of the Rust array = most significant byte; the Spec works on byte lists (`unpackBE n ·`).
Composition of
  (1) `BC.Rc5.decryptBlock_encryptBlock`, `encryptBlock_decryptBlock` (Proofs/Rc5.lean; Thm C01), `rc5_computes_spec`
      (Proofs/Rc5Spec.lean; Thm C10),
  (2) the enc/dec ties of `Proofs/GenCipherRc5.lean`,
  (3) the key-expansion ties of `Proofs/GenKeysRc5.lean` (`…_new_eq`, all keys).
Produced by `tools/tie_gen/bigstate/gen_rc5_code_keyed.py`.
-/
set_option maxRecDepth 100000
namespace BC.Code.Rc5Keyed
open BC BC.Gen.Fn BC.Rc5 BC.GenCipher.Rc5 BC.GenKeys.Rc5

"""
for w, r, b in INST:
    pre = f"rc5_{w}_{r}_{b}"
    u, t = w // 8, 2 * (r + 1)
    n = 2 * u
    P, Q = PQ[w]
    ks = [f"k{i}" for i in range(t)]
    pat, args = ", ".join(ks), " ".join(ks)
    bytes_ = ", ".join(f"(x >>> {8*(n-1-i)}).setWidth 8" for i in range(n))
    hs = ", ".join(f"h{i}" for i in range(n))
    spec_key = f"(Spec.Rc5.expand {r} {b} {P:#x}#{w} {Q:#x}#{w} (unpackBE {b} key))"
    out += f"""/-! ### `RC5<u{w}, U{r}, U{b}>` ({b}-byte key, {n}-byte block) -/

/-- `RC5::new(key).encrypt_block(blk)` on the regenerated code -/
def {pre}_enc (key : BitVec {8*b}) (blk : BitVec {8*n}) : BitVec {8*n} :=
  match {pre}_new key with
  | ({pat}) => {pre}_encrypt_block {args} blk

/-- `RC5::new(key).decrypt_block(blk)` on the regenerated code -/
def {pre}_dec (key : BitVec {8*b}) (blk : BitVec {8*n}) : BitVec {8*n} :=
  match {pre}_new key with
  | ({pat}) => {pre}_decrypt_block {args} blk

theorem {pre}_len (x : BitVec {8*n}) : (unpackBE {n} x).length = 2 * wordBytes {w} := by simp [unpackBE, wordBytes]
theorem {pre}_keylen (x : BitVec {8*b}) : (unpackBE {b} x).length = {b} := by simp [unpackBE]

theorem {pre}_unpack_inj (x y : BitVec {8*n}) (h : unpackBE {n} x = unpackBE {n} y) : x = y := by
  have hl : ∀ x : BitVec {8*n}, unpackBE {n} x = [{bytes_}] := fun _ => rfl
  rw [hl x, hl y] at h
  simp only [List.cons.injEq, and_true] at h
  obtain ⟨{hs}⟩ := h
  bv_decide

/-- bridge: the keyed regenerated encryption is the model's (`Impl/Rc5.lean`) -/
theorem {pre}_enc_eq_impl (key : BitVec {8*b}) (blk : BitVec {8*n}) :
    unpackBE {n} ({pre}_enc key blk) = encryptBlock (substituteKey {w} {r} {b} (unpackBE {b} key)) {r} (unpackBE {n} blk) := by
  rw [← {pre}_new_eq key]
  unfold {pre}_enc
  generalize {pre}_new key = t
  obtain ⟨{pat}⟩ := t
  exact {pre}_encrypt_block_eq {args} blk

theorem {pre}_dec_eq_impl (key : BitVec {8*b}) (blk : BitVec {8*n}) :
    unpackBE {n} ({pre}_dec key blk) = decryptBlock (substituteKey {w} {r} {b} (unpackBE {b} key)) {r} (unpackBE {n} blk) := by
  rw [← {pre}_new_eq key]
  unfold {pre}_dec
  generalize {pre}_new key = t
  obtain ⟨{pat}⟩ := t
  exact {pre}_decrypt_block_eq {args} blk

/-- `decrypt_block ∘ encrypt_block = id` on the regenerated code, every key, every block -/
theorem {pre}_dec_enc (key : BitVec {8*b}) (blk : BitVec {8*n}) : {pre}_dec key ({pre}_enc key blk) = blk := by
  apply {pre}_unpack_inj
  rw [{pre}_dec_eq_impl, {pre}_enc_eq_impl]
  exact decryptBlock_encryptBlock (by decide) _ _ _ ({pre}_len blk)

/-- `encrypt_block ∘ decrypt_block = id` on the regenerated code, every key, every block -/
theorem {pre}_enc_dec (key : BitVec {8*b}) (blk : BitVec {8*n}) : {pre}_enc key ({pre}_dec key blk) = blk := by
  apply {pre}_unpack_inj
  rw [{pre}_enc_eq_impl, {pre}_dec_eq_impl]
  exact encryptBlock_decryptBlock (by decide) _ _ _ ({pre}_len blk)

/-- the magic constants `P_w`, `Q_w` in the statements below are Rivest's `Odd((e−2)·2^w)`, `Odd((φ−1)·2^w)` -/
theorem {pre}_consts : Spec.Rc5.IsP {w} {P:#x} ∧ Spec.Rc5.IsQ {w} {Q:#x} :=
  consts_spec {w} (by simp [widths])

/-- the regenerated `new` computes Rivest's expanded key table `S[0..2r+1]`, every key -/
theorem {pre}_new_eq_spec (key : BitVec {8*b}) :
    ({pre}_tbl ({pre}_new key)).toList = {spec_key} := by
  rw [{pre}_new_eq]
  exact (rc5_computes_spec {w} (by simp [widths]) {r} {b} (unpackBE {b} key) ({pre}_keylen key) []).2.2.1

/-- the regenerated `new` + `encrypt_block` is Rivest's RC5-{w}/{r}/{b} encryption, every key, every block -/
theorem {pre}_enc_eq_spec (key : BitVec {8*b}) (blk : BitVec {8*n}) :
    unpackBE {n} ({pre}_enc key blk) = Spec.Rc5.encryptBytes {spec_key} {r} (unpackBE {n} blk) := by
  rw [{pre}_enc_eq_impl]
  exact (rc5_computes_spec {w} (by simp [widths]) {r} {b} (unpackBE {b} key) ({pre}_keylen key) (unpackBE {n} blk)).2.2.2.1

theorem {pre}_dec_eq_spec (key : BitVec {8*b}) (blk : BitVec {8*n}) :
    unpackBE {n} ({pre}_dec key blk) = Spec.Rc5.decryptBytes {spec_key} {r} (unpackBE {n} blk) := by
  rw [{pre}_dec_eq_impl]
  exact (rc5_computes_spec {w} (by simp [widths]) {r} {b} (unpackBE {b} key) ({pre}_keylen key) (unpackBE {n} blk)).2.2.2.2

"""
out += "end BC.Code.Rc5Keyed\n"
open(sys.argv[1], "w").write(out)
