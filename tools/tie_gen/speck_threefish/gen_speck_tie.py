#!/usr/bin/env python3
# generates GenCipherSpeck.lean
V = [  # name, blockBytes N, cw, n, rounds
 ("speck32_64", 4, 16, 16, 22), ("speck48_72", 6, 32, 24, 22), ("speck48_96", 6, 32, 24, 23),
 ("speck64_96", 8, 32, 32, 26), ("speck64_128", 8, 32, 32, 27), ("speck96_96", 12, 64, 48, 28),
 ("speck96_144", 12, 64, 48, 29), ("speck128_128", 16, 64, 64, 32), ("speck128_192", 16, 64, 64, 33),
 ("speck128_256", 16, 64, 64, 34)]

HDR = '''import BlockCiphers.Gen.Cipher_Speck
import BlockCiphers.Impl.Speck
import BlockCiphers.Proofs.WordBytes
import Std.Tactic.BVDecide
/-
Tie of the regenerated `encrypt_block` / `decrypt_block` of the ten Speck variants (`Gen/Cipher_Speck.lean`, translated
from /repo/speck/src/lib.rs) to the hand-written generic model `BlockCiphers.Impl.Speck` instantiated with the ten
parameter rows.  For ALL round keys `k0 … k(R-1)` (arbitrary carrier words, not only key-schedule outputs) and ALL blocks:

    unpackBE N (Gen.Fn.<v>_encrypt_block k0 … b) = Speck.encryptBlock <v> #[k0, …] (unpackBE N b)

(the model works on byte lists, the generated function on the packed block; `unpackBE N` is the packing convention:
byte 0 = most significant byte).  Structure of each proof:
* `<v>_load`  : the model's `load` of the unpacked block is the generated `x`/`y` expression (bytes → carrier word,
                zero-extended for the 24/48-bit words)                       -- list evaluation + `bv_decide`
* `<v>_store` : the model's `store` is the unpacking of the generated output expression   -- idem
* `<v>_enc_core` / `<v>_dec_core` : generated function = output expression of `encLoop`/`decLoop` run on the
                generated `x`,`y`: both sides unfold to the same term, closed by `rfl` (no SAT: ARX).
                After a semantic change of the Rust this `rfl` fails with a heartbeat time-out (about 20 s).
* `<v>_encryptBlock_bytes` / `<v>_decryptBlock_bytes`: the same for an arbitrary byte list of the block length.
The 24- and 48-bit-word variants (Speck48/96) run in `u32`/`u64` carriers with `& mask`; the generated text and the model
agree on the unmasked garbage bits too (`decrypt_block` returns un-masked rotations, `to_be_bytes` drops the high bytes).
-/
set_option maxRecDepth 100000
namespace BC.GenCipher.Speck
open BC BC.Speck BC.Gen.Fn

/-! ### generic bridging lemmas (bytes ↔ bit-vectors) -/

theorem ofNat_foldl (cw : Nat) (bs : Bytes) (a : Nat) :
    BitVec.ofNat cw (bs.foldl (fun acc b => acc * 256 + b.toNat) a) =
      bs.foldl (fun acc b => acc * 256#cw + b.setWidth cw) (BitVec.ofNat cw a) := by
  induction bs generalizing a with
  | nil => rfl
  | cons b bs ih =>
    simp only [List.foldl_cons, ih]
    congr 1
    rw [BitVec.ofNat_add, BitVec.ofNat_mul, BitVec.ofNat_toNat]

/-- `from_be_bytes` as a Horner fold in the carrier type -/
theorem fromBE_fold (cw : Nat) (bs : Bytes) :
    fromBE cw bs = bs.foldl (fun acc b => acc * 256#cw + b.setWidth cw) 0#cw := by
  rw [fromBE, bytesToNat, ofNat_foldl]

theorem toBEn_succ (k v : Nat) : toBEn (k + 1) v = toBEn k (v / 256) ++ [BitVec.ofNat 8 v] := by
  simp [toBEn, toLEn]

/-- `to_be_bytes` (low `k` bytes) is `unpackBE` -/
theorem toBEn_toNat {w : Nat} (k : Nat) (x : BitVec w) : toBEn k x.toNat = unpackBE k x := by
  induction k generalizing x with
  | zero => rfl
  | succ k ih =>
    have h : x.toNat / 256 = (x >>> 8).toNat := by
      rw [BitVec.toNat_ushiftRight, Nat.shiftRight_eq_div_pow]
    rw [toBEn_succ, h, ih, unpackBE, unpackBE, List.range_succ, List.map_append]
    congr 1
    · apply List.map_congr_left
      intro i hi
      have hi' : i < k := List.mem_range.mp hi
      rw [← BitVec.shiftRight_add]
      congr 2; omega
    · simp [BitVec.ofNat_toNat]

theorem toBE_eq {cw : Nat} (n : Nat) (x : BitVec cw) : toBE n x = unpackBE (n / 8) x := toBEn_toNat _ _

/-- every `n`-byte string is the unpacking of its packing (so the tie theorems cover every block of the right length) -/
theorem unpackBE_packBE (n : Nat) (bs : Bytes) (h : bs.length = n) : unpackBE n (packBE n bs) = bs := by
  subst h
  have hlt : bytesToNat bs < 2 ^ (8 * bs.length) := by rw [← pow256]; exact bytesToNat_lt bs
  rw [← toBEn_toNat, packBE, BitVec.toNat_ofNat, Nat.mod_eq_of_lt hlt, toBEn_bytesToNat]

theorem encryptBlock_def (p : Params) (k : Array (BitVec p.cw)) (b : Bytes) :
    encryptBlock p k b = store p (encLoop p k p.rounds (load p b)) := rfl
theorem decryptBlock_def (p : Params) (k : Array (BitVec p.cw)) (b : Bytes) :
    decryptBlock p k b = store p (decLoop p k p.rounds (load p b)) := rfl
'''

def bytes_of(v, hi, cnt):
    return [f"({v}.extractLsb' {hi - 8*i} 8)" for i in range(cnt)]

out = [HDR]
for (name, N, cw, n, R) in V:
    nb = n // 8
    pad = (cw - n) // 8
    W = 8 * N
    xexpr = " ++ ".join(["0x0#8"] * pad + bytes_of("b", W - 8, nb))
    yexpr = " ++ ".join(["0x0#8"] * pad + bytes_of("b", n - 8, nb))
    oexpr = " ++ ".join(bytes_of("x", n - 8, nb) + bytes_of("y", n - 8, nb))
    ks = " ".join(f"k{i}" for i in range(R))
    karr = "#[" + ", ".join(f"k{i}" for i in range(R)) + "]"
    xs = [f"(b >>> {W - 8 - 8*i}).setWidth 8" for i in range(nb)]
    ys = [f"(b >>> {n - 8 - 8*i}).setWidth 8" for i in range(nb)]
    xo = [f"(x >>> {n - 8 - 8*i}).setWidth 8" for i in range(nb)]
    yo = [f"(y >>> {n - 8 - 8*i}).setWidth 8" for i in range(nb)]
    oo = [f"(o >>> {W - 8 - 8*i}).setWidth 8" for i in range(N)]
    out.append(f'''
/-! ### {name}: {N}-byte block, {n}-bit words in `u{cw}`, {R} rounds -/

/-- the generated `x`, `y` (block bytes → carrier words) -/
def {name}_x (b : BitVec {W}) : BitVec {cw} := {xexpr}
def {name}_y (b : BitVec {W}) : BitVec {cw} := {yexpr}
/-- the generated output expression (carrier words → block) -/
def {name}_out (x y : BitVec {cw}) : BitVec {W} := {oexpr}

theorem {name}_load_x (b : BitVec {W}) : fromBE {cw} [{", ".join(xs)}] = {name}_x b := by
  simp only [fromBE_fold, List.foldl_cons, List.foldl_nil, {name}_x]
  bv_decide
theorem {name}_load_y (b : BitVec {W}) : fromBE {cw} [{", ".join(ys)}] = {name}_y b := by
  simp only [fromBE_fold, List.foldl_cons, List.foldl_nil, {name}_y]
  bv_decide

theorem {name}_load (b : BitVec {W}) :
    load {name} (unpackBE {N} b) = ⟨{name}_x b, {name}_y b⟩ := by
  have h : load {name} (unpackBE {N} b) =
      ⟨fromBE {cw} [{", ".join(xs)}], fromBE {cw} [{", ".join(ys)}]⟩ := rfl
  rw [h, {name}_load_x, {name}_load_y]

theorem {name}_store_bytes (x y : BitVec {cw}) :
    unpackBE {nb} x ++ unpackBE {nb} y = unpackBE {N} ({name}_out x y) := by
  have h2 : unpackBE {nb} x ++ unpackBE {nb} y = [{", ".join(xo + yo)}] := rfl
  have h3 : ∀ o : BitVec {W}, unpackBE {N} o = [{", ".join(oo)}] := fun _ => rfl
  rw [h2, h3]
  simp only [{name}_out, List.cons.injEq, and_true]
  bv_decide

theorem {name}_store (s : St {name}.cw) :
    store {name} s = unpackBE {N} ({name}_out s.x s.y) := by
  have h1 : store {name} s = unpackBE ({name}.n / 8) s.x ++ unpackBE ({name}.n / 8) s.y := by
    rw [store, toBE_eq, toBE_eq]
  exact h1.trans ({name}_store_bytes s.x s.y)

theorem {name}_enc_core ({ks} : BitVec {cw}) (b : BitVec {W}) :
    {name}_encrypt_block {ks} b =
      {name}_out (encLoop {name} {karr} {R} ⟨{name}_x b, {name}_y b⟩).x
        (encLoop {name} {karr} {R} ⟨{name}_x b, {name}_y b⟩).y := by
  rfl

theorem {name}_dec_core ({ks} : BitVec {cw}) (b : BitVec {W}) :
    {name}_decrypt_block {ks} b =
      {name}_out (decLoop {name} {karr} {R} ⟨{name}_x b, {name}_y b⟩).x
        (decLoop {name} {karr} {R} ⟨{name}_x b, {name}_y b⟩).y := by
  rfl

/-- `Speck{name[5:]}::encrypt_block` as regenerated from the Rust source IS the model's `encryptBlock` -/
theorem {name}_encrypt_block_eq ({ks} : BitVec {cw}) (b : BitVec {W}) :
    unpackBE {N} ({name}_encrypt_block {ks} b) =
      encryptBlock {name} {karr} (unpackBE {N} b) := by
  rw [encryptBlock_def, {name}_load, {name}_store, {name}_enc_core]; rfl

/-- `Speck{name[5:]}::decrypt_block` as regenerated from the Rust source IS the model's `decryptBlock` -/
theorem {name}_decrypt_block_eq ({ks} : BitVec {cw}) (b : BitVec {W}) :
    unpackBE {N} ({name}_decrypt_block {ks} b) =
      decryptBlock {name} {karr} (unpackBE {N} b) := by
  rw [decryptBlock_def, {name}_load, {name}_store, {name}_dec_core]; rfl

/-- the same for an arbitrary `{N}`-byte block given as a byte list -/
theorem {name}_encryptBlock_bytes ({ks} : BitVec {cw}) (bs : Bytes) (h : bs.length = {N}) :
    encryptBlock {name} {karr} bs =
      unpackBE {N} ({name}_encrypt_block {ks} (packBE {N} bs)) := by
  rw [{name}_encrypt_block_eq, unpackBE_packBE _ _ h]
theorem {name}_decryptBlock_bytes ({ks} : BitVec {cw}) (bs : Bytes) (h : bs.length = {N}) :
    decryptBlock {name} {karr} bs =
      unpackBE {N} ({name}_decrypt_block {ks} (packBE {N} bs)) := by
  rw [{name}_decrypt_block_eq, unpackBE_packBE _ _ h]
''')
out.append("\nend BC.GenCipher.Speck\n")
open("/tmp/dev/w_tieD/out/GenCipherSpeck.lean", "w").write("".join(out))
