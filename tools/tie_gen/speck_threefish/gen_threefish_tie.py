#!/usr/bin/env python3
# generates GenCipherThreefish.lean
V = [("threefish256", "tf256", 4, 72), ("threefish512", "tf512", 8, 72), ("threefish1024", "tf1024", 16, 80)]
out = []
out.append('''import BlockCiphers.Gen.Cipher_Threefish
import BlockCiphers.Impl.Threefish
import Lean.Elab.Tactic
/-
Tie of the regenerated `encrypt_block_u64` / `decrypt_block_u64` of Threefish-256/512/1024 (`Gen/Cipher_Threefish.lean`,
translated from /repo/threefish/src/lib.rs) to the hand-written generic model `BlockCiphers.Impl.Threefish`
(`encryptU64` / `decryptU64` at the parameter rows `tf256`, `tf512`, `tf1024`).  For ALL subkey tables
`sk<s>_<i>` (row `s`, word `i`: arbitrary words, not only key-schedule outputs) and ALL blocks `b0 … b(N-1)`:

    Gen.Fn.threefish256_encrypt_block_u64 sk0_0 … sk18_3 b0 b1 b2 b3
      = tup4 (Threefish.encryptU64 (p := tf256) ⟨#v[#v[sk0_0, …], …, #v[sk18_0, …]]⟩ #v[b0, b1, b2, b3])

(`tupN v = (v[0], …, v[N-1])`; the `&mut [u64; N]` block is returned by the generated function as an `N`-tuple), and
the same statement as a vector equality (`…_vec`).

Proof.  ARX, so no SAT: both sides are *definitionally* equal — the model's `List.foldl` over `List.range rounds`,
the in-place `setIfInBounds` scatter/gather through `perm`, `rotAt`, `if d % 4 = 0`, `row` all evaluate, and what remains
is the same expression DAG as the unrolled generated text.  Only `Vector.zipWith` (`addRow`/`subRow`) does not reduce; it
is rewritten first (`addRowN`, `subRowN`).  The definitional equality is checked by the KERNEL (`tf_kernel_rfl` assigns
`Eq.refl lhs` to the goal; the kernel type-checks it when the theorem is added): the elaborator's `rfl` does not
cache `whnf` of terms with free variables and is exponential on these 72/80-round expression DAGs, the kernel is linear
(about 2 s / 6 s / 18 s for 256 / 512 / 1024).  The theorems depend on `propext` and `Quot.sound` only.
If the Rust changes semantically the kernel check does not succeed (it may run until the time limit instead of
failing quickly: a failing definitional-equality search on these terms is exponential).
-/
set_option maxRecDepth 100000
namespace BC.GenCipher.Threefish
open BC BC.Threefish BC.Gen.Fn

open Lean Elab Tactic Meta in
/-- closes a goal `a = b` with the proof term `Eq.refl a`; the definitional-equality check `a ≡ b` is left to the
kernel (it happens when the enclosing theorem is added to the environment; nothing is trusted) -/
elab "tf_kernel_rfl" : tactic => do
  let g ← getMainGoal
  let t ← instantiateMVars (← g.getType)
  let some (_, lhs, _) := t.eq? | throwError "tf_kernel_rfl: the goal is not an equality"
  g.assign (← mkEqRefl lhs)
''')
for nw in (4, 8, 16):
    ts = " × ".join(["BitVec 64"] * nw)
    comps = ", ".join("t" + ".2" * i + (".1" if i < nw - 1 else "") for i in range(nw))
    cases = "\n".join(f"  | {i}, _ => rfl" for i in range(nw))
    out.append(f'''
/-! ### {nw} words -/

/-- the `{nw}`-tuple returned by a generated function as a word vector -/
def vec{nw} (t : {ts}) : Vector (BitVec 64) {nw} :=
  #v[{comps}]
/-- a word vector as the `{nw}`-tuple of the generated functions -/
def tup{nw} (v : Vector (BitVec 64) {nw}) : {ts} :=
  ({", ".join(f"v[{i}]" for i in range(nw))})
theorem tup{nw}_vec{nw} (t : {ts}) : tup{nw} (vec{nw} t) = t := rfl

theorem addRow{nw} (b s : Vector (BitVec 64) {nw}) :
    addRow b s = #v[{", ".join(f"b[{i}] + s[{i}]" for i in range(nw))}] := by
  apply Vector.ext; intro i hi
  simp only [addRow, Vector.getElem_zipWith]
  match i, hi with
{cases}
  | n + {nw}, h => omega
theorem subRow{nw} (b s : Vector (BitVec 64) {nw}) :
    subRow b s = #v[{", ".join(f"b[{i}] - s[{i}]" for i in range(nw))}] := by
  apply Vector.ext; intro i hi
  simp only [subRow, Vector.getElem_zipWith]
  match i, hi with
{cases}
  | n + {nw}, h => omega
''')
for (name, P, nw, rounds) in V:
    rows = rounds // 4 + 1
    sk = lambda s, i: f"sk{s}_{i}"
    allsk = " ".join(sk(s, i) for s in range(rows) for i in range(nw))
    blk = " ".join(f"b{i}" for i in range(nw))
    cip = "⟨#v[" + ",\n        ".join("#v[" + ", ".join(sk(s, i) for i in range(nw)) + "]" for s in range(rows)) + "]⟩"
    bv = "#v[" + ", ".join(f"b{i}" for i in range(nw)) + "]"
    out.append(f'''
/-! ### {name}: {nw} words, {rounds} rounds, {rows} subkeys -/

/-- `{name.capitalize()}::encrypt_block_u64` as regenerated from the Rust source IS the model's `encryptU64` -/
theorem {name}_encrypt_block_u64_vec ({allsk} {blk} : BitVec 64) :
    encryptU64 (p := {P}) {cip} {bv} =
      vec{nw} ({name}_encrypt_block_u64 {allsk} {blk}) := by
  refine (addRow{nw} _ _).trans ?_
  tf_kernel_rfl

theorem {name}_encrypt_block_u64_eq ({allsk} {blk} : BitVec 64) :
    {name}_encrypt_block_u64 {allsk} {blk} =
      tup{nw} (encryptU64 (p := {P}) {cip} {bv}) := by
  rw [{name}_encrypt_block_u64_vec, tup{nw}_vec{nw}]

/-- `{name.capitalize()}::decrypt_block_u64` as regenerated from the Rust source IS the model's `decryptU64` -/
theorem {name}_decrypt_block_u64_vec ({allsk} {blk} : BitVec 64) :
    decryptU64 (p := {P}) {cip} {bv} =
      vec{nw} ({name}_decrypt_block_u64 {allsk} {blk}) := by
  refine (congrArg (List.foldl _ · _) (subRow{nw} _ _)).trans ?_
  tf_kernel_rfl

theorem {name}_decrypt_block_u64_eq ({allsk} {blk} : BitVec 64) :
    {name}_decrypt_block_u64 {allsk} {blk} =
      tup{nw} (decryptU64 (p := {P}) {cip} {bv}) := by
  rw [{name}_decrypt_block_u64_vec, tup{nw}_vec{nw}]
''')
out.append("\nend BC.GenCipher.Threefish\n")
open("/tmp/dev/w_tieD/out/GenCipherThreefish.lean", "w").write("".join(out))
