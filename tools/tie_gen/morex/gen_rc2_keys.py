import re, sys
src=open('/tmp/dev/w_morex/src/BlockCiphers/Gen/Keys_Rc2.lean').read()
ALL=[(f"rc2_new_from_slice_{n}",n,8*n) for n in (1,5,8,16)]+[(f"rc2_new_with_eff_key_len_{n}_{e}",n,e) for n,e in ((8,63),(16,64),(16,128),(5,40))]
CH=8
HEAD='''import BlockCiphers.Gen.Keys_Rc2
import BlockCiphers.Impl.Rc2
import BlockCiphers.Proofs.GenTables
import Lean.Elab.Tactic
import Std.Tactic.BVDecide
/-!
Tie of regenerated constructors of RC2 (`Gen/Keys_Rc2.lean`, translated from `Rc2::new_from_slice`,
`Rc2::new_with_eff_key_len` and `Rc2::expand_key` of /repo/rc2/src/lib.rs) to the model `BC.Rc2.expandKey`: for ALL keys

    Gen.Fn.rc2_new_from_slice_<n> key              = rcTuple (Rc2.expandKey (unpackBE n key) (8·n))
    Gen.Fn.rc2_new_with_eff_key_len_<n>_<t1> key   = rcTuple (Rc2.expandKey (unpackBE n key) t1)

(`rcTuple v = (v[0], …, v[63])`).  Proof.  `<f>_P pi key` is the generated text with the `PI_TABLE` look-up abstracted to a
function of the index.  (1) the generated function is `<f>_P` at the look-up into the regenerated table (kernel check);
(2) the regenerated table is the model's (`Proofs/GenTables.lean`), so that look-up is the model's `piAt`; (3) `<f>_P piAt`
is the model's `expandKey` on the unpacked key.  The key buffer is a Fibonacci-like DAG (every byte depends on two earlier
ones), so nothing may be unfolded at the term level: the `let`s of `<f>_P` are kept as local definitions and the model's two
loops are run forward on the 128-element buffer literal made of these local names, eight iterations per step
(`s1_*`, `s2_*`: each a small definitional equality checked by the kernel), then composed with `List.foldl_append`.
-/
set_option maxRecDepth 100000
set_option linter.unusedVariables false
namespace BC.GenKeys.Rc2
open BC BC.Rc2 BC.Gen.Fn
'''
COMMON='''
open Lean Elab Tactic Meta in
/-- closes a goal `a = b` with the proof term `Eq.refl a`; the definitional-equality check is left to the kernel -/
elab "rc2_kernel_rfl" : tactic => do
  let g ← getMainGoal
  let t ← instantiateMVars (← g.getType)
  let some (_, lhs, _) := t.eq? | throwError "rc2_kernel_rfl: the goal is not an equality"
  g.assign (← mkEqRefl lhs)

open Lean Elab Tactic Meta in
/-- make the (hygienic) names of the local `let` variables introduced by `extract_lets` accessible -/
elab "name_lets" : tactic => do
  liftMetaTactic fun g => g.withContext do
    let mut lctx ← getLCtx
    for d in lctx do
      if d.isLet then lctx := lctx.setUserName d.fvarId d.userName.eraseMacroScopes
    let g' ← mkFreshExprMVarAt lctx (← getLocalInstances) (← g.getType) .syntheticOpaque (← g.getTag)
    g.assign g'
    return [g'.mvarId!]

/-- the look-up into the regenerated table, as the generated text performs it -/
def gpi (n : Nat) : BitVec 8 := BC.Gen.tblAt BC.Gen.rc2_PI_TABLE n 8

theorem gpi_eq : gpi = piAt := by
  funext n
  have h1 := congrArg (fun l => l[n]?) BC.GenTables.rc2_PI_TABLE_eq
  simp only [BC.GenTables.nats8, List.getElem?_map, Array.getElem?_toList] at h1
  unfold gpi piAt BC.Gen.tblAt
  rw [Array.getD_eq_getD_getElem?, h1, Array.getD_eq_getD_getElem?]
  cases PI_TABLE[n]? with
  | none => rfl
  | some v => simp

/-- the 64 words of the expanded key -/
def rcTuple (v : Vector (BitVec 16) 64) :=
  (''' + ", ".join(f"v[{i}]" for i in range(64)) + ''')
'''
def vec(state): return "(#v["+", ".join(state)+"] : Vector (BitVec 8) 128)"
def lst(xs): return "["+", ".join(str(x) for x in xs)+"]"
def appchain(chunks): 
    s=lst(chunks[-1])
    for c in reversed(chunks[:-1]): s=f"{lst(c)} ++ ({s})"
    return s
def target(name,n,t1):
    o=[]
    i=src.index(f"def {name} ")
    body=src[i:src.index("\n\n",i)]
    lines=body.split("\n")
    sig, lets, res = lines[0], lines[1:-1], lines[-1]
    txt="\n".join(lets)
    txt,cnt=re.subn(r"BC\.Gen\.tblAt BC\.Gen\.rc2_PI_TABLE (.*?\.toNat) 8", r"pi \1", txt)
    assert "tblAt" not in txt and cnt>100
    rty=sig[sig.index(") : ")+4:].rstrip(" :=")
    kbnames=[m.group(1) for m in re.finditer(r"^  let (key_buffer\w*) := pi ", txt, re.M)]
    t8=(t1+7)>>3; tm=255 % (2**(8+t1-8*t8))
    assert len(kbnames)==(128-n)+1+(128-t8), (len(kbnames),n,t8)
    o.append(f"/-! ### `{name}`: {n}-byte key, effective length {t1} bits (T8 = {t8}, TM = {tm}) -/\n")
    o.append(f"def {name}_P (pi : Nat → BitVec 8) (key : BitVec {8*n}) : {rty} :=\n{txt}\n{res}\n")
    o.append(f"theorem {name}_eq_P (key : BitVec {8*n}) : {name} key = {name}_P gpi key := by\n  rc2_kernel_rfl\n")
    # forward chain
    state=[f"(key.extractLsb' {8*(n-1-j)} 8)" for j in range(n)]+["0x0#8"]*(128-n)
    K=f"(unpackBE {n} key)"
    init=f"(Vector.ofFn (fun i : Fin 128 => {K}.getD i.val 0#8) : Vector (BitVec 8) 128)"
    p=[]
    p.append(f"theorem {name}_P_model (key : BitVec {8*n}) : {name}_P piAt key = rcTuple (expandKey {K} {t1}) := by")
    p.append(f"  unfold {name}_P")
    p.append("  extract_lets -merge")
    p.append("  name_lets")
    if n == 1:
        # `BitVec 8` key: `(key >>> 0).setWidth 8` is not definitionally `key.extractLsb' 0 8`
        st0=[f"({K}.getD 0 0#8)"]+state[1:]
        p.append(f"  have e0 : {K}.getD 0 0#8 = key.extractLsb' 0 8 := by\n    show (key >>> 0).setWidth 8 = _\n    bv_decide")
        p.append(f"  have h0 : {init} = {vec(state)} := by\n    have h0' : {init} = {vec(st0)} := by rc2_kernel_rfl\n    rw [e0] at h0'\n    exact h0'")
    else:
        p.append(f"  have h0 : {init} = {vec(state)} := by rc2_kernel_rfl")
    names=iter(kbnames)
    hs=["h0"]
    idx1=list(range(n,128)); ch1=[idx1[a:a+CH] for a in range(0,len(idx1),CH)]
    for c,chunk in enumerate(ch1):
        before=vec(state)
        for i_ in chunk: state[i_]=next(names)
        p.append(f"  have s1_{c} : List.foldl (expandStep1 {n}) {before} {lst(chunk)} = {vec(state)} := by rc2_kernel_rfl")
        hs.append(f"s1_{c}")
    before=vec(state); pos=128-t8
    state[pos]=next(names)
    p.append(f"  have st : Vector.setIfInBounds {before} {pos} (piAt (rdb {before} {pos} &&& BitVec.ofNat 8 {tm}).toNat) = {vec(state)} := by rc2_kernel_rfl")
    hs.append("st")
    idx2=list(range(128-t8-1,-1,-1)); ch2=[idx2[a:a+CH] for a in range(0,len(idx2),CH)]
    for c,chunk in enumerate(ch2):
        before=vec(state)
        for i_ in chunk: state[i_]=next(names)
        p.append(f"  have s2_{c} : List.foldl (expandStep2 {t8}) {before} {lst(chunk)} = {vec(state)} := by rc2_kernel_rfl")
        hs.append(f"s2_{c}")
    F1=f"(List.foldl (expandStep1 {n}) {init} ({appchain(ch1)}))"
    mid=f"(Vector.setIfInBounds {F1} {pos} (piAt (rdb {F1} {pos} &&& BitVec.ofNat 8 {tm}).toNat))"
    full=f"List.foldl (expandStep2 {t8}) {mid} ({appchain(ch2)})" if ch2 else mid
    p.append(f"  have hb0 : expandBuffer {K} {t1} = {full} := by rc2_kernel_rfl")
    p.append(f"  have hb : expandBuffer {K} {t1} = {vec(state)} := by\n    rw [hb0]\n    simp only [List.foldl_append, {', '.join(hs)}]")
    p.append(f"  have hfin : rcTuple (expandKey {K} {t1}) = _ := by\n    unfold expandKey\n    rw [hb]\n    exact Eq.refl _")
    # the goal's LHS is the tuple of the generated words; compare by kernel
    p.append(f"  have hk : rcTuple (Vector.ofFn (fun i : Fin 64 => ((rdb {vec(state)} (2 * i.val + 1)).setWidth 16 <<< 8) + (rdb {vec(state)} (2 * i.val)).setWidth 16)) = {res.strip()} := by rc2_kernel_rfl")
    p.append(f"  unfold expandKey\n  rw [hb]\n  exact hk.symm")
    # drop unused hfin
    p=[x for x in p if not x.startswith("  have hfin")]
    o.append("\n".join(p)+"\n")
    o.append(f"/-- the regenerated constructor computes the model's `expandKey`, for every key -/\ntheorem {name}_eq (key : BitVec {8*n}) : {name} key = rcTuple (expandKey (unpackBE {n} key) {t1}) := by\n  rw [{name}_eq_P, gpi_eq, {name}_P_model]\n")
    return "\n".join(o)
mode=sys.argv[1] if len(sys.argv)>1 else "all"
D='/tmp/dev/w_morex/src/BlockCiphers/Proofs/'
if mode=="one":
    nm,n,t1=ALL[int(sys.argv[2])]
    open('/tmp/dev/w_morex/scratch/R2.lean','w').write(HEAD+COMMON+target(nm,n,t1)+"\nend BC.GenKeys.Rc2\n")
else:
    # common file + one file per target (each is a few thousand long lines)
    open(D+'GenKeysRc2Base.lean','w').write(HEAD+COMMON+"\nend BC.GenKeys.Rc2\n")
    imports=[]
    for k,(nm,n,t1) in enumerate(ALL):
        mod=f"GenKeysRc2_{k}"
        h=HEAD.replace("import Lean.Elab.Tactic\n","import Lean.Elab.Tactic\nimport BlockCiphers.Proofs.GenKeysRc2Base\n")
        open(D+mod+'.lean','w').write(h+target(nm,n,t1)+"\nend BC.GenKeys.Rc2\n")
        imports.append(f"import BlockCiphers.Proofs.{mod}")
    open(D+'GenKeysRc2.lean','w').write("\n".join(imports)+"\n/-! Ties of the regenerated RC2 constructors (`BC.GenKeys.Rc2.*_eq`): see `GenKeysRc2Base.lean` and `GenKeysRc2_<k>.lean`. -/\n")
