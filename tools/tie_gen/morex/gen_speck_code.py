V=[("speck32_64",4,8,16,16,4,22),("speck48_72",6,9,32,24,3,22),("speck48_96",6,12,32,24,4,23),("speck64_96",8,12,32,32,3,26),
   ("speck64_128",8,16,32,32,4,27),("speck96_96",12,12,64,48,2,28),("speck96_144",12,18,64,48,3,29),("speck128_128",16,16,64,64,2,32),
   ("speck128_192",16,24,64,64,3,33),("speck128_256",16,32,64,64,4,34)]
o=[]
o.append('''import BlockCiphers.Gen.Cipher_Speck
import BlockCiphers.Gen.Keys_Speck
import BlockCiphers.Proofs.GenCipherSpeck
import BlockCiphers.Proofs.GenKeysSpeck
import BlockCiphers.Proofs.Speck
import BlockCiphers.Proofs.SpeckKeys
/-!
Code-level theorems for the ten Speck variants: statements mention ONLY the regenerated code (`BC.Gen.Fn.<v>_new`,
`<v>_encrypt_block`, `<v>_decrypt_block`, translated from the `define_speck_impl!` macro of /repo/speck/src/lib.rs) and the
specification `BC.Spec.Speck` (Beaulieu et al., "The SIMON and SPECK families…", key schedule and rounds).  Composition of
  (1) `BC.Speck.decrypt_encrypt`, `encrypt_decrypt` (Proofs/Speck.lean; Thm C01), `speck_computes_spec`
      (Proofs/SpeckKeys.lean; Thm C10), `wf_all`,
  (2) `BC.GenCipher.Speck.<v>_encrypt_block_eq` / `<v>_decrypt_block_eq`,
  (3) `BC.GenKeys.Speck.<v>_new_eq`.
Keys and blocks are `BitVec`s, byte 0 of the Rust array = most significant byte (`unpackBE n` gives the byte list of the Spec).
The name-related row parameters of the Spec are those of the model's parameter row `BC.Speck.<v>` (a `Params` record of
literals: `n`, `m`, `alpha`, `beta`, `rounds`), which `Proofs/Speck.lean` (`table_ok`) shows to be the rows of the paper's table.
-/
set_option maxRecDepth 100000
namespace BC.Code.Speck
open BC BC.Gen.Fn BC.Speck
''')
done=set()
for (v,bb,kb,cw,n,m,R) in V:
    if bb in done: continue
    done.add(bb)
    rng=",".join(str(i) for i in range(bb))
    hs=", ".join(f"h{i}" for i in range(bb))
    o.append(f"theorem range{bb} : List.range {bb} = [{rng}] := by decide +kernel\n")
    o.append(f"theorem unpackBE{bb}_inj (x y : BitVec {8*bb}) (h : unpackBE {bb} x = unpackBE {bb} y) : x = y := by\n  simp only [unpackBE, range{bb}, List.map_cons, List.map_nil, List.cons.injEq, Nat.reduceSub, Nat.reduceMul, and_true] at h\n  obtain ⟨{hs}⟩ := h\n  bv_decide (config := {{ timeout := 300 }})\n")
o.append("theorem unpackBE_length (n : Nat) {w : Nat} (x : BitVec w) : (unpackBE n x).length = n := by simp [unpackBE]\n")
for (v,bb,kb,cw,n,m,R) in V:
    ks=[f"k{i}" for i in range(R)]
    pat="("+", ".join(ks)+")"; args=" ".join(ks)
    o.append(f"/-! ### {v} -/\n")
    o.append(f"theorem {v}_mem : {v} ∈ all := by decide\n")
    for ed,ED in (("enc","encrypt"),("dec","decrypt")):
        o.append(f"/-- `{v.capitalize()}::new(key).{ED}_block(b)` on the regenerated code -/\ndef {v}_{ed} (key : BitVec {8*kb}) (b : BitVec {8*bb}) : BitVec {8*bb} :=\n  match {v}_new key with\n  | {pat} => {v}_{ED}_block {args} b\n")
    for ed,ED in (("enc","encrypt"),("dec","decrypt")):
        o.append(f"theorem {v}_{ed}_eq_impl (key : BitVec {8*kb}) (b : BitVec {8*bb}) :\n    unpackBE {bb} ({v}_{ed} key b) = {ED}Block {v} (keySchedule {v} (unpackBE {kb} key)) (unpackBE {bb} b) := by\n  rw [← BC.GenKeys.Speck.{v}_new_eq]\n  unfold {v}_{ed}\n  generalize {v}_new key = t\n  obtain ⟨{', '.join(ks)}⟩ := t\n  exact BC.GenCipher.Speck.{v}_{ED}_block_eq {args} b\n")
    o.append(f"theorem {v}_dec_enc (key : BitVec {8*kb}) (b : BitVec {8*bb}) : {v}_dec key ({v}_enc key b) = b := by\n  apply unpackBE{bb}_inj\n  rw [{v}_dec_eq_impl, {v}_enc_eq_impl]\n  exact decrypt_encrypt {v} {v}_mem _ _ (unpackBE_length _ _)\n")
    o.append(f"theorem {v}_enc_dec (key : BitVec {8*kb}) (b : BitVec {8*bb}) : {v}_enc key ({v}_dec key b) = b := by\n  apply unpackBE{bb}_inj\n  rw [{v}_enc_eq_impl, {v}_dec_eq_impl]\n  exact encrypt_decrypt {v} {v}_mem _ _ (unpackBE_length _ _)\n")
    spec=lambda f: f"BC.Spec.Speck.{f} {v}.n {v}.alpha {v}.beta {v}.rounds\n        (fun j => (BC.Spec.Speck.roundKeys {v}.n {v}.m {v}.alpha {v}.beta {v}.rounds (unpackBE {kb} key)).getD j 0) (unpackBE {bb} b)"
    o.append(f"/-- the regenerated code computes the paper's Speck (rounds and key schedule), every key, every block -/\ntheorem {v}_enc_eq_spec (key : BitVec {8*kb}) (b : BitVec {8*bb}) :\n    unpackBE {bb} ({v}_enc key b) = {spec('encryptBytes')} := by\n  rw [{v}_enc_eq_impl]\n  exact (speck_computes_spec {v} (wf_all {v} {v}_mem) _ _).1\n")
    o.append(f"theorem {v}_dec_eq_spec (key : BitVec {8*kb}) (b : BitVec {8*bb}) :\n    unpackBE {bb} ({v}_dec key b) = {spec('decryptBytes')} := by\n  rw [{v}_dec_eq_impl]\n  exact (speck_computes_spec {v} (wf_all {v} {v}_mem) _ _).2\n")
o.append("end BC.Code.Speck\n")
open('/tmp/dev/w_morex/src/BlockCiphers/Proofs/CodeSpeck.lean','w').write("\n".join(o))
