# shared text for the Kuznyechik compact tie files
B=[f"b{i}" for i in range(16)]
def fields(pfx="m"): return [f"{pfx}.b{i}" for i in range(16)]
GFT=["GFT_148","GFT_32","GFT_133","GFT_16","GFT_194","GFT_192","GFT_251"]
# coefficient table index per position b=14..0 (None: plain xor)
COEF={14:0,13:1,12:2,11:3,10:4,9:5,8:None,7:6,6:None,5:5,4:4,3:3,2:2,1:1,0:0}
def lnew_body():
    # arguments a15 .. a0
    e="a15"
    for b in range(14,-1,-1):
        t=COEF[b]
        e=f"({e} ^^^ " + (f"a{b}" if t is None else f"BC.Gen.tblAt t{t} (a{b}.setWidth 64).toNat 8")+")"
    return e
def lstep_args(i, pfx="m"):
    # a_b = msg[(b - i) & 15] for b = 15..0
    return " ".join(f"{pfx}.b{(b-i)&15}" for b in range(15,-1,-1))
TARGS="(t0 t1 t2 t3 t4 t5 t6 : Array Nat)"
TS="t0 t1 t2 t3 t4 t5 t6"
def common():
    o=[]
    o.append("/-- sixteen bytes (a `Block` / `[u8; 16]` of the Rust code), element 0 first -/\nstructure B16 where\n"+"\n".join(f"  b{i} : BitVec 8" for i in range(16))+"\n  deriving DecidableEq\n")
    o.append("/-- the memory image: element 0 is the most significant byte -/\ndef B16.pack (m : B16) : BitVec 128 := "+" ++ ".join(fields())+"\n")
    o.append("def unpackB (v : BitVec 128) : B16 := ⟨"+", ".join(f"v.extractLsb' {8*(15-i)} 8" for i in range(16))+"⟩\n")
    o.append("/-- `x(a, key)`: `a[i] ^= key[i]`, the key given as its memory image -/\ndef xB (m : B16) (k : BitVec 128) : B16 := ⟨"+", ".join(f"m.b{i} ^^^ k.extractLsb' {8*(15-i)} 8" for i in range(16))+"⟩\n")
    o.append("/-- `x(a, b)` on two byte arrays -/\ndef xorB (m k : B16) : B16 := ⟨"+", ".join(f"m.b{i} ^^^ k.b{i}" for i in range(16))+"⟩\n")
    o.append("/-- `block[i] = P[block[i] as usize]` with the regenerated table `Gen.kuznyechik_P` -/\ndef sB (m : B16) : B16 := ⟨"+", ".join(f"BC.Gen.tblAt BC.Gen.kuznyechik_P (m.b{i}.setWidth 64).toNat 8" for i in range(16))+"⟩\n")
    o.append("/-- `block[i] = P_INV[block[i] as usize]`, `P_INV` as computed by the translator from the const block (`pinv`) -/\ndef sInvB (pinv : Array Nat) (m : B16) : B16 := ⟨"+", ".join(f"BC.Gen.tblAt pinv (m.b{i}.setWidth 64).toNat 8" for i in range(16))+"⟩\n")
    o.append(f"/-- the new byte of `l_step`: `x = msg[15-i]; x ^= GFT_148[msg[14-i]]; …` with the seven computed GF tables -/\ndef lnew {TARGS} ("+" ".join(f"a{b}" for b in range(15,-1,-1))+" : BitVec 8) : BitVec 8 :=\n  "+lnew_body()+"\n")
    for i in range(16):
        tgt=(15-i)&15
        flds=", ".join((f"lnew {TS} {lstep_args(i)}" if j==tgt else f"m.b{j}") for j in range(16))
        o.append(f"def lstepB{i} {TARGS} (m : B16) : B16 := ⟨{flds}⟩")
    o.append("")
    fw="m"
    for i in range(16): fw=f"lstepB{i} {TS} ({fw})"
    o.append(f"/-- `for i in 0..16 {{ block.0 = l_step(block.0, i) }}` -/\ndef lfwdB {TARGS} (m : B16) : B16 := {fw}\n")
    bw="m"
    for i in range(16): bw=f"lstepB{15-i} {TS} ({bw})"
    o.append(f"/-- `for i in 0..16 {{ block.0 = l_step(block.0, 15 - i) }}` -/\ndef lbwdB {TARGS} (m : B16) : B16 := {bw}\n")
    o.append(f"def lsxB {TARGS} (m : B16) (k : BitVec 128) : B16 := lfwdB {TS} (sB (xB m k))\n")
    o.append(f"def lsxInvB {TARGS} (pinv : Array Nat) (m : B16) (k : BitVec 128) : B16 := sInvB pinv (lbwdB {TS} (xB m k))\n")
    return "\n".join(o)
KERNEL_RFL='''open Lean Elab Tactic Meta in
/-- closes a goal `a = b` with the proof term `Eq.refl a`; the definitional-equality check `a ≡ b` is left to the
kernel (it happens when the enclosing theorem is added to the environment; nothing is trusted) -/
elab "kuz_kernel_rfl" : tactic => do
  let g ← getMainGoal
  let t ← instantiateMVars (← g.getType)
  let some (_, lhs, _) := t.eq? | throwError "kuz_kernel_rfl: the goal is not an equality"
  g.assign (← mkEqRefl lhs)
'''
