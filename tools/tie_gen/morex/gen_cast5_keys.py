import re
src=open('/tmp/dev/w_morex/src/BlockCiphers/Gen/Keys_Cast5.lean').read()
i=src.index("def cast5_new_from_slice_16 ")
body=src[i:src.index("\n\n",i)]
lines=body.split("\n")
sig, lets, res = lines[0], lines[1:-1], lines[-1]
txt="\n".join(lets)
W=["((key.extractLsb' 120 8) ++ (key.extractLsb' 112 8) ++ (key.extractLsb' 104 8) ++ (key.extractLsb' 96 8))",
   "((key.extractLsb' 88 8) ++ (key.extractLsb' 80 8) ++ (key.extractLsb' 72 8) ++ (key.extractLsb' 64 8))",
   "((key.extractLsb' 56 8) ++ (key.extractLsb' 48 8) ++ (key.extractLsb' 40 8) ++ (key.extractLsb' 32 8))",
   "((key.extractLsb' 24 8) ++ (key.extractLsb' 16 8) ++ (key.extractLsb' 8 8) ++ (key.extractLsb' 0 8))"]
for j,w in enumerate(W):
    assert w in txt
    txt=txt.replace(w,f"w{j}")
assert "key" not in txt, [l for l in txt.split("\n") if "key" in l][:2]
txt,n=re.subn(r"\(BC\.Gen\.tblAt BC\.Gen\.cast5_S([5-8]) \((.*?)\.setWidth 64\)\.toNat 32\)", r"(s\1 \2)", txt)
assert "tblAt" not in txt
res=res.replace("0x0#1)","skb)")
rty=sig[sig.index(") : ")+4:].rstrip(" :=")
o=[]
o.append('''import BlockCiphers.Gen.Keys_Cast5
import BlockCiphers.Impl.Cast5
import BlockCiphers.Proofs.GenTables
import BlockCiphers.Proofs.GenCipherCast5
import Std.Tactic.BVDecide
import Lean.Elab.Tactic
/-!
Tie of the regenerated constructor `Cast5::new_from_slice` for the key lengths 5, 10, 11 and 16 bytes
(`Gen/Keys_Cast5.lean`, translated from /repo/cast5/src/{lib.rs,schedule.rs}: `init_state`, the zero padding, the two
passes of `schedule::key_schedule` with the `get_i!` macro) to the model `BC.Cast5.keySchedule`: for ALL keys

    Gen.Fn.cast5_new_from_slice_<n> key = c5Tuple (Cast5.keySchedule (n ≤ 10) (key ++ 0#(128 − 8n)))

(`c5Tuple` lists the fields `masking[0..16]`, `rotate[0..16]`, `small_key` of the model's `Keys` in declaration order;
`key ++ 0…` is the zero-padded 16-byte key; `new_<n>` restates it for `Cast5.new (unpackBE n key)`).
Proof.  `ksP s5 s6 s7 s8 w0 w1 w2 w3 skb` is the text of the regenerated 16-byte function with the four table look-ups
abstracted to functions and the key words to variables.  (1) every regenerated function is `ksP` at the look-ups into
the regenerated tables (for the short keys the translator has folded the look-ups at constant zero bytes: the kernel
evaluates them), (2) the regenerated tables are the model's (`Proofs/GenTables.lean`), (3) `ksP` at the model's
look-ups is the model's `keySchedule` — (1) and (3) are definitional equalities checked by the kernel (the schedule is
a DAG of 64 words, each used several times: no term-level unfolding).
-/
set_option maxRecDepth 100000
namespace BC.GenKeys.Cast5
open BC BC.Cast5 BC.Gen.Fn

open Lean Elab Tactic Meta in
/-- closes a goal `a = b` with the proof term `Eq.refl a`; the definitional-equality check is left to the kernel -/
elab "c5_kernel_rfl" : tactic => do
  let g ← getMainGoal
  let t ← instantiateMVars (← g.getType)
  let some (_, lhs, _) := t.eq? | throwError "c5_kernel_rfl: the goal is not an equality"
  g.assign (← mkEqRefl lhs)
''')
o.append(f"/-- the regenerated key schedule with abstract S-box look-ups `s5 … s8` (argument: the `get_i!` byte as a `u32`) -/\ndef ksP (s5 s6 s7 s8 : BitVec 32 → BitVec 32) (w0 w1 w2 w3 : BitVec 32) (skb : BitVec 1) : {rty} :=\n{txt}\n{res}\n")
o.append('''/-- look-ups into the regenerated tables, as the generated text performs them -/
def g5 (e : BitVec 32) : BitVec 32 := BC.Gen.tblAt BC.Gen.cast5_S5 (e.setWidth 64).toNat 32
def g6 (e : BitVec 32) : BitVec 32 := BC.Gen.tblAt BC.Gen.cast5_S6 (e.setWidth 64).toNat 32
def g7 (e : BitVec 32) : BitVec 32 := BC.Gen.tblAt BC.Gen.cast5_S7 (e.setWidth 64).toNat 32
def g8 (e : BitVec 32) : BitVec 32 := BC.Gen.tblAt BC.Gen.cast5_S8 (e.setWidth 64).toNat 32
/-- look-ups into the model's tables, as `schedule::key_schedule` of the model performs them -/
def m5 (e : BitVec 32) : BitVec 32 := Consts.S5[e.toNat]!
def m6 (e : BitVec 32) : BitVec 32 := Consts.S6[e.toNat]!
def m7 (e : BitVec 32) : BitVec 32 := Consts.S7[e.toNat]!
def m8 (e : BitVec 32) : BitVec 32 := Consts.S8[e.toNat]!

theorem g5_eq : g5 = m5 := by
  funext e; simp only [g5, m5, BC.GenCipher.Cast5.idx]; exact BC.GenCipher.Cast5.tbl_eq _ _ BC.GenTables.cast5_S5_eq _
theorem g6_eq : g6 = m6 := by
  funext e; simp only [g6, m6, BC.GenCipher.Cast5.idx]; exact BC.GenCipher.Cast5.tbl_eq _ _ BC.GenTables.cast5_S6_eq _
theorem g7_eq : g7 = m7 := by
  funext e; simp only [g7, m7, BC.GenCipher.Cast5.idx]; exact BC.GenCipher.Cast5.tbl_eq _ _ BC.GenTables.cast5_S7_eq _
theorem g8_eq : g8 = m8 := by
  funext e; simp only [g8, m8, BC.GenCipher.Cast5.idx]; exact BC.GenCipher.Cast5.tbl_eq _ _ BC.GenTables.cast5_S8_eq _

/-- the fields `masking: [u32; 16]`, `rotate: [u8; 16]`, `small_key: bool` flattened -/
def c5Tuple (ks : Keys) :=
  (''' + ", ".join(f"ks.masking[{i}]!" for i in range(16)) + ", " + ", ".join(f"ks.rotate[{i}]!" for i in range(16)) + ''', (if ks.small_key then 1#1 else 0#1))

/-- (3) `ksP` at the model's look-ups is the model's key schedule -/
theorem ksP_model (sk : Bool) (k : BitVec 128) :
    ksP m5 m6 m7 m8 (k.extractLsb' 96 32) (k.extractLsb' 64 32) (k.extractLsb' 32 32) (k.extractLsb' 0 32) (if sk then 1#1 else 0#1) =
      c5Tuple (keySchedule sk k) := by
  c5_kernel_rfl
''')
def gword(n, j):
    parts=[]
    for b in range(4*j,4*j+4):
        parts.append(f"(key.extractLsb' {8*(n-1-b)} 8)" if b<n else "0x0#8")
    if all(p=="0x0#8" for p in parts): return "0x0#32"
    return "("+" ++ ".join(parts)+")"
for n in (5,10,11,16):
    pad=128-8*n
    K = "key" if n==16 else f"(key ++ 0#{pad})"
    skb="0x1#1" if n<=10 else "0x0#1"
    sk="true" if n<=10 else "false"
    o.append(f"/-! ### {n}-byte keys -/\n")
    o.append(f"/-- (1) the regenerated function is `ksP` at the regenerated tables -/\ntheorem new_from_slice_{n}_eq_P (key : BitVec {8*n}) :\n    cast5_new_from_slice_{n} key = ksP g5 g6 g7 g8 {gword(n,0)} {gword(n,1)} {gword(n,2)} {gword(n,3)} {skb} := by\n  c5_kernel_rfl\n")
    for j in range(4):
        o.append(f"theorem word_{n}_{j} (key : BitVec {8*n}) : {gword(n,j)} = (({K} : BitVec 128)).extractLsb' {96-32*j} 32 := by\n  bv_decide")
    o.append("")
    o.append(f"/-- `Cast5::new_from_slice` on a {n}-byte key, as regenerated from the Rust source, computes the model's key schedule -/\ntheorem new_from_slice_{n}_eq (key : BitVec {8*n}) :\n    cast5_new_from_slice_{n} key = c5Tuple (keySchedule {sk} ({K} : BitVec 128)) := by\n  rw [new_from_slice_{n}_eq_P, g5_eq, g6_eq, g7_eq, g8_eq]\n  have h := ksP_model {sk} ({K} : BitVec 128)\n  rw [← word_{n}_0 key, ← word_{n}_1 key, ← word_{n}_2 key, ← word_{n}_3 key] at h\n  exact h\n")
o.append("end BC.GenKeys.Cast5\n")
open('/tmp/dev/w_morex/src/BlockCiphers/Proofs/GenKeysCast5.lean','w').write("\n".join(o))
