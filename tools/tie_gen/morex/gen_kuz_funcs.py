import sys; sys.path.insert(0,'/tmp/dev/w_morex/scripts')
from gen_kuz_common import *
REF="kuznyechik_compact_encrypt_block"; REFD="kuznyechik_compact_decrypt_block"
o=[]
o.append('''import BlockCiphers.Gen.Cipher_Kuznyechik_fn
import BlockCiphers.Proofs.GenCipherKuznyechik
/-!
Ties of the helper functions of Kuznyechik's compact software backend, regenerated as functions of their own
(`Gen/Cipher_Kuznyechik_fn.lean`): `l_step(msg, i)` of /repo/kuznyechik/src/utils.rs for the sixteen values of `i`, `lsx` and
`lsx_inv` of compact_soft/backends.rs.  Blocks are `BitVec 128` memory images (byte 0 = most significant byte).  For ALL inputs

    Gen.Fn.kuznyechik_l_step_<i> msg          = Kuznyechik.l_step msg i
    Gen.Fn.kuznyechik_compact_lsx block key     = Compact.lsx block key
    Gen.Fn.kuznyechik_compact_lsx_inv block key = Compact.lsx_inv block key

Proof: kernel-checked definitional equality with the byte-level functions of Proofs/GenKuznyechikBytes.lean, then their
`…_pack` lemmas; every generated function carries its own copy of the computed GF tables / `P_INV`, identified with those of
`encrypt_block` / `decrypt_block` (Proofs/GenCipherKuznyechik.lean) by comparing the array literals.
-/
set_option maxRecDepth 100000
namespace BC.GenCipher.Kuznyechik
open BC BC.Kuznyechik BC.Gen.Fn
''')
def tset(pre): return " ".join(f"{pre}_tbl{j}" for j in range(7))
def gf(name, pre):
    for j in range(7):
        o.append(f"theorem {name}_t{j} : {pre}_tbl{j} = {REF}_tbl{j} := rfl")
    o.append(f"theorem {name}_gf : GfOK {tset(pre)} := by\n  rw ["+", ".join(f"{name}_t{j}" for j in range(7))+"]; exact gfE\n")
for i in range(16):
    pre=f"kuznyechik_l_step_{i}"
    gf(f"ls{i}",pre)
    o.append(f"/-- the regenerated `l_step(msg, {i})` is the model's -/\ntheorem kuznyechik_l_step_{i}_eq (msg : BitVec 128) : {pre} msg = l_step msg {i} := by\n  have h : {pre} msg = (lstepB{i} {tset(pre)} (unpackB msg)).pack := by kuz_kernel_rfl\n  rw [h, lstepB{i}_pack _ _ _ _ _ _ _ ls{i}_gf, pack_unpack]\n")
pre="kuznyechik_compact_lsx"
gf("lsx",pre)
o.append(f"/-- the regenerated `lsx` is the model's `Compact.lsx` -/\ntheorem kuznyechik_compact_lsx_eq (block key : BitVec 128) : {pre} block key = Compact.lsx block key := by\n  have h : {pre} block key = (lsxB {tset(pre)} (unpackB block) key).pack := by kuz_kernel_rfl\n  rw [h, lsxB_pack _ _ _ _ _ _ _ lsx_gf, pack_unpack]\n")
pre="kuznyechik_compact_lsx_inv"
gf("lsxi",pre)
o.append(f"theorem lsxi_t7 : {pre}_tbl7 = {REFD}_tbl7 := rfl\ntheorem lsxi_pinv : PinvOK {pre}_tbl7 := by\n  rw [lsxi_t7]; exact pinvD\n")
o.append(f"/-- the regenerated `lsx_inv` is the model's `Compact.lsx_inv` -/\ntheorem kuznyechik_compact_lsx_inv_eq (block key : BitVec 128) : {pre} block key = Compact.lsx_inv block key := by\n  have h : {pre} block key = (lsxInvB {tset(pre)} {pre}_tbl7 (unpackB block) key).pack := by kuz_kernel_rfl\n  rw [h, lsxInvB_pack _ _ _ _ _ _ _ lsxi_gf _ lsxi_pinv, pack_unpack]\n")
o.append("end BC.GenCipher.Kuznyechik\n")
open('/tmp/dev/w_morex/src/BlockCiphers/Proofs/GenFuncsKuznyechik.lean','w').write("\n".join(o))
