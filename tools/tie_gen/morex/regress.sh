#!/bin/bash
cd /tmp/dev/w_morex
export VERIF_REPO=/tmp/dev/repo_clean
rm -rf reg; mkdir reg
python3 -c "
import funcs
b=funcs.generate_all('/tmp/dev/w_morex/reg')
print('BROKEN',b)
"
for f in /verif/lean/BlockCiphers/Gen/*.lean; do
  b=$(basename $f)
  [ "$b" = Tables.lean ] && continue
  cmp $f reg/$b || echo DIFF $b
done
ls reg | wc -l
echo REGRESSION-DONE
