ms=[f"m{i}" for i in range(16)]; rs=[f"r{i}" for i in range(16)]
pat="("+", ".join(ms+rs+["_sk"])+")"
args=" ".join(ms+rs)
o=[]
o.append('''import BlockCiphers.Gen.Cipher_Cast5
import BlockCiphers.Gen.Keys_Cast5
import BlockCiphers.Proofs.GenCipherCast5
import BlockCiphers.Proofs.GenKeysCast5
import BlockCiphers.Proofs.GenCipherSpeck
import BlockCiphers.Proofs.Cast5
import BlockCiphers.Proofs.Cast5Spec
/-!
Code-level theorems for CAST5 (CAST-128), key lengths 5, 10 (12 rounds) and 11, 16 bytes (16 rounds): statements mention
ONLY the regenerated code (`BC.Gen.Fn.cast5_new_from_slice_<n>`, `cast5_16r_…` / `cast5_12r_encrypt_block` / `…_decrypt_block`)
and the specification `BC.Cast5.Spec` (RFC 2144 §2.2–2.5).  Composition of
  (1) `BC.Cast5.decrypt_encrypt`, `encrypt_decrypt` (Proofs/Cast5.lean; Thm C01), `encrypt_eq_spec`, `decrypt_eq_spec`
      (Proofs/Cast5Spec.lean; Thm C09),
  (2) `BC.GenCipher.Cast5.cast5_16r_encrypt_block_eq` … `cast5_12r_decrypt_block_eq`,
  (3) `BC.GenKeys.Cast5.new_from_slice_<n>_eq`.
The regenerated `encrypt_block` / `decrypt_block` exist in two specialisations on the struct field `small_key`
(`cast5_12r_*`: `small_key = true`, `cast5_16r_*`: `false`); `small_key_<n>` shows that the constructor sets the field to the
value of the specialisation used.  RFC 2144 specifies the rounds on given masking/rotation subkeys (`Spec.encrypt ks rounds`);
its key schedule is not part of `BC.Cast5.Spec`, so the conformance statements are about the subkeys the regenerated
constructor returns (`keysOf`, a plain record of the returned words), with the RFC's round count `Spec.rounds (8·n)`.
`new_<n>`: the model's `Cast5.new` on the `n` key bytes is the schedule of the zero-padded key used in (3).
-/
set_option maxRecDepth 100000
namespace BC.Code.Cast5
open BC BC.Gen.Fn BC.Cast5

open Lean Elab Tactic Meta in
elab "c5_kernel_rfl'" : tactic => do
  let g ← getMainGoal
  let t ← instantiateMVars (← g.getType)
  let some (_, lhs, _) := t.eq? | throwError "c5_kernel_rfl': the goal is not an equality"
  g.assign (← mkEqRefl lhs)
''')
tupT=" × ".join(["BitVec 32"]*16+["BitVec 8"]*16+["BitVec 1"])
o.append(f"/-- the subkeys returned by the regenerated constructor, as the record the Spec takes -/\ndef keysOf (t : {tupT}) : Keys :=\n  match t with\n  | ({', '.join(ms+rs+['sk'])}) => BC.GenCipher.Cast5.mk {args} (sk == 1#1)\n")
mk_elems=" ".join(f"(keySchedule sk k).masking[{i}]!" for i in range(16))+" "+" ".join(f"(keySchedule sk k).rotate[{i}]!" for i in range(16))
o.append(f"/-- the struct rebuilt from its flattened fields is the struct -/\ntheorem mk_keySchedule (sk : Bool) (k : BitVec 128) :\n    BC.GenCipher.Cast5.mk {mk_elems} sk = keySchedule sk k := by\n  c5_kernel_rfl'\n")
for n in (5,10,11,16):
    pad=128-8*n
    K = "key" if n==16 else f"(key ++ 0#{pad})"
    small = n<=10
    sk="true" if small else "false"
    var="12r" if small else "16r"
    R=12 if small else 16
    o.append(f"/-! ### {n}-byte keys ({R} rounds) -/\n")
    for ed,ED in (("enc","encrypt"),("dec","decrypt")):
        o.append(f"/-- `Cast5::new_from_slice(key).{ED}_block(b)` for a {n}-byte key, on the regenerated code -/\ndef {ed}_{n} (key : BitVec {8*n}) (b : BitVec 64) : BitVec 64 :=\n  match cast5_new_from_slice_{n} key with\n  | {pat} => cast5_{var}_{ED}_block {args} b\n")
    o.append(f"/-- the constructor sets `small_key = {sk}`: the `{var}` specialisation is the one `encrypt_block` runs -/\ntheorem small_key_{n} (key : BitVec {8*n}) : (cast5_new_from_slice_{n} key)" + ".2"*32 + f" = {'1' if small else '0'}#1 := rfl\n")
    for ed,ED in (("enc","encrypt"),("dec","decrypt")):
        o.append(f"theorem {ed}_{n}_eq_impl (key : BitVec {8*n}) (b : BitVec 64) :\n    {ed}_{n} key b = BC.Cast5.{ED} (keySchedule {sk} ({K} : BitVec 128)) b := by\n  unfold {ed}_{n}\n  rw [BC.GenKeys.Cast5.new_from_slice_{n}_eq key]\n  simp only [BC.GenKeys.Cast5.c5Tuple]\n  rw [BC.GenCipher.Cast5.cast5_{var}_{ED}_block_eq, mk_keySchedule]\n")
    o.append(f"theorem keysOf_{n} (key : BitVec {8*n}) : keysOf (cast5_new_from_slice_{n} key) = keySchedule {sk} ({K} : BitVec 128) := by\n  rw [BC.GenKeys.Cast5.new_from_slice_{n}_eq key]\n  exact mk_keySchedule {sk} _\n")
    o.append(f"theorem dec_enc_{n} (key : BitVec {8*n}) (b : BitVec 64) : dec_{n} key (enc_{n} key b) = b := by\n  rw [enc_{n}_eq_impl, dec_{n}_eq_impl, BC.Cast5.decrypt_encrypt]\n")
    o.append(f"theorem enc_dec_{n} (key : BitVec {8*n}) (b : BitVec 64) : enc_{n} key (dec_{n} key b) = b := by\n  rw [enc_{n}_eq_impl, dec_{n}_eq_impl, BC.Cast5.encrypt_decrypt]\n")
    o.append(f"/-- the regenerated code runs RFC 2144's rounds ({R} = `Spec.rounds {8*n}`) on the subkeys its constructor returns -/\ntheorem enc_{n}_eq_spec (key : BitVec {8*n}) (b : BitVec 64) :\n    enc_{n} key b = Spec.encrypt (keysOf (cast5_new_from_slice_{n} key)) (Spec.rounds {8*n}) b := by\n  rw [enc_{n}_eq_impl, keysOf_{n}, encrypt_eq_spec]; rfl\n")
    o.append(f"theorem dec_{n}_eq_spec (key : BitVec {8*n}) (b : BitVec 64) :\n    dec_{n} key b = Spec.decrypt (keysOf (cast5_new_from_slice_{n} key)) (Spec.rounds {8*n}) b := by\n  rw [dec_{n}_eq_impl, keysOf_{n}, decrypt_eq_spec]; rfl\n")
    blist=", ".join([f"(key >>> {8*(n-1-i)}).setWidth 8" for i in range(n)]+["0#8"]*(16-n))
    o.append(f"/-- the model's `new` on the {n} key bytes is the schedule of the zero-padded key -/\ntheorem new_{n} (key : BitVec {8*n}) : BC.Cast5.new (unpackBE {n} key) = some (keySchedule {sk} ({K} : BitVec 128)) := by\n  have hp : packBE 16 (pad (unpackBE {n} key)) = ({K} : BitVec 128) := by\n    have hl : pad (unpackBE {n} key) = [{blist}] := rfl\n    rw [hl]\n    show BC.Speck.fromBE 128 _ = _\n    simp only [BC.GenCipher.Speck.fromBE_fold, List.foldl_cons, List.foldl_nil]\n    bv_decide\n  have hlen : (unpackBE {n} key).length = {n} := by simp [unpackBE]\n  simp only [BC.Cast5.new, hlen, hp]\n  rfl\n")
o.append("end BC.Code.Cast5\n")
open('/tmp/dev/w_morex/src/BlockCiphers/Proofs/CodeCast5.lean','w').write("\n".join(o))
