import sys; sys.path.insert(0,'/tmp/dev/w_morex/scripts')
from gen_kuz_common import *
K=[f"k{i}" for i in range(10)]
ks=" ".join(K)
TE=" ".join(f"kuznyechik_compact_encrypt_block_tbl{j}" for j in range(7))
TD=" ".join(f"kuznyechik_compact_decrypt_block_tbl{j}" for j in range(7))
PINV="kuznyechik_compact_decrypt_block_tbl7"
o=[]
o.append('''import BlockCiphers.Gen.Cipher_Kuznyechik
import BlockCiphers.Proofs.GenKuznyechikBytes
/-!
Tie of the regenerated `EncBackend::encrypt_block` / `DecBackend::decrypt_block` of the compact software backend of
Kuznyechik (`Gen/Cipher_Kuznyechik.lean`, translated from /repo/kuznyechik/src/compact_soft/backends.rs with `l_step`,
the `GFT_*` tables of gft.rs and `P_INV` of consts.rs computed by running the crate's `const fn`s) to the hand-written model
`BC.Kuznyechik.Compact`: for ALL round keys `k0 … k9` (arbitrary 128-bit values, not only key-schedule outputs) and ALL blocks

    Gen.Fn.kuznyechik_compact_encrypt_block k0 … k9 b = Compact.encrypt_block ⟨k0, …, k9⟩ b
    Gen.Fn.kuznyechik_compact_decrypt_block k0 … k9 b = Compact.decrypt_block ⟨k0, …, k9⟩ b

Proof.  (1) the generated text (one flat chain of ≈ 4 300 `let`s on single bytes) is *definitionally* the byte-level
composition `encB` / `decB` of `Proofs/GenKuznyechikBytes.lean` — checked by the kernel (`kuz_kernel_rfl`; the kernel
shares sub-terms, the elaborator's `rfl` does not); (2) the byte-level functions are the model's functions on the packed
block (`lsxB_pack`, `lsxInvB_pack`, `xB_pack`), given that the tables computed by the translator are the model's
(`gfE`, `gfD`, `pinvD`: `decide +kernel` over the 256 indices of each table).
-/
set_option maxRecDepth 100000
namespace BC.GenCipher.Kuznyechik
open BC BC.Kuznyechik BC.Gen.Fn
''')
COEFV=[148,32,133,16,194,192,251]
def gfok(name, pre):
    s=""
    for j in range(7):
        s+=f"theorem {name}_{j} : ∀ n : Fin 256, BC.Gen.tblAt {pre}_tbl{j} n.val 8 = mul_gf256 {COEFV[j]}#8 (BitVec.ofNat 8 n.val) := by decide +kernel\n"
    s+=f"theorem {name} : GfOK "+" ".join(f"{pre}_tbl{j}" for j in range(7))+" :=\n  ⟨"+", ".join(f"gf_of_fin _ _ {name}_{j}" for j in range(7))+"⟩\n"
    return s
o.append(gfok("gfE","kuznyechik_compact_encrypt_block"))
o.append(gfok("gfD","kuznyechik_compact_decrypt_block"))
o.append(f"theorem pinvD_e : ∀ n : Fin 256, BC.Gen.tblAt {PINV} n.val 8 = lut P_INV (BitVec.ofNat 8 n.val) := by decide +kernel\ntheorem pinvD : PinvOK {PINV} := at_of_fin _ _ pinvD_e\n")
e="unpackB b"
for i in range(9): e=f"lsxB {TS} ({e}) k{i}"
o.append(f"/-- `for i in 0..9 {{ lsx(&mut b, &self.0[i]) }}; x(&mut b, &self.0[9])` on bytes -/\ndef encB {TARGS} ({ks} b : BitVec 128) : BitVec 128 :=\n  (xB ({e}) k9).pack\n")
d="unpackB b"
for i in range(9): d=f"lsxInvB {TS} pinv ({d}) k{9-i}"
o.append(f"/-- `for i in 0..9 {{ lsx_inv(&mut b, &self.0[9 - i]) }}; x(&mut b, &self.0[0])` on bytes -/\ndef decB {TARGS} (pinv : Array Nat) ({ks} b : BitVec 128) : BitVec 128 :=\n  (xB ({d}) k0).pack\n")
o.append(f"theorem encrypt_block_eq_B ({ks} b : BitVec 128) :\n    kuznyechik_compact_encrypt_block {ks} b = encB {TE} {ks} b := by\n  kuz_kernel_rfl\n")
o.append(f"theorem decrypt_block_eq_B ({ks} b : BitVec 128) :\n    kuznyechik_compact_decrypt_block {ks} b = decB {TD} {PINV} {ks} b := by\n  kuz_kernel_rfl\n")
o.append(f"theorem encB_eq {TARGS} (h : GfOK {TS}) ({ks} b : BitVec 128) :\n    encB {TS} {ks} b = Compact.encrypt_block ⟨{', '.join(K)}⟩ b := by\n  simp only [encB, Compact.encrypt_block, List.foldl, xB_pack, lsxB_pack {TS} h, pack_unpack]\n")
o.append(f"theorem decB_eq {TARGS} (h : GfOK {TS}) (pinv : Array Nat) (hp : PinvOK pinv) ({ks} b : BitVec 128) :\n    decB {TS} pinv {ks} b = Compact.decrypt_block ⟨{', '.join(K)}⟩ b := by\n  simp only [decB, Compact.decrypt_block, List.foldl, xB_pack, lsxInvB_pack {TS} h pinv hp, pack_unpack]\n")
o.append(f"/-- the regenerated `EncBackend::encrypt_block` (compact_soft) is the model's `Compact.encrypt_block`, all keys, all blocks -/\ntheorem kuznyechik_compact_encrypt_block_eq ({ks} b : BitVec 128) :\n    kuznyechik_compact_encrypt_block {ks} b = Compact.encrypt_block ⟨{', '.join(K)}⟩ b := by\n  rw [encrypt_block_eq_B, encB_eq _ _ _ _ _ _ _ gfE]\n")
o.append(f"/-- the regenerated `DecBackend::decrypt_block` (compact_soft) is the model's `Compact.decrypt_block`, all keys, all blocks -/\ntheorem kuznyechik_compact_decrypt_block_eq ({ks} b : BitVec 128) :\n    kuznyechik_compact_decrypt_block {ks} b = Compact.decrypt_block ⟨{', '.join(K)}⟩ b := by\n  rw [decrypt_block_eq_B, decB_eq _ _ _ _ _ _ _ gfD _ pinvD]\n")
o.append("end BC.GenCipher.Kuznyechik\n")
open('/tmp/dev/w_morex/src/BlockCiphers/Proofs/GenCipherKuznyechik.lean','w').write("\n".join(o))
