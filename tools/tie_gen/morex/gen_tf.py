import sys
variants=[(256,4,19,32,'valid256','matches256','ROT4','PI4'),(512,8,19,64,'valid512','matches512','ROT8','PI8'),(1024,16,21,128,'valid1024','matches1024','ROT16','PI16')]
only = [int(a) for a in sys.argv[1:]] or [256,512,1024]
W="BitVec 64"
out=[]
out.append('''import BlockCiphers.Gen.Cipher_Threefish
import BlockCiphers.Gen.Keys_Threefish
import BlockCiphers.Proofs.GenCipherThreefish
import BlockCiphers.Proofs.GenKeysThreefish
import BlockCiphers.Proofs.Threefish
import BlockCiphers.Proofs.ThreefishSpec
/-!
Code-level theorems for Threefish-256/512/1024: statements mention ONLY the regenerated code
(`BC.Gen.Fn.threefish<N>_new_with_tweak`, `threefish<N>_encrypt_block_u64`, `threefish<N>_decrypt_block_u64`) and the
specification `BC.Spec.Threefish` (Skein 1.3, section 3.3).

What is regenerated: the constructor `new_with_tweak(key: &[u8; 8·N_w], tweak: &[u8; 16])` (byte key, byte tweak) and the
word-level `encrypt_block_u64` / `decrypt_block_u64` (`&mut [u64; N_w]`).  So `enc<N> key tweak b` takes the key and the
tweak as `BitVec`s (byte 0 = most significant byte; `unpackBE n key` on the Spec side) and the block as the tuple of
its `N_w` words (`vecN` / `tupN` of Proofs/GenCipherThreefish.lean convert between tuples and `Vector (BitVec 64) N_w`;
they are plain re-packagings, not model code).  `KeyInit::new` and the byte-level `encrypt_block` wrappers
(`from_le_bytes` / `to_le_bytes` loops) are not regenerated and therefore not covered here.

Composition of
  (1) `BC.Threefish.decryptU64_encryptU64`, `encryptU64_decryptU64` (Proofs/Threefish.lean; Thm C01),
      `encryptU64_eq_spec`, `loadWords_eq_spec` (Proofs/ThreefishSpec.lean; Thm C10),
  (2) `BC.GenCipher.Threefish.threefish<N>_encrypt_block_u64_eq` / `…_decrypt_block_u64_eq`,
  (3) `BC.GenKeys.Threefish.new_with_tweak_<N>_eq`.
The Spec has no decryption function (Skein uses Threefish in the forward direction only); `dec<N>_spec` states that the
regenerated decryption inverts the specified encryption.
-/
set_option maxRecDepth 100000
namespace BC.Code.Threefish
open BC BC.Gen.Fn BC.Threefish BC.GenCipher.Threefish

/-! ### glue: vector literals -/
''')
def vlit(n):
    cases=" ".join(f"| {i}, _ => rfl" for i in range(n))
    elems=", ".join(f"v[{i}]" for i in range(n))
    return f"theorem vlit{n} {{α : Type}} (v : Vector α {n}) : #v[{elems}] = v := by\n  apply Vector.ext; intro i hi\n  match i, hi with\n  {cases}\n  | n + {n}, h => exact absurd h (by omega)\n"
for n in (4,8,16,19,21):
    out.append(vlit(n))
out.append('''/-- the two tweak words on the Spec side -/
theorem tweak0 (T : Bytes) (hT : T.length = 16) : le64 T 0 = (BC.Spec.Threefish.bytesToWords 2 T).getD 0 0#64 := by
  rw [← loadWords_eq_spec 2 T (by omega), ← rd_eq_getD, rd_eq _ _ (by omega)]
  simp [loadWords]
theorem tweak1 (T : Bytes) (hT : T.length = 16) : le64 T 8 = (BC.Spec.Threefish.bytesToWords 2 T).getD 1 0#64 := by
  rw [← loadWords_eq_spec 2 T (by omega), ← rd_eq_getD, rd_eq _ _ (by omega)]
  simp [loadWords]
theorem len16 (x : BitVec 128) : (unpackBE 16 x).length = 16 := by simp [unpackBE]
''')
for (N,nw,rows,kb,valid,matches,ROT,PI) in variants:
    if N not in only: continue
    sk=[f"sk{s}_{i}" for s in range(rows) for i in range(nw)]
    bs=[f"b{i}" for i in range(nw)]
    tupT=" × ".join([W]*nw)
    skpat="("+", ".join(sk)+")"
    bpat="("+", ".join(bs)+")"
    ska=" ".join(sk); ba=" ".join(bs)
    out.append(f"/-! ### Threefish-{N} -/\n")
    out.append(f"theorem len{kb} (x : BitVec {N}) : (unpackBE {kb} x).length = {kb} := by simp [unpackBE]\n")
    # rebuild lemma
    rowlits=[ "#v["+", ".join(f"rd (Cipher.row (p := tf{N}) ⟨sk⟩ {s}) {i}" for i in range(nw))+"]" for s in range(rows)]
    out.append(f"/-- the subkey table rebuilt from its flattened words is the table -/\ntheorem rebuild{N} (sk : Vector (Vector ({W}) {nw}) {rows}) :\n    (#v["+",\n      ".join(rowlits)+f"] : Vector (Vector ({W}) {nw}) {rows}) = sk := by\n"
      + "".join(f"  have e{s} : ({rowlits[s]} : Vector ({W}) {nw}) = sk[{s}] := vlit{nw} sk[{s}]\n" for s in range(rows))
      + "  rw ["+", ".join(f"e{s}" for s in range(rows))+f"]\n  exact vlit{rows} sk\n")
    for ed,ED,XU in (("enc","encrypt","encryptU64"),("dec","decrypt","decryptU64")):
        out.append(f"/-- `Threefish{N}::new_with_tweak(key, tweak).{ED}_block_u64(b)` on the regenerated code -/\ndef {ed}{N} (key : BitVec {N}) (tweak : BitVec 128) (b : {tupT}) : {tupT} :=\n  match threefish{N}_new_with_tweak key tweak, b with\n  | {skpat}, {bpat} =>\n    threefish{N}_{ED}_block_u64 {ska} {ba}\n")
    for ed,ED,XU in (("enc","encrypt","encryptU64"),("dec","decrypt","decryptU64")):
        out.append(f"theorem {ed}{N}_eq_impl (key : BitVec {N}) (tweak : BitVec 128) (b : {tupT}) :\n    {ed}{N} key tweak b = tup{nw} ({XU} (newWithTweak tf{N} (unpackBE {kb} key) (unpackBE 16 tweak)) (vec{nw} b)) := by\n  unfold {ed}{N}\n  rw [BC.GenKeys.Threefish.new_with_tweak_{N}_eq key tweak]\n  generalize newWithTweak tf{N} (unpackBE {kb} key) (unpackBE 16 tweak) = c\n  obtain ⟨sk⟩ := c\n  obtain ⟨{', '.join(bs)}⟩ := b\n  simp only [BC.GenKeys.Threefish.skTuple{N}]\n  rw [threefish{N}_{ED}_block_u64_eq]\n  have h := rebuild{N} sk\n  exact congrArg (fun s => tup{nw} ({XU} (p := tf{N}) ⟨s⟩ #v[{', '.join(bs)}])) h\n")
    out.append(f"theorem vec{nw}_tup{nw} (v : Vector ({W}) {nw}) : vec{nw} (tup{nw} v) = v := vlit{nw} v\n" if N in (256,512,1024) else "")
    C=f"(newWithTweak tf{N} (unpackBE {kb} key) (unpackBE 16 tweak))"
    out.append(f"theorem dec_enc{N} (key : BitVec {N}) (tweak : BitVec 128) (b : {tupT}) : dec{N} key tweak (enc{N} key tweak b) = b := by\n  rw [enc{N}_eq_impl, dec{N}_eq_impl]\n  exact (congrArg (fun v => tup{nw} (decryptU64 {C} v)) (vec{nw}_tup{nw} _)).trans\n    ((congrArg tup{nw} (decryptU64_encryptU64 {valid} {C} (vec{nw} b))).trans (tup{nw}_vec{nw} b))\n")
    out.append(f"theorem enc_dec{N} (key : BitVec {N}) (tweak : BitVec 128) (b : {tupT}) : enc{N} key tweak (dec{N} key tweak b) = b := by\n  rw [enc{N}_eq_impl, dec{N}_eq_impl]\n  exact (congrArg (fun v => tup{nw} (encryptU64 {C} v)) (vec{nw}_tup{nw} _)).trans\n    ((congrArg tup{nw} (encryptU64_decryptU64 {valid} {C} (vec{nw} b))).trans (tup{nw}_vec{nw} b))\n")
    specw=f"BC.Spec.Threefish.encryptWords BC.Spec.Threefish.threefish{N} (BC.Spec.Threefish.bytesToWords {nw} (unpackBE {kb} key))\n        ((BC.Spec.Threefish.bytesToWords 2 (unpackBE 16 tweak)).getD 0 0#64) ((BC.Spec.Threefish.bytesToWords 2 (unpackBE 16 tweak)).getD 1 0#64)"
    out.append(f"/-- the regenerated Threefish-{N} = `TF` of Skein 1.3 on words (key and tweak given as bytes, `BytesToWords` of the paper) -/\ntheorem enc{N}_eq_spec_words (key : BitVec {N}) (tweak : BitVec 128) (b : {tupT}) :\n    enc{N} key tweak b = tup{nw} ({specw} (vec{nw} b)) := by\n  rw [enc{N}_eq_impl, newWithTweak_eq_u64]\n  have h := encryptU64_eq_spec tf{N} BC.Spec.Threefish.{ROT} BC.Spec.Threefish.{PI} {matches} (loadWords tf{N}.nw (unpackBE {kb} key)) (le64 (unpackBE 16 tweak) 0) (le64 (unpackBE 16 tweak) 8) (vec{nw} b)\n  rw [h, loadWords_eq_spec _ _ (len{kb} key), tweak0 _ (len16 tweak), tweak1 _ (len16 tweak)]\n  rfl\n")
    out.append(f"/-- … and on byte strings: `WordsToBytes` of the output words = `TF(K, T, P)` for `P = WordsToBytes` of the input words -/\ntheorem enc{N}_eq_spec (key : BitVec {N}) (tweak : BitVec 128) (b : {tupT}) :\n    BC.Spec.Threefish.wordsToBytes (vec{nw} (enc{N} key tweak b)) =\n      BC.Spec.Threefish.encrypt BC.Spec.Threefish.threefish{N} (unpackBE {kb} key) (unpackBE 16 tweak) (BC.Spec.Threefish.wordsToBytes (vec{nw} b)) := by\n  rw [enc{N}_eq_impl]\n  have h1 := congrArg BC.Spec.Threefish.wordsToBytes (vec{nw}_tup{nw} (encryptU64 {C} (vec{nw} b)))\n  have h2 := storeWords_eq_spec (encryptU64 {C} (vec{nw} b))\n  have h3 := encryptBlock_storeWords (p := tf{N}) {C} (vec{nw} b)\n  have h4 := threefish{N}_eq_spec (unpackBE {kb} key) (unpackBE 16 tweak) (storeWords (vec{nw} b)) (len{kb} key) (len16 tweak) (storeWords_length _)\n  have h5 := storeWords_eq_spec (vec{nw} b)\n  exact h1.trans (h2.symm.trans (h3.symm.trans (h4.trans (congrArg (BC.Spec.Threefish.encrypt BC.Spec.Threefish.threefish{N} (unpackBE {kb} key) (unpackBE 16 tweak)) h5))))\n")
    out.append(f"/-- the regenerated decryption inverts the specified encryption -/\ntheorem dec{N}_spec (key : BitVec {N}) (tweak : BitVec 128) (b : {tupT}) :\n    dec{N} key tweak (tup{nw} ({specw} (vec{nw} b))) = b := by\n  rw [← enc{N}_eq_spec_words, dec_enc{N}]\n")
out.append("end BC.Code.Threefish\n")
open('/tmp/dev/w_morex/out/CodeThreefish.lean','w').write("\n".join(out))
