import sys; sys.path.insert(0,'/tmp/dev/w_morex/scripts')
from gen_kuz_common import *
o=[]
o.append('''import BlockCiphers.Gen.Tables
import BlockCiphers.Prelude.GenTypes
import BlockCiphers.Impl.Kuznyechik
import BlockCiphers.Proofs.KuznyechikBytes
import BlockCiphers.Proofs.KuznyechikGf
import BlockCiphers.Proofs.GenTables
import Std.Tactic.BVDecide
import Lean.Elab.Tactic
/-!
Byte-level form of the compact Kuznyechik backend, shared by the ties of the regenerated
`compact_soft` functions (`Proofs/GenCipherKuznyechik.lean`, `Proofs/GenKeysKuznyechik.lean`).

The regenerated functions work on the sixteen bytes of a block one by one (`Gen/Cipher_Kuznyechik.lean`: ≈ 4 300 `let`s
for `encrypt_block`); the model `BC.Kuznyechik.Compact` works on the 128-bit memory image with `getb` / `setb`.
`B16` is the record of the sixteen bytes, `lstepB<i>` is `l_step(msg, i)` on it (one byte replaced by `lnew` of the
sixteen bytes, rotated by `i`), `sB` / `sInvB` the S-box loops, `xB` the key addition; the tables are the regenerated
ones (`Gen.kuznyechik_P`, and the seven GF(2^8) multiplication tables / `P_INV` that the translator computed by running
the crate's `const fn`s — passed as parameters `t0 … t6`, `pinv`, since every generated function carries its own copy).
Each `…_pack` lemma states that the byte-level function is the model's function on the packed block, for ALL inputs,
given that the tables agree with the model's (`GfOK`, proved per generated function by `decide +kernel` over the 256 indices).
-/
set_option maxRecDepth 100000
set_option linter.unusedSimpArgs false
set_option linter.unusedVariables false
namespace BC.GenCipher.Kuznyechik
open BC BC.Kuznyechik
''')
o.append(KERNEL_RFL)
o.append(common())
o.append("/-! ### packing -/\n")
o.append("theorem pack_unpack (v : BitVec 128) : (unpackB v).pack = v := by\n  simp only [unpackB, B16.pack]\n  bv_decide\n")
o.append("theorem xB_pack (m : B16) (k : BitVec 128) : (xB m k).pack = Compact.x m.pack k := by\n  obtain ⟨"+", ".join(B)+"⟩ := m\n  simp only [xB, B16.pack, Compact.x]\n  bv_decide\n")
o.append("theorem xorB_pack (m k : B16) : (xorB m k).pack = Compact.x m.pack k.pack := by\n  obtain ⟨"+", ".join(B)+"⟩ := m\n  obtain ⟨"+", ".join("c"+str(i) for i in range(16))+"⟩ := k\n  simp only [xorB, B16.pack, Compact.x]\n  bv_decide\n")
cat=" ++ ".join(B)
for k in range(16):
    o.append(f"theorem getb_pack{k} ({' '.join(B)} : BitVec 8) : getb ({cat}) {k} = b{k} := by\n  simp only [getb, Nat.reduceSub, Nat.reduceMul]\n  bv_decide")
for k in range(16):
    cat2=" ++ ".join(("v" if i==k else f"b{i}") for i in range(16))
    o.append(f"theorem setb_pack{k} ({' '.join(B)} v : BitVec 8) : setb ({cat}) {k} v = {cat2} := by\n  simp only [setb, Nat.reduceSub, Nat.reduceMul]\n  bv_decide")
o.append("")
o.append("theorem mapBytes_cat (f : BitVec 8 → BitVec 8) ("+" ".join(B)+" : BitVec 8) :\n    mapBytes f ("+cat+") = "+" ++ ".join(f"f b{i}" for i in range(16))+" := by\n  apply ext_getb; intro k hk\n  rw [getb_mapBytes f _ k hk]\n  have hc : "+" ∨ ".join(f"k = {i}" for i in range(16))+" := by omega\n  rcases hc with "+" | ".join("h" for _ in range(16))+" <;> subst h <;>\n    simp only ["+", ".join(f"getb_pack{i}" for i in range(16))+"]\n")
o.append('''/-! ### tables -/

theorem idx8 (b : BitVec 8) : (b.setWidth 64).toNat = b.toNat := by
  simp only [BitVec.toNat_setWidth]; have := b.isLt; omega

theorem at_of_fin (t : Array Nat) (v : Vector (BitVec 8) 256)
    (h : ∀ n : Fin 256, BC.Gen.tblAt t n.val 8 = lut v (BitVec.ofNat 8 n.val)) (b : BitVec 8) :
    BC.Gen.tblAt t (b.setWidth 64).toNat 8 = lut v b := by
  have := h ⟨b.toNat, b.isLt⟩
  simp only [BitVec.ofNat_toNat, BitVec.setWidth_eq] at this
  rw [idx8]; exact this

/-- a computed GF(2^8) multiplication table, checked against `mul_gf256 a` (256 short loops; looking the model's
`GFT_*` vectors up instead would rebuild the whole vector for every index) -/
theorem gf_of_fin (t : Array Nat) (a : BitVec 8)
    (h : ∀ n : Fin 256, BC.Gen.tblAt t n.val 8 = mul_gf256 a (BitVec.ofNat 8 n.val)) (b : BitVec 8) :
    BC.Gen.tblAt t (b.setWidth 64).toNat 8 = lut (mul_table_gf256 a) b := by
  have := h ⟨b.toNat, b.isLt⟩
  simp only [BitVec.ofNat_toNat, BitVec.setWidth_eq] at this
  rw [idx8, lut_mul_table]; exact this

theorem p_entry : ∀ n : Fin 256, BC.Gen.tblAt BC.Gen.kuznyechik_P n.val 8 = lut P (BitVec.ofNat 8 n.val) := by decide +kernel
theorem p_at (b : BitVec 8) : BC.Gen.tblAt BC.Gen.kuznyechik_P (b.setWidth 64).toNat 8 = lut P b := at_of_fin _ _ p_entry b
''')
o.append(f"/-- the seven computed tables are the model's `GFT_*` (in the order of their first use in `l_step`) -/\nstructure GfOK {TARGS} : Prop where\n"+"\n".join(f"  h{j} : ∀ b : BitVec 8, BC.Gen.tblAt t{j} (b.setWidth 64).toNat 8 = lut {GFT[j]} b" for j in range(7))+"\n")
o.append("/-- `PinvOK pinv`: the computed `P_INV` is the model's -/\ndef PinvOK (pinv : Array Nat) : Prop := ∀ b : BitVec 8, BC.Gen.tblAt pinv (b.setWidth 64).toNat 8 = lut P_INV b\n")
o.append("/-! ### the steps -/\n")
o.append("theorem sB_pack (m : B16) : (sB m).pack = mapBytes (lut P) m.pack := by\n  obtain ⟨"+", ".join(B)+"⟩ := m\n  simp only [sB, B16.pack, mapBytes_cat, p_at]\n")
o.append("theorem sInvB_pack (pinv : Array Nat) (hp : PinvOK pinv) (m : B16) : (sInvB pinv m).pack = mapBytes (lut P_INV) m.pack := by\n  obtain ⟨"+", ".join(B)+"⟩ := m\n  simp only [sInvB, B16.pack, mapBytes_cat, hp _]\n")
gp=", ".join(f"getb_pack{i}" for i in range(16)); sp=", ".join(f"setb_pack{i}" for i in range(16))
for i in range(16):
    o.append(f"theorem get_idx_{i} : "+" ∧ ".join(f"get_idx {b} {i} = {(b-i)&15}" for b in range(16))+" := by decide")
o.append("")
for i in range(16):
    o.append(f"theorem lstepB{i}_pack {TARGS} (h : GfOK {TS}) (m : B16) : (lstepB{i} {TS} m).pack = l_step m.pack {i} := by\n  obtain ⟨"+", ".join(B)+f"⟩ := m\n  simp only [lstepB{i}, lnew, B16.pack, l_step, get_m, get_idx_{i}, {gp}, {sp}, h.h0, h.h1, h.h2, h.h3, h.h4, h.h5, h.h6]")
o.append("")
o.append("theorem range16 : List.range 16 = [0,1,2,3,4,5,6,7,8,9,10,11,12,13,14,15] := by decide +kernel\n")
o.append(f"theorem lfwdB_pack {TARGS} (h : GfOK {TS}) (m : B16) : (lfwdB {TS} m).pack = l_fwd m.pack := by\n  simp only [lfwdB, l_fwd, range16, List.foldl, "+", ".join(f"lstepB{i}_pack {TS} h" for i in range(16))+"]\n")
o.append(f"theorem lbwdB_pack {TARGS} (h : GfOK {TS}) (m : B16) : (lbwdB {TS} m).pack = l_bwd m.pack := by\n  simp only [lbwdB, l_bwd, range16, List.foldl, Nat.reduceSub, "+", ".join(f"lstepB{i}_pack {TS} h" for i in range(16))+"]\n")
o.append(f"theorem lsxB_pack {TARGS} (h : GfOK {TS}) (m : B16) (k : BitVec 128) : (lsxB {TS} m k).pack = Compact.lsx m.pack k := by\n  simp only [lsxB, Compact.lsx, lfwdB_pack {TS} h, sB_pack, xB_pack]\n")
o.append(f"theorem lsxInvB_pack {TARGS} (h : GfOK {TS}) (pinv : Array Nat) (hp : PinvOK pinv) (m : B16) (k : BitVec 128) :\n    (lsxInvB {TS} pinv m k).pack = Compact.lsx_inv m.pack k := by\n  simp only [lsxInvB, Compact.lsx_inv, sInvB_pack pinv hp, lbwdB_pack {TS} h, xB_pack]\n")
o.append("end BC.GenCipher.Kuznyechik\n")
open('/tmp/dev/w_morex/src/BlockCiphers/Proofs/GenKuznyechikBytes.lean','w').write("\n".join(o))
