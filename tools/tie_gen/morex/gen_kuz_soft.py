import sys; sys.path.insert(0,'/tmp/dev/w_morex/scripts')
def mul(a,b):
    c=0
    while b:
        if b&1: c^=a
        a=((a<<1)&0xff)^(0xC3 if a&0x80 else 0)
        b>>=1
    return c
CO=[148,32,133,16,194,192,1,251,1,192,194,16,133,32,148]
def lstep(m,i):
    m=list(m); x=m[(15-i)&15]
    for b,c in zip(range(14,-1,-1),CO):
        x^=mul(c,m[(b-i)&15])
    m[(15-i)&15]=x
    return m
KG=[]
for n in range(32):
    blk=[0]*16; blk[15]=n+1
    for i in range(16): blk=lstep(blk,i)
    KG.append(int.from_bytes(bytes(blk),'little'))
TA="(t0 t1 t2 t3 t4 t5 t6 t7 t8 t9 t10 t11 t12 t13 t14 t15 : Array Nat)"
TS=" ".join(f"t{i}" for i in range(16))
K=[f"k{i}" for i in range(10)]; ks=" ".join(K)
def tset(pre): return " ".join(f"{pre}_tbl{i}" for i in range(16))
EB,DB,EK,IK=[f"kuznyechik_soft_{x}" for x in ("encrypt_block","decrypt_block","enckeys_new","inv_enc_keys")]
o=[]
o.append('''import BlockCiphers.Gen.Cipher_Kuznyechik_soft
import BlockCiphers.Proofs.GenKuznyechikSoftTables
import BlockCiphers.Proofs.KuznyechikBackends
/-!
Tie of the regenerated `EncBackend::encrypt_block` / `DecBackend::decrypt_block` of the big software backend of Kuznyechik
(`Gen/Cipher_Kuznyechik_soft.lean`, translated from /repo/kuznyechik/src/big_soft/backends.rs with the fused tables of
fused_tables.rs computed by running the crate's `const fn`s and re-read as `[[u128; 256]; 16]`) to the model
`BC.Kuznyechik.Soft`: for ALL round keys `k0 … k9` (arbitrary `u128` values) and ALL blocks

    Gen.Fn.kuznyechik_soft_encrypt_block k0 … k9 b = Soft.encrypt_block ⟨k0, …, k9⟩ b
    Gen.Fn.kuznyechik_soft_decrypt_block k0 … k9 b = Soft.decrypt_block ⟨k0, …, k9⟩ b

Proof: (1) the generated text is definitionally the composition `encG` / `decG` of `trG` (XOR of sixteen table rows) and
`subG` (byte substitution) — kernel check; (2) `trG` / `subG` at the regenerated tables are the model's `transform` at
`ENC_TABLE` / `DEC_TABLE` and `sub_bytes` at `P` / `P_INV` (`encT_<i>`, `decT_<i>` of Proofs/GenKuznyechikSoftTables*.lean,
`p_at`, `pinvS`).
-/
set_option maxRecDepth 100000
set_option linter.unusedSimpArgs false
namespace BC.GenCipher.Kuznyechik
open BC BC.Kuznyechik BC.Gen.Fn
''')
le=" ++ ".join(f"(x.extractLsb' {8*i} 8)" for i in range(16))
o.append(f"/-- `u128::from_le_bytes` of the sixteen bytes of a block image / the image of `to_le_bytes` -/\ndef leWord (x : BitVec 128) : BitVec 128 := {le}\n")
o.append("theorem leWord_eq (x : BitVec 128) : leWord x = rev128 x := by\n  simp only [leWord, rev128, bswap64]\n  bv_decide\n")
tr="0x0#128"
for i in range(16): tr=f"({tr} ^^^ (BC.Gen.tblAt t{i} ((b.extractLsb' {8*i} 8).setWidth 64).toNat 128))"
o.append(f"/-- `transform(block, table)`: `res ^= table[i][block[i]]` for the sixteen little-endian bytes of `block` -/\ndef trG {TA} (b : BitVec 128) : BitVec 128 :=\n  {tr}\n")
sb=" ++ ".join(f"(BC.Gen.tblAt s ((b.extractLsb' {8*i} 8).setWidth 64).toNat 8)" for i in range(15,-1,-1))
o.append(f"/-- `sub_bytes(block, sbox)` -/\ndef subG (s : Array Nat) (b : BitVec 128) : BitVec 128 :=\n  ({sb})\n")
o.append(f"/-- the sixteen regenerated tables are the rows of the model's table `tab` -/\nstructure RowsOK (tab : Vector (BitVec 128) 4096) {TA} : Prop where\n"+"\n".join(f"  h{i} : ∀ x : BitVec 8, BC.Gen.tblAt t{i} (x.setWidth 64).toNat 128 = row tab ⟨{i}, by decide⟩ x" for i in range(16))+"\n")
o.append(f"theorem trG_eq (tab : Vector (BitVec 128) 4096) {TA} (h : RowsOK tab {TS}) (b : BitVec 128) :\n    trG {TS} b = Soft.transform b tab := by\n  simp only [Soft.transform, finRange16, List.foldl, "+", ".join(f"← h.h{i}" for i in range(16))+", leByte, Nat.reduceMul, trG]\n")
o.append("theorem range16' : List.range 16 = [0,1,2,3,4,5,6,7,8,9,10,11,12,13,14,15] := by decide +kernel\n")
o.append("theorem subG_eq (s : Array Nat) (sbox : Vector (BitVec 8) 256) (hs : ∀ x : BitVec 8, BC.Gen.tblAt s (x.setWidth 64).toNat 8 = lut sbox x) (b : BitVec 128) :\n    subG s b = Soft.sub_bytes b sbox := by\n  simp only [subG, Soft.sub_bytes, ofLeBytes, range16', List.foldl, leByte, Nat.reduceSub, Nat.reduceMul, hs]\n  bv_decide\n")
o.append(f"theorem encS : RowsOK ENC_TABLE.get {tset(EB)} :=\n  ⟨"+", ".join(f"encT_{i}" for i in range(16))+"⟩\n")
o.append(f"theorem decS : RowsOK DEC_TABLE.get {tset(DB)} :=\n  ⟨"+", ".join(f"decT_{i}" for i in range(16))+"⟩\n")
o.append(f"theorem pinvS_e : ∀ n : Fin 256, BC.Gen.tblAt {DB}_tbl16 n.val 8 = lut P_INV (BitVec.ofNat 8 n.val) := by decide +kernel\ntheorem pinvS : PinvOK {DB}_tbl16 := at_of_fin _ _ pinvS_e\n")
e="leWord b"
for i in range(9): e=f"trG {TS} ({e} ^^^ k{i})"
o.append(f"def encG {TA} ({ks} b : BitVec 128) : BitVec 128 :=\n  leWord ({e} ^^^ k9)\n")
d=f"trG {TS} (subG BC.Gen.kuznyechik_P (leWord b ^^^ k0))"
for i in range(1,9): d=f"trG {TS} ({d}) ^^^ k{i}"
o.append(f"def decG {TA} (pinv : Array Nat) ({ks} b : BitVec 128) : BitVec 128 :=\n  leWord (subG pinv ({d}) ^^^ k9)\n")
o.append(f"theorem soft_encrypt_block_eq_G ({ks} b : BitVec 128) :\n    {EB} {ks} b = encG {tset(EB)} {ks} b := by\n  kuz_kernel_rfl\n")
o.append(f"theorem soft_decrypt_block_eq_G ({ks} b : BitVec 128) :\n    {DB} {ks} b = decG {tset(DB)} {DB}_tbl16 {ks} b := by\n  kuz_kernel_rfl\n")
o.append(f"theorem encG_eq {TA} (h : RowsOK ENC_TABLE.get {TS}) ({ks} b : BitVec 128) :\n    encG {TS} {ks} b = Soft.encrypt_block ⟨{', '.join(K)}⟩ b := by\n  simp only [encG, Soft.encrypt_block, List.foldl, leWord_eq, trG_eq _ {TS} h]\n")
o.append(f"theorem decG_eq {TA} (h : RowsOK DEC_TABLE.get {TS}) (pinv : Array Nat) (hp : PinvOK pinv) ({ks} b : BitVec 128) :\n    decG {TS} pinv {ks} b = Soft.decrypt_block ⟨{', '.join(K)}⟩ b := by\n  simp only [decG, Soft.decrypt_block, List.foldl, leWord_eq, trG_eq _ {TS} h, subG_eq _ P p_at, subG_eq _ P_INV hp]\n")
us=" ".join("_" for _ in range(16))
o.append(f"/-- the regenerated `EncBackend::encrypt_block` (big_soft) is the model's `Soft.encrypt_block`, all keys, all blocks -/\ntheorem kuznyechik_soft_encrypt_block_eq ({ks} b : BitVec 128) :\n    {EB} {ks} b = Soft.encrypt_block ⟨{', '.join(K)}⟩ b := by\n  rw [soft_encrypt_block_eq_G, encG_eq {us} encS]\n")
o.append(f"/-- the regenerated `DecBackend::decrypt_block` (big_soft) is the model's `Soft.decrypt_block`, all keys, all blocks -/\ntheorem kuznyechik_soft_decrypt_block_eq ({ks} b : BitVec 128) :\n    {DB} {ks} b = Soft.decrypt_block ⟨{', '.join(K)}⟩ b := by\n  rw [soft_decrypt_block_eq_G, decG_eq {us} decS _ pinvS]\n")
o.append("end BC.GenCipher.Kuznyechik\n")
open('/tmp/dev/w_morex/src/BlockCiphers/Proofs/GenCipherKuznyechikSoft.lean','w').write("\n".join(o))
# ---------------- keys
o=[]
o.append('''import BlockCiphers.Gen.Keys_Kuznyechik_soft
import BlockCiphers.Proofs.GenCipherKuznyechikSoft
import BlockCiphers.Proofs.GenKeysKuznyechik
/-!
Tie of the regenerated key functions of the big software backend of Kuznyechik (`Gen/Keys_Kuznyechik_soft.lean`):
`EncKeys::new` (= `expand_enc_keys`, /repo/kuznyechik/src/big_soft/{mod.rs,backends.rs}) and `inv_enc_keys` (the decryption
keys of `EncDecKeys::from(EncKeys)` / `DecKeys::from(EncKeys)`), to the model `BC.Kuznyechik.Soft`: for ALL inputs

    Gen.Fn.kuznyechik_soft_enckeys_new key        = rkTuple (Soft.expand_enc_keys key)
    Gen.Fn.kuznyechik_soft_inv_enc_keys e0 … e9   = rkTuple (Soft.inv_enc_keys ⟨e0, …, e9⟩)

Proof as in Proofs/GenCipherKuznyechikSoft.lean; the tables of these two functions are copies of those of
`encrypt_block` / `decrypt_block` (`ek_tbl_<i>`, `ik_tbl_<i>`: equality of the array literals), the 32 iteration constants
`next_const(i) = u128::from_le_bytes(KEYGEN[i])` are the byte-reversed constants of Proofs/GenKeysKuznyechik.lean.
-/
set_option maxRecDepth 100000
set_option linter.unusedSimpArgs false
namespace BC.GenKeys.Kuznyechik
open BC BC.Kuznyechik BC.Gen.Fn BC.GenCipher.Kuznyechik
''')
for i in range(16):
    o.append(f"theorem ek_tbl_{i} : {EK}_tbl{i} = {EB}_tbl{i} := rfl")
for i in range(16):
    o.append(f"theorem ik_tbl_{i} : {IK}_tbl{i} = {DB}_tbl{i} := rfl")
o.append(f"theorem encK : RowsOK ENC_TABLE.get {tset(EK)} := by\n  rw ["+", ".join(f"ek_tbl_{i}" for i in range(16))+"]; exact encS\n")
o.append(f"theorem decK : RowsOK DEC_TABLE.get {tset(IK)} := by\n  rw ["+", ".join(f"ik_tbl_{i}" for i in range(16))+"]; exact decS\n")
for n in range(32):
    o.append(f"theorem nc{n} : next_const {n} (by decide) = 0x{KG[n]:x}#128 := by\n  show rev128 (Compact.get_c {n} (by decide)) = _\n  rw [← c{n}_pack]\n  decide +kernel")
o.append("")
o.append('''/-- one iteration of the inner loop of `expand_enc_keys` over a transform `tr` -/
def stepI (tr : BitVec 128 → BitVec 128) (p : BitVec 128 × BitVec 128) (c0 c1 : BitVec 128) : BitVec 128 × BitVec 128 :=
  (p.1 ^^^ tr ((p.2 ^^^ tr (p.1 ^^^ c0)) ^^^ c1), p.2 ^^^ tr (p.1 ^^^ c0))
def step4 (tr : BitVec 128 → BitVec 128) (p : BitVec 128 × BitVec 128) (c0 c1 c2 c3 c4 c5 c6 c7 : BitVec 128) : BitVec 128 × BitVec 128 :=
  stepI tr (stepI tr (stepI tr (stepI tr p c0 c1) c2 c3) c4 c5) c6 c7
''')
for n in range(4):
    o.append(f"theorem inner_{n} (tr : BitVec 128 → BitVec 128) (p : BitVec 128 × BitVec 128) : expand_inner tr p {n} = step4 tr p "+" ".join(f"(next_const {8*n+j} (by decide))" for j in range(8))+" := rfl")
o.append("")
hi=" ++ ".join(f"(key.extractLsb' {128+8*i} 8)" for i in range(16)); lo=" ++ ".join(f"(key.extractLsb' {8*i} 8)" for i in range(16))
o.append(f"def kHi (key : BitVec 256) : BitVec 128 := {hi}\ndef kLo (key : BitVec 256) : BitVec 128 := {lo}")
o.append("theorem kHi_eq (key : BitVec 256) : kHi key = rev128 (key.extractLsb' 128 128) := by\n  simp only [kHi, rev128, bswap64]\n  bv_decide\ntheorem kLo_eq (key : BitVec 256) : kLo key = rev128 (key.extractLsb' 0 128) := by\n  simp only [kLo, rev128, bswap64]\n  bv_decide\n")
cs=lambda n: " ".join(f"0x{KG[8*n+j]:x}#128" for j in range(8))
o.append(f'''def expandG {TA} (key : BitVec 256) :=
  let p0 : BitVec 128 × BitVec 128 := (kHi key, kLo key)
  let p1 := step4 (trG {TS}) p0 {cs(0)}
  let p2 := step4 (trG {TS}) p1 {cs(1)}
  let p3 := step4 (trG {TS}) p2 {cs(2)}
  let p4 := step4 (trG {TS}) p3 {cs(3)}
  (p0.1, p0.2, p1.1, p1.2, p2.1, p2.2, p3.1, p3.2, p4.1, p4.2)

theorem soft_enckeys_new_eq_G (key : BitVec 256) : {EK} key = expandG {tset(EK)} key := by
  kuz_kernel_rfl

theorem expandG_eq {TA} (h : RowsOK ENC_TABLE.get {TS}) (key : BitVec 256) :
    expandG {TS} key = rkTuple (Soft.expand_enc_keys key) := by
  have htr : trG {TS} = fun t => Soft.transform t ENC_TABLE.get := funext (trG_eq _ {TS} h)
  simp only [expandG, rkTuple, Soft.expand_enc_keys, expand_with, inner_0, inner_1, inner_2, inner_3, htr, kHi_eq, kLo_eq,
    {", ".join(f"nc{n}" for n in range(32))}]

/-- the regenerated `EncKeys::new` (big_soft) computes the model's `Soft.expand_enc_keys`, for every key -/
theorem kuznyechik_soft_enckeys_new_eq (key : BitVec 256) :
    {EK} key = rkTuple (Soft.expand_enc_keys key) := by
  rw [soft_enckeys_new_eq_G, expandG_eq {" ".join("_" for _ in range(16))} encK]
''')
E=[f"e{i}" for i in range(10)]; es=" ".join(E)
g=lambda x: f"trG {TS} (subG BC.Gen.kuznyechik_P {x})"
o.append(f'''def invG {TA} ({es} : BitVec 128) :=
  (e9, {", ".join(g(f"e{i}") for i in range(8,0,-1))}, e0)

theorem soft_inv_enc_keys_eq_G ({es} : BitVec 128) : {IK} {es} = invG {tset(IK)} {es} := by
  kuz_kernel_rfl

theorem invG_eq {TA} (h : RowsOK DEC_TABLE.get {TS}) ({es} : BitVec 128) :
    invG {TS} {es} = rkTuple (Soft.inv_enc_keys ⟨{", ".join(E)}⟩) := by
  simp only [invG, rkTuple, Soft.inv_enc_keys, inv_with, trG_eq _ {TS} h, subG_eq _ P p_at]

/-- the regenerated `inv_enc_keys` (big_soft) is the model's `Soft.inv_enc_keys`, for all ten encryption keys -/
theorem kuznyechik_soft_inv_enc_keys_eq ({es} : BitVec 128) :
    {IK} {es} = rkTuple (Soft.inv_enc_keys ⟨{", ".join(E)}⟩) := by
  rw [soft_inv_enc_keys_eq_G, invG_eq {" ".join("_" for _ in range(16))} decK]
''')
o.append("end BC.GenKeys.Kuznyechik\n")
open('/tmp/dev/w_morex/src/BlockCiphers/Proofs/GenKeysKuznyechikSoft.lean','w').write("\n".join(o))
print("ok")
