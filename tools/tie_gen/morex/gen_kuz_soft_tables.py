import sys, re; sys.path.insert(0,'/tmp/dev/w_morex/scripts')
from gen_kuz_common import *
def mul(a,b):
    c=0
    while b:
        if b&1: c^=a
        a=((a<<1)&0xff)^(0xC3 if a&0x80 else 0)
        b>>=1
    return c
CO=[148,32,133,16,194,192,1,251,1,192,194,16,133,32,148]
def lstep(m,i):
    m=list(m); x=m[(15-i)&15]
    for b,c in zip(range(14,-1,-1),CO):
        x^=mul(c,m[(b-i)&15])
    m[(15-i)&15]=x
    return m
def lfwd(m):
    for i in range(16): m=lstep(m,i)
    return m
def lbwd(m):
    for i in range(16): m=lstep(m,15-i)
    return m
def unit(i,v):
    m=[0]*16; m[i]=v; return m
def basis(f,i,k): return int.from_bytes(bytes(f(unit(i,1<<k))),'little')
# sanity check against the translator's tables
src=open('/tmp/dev/w_morex/src/BlockCiphers/Gen/Cipher_Kuznyechik_soft.lean').read()
def table(name):
    i=src.index(f"def {name} : Array Nat := #[")
    j=src.index("]",i)
    return [int(x,16) for x in re.findall(r"0x[0-9a-f]+", src[i:j].split("#[")[1])]
Pm=re.search(r"def kuznyechik_P : Array Nat := #\[(.*?)\]", open('/verif/lean/BlockCiphers/Gen/Tables.lean').read(), re.S).group(1)
P=[int(x,0) for x in re.findall(r"0x[0-9a-fA-F]+|\d+", Pm)]
assert len(P)==256
PINV=[0]*256
for i,v in enumerate(P): PINV[v]=i
for i in (0,7,15):
    E=table(f"kuznyechik_soft_encrypt_block_tbl{i}"); D=table(f"kuznyechik_soft_decrypt_block_tbl{i}")
    for n in (0,1,77,255):
        assert E[n]==int.from_bytes(bytes(lfwd(unit(i,P[n]))),'little'), ("E",i,n)
        assert D[n]==int.from_bytes(bytes(lbwd(unit(i,PINV[n]))),'little'), ("D",i,n)
TE=" ".join(f"kuznyechik_compact_encrypt_block_tbl{j}" for j in range(7))
TD=" ".join(f"kuznyechik_compact_decrypt_block_tbl{j}" for j in range(7))
PINVT="kuznyechik_compact_decrypt_block_tbl7"
o=[]
o.append('''import BlockCiphers.Gen.Cipher_Kuznyechik_soft
import BlockCiphers.Proofs.GenCipherKuznyechik
import BlockCiphers.Proofs.KuznyechikCompact
import BlockCiphers.Proofs.KuznyechikFused
/-!
The fused tables of the big software backend of Kuznyechik as computed by the translator (by running the crate's
`const fn fused_enc_table` / `fused_dec_table` and reading the 65 536 bytes as `[[u128; 256]; 16]`, little-endian — the
`unsafe` pointer cast of `transform`) are the model's `ENC_TABLE` / `DEC_TABLE`:

    encT_<i> : ∀ x : BitVec 8, tblAt kuznyechik_soft_encrypt_block_tbl<i> (x.setWidth 64).toNat 128 = row ENC_TABLE.get ⟨i, _⟩ x
    decT_<i> : ∀ x : BitVec 8, tblAt kuznyechik_soft_decrypt_block_tbl<i> (x.setWidth 64).toNat 128 = row DEC_TABLE.get ⟨i, _⟩ x

for i = 0 … 15 (all 2 × 4096 entries).  Evaluating the model's tables in the kernel is far too slow (seconds per row), so:
row (i, x) of the model is `rev128 (L (e_i · P[x]))` (`ENC_TABLE_row`, Proofs/KuznyechikFused.lean), `L` is additive (`L_xor`),
hence the row is the XOR of the basis rows `rev128 (L (e_i · 2^k))` over the set bits `k` of `P[x]` (`REnc_comb_<i>`); the
128 basis rows are evaluated on bytes with the regenerated GF tables of the compact backend (`lfwdB`, 16 `l_step`s each),
and each regenerated table is checked against this combination (`encC_<i>`: 256 cheap cases).  Same for `DEC` with `L⁻¹`.
-/
set_option maxRecDepth 100000
namespace BC.GenCipher.Kuznyechik
open BC BC.Kuznyechik BC.Spec.Kuznyechik BC.Gen.Fn

/-- XOR of the basis values selected by the bits of `v` -/
def comb (b0 b1 b2 b3 b4 b5 b6 b7 : BitVec 128) (v : BitVec 8) : BitVec 128 :=
  (if v.getLsbD 0 then b0 else 0#128) ^^^ (if v.getLsbD 1 then b1 else 0#128) ^^^ (if v.getLsbD 2 then b2 else 0#128) ^^^
  (if v.getLsbD 3 then b3 else 0#128) ^^^ (if v.getLsbD 4 then b4 else 0#128) ^^^ (if v.getLsbD 5 then b5 else 0#128) ^^^
  (if v.getLsbD 6 then b6 else 0#128) ^^^ (if v.getLsbD 7 then b7 else 0#128)

theorem bits8 (v : BitVec 8) :
    (if v.getLsbD 0 then 0x01#8 else 0#8) ^^^ (if v.getLsbD 1 then 0x02#8 else 0#8) ^^^ (if v.getLsbD 2 then 0x04#8 else 0#8) ^^^
    (if v.getLsbD 3 then 0x08#8 else 0#8) ^^^ (if v.getLsbD 4 then 0x10#8 else 0#8) ^^^ (if v.getLsbD 5 then 0x20#8 else 0#8) ^^^
    (if v.getLsbD 6 then 0x40#8 else 0#8) ^^^ (if v.getLsbD 7 then 0x80#8 else 0#8) = v := by
  bv_decide

theorem fin_at (t : Array Nat) (f : BitVec 8 → BitVec 128) (h : ∀ n : Fin 256, BC.Gen.tblAt t n.val 128 = f (BitVec.ofNat 8 n.val))
    (x : BitVec 8) : BC.Gen.tblAt t (x.setWidth 64).toNat 128 = f x := by
  have := h ⟨x.toNat, x.isLt⟩
  simp only [BitVec.ofNat_toNat, BitVec.setWidth_eq] at this
  rw [idx8]; exact this

theorem p_fin (n : Fin 256) : BC.Gen.tblAt BC.Gen.kuznyechik_P n.val 8 = lut P (BitVec.ofNat 8 n.val) := p_entry n
theorem pinv_fin : ∀ n : Fin 256, BC.Gen.tblAt ''' + PINVT + ''' n.val 8 = lut P_INV (BitVec.ofNat 8 n.val) := pinvD_e
''')
def family(tag, Lname, lB, lpack, Tset, gf, l_eq, xorlem, sbox_fin, sbox, rowlem, tblpre, TABLE, rng=range(16), units=False):
    for i in rng:
        flds=", ".join(("v" if j==i else "0#8") for j in range(16))
        o.append(f"/-! #### {tag}, byte position {i} -/")
        if units:
            o.append(f"def unitB{i} (v : BitVec 8) : B16 := ⟨{flds}⟩")
            o.append(f"theorem setb_unit{i} (v : BitVec 8) : setb 0#128 {i} v = (unitB{i} v).pack := by\n  simp only [setb, unitB{i}, B16.pack, Nat.reduceSub, Nat.reduceMul]\n  bv_decide")
            o.append(f"theorem setb_xor{i} (a b : BitVec 8) : setb 0#128 {i} (a ^^^ b) = setb 0#128 {i} a ^^^ setb 0#128 {i} b := by\n  simp only [setb, Nat.reduceSub, Nat.reduceMul]\n  bv_decide")
            o.append(f"theorem setb_zero{i} : setb 0#128 {i} 0#8 = 0#128 := by decide +kernel")
        if units: continue
        R=f"R{tag}{i}"
        o.append(f"def {R} (v : BitVec 8) : BitVec 128 := rev128 ({Lname} (setb 0#128 {i} v))")
        o.append(f"theorem {R}_xor (a b : BitVec 8) : {R} (a ^^^ b) = {R} a ^^^ {R} b := by\n  simp only [{R}, setb_xor{i}, {xorlem}, rev128_xor]")
        o.append(f"theorem {R}_zero : {R} 0#8 = 0#128 := by\n  have h := {R}_xor 0#8 0#8\n  simp only [BitVec.xor_self] at h\n  exact h")
        o.append(f"theorem {R}_ite (c : Bool) (a : BitVec 8) : {R} (if c then a else 0#8) = if c then {R} a else 0#128 := by\n  cases c <;> simp [{R}_zero]")
        bs=[]
        for k in range(8):
            val=basis(lfwd if tag=="enc" else lbwd, i, k)
            bs.append(f"0x{val:x}#128")
            o.append(f"theorem {R}_b{k} : {R} 0x{1<<k:02x}#8 = 0x{val:x}#128 := by\n  rw [{R}, setb_unit{i}, ← {l_eq}, ← {lpack} {Tset} {gf}]\n  decide +kernel")
        o.append(f"theorem {R}_comb (v : BitVec 8) : {R} v = comb {' '.join(bs)} v := by\n  have h := congrArg {R} (bits8 v)\n  rw [← h]\n  simp only [{R}_xor, {R}_ite, "+", ".join(f"{R}_b{k}" for k in range(8))+", comb]")
        o.append(f"theorem {tag}C_{i} : ∀ n : Fin 256, BC.Gen.tblAt {tblpre}_tbl{i} n.val 128 = comb {' '.join(bs)} (BC.Gen.tblAt {sbox} n.val 8) := by decide +kernel")
        o.append(f"theorem {tag}T_{i} (x : BitVec 8) : BC.Gen.tblAt {tblpre}_tbl{i} (x.setWidth 64).toNat 128 = row {TABLE}.get ⟨{i}, by decide⟩ x := by\n  rw [{rowlem}]\n  show _ = {R} _\n  rw [{R}_comb]\n  refine fin_at _ (fun y => comb {' '.join(bs)} (lut {'P' if tag=='enc' else 'P_INV'} y)) (fun n => ?_) x\n  rw [{tag}C_{i} n, {sbox_fin} n]\n")
HEADER="\n".join(o)
D='/tmp/dev/w_morex/src/BlockCiphers/Proofs/'
ENC=("enc","L","lfwdB","lfwdB_pack",TE,"gfE","l_fwd_eq_L","L_xor","p_fin","BC.Gen.kuznyechik_P","ENC_TABLE_row","kuznyechik_soft_encrypt_block","ENC_TABLE")
DEC=("dec","Linv","lbwdB","lbwdB_pack",TD,"gfD","l_bwd_eq_Linv","Linv_xor","pinv_fin",PINVT,"DEC_TABLE_row","kuznyechik_soft_decrypt_block","DEC_TABLE")
o.clear()
family(*ENC, units=True)
open(D+'GenKuznyechikSoftTablesBase.lean','w').write(HEADER+"\n"+"\n".join(o)+"\nend BC.GenCipher.Kuznyechik\n")
PH="""import BlockCiphers.Proofs.GenKuznyechikSoftTablesBase
/-! Part of the fused-table tie of Kuznyechik's big software backend: see `GenKuznyechikSoftTablesBase.lean`. -/
set_option maxRecDepth 100000
namespace BC.GenCipher.Kuznyechik
open BC BC.Kuznyechik BC.Spec.Kuznyechik BC.Gen.Fn
"""
for nm,fam,rng in (("Enc0",ENC,range(0,8)),("Enc1",ENC,range(8,16)),("Dec0",DEC,range(0,8)),("Dec1",DEC,range(8,16))):
    o.clear()
    family(*fam, rng=rng)
    imp = "import BlockCiphers.Gen.Cipher_Kuznyechik_soft\n"
    open(D+f'GenKuznyechikSoftTables{nm}.lean','w').write(imp+PH+"\n".join(o)+"\nend BC.GenCipher.Kuznyechik\n")
open(D+'GenKuznyechikSoftTables.lean','w').write("import BlockCiphers.Proofs.GenKuznyechikSoftTablesEnc0\nimport BlockCiphers.Proofs.GenKuznyechikSoftTablesEnc1\nimport BlockCiphers.Proofs.GenKuznyechikSoftTablesDec0\nimport BlockCiphers.Proofs.GenKuznyechikSoftTablesDec1\n/-! `encT_<i>`, `decT_<i>` (i = 0 … 15): the regenerated fused tables of Kuznyechik's big software backend are the model's `ENC_TABLE` / `DEC_TABLE`; see `GenKuznyechikSoftTablesBase.lean`. -/\n")
print("ok")
