import sys, os; sys.path.insert(0,'/tmp/dev/w_morex/scripts'); sys.path.insert(0,'/tmp/dev/w_morex')
os.environ.setdefault("VERIF_REPO","/tmp/dev/repo_clean")
from gen_kuz_common import *
# the 32 KEYGEN constants, computed independently of the translator (GF(2^8) mod x^8+x^7+x^6+x+1, l_step of utils.rs)
def mul(a,b):
    c=0
    while b:
        if b&1: c^=a
        a=((a<<1)&0xff)^(0xC3 if a&0x80 else 0)
        b>>=1
    return c
CO=[148,32,133,16,194,192,1,251,1,192,194,16,133,32,148]  # positions 14..0
def lstep(m,i):
    m=list(m); x=m[(15-i)&15]
    for b,c in zip(range(14,-1,-1),CO):
        x^=mul(c,m[(b-i)&15])
    m[(15-i)&15]=x
    return m
KG=[]
for n in range(32):
    blk=[0]*16; blk[15]=n+1
    for i in range(16): blk=lstep(blk,i)
    KG.append(blk)
TK=" ".join(f"kuznyechik_compact_enckeys_new_tbl{j}" for j in range(7))
o=[]
o.append('''import BlockCiphers.Gen.Keys_Kuznyechik
import BlockCiphers.Proofs.GenKuznyechikBytes
/-!
Tie of the regenerated constructor `EncKeys::new` of the compact software backend of Kuznyechik
(`Gen/Keys_Kuznyechik.lean`, translated from /repo/kuznyechik/src/compact_soft/{mod.rs,backends.rs}: `expand`, `f`, `lsx`,
`l_step`, with `KEYGEN`, the `GFT_*` tables computed by running the crate's `const` initialisers) to the model
`BC.Kuznyechik.Compact.expand`: for ALL 256-bit keys

    Gen.Fn.kuznyechik_compact_enckeys_new key = rkTuple (Compact.expand key)        (`rkTuple k = (k.k0, …, k.k9)`)

Proof: as in Proofs/GenCipherKuznyechik.lean — (1) the generated text (≈ 16 000 `let`s) is definitionally the byte-level
`expandB` (kernel check), (2) `expandB` is the model's `expand` on packed blocks (`fstepB_pack`, the 32 iteration
constants `c_pack`: `KEYGEN[n]` of the model evaluated by `decide +kernel`).
-/
set_option maxRecDepth 100000
namespace BC.GenKeys.Kuznyechik
open BC BC.Kuznyechik BC.Gen.Fn BC.GenCipher.Kuznyechik
''')
COEFV=[148,32,133,16,194,192,251]
for j in range(7):
    o.append(f"theorem gfK_{j} : ∀ n : Fin 256, BC.Gen.tblAt kuznyechik_compact_enckeys_new_tbl{j} n.val 8 = mul_gf256 {COEFV[j]}#8 (BitVec.ofNat 8 n.val) := by decide +kernel")
o.append(f"theorem gfK : GfOK {TK} :=\n  ⟨"+", ".join(f"gf_of_fin _ _ gfK_{j}" for j in range(7))+"⟩\n")
o.append("/-- `lsx(block, &c)` with a constant byte array `c` (`get_c(n)`) -/\ndef lsxcB "+TARGS+" (m c : B16) : B16 := lfwdB "+TS+" (sB (xorB m c))\n")
o.append(f"theorem lsxcB_pack {TARGS} (h : GfOK {TS}) (m c : B16) : (lsxcB {TS} m c).pack = Compact.lsx m.pack c.pack := by\n  simp only [lsxcB, Compact.lsx, lfwdB_pack {TS} h, sB_pack, xorB_pack]\n")
o.append(f'''/-- one iteration of the loop of `f`: `k2 ^= lsx(k1, c0); k1 ^= lsx(k2, c1)` -/
def fstepB {TARGS} (p : B16 × B16) (c0 c1 : B16) : B16 × B16 :=
  (xorB p.1 (lsxcB {TS} (xorB p.2 (lsxcB {TS} p.1 c0)) c1), xorB p.2 (lsxcB {TS} p.1 c0))
def fstepI (k : BitVec 128 × BitVec 128) (c0 c1 : BitVec 128) : BitVec 128 × BitVec 128 :=
  (Compact.x k.1 (Compact.lsx (Compact.x k.2 (Compact.lsx k.1 c0)) c1), Compact.x k.2 (Compact.lsx k.1 c0))
def packP (p : B16 × B16) : BitVec 128 × BitVec 128 := (p.1.pack, p.2.pack)
theorem fstepB_pack {TARGS} (h : GfOK {TS}) (p : B16 × B16) (c0 c1 : B16) :
    packP (fstepB {TS} p c0 c1) = fstepI (packP p) c0.pack c1.pack := by
  simp only [packP, fstepB, fstepI, xorB_pack, lsxcB_pack {TS} h]
def f4B {TARGS} (p : B16 × B16) (c0 c1 c2 c3 c4 c5 c6 c7 : B16) : B16 × B16 :=
  fstepB {TS} (fstepB {TS} (fstepB {TS} (fstepB {TS} p c0 c1) c2 c3) c4 c5) c6 c7
def f4I (k : BitVec 128 × BitVec 128) (c0 c1 c2 c3 c4 c5 c6 c7 : BitVec 128) : BitVec 128 × BitVec 128 :=
  fstepI (fstepI (fstepI (fstepI k c0 c1) c2 c3) c4 c5) c6 c7
theorem f4B_pack {TARGS} (h : GfOK {TS}) (p : B16 × B16) (c0 c1 c2 c3 c4 c5 c6 c7 : B16) :
    packP (f4B {TS} p c0 c1 c2 c3 c4 c5 c6 c7) = f4I (packP p) c0.pack c1.pack c2.pack c3.pack c4.pack c5.pack c6.pack c7.pack := by
  simp only [f4B, f4I, fstepB_pack {TS} h]
theorem f4B_fst {TARGS} (h : GfOK {TS}) (p : B16 × B16) (c0 c1 c2 c3 c4 c5 c6 c7 : B16) :
    (f4B {TS} p c0 c1 c2 c3 c4 c5 c6 c7).1.pack = (f4I (packP p) c0.pack c1.pack c2.pack c3.pack c4.pack c5.pack c6.pack c7.pack).1 :=
  congrArg Prod.fst (f4B_pack {TS} h p c0 c1 c2 c3 c4 c5 c6 c7)
theorem f4B_snd {TARGS} (h : GfOK {TS}) (p : B16 × B16) (c0 c1 c2 c3 c4 c5 c6 c7 : B16) :
    (f4B {TS} p c0 c1 c2 c3 c4 c5 c6 c7).2.pack = (f4I (packP p) c0.pack c1.pack c2.pack c3.pack c4.pack c5.pack c6.pack c7.pack).2 :=
  congrArg Prod.snd (f4B_pack {TS} h p c0 c1 c2 c3 c4 c5 c6 c7)
''')
o.append("/-! ### the iteration constants `KEYGEN[n]` (= C_{n+1} of the standard), as bytes -/\n")
for n in range(32):
    o.append(f"def c{n} : B16 := ⟨"+", ".join(f"0x{v:02x}#8" for v in KG[n])+"⟩")
o.append("")
o.append("/-- `KEYGEN[n]`: `block[15] = (n + 1) as u8`, then the sixteen `l_step`s — evaluated on bytes with the regenerated tables -/")
o.append("theorem keygen_get (n : Nat) (h : n < 32) : Compact.get_c n h = l_fwd (setb 0#128 15 (BitVec.ofNat 8 (n + 1))) := by\n  simp only [Compact.get_c, KEYGEN, Vector.getElem_ofFn]\n")
o.append("theorem unit15 (v : BitVec 8) : setb 0#128 15 v = (B16.mk 0 0 0 0 0 0 0 0 0 0 0 0 0 0 0 v).pack := by\n  simp only [setb, B16.pack, Nat.reduceSub, Nat.reduceMul]\n  bv_decide\n")
for n in range(32):
    o.append(f"theorem c{n}_eval : lfwdB {TK} (B16.mk 0 0 0 0 0 0 0 0 0 0 0 0 0 0 0 {n+1}#8) = c{n} := by decide +kernel")
o.append("")
for n in range(32):
    o.append(f"theorem c{n}_pack : c{n}.pack = Compact.get_c {n} (by decide) := by\n  rw [keygen_get, unit15, ← lfwdB_pack {TK} gfK, ← c{n}_eval]")
o.append("")
for n in range(4):
    o.append(f"theorem f_{n} (p : BitVec 128 × BitVec 128) : Compact.f p {n} = f4I p "+" ".join(f"(Compact.get_c {8*n+j} (by decide))" for j in range(8))+" := rfl")
o.append("")
o.append("def unpackHi (key : BitVec 256) : B16 := ⟨"+", ".join(f"key.extractLsb' {8*(31-i)} 8" for i in range(16))+"⟩")
o.append("def unpackLo (key : BitVec 256) : B16 := ⟨"+", ".join(f"key.extractLsb' {8*(15-i)} 8" for i in range(16))+"⟩")
o.append("theorem unpackHi_pack (key : BitVec 256) : (unpackHi key).pack = key.extractLsb' 128 128 := by\n  simp only [unpackHi, B16.pack]\n  bv_decide")
o.append("theorem unpackLo_pack (key : BitVec 256) : (unpackLo key).pack = key.extractLsb' 0 128 := by\n  simp only [unpackLo, B16.pack]\n  bv_decide\n")
o.append("def rkTuple (k : RoundKeys) := (k.k0, k.k1, k.k2, k.k3, k.k4, k.k5, k.k6, k.k7, k.k8, k.k9)\n")
o.append(f'''/-- `expand` on bytes -/
def expandB {TARGS} (key : BitVec 256) :=
  let p0 : B16 × B16 := (unpackHi key, unpackLo key)
  let p1 := f4B {TS} p0 c0 c1 c2 c3 c4 c5 c6 c7
  let p2 := f4B {TS} p1 c8 c9 c10 c11 c12 c13 c14 c15
  let p3 := f4B {TS} p2 c16 c17 c18 c19 c20 c21 c22 c23
  let p4 := f4B {TS} p3 c24 c25 c26 c27 c28 c29 c30 c31
  (p0.1.pack, p0.2.pack, p1.1.pack, p1.2.pack, p2.1.pack, p2.2.pack, p3.1.pack, p3.2.pack, p4.1.pack, p4.2.pack)

theorem enckeys_new_eq_B (key : BitVec 256) : kuznyechik_compact_enckeys_new key = expandB {TK} key := by
  kuz_kernel_rfl

theorem expandB_eq {TARGS} (h : GfOK {TS}) (key : BitVec 256) : expandB {TS} key = rkTuple (Compact.expand key) := by
  have hp : packP (unpackHi key, unpackLo key) = (key.extractLsb' 128 128, key.extractLsb' 0 128) := by
    simp only [packP, unpackHi_pack, unpackLo_pack]
  simp only [expandB, rkTuple, Compact.expand, f_0, f_1, f_2, f_3, f4B_fst {TS} h, f4B_snd {TS} h, f4B_pack {TS} h, hp,
    unpackHi_pack, unpackLo_pack, {", ".join(f"c{n}_pack" for n in range(32))}]

/-- the regenerated `EncKeys::new` (compact_soft) computes the model's `Compact.expand`, for every key -/
theorem kuznyechik_compact_enckeys_new_eq (key : BitVec 256) :
    kuznyechik_compact_enckeys_new key = rkTuple (Compact.expand key) := by
  rw [enckeys_new_eq_B, expandB_eq _ _ _ _ _ _ _ gfK]
''')
o.append("end BC.GenKeys.Kuznyechik\n")
open('/tmp/dev/w_morex/src/BlockCiphers/Proofs/GenKeysKuznyechik.lean','w').write("\n".join(o))
