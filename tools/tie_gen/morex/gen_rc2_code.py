ALL=[(f"rc2_new_from_slice_{n}",n,8*n,f"slice_{n}") for n in (1,5,8,16)]+[(f"rc2_new_with_eff_key_len_{n}_{e}",n,e,f"eff_{n}_{e}") for n,e in ((8,63),(16,64),(16,128),(5,40))]
ks=[f"k{i}" for i in range(64)]
pat="("+", ".join(ks)+")"; args=" ".join(ks)
o=[]
o.append('''import BlockCiphers.Gen.Cipher_Rc2
import BlockCiphers.Gen.Keys_Rc2
import BlockCiphers.Proofs.GenCipherRc2
import BlockCiphers.Proofs.GenKeysRc2
import BlockCiphers.Proofs.GenCipherSpeck
import BlockCiphers.Proofs.Rc2
import BlockCiphers.Proofs.Rc2Spec
/-!
Code-level theorems for RC2: statements mention ONLY the regenerated code (`BC.Gen.Fn.rc2_new_from_slice_<n>`,
`rc2_new_with_eff_key_len_<n>_<t1>`, `rc2_encrypt_block`, `rc2_decrypt_block`) and the specification `BC.Spec.Rc2`
(RFC 2268).  One family per regenerated constructor instance: `Rc2::new_from_slice` for keys of 1, 5, 8, 16 bytes
(effective length 8·n bits) — `enc_slice_<n>` … — and `Rc2::new_with_eff_key_len` for (key bytes, effective bits) =
(8, 63), (16, 64), (16, 128), (5, 40) — `enc_eff_<n>_<t1>` ….  Composition of
  (1) `BC.Rc2.decrypt_encrypt_eff`, `encrypt_decrypt_eff` (Proofs/Rc2.lean; Thm C01), `rc2eff_encrypt_conforms`,
      `rc2eff_decrypt_conforms` (Proofs/Rc2Spec.lean; Thm C09),
  (2) `BC.GenCipher.Rc2.encrypt_block_eq` / `decrypt_block_eq`,
  (3) `BC.GenKeys.Rc2.<constructor>_eq`.
Keys and blocks are `BitVec`s, byte 0 of the Rust slice = most significant byte (`unpackBE n` gives the Spec's byte list).
-/
set_option maxRecDepth 100000
namespace BC.Code.Rc2
open BC BC.Gen.Fn BC.Rc2
''')
cases=" ".join(f"| {i}, _ => rfl" for i in range(64))
o.append(f"theorem vlit64 {{α : Type}} (v : Vector α 64) : #v[{', '.join(f'v[{i}]' for i in range(64))}] = v := by\n  apply Vector.ext; intro i hi\n  match i, hi with\n  {cases}\n  | n + 64, h => exact absurd h (by omega)\n")
bl=", ".join(f"(b >>> {8*(7-i)}).setWidth 8" for i in range(8))
o.append(f"theorem pack_unpack8 (b : BitVec 64) : packBE 8 (unpackBE 8 b) = b := by\n  have hl : unpackBE 8 b = [{bl}] := rfl\n  rw [hl]\n  show BC.Speck.fromBE 64 _ = _\n  simp only [BC.GenCipher.Speck.fromBE_fold, List.foldl_cons, List.foldl_nil]\n  bv_decide\n")
o.append("theorem len8 (b : BitVec 64) : (unpackBE 8 b).length = 8 := by simp [unpackBE]\n")
for (name,n,t1,sfx) in ALL:
    K=f"(unpackBE {n} key)"
    o.append(f"/-! ### `{name}` -/\n")
    for ed,ED in (("enc","encrypt"),("dec","decrypt")):
        o.append(f"/-- `{ED}_block` after the constructor, on the regenerated code -/\ndef {ed}_{sfx} (key : BitVec {8*n}) (b : BitVec 64) : BitVec 64 :=\n  match {name} key with\n  | {pat} => rc2_{ED}_block {args} b\n")
    for ed,ED in (("enc","encrypt"),("dec","decrypt")):
        o.append(f"theorem {ed}_{sfx}_eq_impl (key : BitVec {8*n}) (b : BitVec 64) :\n    {ed}_{sfx} key b = BC.Rc2.{ED} (newWithEffKeyLen {K} {t1}) b := by\n  unfold {ed}_{sfx}\n  rw [BC.GenKeys.Rc2.{name}_eq key]\n  simp only [BC.GenKeys.Rc2.rcTuple]\n  rw [BC.GenCipher.Rc2.{ED}_block_eq, vlit64]\n  rfl\n")
    o.append(f"theorem dec_enc_{sfx} (key : BitVec {8*n}) (b : BitVec 64) : dec_{sfx} key (enc_{sfx} key b) = b := by\n  rw [enc_{sfx}_eq_impl, dec_{sfx}_eq_impl, decrypt_encrypt_eff]\n")
    o.append(f"theorem enc_dec_{sfx} (key : BitVec {8*n}) (b : BitVec 64) : enc_{sfx} key (dec_{sfx} key b) = b := by\n  rw [enc_{sfx}_eq_impl, dec_{sfx}_eq_impl, encrypt_decrypt_eff]\n")
    for ed,ED in (("enc","encrypt"),("dec","decrypt")):
        o.append(f"/-- the regenerated code computes RFC 2268 (key expansion with T1 = {t1} and the {ED}ion rounds) -/\ntheorem {ed}_{sfx}_eq_spec (key : BitVec {8*n}) (b : BitVec 64) :\n    unpackBE 8 ({ed}_{sfx} key b) = BC.Spec.Rc2.{ED} {K} {t1} (unpackBE 8 b) := by\n  have h := rc2eff_{ED}_conforms {K} {t1} (unpackBE 8 b) (len8 b)\n  unfold liftBlock at h\n  rw [pack_unpack8] at h\n  rw [{ed}_{sfx}_eq_impl]\n  exact h\n")
    if name.startswith("rc2_new_from_slice"):
        o.append(f"/-- the model's `new_from_slice` on the {n} key bytes is `new_with_eff_key_len(key, {t1})` -/\ntheorem newFromSlice_{n} (key : BitVec {8*n}) : newFromSlice {K} = some (newWithEffKeyLen {K} {t1}) := by\n  have hl : {K}.length = {n} := by simp [unpackBE]\n  rw [newFromSlice_eq _ (by rw [hl]; decide), hl]\n")
o.append("end BC.Code.Rc2\n")
open('/tmp/dev/w_morex/src/BlockCiphers/Proofs/CodeRc2.lean','w').write("\n".join(o))
