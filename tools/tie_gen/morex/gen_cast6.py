ms=[f"m{i}_{j}" for i in range(12) for j in range(4)]
rs=[f"r{i}_{j}" for i in range(12) for j in range(4)]
allv=ms+rs
pat="("+", ".join(allv)+")"
args=" ".join(allv)
cm=" ".join(f"(c.km {i}).m{j}" for i in range(12) for j in range(4))
cr=" ".join(f"(c.kr {i}).r{j}" for i in range(12) for j in range(4))
out=[]
out.append('''import BlockCiphers.Gen.Cipher_Cast6
import BlockCiphers.Gen.Keys_Cast6
import BlockCiphers.Proofs.GenCipherCast6
import BlockCiphers.Proofs.GenKeysCast6
import BlockCiphers.Proofs.Cast6
import BlockCiphers.Proofs.Cast6Spec
/-!
Code-level theorems for CAST-256 (CAST6): statements mention ONLY the regenerated code
(`BC.Gen.Fn.cast6_new_from_slice_<n>`, `cast6_encrypt_block`, `cast6_decrypt_block`) and the specification
`BC.Spec.Cast6` (RFC 2612).  One family per accepted key length n = 16, 20, 24, 28, 32 bytes; the key is a
`BitVec (8·n)` whose most significant byte is byte 0 of the Rust slice (`unpackBE n key` on the Spec side).
Composition of
  (1) `BC.Cast6.decrypt_encrypt_key`, `encrypt_decrypt_key` (Proofs/Cast6.lean; Thm C01), `encrypt_eq_spec`,
      `decrypt_eq_spec` (Proofs/Cast6Spec.lean; Thm C08),
  (2) `BC.GenCipher.Cast6.cast6_encrypt_block_eq` / `cast6_decrypt_block_eq`,
  (3) `BC.GenKeys.Cast6.new_from_slice_<n>_eq`.
-/
set_option maxRecDepth 100000
namespace BC.Code.Cast6
open BC BC.Gen.Fn

/-! ### glue: the struct rebuilt from its flattened fields behaves like the struct (only `km i`, `kr i`, `i < 12`, are read) -/
''')
out.append(f"theorem mk_enc (c : BC.Cast6.Cast6) (b : BitVec 128) :\n    BC.Cast6.encrypt (BC.GenCipher.Cast6.mk {cm}\n      {cr}) b = BC.Cast6.encrypt c b := rfl\n")
out.append(f"theorem mk_dec (c : BC.Cast6.Cast6) (b : BitVec 128) :\n    BC.Cast6.decrypt (BC.GenCipher.Cast6.mk {cm}\n      {cr}) b = BC.Cast6.decrypt c b := rfl\n")
for n in (16,20,24,28,32):
    w=8*n
    for ed,ED in (("enc","encrypt"),("dec","decrypt")):
        out.append(f"/-- `Cast6::new_from_slice(key).{ED}_block(b)` for a {n}-byte key, on the regenerated code -/\ndef {ed}_{n} (key : BitVec {w}) (b : BitVec 128) : BitVec 128 :=\n  match cast6_new_from_slice_{n} key with\n  | {pat} =>\n    cast6_{ED}_block {args} b\n")
    for ed,ED in (("enc","encrypt"),("dec","decrypt")):
        out.append(f"theorem {ed}_{n}_eq_impl (key : BitVec {w}) (b : BitVec 128) :\n    {ed}_{n} key b = BC.Cast6.{ED} (BC.Cast6.keySchedule (unpackBE {n} key)) b := by\n  unfold {ed}_{n}\n  rw [BC.GenKeys.Cast6.new_from_slice_{n}_eq key]\n  simp only [BC.GenKeys.Cast6.c6Tuple]\n  rw [BC.GenCipher.Cast6.cast6_{ED}_block_eq]\n  exact mk_{ed} _ b\n")
    out.append(f"theorem accepts_{n} (key : BitVec {w}) : BC.Cast6.accepts (unpackBE {n} key).length = true := by\n  simp [unpackBE, BC.Cast6.accepts]\n")
    out.append(f"theorem dec_enc_{n} (key : BitVec {w}) (b : BitVec 128) : dec_{n} key (enc_{n} key b) = b := by\n  rw [enc_{n}_eq_impl, dec_{n}_eq_impl, BC.Cast6.decrypt_encrypt_key]\n")
    out.append(f"theorem enc_dec_{n} (key : BitVec {w}) (b : BitVec 128) : enc_{n} key (dec_{n} key b) = b := by\n  rw [enc_{n}_eq_impl, dec_{n}_eq_impl, BC.Cast6.encrypt_decrypt_key]\n")
    out.append(f"/-- the regenerated CAST-256 code = RFC 2612, {n}-byte keys -/\ntheorem enc_{n}_eq_spec (key : BitVec {w}) (b : BitVec 128) : enc_{n} key b = BC.Spec.Cast6.encrypt (unpackBE {n} key) b := by\n  rw [enc_{n}_eq_impl, BC.Cast6.encrypt_eq_spec _ (accepts_{n} key)]\n")
    out.append(f"theorem dec_{n}_eq_spec (key : BitVec {w}) (b : BitVec 128) : dec_{n} key b = BC.Spec.Cast6.decrypt (unpackBE {n} key) b := by\n  rw [dec_{n}_eq_impl, BC.Cast6.decrypt_eq_spec _ (accepts_{n} key)]\n")
out.append("end BC.Code.Cast6\n")
open('/tmp/dev/w_morex/out/CodeCast6.lean','w').write("\n".join(out))
