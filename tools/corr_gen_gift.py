# Correspondence generator for Gift128 (4148 op lines): python3 corr_gen_gift.py writes ops.txt in the cwd;
# run `bc-harness run < ops.txt` and `driver run < ops.txt` and diff.
import random
random.seed(20260929)
C="Gift128"
FF=b'\xff'*16
def hx(b): return b.hex() if b else "-"
def rnd(n): return bytes(random.getrandbits(8) for _ in range(n))
structured=[bytes(16), b'\xff'*16, b'\x80'+bytes(15), bytes(15)+b'\x01', b'\x55'*16, b'\xaa'*16,
  bytes(range(16)), bytes(range(240,256)), b'\x7f'+b'\xff'*15, b'\xff'*15+b'\xfe', b'\x0f'*16, b'\xf0'*16,
  b'\x33'*16, b'\xcc'*16, bytes.fromhex("fedcba9876543210fedcba9876543210"), bytes.fromhex("d0f5c59a7700d3e799028fa9f90ad837"),
  bytes.fromhex("e39c141fa57dba43f08a85b6a91f86c1"), b'\x00\xff'*8, b'\xff\x00'*8, b'\x01'*16, b'\x80'*16]
single=[(1<<i).to_bytes(16,'big') for i in range(128)]
L=[]
# wrong lengths
for n in range(0,65):
    L.append(f"new {C} {hx(rnd(n))}")
    L.append(f"new {C} {hx(bytes(n))}")
for n in (0,1,15,17,24,32,64):
    L.append(f"enc {C} {hx(rnd(n))} {hx(rnd(16))}")
    L.append(f"probe {C} {hx(rnd(n))}")
    L.append(f"encs {C} inplace 0 {hx(rnd(n))} {hx(rnd(32))}")
# structured x structured
for k in structured:
    for b in structured:
        L.append(f"rt {C} {hx(k)} {hx(b)}")
# single-bit keys with zero/random blocks, single-bit blocks with zero/random key
for k in single:
    L.append(f"enc {C} {hx(k)} {hx(bytes(16))}")
    L.append(f"dec {C} {hx(k)} {hx(rnd(16))}")
rk=rnd(16)
for b in single:
    L.append(f"enc {C} {hx(bytes(16))} {hx(b)}")
    L.append(f"dec {C} {hx(rk)} {hx(b)}")
    L.append(f"rt {C} {hx(FF)} {hx(b)}")
# complement of single bit
for i in range(0,128,3):
    v=((1<<128)-1) ^ (1<<i)
    L.append(f"rt {C} {hx(v.to_bytes(16,'big'))} {hx(v.to_bytes(16,'big'))}")
# random
for _ in range(900):
    L.append(f"enc {C} {hx(rnd(16))} {hx(rnd(16))}")
for _ in range(900):
    L.append(f"dec {C} {hx(rnd(16))} {hx(rnd(16))}")
for _ in range(500):
    L.append(f"rt {C} {hx(rnd(16))} {hx(rnd(16))}")
for _ in range(150):
    L.append(f"probe {C} {hx(rnd(16))}")
for k in structured:
    L.append(f"probe {C} {hx(k)}")
shapes=["inplace","b2b","inout","inout1","single","b2b1"]
for _ in range(300):
    n=random.choice([1,2,3,4,5,7,8,9,16])
    op=random.choice(["encs","decs"])
    L.append(f"{op} {C} {random.choice(shapes)} {random.choice([0,1,3,4,7,8,15,16,33,64])} {hx(rnd(16))} {hx(rnd(16*n))}")
for k in structured[:8]:
    for sh in shapes:
        L.append(f"encs {C} {sh} 0 {hx(k)} {hx(b''.join(structured[:6]))}")
        L.append(f"decs {C} {sh} 5 {hx(k)} {hx(b''.join(structured[6:12]))}")
L.append(f"algname {C}")
L.append(f"debug {C} {hx(rnd(16))}")
L.append(f"probeclone {C} {hx(rnd(16))}")
L.append(f"probefixed {C} {hx(rnd(16))}")
L.append(f"weak {C} {hx(rnd(16))}")
L.append(f"newchecked {C} {hx(rnd(16))}")
open("ops.txt","w").write("\n".join(L)+"\n")
print(len(L))
