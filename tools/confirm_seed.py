#!/usr/bin/env python3
"""confirm_seed.py <spec.json> [<id> ...]

Confirms seeded changes in their scratch worktree (never in /repo) and files them under /verif/seeded/<id>/:
  1. pristine tree + demo            -> demo passes
  2. patch applied + demo            -> demo FAILS
  3. patch applied, demo removed     -> `cargo test --workspace --no-fail-fast --offline` (the baseline suite) passes
  4. worktree restored
spec.json: list of {id, property, worktree, patch, demo_src, demo_dest, demo_cmd, demo_env, needs, what}
Writes seeded/<id>/{patch.diff, demo/<file>, meta.json}.  meta.json records exactly what was run and the outcomes."""
import json
import os
import shutil
import subprocess
import sys
import time

SEEDED = "/verif/seeded"


def sh(cmd, cwd, env=None, timeout=3600):
    e = dict(os.environ)
    e["CARGO_NET_OFFLINE"] = "true"
    if env:
        e.update(env)
    p = subprocess.run(cmd, cwd=cwd, env=e, shell=True, capture_output=True, text=True, timeout=timeout)
    return p.returncode, (p.stdout + p.stderr)


def summary(out):
    ls = [l for l in out.splitlines() if l.startswith("test result:") or "FAILED" in l or "panicked" in l]
    return ls[-6:]


def confirm(s):
    wt = s["worktree"]
    dest = os.path.join(wt, s["demo_dest"])
    sh("git checkout -- . ", wt)
    if os.path.exists(dest):
        os.remove(dest)
    os.makedirs(os.path.dirname(dest), exist_ok=True)
    res = {"ran_at": time.strftime("%Y-%m-%dT%H:%M:%SZ", time.gmtime()), "worktree": wt}
    shutil.copy(s["demo_src"], dest)
    rc, out = sh(s["demo_cmd"], wt, s.get("demo_env"))
    res["demo_on_pristine"] = {"cmd": s["demo_cmd"], "env": s.get("demo_env", {}), "rc": rc, "summary": summary(out)}
    rc2, out2 = sh(f"git apply {s['patch']}", wt)
    if rc2:
        res["apply"] = out2[-500:]
        return res, False
    rc, out = sh(s["demo_cmd"], wt, s.get("demo_env"))
    res["demo_with_patch"] = {"rc": rc, "summary": summary(out)}
    os.remove(dest)
    rc, out = sh("cargo test --workspace --no-fail-fast --offline -j 8", wt)
    oks = len([l for l in out.splitlines() if l.startswith("test result: ok")])
    fails = len([l for l in out.splitlines() if l.startswith("test result: FAILED")])
    res["baseline_suite_with_patch"] = {"cmd": "cargo test --workspace --no-fail-fast --offline", "rc": rc,
                                         "result_ok_lines": oks, "result_failed_lines": fails}
    sh("git checkout -- . ", wt)
    ok = (res["demo_on_pristine"]["rc"] == 0 and res["demo_with_patch"]["rc"] != 0 and rc == 0 and fails == 0)
    return res, ok


def main():
    spec = json.load(open(sys.argv[1]))
    want = set(sys.argv[2:])
    for s in spec:
        if want and s["id"] not in want:
            continue
        d = os.path.join(SEEDED, s["id"])
        if os.path.exists(os.path.join(d, "meta.json")) and not want:
            continue
        res, ok = confirm(s)
        print(s["id"], "CONFIRMED" if ok else "NOT-CONFIRMED", json.dumps(res)[:600], flush=True)
        if not ok:
            continue
        os.makedirs(os.path.join(d, "demo"), exist_ok=True)
        shutil.copy(s["patch"], os.path.join(d, "patch.diff"))
        shutil.copy(s["demo_src"], os.path.join(d, "demo", os.path.basename(s["demo_dest"])))
        meta = {"id": s["id"], "breaks_property": s["property"], "what": s["what"], "needs_to_manifest": s["needs"],
                "demo": {"file": "demo/" + os.path.basename(s["demo_dest"]), "place_at": s["demo_dest"],
                         "cmd": s["demo_cmd"], "env": s.get("demo_env", {})},
                "confirmed": res, "detected_by": {}}
        json.dump(meta, open(os.path.join(d, "meta.json"), "w"), indent=1)


if __name__ == "__main__":
    main()
