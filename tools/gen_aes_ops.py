import random, sys
rnd = random.Random(int(sys.argv[1]) if len(sys.argv) > 1 else 20260929)
out = []
FF128 = bytes([255])*128
fams = {"Aes128":16, "Aes192":24, "Aes256":32}
def hx(b): return b.hex() if len(b) else "-"
def rb(n): return bytes(rnd.getrandbits(8) for _ in range(n))
def structured(n):
    L = [bytes(n), b"\xff"*n, bytes(range(n)), bytes([0x80]+[0]*(n-1)), bytes([0]*(n-1)+[1]),
         b"\x01"*n, b"\xfe"*n, b"\x7f"*n, b"\x80"*n, bytes([0xff]*(n//2)+[0]*(n-n//2)), bytes([0]*(n//2)+[0xff]*(n-n//2))]
    for _ in range(4):
        c = rnd.getrandbits(8); L.append(bytes([c])*n)
    for _ in range(6):
        i = rnd.randrange(8*n); v = bytearray(n); v[i//8] = 1 << (7 - i%8); L.append(bytes(v))
    for _ in range(3):   # low hamming weight
        v = bytearray(n)
        for _ in range(3): i = rnd.randrange(8*n); v[i//8] |= 1 << (i%8)
        L.append(bytes(v))
    return L
types = []
for f,n in fams.items():
    types += [(f,n,"ed"),(f+"Enc",n,"e"),(f+"Dec",n,"d")]
# 1. enc / dec / rt, random and structured
for (t,n,caps) in types:
    keys = structured(n) + [rb(n) for _ in range(25)]
    blocks = structured(16) + [rb(16) for _ in range(25)]
    for i in range(60):
        k = rnd.choice(keys); b = rnd.choice(blocks)
        if i < len(keys): k = keys[i]
        if i < len(blocks): b = blocks[i]
        for op in ("enc","dec"):
            out.append(f"{op} {t} {hx(k)} {hx(b)}")
        if caps == "ed" or i % 10 == 0:
            out.append(f"rt {t} {hx(k)} {hx(b)}")
    # all 128 single-bit blocks for the combined types under one random key, all single-bit keys
    if caps == "ed":
        k = rb(n)
        for i in range(128):
            v = bytearray(16); v[i//8] = 1 << (7 - i%8)
            out.append(f"enc {t} {hx(k)} {hx(bytes(v))}")
        b = rb(16)
        for i in range(8*n):
            v = bytearray(n); v[i//8] = 1 << (7 - i%8)
            out.append(f"dec {t} {hx(bytes(v))} {hx(b)}")
    # wrong lengths
    for l in range(0,65):
        out.append(f"new {t} {hx(rb(l))}")
    for l in (0,1,15,17,23,25,31,33):
        out.append(f"enc {t} {hx(rb(l))} {hx(rb(16))}")
        out.append(f"probe {t} {hx(rb(l))}")
    for _ in range(6):
        k = rb(n)
        out.append(f"probe {t} {hx(k)}"); out.append(f"probeclone {t} {hx(k)}"); out.append(f"probefixed {t} {hx(k)}")
    out.append(f"debug {t} {hx(rb(n))}"); out.append(f"debug {t} {hx(rb(n+1))}"); out.append(f"algname {t}")
    # multi-block, around the 9-block ParBlocks boundary
    for nb in (1,2,8,9,10,17,18,19,27,28):
        for shape in ("inplace","b2b","inout","single"):
            k = rb(n); d = rb(16*nb); off = rnd.randrange(16)
            for op in ("encs","decs"):
                if nb in (1,9,10,19) or shape == "inplace":
                    out.append(f"{op} {t} {shape} {off} {hx(k)} {hx(d)}")
    # C13 weak: first half zero / single bit in each position / random
    ks = [bytes(n), bytes(n//2) + b"\xff"*(n-n//2), bytes(n//2) + rb(n-n//2), bytes(n//2) + rb(n-n//2), b"\xff"*n]
    if n == 24:
        ks += [bytes(8)+rb(16), bytes(11)+rb(13), bytes(12)+bytes([0x80])+bytes(11), bytes(11)+bytes([1])+bytes(12), bytes(16)+rb(8)]
    for i in range(8*n):
        v = bytearray(n); v[i//8] = 1 << (7 - i%8); ks.append(bytes(v))
    for i in range(0, 8*n, 7):   # single bit + random lower half
        v = bytearray(bytes(n//2) + rb(n - n//2)); v[i//8] ^= 1 << (7 - i%8); ks.append(bytes(v))
    ks += [rb(n) for _ in range(10)]
    for k in ks:
        out.append(f"weak {t} {hx(k)}")
    for k in ks[:12] + ks[-6:] + rnd.sample(ks, 10):
        out.append(f"newchecked {t} {hx(k)}")
    for l in (0, n-1, n+1, 64):
        out.append(f"weak {t} {hx(rb(l))}"); out.append(f"newchecked {t} {hx(rb(l))}")
# 2. routes
routes = ["c.new","e.new","d.new","c.from_e","c.from_eref","d.from_e","d.from_eref","c.clone","e.clone","d.clone",
          "c.clone_from_e","d.clone_from_e","c.from_eclone","d.from_eclone"]
for f,n in fams.items():
    for r in routes:
        for k in [bytes(n), b"\xff"*n, rb(n), rb(n), rb(n), rb(n)]:
            out.append(f"route {f} {r} {hx(k)}")
        out.append(f"route {f} {r} {hx(rb(n-1))}")
        out.append(f"route {f} {r} {hx(rb(n+8))}")
    out.append(f"route {f} x.new {hx(rb(n))}")
    out.append(f"route {f} c.new zz")
# 3. hazmat
for fn in ("cipher_round","equiv_inv_cipher_round"):
    bl = structured(16) + [rb(16) for _ in range(40)]
    for b in bl:
        out.append(f"hazmat {fn} {hx(b)} {hx(rnd.choice(bl))}")
    for b in structured(16):
        out.append(f"hazmat {fn} {hx(b)} {hx(bytes(16))}")
    for i in range(128):
        v = bytearray(16); v[i//8] = 1 << (7 - i%8)
        out.append(f"hazmat {fn} {hx(bytes(v))} {hx(bytes(16))}")
    for x in range(256):
        if x % 4 == 0: out.append(f"hazmat {fn} {hx(bytes([x, (x+1)&255, (x+2)&255, (x+3)&255]*4))} {hx(bytes(16))}")
    out.append(f"hazmat {fn} {hx(rb(15))} {hx(rb(16))}")
    out.append(f"hazmat {fn} {hx(rb(16))} {hx(rb(17))}")
    out.append(f"hazmat {fn} {hx(rb(16))}")
for fn in ("mix_columns","inv_mix_columns"):
    for b in structured(16) + [rb(16) for _ in range(40)]:
        out.append(f"hazmat {fn} {hx(b)}")
    for i in range(128):
        v = bytearray(16); v[i//8] = 1 << (7 - i%8)
        out.append(f"hazmat {fn} {hx(bytes(v))}")
    out.append(f"hazmat {fn} {hx(rb(0))}"); out.append(f"hazmat {fn} {hx(rb(32))}")
for fn in ("cipher_round_par","equiv_inv_cipher_round_par"):
    for _ in range(40):
        out.append(f"hazmat {fn} {hx(rb(128))} {hx(rb(128))}")
    out.append(f"hazmat {fn} {hx(bytes(128))} {hx(bytes(128))}")
    out.append(f"hazmat {fn} {hx(FF128)} {hx(bytes(range(128)))}")
    # 8 different lanes of structured blocks, each with its own key
    s = structured(16); J1 = b''.join(s[:8]); J2 = b''.join(s[8:16])
    out.append(f"hazmat {fn} {hx(J1)} {hx(J2)}")
    out.append(f"hazmat {fn} {hx(rb(112))} {hx(rb(128))}")
    out.append(f"hazmat {fn} {hx(rb(128))} {hx(rb(16))}")
out.append("hazmat nosuch " + hx(rb(16)))
print("\n".join(out))
