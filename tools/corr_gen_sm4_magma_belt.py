import random, sys
random.seed(20260929)
R=random.Random(int(sys.argv[2]) if len(sys.argv)>2 else 12345)
def rh(n): return ''.join('%02x'%R.randrange(256) for _ in range(n)) if n else '-'
def hx(b): return bytes(b).hex() if len(b) else '-'
names={'Sm4':(16,16),'Magma':(8,32),'Gost89Test':(8,32),'Gost89CryptoProA':(8,32),'Gost89CryptoProB':(8,32),
 'Gost89CryptoProC':(8,32),'Gost89CryptoProD':(8,32),'Gost89User':(8,32),'BeltBlock':(16,32)}
def structured(n):
    out=[bytes(n),bytes([0xff]*n),bytes([0x80]+[0]*(n-1)),bytes([0]*(n-1)+[1]),bytes([0x7f]+[0xff]*(n-1)),
         bytes([0xff]*(n-1)+[0xfe]),bytes([0x01]*n),bytes([0x80]*n),bytes([0xaa]*n),bytes([0x55]*n),bytes(range(n)),
         bytes([(255-i)&255 for i in range(n)]), bytes([0xff,0xff,0xff,0xff]+[0]*(n-4)), bytes([0]*(n-4)+[0xff]*4),
         bytes(([0xff,0xff,0xff,0xff,0,0,0,1]*n)[:n]), bytes(([0x7f,0xff,0xff,0xff,0x80,0,0,0]*n)[:n]),
         bytes(([0,0,0,1,0xff,0xff,0xff,0xff]*n)[:n]), bytes(([0xf0,0x0f]*n)[:n])]
    for bit in [0,7,8,31,32,63,8*n-1,8*n-9, 8*n-32]:
        v=bytearray(n); v[bit//8]|=0x80>>(bit%8); out.append(bytes(v))
    return out
L=[]
for nm,(bl,kl) in names.items():
    L.append(f'algname {nm}')
    for wl in range(0,65):
        L.append(f'new {nm} {rh(wl)}')
    ks=structured(kl); bs=structured(bl)
    for k in ks[:4]+[bytes(R.randrange(256) for _ in range(kl))]:
        L.append(f'debug {nm} {hx(k)}')
    # structured x structured
    for k in ks:
        for b in bs[:12]:
            L.append(f'rt {nm} {hx(k)} {hx(b)}')
    for b in bs:
        L.append(f'enc {nm} {rh(kl)} {hx(b)}')
        L.append(f'dec {nm} {rh(kl)} {hx(b)}')
    for k in ks:
        L.append(f'probe {nm} {hx(k)}')
    for _ in range(120):
        L.append(f'rt {nm} {rh(kl)} {rh(bl)}')
    for _ in range(10):
        nb=R.randrange(1,6)
        sh=R.choice(['inplace','b2b','inout','inout1','single','b2b1']); off=R.randrange(0,17)
        L.append(f'encs {nm} {sh} {off} {rh(kl)} {rh(bl*nb)}')
        L.append(f'decs {nm} {sh} {off} {rh(kl)} {rh(bl*nb)}')
    # wrong-length key for enc
    L.append(f'enc {nm} {rh(kl-1)} {rh(bl)}')
    L.append(f'enc {nm} {rh(kl+1)} {rh(bl)}')
# carries for Magma: a+k wraps
for nm in ['Magma','Gost89User','Gost89CryptoProA']:
    for _ in range(30):
        w=R.choice(['ffffffff','80000000','7fffffff','00000001','fffffffe','ffff0001'])
        k=''.join(R.choice([w,'ffffffff','00000001']) for _ in range(8))
        b=''.join(R.choice(['ffffffff','00000001','80000000','fffffffe',rh(4)]) for _ in range(2))
        L.append(f'rt {nm} {k} {b}')
# belt carries (LE words)
for _ in range(60):
    k=''.join(R.choice(['ffffffff','01000000','00000080','feffffff',rh(4)]) for _ in range(8))
    b=''.join(R.choice(['ffffffff','01000000','00000080','feffffff',rh(4)]) for _ in range(4))
    L.append(f'rt BeltBlock {k} {b}')
    L.append(f'beltraw {k} {b}')
# beltraw
ks=structured(32); bs=structured(16)
for k in ks:
    for b in bs[:8]:
        L.append(f'beltraw {hx(k)} {hx(b)}')
for _ in range(200):
    L.append(f'beltraw {rh(32)} {rh(16)}')
# STB vectors
k1='e9dee72c8f0c0fa62ddb49f46f73964706075316ed247a3739cba38303a98bf6'
k2='92bd9b1ce5d141015445fbc95e4d0ef2682080aa227d642f2687f93490405511'
L.append(f'beltraw {k1} b194bac80a08f53b366d008e584a5de4')
L.append(f'rt BeltBlock {k2} 0dc5300600cab840b38448e5e993f421')
x1='b194bac80a08f53b366d008e584a5de48504fa9d1bb6c7ac252e72c202fdce0d5be3d61217b96181fe6786ad716b890b'
L.append(f'wblock enc {k1} {x1}')
L.append(f'wblock enc {k1} {x1[:-2]}')
L.append(f'wblock dec {k2} e12bdc1ae28257ec703fccf095ee8df1c1ab76389fe678caf7c6f860d5bb9c4ff33c657b637c306add4ea7799eb23d31')
L.append(f'wblock dec {k2} e12bdc1ae28257ec703fccf095ee8df1c1ab76389fe678caf7c6f860d5bb9c4ff33c657b')
# wblock: every length 0..=300, both directions, random contents; plus structured
for ln in range(0,301):
    k=rh(32)
    L.append(f'wblock enc {k} {rh(ln)}')
    L.append(f'wblock dec {k} {rh(ln)}')
for ln in [0,1,15,16,31,32,33,47,48,49,63,64,65,100,255,256,257]:
    for fill in [0,0xff]:
        L.append(f'wblock enc {hx(bytes([fill])*32)} {hx(bytes([fill])*ln)}')
        L.append(f'wblock dec {hx(bytes([fill])*32)} {hx(bytes([fill])*ln)}')
for ln in [512,1000,2049,4096+7]:
    k=rh(32)
    L.append(f'wblock enc {k} {rh(ln)}')
    L.append(f'wblock dec {k} {rh(ln)}')
# SM4 GB/T
L.append('rt Sm4 0123456789abcdeffedcba9876543210 0123456789abcdeffedcba9876543210')
L.append('rt Magma ffeeddccbbaa99887766554433221100f0f1f2f3f4f5f6f7f8f9fafbfcfdfeff fedcba9876543210')
open(sys.argv[1],'w').write('\n'.join(L)+'\n')
print(len(L))
