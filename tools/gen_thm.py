#!/usr/bin/env python3
"""gen_thm.py — (re)generate the *statement* part of lean/BlockCiphers/Thm/Cxx.lean from a table of
(proofs module, theorem names).  Each selected theorem is restated verbatim (its binders and statement are copied from
the proofs file, inside the same namespace/open context) and proved by applying the proofs-module theorem, so that
the property theorems are readable in one file per property and cannot be weakened silently: the statement text
lives in Thm/, the proof in Proofs/.  Run by hand when the table changes; the output is committed.
"""
import os
import re
import sys

LEAN = os.path.join(os.path.dirname(os.path.dirname(os.path.abspath(__file__))), "lean")
P = os.path.join(LEAN, "BlockCiphers", "Proofs")


def ns_stack(src, pos):
    ns = []
    for l in src[:pos].split("\n"):
        mm = re.match(r"^namespace\s+(\S+)", l)
        if mm:
            ns.append(mm.group(1))
        mm = re.match(r"^end\s+(\S+)", l)
        if mm and ns and ns[-1] == mm.group(1):
            ns.pop()
    return ns


def find_theorem(src, name):
    m = re.search(r"^(?:@\[[^\]]*\]\s*)?theorem\s+" + re.escape(name) + r"(?![\w'.])", src, re.M)
    if not m and "." in name:
        # qualified name: `Soft.encrypt_eq_spec` = theorem `encrypt_eq_spec` declared inside `namespace Soft`
        qual, base = name.rsplit(".", 1)
        for mm in re.finditer(r"^(?:@\[[^\]]*\]\s*)?theorem\s+" + re.escape(base) + r"(?![\w'.])", src, re.M):
            if ".".join(ns_stack(src, mm.start())).endswith(qual):
                m = mm
                break
    if not m:
        return None
    # signature up to the first ':=' at bracket depth 0
    i = m.end()
    depth = 0
    while i < len(src):
        c = src[i]
        if c in "([{⟨":
            depth += 1
        elif c in ")]}⟩":
            depth -= 1
        elif src.startswith(":=", i) and depth == 0:
            break
        elif src.startswith("\n|", i) and depth == 0:
            break
        i += 1
    sig = src[m.end():i].rstrip()
    # doc comment immediately before
    pre = src[:m.start()].rstrip()
    doc = ""
    if pre.endswith("-/"):
        j = pre.rfind("/--")
        if j >= 0 and "-/" not in pre[j:-2]:
            doc = pre[j:]
    # `open X in` lines directly before
    openin = []
    lines = src[:m.start()].split("\n")
    k = len(lines) - 1
    while k >= 0 and (lines[k].strip() == "" or lines[k].strip().endswith("-/") or lines[k].lstrip().startswith(("/--", " ", "`"))):
        k -= 1
    # simple: search the 3 lines before the doc comment for open..in
    head = src[:m.start()]
    if doc:
        head = head[:head.rfind("/--")]
    tail_lines = head.rstrip().split("\n")[-2:]
    for l in tail_lines:
        if re.match(r"\s*open .* in\s*$", l):
            openin.append(l.strip())
    # namespace + opens in effect
    ns = []
    opens = []
    lines_ = src[:m.start()].split("\n")
    idx = 0
    while idx < len(lines_):
        l = lines_[idx]
        mm = re.match(r"^namespace\s+(\S+)", l)
        if mm:
            ns.append(mm.group(1))
        mm = re.match(r"^end\s+(\S+)", l)
        if mm and ns and ns[-1] == mm.group(1):
            ns.pop()
        mm = re.match(r"^open\s+(.*)$", l)
        if mm and not l.rstrip().endswith(" in"):
            stmt = l.rstrip()
            while stmt.count("(") > stmt.count(")") and idx + 1 < len(lines_):
                idx += 1
                stmt += "\n" + lines_[idx].rstrip()
            opens.append(stmt)
        idx += 1
    return {"sig": sig, "doc": doc, "ns": ns, "opens": opens, "openin": openin}


def explicit_args(sig):
    """names of the explicit binders `(a b : T)` at depth 0 before the final ':'"""
    args = []
    i, depth, start = 0, 0, None
    n = len(sig)
    while i < n:
        c = sig[i]
        if c in "([{⦃":
            if depth == 0:
                start = (i, c)
            depth += 1
        elif c in ")]}⦄":
            depth -= 1
            if depth == 0 and start:
                s0, ch = start
                inner = sig[s0 + 1:i]
                if ch == "(" and ":" in inner:
                    names = inner.split(":", 1)[0].split()
                    args += names
                start = None
        elif c == ":" and depth == 0:
            break
        i += 1
    return args


def gen(pid, title, entries, imports, extra_header="", extra_body=""):
    out = []
    for mod in imports:
        out.append(f"import {mod}")
    out.append("/-")
    out.append(f"{pid} — {title}")
    out.append("GENERATED statement file (tools/gen_thm.py): every theorem below restates, verbatim, a theorem of a Proofs/ module")
    out.append("and is proved by applying it.  ONLY property theorems and non-vacuity examples live in Thm/.")
    if extra_header:
        out.append(extra_header)
    out.append("-/")
    missing = []
    for (f, names) in entries:
        src = open(os.path.join(P, f)).read()
        cur_ns = None
        for item in names:
            name, alias = (item, item) if isinstance(item, str) else item
            t = find_theorem(src, name)
            if t is None:
                missing.append((f, name))
                continue
            ns = ".".join(t["ns"]) if t["ns"] else ""
            out.append("")
            if ns:
                out.append(f"namespace {t['ns'][-1]}" if False else f"namespace {ns}")
            for o in t["opens"]:
                out.append(o)
            if t["doc"]:
                out.append(t["doc"])
            for o in t["openin"]:
                out.append(o)
            args = " ".join(explicit_args(t["sig"]))
            declared = name if re.search(r"theorem\s+" + re.escape(name) + r"(?![\w'.])", src) else name.rsplit(".", 1)[1]
            fq = "_root_." + (ns + "." if ns else "") + declared
            out.append(f"theorem {pid}.{alias}{t['sig']} :=\n  {fq} {args}".rstrip())
            if ns:
                out.append(f"end {ns}")
    if extra_body:
        out.append("")
        out.append(extra_body)
    return "\n".join(out) + "\n", missing


if __name__ == "__main__":
    sys.path.insert(0, os.path.dirname(os.path.abspath(__file__)))
    import thm_table
    only = sys.argv[1:]
    for pid, spec in thm_table.TABLE.items():
        if only and pid not in only:
            continue
        text, missing = gen(pid, spec["title"], spec["entries"], spec["imports"], spec.get("header", ""), spec.get("body", ""))
        open(os.path.join(LEAN, "BlockCiphers", "Thm", f"{pid}.lean"), "w").write(text)
        print(pid, "written;", "missing:", missing if missing else "none")
