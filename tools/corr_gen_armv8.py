#!/usr/bin/env python3
"""Operation lines for the ARMv8 shadow correspondence (harness with the shadow build  <->  Lean driver).

usage: corr_gen_armv8.py <seed> <out.ops> [<out.xcheck.ops>]
         out.ops        ~4800 lines on the Armv8Aes* names: new (lengths 0..64), probe/probefixed/probeclone, debug, algname,
                        weak, newchecked, enc/dec/rt, encs/decs (6 shapes, offsets, block counts 0,1,2, Par-1..Par+1,
                        2Par-1..2Par+1, 2Par+3, 3Par+2 and 16..22 for Par = 21/19/17), route (14 routes), hist, thr, hazmatarm
         out.xcheck.ops the enc/dec/rt/encs/decs/probe/route/hazmat lines in pairs: first on `Armv8AesN…` (shadow build,
                        software intrinsics), then on the real `AesN…` (AES-NI on this host)
       corr_gen_armv8.py xcheck <harness output of out.xcheck.ops>     lines 2i and 2i+1 must be identical

  H=<harness built with --features zeroize,hazmat,bcrypt>/bc-harness ; D=<lean>/.lake/build/bin/driver
  corr_gen_armv8.py 1 a.ops a.x.ops ; $H run < a.ops > a.impl ; $D < a.ops > a.model ; diff a.impl a.model
  $H run < a.x.ops > a.x.out ; corr_gen_armv8.py xcheck a.x.out
"""
import random, sys

if sys.argv[1] == "xcheck":
    l = open(sys.argv[2]).read().split("\n")[:-1]
    bad = [(i, l[i], l[i + 1]) for i in range(0, len(l), 2) if l[i] != l[i + 1]]
    print(len(l) // 2, "pairs,", len(bad), "differ")
    for b in bad[:10]: print(b)
    sys.exit(1 if bad else 0)

seed = int(sys.argv[1]); out = sys.argv[2]; xout = sys.argv[3] if len(sys.argv) > 3 else None
r = random.Random(seed)
hx = lambda b: b.hex() if b else "-"
FAMS = {"Aes128": (16, 21), "Aes192": (24, 19), "Aes256": (32, 17)}
ROUTES = ["c.new", "e.new", "d.new", "c.from_e", "c.from_eref", "d.from_e", "d.from_eref", "c.clone", "e.clone", "d.clone",
          "c.clone_from_e", "d.clone_from_e", "c.from_eclone", "d.from_eclone"]
SHAPES = ["inplace", "b2b", "inout", "inout1", "single", "b2b1"]

def structured(n):
    c = r.randrange(10)
    if c == 0: return bytes(n)
    if c == 1: return b"\xff" * n
    if c == 2:
        b = bytearray(n); i = r.randrange(8 * n); b[i // 8] |= 1 << (i % 8); return bytes(b)
    if c == 3: return bytes([r.randrange(256)]) * n
    if c == 4: return bytes(range(n))
    if c == 5: return bytes((0x80 if i % 2 else 0x7f) for i in range(n))
    if c == 6:
        b = bytearray(b"\xff" * n); i = r.randrange(8 * n); b[i // 8] &= ~(1 << (i % 8)) & 0xff; return bytes(b)
    if c == 7: return bytes(n // 2) + r.randbytes(n - n // 2)          # weak-key shaped (upper half zero)
    if c == 8: h = r.randbytes(n // 2); return h + h[: n - n // 2]
    return bytes(r.choice([0x00, 0x01, 0x52, 0x63, 0xff, 0x80]) for _ in range(n))

def val(n): return structured(n) if r.random() < 0.4 else r.randbytes(n)

ops, x = [], []
def both(line_fmt):
    """line with {P} = name prefix; goes to ops (Armv8) and to the cross-check pair file"""
    ops.append(line_fmt.replace("{P}", "Armv8"))
    x.append(line_fmt.replace("{P}", "Armv8")); x.append(line_fmt.replace("{P}", ""))

for fam, (kl, par) in FAMS.items():
    # malformed lengths
    for n in range(0, 65):
        for suf in ("", "Enc", "Dec"):
            if suf == "" or n in (0, 15, 16, 17, 23, 24, 25, 31, 32, 33, 64):
                ops.append(f"new Armv8{fam}{suf} {hx(r.randbytes(n))}")
    for suf in ("", "Enc", "Dec"):
        ops.append(f"algname Armv8{fam}{suf}")
        ops.append(f"debug Armv8{fam}{suf} {hx(val(kl))}")
        ops.append(f"debug Armv8{fam}{suf} {hx(val(kl + 1))}")
        for _ in range(12):
            k = val(kl)
            both(f"probe {{P}}{fam}{suf} {hx(k)}")
            ops.append(f"probefixed Armv8{fam}{suf} {hx(k)}")
            ops.append(f"probeclone Armv8{fam}{suf} {hx(k)}")
            ops.append(f"weak Armv8{fam}{suf} {hx(val(kl))}")
            ops.append(f"newchecked Armv8{fam}{suf} {hx(val(kl))}")
        ops.append(f"weak Armv8{fam}{suf} {hx(val(kl - 1))}")
        ops.append(f"probefixed Armv8{fam}{suf} {hx(val(kl + 8))}")
    # single blocks
    for _ in range(260):
        k, b = val(kl), val(16)
        both(f"rt {{P}}{fam} {hx(k)} {hx(b)}")
    for _ in range(120):
        k, b = val(kl), val(16)
        both(f"enc {{P}}{fam}Enc {hx(k)} {hx(b)}")
        both(f"dec {{P}}{fam}Dec {hx(k)} {hx(b)}")
    for _ in range(40):
        k, b = val(kl), val(16)
        both(f"enc {{P}}{fam} {hx(k)} {hx(b)}")
        both(f"dec {{P}}{fam} {hx(k)} {hx(b)}")
        ops.append(f"dec Armv8{fam}Enc {hx(k)} {hx(b)}")      # unsupported
        ops.append(f"enc Armv8{fam}Dec {hx(k)} {hx(b)}")
        ops.append(f"rt Armv8{fam}Enc {hx(k)} {hx(b)}")
    ops.append(f"enc Armv8{fam} {hx(val(kl))} {hx(val(15))}")  # bad-op
    ops.append(f"enc Armv8{fam} {hx(val(kl - 1))} {hx(val(16))}")  # err-len
    # multi block around the ParBlocks boundaries
    counts = sorted(set([0, 1, 2, par - 1, par, par + 1, 2 * par - 1, 2 * par, 2 * par + 1, 2 * par + 3, 3 * par + 2,
                         16, 17, 18, 19, 20, 21, 22]))
    for n in counts:
        for shape in SHAPES:
            for op, suf in (("encs", ""), ("decs", ""), ("encs", "Enc"), ("decs", "Dec")):
                if suf and r.random() < 0.5: continue
                off = r.choice([0, 0, 1, 3, 7, 8, 15, 16, 33])
                k = val(kl)
                # blocks that differ beyond byte 0 so lane mix-ups are visible
                data = b"".join(val(16) for _ in range(n))
                both(f"{op} {{P}}{fam}{suf} {shape} {off} {hx(k)} {hx(data)}")
    ops.append(f"decs Armv8{fam}Enc inplace 0 {hx(val(kl))} {hx(val(32))}")   # unsupported
    ops.append(f"encs Armv8{fam}Dec b2b 0 {hx(val(kl))} {hx(val(32))}")
    # routes
    for route in ROUTES:
        for _ in range(6):
            both(f"route {{P}}{fam} {route} {hx(val(kl))}")
    ops.append(f"route Armv8{fam} c.new {hx(val(kl + 1))}")
    # hist scripts
    for _ in range(25):
        ids, cmds, live = ["a", "b", "c", "d"], [], {}
        for step in range(r.randrange(5, 25)):
            c = r.random()
            if c < 0.25 or not live:
                i = r.choice(ids); suf = r.choice(["", "Enc", "Dec"]); f2 = r.choice(list(FAMS))
                cmds.append(f"n:{i}:Armv8{f2}{suf}:{hx(val(FAMS[f2][0]))}"); live[i] = suf
            elif c < 0.4:
                i = r.choice(ids); route = r.choice(ROUTES); f2 = r.choice(list(FAMS))
                cmds.append(f"r:{i}:Armv8{f2}:{route}:{hx(val(FAMS[f2][0]))}")
                live[i] = "" if route.startswith("c.") else ("Enc" if route.startswith("e.") else "Dec")
            elif c < 0.5:
                s = r.choice(list(live)); d = r.choice(ids); cmds.append(f"c:{d}:{s}"); live[d] = live[s]
            elif c < 0.55 and len(live) > 1:
                s = r.choice(list(live)); cmds.append(f"x:{s}"); del live[s]
            else:
                s = r.choice(list(live))
                # only directions the instance supports (the driver reports the first unsupported op alone, the
                # harness in place: a protocol quirk that the C15 generator avoids the same way)
                k = r.choice({"": "edED", "Enc": "eE", "Dec": "dD"}[live[s]])
                n = 1 if k in "ed" else r.choice([1, 2, 17, 20, 22, 45])
                cmds.append(f"{k}:{s}:{hx(b''.join(val(16) for _ in range(n)))}")
        ops.append("hist " + ";".join(cmds))
    for _ in range(6):
        ops.append(f"thr Armv8{fam} {r.choice([2, 3, 8])} {hx(val(kl))} {hx(r.randbytes(16 * r.choice([1, 4, 23])))}")

# hazmat
for _ in range(150):
    b, k = val(16), val(16)
    for f in ("cipher_round", "equiv_inv_cipher_round"):
        ops.append(f"hazmatarm {f} {hx(b)} {hx(k)}")
        x.append(f"hazmatarm {f} {hx(b)} {hx(k)}"); x.append(f"hazmat {f} {hx(b)} {hx(k)}")
    for f in ("mix_columns", "inv_mix_columns"):
        ops.append(f"hazmatarm {f} {hx(b)}")
        x.append(f"hazmatarm {f} {hx(b)}"); x.append(f"hazmat {f} {hx(b)}")
for _ in range(60):
    bs = b"".join(val(16) for _ in range(8)); ks = b"".join(val(16) for _ in range(8))
    for f in ("cipher_round_par", "equiv_inv_cipher_round_par"):
        ops.append(f"hazmatarm {f} {hx(bs)} {hx(ks)}")
        x.append(f"hazmatarm {f} {hx(bs)} {hx(ks)}"); x.append(f"hazmat {f} {hx(bs)} {hx(ks)}")
ops += ["hazmatarm cipher_round 00 00", "hazmatarm nosuch " + "00" * 16, "hazmatarm mix_columns " + "00" * 15,
        "hazmatarm cipher_round_par " + "00" * 128 + " " + "00" * 127]

open(out, "w").write("\n".join(ops) + "\n")
if xout: open(xout, "w").write("\n".join(x) + "\n")
print(len(ops), "ops;", len(x) // 2, "cross-check pairs")
