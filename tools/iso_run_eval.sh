#!/bin/sh
mount --bind /tmp/iso/repo /repo
mount --bind /tmp/iso/verif /verif
cd /verif
git -C /repo status --short | head -3
python3 tools/seed_eval.py "$@"
