#!/usr/bin/env python3
"""seed_eval.py <id>:<Cxx>,<Cyy> ...   — runs tools/seedrun.py for each seeded/<id>/patch.diff against the named checks
(quick tier) and records the outcome in seeded/<id>/meta.json under detected_by."""
import json
import re
import subprocess
import sys
import time

for a in sys.argv[1:]:
    sid, props = a.split(":")
    props = props.split(",")
    tier = "quick"
    if props[-1] in ("quick", "thorough"):
        tier = props.pop()
    d = f"/verif/seeded/{sid}"
    r = subprocess.run([sys.executable, "/verif/tools/seedrun.py", f"{d}/patch.diff"] + props + [tier], capture_output=True, text=True)
    meta = json.load(open(f"{d}/meta.json"))
    for l in r.stdout.splitlines():
        m = re.match(r"(C\d\d): (DETECTED|MISSED) rc=(\d+) (\d+) violation", l)
        if m:
            key = m.group(1) + ("" if tier == "quick" else "-thorough")
            meta["detected_by"][key] = {"result": m.group(2), "violation_lines": int(m.group(4)),
                                         "at": time.strftime("%Y-%m-%dT%H:%M:%SZ", time.gmtime())}
            print(sid, l, flush=True)
        elif "no-failing-input-found" in l:
            print("      (no-failing-input-found)", flush=True)
    if r.returncode:
        print(sid, "seedrun failed:", r.stdout[-300:], r.stderr[-300:], flush=True)
    json.dump(meta, open(f"{d}/meta.json", "w"), indent=1)
