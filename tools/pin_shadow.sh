#!/bin/sh
# refresh harness/shadow_pinned from /repo HEAD (see harness/shadow_pinned/README.md)
set -e
cd "$(dirname "$0")/.."
t=$(mktemp -d)
git -C /repo archive HEAD aes/src kuznyechik/src | tar -x -C "$t"
rm -rf harness/shadow_pinned/aes harness/shadow_pinned/kuznyechik
mkdir -p harness/shadow_pinned/aes harness/shadow_pinned/kuznyechik
cp -r "$t/aes/src" harness/shadow_pinned/aes/
cp -r "$t/kuznyechik/src" harness/shadow_pinned/kuznyechik/
git -C /repo rev-parse HEAD > harness/shadow_pinned/COMMIT
rm -rf "$t"
