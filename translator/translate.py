#!/usr/bin/env python3
print("ok")
