#!/usr/bin/env python3
"""Translator: /repo/**/*.rs  ->  /verif/lean/BlockCiphers/Gen/*.lean  (run on every check).

It translates the *declarative / straight-line* parts of the code (DESIGN §4.1):
  G1  integer table literals (const/static arrays)                         -> Gen/Tables.lean
  G3a key-length guards of the `new_from_slice` overrides                  -> Gen/Decls.lean
  G3b Debug / AlgorithmName impls: literal pieces, whether the body reads `self`
  G3c cipher structs: fields, and which of them the Drop impl wipes under feature "zeroize"
  G4  inventory of panic-capable sites (plain arithmetic, indexing, unwrap/expect/assert)  -> Gen/Sites.lean

A file is rewritten only if its content changed.  An extraction that no longer matches is printed as
`BROKEN <what>` (the check then treats the dependent obligation as broken, DESIGN §5).
"""
import hashlib
import os
import re
import sys

REPO = os.environ.get("VERIF_REPO", "/repo")
OUT = os.path.join(os.path.dirname(os.path.dirname(os.path.abspath(__file__))), "lean", "BlockCiphers", "Gen")
CRATES = ["aes", "aria", "belt-block", "blowfish", "camellia", "cast5", "cast6", "des", "gift", "idea",
          "kuznyechik", "magma", "rc2", "rc5", "serpent", "sm4", "speck", "threefish", "twofish", "xtea"]
broken = []


def strip_comments(s):
    out = []
    i, n = 0, len(s)
    while i < n:
        c = s[i]
        if s.startswith("//", i):
            j = s.find("\n", i)
            i = n if j < 0 else j
        elif s.startswith("/*", i):
            depth, i = 1, i + 2
            while i < n and depth:
                if s.startswith("/*", i):
                    depth += 1
                    i += 2
                elif s.startswith("*/", i):
                    depth -= 1
                    i += 2
                else:
                    i += 1
        elif c == '"':
            j = i + 1
            while j < n and s[j] != '"':
                j += 2 if s[j] == "\\" else 1
            out.append(s[i:j + 1])
            i = j + 1
        elif c == "'" and i + 2 < n and (s[i + 2] == "'" or (s[i + 1] == "\\" and s.find("'", i + 2) - i <= 4)):
            j = s.find("'", i + 2 if s[i + 1] != "\\" else i + 3)
            out.append(s[i:j + 1])
            i = j + 1
        else:
            out.append(c)
            i += 1
    return "".join(out)


def block_at(s, i):
    """s[i] == '{' -> index just after the matching '}' (strings respected)"""
    depth, n = 0, len(s)
    while i < n:
        c = s[i]
        if c == '"':
            i += 1
            while i < n and s[i] != '"':
                i += 2 if s[i] == "\\" else 1
        elif c == "{":
            depth += 1
        elif c == "}":
            depth -= 1
            if depth == 0:
                return i + 1
        i += 1
    return n


def rs_files(crate):
    res = []
    for dp, dn, fn in os.walk(os.path.join(REPO, crate, "src")):
        for f in sorted(fn):
            if f.endswith(".rs") and not f.startswith("test") and f != "tests.rs":
                res.append(os.path.join(dp, f))
    return sorted(res)


def lean_str(s):
    return '"' + s.replace("\\", "\\\\").replace('"', '\\"') + '"'


def ident(s):
    return re.sub(r"[^A-Za-z0-9_]", "_", s)


# ---------------------------------------------------------------------------------------------
# G3b Debug / AlgorithmName
def extract_fmt_impls(crate, path, src):
    res = []
    for m in re.finditer(r"impl\s*(<[^{;]*?>)?\s*(?:core::)?(?:fmt::)?(Debug|AlgorithmName)\s+for\s+([^{]+?)\s*(?:where[^{]*)?\{", src):
        kind, ty = m.group(2), re.sub(r"\s+", " ", m.group(3).strip())
        end = block_at(src, m.end() - 1)
        body = src[m.end():end - 1]
        fm = re.search(r"fn\s+(fmt|write_alg_name)\s*\(([^)]*)\)[^{]*\{", body)
        if not fm:
            broken.append(f"fmt-body {crate} {ty} {kind}")
            continue
        bend = block_at(body, fm.end() - 1)
        fbody = body[fm.end():bend - 1]
        reads_self = bool(re.search(r"\bself\b", fbody))
        lits = re.findall(r'"((?:[^"\\]|\\.)*)"', fbody)
        res.append({"crate": crate, "file": os.path.relpath(path, REPO), "kind": kind, "type": ty,
                    "reads_self": reads_self, "literals": lits,
                    "uses_stringify": "stringify!" in fbody, "uses_type_name": "type_name" in fbody,
                    "unsigned_args": re.findall(r"<\s*(\w+)\s+as\s+Unsigned\s*>", fbody)})
    # `#[derive(.. Debug ..)]` on a struct/union/enum prints its fields: it reads `self`
    for m in re.finditer(r"#\[derive\(([^)]*)\)\]\s*(?:#\[[^\]]*\]\s*)*(?:pub(?:\([a-z]+\))?\s+)?(struct|union|enum)\s+(\$?\w+)", src):
        if re.search(r"\bDebug\b", m.group(1)):
            name = m.group(3)
            if name in ("InvalidLengthError",):
                continue  # error marker types carry no key material
            res.append({"crate": crate, "file": os.path.relpath(path, REPO), "kind": "Debug", "type": name,
                        "reads_self": True, "literals": [], "uses_stringify": False, "uses_type_name": False, "unsigned_args": []})
    return res


# ---------------------------------------------------------------------------------------------
# G3a key-length guards
def translate_guard(cond):
    """Rust boolean over key.len() -> Lean Bool expression over n (the REJECT condition)"""
    c = cond.strip()
    c = re.sub(r"\bkey\s*\.\s*len\s*\(\s*\)", "n", c)
    c = re.sub(r"\bkey\s*\.\s*is_empty\s*\(\s*\)", "(n == 0)", c)
    m = re.fullmatch(r"!\s*\[([0-9,\s]+)\]\s*\.\s*contains\s*\(\s*&\s*n\s*\)", c)
    if m:
        xs = [x.strip() for x in m.group(1).split(",") if x.strip()]
        return "!(" + " || ".join(f"n == {x}" for x in xs) + ")"
    if not re.fullmatch(r"[n0-9\s<>=!|&()]+", c):
        return None
    c = c.replace("!=", " ≠ ")
    c = re.sub(r"(?<![<>=!≠])=(?!=)", "=", c)
    toks = re.split(r"(\|\||&&)", c)
    parts = []
    for t in toks:
        t = t.strip()
        if t == "||":
            parts.append("||")
        elif t == "&&":
            parts.append("&&")
        else:
            mm = re.fullmatch(r"\(?\s*(n|\d+)\s*(<=|>=|<|>|==|≠)\s*(n|\d+)\s*\)?", t)
            if not mm:
                mm2 = re.fullmatch(r"\(n == 0\)", t)
                if mm2:
                    parts.append("(n == 0)")
                    continue
                return None
            a, op, b = mm.groups()
            if op == "≠":
                parts.append(f"(!({a} == {b}))")
            else:
                parts.append(f"(decide ({a} {op.replace('==', '=')} {b}))")
    return " ".join(parts)


def extract_guards(crate, path, src):
    res = []
    for m in re.finditer(r"fn\s+new_from_slice\s*\(\s*key\s*:\s*&\s*\[\s*u8\s*\]\s*\)[^{]*\{", src):
        end = block_at(src, m.end() - 1)
        body = src[m.end():end - 1]
        # owning impl type
        head = src[:m.start()]
        im = list(re.finditer(r"impl\s*(<[^{;]*?>)?\s*KeyInit\s+for\s+([^{]+?)\s*(?:where[^{]*)?\{", head))
        ty = re.sub(r"\s+", " ", im[-1].group(2).strip()) if im else "?"
        body = re.sub(r"^\s*let\s+n\s*=\s*key\s*\.\s*len\s*\(\s*\)\s*;", "", body)
        g = re.match(r"\s*if\s+(.*?)\s*\{\s*(return\s+)?Err\s*\(\s*InvalidLength\s*\)", body, re.S)
        if not g:
            broken.append(f"guard {crate} {ty}")
            continue
        lean = translate_guard(g.group(1))
        if lean is None:
            broken.append(f"guard-expr {crate} {ty}: {g.group(1)}")
            continue
        res.append({"crate": crate, "type": ty, "rust": re.sub(r"\s+", " ", g.group(1)), "reject": lean})
    return res


# ---------------------------------------------------------------------------------------------
# G3c structs + Drop/zeroize coverage
def extract_structs(crate, path, src):
    res = []
    for m in re.finditer(r"(pub(?:\([a-z]+\))?\s+)?(struct|union)\s+(\$?\w+)\s*(<[^{;(]*>)?\s*(?:where[^{;]*)?\{", src):
        end = block_at(src, m.end() - 1)
        body = src[m.end():end - 1]
        fields = []
        depth = 0
        cur = ""
        for ch in body:
            if ch in "<([":
                depth += 1
            elif ch in ">)]":
                depth -= 1
            if ch == "," and depth == 0:
                fields.append(cur)
                cur = ""
            else:
                cur += ch
        if cur.strip():
            fields.append(cur)
        fl = []
        for f in fields:
            f = re.sub(r"#\[[^\]]*\]", "", f).strip()
            fm = re.match(r"(?:pub(?:\([a-z]+\))?\s+)?(\w+)\s*:\s*(.+)", f, re.S)
            if fm:
                fl.append((fm.group(1), re.sub(r"\s+", " ", fm.group(2).strip())))
        res.append({"crate": crate, "file": os.path.relpath(path, REPO), "kind": m.group(2), "name": m.group(3), "fields": fl,
                    "pub": (m.group(1) or "").strip() == "pub"})
    return res


def base_type(t):
    t = t.strip()
    m = re.fullmatch(r"ManuallyDrop\s*<(.*)>", t)
    if m:
        t = m.group(1).strip()
    t = re.sub(r"<.*>$", "", t).strip()
    return t.split("::")[-1].strip()


ALIASES = {}


def collect_aliases(crate, src):
    for m in re.finditer(r"pub\s+type\s+(\w+)\s*=\s*([^;]+);", src):
        ALIASES[(crate, m.group(1))] = base_type(re.sub(r"\s+", " ", m.group(2)))


def extract_keyinits(crate, path, src):
    res = []
    for m in re.finditer(r"impl\s*(<[^{;]*?>)?\s*(?:cipher::)?KeyInit\s+for\s+([^{]+?)\s*(?:where[^{]*)?\{", src):
        res.append((crate, os.path.relpath(path, REPO), base_type(re.sub(r"\s+", " ", m.group(2).strip()))))
    return res


def extract_drops(crate, path, src):
    res = []
    for m in re.finditer(r"impl\s*(<[^{;]*?>)?\s*Drop\s+for\s+([^{]+?)\s*(?:where[^{]*)?\{", src):
        ty = re.sub(r"\s+", " ", m.group(2).strip())
        end = block_at(src, m.end() - 1)
        body = src[m.end():end - 1]
        # is the whole impl cfg-gated?
        pre = src[max(0, m.start() - 120):m.start()]
        impl_gated = bool(re.search(r'#\[cfg\(feature\s*=\s*"zeroize"\)\]\s*$', pre))
        wiped = set()
        whole = False
        for z in re.finditer(r"self\s*\.\s*(\w+)\s*(?:\.\s*\w+\s*)*\.\s*zeroize\s*\(\s*\)", body):
            wiped.add(z.group(1))
        for z in re.finditer(r"Zeroize::zeroize\s*\(\s*&mut\s+self\s*\.\s*(\w+)", body):
            wiped.add(z.group(1))
        for z in re.finditer(r"zeroize_flat_type\s*\(\s*(&mut\s+self\s*\.\s*(\w+)|self)", body):
            if z.group(2):
                wiped.add(z.group(2))
            else:
                whole = True
        # ManuallyDrop::drop of union arms delegates to the arm's Drop
        deleg = set(re.findall(r"ManuallyDrop::drop\s*\(\s*&mut\s+self\s*\.\s*(\w+)\s*\.\s*(\w+)", body))
        gated = bool(re.search(r'cfg\(\s*(?:all\(\s*)?feature\s*=\s*"zeroize"\s*\)', body)) or impl_gated
        cfgs = re.findall(r'cfg\(([^)]*)\)', body)
        res.append({"crate": crate, "file": os.path.relpath(path, REPO), "type": ty, "wiped": sorted(wiped), "whole": whole,
                    "delegates": sorted(f"{a}.{b}" for a, b in deleg), "cfg_zeroize": gated,
                    "cfgs": [re.sub(r"\s+", " ", c) for c in cfgs]})
    return res


# ---------------------------------------------------------------------------------------------
# union arm discipline (C12): every `if <x>.token.get() { A } else { B }` (and `aesni_present`) of the autodetect
# wrappers may touch only `.intrinsics` in A and only `.soft` in B
def extract_token_branches(crate, path, src):
    res = []
    for m in re.finditer(r"\bif\s+((?:\w+\s*\.\s*)*token\s*\.\s*get\s*\(\s*\)|aesni_present)\s*\{", src):
        a_end = block_at(src, m.end() - 1)
        a = src[m.end():a_end - 1]
        em = re.match(r"\s*else\s*\{", src[a_end:])
        if not em:
            res.append((crate, os.path.relpath(path, REPO), ["?"], ["?"]))
            continue
        b_start = a_end + em.end()
        b_end = block_at(src, b_start - 1)
        bb = src[b_start:b_end - 1]
        arms = lambda t: sorted(set(re.findall(r"\b(intrinsics|soft)\s*(?=[:.])|\.\s*(intrinsics|soft)\b", t) and
                                      [x for tup in re.findall(r"\b(intrinsics|soft)\s*[:.]|\.\s*(intrinsics|soft)\b", t) for x in tup if x]))
        res.append((crate, os.path.relpath(path, REPO), arms(a), arms(bb)))
    return res


# ---------------------------------------------------------------------------------------------
# shared mutable state (C15): anything through which one call could influence another
MUT_RE = re.compile(r"\bCell\s*<|\bRefCell\b|\bUnsafeCell\b|\bAtomic[A-Z]\w*|\bstatic\s+mut\b|\bMutex\b|\bRwLock\b|\bOnceCell\b|"
                    r"\bOnceLock\b|\bLazyLock\b|thread_local!|lazy_static!|cpufeatures::new!|\bas\s+\*mut\b|\btransmute\b|\bcast_mut\b")


def extract_mut(crate, path, src):
    s = src
    k = s.find("#[cfg(test)]")
    if k >= 0:
        s = s[:k]
    res = []
    for m in MUT_RE.finditer(s):
        tok = re.sub(r"\s+", " ", m.group(0))
        # `&mut self` is only shared state for cipher methods; Drop::drop and bcrypt setters take it legitimately
        res.append((crate, os.path.relpath(path, REPO), tok))
    return res


# ---------------------------------------------------------------------------------------------
# G1 tables
INT_RE = re.compile(r"(?<![\w.])(0x[0-9a-fA-F_]+|0b[01_]+|0o[0-7_]+|[0-9][0-9_]*)(?:_?(u8|u16|u32|u64|u128|usize|i32|i64))?(?![\w.])")


def extract_tables(crate, path, src):
    """const/static NAME: [..] = [ ... ];  -> flat list of ints + declared dims"""
    res = []
    for m in re.finditer(r"(?:pub(?:\([a-z]+\))?\s+)?(?:const|static)\s+(\w+)\s*:\s*&?\s*(?=\[)", src):
        name = m.group(1)
        # balanced type
        depth, k = 0, m.end()
        while k < len(src):
            if src[k] == "[":
                depth += 1
            elif src[k] == "]":
                depth -= 1
                if depth == 0:
                    break
            k += 1
        ty = re.sub(r"\s+", "", src[m.end():k + 1])
        em_ = re.match(r"\s*=\s*&?\s*(?:\w+!\s*)?", src[k + 1:])
        if not em_:
            continue
        j = k + 1 + em_.end()
        if j >= len(src) or src[j] != "[":
            continue
        depth, k = 0, j
        while k < len(src):
            if src[k] == "[":
                depth += 1
            elif src[k] == "]":
                depth -= 1
                if depth == 0:
                    break
            k += 1
        lit = src[j:k + 1]
        if re.search(r"[A-Za-z_]\w*\s*\(|;\s*\d", lit):  # function calls / repeat expressions: not a pure literal
            if not re.fullmatch(r"[\[\]\s,0-9a-fA-Fxob_ui]*", lit):
                continue
        if re.search(r"[g-zG-Z]", re.sub(r"0x[0-9a-fA-F_]+|u8|u16|u32|u64|u128|usize", "", lit)):
            continue
        vals = [int(v.replace("_", ""), 0) for v, _ in INT_RE.findall(lit)]
        if not vals:
            continue
        em = re.search(r"\[(?:\[)*\s*(u8|u16|u32|u64|u128|usize)", ty)
        width = {"u8": 8, "u16": 16, "u32": 32, "u64": 64, "u128": 128, "usize": 64}.get(em.group(1) if em else "", 0)
        if not width:
            continue
        res.append({"crate": crate, "file": os.path.relpath(path, REPO), "name": name, "type": ty, "width": width, "vals": vals})
    return res


def extract_alias_tables(crate, path, src):
    """`const NAME: Alias = [ ... ];` inside `impl Trait for Type` (magma S-boxes) and scalar integer consts"""
    res = []
    for m in re.finditer(r"impl\s+(\w+)\s+for\s+(\w+)\s*\{", src):
        end = block_at(src, m.end() - 1)
        body = src[m.end():end - 1]
        for c in re.finditer(r"const\s+(\w+)\s*:\s*(\w+)\s*=\s*\[", body):
            j = c.end() - 1
            depth, k = 0, j
            while k < len(body):
                if body[k] == "[":
                    depth += 1
                elif body[k] == "]":
                    depth -= 1
                    if depth == 0:
                        break
                k += 1
            lit = body[j:k + 1]
            if re.search(r"[g-zG-Z]", re.sub(r"0x[0-9a-fA-F_]+", "", lit)):
                continue
            vals = [int(v.replace("_", ""), 0) for v, _ in INT_RE.findall(lit)]
            res.append({"crate": crate, "file": os.path.relpath(path, REPO), "name": m.group(2) + "_" + c.group(1),
                        "type": c.group(2), "width": 8, "vals": vals})
    return res


def extract_scalars(crate, path, src):
    res = []
    for m in re.finditer(r"(?:pub(?:\([a-z]+\))?\s+)?const\s+(\w+)\s*:\s*(u8|u16|u32|u64|u128|usize)\s*=\s*(0x[0-9a-fA-F_]+|[0-9][0-9_]*)\s*;", src):
        res.append((crate, os.path.relpath(path, REPO), m.group(1), m.group(2), int(m.group(3).replace("_", ""), 0)))
    return res


# ---------------------------------------------------------------------------------------------
# G4 sites
def extract_sites(crate, path, src):
    """panic-capable sites outside #[cfg(test)] modules, keyed by (crate, file, fn, normalised text)"""
    s = re.sub(r"#\[cfg\(test\)\]\s*mod\s+\w+\s*\{", "\x00", src)
    k = s.find("\x00")
    while k >= 0:
        # drop the test module
        j = k
        depth = 1
        j += 1
        while j < len(s) and depth:
            if s[j] == "{":
                depth += 1
            elif s[j] == "}":
                depth -= 1
            j += 1
        s = s[:k] + s[j:]
        k = s.find("\x00")
    sites = []
    for fm in re.finditer(r"fn\s+(\w+)\s*(?:<[^({]*>)?\s*\(", s):
        b = s.find("{", fm.end())
        semi = s.find(";", fm.end())
        if b < 0 or (0 <= semi < b):
            continue
        end = block_at(s, b)
        body = s[b:end]
        fname = fm.group(1)
        for line in body.split("\n"):
            t = line.strip()
            if not t:
                continue
            kinds = []
            if re.search(r"\.unwrap\(\)|\.expect\(", t):
                kinds.append("unwrap")
            if re.search(r"\b(assert|assert_eq|debug_assert|debug_assert_eq|unreachable|panic)!", t):
                kinds.append("assert")
            tt = re.sub(r'"(?:[^"\\]|\\.)*"', '""', t)
            tt = re.sub(r"->|=>|&&|\|\||<=|>=|==|!=|::<|&mut|\*mut|\*const|\.\.=?|<<=|>>=", " ", tt)
            tt2 = re.sub(r"<[A-Za-z_][\w:<>, ]*>", " ", tt)
            if re.search(r"[\w)\]]\s*(\+|-|\*|/|%|<<|>>)=?\s*[\w(]", tt2) and not re.search(r"wrapping_|Wrapping", t):
                kinds.append("arith")
            if re.search(r"\w\s*\[[^\]]*[A-Za-z_][^\]]*\]", tt) and not re.match(r"#\[", t):
                kinds.append("index")
            for kd in kinds:
                sites.append({"crate": crate, "file": os.path.relpath(path, REPO), "fn": fname, "kind": kd,
                              "text": re.sub(r"\s+", " ", t)})
    return sites


# ---------------------------------------------------------------------------------------------
def write_if_changed(path, content):
    os.makedirs(os.path.dirname(path), exist_ok=True)
    if os.path.exists(path) and open(path).read() == content:
        return False
    open(path, "w").write(content)
    return True


def main():
    fmts, guards, structs, drops, tables, sites, scalars, keyinits, muts, tokbr = [], [], [], [], [], [], [], [], [], []
    for crate in CRATES:
        for path in rs_files(crate):
            try:
                collect_aliases(crate, strip_comments(open(path).read()))
            except OSError:
                pass
    for crate in CRATES:
        for path in rs_files(crate):
            try:
                src = strip_comments(open(path).read())
            except OSError as e:
                broken.append(f"read {path}: {e}")
                continue
            fmts += extract_fmt_impls(crate, path, src)
            guards += extract_guards(crate, path, src)
            structs += extract_structs(crate, path, src)
            drops += extract_drops(crate, path, src)
            keyinits += extract_keyinits(crate, path, src)
            muts += extract_mut(crate, path, src)
            if path.endswith("autodetect.rs"):
                tokbr += extract_token_branches(crate, path, src)
            tables += extract_tables(crate, path, src)
            tables += extract_alias_tables(crate, path, src)
            scalars += extract_scalars(crate, path, src)
            sites += extract_sites(crate, path, src)

    # ---- Gen/Decls.lean
    def b(x):
        return "true" if x else "false"

    def sl(xs):
        return "[" + ", ".join(lean_str(x) for x in xs) + "]"

    L = ["import BlockCiphers.Prelude.GenTypes",
         "/- GENERATED by /verif/translator/translate.py from /repo — do not edit. -/", "namespace BC.Gen", ""]
    L.append("/-- every `impl Debug` / `impl AlgorithmName` of the workspace -/")
    L.append("def fmtImpls : List FmtImpl := [")
    L.append(",\n".join(
        f"  {{ crate := {lean_str(f['crate'])}, ty := {lean_str(f['type'])}, kind := {lean_str(f['kind'])}, readsSelf := {b(f['reads_self'])}, "
        f"literals := {sl(f['literals'])}, usesStringify := {b(f['uses_stringify'])}, usesTypeName := {b(f['uses_type_name'])}, "
        f"unsignedArgs := {sl(f['unsigned_args'])} }}" for f in fmts))
    L.append("]")
    L.append("")
    for g in guards:
        nm = ident(g["crate"] + "_" + g["type"])
        L.append(f"/-- `{g['crate']}`: `{g['type']}::new_from_slice` rejects iff `{g['rust']}` -/")
        L.append(f"def accepts_{nm} (n : Nat) : Bool := !({g['reject']})")
    L.append("")
    L.append("/-- (crate, type) pairs whose `new_from_slice` guard was extracted -/")
    L.append("def guardTypes : List (String × String) := [" + ", ".join(f"({lean_str(g['crate'])}, {lean_str(g['type'])})" for g in guards) + "]")
    L.append("")
    L.append("/-- cipher structs/unions -/")
    L.append("def structs : List StructInfo := [")
    L.append(",\n".join(
        f"  {{ crate := {lean_str(s_['crate'])}, file := {lean_str(s_['file'])}, kind := {lean_str(s_['kind'])}, name := {lean_str(s_['name'])}, isPub := {b(s_['pub'])}, "
        f"fields := [{', '.join('(' + lean_str(a) + ', ' + lean_str(bb) + ', ' + lean_str(base_type(bb)) + ')' for a, bb in s_['fields'])}] }}" for s_ in structs))
    L.append("]")
    L.append("")
    L.append("/-- Drop impls -/")
    L.append("def drops : List DropInfo := [")
    L.append(",\n".join(
        f"  {{ crate := {lean_str(d['crate'])}, file := {lean_str(d['file'])}, ty := {lean_str(d['type'])}, tyBase := {lean_str(base_type(d['type']))}, wiped := {sl(d['wiped'])}, "
        f"whole := {b(d['whole'])}, delegates := {sl(d['delegates'])}, cfgZeroize := {b(d['cfg_zeroize'])} }}"
        for d in drops))
    L.append("]")
    L.append("")
    L.append("/-- occurrences of shared-mutable-state constructs outside test modules: (crate, file, token), deduplicated -/")
    um = []
    for x in muts:
        if x not in um:
            um.append(x)
    L.append("def sharedMut : List (String × String × String) := [" + ", ".join(
        f"({lean_str(a)}, {lean_str(b_)}, {lean_str(c)})" for a, b_, c in um) + "]")
    L.append("")
    L.append("/-- autodetect wrappers: for every `if token.get() {A} else {B}`: (crate, file, union arms named in A, in B) -/")
    L.append("def tokenBranches : List (String × String × List String × List String) := [" + ", ".join(
        f"({lean_str(a)}, {lean_str(b_)}, {sl(c)}, {sl(d)})" for a, b_, c, d in tokbr) + "]")
    L.append("")
    L.append("/-- every `impl KeyInit for T`: (crate, file, base type name) -/")
    L.append("def keyInits : List (String × String × String) := [" + ", ".join(
        f"({lean_str(a)}, {lean_str(b_)}, {lean_str(ALIASES.get((a, c), c))})" for a, b_, c in keyinits) + "]")
    L.append("")
    L.append("end BC.Gen")
    write_if_changed(os.path.join(OUT, "Decls.lean"), "\n".join(L) + "\n")

    # ---- Gen/Tables.lean  (one Array per table; names crate_NAME, duplicates get file suffix)
    T = ["/- GENERATED by /verif/translator/translate.py from /repo — do not edit. -/", "namespace BC.Gen", ""]
    seen = {}
    for t in tables:
        nm = ident(t["crate"].replace("-", "_") + "_" + t["name"])
        if nm in seen:
            nm = nm + "_" + ident(os.path.basename(t["file"]).replace(".rs", ""))
        if nm in seen:
            continue
        seen[nm] = True
        T.append(f"/-- `{t['file']}`: `{t['name']}: {t['type']}` ({len(t['vals'])} entries, flattened row-major) -/")
        vals = t["vals"]
        rows = []
        for i in range(0, len(vals), 16):
            rows.append("  " + ", ".join(f"0x{v:x}" for v in vals[i:i + 16]))
        T.append(f"def {nm} : Array Nat := #[\n" + ",\n".join(rows) + "]")
        T.append("")
    sseen = set()
    for (crate, f, name, ty, v) in scalars:
        nm = ident(crate.replace("-", "_") + "_" + name)
        if nm in seen or nm in sseen:
            nm = nm + "_" + ident(os.path.basename(f).replace(".rs", ""))
        if nm in seen or nm in sseen:
            continue
        sseen.add(nm)
        T.append(f"/-- `{f}`: `{name}: {ty}` -/")
        T.append(f"def {nm} : Nat := 0x{v:x}")
    T.append("")
    T.append("end BC.Gen")
    write_if_changed(os.path.join(OUT, "Tables.lean"), "\n".join(T) + "\n")

    # ---- Gen/Sites.lean
    # every site carries a 60-bit key (sha256 of its tuple) and the list is sorted by key, so that the Lean side can
    # check `sites ⊆ reviewed` by a linear merge (a quadratic `contains` over string tuples cost minutes and 7 GB)
    uniq = []
    seen = set()
    for s in sites:
        key = (s["crate"], s["file"], s["fn"], s["kind"], s["text"])
        if key not in seen:
            seen.add(key)
            uniq.append(key)

    def hkey(k):
        return int(hashlib.sha256("\x1f".join(k).encode()).hexdigest()[:15], 16)
    uniq.sort(key=lambda k: (hkey(k), k))

    def site_file(ns, name, doc):
        S = ["/- GENERATED by /verif/translator/translate.py from /repo — do not edit. -/" if ns == "BC.Gen" else
             "/- Panic-capable sites REVIEWED at the pinned commit (31aa1ea + the fix: commits); written by `translate.py --write-reviewed`\n"
             "   after the review, committed, NOT regenerated by the checks.  See Proofs/Sites.lean and DESIGN §7 C20. -/",
             f"namespace {ns}", "", "set_option maxRecDepth 1000000 in", doc,
             f"def {name} : List (Nat × String × String × String × String × String) := ["]
        S.append(",\n".join(f"  ({hkey(k)}, " + ", ".join(lean_str(x) for x in k) + ")" for k in uniq))
        S.append("]")
        S.append("")
        S.append(f"end {ns}")
        return "\n".join(S) + "\n"
    write_if_changed(os.path.join(OUT, "Sites.lean"),
                     site_file("BC.Gen", "sites", "/-- panic-capable sites, sorted by key: (key, crate, file, fn, kind, normalised text) -/"))
    if "--write-reviewed" in sys.argv:
        write_if_changed(os.path.join(os.path.dirname(OUT), "Sites", "Reviewed.lean"),
                         site_file("BC.Sites", "reviewed", "/-- the reviewed sites, sorted by key -/"))

    # G2: straight-line functions -> Gen/Funcs.lean
    try:
        sys.path.insert(0, os.path.dirname(os.path.abspath(__file__)))
        import funcs
        broken.extend(funcs.generate_all())
        import funcs_big
        broken.extend(funcs_big.generate_all())
        # further targets kept outside funcs.py (its content is part of the cache key of every generated file): the hazmat
        # round functions of the two fixsliced AES backends (cfg feature "hazmat"), property C17
        import json as _json
        HZ_T = {"Block": "[u8; 16]", "Block8": "[[u8; 16]; 8]"}
        HZ_FN = ["cipher_round", "equiv_inv_cipher_round", "mix_columns", "inv_mix_columns", "cipher_round_par", "equiv_inv_cipher_round_par"]
        extra = {}
        for w_, path_, nb_ in (("64", funcs.FS64, 4), ("32", funcs.FS32, 2)):
            extra[f"Aes_Fs{w_}hz.lean"] = [
                funcs.T("aes", path_, f, f"fs{w_}_hazmat_{f}", cfg=("feature=hazmat",), types=dict(HZ_T, BatchBlocks=f"[[u8; 16]; {nb_}]"),
                        packed=("block", "round_key", "blocks", "round_keys"), pack_out=16) for f in HZ_FN]
        cpath = os.path.join(OUT, ".funcs_extra_cache.json")
        try:
            cache = _json.load(open(cpath))
        except (OSError, ValueError):
            cache = {}
        for fname, ts in extra.items():
            hsh = funcs._src_hash(["aes"])
            ent = cache.get(fname)
            if ent and ent.get("hash") == hsh and os.path.exists(os.path.join(OUT, fname)):
                broken.extend(ent.get("broken", []))
                continue
            b = funcs.generate(OUT, targets=ts, fname=fname)
            cache[fname] = {"hash": hsh, "broken": b}
            broken.extend(b)
        _json.dump(cache, open(cpath, "w"))
        # the tie / code-level proof files of those functions are regenerated with them (tools/tie_gen/gen_hazmat.py cuts the
        # inlined inv_bitslice+xor tail out of the *current* generated text; the statements `<f>_eq`, `code_<f>` are fixed by
        # the generator's template, Lean checks the proofs): a harmless rewrite inside the tail stays provable
        import subprocess as _sp
        gen_hz = os.path.join(os.path.dirname(os.path.dirname(os.path.abspath(__file__))), "tools", "tie_gen", "gen_hazmat.py")
        for w_ in ("64", "32"):
            dst = os.path.join(os.path.dirname(OUT.rstrip("/")), "Proofs", f"GenAesFs{w_}Hazmat.lean")
            try:
                r_ = _sp.run([sys.executable, gen_hz, w_, OUT], capture_output=True, text=True, timeout=300)
            except _sp.TimeoutExpired:
                r_ = None
            if r_ is None or r_.returncode != 0 or not r_.stdout.strip():
                broken.append(f"funcs: tie generator gen_hazmat.py {w_} failed on the regenerated text: " + ((r_.stderr.strip().splitlines() or ["?"])[-1][:200] if r_ else "timeout"))
                continue
            try:
                cur = open(dst).read()
            except OSError:
                cur = None
            if cur != r_.stdout:
                open(dst, "w").write(r_.stdout)
    except Exception as e:  # the function translator must never take the other extractions down with it
        broken.append(f"funcs: translator crashed: {type(e).__name__} {e}")

    for b in broken:
        print("BROKEN", b)
    print(f"ok fmt={len(fmts)} guards={len(guards)} structs={len(structs)} drops={len(drops)} tables={len(tables)} sites={len(uniq)}")


if __name__ == "__main__":
    main()
