#!/usr/bin/env python3
"""Function translator (G2): straight-line / constant-bound Rust functions of /repo  ->  Lean definitions
(`/verif/lean/BlockCiphers/Gen/Funcs*.lean`), regenerated on every run.

It is a small symbolic executor for the subset of Rust the bit-level kernels of the ciphers are written in:

  * integer values `u8 … u128`, `usize` (all unsigned) become `BitVec n` terms; values that are compile-time
    constants (literals, loop counters, `usize` bookkeeping) are folded by the translator,
  * `let`, assignment and compound assignment (`^= &= |= += -= <<= >>=`), tuple / array patterns,
  * arrays, slices and tuples of known length with constant indices; `&`, `&mut`, `*` (references are aliases of
    environment slots, so `f(&mut state[1], …)` updates `state[1]`),
  * calls to other functions of the same crate are inlined (the callee is executed symbolically with the actual
    arguments), single-arm `macro_rules!` function generators are expanded textually,
  * `for` over literal ranges / `iter_mut()` / `step_by`, `if`/`loop`/`break` on constant conditions are unrolled,
  * `rotate_left/right`, `wrapping_add/sub/mul`, `swap_bytes`, `as` casts, `uN::from`, `core::mem::swap`,
    `debug_assert*!` (dropped: C20 deals with them),
  * constant tables of the crate (`const X: [u32; N] = […]`) indexed by constants are folded; indexed by data they
    become look-ups into the regenerated `Gen.Tables` array.

Anything else raises `Unsupported`, the function is reported as `BROKEN funcs:<name>` and its definition is omitted, so
every theorem about it stops building (DESIGN §4.1/§5).

The emitted definition keeps the `let` structure and the variable names of the source (SSA suffixes for re-assigned
variables), one Lean argument per scalar input (arrays flattened in index order) and a right-nested tuple of the
outputs (`&mut` parameters in parameter order, then the return value).
"""
import os
import re
import sys

sys.setrecursionlimit(100000)
HERE = os.path.dirname(os.path.abspath(__file__))
sys.path.insert(0, HERE)
REPO = os.environ.get("VERIF_REPO", "/repo")
OUT = os.path.join(os.path.dirname(HERE), "lean", "BlockCiphers", "Gen")


class Unsupported(Exception):
    pass


# ------------------------------------------------------------------------------------------------ lexer
TOK = re.compile(r"""
    (?P<ws>\s+)
  | (?P<num>0x[0-9a-fA-F_]+(?:[ui](?:8|16|32|64|128|size))?|0b[01_]+(?:[ui](?:8|16|32|64|128|size))?|[0-9][0-9_]*(?:[ui](?:8|16|32|64|128|size))?)
  | (?P<id>[A-Za-z_][A-Za-z0-9_]*!?)
  | (?P<str>"(?:[^"\\]|\\.)*")
  | (?P<life>'[a-z_]+)
  | (?P<op><<=|>>=|\.\.=|\.\.|::|->|=>|==|!=|<=|>=|&&|\|\||\+=|-=|\*=|/=|%=|\^=|&=|\|=|<<|>>|[-+*/%^&|!=<>.,;:(){}\[\]#?@$])
""", re.X)


def strip_comments(s):
    s = re.sub(r"/\*.*?\*/", " ", s, flags=re.S)
    return re.sub(r"//[^\n]*", "", s)


def lex(s):
    out, i = [], 0
    while i < len(s):
        m = TOK.match(s, i)
        if not m:
            raise Unsupported(f"lex error at {s[i:i+30]!r}")
        i = m.end()
        k = m.lastgroup
        if k == "ws":
            continue
        out.append((k, m.group(k)))
    out.append(("eof", ""))
    return out


# ------------------------------------------------------------------------------------------------ parser
class P:
    def __init__(self, toks):
        self.t, self.i = toks, 0

    def peek(self, k=0):
        return self.t[min(self.i + k, len(self.t) - 1)]

    def at(self, v):
        return self.peek()[1] == v and self.peek()[0] != "str"

    def eat(self, v=None):
        tok = self.peek()
        if v is not None and tok[1] != v:
            raise Unsupported(f"expected {v!r}, found {tok[1]!r} near {' '.join(x[1] for x in self.t[max(0,self.i-6):self.i+6])}")
        self.i += 1
        return tok

    # ---- types ------------------------------------------------------------------------------
    def ty(self):
        if self.at("*") and self.peek(1)[1] in ("const", "mut"):  # raw pointer type
            self.eat()
            return ("ptr", self.eat()[1] == "mut", self.ty())
        if self.at("&"):
            self.eat()
            if self.peek()[0] == "life":
                self.eat()
            mut = False
            if self.at("mut"):
                self.eat()
                mut = True
            return ("ref", mut, self.ty())
        if self.at("&&"):
            self.eat()
            return ("ref", False, ("ref", False, self.ty()))
        if self.at("["):
            self.eat()
            el = self.ty()
            n = None
            if self.at(";"):
                self.eat()
                n = self.expr()
            self.eat("]")
            return ("arr", el, n)
        if self.at("("):
            self.eat()
            xs = []
            while not self.at(")"):
                xs.append(self.ty())
                if self.at(","):
                    self.eat()
            self.eat(")")
            return ("tup", xs)
        path = [self.eat()[1]]
        while self.at("::"):
            self.eat()
            path.append(self.eat()[1])
        args = []
        if self.at("<"):
            self.eat()
            depth = 1
            cur = []
            while depth:
                tok = self.eat()
                if tok[1] == "<":
                    depth += 1
                elif tok[1] == ">":
                    depth -= 1
                elif tok[1] == ">>":
                    depth -= 2
                cur.append(tok[1])
            args = cur[:-1]
        return ("name", path[-1], args)

    # ---- patterns ---------------------------------------------------------------------------
    def pat(self):
        if self.at("&"):
            self.eat()
            return ("pref", self.pat())
        if self.at("("):
            self.eat()
            xs = []
            while not self.at(")"):
                xs.append(self.pat())
                if self.at(","):
                    self.eat()
            self.eat(")")
            return ("ptup", xs)
        if self.at("["):
            self.eat()
            xs = []
            while not self.at("]"):
                xs.append(self.pat())
                if self.at(","):
                    self.eat()
            self.eat("]")
            return ("ptup", xs)
        if self.at("mut"):
            self.eat()
        if self.at("ref"):
            self.eat()
        name = self.eat()
        if name[0] != "id":
            raise Unsupported(f"pattern {name}")
        if name[1] == "Wrapping" and self.at("("):
            self.eat()
            inner = self.pat()
            self.eat(")")
            return inner
        return ("pid", name[1])

    # ---- expressions ------------------------------------------------------------------------
    BIN = [["||"], ["&&"], ["==", "!=", "<", ">", "<=", ">="], ["|"], ["^"], ["&"], ["<<", ">>"], ["+", "-"], ["*", "/", "%"]]

    def expr(self, nostruct=False):
        return self.range_(nostruct)


    def range_(self, ns):
        if self.at("..") or self.at("..="):
            op = self.eat()[1]
            hi = None
            if not (self.at(")") or self.at("]") or self.at("{")):
                hi = self.binop(0, ns)
            return ("range", None, hi, op == "..=")
        lo = self.binop(0, ns)
        if self.at("..") or self.at("..="):
            op = self.eat()[1]
            hi = None
            if not (self.at(")") or self.at("]") or self.at("{") or self.at(";") or self.at(",")):
                hi = self.binop(0, ns)
            return ("range", lo, hi, op == "..=")
        return lo

    def binop(self, lvl, ns):
        if lvl == len(self.BIN):
            return self.cast(ns)
        l = self.binop(lvl + 1, ns)
        while self.peek()[0] == "op" and self.peek()[1] in self.BIN[lvl]:
            op = self.eat()[1]
            r = self.binop(lvl + 1, ns)
            l = ("bin", op, l, r)
        return l

    def cast(self, ns):
        e = self.unary(ns)
        while self.at("as"):
            self.eat()
            e = ("cast", e, self.ty())
        return e

    def unary(self, ns):
        if self.at("!"):
            self.eat()
            return ("not", self.unary(ns))
        if self.at("-"):
            self.eat()
            return ("neg", self.unary(ns))
        if self.at("*"):
            self.eat()
            return ("deref", self.unary(ns))
        if self.at("&") or self.at("&&"):
            n = 2 if self.at("&&") else 1
            self.eat()
            mut = False
            if self.at("mut"):
                self.eat()
                mut = True
            e = ("addr", mut, self.unary(ns))
            if n == 2:
                e = ("addr", False, e)
            return e
        return self.postfix(ns)

    def args(self):
        self.eat("(")
        xs = []
        while not self.at(")"):
            xs.append(self.expr())
            if self.at(","):
                self.eat()
        self.eat(")")
        return xs

    def postfix(self, ns):
        e = self.primary(ns)
        while True:
            if self.at("["):
                self.eat()
                i = self.expr()
                self.eat("]")
                e = ("index", e, i)
            elif self.at("."):
                self.eat()
                name = self.eat()
                if name[0] == "num":
                    e = ("field", e, name[1])
                    continue
                tfish = None
                if self.at("::"):  # turbofish
                    self.eat()
                    self.eat("<")
                    d = 1
                    tfish = []
                    while d:
                        if self.peek()[0] == "eof":
                            raise Unsupported("unterminated generic arguments")
                        tk = self.eat()[1]
                        d += (tk == "<") - (tk == ">") - 2 * (tk == ">>")
                        if d > 0:
                            tfish.append(tk)
                if self.at("(") and tfish:
                    e = ("mcall", e, name[1], self.args(), tfish)
                elif self.at("("):
                    e = ("mcall", e, name[1], self.args())
                else:
                    e = ("field", e, name[1])
            elif self.at("("):
                e = ("call", e, self.args())
            elif self.at("?"):
                self.eat()
            else:
                return e

    def primary(self, ns):
        k, v = self.peek()
        if k == "num":
            self.eat()
            return ("num", v)
        if self.at("("):
            self.eat()
            xs = []
            trailing = False
            while not self.at(")"):
                xs.append(self.expr())
                trailing = False
                if self.at(","):
                    self.eat()
                    trailing = True
            self.eat(")")
            if len(xs) == 1 and not trailing:
                return ("paren", xs[0])
            return ("tuple", xs)
        if self.at("["):
            self.eat()
            xs = []
            while not self.at("]"):
                xs.append(self.expr())
                if self.at(";"):
                    self.eat()
                    n = self.expr()
                    self.eat("]")
                    return ("repeat", xs[0], n)
                if self.at(","):
                    self.eat()
            self.eat("]")
            return ("array", xs)
        if self.at("{"):
            return ("block", self.block())
        if self.at("|") or self.at("||") or self.at("move"):
            if self.at("move"):
                self.eat()
            pats = []
            if self.at("||"):
                self.eat()
            else:
                self.eat("|")
                while not self.at("|"):
                    pats.append(self.pat())
                    if self.at(":"):
                        self.eat()
                        self.ty()
                    if self.at(","):
                        self.eat()
                self.eat("|")
            body = self.expr()
            for op in ("=", "^=", "&=", "|=", "+=", "-=", "*=", "<<=", ">>="):
                if self.at(op):
                    self.eat()
                    body = ("block", [("assign", op, body, self.expr())])
                    break
            return ("closure", pats, body)
        if self.at("if"):
            return self.if_()
        if self.at("match"):
            return self.match_()
        if self.at("loop"):
            self.eat()
            return ("loop", self.block())
        if self.at("unsafe"):
            self.eat()
            return ("block", self.block())
        if k == "id":
            self.eat()
            if v.endswith("!"):
                # macro call: collect balanced tokens
                open_ = self.eat()[1]
                close = {"(": ")", "[": "]", "{": "}"}[open_]
                d, toks = 1, []
                while True:
                    tk = self.eat()
                    if tk[1] == open_ and tk[0] == "op":
                        d += 1
                    elif tk[1] == close and tk[0] == "op":
                        d -= 1
                        if d == 0:
                            break
                    toks.append(tk)
                return ("macro", v[:-1], toks)
            path = [v]
            targs = []
            while self.at("::"):
                self.eat()
                if self.at("<"):
                    self.eat()
                    d = 1
                    while d:
                        if self.peek()[0] == "eof":
                            raise Unsupported("unterminated generic arguments")
                        tk = self.eat()[1]
                        d += (tk == "<") - (tk == ">") - 2 * (tk == ">>")
                        if d > 0:
                            targs.append(tk)
                    continue
                path.append(self.eat()[1])
            if path[-1] == "size_of" and targs:
                return ("sizeof", targs[0])
            if not ns and self.at("{") and (path[-1][:1].isupper()) and self.struct_lit_ahead():
                self.eat("{")
                fields = []
                while not self.at("}"):
                    if self.at(".."):
                        raise Unsupported("struct update syntax")
                    fname = self.eat()[1]
                    if self.at(":"):
                        self.eat()
                        fields.append((fname, self.expr()))
                    else:
                        fields.append((fname, ("path", [fname])))
                    if self.at(","):
                        self.eat()
                self.eat("}")
                return ("structlit", path[-1], fields)
            if targs:
                return ("path", path, targs)
            return ("path", path)
        if self.at("<"):  # <T>::f
            self.eat()
            t = self.ty()
            if not self.at(">"):
                raise Unsupported("qualified path <T as Trait>")
            self.eat(">")
            path = [t[1] if t[0] == "name" else "?"]
            while self.at("::"):
                self.eat()
                path.append(self.eat()[1])
            return ("path", path)
        raise Unsupported(f"expression starts with {v!r}")

    def struct_lit_ahead(self):
        a, b = self.peek(1), self.peek(2)
        return (a[1] == "}" and a[0] == "op") or (a[0] == "id" and b[1] in (":", ",", "}") and b[0] == "op")

    def if_(self):
        self.eat("if")
        c = self.expr(True)
        t = self.block()
        e = None
        if self.at("else"):
            self.eat()
            e = [("expr", self.if_(), False)] if self.at("if") else self.block()
            if isinstance(e, tuple):
                e = [e]
        return ("if", c, t, e)

    def match_(self):
        self.eat("match")
        scrut = self.expr(True)
        self.eat("{")
        arms = []
        while not self.at("}"):
            pats = []
            while True:
                if self.at("_"):
                    self.eat()
                    pats.append(None)
                else:
                    save_ = self.i
                    p_ = self.binop(4, False)  # `a | b` in a pattern separates alternatives, it is not a bit-or
                    if not (self.at("|") or self.at("=>")):
                        self.i = save_
                        p_ = self.expr()
                    pats.append(p_)
                if self.at("|"):
                    self.eat()
                    continue
                break
            self.eat("=>")
            body = self.expr()
            if self.at(","):
                self.eat()
            arms.append((pats, body))
        self.eat("}")
        return ("match", scrut, arms)

    # ---- statements -------------------------------------------------------------------------
    def attrs(self):
        out = []
        while self.at("#"):
            self.eat()
            self.eat("[")
            d, toks = 1, []
            while True:
                tk = self.eat()
                if tk[1] == "[":
                    d += 1
                elif tk[1] == "]":
                    d -= 1
                    if d == 0:
                        break
                toks.append(tk[1])
            out.append("".join(toks))
        return out

    def block(self):
        self.eat("{")
        out = []
        while not self.at("}"):
            at = self.attrs()
            st = self.stmt()
            if st is not None:
                out.append(("attr", at, st) if at else st)
        self.eat("}")
        return out

    def stmt(self):
        if self.at(";"):
            self.eat()
            return None
        if self.at("let"):
            self.eat()
            p = self.pat()
            t = None
            if self.at(":"):
                self.eat()
                t = self.ty()
            e = None
            if self.at("="):
                self.eat()
                e = self.expr()
            self.eat(";")
            return ("let", p, t, e)
        if self.at("for"):
            self.eat()
            p = self.pat()
            self.eat("in")
            it = self.expr(True)
            return ("for", p, it, self.block())
        if self.at("while"):
            self.eat()
            c = self.expr(True)
            return ("while", c, self.block())
        if self.at("const"):
            self.eat()
            name = self.eat()[1]
            self.eat(":")
            t = self.ty()
            self.eat("=")
            e = self.expr()
            self.eat(";")
            return ("let", ("pid", name), t, e)
        if self.at("break"):
            self.eat()
            self.eat(";")
            return ("break",)
        if self.at("continue"):
            self.eat()
            self.eat(";")
            return ("continue",)
        if self.at("return"):
            self.eat()
            e = None if self.at(";") else self.expr()
            if self.at(";"):
                self.eat()
            return ("return", e)
        if self.at("macro_rules!"):
            self.eat()
            self.eat()
            open_ = self.eat()[1]
            close = {"(": ")", "[": "]", "{": "}"}[open_]
            d = 1
            while d:
                tk = self.eat()
                if tk[0] == "op" and tk[1] == open_:
                    d += 1
                elif tk[0] == "op" and tk[1] == close:
                    d -= 1
            if self.at(";"):
                self.eat()
            return None
        if self.at("fn") or self.at("use") or (self.at("unsafe") and self.peek(1)[1] == "fn"):
            # nested item: skip (nested fns are collected separately by find_functions)
            d = 0
            while True:
                tk = self.eat()
                if tk[1] == "{":
                    d += 1
                elif tk[1] == "}":
                    d -= 1
                    if d == 0:
                        return None
                elif tk[1] == ";" and d == 0:
                    return None
        if self.at("if") or self.at("match") or self.at("loop") or (self.at("unsafe") and self.peek(1)[1] == "{"):
            # block-like expression statement: ends at its closing brace (a following `(`/`[` starts a new statement)
            e = self.primary(False)
            if self.at(";"):
                self.eat()
                return ("expr", e, True)
            if self.at("}"):
                return ("expr", e, False)
            if not self.at("."):
                return ("expr", e, True)
            self.i -= 0
        e = self.expr() if not (self.at(".")) else self.expr()
        for op in ("=", "^=", "&=", "|=", "+=", "-=", "*=", "<<=", ">>=", "%=", "/="):
            if self.at(op):
                self.eat()
                r = self.expr()
                if self.at("}"):
                    return ("assign", op, e, r)  # `{ a = b }`: an assignment in tail position (value `()`)
                self.eat(";")
                return ("assign", op, e, r)
        if self.at(";"):
            self.eat()
            return ("expr", e, True)
        if e[0] in ("if", "loop", "block", "match", "macro") and not self.at("}"):
            return ("expr", e, True)
        return ("expr", e, False)


# ------------------------------------------------------------------------------------------------ source scanning
class Fn:
    def __init__(self, name, params, ret, body, attrs, src):
        self.name, self.params, self.ret, self.body, self.attrs, self.src = name, params, ret, body, attrs, src


def expand_macros(src):
    """single-arm macro_rules! whose body defines functions: expand every invocation textually"""
    out = src
    for m in re.finditer(r"macro_rules!\s*(\w+)\s*[\{\(]", src):
        name = m.group(1)
        end = (match_brace if src[m.end() - 1] == "{" else match_paren)(src, m.end() - 1)
        body = src[m.end():end - 1]
        am = re.match(r"\s*\(\s*(.*?)\)\s*=>\s*[\{\(]", body, re.S)
        if not am:
            continue
        if body[am.end() - 1] == "(":
            # `=> ( … )` arm: same as braces for our purposes
            pe = match_paren(body, am.end() - 1)
            body = body[:am.end() - 1] + "{" + body[am.end():pe - 1] + "}" + body[pe:]
        rep = re.fullmatch(r"\$\((.*)\)\s*,\s*\+", am.group(1).strip(), re.S)
        if rep:
            # `$( inner ),+` : every comma-separated group of the invocation instantiates the `$( … )+` part of the template
            bstart = am.end() - 1
            bend = match_brace(body, bstart)
            tm = re.fullmatch(r"\s*\$\((.*)\)\s*\+\s*", body[bstart + 1:bend - 1], re.S)
            if not tm or "fn " not in tm.group(1):
                continue
            inner_pat = rep.group(1).strip()
            rx = re.escape(inner_pat)
            rx = re.sub(r"\\\$(\w+)\\?:\w+", lambda mm: f"(?P<{mm.group(1)}>[^,()]+?)", rx)
            rx = re.sub(r"(?:\\\s|\\ |\s)+", r"\\s*", rx)
            for inv in re.finditer(r"(?<![\w!])" + name + r"!\s*\(", src):
                if src[max(0, inv.start() - 13):inv.start()].strip().endswith("macro_rules"):
                    continue
                close = match_paren(src, inv.end() - 1)
                for grp in split_top(src[inv.end():close - 1]):
                    gm = re.fullmatch(r"\s*" + rx + r"\s*", grp, re.S)
                    if not gm:
                        continue
                    t = tm.group(1)
                    for k_, v_ in sorted(gm.groupdict().items(), key=lambda x: -len(x[0])):
                        t = re.sub(r"\$" + k_ + r"\b", v_.strip(), t)
                    out += "\n" + t
            continue
        params = re.findall(r"\$(\w+)\s*:\s*\w+", am.group(1))
        bstart = am.end() - 1
        bend = match_brace(body, bstart)
        tmpl = body[bstart + 1:bend - 1]
        if body[bend:].strip().strip(";").strip():
            continue  # more than one arm
        if "fn " not in tmpl:
            continue
        for inv in re.finditer(r"(?<![\w!])" + name + r"!\s*\(", src):
            if src[max(0, inv.start() - 13):inv.start()].strip().endswith("macro_rules"):
                continue
            close = match_paren(src, inv.end() - 1)
            args = [a.strip() for a in split_top(src[inv.end():close - 1])]
            if len(args) != len(params):
                continue
            t = tmpl
            for p, a in sorted(zip(params, args), key=lambda x: -len(x[0])):
                t = re.sub(r"\$" + p + r"\b", a, t)
            # keep the attributes that precede the invocation (cfg) in front of each generated fn
            pre = src[:inv.start()]
            at = re.search(r"((?:#\[[^\]]*\]\s*)+)$", pre)
            if at:
                t = re.sub(r"(?m)^(\s*)(pub(?:\([a-z]+\))?\s+)?((?:const\s+)?(?:unsafe\s+)?fn\s)", lambda mm: mm.group(1) + at.group(1) + (mm.group(2) or "") + mm.group(3), t)
            out += "\n" + t
    return out


def match_brace(s, i):
    d = 0
    while i < len(s):
        if s[i] == "{":
            d += 1
        elif s[i] == "}":
            d -= 1
            if d == 0:
                return i + 1
        i += 1
    raise Unsupported("unbalanced {")


def match_paren(s, i):
    d = 0
    while i < len(s):
        if s[i] in "([":
            d += 1
        elif s[i] in ")]":
            d -= 1
            if d == 0:
                return i + 1
        i += 1
    raise Unsupported("unbalanced (")


def split_top(s):
    out, d, cur = [], 0, ""
    for c in s:
        if c in "([{<":
            d += 1
        elif c in ")]}>":
            d -= 1
        if c == "," and d == 0:
            out.append(cur)
            cur = ""
        else:
            cur += c
    if cur.strip():
        out.append(cur)
    return out


FN_RE = re.compile(r"((?:#\[[^\]]*\]\s*)*)(?:pub(?:\([a-z:]+\))?\s+)?(?:const\s+)?(?:unsafe\s+)?fn\s+(\w+)\s*(<[^>]*>)?\s*\(")


TRAIT_RE = re.compile(r"\btrait\s+([A-Za-z_]\w*)\s*(?:<[^{;]*?>)?\s*(?::[^{;]*)?(?:where[^{;]*)?\{")
IMPL_RE = re.compile(r"\bimpl\b\s*(?:<[^{;]*?>\s*)?(?:(?:[\w:]+(?:<[^{;]*?>)?)\s+for\s+)?([A-Za-z_]\w*)\s*(?:<[^{;]*?>)?\s*(?:where[^{;]*)?\{")


def impl_blocks(src):
    """[(start, end, SelfTypeName, trait or None)] of the impl blocks"""
    out = []
    for m in IMPL_RE.finditer(src):
        try:
            end = match_brace(src, m.end() - 1)
        except Unsupported:
            continue
        tm = re.search(r"([\w:]+)(?:<[^{;]*?>)?\s+for\s+" + re.escape(m.group(1)), m.group(0))
        out.append((m.start(), end, m.group(1), tm.group(1).split("::")[-1] if tm else None))
    for m in TRAIT_RE.finditer(src):
        try:
            end = match_brace(src, m.end() - 1)
        except Unsupported:
            continue
        out.append((m.start(), end, m.group(1), "trait"))
        TRAITS.add(m.group(1))
    return out


TRAITS = set()


STRUCTS = {}
TUPLE_STRUCTS = {}  # `struct Name<..>(T0, T1, ..);`: name -> [("0", T0), ("1", T1), ..] (fields are addressed as `.0`, `.1`)
MACROS = {}
REP_MACROS = {}  # `macro_rules! m { [$($x:expr,)*] => { [$( TEMPLATE ,)*] }; }`: name -> (x, template tokens)
BLOCK_SIZES = {}
KEY_SIZES = {}
ASSOC_TYPES = {}


def find_functions(path, cfg=()):
    """{name: Fn} for every fn of the file (after macro expansion) that parses; cfg = active cfg flags.
    Methods are additionally stored as `Type::name`."""
    src = expand_macros(strip_comments(open(path).read()))
    fns, errs = {}, {}
    impls = impl_blocks(src)
    for (a, b, ty, tr) in impls:
        body = src[a:b]
        bm = re.search(r"type\s+BlockSize\s*=\s*(?:\w+::)*U(\d+)\s*;", body)
        if bm and tr == "BlockSizeUser":
            BLOCK_SIZES[ty] = int(bm.group(1))
        km = re.search(r"type\s+KeySize\s*=\s*(?:\w+::)*U(\d+)\s*;", body)
        if km and tr == "KeySizeUser":
            KEY_SIZES[ty] = int(km.group(1))
        for am in re.finditer(r"type\s+(\w+)\s*=\s*([^;]+);", body):
            ASSOC_TYPES[(ty, am.group(1))] = am.group(2).strip()
    for m in re.finditer(r"\bstruct\s+(\w+)\s*(?:<[^{;(]*?>)?\s*(?:where[^{;]*)?\{", src):
        try:
            end = match_brace(src, m.end() - 1)
            fields = []
            for f in split_top(src[m.end():end - 1]):
                f = re.sub(r"#\[[^\]]*\]", "", f).strip()
                fm = re.match(r"(?:pub(?:\([a-z:]+\))?\s+)?(\w+)\s*:\s*(.+)$", f, re.S)
                if fm:
                    try:
                        fields.append((fm.group(1), P(lex(fm.group(2))).ty()))
                    except Unsupported:
                        fields.append((fm.group(1), ("name", "?", [])))
            STRUCTS.setdefault(m.group(1), fields)
        except Unsupported:
            pass
    for m in re.finditer(r"\bstruct\s+(\w+)\s*(?:<[^{;(]*?>)?\s*\(", src):
        try:
            end = match_paren(src, m.end() - 1)
            fields = []
            for i_, f in enumerate(x_ for x_ in split_top(src[m.end():end - 1]) if x_.strip()):
                f = re.sub(r"#\[[^\]]*\]", "", f).strip()
                f = re.sub(r"^pub(?:\([a-z:]+\))?\s+", "", f)
                try:
                    fields.append((str(i_), P(lex(f)).ty()))
                except Unsupported:
                    fields.append((str(i_), ("name", "?", [])))
            TUPLE_STRUCTS.setdefault(m.group(1), fields)
        except Unsupported:
            pass
    for m in re.finditer(r"((?:#\[[^\]]*\]\s*)*)macro_rules!\s*(\w+)\s*[\{\(]", src):
        attrs = re.findall(r"#\[([^\]]*)\]", m.group(1))
        if not cfg_active(attrs, cfg):
            continue
        try:
            end = (match_brace if src[m.end() - 1] == "{" else match_paren)(src, m.end() - 1)
            body = src[m.end():end - 1]
            am = re.match(r"\s*\(\s*(.*?)\)\s*=>\s*\{", body, re.S)
            if not am:
                continue
            bstart = am.end() - 1
            bend = match_brace(body, bstart)
            if body[bend:].strip().strip(";").strip():
                continue
            params = re.findall(r"\$(\w+)\s*:\s*(\w+)", am.group(1))
            if "fn " in body[bstart:bend] and "impl" not in body[bstart:bend] and len(params) == 4 and False:
                continue
            MACROS.setdefault((path, m.group(2)), (params, lex(body[bstart + 1:bend - 1])[:-1]))
            MACROS.setdefault(m.group(2), (params, lex(body[bstart + 1:bend - 1])[:-1]))
        except Unsupported:
            pass
    for m in re.finditer(r"macro_rules!\s*(\w+)\s*\{\s*\[\s*\$\(\s*\$(\w+)\s*:\s*expr\s*,\s*\)\s*\*\s*\]\s*=>\s*\{\s*\[\s*\$\((.*?),\s*\)\s*\*\s*\]\s*\}\s*;?\s*\}", src, re.S):
        try:
            REP_MACROS.setdefault(m.group(1), (m.group(2), lex(m.group(3))[:-1]))
        except Unsupported:
            pass
    spans = []
    for m in FN_RE.finditer(src):
        name = m.group(2)
        attrs = re.findall(r"#\[([^\]]*)\]", m.group(1))
        if not cfg_active(attrs, cfg):
            continue
        owner = None
        for (a, b, ty, tr) in impls:
            if a <= m.start() < b and (owner is None or a > owner[0]):
                owner = (a, ty)
        try:
            pend = match_paren(src, m.end() - 1)
            sig = src[m.end():pend - 1]
            rest = src[pend:]
            # return type: up to the first `{` at bracket depth 0 (a `;` at depth 0 first means a declaration without body)
            d_, q = 0, 0
            while q < len(rest) and not (rest[q] in "{;" and d_ == 0):
                d_ += rest[q] in "(["
                d_ -= rest[q] in ")]"
                q += 1
            if q >= len(rest) or rest[q] != "{":
                continue
            head = re.sub(r"\bwhere\b.*$", "", rest[:q], flags=re.S).strip()
            rtxt = head[2:].strip() if head.startswith("->") else None

            class _RM:
                pass
            rm = _RM()
            rm.group = lambda i, rtxt=rtxt: rtxt
            bstart = pend + q
            bend = match_brace(src, bstart)
            params = []
            for p in split_top(sig):
                if not p.strip():
                    continue
                ps = p.strip()
                sm = re.fullmatch(r"(&\s*(?:'\w+\s+)?)?(mut\s+)?self", ps)
                if sm:
                    params.append((("pid", "self"), ("self", bool(sm.group(1)), bool(sm.group(2)))))
                    continue
                pp = P(lex(p))
                pat = pp.pat()
                pp.eat(":")
                params.append((pat, pp.ty()))
            ret = P(lex(rm.group(1))).ty() if rm.group(1) else None
            body = P(lex(src[bstart:bend])).block()
            fn = Fn(name, params, ret, body, attrs, src[m.start():bend])
            fn.path = path  # the file of the function: its `macro_rules!` take precedence over same-named macros of sibling files
            fn.owner = owner[1] if owner else None
            fn.cgen = re.findall(r"const\s+(\w+)\s*:", m.group(3) or "")
            fn.tgen = [g for g in re.findall(r"(?:^|[<,])\s*(\w+)\s*:", m.group(3) or "") if g not in fn.cgen and g != "const"]
            spans.append((m.start(), bend, name, fn))
            if owner:
                fns.setdefault(f"{owner[1]}::{name}", fn)
            else:
                fns.setdefault(f"::{name}", fn)  # a free function stays reachable when a method of the same name exists
            if name not in fns:
                fns[name] = fn
        except Unsupported as e:
            errs[name] = str(e)
            if owner:
                errs[f"{owner[1]}::{name}"] = str(e)
    # nested fns: additionally stored as `outer::inner` (several functions of a file may each define an `inner`)
    for (a_, b_, n_, f_) in spans:
        enc = [(a2, n2) for (a2, b2, n2, f2) in spans if a2 < a_ and b_ <= b2]
        if enc:
            fns.setdefault(f"{max(enc)[1]}::{n_}", f_)
    consts = {}
    for m in re.finditer(r"\b(?:const|static)\s+(\w+)\s*:\s*", src):
        # scalar or array constants with literal initialisers
        depth, e = 0, m.end()
        while e < len(src) and not (src[e] in "=;" and depth == 0):
            depth += src[e] in "([{<"
            depth -= src[e] in ")]}>"
            e += 1
        if e >= len(src) or src[e] != "=":
            continue
        j = e + 1
        depth, k = 0, j
        while k < len(src) and not (src[k] == ";" and depth == 0):
            depth += src[k] in "([{"
            depth -= src[k] in ")]}"
            k += 1
        try:
            val = (P(lex(src[m.end():e])).ty(), P(lex(src[j:k])).expr())
        except Unsupported:
            continue
        owner = None
        for (a, b, ty, tr) in impls:
            if a <= m.start() < b and (owner is None or a > owner[0]):
                owner = (a, ty)
        if owner:
            consts.setdefault(f"{owner[1]}::{m.group(1)}", val)
        else:
            consts[m.group(1)] = val
    aliases = {}
    for m in re.finditer(r"\btype\s+(\w+)\s*=\s*", src):
        depth, k = 0, m.end()
        while k < len(src) and not (src[k] == ";" and depth == 0):
            depth += src[k] in "([{"
            depth -= src[k] in ")]}"
            k += 1
        try:
            at_ = P(lex(src[m.end():k])).ty()
            if at_ == ("name", m.group(1), []) and m.group(1) in aliases:
                continue  # `type ParBlocksSize = ParBlocksSize;` inside an impl: the module-level alias stays
            aliases[m.group(1)] = at_
        except Unsupported:
            pass
    return fns, consts, aliases, errs


def cfg_active(attrs, cfg):
    for a in attrs:
        a = a.replace(" ", "")
        if not a.startswith("cfg("):
            continue
        if not eval_cfg(a[4:-1], cfg):
            return False
    return True


def eval_cfg(e, cfg):
    e = e.strip()
    if e.startswith("not("):
        return not eval_cfg(e[4:-1], cfg)
    if e.startswith("any("):
        return any(eval_cfg(x, cfg) for x in split_top(e[4:-1]))
    if e.startswith("all("):
        return all(eval_cfg(x, cfg) for x in split_top(e[4:-1]))
    return e.replace('"', "") in cfg


# ------------------------------------------------------------------------------------------------ values
WIDTH = {"u8": 8, "u16": 16, "u32": 32, "u64": 64, "u128": 128, "usize": 64, "i32": 32, "i64": 64, "bool": 1}
# SIMD register types of core::arch (x86 `__m128i`, aarch64 `uint8x16_t` / `uint32x4_t`): the 128-bit register image,
# element 0 in the least significant bits (see Prelude/X86Intrinsics.lean, Prelude/ArmIntrinsics.lean)
VEC_TYPES = {"__m128i": 128, "uint8x16_t": 128, "uint32x4_t": 128}
WIDTH.update(VEC_TYPES)
# signed integers: modelled by the same `BitVec n` (two's complement, wrapping `+ - *` and the bitwise operations coincide
# with the unsigned ones); only the comparisons differ (`BitVec.slt` / `BitVec.sle`).  Sign extension (widening cast of a
# signed value), arithmetic shift right and signed division are not supported (-> Unsupported).  Overflow of the signed
# arithmetic (a panic in debug builds) is not modelled here, like every other arithmetic overflow (property C20).
SIGNED = {"i32", "i64"}
# further register types / signed element types of the Kuznyechik sse2 / neon back ends (`sbox[..] as i8` arguments of
# `_mm_set_epi8`; 64-bit `uint8x8_t` halves of `vcombine_u8`; `uint16x8_t` = the same 128 bits as `uint8x16_t`)
WIDTH.update({"i8": 8, "i16": 16, "uint8x8_t": 64, "uint16x8_t": 128})

# extern table: intrinsics of core::arch -> the Lean transcription of the vendor manual in the Prelude.
#   argument kinds: vN = a value of N bits; imm8 = compile-time constant in 0..=255 passed as `BitVec 8`;
#   nat = compile-time constant passed as a `Nat`; load16 = pointer, the 16 bytes it points to are passed as one
#   `BitVec 128` (memory byte 0 most significant, the convention of Prelude/Bytes.lean); store16 = pointer, the result
#   (`BitVec 128`, memory byte 0 most significant) is written to the 16 bytes it points to.
EXTERNS = {
    "_mm_loadu_si128": ("BC.X86._mm_loadu_si128", ("load16",), 128),
    "_mm_storeu_si128": ("BC.X86._mm_storeu_si128", ("store16", "v128"), None),
    "_mm_xor_si128": ("BC.X86._mm_xor_si128", ("v128", "v128"), 128),
    "_mm_aesenc_si128": ("BC.X86._mm_aesenc_si128", ("v128", "v128"), 128),
    "_mm_aesenclast_si128": ("BC.X86._mm_aesenclast_si128", ("v128", "v128"), 128),
    "_mm_aesdec_si128": ("BC.X86._mm_aesdec_si128", ("v128", "v128"), 128),
    "_mm_aesdeclast_si128": ("BC.X86._mm_aesdeclast_si128", ("v128", "v128"), 128),
    "_mm_aesimc_si128": ("BC.X86._mm_aesimc_si128", ("v128",), 128),
    "_mm_aeskeygenassist_si128": ("BC.X86._mm_aeskeygenassist_si128", ("v128", "imm8"), 128),
    "_mm_shuffle_epi32": ("BC.X86._mm_shuffle_epi32", ("v128", "imm8"), 128),
    "_mm_slli_si128": ("BC.X86._mm_slli_si128", ("v128", "nat8"), 128),
    "vld1q_u8": ("BC.Arm.vld1q_u8", ("load16",), 128),
    "vst1q_u8": ("BC.Arm.vst1q_u8", ("store16", "v128"), None),
    "veorq_u8": ("BC.Arm.veorq_u8", ("v128", "v128"), 128),
    "vaeseq_u8": ("BC.Arm.vaeseq_u8", ("v128", "v128"), 128),
    "vaesdq_u8": ("BC.Arm.vaesdq_u8", ("v128", "v128"), 128),
    "vaesmcq_u8": ("BC.Arm.vaesmcq_u8", ("v128",), 128),
    "vaesimcq_u8": ("BC.Arm.vaesimcq_u8", ("v128",), 128),
    "vdupq_n_u8": ("BC.Arm.vdupq_n_u8", ("v8",), 128),
    "vdupq_n_u32": ("BC.Arm.vdupq_n_u32", ("v32",), 128),
    "vreinterpretq_u8_u32": ("BC.Arm.vreinterpretq_u8_u32", ("v128",), 128),
    "vreinterpretq_u32_u8": ("BC.Arm.vreinterpretq_u32_u8", ("v128",), 128),
    "vgetq_lane_u32": ("BC.Arm.vgetq_lane_u32", ("v128", "lane4"), 32),
}
# Kuznyechik sse2 / neon back ends (Prelude/KuzIntrinsics.lean).  Further argument kinds: lane8 = compile-time lane
# number 0..=7 passed as a `Nat`; v128x4 = a `uint8x16x4_t` (four registers, passed as four arguments).  `load16` also
# accepts a data-dependent pointer into a constant byte array (`DPtr`): the 16 bytes are then `BC.Gen.memRead16`.
EXTERNS.update({
    "_mm_load_si128": ("BC.X86._mm_load_si128", ("load16",), 128),
    "_mm_setzero_si128": ("BC.X86._mm_setzero_si128", (), 128),
    "_mm_set_epi64x": ("BC.X86._mm_set_epi64x", ("v64", "v64"), 128),
    "_mm_set_epi8": ("BC.X86._mm_set_epi8", ("v8",) * 16, 128),
    "_mm_extract_epi16": ("BC.X86._mm_extract_epi16", ("v128", "lane8"), 32),
    "_mm_unpacklo_epi8": ("BC.X86._mm_unpacklo_epi8", ("v128", "v128"), 128),
    "_mm_unpackhi_epi8": ("BC.X86._mm_unpackhi_epi8", ("v128", "v128"), 128),
    "_mm_slli_epi16": ("BC.X86._mm_slli_epi16", ("v128", "nat8"), 128),
    "vorrq_u8": ("BC.Arm.vorrq_u8", ("v128", "v128"), 128),
    "vsubq_u8": ("BC.Arm.vsubq_u8", ("v128", "v128"), 128),
    "vzip1q_u8": ("BC.Arm.vzip1q_u8", ("v128", "v128"), 128),
    "vzip2q_u8": ("BC.Arm.vzip2q_u8", ("v128", "v128"), 128),
    "vcreate_u8": ("BC.Arm.vcreate_u8", ("v64",), 64),
    "vcombine_u8": ("BC.Arm.vcombine_u8", ("v64", "v64"), 128),
    "vreinterpretq_u16_u8": ("BC.Arm.vreinterpretq_u16_u8", ("v128",), 128),
    "vshlq_n_u16": ("BC.Arm.vshlq_n_u16", ("v128", "nat8"), 128),
    "vgetq_lane_u16": ("BC.Arm.vgetq_lane_u16", ("v128", "lane8"), 16),
    "vqtbl4q_u8": ("BC.Arm.vqtbl4q_u8", ("v128x4", "v128"), 128),
})


CONST_MEMO = {}


class BV:
    """an integer value: width w (None: untyped literal), Lean term, python constant if known"""

    def __init__(self, w, lean=None, const=None, atom=True):
        self.w, self.const, self._lean, self.atom = w, const, lean, atom

    def lean(self):
        if self.const is not None:
            if self.w is None:
                return str(self.const)
            return f"{self.const:#x}#{self.w}"
        return self._lean

    def par(self):
        s = self.lean()
        return s if self.atom or self.const is not None else f"({s})"

    # --- data-dependent control flow (select) ---------------------------------------------------
    signed = False   # the Rust type is `i32`/`i64`: same bits (two's complement), comparisons are signed (`BitVec.slt`)
    ub = None        # a proven upper bound of the (unsigned) value, None = 2^w - 1 (interval analysis for `while` exits)
    isbool = False

    def named(self, name):
        """the same value under a `let` name"""
        v = BV(self.w, name)
        v.signed, v.ub = self.signed, self.ub
        return v

    def hi(self):
        if self.const is not None:
            return self.const
        if self.ub is not None:
            return self.ub
        return (1 << self.w) - 1 if self.w else None

    def lo(self):
        return self.const if self.const is not None else 0


class BoolV(BV):
    """a data-dependent `bool`: `lean()` is a Lean `Bool` term, `prop` the same test as a decidable `Prop`
    (the form used as the condition of `if … then … else …`, e.g. `x = 0x0#32`)"""
    isbool = True

    def __init__(self, lean, prop=None, atom=False):
        BV.__init__(self, 1, lean, None, atom)
        self.prop = prop if prop is not None else f"{lean} = true"

    def named(self, name):
        return BoolV(name, f"{name} = true", atom=True)


class ResV:
    """a `Result<(), E>` whose variant depends on data: `is_err` (BoolV or constant) — returned as a Lean `Bool`,
    `true` = `Err(_)`"""

    def __init__(self, is_err):
        self.is_err = is_err


class Frame:
    """one function activation: the data-dependent conditions of the branches being executed (`path`), the early
    `return`s recorded under such conditions (`early`: condition, value, state at the return) and the slots that
    outlive the activation (`roots`: reachable from the arguments)"""

    def __init__(self):
        self.path, self.early, self.roots = [], [], None
        self.ret_w = None  # width of the integer the function returns (types the untyped literals of `return 2;`)


class Slot:
    def __init__(self, v=None):
        self.v = v


class ROSlot(Slot):
    """a byte of a constant table reached through a raw pointer (`&sbox[c] as *const u8`): reads only"""

    def __init__(self, v=None):
        self.__dict__["_v"] = v

    @property
    def v(self):
        return self.__dict__["_v"]

    @v.setter
    def v(self, x):
        raise Unsupported("write through a pointer into a constant table")


class Arr:
    newtype = False  # hybrid-array `Array<u8, N>` (Key / Block): `.0` is the inner array

    def __init__(self, slots):
        self.slots = slots


class Ref:
    def __init__(self, slot):
        self.slot = slot


class Struct:
    def __init__(self, ty, fields):
        self.ty, self.fields = ty, fields  # name -> Slot


class InOutV:
    """`InOut<Block>`: the input bytes and the (initially unwritten) output bytes"""

    def __init__(self, inp, out):
        self.inp, self.out = inp, out
        self.out_slot = Slot(out)


class RawPtr:
    """a raw pointer (`*const T` / `*mut T`) into an object of the environment: `cells` are the leaf slots of the object
    in memory order, each `cellsize` bytes wide; `off` = byte offset of the pointer; `ty` = pointee type in the normal
    form of `Exec.norm_ty` (None after a `.cast()` whose target type is not written)"""

    def __init__(self, cells, cellsize, off, ty):
        self.cells, self.cellsize, self.off, self.ty = cells, cellsize, off, ty


class DPtr:
    """a pointer `base.as_ptr().add(idx)` with a data-dependent `idx` into a constant byte array of the crate (the fused
    tables of Kuznyechik): `vals` = the bytes, `idx` = the byte offset (a `usize` term)"""

    def __init__(self, vals, idx):
        self.vals, self.idx = vals, idx


class Lanes:
    """a SIMD register whose storage is also viewed through a `[u32]` slice (`slice::from_raw_parts_mut` over the array
    of registers): `lanes` = the slots of its 32-bit elements, element 0 first (little-endian: bits 31:0)"""

    def __init__(self, lanes):
        self.lanes = lanes


class Table:
    """a constant table of the crate, not yet fully indexed: Gen.Tables name, dims, element width, flat values"""

    def __init__(self, lean_name, dims, w, flat, off=0):
        self.lean_name, self.dims, self.w, self.flat, self.off = lean_name, dims, w, flat, off


class Break(Exception):
    pass


class AssertFail(Unsupported):
    pass


class Continue(Exception):
    pass


class Return(Exception):
    def __init__(self, v):
        self.v = v


class Exec:
    def __init__(self, fns, consts, aliases, lens=None, tables=None, crate="", packed=None, outs_only=()):
        self.fns, self.consts, self.aliases = fns, consts, aliases
        self.lens = lens or {}
        self.packed = packed or {}
        self.outs_only = set(outs_only)
        self.generics = {}
        self.self_ty = None
        self.const_cache = {}
        self.aux = {}
        self.lean_name = "fn"
        self.field_consts = {}
        self.tables = tables or {}
        self.crate = crate
        self.lines = []
        self.used = {}
        self.depth = 0
        self.want_ty = {}   # id(expression node) -> type expected by its context (`let x: T = e`, tail expression of a fn)
        self.fn_stack = []  # names of the functions being executed (resolution of nested fns)
        self.frames = [Frame()]  # activations (data-dependent control flow, see `select`)
        self.sel_depth = 0       # > 0 while a branch of a data-dependent `if`/`match`/`while` is being executed
        self.defs = {}           # Rust fn -> (Lean definition name template, params fixed to constants): emitted as calls
        self.aux_mem = {}  # name -> chunk tables: a constant byte array as a list of chunks
        self.dptr_names, self.dptr_keep = {}, []  # chunk tables of the constant byte arrays read through data-dependent pointers
        self.path_stack = []  # source files of the functions being executed (resolution of `macro_rules!`)

    # ---- naming / emission ------------------------------------------------------------------
    def fresh(self, base):
        base = re.sub(r"[^A-Za-z0-9_]", "_", base) or "t"
        if base in LEAN_KEYWORDS:
            base += "_"
        n = self.used.get(base, 0)
        self.used[base] = n + 1
        return base if n == 0 else f"{base}_{n}"

    def bind(self, base, v):
        """name a value: emits a `let` unless it is a constant or already an atom"""
        if isinstance(v, BV):
            if v.const is not None:
                return v
            name = self.fresh(base)
            self.lines.append(f"  let {name} := {v.lean()}")
            return v.named(name)
        return v

    # ---- types ------------------------------------------------------------------------------
    def resolve(self, t):
        for _ in range(20):
            if t[0] == "name" and t[1] == "Wrapping" and t[2]:
                t = ("name", t[2][0], [])
            elif t[0] == "name" and t[1] in self.generics:
                g = self.generics[t[1]]
                t = ("name", g, []) if isinstance(g, str) else g
            elif t[0] == "name" and t[1] in self.aliases and t[1] not in STRUCTS:
                t = self.aliases[t[1]]
            else:
                break
        return t

    def param_value(self, name, t, inputs):
        """build the symbolic value of a parameter of declared type t; registers Lean arguments"""
        t = self.resolve(t)
        if t[0] == "self":
            return self.struct_value(self.self_ty, "self", inputs)
        if t[0] == "ref":
            return Ref(Slot(self.param_value(name, t[2], inputs)))
        if t[0] == "name" and t[1] == "InOut" and "ParBlocks" in t[2] and self.self_ty:
            # `InOut<'_, '_, ParBlocks<Self>>` of a back end: `ParBlocksSize` blocks, one `BitVec (8·BlockSize)` each
            m = BLOCK_SIZES.get(self.self_ty)
            pt = ASSOC_TYPES.get((self.self_ty, "ParBlocksSize"))
            pt = self.resolve(P(lex(pt)).ty()) if pt else None
            if m is None or pt is None or pt[0] != "name" or not re.fullmatch(r"U\d+", pt[1]):
                raise Unsupported(f"ParBlocks<Self>: block size / ParBlocksSize of {self.self_ty} unknown")
            cnt = int(pt[1][1:])
            inp = []
            for j in range(cnt):
                arg = self.fresh(f"{name}{j}")
                inputs.append((arg, 8 * m))
                inp.append(Slot(Arr([Slot(BV(8, f"{arg}.extractLsb' {8 * (m - 1 - i)} 8", atom=False)) for i in range(m)])))
            return InOutV(Arr(inp), Arr([Slot(Arr([Slot(None) for _ in range(m)])) for _ in range(cnt)]))
        if t[0] == "name" and t[1] == "InOut":
            n = BLOCK_SIZES.get(self.self_ty)
            if n is None and t[2]:
                # free function: the type is written, `InOut<'_, '_, Block>` or `InOut<'_, '_, Array<Block, N>>`
                bt = self.norm_ty(self.type_args(t[2])[-1])
                u8 = ("name", "u8", [])
                if bt[0] == "arr" and bt[1] == u8:
                    n = int(bt[2][1])
                elif bt[0] == "arr" and bt[1][0] == "arr" and bt[1][1] == u8:
                    m, cnt = int(bt[1][2][1]), int(bt[2][1])
                    inp = []
                    for j in range(cnt):
                        arg = self.fresh(f"{name}{j}")
                        inputs.append((arg, 8 * m))
                        inp.append(Slot(Arr([Slot(BV(8, f"{arg}.extractLsb' {8 * (m - 1 - i)} 8", atom=False)) for i in range(m)])))
                    return InOutV(Arr(inp), Arr([Slot(Arr([Slot(None) for _ in range(m)])) for _ in range(cnt)]))
                else:
                    raise Unsupported(f"InOut of {bt}")
            if n is None:
                raise Unsupported(f"InOut parameter: block size of {self.self_ty} unknown")
            arg = self.fresh(name)
            inputs.append((arg, 8 * n))
            inp = Arr([Slot(BV(8, f"{arg}.extractLsb' {8 * (n - 1 - i)} 8", atom=False)) for i in range(n)])
            inp.newtype = True  # `Block<Self>` is a hybrid array: `.0` is the inner `[u8; N]`
            out_ = Arr([Slot(None) for _ in range(n)])
            out_.newtype = True
            return InOutV(inp, out_)
        if t[0] == "name" and t[1] in ("Key", "Block") and self.self_ty:
            n = (self.lens.get("#key") or KEY_SIZES.get(self.self_ty)) if t[1] == "Key" else BLOCK_SIZES.get(self.self_ty)
            if n is None:
                raise Unsupported(f"{t[1]}<Self>: size of {self.self_ty} unknown")
            v = self.param_value(name, ("arr", ("name", "u8", []), ("num", str(n))), inputs)
            v.newtype = True
            return v
        if t[0] == "name" and t[1] in STRUCTS and t[1] not in WIDTH:
            return self.struct_value(t[1], name, inputs)
        if t[0] == "name" and t[1] in TUPLE_STRUCTS and t[1] not in WIDTH and t[1] not in self.aliases:
            return self.struct_value(t[1], name, inputs)  # `enc: EncKeys` with `struct EncKeys(RoundKeys);`
        if t[0] == "name" and t[1] in WIDTH:
            arg = self.fresh(name)
            inputs.append((arg, WIDTH[t[1]]))
            return BV(WIDTH[t[1]], arg)
        if t[0] == "arr":
            n = self.const_of(self.eval(t[2], {})) if t[2] is not None else self.lens.get(name)
            if n is None:
                raise Unsupported(f"slice parameter `{name}` of unknown length")
            el = self.resolve(t[1])
            if name in self.outs_only:
                return Arr([Slot(None) for _ in range(n)])
            if name in self.packed and el[0] == "arr" and self.resolve(el[1]) == ("name", "u8", []):
                # an array of byte strings: one BitVec per element
                m = self.const_of(self.eval(el[2], {}))
                out_ = []
                for j in range(n):
                    arg = self.fresh(f"{name}{j}")
                    inputs.append((arg, 8 * m))
                    out_.append(Slot(Arr([Slot(BV(8, f"{arg}.extractLsb' {8 * (m - 1 - i)} 8", atom=False)) for i in range(m)])))
                return Arr(out_)
            if name in self.packed and self.hybrid_len(el) is not None:
                # an array of hybrid byte arrays (`[Block; N]`): one BitVec per element
                m = self.hybrid_len(el)
                out_ = []
                for j in range(n):
                    arg = self.fresh(f"{name}{j}")
                    inputs.append((arg, 8 * m))
                    a_ = Arr([Slot(BV(8, f"{arg}.extractLsb' {8 * (m - 1 - i)} 8", atom=False)) for i in range(m)])
                    a_.newtype = True
                    out_.append(Slot(a_))
                return Arr(out_)
            if name in self.packed and el == ("name", "u8", []):
                # a byte string passed as one BitVec (byte 0 = most significant byte)
                arg = self.fresh(name)
                inputs.append((arg, 8 * n))
                return Arr([Slot(BV(8, f"{arg}.extractLsb' {8 * (n - 1 - i)} 8", atom=False)) for i in range(n)])
            return Arr([Slot(self.param_value(f"{name}{i}", t[1], inputs)) for i in range(n)])
        if t[0] == "name" and t[1] == "Array" and name in self.lens:
            raise Unsupported("hybrid_array parameter")
        if self.hybrid_len(t) is not None:
            v = self.param_value(name, ("arr", ("name", "u8", []), ("num", str(self.hybrid_len(t)))), inputs)
            v.newtype = True
            return v
        if t[0] == "tup":
            return Arr([Slot(self.param_value(f"{name}{i}", x, inputs)) for i, x in enumerate(t[1])])
        raise Unsupported(f"parameter type {t}")

    def struct_value(self, ty, name, inputs):
        if ty not in STRUCTS and ty not in TUPLE_STRUCTS:
            raise Unsupported(f"struct {ty} not found")
        fields = {}
        for fname, fty in (STRUCTS[ty] if ty in STRUCTS else TUPLE_STRUCTS[ty]):
            rt = self.resolve(fty)
            if rt[0] == "name" and rt[1] in ("PhantomData", "?"):
                continue
            if fname in self.field_consts:
                w = WIDTH.get(rt[1], 1) if rt[0] == "name" else 1
                fields[fname] = Slot(BV(w, const=int(self.field_consts[fname])))
                continue
            fields[fname] = Slot(self.param_value(f"{name}_{fname}", fty, inputs))
        return Struct(ty, fields)

    def hybrid_len(self, t):
        """N for the hybrid-array type `Array<u8, UN>` (after alias resolution), else None"""
        if t[0] == "name" and t[1] == "Array" and len(t[2]) == 3 and t[2][0] == "u8" and t[2][1] == "," \
                and isinstance(t[2][2], str) and re.fullmatch(r"U\d+", t[2][2]):
            return int(t[2][2][1:])
        return None

    def reinterpret(self, arr, t):
        """`&*(bytes.as_ptr().cast())` towards `&[[uN; a]; b]`: the constant byte array read as little-endian integers
        (every supported target is little-endian, as for `from_ne_bytes`)"""
        bs = []
        for sl in arr.slots:
            b_ = self.deref_all(sl.v)
            if not (isinstance(b_, BV) and b_.w == 8 and b_.const is not None):
                raise Unsupported("pointer cast of a non-constant or non-byte array")
            bs.append(b_.const)
        pos = [0]

        def build(ty):
            ty = self.resolve(ty)
            if ty[0] == "arr":
                n = self.const_of(self.eval(ty[2], {}))
                return Arr([Slot(build(ty[1])) for _ in range(n)])
            if ty[0] == "name" and ty[1] in WIDTH and WIDTH[ty[1]] % 8 == 0:
                k = WIDTH[ty[1]] // 8
                if pos[0] + k > len(bs):
                    raise Unsupported("pointer cast reads past the end of the array")
                val = int.from_bytes(bytes(bs[pos[0]:pos[0] + k]), "little")
                pos[0] += k
                return BV(WIDTH[ty[1]], const=val)
            raise Unsupported(f"pointer cast to {ty}")
        out = build(t)
        if pos[0] != len(bs):
            raise Unsupported("pointer cast: size mismatch")
        return out

    def zero_of(self, t):
        t = self.resolve(t)
        if self.hybrid_len(t) is not None:
            v = Arr([Slot(BV(8, const=0)) for _ in range(self.hybrid_len(t))])
            v.newtype = True
            return v
        if t[0] == "name" and t[1] in WIDTH:
            return BV(WIDTH[t[1]], const=0)
        if t[0] == "arr":
            n = self.const_of(self.eval(t[2], {}))
            return Arr([Slot(self.zero_of(t[1])) for _ in range(n)])
        raise Unsupported(f"default of {t}")

    def const_of(self, v):
        v = self.deref_all(v)
        if isinstance(v, BV) and v.const is not None:
            return v.const
        raise Unsupported("value is not a compile-time constant")

    def deref_all(self, v):
        while isinstance(v, Ref):
            v = v.slot.v
        return v

    # ---- raw pointers and SIMD registers (intrinsics back ends) ----------------------------------
    def type_args(self, toks):
        """the arguments `<…>` of a ("name", n, toks) type as parsed types (lifetimes dropped)"""
        txt = " ".join(toks)
        txt += " >" * (txt.count("<") - txt.count(">"))  # `P.ty` drops a closing `>>` entirely
        out = []
        for part in split_top(txt):
            part = part.strip()
            if part and not part.startswith("'"):
                out.append(P(lex(part)).ty())
        return out

    def ty_len(self, t):
        """N of `Array<T, N>`: a typenum `U<n>`, or a generic parameter bound to a number / to a typenum"""
        if t[0] == "name":
            g = self.generics.get(t[1], t[1])
            if isinstance(g, int):
                return g
            m = re.fullmatch(r"U(\d+)", g) if isinstance(g, str) else None
            if m:
                return int(m.group(1))
        raise Unsupported(f"array length {t}")

    def norm_ty(self, t):
        """normal form of a type: ("name", s, []) with s in WIDTH | ("arr", elem, ("num", n)) | ("ptr"/"ref", mut, T)"""
        t = self.resolve(t)
        if t[0] == "name" and t[1] in WIDTH:
            return ("name", t[1], [])
        if t[0] == "name" and t[1] == "Array" and t[2]:
            a = self.type_args(t[2])
            if len(a) != 2:
                raise Unsupported(f"type {t}")
            return ("arr", self.norm_ty(a[0]), ("num", str(self.ty_len(a[1]))))
        if t[0] == "arr" and t[2] is not None:
            return ("arr", self.norm_ty(t[1]), ("num", str(self.const_of(self.eval(t[2], {})))))
        if t[0] in ("ptr", "ref"):
            return (t[0], t[1], self.norm_ty(t[2]))
        raise Unsupported(f"type {t}")

    def size_of(self, nt):
        if nt[0] == "name" and WIDTH[nt[1]] % 8 == 0:
            return WIDTH[nt[1]] // 8
        if nt[0] == "arr":
            return int(nt[2][1]) * self.size_of(nt[1])
        raise Unsupported(f"size of {nt}")

    def ty_of_value(self, v):
        """type (normal form, up to the names of same-sized scalars) of a fully initialised value; None if unknown"""
        v = self.deref_all(v)
        if isinstance(v, BV) and v.w in (8, 16, 32, 64, 128):
            return ("name", f"u{v.w}", [])
        if isinstance(v, Arr) and v.slots:
            ts = [self.ty_of_value(s.v) for s in v.slots]
            if ts[0] is not None and all(x == ts[0] for x in ts):
                return ("arr", ts[0], ("num", str(len(ts))))
        return None

    def leaf_cells(self, v, out):
        v = self.deref_all(v)
        if not isinstance(v, Arr):
            raise Unsupported("pointer to a non-array object")
        for s_ in v.slots:
            if isinstance(self.deref_all(s_.v), Arr):
                self.leaf_cells(s_.v, out)
            else:
                out.append(s_)

    def as_raw_ptr(self, v, ty=None, elem=False):
        """pointer to the first byte of an array object (`x.as_ptr()`: elem=True, the pointee is the element type;
        `&x` coerced to `*const T`: the pointee type T is given)"""
        dv = self.deref_all(v)
        if isinstance(dv, RawPtr):
            return dv if ty is None else RawPtr(dv.cells, dv.cellsize, dv.off, ty)
        cells = []
        self.leaf_cells(dv, cells)
        ws = {c.v.w if isinstance(c.v, BV) else None for c in cells}
        if len(ws) != 1 or None in ws or list(ws)[0] % 8:
            raise Unsupported("pointer to an object that is not an initialised array of integers")
        if ty is None:
            ty = self.ty_of_value(dv.slots[0].v if elem else dv)
        return RawPtr(cells, list(ws)[0] // 8, 0, ty)

    def ptr_method(self, p, name, args, e, env):
        if name == "cast" and not args:
            ty = None
            if len(e) > 4:
                ty = self.norm_ty(P(lex(" ".join(e[4]))).ty())
            elif id(e) in self.want_ty:
                wt = self.resolve(self.want_ty[id(e)])
                if wt[0] == "ptr":
                    ty = self.norm_ty(wt[2])
            return RawPtr(p.cells, p.cellsize, p.off, ty)
        if name in ("add", "offset") and len(args) == 1:
            n = self.const_of(self.eval(args[0], env, 64))
            if p.ty is None:
                raise Unsupported("arithmetic on a pointer whose pointee type is not known")
            return RawPtr(p.cells, p.cellsize, p.off + n * self.size_of(p.ty), p.ty)
        raise Unsupported(f"raw pointer method .{name}()")

    def ptr_bytes(self, p, n):
        """the slots of the n bytes a pointer points to"""
        if not isinstance(p, RawPtr):
            raise Unsupported("raw pointer expected")
        if p.cellsize != 1:
            raise Unsupported("byte access through a pointer into non-byte storage")
        if p.off < 0 or p.off + n > len(p.cells):
            raise Unsupported(f"pointer access out of bounds: bytes {p.off}..{p.off + n} of an object of {len(p.cells)}")
        return p.cells[p.off:p.off + n]

    def extern_call(self, name, args, env):
        """a core::arch intrinsic: a call of its Lean transcription (table EXTERNS)"""
        lean, kinds, rw = EXTERNS[name]
        if len(args) != len(kinds):
            raise Unsupported(f"{name}: {len(args)} arguments")
        parts, dest = [], None
        for a, k in zip(args, kinds):
            if k in ("imm8", "nat8", "lane4", "lane8"):
                c = self.const_of(self.eval(a, env, 32))
                if not (0 <= c < (4 if k == "lane4" else 8 if k == "lane8" else 256)):
                    raise Unsupported(f"{name}: immediate {c} out of range")
                parts.append(f"{c:#x}#8" if k == "imm8" else str(c))
            elif k == "v128x4":
                t4 = self.deref_all(self.eval(a, env))
                if not (isinstance(t4, Arr) and len(t4.slots) == 4):
                    raise Unsupported(f"{name}: a uint8x16x4_t value expected")
                for s_ in t4.slots:
                    r_ = self.scalar(s_.v)
                    if r_.w != 128:
                        raise Unsupported(f"{name}: table register of width {r_.w}")
                    parts.append(r_.par())
            elif k == "load16" and isinstance(self.deref_all(self.eval(a, env)), DPtr):
                parts.append(self.dptr_read16(self.deref_all(self.eval(a, env))))
            elif k == "load16":
                bs = []
                for s_ in self.ptr_bytes(self.deref_all(self.eval(a, env)), 16):
                    if s_.v is None:
                        raise Unsupported(f"{name}: read of uninitialised memory")
                    bs.append(self.scalar(s_.v))
                if any(b.w != 8 for b in bs):
                    raise Unsupported(f"{name}: memory is not bytes")
                if all(b.const is not None for b in bs):
                    parts.append(f"{int.from_bytes(bytes(b.const for b in bs), 'big'):#x}#128")  # constant memory: one literal
                else:
                    parts.append("(" + " ++ ".join(b.par() for b in bs) + ")")
            elif k == "store16":
                dest = self.ptr_bytes(self.deref_all(self.eval(a, env)), 16)
            else:
                w = int(k[1:])
                v = self.scalar(self.eval(a, env, w))
                if v.w is None:
                    v = BV(w, const=v.const)
                if v.w != w:
                    raise Unsupported(f"{name}: argument of width {v.w}, expected {w}")
                parts.append(v.par())
        term = f"{lean} {' '.join(parts)}" if parts else lean
        if dest is not None:
            m = self.bind("mem", BV(128, term, atom=False))
            for i, s_ in enumerate(dest):
                s_.v = BV(8, f"{m.par()}.extractLsb' {8 * (15 - i)} 8", atom=False)
            return None
        return BV(rw, term, atom=False)

    def dptr_read16(self, p):
        """the 16 bytes at a data-dependent offset of a constant byte array, as one `BitVec 128` (memory byte 0 most
        significant): `BC.Gen.memRead16 [chunk0, chunk1, …] off`.  The array is emitted as chunks of 256 little-endian
        128-bit words (4096 bytes each; same shape as the `[[u128; 256]; 16]` view of the big_soft back end)"""
        if len(p.vals) % 4096:
            raise Unsupported("data-dependent pointer into a constant array whose size is not a multiple of 4096 bytes")
        names = self.dptr_names.get(id(p.vals))
        if names is None:
            names = []
            for c in range(0, len(p.vals), 4096):
                vals = tuple(int.from_bytes(bytes(p.vals[q:q + 16]), "little") for q in range(c, c + 4096, 16))
                if vals not in self.aux:
                    self.aux[vals] = f"{self.lean_name}_tbl{len(self.aux)}"
                names.append(self.aux[vals])
            mem = f"{self.lean_name}_mem{len(self.aux_mem)}"
            self.aux_mem[mem] = names
            names = self.dptr_names[id(p.vals)] = mem
            self.dptr_keep.append(p.vals)
        if p.idx.w != 64:
            raise Unsupported("pointer offset that is not a usize")
        off = str(p.idx.const) if p.idx.const is not None else f"{p.idx.par()}.toNat"
        return f"(BC.Gen.memRead16 {names} {off})"

    def transmute(self, v, ty):
        """`mem::transmute` between an integer / SIMD register and an array of integers of the same total size
        (little-endian: array element 0 = least significant bits)"""
        nt = self.norm_ty(ty)
        v = self.deref_all(v)
        if isinstance(v, BV) and v.w is not None and nt[0] == "arr" and nt[1][0] == "name":
            w, n = WIDTH[nt[1][1]], int(nt[2][1])
            if v.w != w * n:
                raise Unsupported(f"transmute of {v.w} bits to {n} x {w} bits")
            if v.const is not None:
                return Arr([Slot(BV(w, const=(v.const >> (w * i)) & ((1 << w) - 1))) for i in range(n)])
            return Arr([Slot(BV(w, f"{v.par()}.extractLsb' {w * i} {w}", atom=False)) for i in range(n)])
        if isinstance(v, Arr) and nt[0] == "name":
            es = [self.scalar(s_.v) for s_ in v.slots]
            if any(x.w is None for x in es) or sum(x.w for x in es) != WIDTH[nt[1]] or len({x.w for x in es}) != 1:
                raise Unsupported("transmute: sizes differ")
            return BV(WIDTH[nt[1]], "(" + " ++ ".join(x.par() for x in reversed(es)) + ")", atom=True)
        raise Unsupported(f"transmute to {nt}")

    def lanes_value(self, v):
        """the 128-bit register whose 32-bit elements are the lanes (element 0 = bits 31:0)"""
        ls = [self.scalar(s_.v) for s_ in v.lanes]
        if all(x.const is not None for x in ls):
            return BV(128, const=sum(x.const << (32 * i) for i, x in enumerate(ls)))
        return BV(128, "BC.X86.ofDwords " + " ".join(x.par() for x in reversed(ls)), atom=False)

    def raw_parts(self, p, n):
        """`slice::from_raw_parts_mut(p, n)` with p : *mut u32 into an array of freshly zeroed 128-bit registers: the
        registers are henceforth stored as their four 32-bit elements and the slice aliases those"""
        if not isinstance(p, RawPtr) or p.ty != ("name", "u32", []) or p.cellsize != 16 or p.off % 16:
            raise Unsupported("from_raw_parts_mut: only a u32 view of an array of 128-bit registers is supported")
        first = p.off // 16
        if n % 4 or first + n // 4 > len(p.cells):
            raise Unsupported("from_raw_parts_mut: the slice does not cover whole registers of the object")
        out = []
        for c in p.cells[first:first + n // 4]:
            if isinstance(c.v, BV) and c.v.const == 0 and c.v.w == 128:
                c.v = Lanes([Slot(BV(32, const=0)) for _ in range(4)])
            if not isinstance(c.v, Lanes):
                raise Unsupported("from_raw_parts_mut: the registers are not freshly zeroed")
            out += c.v.lanes
        return Arr(out)

    # ---- expression evaluation --------------------------------------------------------------
    def eval(self, e, env, want=None):
        k = e[0]
        if k == "k":
            return e[1]
        if k == "num":
            m = re.match(r"(0x[0-9a-fA-F_]+|0b[01_]+|[0-9_]+?)(?:([ui](?:8|16|32|64|128|size)))?$", e[1])
            if not m:
                # decimal with suffix handled above; hex digits may swallow a suffix-looking tail (e.g. 0x..u8 is fine)
                raise Unsupported(f"literal {e[1]}")
            txt = m.group(1).replace("_", "")
            val = int(txt, 0)
            w = WIDTH[m.group(2)] if m.group(2) else want
            return BV(w, const=val)
        if k == "paren":
            return self.eval(e[1], env, want)
        if k == "path":
            return self.path(e[1], env, want)
        if k == "tuple" or k == "array":
            return Arr([Slot(self.copy(self.eval(x, env))) for x in e[1]])
        if k == "repeat":
            n = self.const_of(self.eval(e[2], env))
            v = self.eval(e[1], env, want)
            return Arr([Slot(self.copy(v)) for _ in range(n)])
        if k == "bin":
            return self.binop(e[1], e[2], e[3], env, want)
        if k == "not":
            v = self.scalar(self.eval(e[1], env, want))
            if v.const is not None:
                if v.w is None:
                    raise Unsupported("! on untyped literal")
                return BV(v.w, const=(~v.const) & ((1 << v.w) - 1))
            if v.isbool:
                return self.bool_not(v)
            r_ = BV(v.w, f"~~~{v.par()}", atom=False)
            r_.signed = v.signed
            return r_
        if k == "neg":
            v = self.scalar(self.eval(e[1], env, want))
            if v.const is not None and v.w is None:
                return BV(None, const=-v.const)
            raise Unsupported("unary minus")
        if k == "deref":
            v = self.eval(e[1], env, want)
            if isinstance(v, Ref):
                return v.slot.v
            return v
        if k == "addr":
            return self.addr(e[2], env)
        if k == "cast":
            if e[2][0] == "ptr" and e[1][0] == "addr" and e[1][2][0] == "index":
                # `&sbox[c] as *const T` with a constant c: a pointer to element c of the array (a literal table of the crate:
                # read-only cells holding its values; any other array: its own cells, as for `as_ptr()`)
                base = self.deref_all(self.eval(e[1][2][1], env))
                c = self.eval(e[1][2][2], env, 64)
                if isinstance(c, BV) and c.const is not None and isinstance(base, (Table, Arr)):
                    if isinstance(base, Table):
                        if len(base.dims) != 1:
                            raise Unsupported("pointer into a multi-dimensional table")
                        base = Arr([ROSlot(BV(base.w, const=x)) for x in base.flat[base.off:base.off + base.dims[0]]])
                    p_ = self.as_raw_ptr(base, elem=True)
                    if c.const >= len(p_.cells):
                        raise Unsupported("pointer to an element out of bounds")
                    return RawPtr(p_.cells, p_.cellsize, c.const * p_.cellsize, self.norm_ty(self.resolve(e[2])[2]))
            return self.cast(self.eval(e[1], env), e[2])
        if k == "index":
            return self.index(e, env, want)
        if k == "field":
            base = self.deref_all(self.eval(e[1], env))
            if isinstance(base, Arr) and base.newtype and e[2] == "0":
                return base
            if isinstance(base, Arr) and e[2].isdigit():
                return base.slots[int(e[2])].v
            if isinstance(base, Struct) and e[2] in base.fields:
                return base.fields[e[2]].v
            if isinstance(base, BV) and e[2] == "0":
                return base  # Wrapping(x).0
            raise Unsupported(f"field .{e[2]}")
        if k == "mcall":
            return self.mcall(e, env, want)
        if k == "call":
            return self.call(e, env, want)
        if k == "block":
            return self.run_block(e[1], dict(env), scoped_env=env)
        if k == "if":
            c = self.eval(e[1], env)
            c = self.deref_all(c)
            if isinstance(c, BoolV):
                # data-dependent condition: both branches are executed, the states are merged (`select`)
                return self.select(c, lambda: self.run_block(e[2], dict(env), scoped_env=env),
                                   (lambda: self.run_block(e[3], dict(env), scoped_env=env)) if e[3] is not None else (lambda: None), env, want)
            if not (isinstance(c, BV) and c.const is not None):
                raise Unsupported("`if` on a data-dependent condition")
            br = e[2] if c.const else e[3]
            if br is None:
                return None
            return self.run_block(br, dict(env), scoped_env=env)
        if k == "match":
            sv_ = self.deref_all(self.eval(e[1], env))
            if isinstance(sv_, BV) and sv_.const is None and not sv_.isbool and sv_.w is not None:
                return self.match_data(sv_, e[2], env, want)
            s = self.const_of(sv_)
            for pats, body in e[2]:
                for p in pats:
                    if p is None or self.const_of(self.eval(p, env)) == s:
                        return self.eval(body, env, want)
            raise Unsupported("match without a matching arm")
        if k == "loop":
            for _ in range(100000):
                n_early = len(self.frames[-1].early)
                try:
                    self.run_block(e[1], dict(env), scoped_env=env)
                except Break:
                    return None
                except Continue:
                    pass
                if len(self.frames[-1].early) != n_early:
                    raise Unsupported("`loop` with a data-dependent exit")
            raise Unsupported("loop does not terminate under constant folding")
        if k == "macro":
            if e[1] in ("debug_assert", "debug_assert_eq", "debug_assert_ne", "assert", "assert_eq", "assert_ne"):
                if e[1] == "assert_eq":
                    try:
                        toks = e[2] + [("eof", "")]
                        pp = P(toks)
                        a = pp.expr()
                        pp.eat(",")
                        b = pp.expr()
                        va, vb = self.const_of(self.eval(a, env)), self.const_of(self.eval(b, env))
                    except Unsupported:
                        return None
                    if va != vb:
                        raise AssertFail(f"assert_eq!({va}, {vb})")
                return None
            if e[1] == "unreachable":
                raise Unsupported("unreachable! reached")
            if self.macro_key(e[1]) in MACROS:
                return self.expand_macro(self.macro_key(e[1]), e[2], env, want)
            if e[1] in REP_MACROS:
                # `m![a, b, …]` -> `[T(a), T(b), …]`
                var, tmpl = REP_MACROS[e[1]]
                groups, cur, d = [], [], 0
                for tk in e[2]:
                    if tk[0] == "op" and tk[1] in "([{":
                        d += 1
                    elif tk[0] == "op" and tk[1] in ")]}":
                        d -= 1
                    if tk == ("op", ",") and d == 0:
                        groups.append(cur)
                        cur = []
                    else:
                        cur.append(tk)
                if cur:
                    groups.append(cur)
                items = []
                for g in groups:
                    out_, i_ = [], 0
                    while i_ < len(tmpl):
                        if tmpl[i_] == ("op", "$") and i_ + 1 < len(tmpl) and tmpl[i_ + 1][1] == var:
                            out_ += [("op", "(")] + g + [("op", ")")]
                            i_ += 2
                        else:
                            out_.append(tmpl[i_])
                            i_ += 1
                    items.append(P(out_ + [("eof", "")]).expr())
                return self.eval(("array", items), env, want)
            raise Unsupported(f"macro {e[1]}!")
        if k == "structlit":
            ty = self.self_ty if e[1] == "Self" else e[1]
            fields = {}
            for fname, fe in e[2]:
                want_ = None
                for fn_, ft_ in STRUCTS.get(ty, []):
                    if fn_ == fname:
                        rt = self.resolve(ft_)
                        if rt[0] == "name" and rt[1] in WIDTH:
                            want_ = WIDTH[rt[1]]
                v = self.eval(fe, env, want_)
                if isinstance(v, ("".__class__,)):
                    raise Unsupported("struct field value")
                v = self.deref_all(v) if isinstance(v, Ref) else v
                if isinstance(v, BV) and v.w is None and want_:
                    v = BV(want_, const=v.const)
                if isinstance(v, BV) and not v.atom and v.const is None:
                    v = self.bind(fname, v)
                if isinstance(v, Arr):
                    v = self.copy(v)
                if isinstance(v, tuple) and v and v[0] == "phantom":
                    continue
                fields[fname] = Slot(v)
            decl = [fn_ for fn_, _ in STRUCTS.get(ty, [])]
            if set(fields) <= set(decl) and list(fields) != [f_ for f_ in decl if f_ in fields]:
                # `Self { dec: …, enc: … }` written in another order than the declaration: outputs are in declaration order
                fields = {f_: fields[f_] for f_ in decl if f_ in fields}
            return Struct(ty, fields)
        if k == "closure":
            return ("closure", e[1], e[2], env)
        if k == "sizeof":
            t = self.resolve(("name", e[1], []))
            if t[0] == "name" and t[1] in WIDTH:
                return BV(64, const=WIDTH[t[1]] // 8)
            raise Unsupported(f"size_of::<{e[1]}>")
        if k == "range":
            lo = self.const_of(self.eval(e[1], env)) if e[1] is not None else None
            hi = self.const_of(self.eval(e[2], env)) if e[2] is not None else None
            if hi is not None and e[3]:
                hi += 1
            return ("range", lo, hi)
        raise Unsupported(f"expression kind {k}")

    def macro_key(self, name):
        """the `macro_rules! name` of the file of the function being executed if it defines one (several back ends of a crate
        define same-named macros: `unroll_par!`, `get!`), else the first macro of that name found in the crate"""
        path = self.path_stack[-1] if self.path_stack else None
        return (path, name) if (path, name) in MACROS else name

    def expand_macro(self, name, toks, env, want):
        params, tmpl = MACROS[name]
        # split the invocation tokens at top-level commas
        args, cur, d = [], [], 0
        for tk in toks:
            if tk[0] == "op" and tk[1] in "([{":
                d += 1
            elif tk[0] == "op" and tk[1] in ")]}":
                d -= 1
            if tk == ("op", ",") and d == 0:
                args.append(cur)
                cur = []
            else:
                cur.append(tk)
        if cur:
            args.append(cur)
        if len(args) != len(params):
            raise Unsupported(f"macro {name if isinstance(name, str) else name[1]}!: {len(args)} arguments for {len(params)} parameters")
        sub = {}
        for (pn, kind), a in zip(params, args):
            sub[pn] = ([("op", "(")] + a + [("op", ")")]) if kind == "expr" else a
        out, i = [], 0
        while i < len(tmpl):
            if tmpl[i] == ("op", "$") and i + 1 < len(tmpl) and tmpl[i + 1][1] in sub:
                out += sub[tmpl[i + 1][1]]
                i += 2
            else:
                out.append(tmpl[i])
                i += 1
        block = P([("op", "{")] + out + [("op", "}"), ("eof", "")]).block()
        # `let $i = 0; $body;` patterns define names for the rest of the expansion only: run as a scoped block
        return self.run_block(block, dict(env), scoped_env=env)

    def apply_closure(self, c, args):
        if not (isinstance(c, tuple) and c[0] == "closure"):
            raise Unsupported("closure expected")
        _, pats, body, cenv = c
        env = dict(cenv)
        if len(pats) != len(args):
            raise Unsupported("closure arity")
        for p_, a in zip(pats, args):
            self.bind_pat(p_, a, env)
        return self.eval(body, env)

    def scalar(self, v):
        v = self.deref_all(v)
        if isinstance(v, Lanes):
            return self.lanes_value(v)
        if not isinstance(v, BV):
            raise Unsupported(f"integer expected, got {type(v).__name__}")
        return v

    def copy(self, v):
        v2 = v
        if isinstance(v2, Ref):
            return v2
        if isinstance(v2, Arr):
            c_ = Arr([Slot(self.copy(s.v)) for s in v2.slots])
            if v2.newtype:
                c_.newtype = True
            return c_
        if isinstance(v2, Lanes):
            return self.lanes_value(v2)  # a copy does not alias the `[u32]` view
        return v2

    def path(self, p, env, want):
        name = p[-1]
        if len(p) == 1 and name in env:
            return env[name].v
        if name == "PhantomData":
            return ("phantom",)
        if len(p) == 1 and isinstance(self.generics.get(name), int):
            return BV(64, const=self.generics[name])
        if name in ("true", "false") and len(p) == 1:
            return BV(1, const=int(name == "true"))
        if len(p) == 2 and p[1] == "USIZE" and (isinstance(self.generics.get(p[0]), int) or re.fullmatch(r"U\d+", str(self.generics.get(p[0], p[0])))):
            return BV(64, const=self.ty_len(("name", p[0], [])))
        if len(p) == 2 and p[1] == "USIZE" and p[0] in self.aliases and p[0] not in self.generics:
            # `type ParBlocksSize = U4;` … `ParBlocksSize::USIZE`
            at_ = self.resolve(("name", p[0], []))
            if at_[0] == "name" and re.fullmatch(r"U\d+", at_[1]):
                return BV(64, const=int(at_[1][1:]))
        if len(p) == 2 and p[0] in WIDTH and p[1] in ("MAX", "BITS", "MIN"):
            w = WIDTH[p[0]]
            return BV(w if p[1] != "BITS" else 32, const={"MAX": (1 << w) - 1, "BITS": w, "MIN": 0}[p[1]])
        if len(p) >= 2:
            owner = p[-2]
            if owner == "Self":
                owner = self.self_ty
            owner = self.generics.get(owner, owner)
            key = f"{owner}::{name}"
            if key not in self.consts:
                cands = [k for k in self.consts if k.endswith("::" + name) and k.split("::")[0] in TRAITS]
                key = cands[0] if cands else None
            if key:
                saved = self.self_ty
                if isinstance(owner, str):
                    self.self_ty = owner
                try:
                    return self.const_value(key)
                finally:
                    self.self_ty = saved
        if name in self.consts:
            return self.const_value(name)
        if name in ("bitxor", "bitand", "bitor") and len(p) >= 2:
            op = {"bitxor": "^", "bitand": "&", "bitor": "|"}[name]
            return ("closure", [("pid", "\0a"), ("pid", "\0b")], ("bin", op, ("path", ["\0a"]), ("path", ["\0b"])), {})
        raise Unsupported(f"unknown name {'::'.join(p)}")

    def const_value(self, name):
        key = (name, self.self_ty if "::" in name else None)
        if key in self.const_cache:
            return self.const_cache[key]
        # big constant arrays computed by `const fn`s (Kuznyechik's fused tables: ~20 s each) are evaluated once per process
        mkey = (REPO, self.crate, name, tuple(self.cfg)) if "::" not in name and not self.generics else None
        if mkey in CONST_MEMO:
            w_, nt_, vals_ = CONST_MEMO[mkey]
            v = Arr([Slot(BV(w_, const=x)) for x in vals_])
            v.newtype = nt_
            self.const_cache[key] = v
            return v
        v = self.const_value_(name)
        self.const_cache[key] = v
        if mkey is not None and isinstance(v, Arr) and len(v.slots) >= 4096:
            es = [s_.v for s_ in v.slots]
            if all(isinstance(x, BV) and x.const is not None and x.w == es[0].w for x in es):
                CONST_MEMO[mkey] = (es[0].w, v.newtype, tuple(x.const for x in es))
        return v

    def const_value_(self, name):
        if True:
            t, init = self.consts[name]
            tbl = self.table_for(name, t, init) if "::" not in name else None
            if tbl is not None:
                return tbl
            t = self.resolve(t)
            w = WIDTH.get(t[1]) if t[0] == "name" else None
            v = self.eval(init, {}, w)
            if isinstance(v, BV) and v.w is None and w:
                v = BV(w, const=v.const)
            return v
        raise Unsupported(f"unknown name {'::'.join(p)}")

    def table_for(self, name, t, init):
        t = self.resolve(t)
        if t[0] != "arr":
            return None
        dims, el = [], t
        while el[0] == "arr":
            dims.append(self.const_of(self.eval(el[2], {})))
            el = self.resolve(el[1])
        if el[0] != "name" or el[1] not in WIDTH:
            return None
        flat = []

        def walk(x):
            if x[0] == "array":
                for y in x[1]:
                    walk(y)
            elif x[0] == "repeat":
                n = self.const_of(self.eval(x[2], {}))
                for _ in range(n):
                    walk(x[1])
            else:
                flat.append(self.const_of(self.eval(x, {}, WIDTH[el[1]])))
        try:
            walk(init)
        except Unsupported:
            return None
        total = 1
        for d in dims:
            total *= d
        if len(flat) != total:
            return None
        return Table(f"BC.Gen.{self.crate}_{name}", dims, WIDTH[el[1]], flat)

    def index(self, e, env, want):
        base = self.deref_all(self.eval(e[1], env))
        idx = self.eval(e[2], env, 64)
        if isinstance(idx, tuple) and idx[0] == "range":
            if isinstance(base, Arr):
                lo = idx[1] or 0
                hi = idx[2] if idx[2] is not None else len(base.slots)
                if hi > len(base.slots):
                    raise Unsupported("slice out of range")
                return Arr(base.slots[lo:hi])
            if isinstance(base, Table) and len(base.dims) == 1:
                lo = idx[1] or 0
                hi = idx[2] if idx[2] is not None else base.dims[0]
                return Table(base.lean_name, [hi - lo], base.w, base.flat, base.off + lo)
            raise Unsupported("range index on non-array")
        idx = self.scalar(idx)
        if isinstance(base, Arr):
            if idx.const is None:
                elems = [self.deref_all(sl.v) for sl in base.slots]
                if all(isinstance(x, BV) and x.const is not None for x in elems) and len({x.w for x in elems}) == 1:
                    vals = tuple(x.const for x in elems)
                    if vals not in self.aux:
                        self.aux[vals] = f"{self.lean_name}_tbl{len(self.aux)}"
                    return BV(elems[0].w, f"BC.Gen.tblAt {self.aux[vals]} {idx.par()}.toNat {elems[0].w}", atom=False)
                if all(isinstance(x, BV) for x in elems) and len({x.w for x in elems}) == 1:
                    lst = ", ".join(x.lean() for x in elems)
                    return BV(elems[0].w, f"BC.Gen.selAt [{lst}] {idx.par()}.toNat", atom=False)
                raise Unsupported("data-dependent index into a local array")
            if idx.const >= len(base.slots):
                raise Unsupported(f"index {idx.const} out of bounds ({len(base.slots)})")
            return base.slots[idx.const].v
        if isinstance(base, Table):
            stride = 1
            for d in base.dims[1:]:
                stride *= d
            if idx.const is not None:
                if idx.const >= base.dims[0]:
                    raise Unsupported("constant table index out of bounds")
                off = base.off + idx.const * stride
                if len(base.dims) == 1:
                    return BV(base.w, const=base.flat[off])
                return Table(base.lean_name, base.dims[1:], base.w, base.flat, off)
            if len(base.dims) != 1:
                raise Unsupported("data-dependent index into an outer table dimension")
            i = idx.par() + ".toNat"
            at = i if base.off == 0 else f"({base.off} + {i})"
            return BV(base.w, f"BC.Gen.tblAt {base.lean_name} {at} {base.w}", atom=False)
        raise Unsupported("index into non-array")

    def addr(self, e, env):
        """&e / &mut e: a reference to the slot of an lvalue, or to a temporary"""
        try:
            return Ref(self.lvalue(e, env))
        except Unsupported:
            return Ref(Slot(self.eval(e, env)))

    def lvalue(self, e, env):
        k = e[0]
        if k == "paren":
            return self.lvalue(e[1], env)
        if k == "path" and len(e[1]) == 1 and e[1][0] in env:
            s = env[e[1][0]]
            return s
        if k == "deref":
            try:
                v = self.lvalue_value(e[1], env)
            except Unsupported:
                v = self.eval(e[1], env)
            if isinstance(v, Ref):
                return v.slot
            raise Unsupported("deref of non-reference lvalue")
        if k == "index":
            base = self.deref_all(self.lvalue_value(e[1], env))
            idx = self.eval(e[2], env, 64)
            if isinstance(idx, tuple):
                return Slot(self.index(e, env, None))
            i = self.const_of(idx)
            if isinstance(base, Arr):
                if i >= len(base.slots):
                    raise Unsupported(f"index {i} out of bounds ({len(base.slots)})")
                return base.slots[i]
            raise Unsupported("lvalue index into non-array")
        if k == "field":
            if e[2] == "0":
                s0 = self.lvalue(e[1], env)
                while isinstance(s0.v, Ref):
                    s0 = s0.v.slot
                if isinstance(s0.v, Arr) and s0.v.newtype:
                    return s0  # `block.0 = …` on a hybrid array / one-field wrapper: the inner array is the value itself
            base = self.deref_all(self.lvalue_value(e[1], env))
            if isinstance(base, Struct) and e[2] in base.fields:
                return base.fields[e[2]]
            if isinstance(base, Arr) and e[2].isdigit():
                return base.slots[int(e[2])]
            raise Unsupported(f"lvalue field .{e[2]}")
        raise Unsupported(f"not an lvalue: {k}")

    def lvalue_value(self, e, env):
        return self.lvalue(e, env).v

    def cast(self, v, t):
        t = self.resolve(t)
        if t[0] == "ptr" and isinstance(self.deref_all(v), RawPtr):
            dv = self.deref_all(v)
            return RawPtr(dv.cells, dv.cellsize, dv.off, self.norm_ty(t[2]))
        if t[0] == "name" and t[1] in WIDTH:
            v = self.scalar(v)
            w = WIDTH[t[1]]
            if t[1] in ("i8", "i16"):
                # `x as i8`: only the same-width reinterpretation of an unsigned value (arguments of `_mm_set_epi8`); the result
                # is marked so that a later widening cast (a sign extension, not modelled) is refused
                if v.w != w:
                    raise Unsupported(f"cast of a {v.w}-bit value to {t[1]}")
                sv = BV(w, v._lean, v.const, v.atom)
                sv.signed = True
                sv.narrow_signed = True
                return sv
            if (getattr(v, "signed", False) and getattr(v, "narrow_signed", False)) and v.w is not None and w > v.w:
                raise Unsupported("widening cast of a signed value (sign extension)")
            sg = t[1] in SIGNED
            if v.isbool and v.const is None:
                # `u8::from(b)` / `b as u8`
                r_ = BV(w, f"if {v.prop} then 0x1#{w} else 0x0#{w}", atom=False)
                r_.ub, r_.signed = 1, sg
                return r_
            if v.const is not None:
                r_ = BV(w, const=v.const & ((1 << w) - 1))
                if sg:
                    if v.signed and v.w is not None and v.w < w:
                        raise Unsupported("widening cast of a signed constant")
                    r_.signed = True
                return r_
            if v.signed and v.w < w:
                raise Unsupported("widening cast of a signed value (sign extension)")
            if v.w == w:
                if v.signed == sg:
                    return v
                r_ = BV(w, v._lean, atom=v.atom)  # `as i32` / `as u32`: the same bits, the other comparison
                r_.ub, r_.signed = v.ub, sg
                return r_
            r_ = BV(w, f"{v.par()}.setWidth {w}", atom=False)
            r_.ub = min(v.hi(), (1 << w) - 1)
            r_.signed = sg
            return r_
        raise Unsupported(f"cast to {t}")

    OPS = {"^": "^^^", "&": "&&&", "|": "|||", "+": "+", "-": "-", "*": "*", "<<": "<<<", ">>": ">>>"}

    def binop(self, op, l, r, env, want):
        if op in ("<<", ">>"):
            a = self.scalar(self.eval(l, env, want))
            b = self.scalar(self.eval(r, env, None))
            if a.const is not None and b.const is not None:
                if a.w is None:
                    return BV(None, const=(a.const << b.const) if op == "<<" else (a.const >> b.const))
                if b.const >= a.w:
                    raise Unsupported("shift amount >= width")
                val = (a.const << b.const) & ((1 << a.w) - 1) if op == "<<" else a.const >> b.const
                return BV(a.w, const=val)
            if a.w is None:
                raise Unsupported("shift of an untyped literal by data")
            amt = str(b.const) if b.const is not None else b.par()
            if a.isbool or b.isbool:
                raise Unsupported("shift of a bool")
            if a.signed and op == ">>":
                raise Unsupported("arithmetic shift right of a signed value")
            r_ = BV(a.w, f"{a.par()} {self.OPS[op]} {amt}", atom=False)
            r_.signed = a.signed
            if op == ">>" and b.const is not None:
                r_.ub = a.hi() >> b.const
            return r_
        if op in ("==", "!=", "<", ">", "<=", ">=", "&&", "||"):
            a = self.scalar(self.eval(l, env))
            b = self.scalar(self.eval(r, env, a.w))
            if a.const is None or b.const is None:
                return self.compare(op, a, b)
            if a.signed or b.signed:
                return self.compare(op, a, b)
            res = {"==": a.const == b.const, "!=": a.const != b.const, "<": a.const < b.const, ">": a.const > b.const,
                   "<=": a.const <= b.const, ">=": a.const >= b.const, "&&": bool(a.const and b.const),
                   "||": bool(a.const or b.const)}[op]
            return BV(1, const=int(res))
        a = self.scalar(self.eval(l, env, want))
        b = self.scalar(self.eval(r, env, a.w if a.w is not None else want))
        if a.w is None and b.w is not None:
            a = BV(b.w, const=a.const)
        if b.w is None and a.w is not None:
            b = BV(a.w, const=b.const)
        if a.w != b.w and a.w is not None and b.w is not None:
            # rustc guarantees equal operand types: a constant of another width is a loop counter (typed 64 bits by the
            # translator); its value is exact, it is re-typed when it fits (otherwise Unsupported below)
            if a.const is not None and not a.signed and a.const < (1 << b.w) and (b.const is None or a.w == 64):
                a = BV(b.w, const=a.const)
            elif b.const is not None and not b.signed and b.const < (1 << a.w) and (a.const is None or b.w == 64):
                b = BV(a.w, const=b.const)
        if a.w != b.w:
            raise Unsupported(f"operands of `{op}` have widths {a.w} and {b.w}")
        if a.const is not None and b.const is not None:
            x, y = a.const, b.const
            if op in ("/", "%"):
                val = x // y if op == "/" else x % y
            else:
                val = {"^": x ^ y, "&": x & y, "|": x | y, "+": x + y, "-": x - y, "*": x * y}[op]
            if a.w is not None:
                if op in ("+", "-", "*") and not (0 <= val < (1 << a.w)):
                    raise Unsupported(f"constant arithmetic overflows: {x} {op} {y}")
                val &= (1 << a.w) - 1
            return BV(a.w, const=val)
        if op in ("/", "%"):
            raise Unsupported("division of data-dependent values")
        if a.isbool or b.isbool:
            return self.bool_binop(op, a, b)
        r_ = BV(a.w, f"{a.par()} {self.OPS[op]} {b.par()}", atom=False)
        r_.signed = a.signed or b.signed
        if op == "&":
            r_.ub = min(a.hi(), b.hi())
        return r_

    # ---- data-dependent control flow: conditions ------------------------------------------------------
    def bool_not(self, v):
        if v.const is not None:
            return BV(1, const=int(not v.const))
        if getattr(v, "neg_of", None) is not None:
            return v.neg_of
        r_ = BoolV(f"!{v.par()}", f"¬({v.prop})")
        r_.neg_of = v
        return r_

    def as_bool(self, v):
        if v.isbool or (v.const is not None and v.w in (1, None) and v.const in (0, 1)):
            return v
        raise Unsupported("bool expected")

    def bool_binop(self, op, a, b):
        """`&&` `||` (and `&` `|` `^` on bools) with at least one data-dependent operand.  Both operands have been
        evaluated: the right operand of a lazy `&&`/`||` is an expression without side effects in the supported subset
        (a call that assigns through `&mut` inside it would be executed unconditionally: not checked)."""
        a, b = self.as_bool(a), self.as_bool(b)
        op = {"&": "&&", "|": "||"}.get(op, op)
        if op not in ("&&", "||", "^"):
            raise Unsupported(f"`{op}` on bools")
        if op == "^":
            if a.const is not None:
                return self.bool_not(b) if a.const else b
            if b.const is not None:
                return self.bool_not(a) if b.const else a
            return BoolV(f"{a.par()} != {b.par()}", f"¬(({a.prop}) ↔ ({b.prop}))")
        for x, y in ((a, b), (b, a)):
            if x.const is not None:
                if op == "&&":
                    return y if x.const else BV(1, const=0)
                return BV(1, const=1) if x.const else y
        if op == "&&":
            return BoolV(f"{a.par()} && {b.par()}", f"({a.prop}) ∧ ({b.prop})")
        return BoolV(f"{a.par()} || {b.par()}", f"({a.prop}) ∨ ({b.prop})")

    def compare(self, op, a, b):
        """a comparison with a data-dependent operand -> BoolV; folded when the interval analysis decides it"""
        if op in ("&&", "||"):
            return self.bool_binop(op, a, b)
        if a.isbool or b.isbool:
            raise Unsupported("comparison of bools")
        if a.w is None:
            a = BV(b.w, const=a.const)
        if b.w is None:
            b = BV(a.w, const=b.const)
        if a.w != b.w and a.w is not None and b.w is not None:
            # rustc guarantees that both operands have the same type: a constant carrying another width is a loop counter /
            # literal typed by the translator's default; its value is exact, so it is re-typed if it fits
            if a.const is not None and b.const is None and a.const < (1 << b.w) and not a.signed:
                a = BV(b.w, const=a.const)
            elif b.const is not None and a.const is None and b.const < (1 << a.w) and not b.signed:
                b = BV(a.w, const=b.const)
        if a.w != b.w or a.w is None:
            raise Unsupported(f"comparison of widths {a.w} and {b.w}")
        w = a.w
        signed = a.signed or b.signed
        if signed:
            def sv(x):
                return x.const - (1 << w) if x.const >= (1 << (w - 1)) else x.const
            if a.const is not None and b.const is not None:
                x, y = sv(a), sv(b)
                return BV(1, const=int({"==": x == y, "!=": x != y, "<": x < y, ">": x > y, "<=": x <= y, ">=": x >= y}[op]))
        else:
            al, ah, bl, bh = a.lo(), a.hi(), b.lo(), b.hi()
            dec = {"==": (False if ah < bl or bh < al else None),
                   "!=": (True if ah < bl or bh < al else None),
                   "<": (True if ah < bl else False if al >= bh else None),
                   "<=": (True if ah <= bl else False if al > bh else None),
                   ">": (True if al > bh else False if ah <= bl else None),
                   ">=": (True if al >= bh else False if ah < bl else None)}[op]
            if dec is not None:
                return BV(1, const=int(dec))
        x, y = a.par(), b.par()
        if op == "==":
            return BoolV(f"{x} == {y}", f"{x} = {y}")
        if op == "!=":
            r_ = BoolV(f"{x} != {y}", f"¬({x} = {y})")
            r_.neg_of = BoolV(f"{x} == {y}", f"{x} = {y}")
            return r_
        if op in (">", ">="):
            x, y, op = y, x, {">": "<", ">=": "<="}[op]
        if signed:
            f_ = {"<": "BitVec.slt", "<=": "BitVec.sle"}[op]
            return BoolV(f"{f_} {x} {y}", f"{f_} {x} {y} = true")
        f_ = {"<": "BitVec.ult", "<=": "BitVec.ule"}[op]
        return BoolV(f"{f_} {x} {y}", f"{x} {'<' if op == '<' else '≤'} {y}")

    def path_cond(self, frame):
        c = BV(1, const=1)
        for cc, pol in frame.path:
            c = self.bool_binop("&&", c, cc if pol else self.bool_not(cc))
        return c

    # ---- data-dependent control flow: select -----------------------------------------------------------
    def reachable_slots(self, roots):
        """every Slot reachable from the values `roots` (dict name -> Slot or a list of values): [(slot, hint)]"""
        out, seen = [], set()
        stack = [(v, k) for k, v in roots.items()] if isinstance(roots, dict) else [(v, "t") for v in roots]
        stack.reverse()
        while stack:
            v, hint = stack.pop()
            if v is None or isinstance(v, (BV, str, int, Table, ResV)):
                continue
            if id(v) in seen:
                continue
            seen.add(id(v))
            if isinstance(v, Slot):
                out.append((v, hint))
                stack.append((v.v, hint))
            elif isinstance(v, Ref):
                stack.append((v.slot, hint))
            elif isinstance(v, Arr):
                for i, s_ in reversed(list(enumerate(v.slots))):
                    stack.append((s_, f"{hint}{i}"))
            elif isinstance(v, Struct):
                for fn_, s_ in reversed(list(v.fields.items())):
                    stack.append((s_, fn_ if hint == "self" else f"{hint}_{fn_}"))
            elif isinstance(v, InOutV):
                stack += [(v.out_slot, hint), (v.out, hint), (v.inp, hint)]
            elif isinstance(v, RawPtr):
                stack += [(c_, hint) for c_ in reversed(v.cells)]
            elif isinstance(v, Lanes):
                stack += [(c_, hint) for c_ in reversed(v.lanes)]
            elif isinstance(v, dict):
                stack += [(x, k) for k, x in reversed(list(v.items()))]
            elif isinstance(v, tuple) and v and v[0] == "closure":
                stack.append((v[3], hint))  # the captured environment
            elif isinstance(v, tuple) and v and v[0] in ("range", "phantom"):
                pass
            elif isinstance(v, (tuple, list)):
                stack += [(x, hint) for x in reversed(v) if not isinstance(x, (str, int))]
            else:
                raise Unsupported(f"select: value of kind {type(v).__name__} in the environment")
        return out

    def merge(self, c, t, e, hint="t"):
        """the value `if c then t else e`"""
        if t is e:
            return t
        if isinstance(t, ResV) or isinstance(e, ResV):
            def err_of(x):
                if isinstance(x, Arr) and not x.slots:
                    x = ResV(BV(1, const=0))  # Ok(())
                if isinstance(x, ResV):
                    b_ = x.is_err
                    if not b_.isbool:
                        b_ = BV(1, const=b_.const)
                        b_.isbool = True
                    return b_
                raise Unsupported("select between Err(_) and a value that is not Ok(())")
            return ResV(self.merge(c, err_of(t), err_of(e), "is_err"))
        if isinstance(t, Ref) and isinstance(e, Ref):
            if t.slot is e.slot:
                return t
            raise Unsupported("select between references to different places")
        if t is None or e is None:
            return None  # a variable assigned on one path only: not definitely initialised afterwards (rustc rejects reads)
        if isinstance(t, Lanes):
            t = self.lanes_value(t)
        if isinstance(e, Lanes):
            e = self.lanes_value(e)
        if isinstance(t, BV) and isinstance(e, BV):
            if t.isbool or e.isbool:
                t, e = self.as_bool(t), self.as_bool(e)
                if t.const is not None and e.const is not None:
                    if t.const == e.const:
                        return t
                    return c if t.const else self.bool_not(c)
                tp = ("True" if t.const else "False") if t.const is not None else t.prop
                ep = ("True" if e.const else "False") if e.const is not None else e.prop
                tb = ("true" if t.const else "false") if t.const is not None else t.par()
                eb = ("true" if e.const else "false") if e.const is not None else e.par()
                return BoolV(f"if {c.prop} then {tb} else {eb}", f"if {c.prop} then {tp} else {ep}")
            if t.w is None:
                t = BV(e.w, const=t.const)
            if e.w is None:
                e = BV(t.w, const=e.const)
            if t.w != e.w:
                raise Unsupported(f"select between widths {t.w} and {e.w}")
            if t.const is not None and t.const == e.const:
                return t
            if t.const is None and e.const is None and t.lean() == e.lean():
                return t
            if t.w is None:
                raise Unsupported("select between untyped literals")
            r_ = BV(t.w, f"if {c.prop} then {t.par()} else {e.par()}", atom=False)
            r_.signed = t.signed or e.signed
            r_.ub = max(t.hi(), e.hi())
            return self.bind(hint, r_)
        if isinstance(t, Arr) and isinstance(e, Arr) and len(t.slots) == len(e.slots):
            r_ = Arr([Slot(self.merge(c, a_.v, b_.v, f"{hint}{i}")) for i, (a_, b_) in enumerate(zip(t.slots, e.slots))])
            r_.newtype = t.newtype
            return r_
        if isinstance(t, Struct) and isinstance(e, Struct) and t.ty == e.ty and list(t.fields) == list(e.fields):
            return Struct(t.ty, {k_: Slot(self.merge(c, t.fields[k_].v, e.fields[k_].v, k_)) for k_ in t.fields})
        raise Unsupported(f"select between {type(t).__name__} and {type(e).__name__}")

    def freeze(self, v):
        """the value of a branch, detached from the slots the other branch is going to overwrite"""
        if isinstance(v, Arr) or isinstance(v, Lanes):
            return self.copy(v)
        if isinstance(v, Struct):
            return Struct(v.ty, {k_: Slot(self.freeze(s_.v)) for k_, s_ in v.fields.items()})
        return v

    def typed(self, v, w):
        """an untyped literal takes the width its context expects"""
        if isinstance(v, BV) and v.w is None and v.const is not None and w and 0 <= v.const < (1 << w):
            return BV(w, const=v.const)
        return v

    def select(self, c, then_fn, else_fn, env, want=None):
        """`if c { then } else { else }` on a data-dependent `c`: BOTH branches are executed (their `let`s are emitted one
        after the other: every emitted term is total, so computing the branch not taken is harmless), each on the state
        before the `if`; afterwards every slot whose value differs holds `if c then vThen else vElse`.
        A `return` inside one branch is recorded in the activation frame (condition = conjunction of the enclosing
        conditions) together with the state at that point; the rest of the function is executed as the other path and
        `finish_frame` selects between the recorded returns and the final result.  `break`/`continue` under a
        data-dependent condition are not supported."""
        frame = self.frames[-1]
        slots = self.reachable_slots(env)
        before = [s_.v for s_, _ in slots]
        res = []
        for pol, fn_ in ((True, then_fn), (False, else_fn)):
            for (s_, _), v_ in zip(slots, before):
                s_.v = v_
            frame.path.append((c, pol))
            self.sel_depth += 1
            try:
                try:
                    r_, ret = self.freeze(fn_()), False
                except Return as ret_:
                    r_, ret = self.freeze(ret_.v), True
                except (Break, Continue):
                    raise Unsupported("break/continue under a data-dependent condition")
            finally:
                frame.path.pop()
                self.sel_depth -= 1
            res.append((r_, ret, [s_.v for s_, _ in slots]))
        (rT, retT, aT), (rE, retE, aE) = res
        rT = self.typed(rT, frame.ret_w if retT else want)
        rE = self.typed(rE, frame.ret_w if retE else want)
        if retT != retE:
            # `if c { …; return e1; } rest`: the returning path is set aside, execution continues as the other path
            frame.path.append((c, retT))
            try:
                cond = self.path_cond(frame)
            finally:
                frame.path.pop()
            if frame.roots is None and getattr(frame, "env0", None) is not None:
                frame.roots = {id(s_) for s_, _ in self.reachable_slots(frame.env0)}
            keep = frame.roots
            r_, a_ = (rT, aT) if retT else (rE, aE)
            frame.early.append((cond, r_, [(s_, v_) for (s_, _), v_ in zip(slots, a_) if keep is None or id(s_) in keep]))
            for (s_, _), v_ in zip(slots, aE if retT else aT):
                s_.v = v_
            return rE if retT else rT
        known = {id(s_) for s_, _ in slots}
        for (s_, h_), vt, ve in zip(slots, aT, aE):
            if vt is not ve and any(isinstance(x_, (Arr, Struct, InOutV, RawPtr)) for x_ in (vt, ve)):
                # a branch put another aggregate into the slot: merged element-wise only if the new aggregates are
                # fresh objects (their elements are not slots that the two branches have both written)
                if any(id(q_) in known for x_ in (vt, ve) for q_, _ in self.reachable_slots([x_])):
                    raise Unsupported("a branch of a data-dependent `if` re-binds an aggregate that shares storage")
            s_.v = vt if vt is ve else self.merge(c, vt, ve, h_)
        r_ = self.merge(c, rT, rE, "sel")
        if retT:
            raise Return(r_)
        return r_

    def finish_frame(self, frame, r):
        """function exit: `if c1 then r1 else if c2 then r2 … else r` over the recorded early returns, for the result and
        for every slot that outlives the activation"""
        for cond, v_, snap in reversed(frame.early):
            r = self.merge(cond, self.typed(v_, frame.ret_w), self.typed(r, frame.ret_w), "ret")
            for s_, sv_ in snap:
                if s_.v is not sv_:
                    s_.v = self.merge(cond, sv_, s_.v, "t")
        frame.early = []
        return r

    def match_data(self, sv, arms, env, want):
        """`match x { p0 | p1 => a, …, _ => z }` on a data-dependent integer: `if x = p0 ∨ x = p1 then a else …`"""
        if not sv.atom:
            sv = self.bind("m", sv)

        def go(i):
            if i == len(arms):
                raise Unsupported("data-dependent match without a catch-all arm")
            pats, body = arms[i]
            if any(p_ is None for p_ in pats):
                return self.eval(body, env, want)
            c = BV(1, const=0)
            for p_ in pats:
                pv = self.scalar(self.eval(p_, env, sv.w))
                if pv.const is None:
                    raise Unsupported("match pattern is not a constant")
                c = self.bool_binop("||", c, self.compare("==", sv, pv))
            if c.const is not None:
                return self.eval(body, env, want) if c.const else go(i + 1)
            return self.select(c, lambda: self.eval(body, env, want), lambda: go(i + 1), env, want)
        return go(0)

    def while_data(self, cond_e, body, env, c, depth=0):
        """`while c { body }` on a data-dependent `c` = `if c { body; while c { body } }`, unrolled until the condition
        folds to `false` (decided by constants and by the interval analysis: e.g. `while a > 0 { …; a >>= 1; }`); no
        bound established within 64 iterations -> Unsupported (never a guess)"""
        if depth >= 64:
            raise Unsupported("`while` on a data-dependent condition: termination not established within 64 iterations")

        def then_():
            d_ = depth
            while True:
                try:
                    self.run_block(body, dict(env))
                except (Break, Continue):
                    raise Unsupported("break/continue in a `while` on a data-dependent condition")
                c2 = self.scalar(self.eval(cond_e, env))
                if c2.const is None:
                    self.while_data(cond_e, body, env, self.as_bool(c2), d_ + 1)
                    return None
                if not c2.const:
                    return None
                d_ += 1
                if d_ >= 64:
                    raise Unsupported("`while`: termination not established within 64 iterations")
        n_early = len(self.frames[-1].early)
        self.select(c, then_, lambda: None, env)
        if len(self.frames[-1].early) != n_early:
            raise Unsupported("`return` inside a `while` on a data-dependent condition")

    def call_def(self, fn, actual, spec):
        """a call emitted as a call of the generated definition of the callee (`defs=` of the target) instead of being
        inlined: integer arguments and result only; parameters listed in `spec[1]` must be compile-time constants and
        select the definition (`…_{i}`)"""
        tmpl, fixed = spec
        fx, parts = {}, []
        for (pat, t), v in zip(fn.params, actual):
            if t[0] == "self":
                continue  # the definition was generated with `noself`: the method does not read `self`
            pname = pat[1] if pat[0] == "pid" else None
            rt = self.resolve(t)
            if not (rt[0] == "name" and rt[1] in WIDTH and pname):
                raise Unsupported(f"call of the definition of {fn.name}: parameter of type {rt}")
            v = self.scalar(v)
            if v.w is None:
                v = BV(WIDTH[rt[1]], const=v.const)
            if v.w != WIDTH[rt[1]] or v.isbool:
                raise Unsupported(f"call of the definition of {fn.name}: argument width {v.w}")
            if pname in fixed:
                fx[pname] = self.const_of(v)
            else:
                parts.append(v.par())
        rt = self.resolve(fn.ret) if fn.ret is not None else None
        if not (rt and rt[0] == "name" and rt[1] in WIDTH and rt[1] != "bool"):
            raise Unsupported(f"call of the definition of {fn.name}: result type {rt}")
        lean = tmpl.format(**fx)
        tgt = def_target(lean)
        key = f"{fn.owner}::{fn.name}" if getattr(fn, "owner", None) else fn.name
        if tgt is None or tgt["fn"].split("::")[-1] != fn.name or tgt["fn"] not in (key, fn.name, "::" + fn.name) \
                or {k_: int(v_) for k_, v_ in (tgt.get("fixed") or {}).items()} != fx or tgt.get("crate", "").replace("-", "_") != self.crate:
            raise Unsupported(f"no generated definition `{lean}` of {key}")
        r_ = BV(WIDTH[rt[1]], f"BC.Gen.Fn.{lean} {' '.join(parts)}", atom=False)
        r_.signed = rt[1] in SIGNED
        return self.bind(fn.name + "_r", r_)

    def mcall(self, e, env, want):
        recv_e, name, args = e[1], e[2], e[3]
        if name in ("iter", "into_iter", "iter_mut", "enumerate", "rev", "step_by", "zip", "chunks_exact", "chunks_exact_mut",
                    "chunks", "skip", "take", "copied", "cloned", "map", "fold", "for_each"):
            return self.iterator(e, env)
        recv = self.eval(recv_e, env, want)
        rv = self.deref_all(recv)
        if isinstance(rv, ResV):
            raise Unsupported(f".{name}() on a data-dependent Result")
        if isinstance(rv, BV) and rv.const is None and (rv.isbool or rv.signed):
            raise Unsupported(f".{name}() on a data-dependent bool / signed integer")
        if isinstance(rv, InOutV):
            if name == "get_in":
                return Ref(Slot(rv.inp))
            if name == "get_out":
                return Ref(rv.out_slot)
            if name == "reborrow":
                return rv
            if name == "clone_in":
                return self.copy(rv.inp)
            if name == "into_raw" and not args:
                ci, co = [], []
                self.leaf_cells(rv.inp, ci)
                self.leaf_cells(rv.out, co)
                ty = self.ty_of_value(rv.inp)
                return Arr([Slot(RawPtr(ci, 1, 0, ty)), Slot(RawPtr(co, 1, 0, ty))])
            raise Unsupported(f"InOut method .{name}()")
        if isinstance(rv, RawPtr):
            return self.ptr_method(rv, name, args, e, env)
        if isinstance(rv, tuple) and rv and rv[0] == "ptr" and name == "add" and len(args) == 1:
            # `TABLE.0.as_ptr().add(idx)`: a pointer into a constant byte array at a (data-dependent) byte offset
            base = rv[1]
            vals = getattr(base, "_bytes", None)
            if vals is None:
                es = [self.deref_all(sl.v) for sl in base.slots]
                if not all(isinstance(x, BV) and x.w == 8 and x.const is not None for x in es):
                    raise Unsupported("pointer arithmetic on an array that is not a constant byte array")
                vals = base._bytes = tuple(x.const for x in es)
            idx = self.scalar(self.eval(args[0], env, 64))
            if idx.w is None:
                idx = BV(64, const=idx.const)
            return DPtr(vals, idx)
        if isinstance(rv, DPtr) and name == "cast" and not args:
            return rv  # the access width is that of the load intrinsic
        if name == "as_ptr" and not args and isinstance(rv, Arr) and rv.slots and \
                all(isinstance(self.deref_all(sl.v), BV) and self.deref_all(sl.v).const is not None for sl in rv.slots):
            return ("ptr", rv)   # a constant byte table reinterpreted through `.cast()` + a typed `let` (big_soft fused tables)
        if name in ("as_ptr", "as_mut_ptr") and not args and isinstance(rv, Arr):
            return self.as_raw_ptr(rv, elem=True)
        if isinstance(rv, Struct) and name in ("unwrap", "expect", "clone", "into"):
            return recv
        if isinstance(rv, Struct):
            key = f"{rv.ty}::{name}"
            if key in self.fns:
                return self.inline(self.fns[key], [recv] + [self.eval(a, env) for a in args])
            raise Unsupported(f"method {key} not found")
        if name in ("rotate_left", "rotate_right"):
            a = self.scalar(rv)
            n = self.scalar(self.eval(args[0], env, 32))
            fn = "rotateLeft" if name == "rotate_left" else "rotateRight"
            if a.const is not None and n.const is not None:
                w = a.w
                k = n.const % w
                k = k if name == "rotate_left" else (w - k) % w
                return BV(w, const=((a.const << k) | (a.const >> (w - k))) & ((1 << w) - 1) if k else a.const)
            amt = str(n.const) if n.const is not None else f"{n.par()}.toNat"
            return BV(a.w, f"{a.par()}.{fn} {amt}", atom=False)
        if name in ("wrapping_add", "wrapping_sub", "wrapping_mul"):
            a = self.scalar(rv)
            b = self.scalar(self.eval(args[0], env, a.w))
            if b.w is None:
                b = BV(a.w, const=b.const)
            if a.w is None:
                a = BV(b.w, const=a.const)
            if a.w is None:
                raise Unsupported("wrapping op on untyped literals")
            op = {"wrapping_add": "+", "wrapping_sub": "-", "wrapping_mul": "*"}[name]
            if a.const is not None and b.const is not None:
                val = {"+": a.const + b.const, "-": a.const - b.const, "*": a.const * b.const}[op] & ((1 << a.w) - 1)
                return BV(a.w, const=val)
            return BV(a.w, f"{a.par()} {op} {b.par()}", atom=False)
        if name == "div_ceil":
            a = self.scalar(rv)
            b = self.scalar(self.eval(args[0], env, a.w))
            if a.const is None or b.const is None:
                raise Unsupported("div_ceil of data-dependent values")
            return BV(a.w or b.w, const=-(-a.const // b.const))
        if name == "swap_bytes":
            a = self.scalar(rv)
            n = a.w // 8
            parts = " ++ ".join(f"{a.par()}.extractLsb' {8 * i} 8" for i in range(n))
            return BV(a.w, f"({parts})", atom=True) if a.const is None else BV(a.w, const=int.from_bytes(a.const.to_bytes(n, "little"), "big"))
        if name in ("to_be_bytes", "to_le_bytes"):
            a = self.scalar(rv)
            n = a.w // 8
            order = range(n - 1, -1, -1) if name == "to_be_bytes" else range(n)
            return Arr([Slot(BV(8, f"{a.par()}.extractLsb' {8 * i} 8", atom=False) if a.const is None
                             else BV(8, const=(a.const >> (8 * i)) & 0xFF)) for i in order])
        if name in ("into", "try_into") and isinstance(rv, BV) and rv.const is not None and want and rv.w not in (None, want):
            if rv.const >= (1 << want):
                raise Unsupported(f"{name}(): constant {rv.const} does not fit {want} bits")
            return BV(want, const=rv.const)
        if name == "pow" and isinstance(rv, BV) and rv.const is not None:
            ex_ = self.const_of(self.eval(args[0], env, 32))
            val = rv.const ** ex_
            if rv.w is not None and val >= (1 << rv.w):
                raise Unsupported("pow overflows")
            return BV(rv.w, const=val)
        if name in ("clone", "into", "try_into", "unwrap", "expect", "as_ref", "as_mut", "as_slice", "as_mut_slice", "borrow", "to_owned", "ok_or"):
            return self.copy(rv) if name in ("clone", "to_owned") else recv
        if name == "as_ptr" and isinstance(rv, Arr):
            return ("ptr", rv)
        if name == "cast" and isinstance(rv, tuple) and rv and rv[0] == "ptr":
            return ("ptrcast", rv[1])  # resolved by the type annotation of the enclosing `let` (reinterpret)
        if name == "len":
            if isinstance(rv, Arr):
                return BV(64, const=len(rv.slots))
            raise Unsupported("len of non-array")
        if name == "is_empty" and isinstance(rv, Arr):
            return BV(1, const=int(len(rv.slots) == 0))
        if name == "contains":
            x = self.const_of(self.eval(args[0], env))
            if isinstance(rv, Arr):
                return BV(1, const=int(any(self.const_of(sl.v) == x for sl in rv.slots)))
            if isinstance(rv, tuple) and rv[0] == "range":
                return BV(1, const=int((rv[1] or 0) <= x < rv[2]))
            raise Unsupported("contains on non-constant collection")
        if name in ("copy_from_slice", "clone_from_slice"):
            src = self.deref_all(self.eval(args[0], env))
            if isinstance(rv, Arr) and isinstance(src, Arr) and len(rv.slots) == len(src.slots):
                for d, s in zip(rv.slots, src.slots):
                    d.v = s.v
                return None
            raise Unsupported("copy_from_slice shapes")
        if name == "swap" and isinstance(rv, Arr):
            i = self.const_of(self.eval(args[0], env))
            j = self.const_of(self.eval(args[1], env))
            rv.slots[i].v, rv.slots[j].v = rv.slots[j].v, rv.slots[i].v
            return None
        if name == "split_at_mut" or name == "split_at":
            k = self.const_of(self.eval(args[0], env))
            return Arr([Slot(Arr(rv.slots[:k])), Slot(Arr(rv.slots[k:]))])
        if name in self.fns:  # method defined in the crate (rare)
            return self.inline(self.fns[name], [recv] + [self.eval(a, env) for a in args])
        raise Unsupported(f"method .{name}()")

    def iterator(self, e, env):
        """constant-length iterators as python lists of values"""
        recv_e, name, args = e[1], e[2], e[3]
        if name in ("iter", "iter_mut", "into_iter"):
            v = self.eval(recv_e, env)
            dv = self.deref_all(v)
            if isinstance(dv, tuple) and dv[0] == "list":
                return dv
            if isinstance(dv, tuple) and dv[0] == "range":
                return ("list", [BV(64, const=i) for i in range(dv[1] or 0, dv[2])])
            if isinstance(dv, Arr):
                return ("list", [Ref(s) for s in dv.slots])
            if isinstance(dv, Table):
                return ("list", [self.index(("index", ("k", dv), ("k", BV(64, const=i))), env, None) for i in range(dv.dims[0])])
            raise Unsupported("iter over non-array")
        base = self.eval(recv_e, env)
        if isinstance(base, tuple) and base[0] == "range":
            base = ("list", [BV(64, const=i) for i in range(base[1] or 0, base[2])])
        base = self.deref_all(base)
        if isinstance(base, Arr) and name in ("chunks_exact", "chunks_exact_mut", "chunks"):
            n = self.const_of(self.eval(args[0], env))
            sl = base.slots
            if name != "chunks" and len(sl) % n:
                sl = sl[:len(sl) - len(sl) % n]
            return ("list", [Arr(sl[i:i + n]) for i in range(0, len(sl), n)])
        if isinstance(base, Arr) and name == "map":
            c = self.eval(args[0], env)  # `[T; N]::map`
            return Arr([Slot(self.apply_closure(c, [self.deref_all(sl.v)])) for sl in base.slots])
        if not (isinstance(base, tuple) and base[0] == "list"):
            raise Unsupported(f".{name}() on a non-iterator")
        xs = base[1]
        if name == "enumerate":
            return ("list", [Arr([Slot(BV(64, const=i)), Slot(x)]) for i, x in enumerate(xs)])
        if name == "rev":
            return ("list", xs[::-1])
        if name == "step_by":
            return ("list", xs[::self.const_of(self.eval(args[0], env))])
        if name == "skip":
            return ("list", xs[self.const_of(self.eval(args[0], env)):])
        if name == "take":
            return ("list", xs[:self.const_of(self.eval(args[0], env))])
        if name in ("copied", "cloned"):
            return ("list", [self.deref_all(x) for x in xs])
        if name == "map":
            c = self.eval(args[0], env)
            return ("list", [self.apply_closure(c, [x]) for x in xs])
        if name == "for_each":
            c = self.eval(args[0], env)
            for x in xs:
                self.apply_closure(c, [x])
            return None
        if name == "fold":
            acc = self.eval(args[0], env)
            c = self.eval(args[1], env)
            for x in xs:
                if isinstance(acc, BV) and acc.w is None and isinstance(self.deref_all(x), BV):
                    acc = BV(self.deref_all(x).w, const=acc.const)
                acc = self.apply_closure(c, [acc, x])
                if isinstance(acc, BV) and not acc.atom and acc.const is None:
                    acc = self.bind("acc", acc)
            return acc
        if name == "zip":
            other = self.eval(args[0], env)
            other = self.deref_all(other)
            if isinstance(other, Arr):
                other = ("list", [Ref(s) for s in other.slots])
            if isinstance(other, tuple) and other[0] == "range":
                other = ("list", [BV(64, const=i) for i in range(other[1] or 0, other[2] if other[2] is not None else len(xs))])
            return ("list", [Arr([Slot(a), Slot(b)]) for a, b in zip(xs, other[1])])
        raise Unsupported(f"iterator adaptor {name}")

    def call(self, e, env, want):
        f, args = e[1], e[2]
        if f[0] == "k":
            return f[1]
        if f[0] == "sizeof":
            return self.eval(f, env)
        if f[0] != "path":
            raise Unsupported("call of a non-path")
        p = f[1]
        name = p[-1]
        if name in EXTERNS and name not in self.fns:
            return self.extern_call(name, args, env)
        if name == "zeroed" and (len(p) == 1 or p[-2] == "mem") and not args and name not in self.fns:
            if id(e) not in self.want_ty:
                raise Unsupported("zeroed() of an unknown type")
            return self.zero_of(self.norm_ty(self.want_ty[id(e)]))
        if name == "transmute" and (len(p) == 1 or p[-2] == "mem") and len(args) == 1 and name not in self.fns:
            if id(e) not in self.want_ty:
                raise Unsupported("transmute to an unknown type")
            return self.transmute(self.eval(args[0], env), self.want_ty[id(e)])
        if name == "uint8x16x4_t" and len(args) == 4 and name not in self.fns:
            regs = [self.scalar(self.eval(a, env, 128)) for a in args]
            if any(r_.w != 128 for r_ in regs):
                raise Unsupported("uint8x16x4_t of values that are not 128-bit registers")
            return Arr([Slot(self.bind("tbl", r_) if not r_.atom else r_) for r_ in regs])
        if name == "from_raw_parts_mut" and len(args) == 2 and name not in self.fns:
            return self.raw_parts(self.deref_all(self.eval(args[0], env)), self.const_of(self.eval(args[1], env, 64)))
        if len(p) == 1:
            for scope in reversed(self.fn_stack):  # a fn nested in an enclosing fn
                if f"{scope}::{name}" in self.fns:
                    name = f"{scope}::{name}"
                    break
        if len(f) > 2 and name in self.fns and getattr(self.fns[name], "cgen", None):
            # explicit const generic arguments `f::<1, 2>(…)`
            fn = self.fns[name]
            groups, cur = [], []
            for tk in f[2]:
                if tk == ",":
                    groups.append(cur)
                    cur = []
                else:
                    cur.append(tk)
            if cur:
                groups.append(cur)
            if getattr(fn, "tgen", None) or len(groups) != len(fn.cgen):
                raise Unsupported(f"generic arguments of {name}")
            vals = [self.const_of(self.eval(P(lex(" ".join(g))).expr(), env)) for g in groups]
            saved_g = {g: self.generics.get(g) for g in fn.cgen}
            actual = [self.eval(a, env) for a in args]
            self.generics.update(dict(zip(fn.cgen, vals)))
            try:
                return self.inline(fn, actual)
            finally:
                for g, v_ in saved_g.items():
                    if v_ is None:
                        self.generics.pop(g, None)
                    else:
                        self.generics[g] = v_
        if len(p) >= 2 and p[-2] in WIDTH and name in ("from", "try_from"):
            # try_from(..).unwrap(): the value is known to fit at every call site of the crates (C20 site); as a cast
            return self.cast(self.eval(args[0], env), ("name", p[-2], []))
        if len(p) >= 2 and p[-2] in WIDTH and name in ("from_be_bytes", "from_le_bytes", "from_ne_bytes"):
            a = self.deref_all(self.eval(args[0], env))
            if not isinstance(a, Arr):
                raise Unsupported("from_*_bytes of non-array")
            bs = [self.scalar(s.v) for s in a.slots]
            w = WIDTH[p[-2]]
            if len(bs) * 8 != w:
                raise Unsupported("from_*_bytes length")
            if name == "from_ne_bytes":
                name = "from_le_bytes"  # every supported target is little-endian; noted in DESIGN
            if name == "from_le_bytes":
                bs = bs[::-1]
            if all(b.const is not None for b in bs):
                return BV(w, const=int.from_bytes(bytes(b.const for b in bs), "big"))
            return BV(w, "(" + " ++ ".join(b.par() for b in bs) + ")", atom=True)
        if len(p) >= 2 and p[-2] in WIDTH and name in ("wrapping_add", "wrapping_sub", "wrapping_mul", "rotate_left", "rotate_right", "swap_bytes"):
            return self.mcall(("mcall", args[0], name, args[1:]), env, WIDTH[p[-2]])
        if name == "swap" and (len(p) == 1 or p[-2] == "mem") and len(args) == 2 and "swap" not in self.fns:
            a = self.eval(args[0], env)
            b = self.eval(args[1], env)
            if isinstance(a, Ref) and isinstance(b, Ref):
                a.slot.v, b.slot.v = b.slot.v, a.slot.v
                return None
            raise Unsupported("mem::swap on non-references")
        if name == "Wrapping" and len(args) == 1:
            return self.eval(args[0], env, want)
        if len(p) == 1 and name == "Self" and self.self_ty in TUPLE_STRUCTS:
            name = self.self_ty
        if len(p) == 1 and name == "Array" and "Array" not in self.fns and len(args) == 1:
            v = self.deref_all(self.eval(args[0], env, want))  # hybrid_array::Array([u8; N])
            if isinstance(v, Arr):
                v = self.copy(v)
                v.newtype = True
                return v
            raise Unsupported("Array(…) around a non-array")
        if len(p) == 1 and name in TUPLE_STRUCTS and name not in self.fns and len(TUPLE_STRUCTS[name]) == 1 and len(args) == 1:
            # one-field wrapper `Align16(x)`: transparent; `.0` gives the wrapped array back
            v = self.deref_all(self.eval(args[0], env, want))
            if isinstance(v, Arr):
                v = self.copy(v)
                v.newtype = True
                return v
            raise Unsupported(f"tuple struct {name}(…) around a non-array")
        if name in ("Ok", "Some") and len(args) == 1 and len(p) == 1:
            return self.eval(args[0], env, want)
        if name == "Err" and len(p) == 1:
            if self.sel_depth > 0:
                return ResV(BV(1, const=1))  # on a data-dependent path: merged with the `Ok(())` of the other paths
            raise Unsupported("the function returns Err(…) on this input shape")
        if len(p) >= 2 and p[-2] in WIDTH and name == "default":
            return BV(WIDTH[p[-2]], const=0)
        if len(p) >= 2 and name == "default" and p[-2] in self.aliases:
            return self.zero_of(self.aliases[p[-2]])
        if name in ("Default", "default") or (len(p) >= 2 and p[-1] == "default"):
            raise Unsupported("Default::default() (unknown type)")
        if len(p) >= 2:
            owner = p[-2]
            if owner == "Self":
                owner = self.self_ty
            owner = self.generics.get(owner, owner)
            if isinstance(owner, str) and f"{owner}::{name}" in self.fns:
                name = f"{owner}::{name}"
            elif isinstance(owner, str):
                cands = [k for k in self.fns if k.endswith("::" + name) and k.split("::")[0] in TRAITS]
                if cands:
                    fn = self.fns[cands[0]]
                    saved = self.self_ty
                    self.self_ty = owner
                    try:
                        actual = [self.eval(a, env) for a in args]
                        return self.inline(fn, actual, keep_self=True)
                    finally:
                        self.self_ty = saved
        if len(p) == 1 and name in self.fns and getattr(self.fns[name], "owner", None) and f"::{name}" in self.fns:
            name = f"::{name}"  # a bare call `f(…)` names the free function, not a method `T::f`
        if len(p) >= 2 and p[-2] in ("super", "crate") and name in self.fns and getattr(self.fns[name], "owner", None) and f"::{name}" in self.fns:
            name = f"::{name}"  # `super::f(…)` / `crate::f(…)`: a module-level function, not a method of the same name
        if name in self.fns:
            fn = self.fns[name]
            actual = []
            for a, (pat, t) in zip(args, fn.params):
                rt = self.resolve(t)
                w = WIDTH.get(rt[1]) if rt[0] == "name" else (WIDTH.get(self.resolve(rt[2])[1]) if rt[0] == "ref" and self.resolve(rt[2])[0] == "name" else None)
                actual.append(self.eval(a, env, w))
            return self.inline(fn, actual)
        raise Unsupported(f"call to unknown function {'::'.join(p)}")

    def inline(self, fn, actual, keep_self=False):
        if self.defs:
            spec = self.defs.get(f"{fn.owner}::{fn.name}" if getattr(fn, "owner", None) else fn.name) or self.defs.get(fn.name)
            if spec:
                return self.call_def(fn, actual, spec)
        unbound = [g for g in getattr(fn, "cgen", []) if not isinstance(self.generics.get(g), int)]
        if unbound:
            if len(unbound) > 1:
                raise Unsupported(f"{fn.name}: several const generics to infer")
            g = unbound[0]
            last = None
            for cand in range(1, 65):
                self.generics[g] = cand
                mark = (len(self.lines), dict(self.used))
                try:
                    return self.inline(fn, actual, keep_self)
                except AssertFail as e:
                    last = e
                    del self.lines[mark[0]:]
                    self.used = mark[1]
                finally:
                    del self.generics[g]
            raise Unsupported(f"{fn.name}: cannot infer const generic {g}: {last}")
        if self.depth > 40:
            raise Unsupported("inlining too deep")
        env = {}
        saved_self = self.self_ty
        if getattr(fn, "owner", None) and not keep_self and fn.owner not in TRAITS:
            self.self_ty = self.generics.get(fn.owner, fn.owner) if not isinstance(self.generics.get(fn.owner), tuple) else fn.owner
        saved_tg = {}
        for (pat, t), v in zip(fn.params, actual):
            # `N: ArraySize` of a parameter type `…Array<T, N>`: N = the length of the actual argument
            it = t[2] if t[0] in ("ref", "ptr") else t
            if getattr(fn, "tgen", None) and it[0] == "name" and it[1] == "Array" and it[2] and it[2][-1] in fn.tgen and it[2][-1] not in saved_tg:
                dv = self.deref_all(v)
                n_ = len(dv.slots) if isinstance(dv, Arr) else (int(dv.ty[2][1]) if isinstance(dv, RawPtr) and dv.ty and dv.ty[0] == "arr" else None)
                if n_ is not None:
                    saved_tg[it[2][-1]] = self.generics.get(it[2][-1])
                    self.generics[it[2][-1]] = n_
        tail = fn.body[-1] if fn.body and fn.body[-1][0] == "expr" and not fn.body[-1][2] and fn.ret is not None else None
        if tail is not None:
            self.want_ty[id(tail[1])] = fn.ret
        self.fn_stack.append(fn.name)
        self.path_stack.append(getattr(fn, "path", None))
        try:
            return self.inline_(fn, actual, env, saved_self)
        finally:
            self.fn_stack.pop()
            self.path_stack.pop()
            if tail is not None:
                self.want_ty.pop(id(tail[1]), None)
            for g_, v_ in saved_tg.items():
                if v_ is None:
                    self.generics.pop(g_, None)
                else:
                    self.generics[g_] = v_

    def inline_(self, fn, actual, env, saved_self):
        for (pat, t), v in zip(fn.params, actual):
            if t[0] == "self":
                env["self"] = Slot(v)
                continue
            rt = self.resolve(t)
            if rt[0] == "ptr":
                v = self.as_raw_ptr(v, self.norm_ty(rt[2]))
            if rt[0] == "name" and rt[1] in WIDTH:
                v = self.scalar(v)
                if v.w is None:
                    v = BV(WIDTH[rt[1]], const=v.const)
                elif v.w != WIDTH[rt[1]]:
                    raise Unsupported(f"argument width {v.w} for parameter of type {rt[1]} in {fn.name}")
            if rt[0] == "ref" and isinstance(v, Ref):
                inner = self.resolve(rt[2])
                if inner[0] == "name" and inner[1] in WIDTH and isinstance(v.slot.v, BV) and v.slot.v.w is None:
                    v.slot.v = BV(WIDTH[inner[1]], const=v.slot.v.const)
            if rt[0] != "ref" and not isinstance(v, Ref):
                v = self.copy(v)  # by-value arrays are copied
            if rt[0] != "ref" and isinstance(v, Ref):
                v = self.copy(v.slot.v)
            self.bind_pat(pat, v, env)
        self.depth += 1
        frame = Frame()
        frame.env0 = dict(env)  # `roots` is computed from it when the first early return is recorded
        rt_ = self.resolve(fn.ret) if fn.ret is not None else None
        frame.ret_w = WIDTH.get(rt_[1]) if rt_ and rt_[0] == "name" else None
        self.frames.append(frame)
        try:
            try:
                r = self.run_block(fn.body, env)
            except Return as ret:
                r = ret.v
            if frame.early:
                r = self.finish_frame(frame, r)
        finally:
            self.frames.pop()
            self.depth -= 1
            self.self_ty = saved_self
        if isinstance(r, BV) and r.const is None and not r.atom and not r.isbool:
            r = self.bind(fn.name + "_r", r)  # name the result once: callers may use it several times
        return r

    # ---- statements -------------------------------------------------------------------------
    def bind_pat(self, pat, v, env, name_hint=None):
        if pat[0] == "pid":
            if pat[1] == "_":
                return
            if isinstance(v, BV) and v.const is None and not re.fullmatch(r"[A-Za-z_][A-Za-z0-9_]*", v.lean()):
                v = self.bind(pat[1], v)
            env[pat[1]] = Slot(v)
            return
        if pat[0] == "pref":
            if isinstance(v, Ref):
                v = v.slot.v
            return self.bind_pat(pat[1], v, env)
        if pat[0] == "ptup" and v is None:
            for p in pat[1]:
                self.bind_pat(p, None, env)
            return
        if pat[0] == "ptup":
            dv = self.deref_all(v) if not isinstance(v, Arr) else v
            if not isinstance(dv, Arr) or len(dv.slots) != len(pat[1]):
                raise Unsupported("tuple pattern shape")
            byref = isinstance(v, Ref)
            for p, s in zip(pat[1], dv.slots):
                self.bind_pat(p, Ref(s) if byref and not isinstance(s.v, Ref) else s.v, env)
            return
        raise Unsupported(f"pattern {pat[0]}")

    def run_block(self, stmts, env, scoped_env=None):
        """executes a block; assignments to outer variables go through shared slots"""
        result = None
        for st in stmts:
            result = None
            if st[0] == "attr":
                if not cfg_active(st[1], self.cfg):
                    continue
                st = st[2]
            k = st[0]
            if k == "let":
                if st[3] is None:
                    w = None
                    self.bind_pat(st[1], None, env)
                    continue
                want = None
                if st[2] is not None:
                    rt = self.resolve(st[2])
                    if rt[0] == "name" and rt[1] in WIDTH:
                        want = WIDTH[rt[1]]
                    elif rt[0] == "arr":
                        el = self.resolve(rt[1])
                        if el[0] == "name" and el[1] in WIDTH:
                            want = WIDTH[el[1]]
                if st[2] is not None:
                    self.want_ty[id(st[3])] = st[2]
                try:
                    v = self.eval(st[3], env, want)
                finally:
                    self.want_ty.pop(id(st[3]), None)
                pc_ = self.deref_all(v)
                if isinstance(pc_, tuple) and pc_ and pc_[0] == "ptrcast":
                    if st[2] is None:
                        raise Unsupported("pointer cast without a type annotation")
                    tt_ = self.resolve(st[2])
                    while tt_[0] == "ref":
                        tt_ = self.resolve(tt_[2])
                    v = Ref(Slot(self.reinterpret(pc_[1], tt_)))
                if isinstance(v, BV) and v.w is None and want:
                    v = BV(want, const=v.const)
                if isinstance(v, Arr):
                    v = self.copy(v) if st[3][0] in ("path", "deref", "index") else v
                    if want:
                        for s in v.slots:
                            if isinstance(s.v, BV) and s.v.w is None:
                                s.v = BV(want, const=s.v.const)
                self.bind_pat(st[1], v, env)
            elif k == "assign":
                self.assign(st[1], st[2], st[3], env)
            elif k == "expr":
                v = self.eval(st[1], env)
                if not st[2]:
                    result = v
            elif k == "for":
                it = self.eval(st[2], env)
                if isinstance(it, tuple) and it[0] == "range":
                    items = [BV(64, const=i) for i in range(it[1] or 0, it[2])]
                elif isinstance(it, tuple) and it[0] == "list":
                    items = it[1]
                else:
                    dv = self.deref_all(it)
                    if isinstance(dv, Arr):
                        items = [Ref(s) for s in dv.slots]
                    else:
                        raise Unsupported("for over a non-constant iterator")
                try:
                    for x in items:
                        inner = dict(env)
                        self.bind_pat(st[1], x, inner)
                        try:
                            self.run_block(st[3], inner)
                        except Continue:
                            pass
                except Break:
                    pass
            elif k == "while":
                n = 0
                try:
                    while True:
                        wc_ = self.deref_all(self.eval(st[1], env))
                        if isinstance(wc_, BoolV):
                            self.while_data(st[1], st[2], env, wc_)
                            break
                        if not self.const_of(wc_):
                            break
                        n += 1
                        if n > 100000:
                            raise Unsupported("while does not terminate")
                        try:
                            self.run_block(st[2], dict(env))
                        except Continue:
                            pass
                except Break:
                    pass
            elif k == "break":
                raise Break()
            elif k == "continue":
                raise Continue()
            elif k == "return":
                raise Return(self.eval(st[1], env) if st[1] is not None else None)
            else:
                raise Unsupported(f"statement {k}")
        return result

    def assign(self, op, lhs, rhs, env):
        if op == "=" and lhs[0] == "tuple":
            # destructuring assignment `(x, y) = e;`: the right-hand side is evaluated completely, then stored component-wise
            v = self.eval(rhs, env)
            if not isinstance(v, Arr) or len(v.slots) != len(lhs[1]):
                raise Unsupported("destructuring assignment: right-hand side is not a tuple of the same arity")
            vals = [self.copy(s_.v) for s_ in v.slots]
            for l_, x_ in zip(lhs[1], vals):
                if l_[0] == "path" and l_[1] == ["_"]:
                    continue
                if l_[0] == "tuple":
                    raise Unsupported("nested destructuring assignment")
                slot = self.lvalue(l_, env)
                if isinstance(slot.v, Lanes):
                    raise Unsupported("assignment to a register whose storage is aliased by a `[u32]` view")
                if isinstance(x_, BV) and not x_.atom:
                    x_ = self.bind(self.hint(l_), x_)
                slot.v = x_
            return
        slot = self.lvalue(lhs, env)
        cur = slot.v
        if isinstance(cur, Lanes):
            raise Unsupported("assignment to a register whose storage is aliased by a `[u32]` view")
        hint = self.hint(lhs)
        if op == "=":
            want = cur.w if isinstance(cur, BV) else None
            v = self.eval(rhs, env, want)
            if isinstance(v, BV):
                if v.w is None and want:
                    v = BV(want, const=v.const)
                v = self.bind(hint, v) if not v.atom else v
            elif isinstance(v, Arr):
                v = self.copy(v)
                if isinstance(cur, Arr) and len(cur.slots) == len(v.slots):
                    for d, s_ in zip(cur.slots, v.slots):
                        d.v = s_.v
                    return
            elif isinstance(v, Ref):
                pass
            slot.v = v
            return
        cur = self.scalar(cur)
        b = op[:-1]
        synthetic = ("bin", b, ("k", cur), rhs)
        v = self.binop_k(b, cur, rhs, env)
        slot.v = self.bind(hint, v) if isinstance(v, BV) and not v.atom else v

    def binop_k(self, op, cur, rhs, env):
        env2 = dict(env)
        env2["\0cur"] = Slot(cur)
        return self.binop(op, ("path", ["\0cur"]), rhs, env2, cur.w)

    def hint(self, lhs):
        if lhs[0] == "path":
            return lhs[1][-1]
        if lhs[0] in ("deref", "paren"):
            return self.hint(lhs[1])
        if lhs[0] == "index":
            b = self.hint(lhs[1])
            i = lhs[2]
            return b + (re.sub(r"\W", "", i[1]) if i[0] == "num" else "")
        return "t"

    cfg = ()


LEAN_KEYWORDS = {"end", "at", "from", "to", "in", "fun", "let", "have", "show", "then", "else", "if", "do", "by", "with", "open",
                 "def", "theorem", "structure", "where", "match", "instance", "class", "local", "variable", "universe", "section",
                 "namespace", "import", "export", "private", "protected", "mutual", "macro", "syntax", "notation", "prefix",
                 "infix", "infixl", "infixr", "postfix", "deriving", "extends", "for", "return", "t", "e"}
LEAN_KEYWORDS -= {"t", "e"}


# ------------------------------------------------------------------------------------------------ driver
def flatten(v, out, ex):
    v = ex.deref_all(v)
    if isinstance(v, ResV):
        b_ = v.is_err  # `Result<(), E>` decided by data: a `Bool`, `true` = `Err(_)`
        if b_.const is None and not isinstance(b_, BoolV):
            raise Unsupported("Result: the variant is not a bool")
        out.append(b_ if b_.const is None else BoolV("true" if b_.const else "false", atom=True))
    elif isinstance(v, BV):
        out.append(v)
    elif isinstance(v, Lanes):
        out.append(ex.bind("reg", ex.lanes_value(v)))
    elif isinstance(v, Arr):
        for s in v.slots:
            if s.v is None:
                raise Unsupported("an output element is never written")
            flatten(s.v, out, ex)
    elif isinstance(v, Struct):
        for s in v.fields.values():
            flatten(s.v, out, ex)
    elif v is None:
        pass
    else:
        raise Unsupported(f"cannot return {type(v).__name__}")


def translate(crate, path, fname, lean_name, lens=None, cfg=(), extra_files=(), doc="", packed=(), outs_only=(), pack_out=0, generics=None, self_ty=None, fields=None, types=None, fixed=None, noself=False, defs=None):
    """returns (lean text, signature description) or raises Unsupported"""
    fns, consts, aliases, errs = find_functions(os.path.join(REPO, path), cfg)
    # siblings: every other source file of the crate (the file of the function itself takes precedence)
    src_root = os.path.join(REPO, path.split("/src/")[0], "src")
    sib = []
    for dp, dn, fn_ in sorted(os.walk(src_root)):
        for f in sorted(fn_):
            p = os.path.relpath(os.path.join(dp, f), REPO)
            if f.endswith(".rs") and p != path and p not in extra_files:
                sib.append(p)
    same_dir = [p for p in sib if os.path.dirname(p) == os.path.dirname(path)]
    for xf in list(extra_files) + same_dir + [p for p in sib if p not in same_dir]:
        f2, c2, a2, e2 = find_functions(os.path.join(REPO, xf), cfg)
        for k, v in f2.items():
            fns.setdefault(k, v)
        for k, v in c2.items():
            consts.setdefault(k, v)
        for k, v in a2.items():
            aliases.setdefault(k, v)
    if fname not in fns:
        raise Unsupported(f"function {fname} not found in {path}" + (f" (parse error: {errs[fname]})" if fname in errs else ""))
    fn = fns[fname]
    for k_, v_ in (types or {}).items():
        aliases[k_] = P(lex(v_)).ty()
    ex = Exec(fns, consts, aliases, lens, crate=crate.replace("-", "_"), packed={k: True for k in packed}, outs_only=outs_only)
    ex.cfg = cfg
    ex.lean_name = lean_name
    ex.field_consts = dict(fields or {})
    ex.generics = dict(generics or {})
    ex.self_ty = self_ty or getattr(fn, "owner", None)
    ex.defs = dict(defs or {})
    inputs, env, muts = [], {}, []
    for pat, t in fn.params:
        pname = pat[1] if pat[0] == "pid" else (pat[1][1] if pat[0] == "pref" and pat[1][0] == "pid" else "p")
        if noself and t[0] == "self":
            # a method that does not read `self` (`Idea::mul`): no arguments for the fields; any access is Unsupported
            env["self"] = Slot(Struct(ex.self_ty, {}))
            continue
        rt = ex.resolve(t)
        if fixed and pname in fixed and rt[0] == "name" and rt[1] in WIDTH:
            # an integer parameter fixed to a constant for this target (e.g. RC2's `eff_key_len`)
            ex.bind_pat(pat, BV(WIDTH[rt[1]], const=int(fixed[pname])), env)
            continue
        v = ex.param_value(pname, t, inputs)
        if rt[0] == "ref" and rt[1]:
            muts.append(v)
        if isinstance(v, InOutV):
            muts.append(v.out)
            if not pack_out:
                pack_out = len(v.out.slots)
        if t[0] == "self":
            if t[2] and t[1]:
                muts.append(v)
            env["self"] = Slot(v)
            continue
        ex.bind_pat(pat, v, env)
    ex.fn_stack.append(fn.name)
    ex.frames[0].env0 = dict(env)
    rt_ = ex.resolve(fn.ret) if fn.ret is not None else None
    ex.frames[0].ret_w = WIDTH.get(rt_[1]) if rt_ and rt_[0] == "name" else None
    ex.path_stack.append(getattr(fn, "path", None))
    if fn.body and fn.body[-1][0] == "expr" and not fn.body[-1][2] and fn.ret is not None:
        ex.want_ty[id(fn.body[-1][1])] = fn.ret
    try:
        r = ex.run_block(fn.body, env)
    except Return as ret:
        r = ret.v
    if ex.frames[0].early:
        r = ex.finish_frame(ex.frames[0], r)
    outs = []
    for m in muts:
        flatten(m, outs, ex)
    flatten(r, outs, ex)
    if not outs:
        raise Unsupported("function has no outputs")
    if any(o.signed for o in outs):
        raise Unsupported("signed integer output")
    if pack_out:
        if len(outs) % pack_out or any(o.w != 8 for o in outs):
            raise Unsupported("pack_out: outputs are not groups of bytes")
        outs = [BV(8 * pack_out, " ++ ".join(o.par() for o in outs[i:i + pack_out]), atom=False) for i in range(0, len(outs), pack_out)]
    args = " ".join(f"({n} : BitVec {w})" for n, w in inputs)
    rty = " × ".join("Bool" if o.isbool else f"BitVec {o.w}" for o in outs)
    res = "(" + ", ".join(o.lean() for o in outs) + ")" if len(outs) > 1 else outs[0].lean()
    cfgtxt = f" under cfg {list(cfg)}" if cfg else ""
    auxtxt = ""
    for vals, nm in ex.aux.items():
        rows = [", ".join(f"{v:#x}" for v in vals[i:i + 16]) for i in range(0, len(vals), 16)]
        auxtxt += (f"/-- a constant table computed by the source (const fn / associated const) and read with a data-dependent index in `{fname}` -/\n"
                   f"def {nm} : Array Nat := #[\n  " + ",\n  ".join(rows) + "]\n\n")
    for nm, chunks in ex.aux_mem.items():
        auxtxt += (f"/-- a constant byte array of the source read through data-dependent pointers in `{fname}`: chunks of 256 little-endian 128-bit words -/\n"
                   f"def {nm} : List (Array Nat) := [{', '.join(chunks)}]\n\n")
    big = "set_option maxHeartbeats 4000000 in\n" if len(ex.lines) > 10000 else ""  # very long `let` chains exceed the default elaboration budget
    text = auxtxt + f"{big}/-- `{path}`: `fn {fname}`{cfgtxt}{doc} -/\ndef {lean_name} {args} : {rty} :=\n" + "\n".join(ex.lines) + ("\n" if ex.lines else "") + f"  {res}\n"
    return text, {"inputs": inputs, "outputs": [o.w for o in outs]}


# ------------------------------------------------------------------------------------------------ targets
def T(crate, path, fn, lean=None, **kw):
    return dict(crate=crate, path=path, fn=fn, lean=lean or f"{crate.replace('-', '_')}_{fn}", **kw)


FS64 = "aes/src/soft/fixslice64.rs"
FS32 = "aes/src/soft/fixslice32.rs"


def fixslice_targets(path, pre, w):
    st = dict(lens={"state": 8, "rkey": 8})
    out = []
    for f in ["sub_bytes", "inv_sub_bytes", "sub_bytes_nots", "shift_rows_1", "shift_rows_2", "shift_rows_3",
              "inv_shift_rows_1", "inv_shift_rows_2", "inv_shift_rows_3", "add_round_key"] + \
             [f"{p}mix_columns_{i}" for i in range(4) for p in ("", "inv_")]:
        out.append(T("aes", path, f, f"{pre}_{f}", **st))
    for f in ["rotate_rows_1", "rotate_rows_2", "rotate_rows_and_columns_1_1", "rotate_rows_and_columns_1_2",
              "rotate_rows_and_columns_1_3", "rotate_rows_and_columns_2_2", "delta_swap_1", "delta_swap_2"]:
        out.append(T("aes", path, f, f"{pre}_{f}"))
    n_in = 4 if w == 64 else 2
    out.append(T("aes", path, "bitslice", f"{pre}_bitslice", lens={"output": 8, **{f"input{i}": 16 for i in range(n_in)}},
                 packed=tuple(f"input{i}" for i in range(n_in)), outs_only=("output",)))
    return out


TARGETS = (
    [T("des", "des/src/utils.rs", f, extra_files=("des/src/consts.rs",)) for f in
     ["pc1", "pc2", "fp", "ip", "e", "p", "apply_sboxes", "f", "round"]]
    + fixslice_targets(FS64, "fs64", 64) + fixslice_targets(FS32, "fs32", 32)
    + [T("serpent", "serpent/src/bitslice.rs", f) for f in
       ["linear_transform", "linear_transform_inv"] + [f"sbox_{d}{i}" for d in "ed" for i in range(8)]]
    + [T("serpent", "serpent/src/lib.rs", "xor")]
    + [T("serpent", "serpent/src/lib.rs", "read_words", packed=("src",)),
       T("serpent", "serpent/src/lib.rs", "write_words", outs_only=("dst",), pack_out=16)]
    + [T("gift", "gift/src/primitives.rs", f) for f in
       ["byte_ror_2", "byte_ror_4", "byte_ror_6", "half_ror_4", "half_ror_8", "half_ror_12", "nibble_ror_1", "nibble_ror_2",
        "nibble_ror_3", "sbox", "inv_sbox"]]
    + [T("gift", "gift/src/primitives.rs", "packing", lens={"state": 4}, outs_only=("state",), packed=("input",)),
       T("gift", "gift/src/primitives.rs", "unpacking", lens={"state": 4}, outs_only=("output",), pack_out=16),
       T("gift", "gift/src/primitives.rs", "quintuple_round", lens={"rkey": 10, "rconst": 5}),
       T("gift", "gift/src/primitives.rs", "inv_quintuple_round", lens={"rkey": 10, "rconst": 5})]
    + [T("gift", "gift/src/key_schedule.rs", f, extra_files=("gift/src/primitives.rs",)) for f in
       ["rearrange_rkey_0", "rearrange_rkey_1", "rearrange_rkey_2", "rearrange_rkey_3", "key_update", "key_triple_update_0",
        "key_double_update_1", "key_triple_update_1", "key_double_update_2", "key_triple_update_2", "key_double_update_3",
        "key_triple_update_3", "key_double_update_4", "key_triple_update_4"]]
    + [T("sm4", "sm4/src/lib.rs", f, extra_files=("sm4/src/consts.rs",)) for f in ["tau", "el", "el_prime", "t", "t_prime"]]
    + [T("threefish", "threefish/src/lib.rs", f) for f in ["mix", "inv_mix"]]
)


def M(crate, path, ty, pre, methods=("encrypt_block", "decrypt_block"), **kw):
    return [T(crate, path, f"{ty}::{m}", f"{pre}_{m}", **kw) for m in methods]


SPECK = ["Speck32_64", "Speck48_72", "Speck48_96", "Speck64_96", "Speck64_128", "Speck96_96", "Speck96_144", "Speck128_128",
         "Speck128_192", "Speck128_256"]
CIPHER_TARGETS = (
    M("xtea", "xtea/src/lib.rs", "Xtea", "xtea")
    + M("sm4", "sm4/src/lib.rs", "Sm4", "sm4")
    + sum([M("magma", "magma/src/lib.rs", "Gost89", "gost89_" + sb.lower(), generics={"S": sb})
           for sb in ["Tc26", "TestSbox", "CryptoProA", "CryptoProB", "CryptoProC", "CryptoProD"]], [])
    + M("camellia", "camellia/src/lib.rs", "Camellia", "camellia_rk26", generics={"RK": 26})
    + M("camellia", "camellia/src/lib.rs", "Camellia", "camellia_rk34", generics={"RK": 34})
    + M("aria", "aria/src/lib.rs", "Aria", "aria_rk13", generics={"RK": 13})
    + M("aria", "aria/src/lib.rs", "Aria", "aria_rk15", generics={"RK": 15})
    + M("aria", "aria/src/lib.rs", "Aria", "aria_rk17", generics={"RK": 17})
    + M("des", "des/src/des.rs", "Des", "des")
    + sum([M("des", "des/src/tdes.rs", t, t.lower()) for t in ["TdesEde3", "TdesEde2", "TdesEee3", "TdesEee2"]], [])
    + M("cast5", "cast5/src/lib.rs", "Cast5", "cast5_16r", fields={"small_key": 0})
    + M("cast5", "cast5/src/lib.rs", "Cast5", "cast5_12r", fields={"small_key": 1})
    + M("cast6", "cast6/src/lib.rs", "Cast6", "cast6")
    + M("rc2", "rc2/src/lib.rs", "Rc2", "rc2")
    + M("serpent", "serpent/src/lib.rs", "Serpent", "serpent")
    + M("serpent", "serpent/src/lib.rs", "Serpent", "serpent_loop", cfg=("serpent_no_unroll",))
    + M("gift", "gift/src/lib.rs", "Gift128", "gift128")
    + sum([M("speck", "speck/src/lib.rs", t, t.lower()) for t in SPECK], [])
    + M("belt-block", "belt-block/src/cipher_impl.rs", "BeltBlock", "beltblock")
    + sum([M("threefish", "threefish/src/lib.rs", t, t.lower(), methods=("encrypt_block_u64", "decrypt_block_u64"))
           for t in ["Threefish256", "Threefish512", "Threefish1024"]], [])
)

KUZ_C = "kuznyechik/src/compact_soft/backends.rs"
KUZ_S = "kuznyechik/src/big_soft/backends.rs"
CIPHER_TARGETS = CIPHER_TARGETS + [
    T("kuznyechik", KUZ_C, "EncBackend::encrypt_block", "kuznyechik_compact_encrypt_block", packed=("self_0",)),
    T("kuznyechik", KUZ_C, "DecBackend::decrypt_block", "kuznyechik_compact_decrypt_block", packed=("self_0",)),
    # big_soft: the fused tables (two const fns, 16 x 256 x 16 bytes each) are evaluated by the translator (~40 s per function)
    T("kuznyechik", KUZ_S, "EncBackend::encrypt_block", "kuznyechik_soft_encrypt_block", file="Kuznyechik_soft"),
    T("kuznyechik", KUZ_S, "DecBackend::decrypt_block", "kuznyechik_soft_decrypt_block", file="Kuznyechik_soft"),
    # the helpers of the compact backend as functions of their own
    T("kuznyechik", KUZ_C, "lsx", "kuznyechik_compact_lsx", packed=("block", "key"), pack_out=16, file="Kuznyechik_fn"),
    T("kuznyechik", KUZ_C, "lsx_inv", "kuznyechik_compact_lsx_inv", packed=("block", "key"), pack_out=16, file="Kuznyechik_fn"),
] + [T("kuznyechik", "kuznyechik/src/utils.rs", "l_step", f"kuznyechik_l_step_{i}", packed=("msg",), pack_out=16, fixed={"i": i}, file="Kuznyechik_fn")
     for i in range(16)]


def generate(out_dir=OUT, targets=TARGETS, fname="Funcs.lean"):
    """writes Gen/Funcs.lean; returns the list of broken targets"""
    extra_imports = sorted({i for t in targets for i in t.get("imports", ())})
    parts = ["/- GENERATED by /verif/translator/funcs.py from /repo — do not edit. -/",
             "import BlockCiphers.Gen.Tables", "import BlockCiphers.Prelude.GenTypes"] + [f"import {i}" for i in extra_imports] + ["set_option maxRecDepth 100000", "set_option linter.unusedVariables false", "namespace BC.Gen.Fn", ""]
    broken = []
    for t in targets:
        kw = {k: v for k, v in t.items() if k not in ("crate", "path", "fn", "lean", "imports", "file")}
        try:
            text, sig = translate(t["crate"], t["path"], t["fn"], t["lean"], **kw)
            parts.append(text)
        except Unsupported as e:
            broken.append(f"funcs:{t['lean']}: {e}")
            parts.append(f"-- BROKEN {t['lean']}: {e}\n")
        except (FileNotFoundError, RecursionError, KeyError, IndexError, TypeError, AttributeError, ValueError) as e:
            broken.append(f"funcs:{t['lean']}: {type(e).__name__} {e}")
            parts.append(f"-- BROKEN {t['lean']}: {type(e).__name__}\n")
    parts.append("end BC.Gen.Fn")
    new = "\n".join(parts) + "\n"
    path = os.path.join(out_dir, fname)
    old = open(path).read() if os.path.exists(path) else None
    if old != new:
        open(path, "w").write(new)
    return broken


def K(crate, path, fn, lean, **kw):
    kw.setdefault("packed", ("key", "tweak"))
    return [T(crate, path, fn, lean, **kw)]


KEY_TARGETS = (
    K("xtea", "xtea/src/lib.rs", "Xtea::new_from_slice", "xtea_new_from_slice_16", lens={"key": 16})
    + K("xtea", "xtea/src/lib.rs", "Xtea::new", "xtea_new")
    + K("sm4", "sm4/src/lib.rs", "Sm4::new", "sm4_new")
    + K("magma", "magma/src/lib.rs", "Gost89::new", "gost89_new", generics={"S": "Tc26"})
    + K("des", "des/src/utils.rs", "gen_keys", "des_gen_keys")
    + K("des", "des/src/des.rs", "Des::new", "des_new")
    + sum([K("des", "des/src/tdes.rs", f"{t}::new", f"{t.lower()}_new") for t in ["TdesEde3", "TdesEde2", "TdesEee3", "TdesEee2"]], [])
    + K("gift", "gift/src/key_schedule.rs", "precompute_rkeys", "gift_precompute_rkeys")
    + K("gift", "gift/src/lib.rs", "Gift128::new", "gift128_new")
    + sum([K("serpent", "serpent/src/lib.rs", "Serpent::new_from_slice", f"serpent_new_from_slice_{n}", lens={"key": n}) for n in (16, 17, 19, 24, 31, 32)], [])
    + K("belt-block", "belt-block/src/cipher_impl.rs", "BeltBlock::new", "beltblock_new")
    + sum([K("cast6", "cast6/src/lib.rs", "Cast6::new_from_slice", f"cast6_new_from_slice_{n}", lens={"key": n}) for n in (16, 20, 24, 28, 32)], [])
    + K("aria", "aria/src/aria128.rs", "Aria128::new", "aria128_new")
    + K("aria", "aria/src/aria192.rs", "Aria192::new", "aria192_new")
    + K("aria", "aria/src/aria256.rs", "Aria256::new", "aria256_new")
    + K("camellia", "camellia/src/camellia128.rs", "Camellia128::new", "camellia128_new", lens={"#key": 16})
    + K("camellia", "camellia/src/camellia192.rs", "Camellia192::new", "camellia192_new", lens={"#key": 24})
    + K("camellia", "camellia/src/camellia256.rs", "Camellia256::new", "camellia256_new", lens={"#key": 32})
    + sum([K("threefish", "threefish/src/lib.rs", f"{t}::new_with_tweak", f"{t.lower()}_new_with_tweak") for t in ["Threefish256", "Threefish512", "Threefish1024"]], [])
)

KEY_TARGETS = KEY_TARGETS + (
    K("kuznyechik", "kuznyechik/src/compact_soft/mod.rs", "EncKeys::new", "kuznyechik_compact_enckeys_new", pack_out=16)
    + K("kuznyechik", "kuznyechik/src/big_soft/mod.rs", "EncKeys::new", "kuznyechik_soft_enckeys_new", file="Kuznyechik_soft")
    + K("kuznyechik", KUZ_S, "inv_enc_keys", "kuznyechik_soft_inv_enc_keys", file="Kuznyechik_soft")
)
KEY_TARGETS = KEY_TARGETS + (
    sum([K("speck", "speck/src/lib.rs", f"{t}::new", f"{t.lower()}_new") for t in SPECK], [])
    + sum([K("cast5", "cast5/src/lib.rs", "Cast5::new_from_slice", f"cast5_new_from_slice_{n}", lens={"key": n}) for n in (5, 10, 11, 16)], [])
    + sum([K("rc2", "rc2/src/lib.rs", "Rc2::new_from_slice", f"rc2_new_from_slice_{n}", lens={"key": n}) for n in (1, 5, 8, 16)], [])
    + sum([K("rc2", "rc2/src/lib.rs", "Rc2::new_with_eff_key_len", f"rc2_new_with_eff_key_len_{n}_{e}", lens={"key": n}, fixed={"eff_key_len": e})
           for n, e in ((8, 63), (16, 64), (16, 128), (5, 40))], [])
)

AES_T = {"BatchBlocks": "[[u8; 16]; FIXN]", "Block": "[u8; 16]"}


def aes_targets(path, pre, nblk, cfg=()):
    types = {k: v.replace("FIXN", str(nblk)) for k, v in AES_T.items()}
    sfx = "_compact" if cfg else ""
    out = []
    for n, kb in ((128, 16), (192, 24), (256, 32)):
        out.append(T("aes", path, f"aes{n}_key_schedule", f"{pre}_aes{n}_key_schedule{sfx}", packed=("key",), cfg=cfg, types=types))
        for d in ("encrypt", "decrypt"):
            out.append(T("aes", path, f"aes{n}_{d}", f"{pre}_aes{n}_{d}{sfx}", packed=("blocks",), pack_out=16, cfg=cfg, types=types))
    return out


AES_FILES = {
    "Aes_Fs64": aes_targets(FS64, "fs64", 4),
    "Aes_Fs64c": aes_targets(FS64, "fs64", 4, cfg=("aes_compact",)),
    "Aes_Fs32": aes_targets(FS32, "fs32", 2),
    "Aes_Fs32c": aes_targets(FS32, "fs32", 2, cfg=("aes_compact",)),
}


NI_T = {"Block": "[u8; 16]", "Block8": "[[u8; 16]; 8]"}
X86I = ("BlockCiphers.Prelude.X86Intrinsics",)
ARMI = ("BlockCiphers.Prelude.ArmIntrinsics",)


def intrinsics_targets(dir_, pre, imports, par, expand, inv):
    """AES-NI / ARMv8 back ends of the aes crate: enc/dec (single block and ParBlocks blocks) for KEYS = 11/13/15 round
    keys, the key expansions, the inverse key schedule, the hazmat functions.  Round keys: one `BitVec 128` (register
    image) each; blocks and keys: one `BitVec (8n)` each, byte 0 most significant."""
    kw = dict(types=NI_T, imports=imports)
    out = []
    for keys in (11, 13, 15):
        for d in ("encrypt", "decrypt"):
            out.append(T("aes", f"aes/src/{dir_}/encdec.rs", d, f"{pre}_{d}_{keys}", generics={"KEYS": keys}, pack_out=16, **kw))
    out += expand(kw)
    for keys in (11, 13, 15):
        out.append(T("aes", f"aes/src/{dir_}/expand.rs", inv, f"{pre}_{inv}_{keys}", generics={"N": keys}, **kw))
    for keys in (11, 13, 15):
        for d in ("encrypt_par", "decrypt_par"):
            out.append(T("aes", f"aes/src/{dir_}/encdec.rs", d, f"{pre}_{d}_{keys}", generics={"KEYS": keys, "ParBlocks": par[keys]}, pack_out=16, **kw))
    hz = f"aes/src/{dir_}/hazmat.rs"
    for f in ("cipher_round", "equiv_inv_cipher_round"):
        out.append(T("aes", hz, f, f"{pre}_hazmat_{f}", packed=("block", "round_key"), pack_out=16, **kw))
        out.append(T("aes", hz, f + "_par", f"{pre}_hazmat_{f}_par", packed=("blocks", "round_keys"), pack_out=16, **kw))
    for f in ("mix_columns", "inv_mix_columns"):
        out.append(T("aes", hz, f, f"{pre}_hazmat_{f}", packed=("block",), pack_out=16, **kw))
    return out


AES_FILES["Aes_Ni"] = intrinsics_targets(
    "ni", "ni", X86I, {11: 9, 13: 9, 15: 9},
    lambda kw: [T("aes", "aes/src/ni/expand.rs", f"aes{n}_expand_key", f"ni_aes{n}_expand_key", packed=("key",), **kw) for n in (128, 192, 256)],
    "inv_keys")
AES_FILES["Aes_Armv8"] = intrinsics_targets(
    "armv8", "armv8", ARMI, {11: 21, 13: 19, 15: 17},
    lambda kw: [T("aes", "aes/src/armv8/expand.rs", "expand_key", f"armv8_expand_key_{l}_{n}", packed=("key",), generics={"L": l, "N": n}, **kw)
                for l, n in ((16, 11), (24, 13), (32, 15))],
    "inv_expanded_keys")


# ---- functions with data-dependent `if` / `match` / `while` (select) -------------------------------------------------
IDEA = "idea/src/lib.rs"
TWO = "twofish/src/lib.rs"
IDEA_DEFS = {"Idea::mul": ("idea_mul", ()), "Idea::add": ("idea_add", ())}
TWO_DEFS = {"gf_mult": ("twofish_gf_mult", ()), "sbox": ("twofish_sbox_{i}", ("i",)),
            "mds_column_mult": ("twofish_mds_column_mult_{column}", ("column",))}
FN_FILES = {
    "Fn_Idea": [T("idea", IDEA, "Idea::mul", "idea_mul", noself=True), T("idea", IDEA, "Idea::add", "idea_add", noself=True),
                T("idea", IDEA, "Idea::add_inv", "idea_add_inv", noself=True)],
    "Fn_Weak": (
        [T("aes", "aes/src/lib.rs", "weak_key_test", f"aes_weak_key_test_{n}", generics={"N": n}, packed=("key",)) for n in (16, 24, 32)]
        + [T("des", "des/src/lib.rs", "same_des_key"), T("des", "des/src/lib.rs", "::weak_key_test", "des_weak_key_test"),
           T("des", "des/src/des.rs", "Des::weak_key_test", "des_des_weak_key_test", packed=("key",))]
        + [T("des", "des/src/tdes.rs", f"{t}::weak_key_test", f"des_{t.lower()}_weak_key_test", packed=("key",))
           for t in ["TdesEde3", "TdesEde2", "TdesEee3", "TdesEee2"]]),
    "Fn_Twofish": (
        [T("twofish", TWO, "gf_mult")]
        + [T("twofish", TWO, "sbox", f"twofish_sbox_{i}", fixed={"i": i}, extra_files=("twofish/src/consts.rs",)) for i in (0, 1)]
        + [T("twofish", TWO, "mds_column_mult", f"twofish_mds_column_mult_{c}", fixed={"column": c}, defs=TWO_DEFS) for c in range(4)]
        + [T("twofish", TWO, "mds_mult", defs=TWO_DEFS),
           T("twofish", TWO, "rs_mult", lens={"m": 8, "out": 4}, outs_only=("out",), defs=TWO_DEFS)]
        + [T("twofish", TWO, "h", f"twofish_h_{k}_{o}", lens={"m": 8 * k}, packed=("m",), fixed={"k": k, "offset": o}, defs=TWO_DEFS)
           for k in (2, 3, 4) for o in (0, 1)]),
}
AES_FILES.update(FN_FILES)
CIPHER_TARGETS = CIPHER_TARGETS + M("idea", IDEA, "Idea", "idea", defs=IDEA_DEFS, imports=("BlockCiphers.Gen.Fn_Idea",))
KEY_TARGETS = KEY_TARGETS + K("idea", IDEA, "Idea::expand_key", "idea_expand_key")
# Twofish: `start` (0, 1, 2 for 32-, 24-, 16-byte keys) selects the q-boxes of `g_func`: one definition per value
CIPHER_TARGETS = CIPHER_TARGETS + sum([M("twofish", TWO, "Twofish", f"twofish_s{st}", fields={"start": st}, defs=TWO_DEFS,
                                         imports=("BlockCiphers.Gen.Fn_Twofish",)) for st in (0, 1, 2)], [])
KEY_TARGETS = KEY_TARGETS + sum([K("twofish", TWO, "Twofish::new_from_slice", f"twofish_new_from_slice_{n}", lens={"key": n}, defs=TWO_DEFS,
                                   imports=("BlockCiphers.Gen.Fn_Twofish",)) for n in (16, 24, 32)], [])


def def_target(lean):
    """the target that generates the definition `lean` (for calls emitted as calls, `defs=`)"""
    for ts in [TARGETS, CIPHER_TARGETS, KEY_TARGETS] + list(AES_FILES.values()):
        for t in ts:
            if t["lean"] == lean:
                return t
    return None
# Kuznyechik, SSE2 and NEON back ends (core::arch intrinsics as externs: Prelude/X86Intrinsics, ArmIntrinsics, KuzIntrinsics;
# the fused tables are read through data-dependent pointers: `BC.Gen.memRead16`).  Round keys: one `BitVec 128` (register
# image) each; blocks / keys: one `BitVec (8n)` each, byte 0 most significant; `*_par_blocks`: ParBlocksSize blocks in, out.
KUZI = ("BlockCiphers.Prelude.KuzIntrinsics",)
for _be in ("sse2", "neon"):
    _bk, _md = f"kuznyechik/src/{_be}/backends.rs", f"kuznyechik/src/{_be}/mod.rs"
    _kw = dict(file=f"Kuznyechik_{_be}", imports=KUZI)
    CIPHER_TARGETS = CIPHER_TARGETS + [
        T("kuznyechik", _bk, "EncBackend::encrypt_block", f"kuznyechik_{_be}_encrypt_block", **_kw),
        T("kuznyechik", _bk, "DecBackend::decrypt_block", f"kuznyechik_{_be}_decrypt_block", **_kw),
        T("kuznyechik", _bk, "EncBackend::encrypt_par_blocks", f"kuznyechik_{_be}_encrypt_par_blocks", pack_out=16, **_kw),
        T("kuznyechik", _bk, "DecBackend::decrypt_par_blocks", f"kuznyechik_{_be}_decrypt_par_blocks", pack_out=16, **_kw),
    ]
    KEY_TARGETS = KEY_TARGETS + (
        K("kuznyechik", _md, "EncKeys::new", f"kuznyechik_{_be}_enckeys_new", **_kw)
        + K("kuznyechik", _bk, "inv_enc_keys", f"kuznyechik_{_be}_inv_enc_keys", **_kw)
        # the conversions `From<EncKeys> for EncDecKeys` (outputs: enc[0..10], dec[0..10], declaration order) / `for DecKeys`
        + K("kuznyechik", _md, "EncDecKeys::from", f"kuznyechik_{_be}_encdeckeys_from", **_kw)
        + K("kuznyechik", _md, "DecKeys::from", f"kuznyechik_{_be}_deckeys_from", **_kw)
    )


def cipher_files():
    """whole-cipher targets grouped per crate: Gen/Cipher_<Crate>.lean (separate modules build in parallel)"""
    groups = {}
    for t in CIPHER_TARGETS:
        groups.setdefault(t.get("file") or t["crate"].replace("-", "_").capitalize(), []).append(t)
    return groups


def _src_hash(crates):
    import hashlib
    h = hashlib.sha256()
    h.update(open(os.path.abspath(__file__), "rb").read())
    for c in sorted(set(crates)):
        root = os.path.join(REPO, c, "src")
        for dp, dn, fn_ in sorted(os.walk(root)):
            for f in sorted(fn_):
                if f.endswith(".rs"):
                    p_ = os.path.join(dp, f)
                    h.update(p_.encode())
                    h.update(open(p_, "rb").read())
    return h.hexdigest()


def generate_all(out_dir=OUT):
    """all generated files; a file is regenerated only when the sources of its crate(s) or this translator changed
    (hashes in Gen/.funcs_cache.json), so an unchanged tree costs a few hash computations per run"""
    import json
    jobs = [("Funcs.lean", TARGETS)]
    for crate, ts in cipher_files().items():
        jobs.append((f"Cipher_{crate}.lean", ts))
    groups = {}
    for t in KEY_TARGETS:
        groups.setdefault(t.get("file") or t["crate"].replace("-", "_").capitalize(), []).append(t)
    for crate, ts in groups.items():
        jobs.append((f"Keys_{crate}.lean", ts))
    for fname, ts in AES_FILES.items():
        jobs.append((f"{fname}.lean", ts))
    cpath = os.path.join(out_dir, ".funcs_cache.json")
    try:
        cache = json.load(open(cpath))
    except (OSError, ValueError):
        cache = {}
    broken = []
    for fname, ts in jobs:
        hsh = _src_hash([t["crate"] for t in ts])
        ent = cache.get(fname)
        if ent and ent.get("hash") == hsh and os.path.exists(os.path.join(out_dir, fname)):
            broken += ent.get("broken", [])
            continue
        # second-level cache: earlier generations of this file keyed by source hash (switching back and forth between two
        # versions of a crate — a seeded patch applied and removed — must not cost two full translations)
        vdir = os.path.join(out_dir, ".versions")
        vfile = os.path.join(vdir, f"{fname}.{hsh[:24]}")
        if os.path.exists(vfile) and os.path.exists(vfile + ".broken"):
            txt = open(vfile).read()
            dst = os.path.join(out_dir, fname)
            if not os.path.exists(dst) or open(dst).read() != txt:
                open(dst, "w").write(txt)
            b = json.load(open(vfile + ".broken"))
        else:
            b = generate(out_dir, targets=ts, fname=fname)
            try:
                os.makedirs(vdir, exist_ok=True)
                import shutil
                shutil.copyfile(os.path.join(out_dir, fname), vfile)
                json.dump(b, open(vfile + ".broken", "w"))
                olds = sorted((f for f in os.listdir(vdir) if f.startswith(fname + ".") and not f.endswith(".broken")),
                              key=lambda f: os.path.getmtime(os.path.join(vdir, f)))
                for f in olds[:-3]:
                    os.remove(os.path.join(vdir, f))
                    if os.path.exists(os.path.join(vdir, f + ".broken")):
                        os.remove(os.path.join(vdir, f + ".broken"))
            except OSError:
                pass
        cache[fname] = {"hash": hsh, "broken": b}
        broken += b
    try:
        json.dump(cache, open(cpath, "w"))
    except OSError:
        pass
    return broken


if __name__ == "__main__":
    if len(sys.argv) == 1 or sys.argv[1] == "--generate":
        for b in generate_all():
            print("BROKEN " + b)
        sys.exit(0)
    # ad-hoc use: funcs.py <crate> <path> <fn> [name=len ...] [cfg=flag] [extra=file]
    crate, path, fn = sys.argv[1:4]
    lens = {a.split("=")[0]: int(a.split("=")[1]) for a in sys.argv[4:] if "=" in a and not a.startswith(("cfg=", "extra="))}
    cfg = tuple(a[4:] for a in sys.argv[4:] if a.startswith("cfg="))
    extra = tuple(a[6:] for a in sys.argv[4:] if a.startswith("extra="))
    lens = {k: v for k, v in lens.items() if k not in ("cfg", "extra")}
    t, sig = translate(crate, path, fn, f"{crate}_{fn}", lens, cfg, extra)
    print(t)
