#!/usr/bin/env python3
"""Kuznyechik NEON shadow: cross-check and model correspondence (DESIGN §4.4, C01/C03/C04/C07/C12/C15/C16/C19).

  neon_corr.py <harness-binary> [<driver-binary>] [--seed N] [--scale K] [--zeroize] [--keep DIR]

1. CROSS-CHECK (no model involved): every generated line that names NeonKuznyechik[Enc|Dec] is run twice through the
   harness — as is (the repository's NEON text over the software intrinsics) and with the name replaced by
   Kuznyechik[Enc|Dec] (the crate as built natively: SSE2 on this host) — and the outputs must be byte-identical.
   Direct oracle in addition: rt lines must round-trip, encs/decs must report in=ok canary=ok.
2. MODEL CORRESPONDENCE (if a driver binary is given): the same lines, plus the function-level lines
   (neonfn / neonks / neonpar / neonintr) and the parallel-path lines (harness `encs/decs … inplace 0` against the
   model's `neonblocks` and `kuz neon`, `neonks` against `kuzks neon`), through the harness and the Lean driver,
   byte-identical.
--zeroize: the harness binary was built with `--features zeroize`; adds zero/zroute lines (harness only: cross-check
   against the native types, and the direct oracle "every key-dependent byte is 0 after drop").
Exit status 0 = everything agrees.
"""
import os
import subprocess
import sys
import tempfile

T = ["NeonKuznyechik", "NeonKuznyechikEnc", "NeonKuznyechikDec"]
SHAPES = ["inplace", "b2b", "inout", "inout1", "single", "b2b1"]
ROUTES = ["c.new", "e.new", "d.new", "c.from_e", "c.from_eref", "d.from_e", "d.from_eref", "c.clone", "e.clone",
          "d.clone", "c.clone_from_e", "d.clone_from_e", "c.from_eclone", "d.from_eclone"]
ZROUTES = ["c.from_e", "c.from_eref", "d.from_e", "d.from_eref", "c.clone_from_e", "d.clone_from_e"]


class Rng:  # xorshift64*, deterministic
    def __init__(self, seed):
        self.s = (seed * 0x9E3779B97F4A7C15 + 0x1234567) & (2**64 - 1) or 1

    def u64(self):
        s = self.s
        s ^= s >> 12
        s ^= (s << 25) & (2**64 - 1)
        s ^= s >> 27
        self.s = s
        return (s * 0x2545F4914F6CDD1D) & (2**64 - 1)

    def below(self, n):
        return self.u64() % n

    def choice(self, l):
        return l[self.below(len(l))]

    def bytes(self, n):
        return bytes(self.below(256) for _ in range(n))


def hx(b):
    return b.hex() if b else "-"


def structured(r, n):
    """n bytes: random or one of the structured patterns"""
    k = r.below(12)
    if k == 0:
        return bytes(n)
    if k == 1:
        return b"\xff" * n
    if k == 2:
        b = bytearray(n)
        if n:
            b[r.below(n)] = 1 << r.below(8)
        return bytes(b)
    if k == 3:
        return bytes([r.below(256)]) * n
    if k == 4:  # bytes around the 64-byte quarter boundaries of the TBL look-ups and the carries of vsubq_u8
        return bytes(r.choice([0, 1, 15, 16, 31, 32, 47, 48, 63, 64, 65, 127, 128, 129, 191, 192, 193, 254, 255]) for _ in range(n))
    if k == 5:
        return bytes((i * 17 + r.below(3)) & 255 for i in range(n))
    if k == 6:
        b = bytearray(b"\xff" * n)
        if n:
            b[r.below(n)] ^= 1 << r.below(8)
        return bytes(b)
    return r.bytes(n)


GOST_KEY = bytes.fromhex("8899aabbccddeeff0011223344556677fedcba98765432100123456789abcdef")
GOST_PT = bytes.fromhex("1122334455667700ffeeddccbbaa9988")
GOST_CT = bytes.fromhex("7f679d90bebc24305a468d42b9d4edcd")


def gen_generic(r, scale):
    ops = []
    # key-length contract: every length 0..64 on the three types, plus a few large ones
    for t in T:
        for n in list(range(0, 65)) + [96, 255, 256, 1024]:
            ops.append(f"new {t} {hx(structured(r, n))}")
    for t in T:
        for _ in range(10 * scale):
            ops.append(f"new {t} {hx(structured(r, 32))}")
    # known answer
    ops.append(f"enc NeonKuznyechik {hx(GOST_KEY)} {hx(GOST_PT)}")
    ops.append(f"dec NeonKuznyechik {hx(GOST_KEY)} {hx(GOST_CT)}")
    ops.append(f"enc NeonKuznyechikEnc {hx(GOST_KEY)} {hx(GOST_PT)}")
    ops.append(f"dec NeonKuznyechikDec {hx(GOST_KEY)} {hx(GOST_CT)}")
    for _ in range(260 * scale):
        k, b = structured(r, 32), structured(r, 16)
        op = r.choice(["enc", "dec", "rt", "enc", "dec"])
        # mostly a type that supports the direction; 1 in 12 any type (`unsupported` must agree as well)
        t = r.choice(T) if r.below(12) == 0 else r.choice({"enc": [T[0], T[1]], "dec": [T[0], T[2]], "rt": [T[0]]}[op])
        ops.append(f"{op} {t} {hx(k)} {hx(b)}")
    # every byte value in every lane position, through both directions (S-box quarters, table rows)
    for v in range(256):
        b = bytes((v + 13 * i) & 255 for i in range(16))
        ops.append(f"rt NeonKuznyechik {hx(bytes([v]) * 32)} {hx(b)}")
    for _ in range(40 * scale):
        t = r.choice(T)
        k = structured(r, r.choice([32, 32, 32, 32, 32, 32, 31, 33, 16, 0]))
        ops.append(f"{r.choice(['probe', 'probefixed', 'probeclone', 'debug', 'weak', 'newchecked'])} {t} {hx(k)}")
    for t in T:
        ops.append(f"algname {t}")
        ops.append(f"debug {t} {hx(structured(r, 32))}")
        ops.append(f"enc {t} {hx(r.bytes(32))} {hx(r.bytes(15))}")  # bad-op: wrong block length
    # multi-block calls: 0..=19 blocks (ParBlocksSize 8: up to two full batches + tail), all shapes, offsets 0..15
    for t in T:
        for n in range(0, 20):
            for shape in SHAPES:
                for rep in range(scale):
                    d = "encs" if r.below(2) == 0 else "decs"
                    if r.below(8) and t != T[0]:
                        d = "encs" if t == T[1] else "decs"
                    off = r.below(16) if rep or n % 3 else 0
                    data = b"".join(structured(r, 16) for _ in range(n))
                    ops.append(f"{d} {t} {shape} {off} {hx(structured(r, 32))} {hx(data)}")
    for n in [24, 25, 32, 33, 40, 64, 67]:
        for d in ["encs", "decs"]:
            ops.append(f"{d} NeonKuznyechik {r.choice(SHAPES)} {r.below(16)} {hx(r.bytes(32))} {hx(r.bytes(16 * n))}")
    # lanes must not be mixed up: 19 distinct blocks, then the same with two blocks swapped
    k = r.bytes(32)
    blocks = [r.bytes(16) for _ in range(19)]
    ops.append(f"encs NeonKuznyechik inplace 0 {hx(k)} {hx(b''.join(blocks))}")
    blocks[2], blocks[6] = blocks[6], blocks[2]
    ops.append(f"encs NeonKuznyechik inplace 0 {hx(k)} {hx(b''.join(blocks))}")
    # conversion / clone routes (C12)
    for route in ROUTES + ["c.bogus"]:
        for _ in range(4 * scale):
            ops.append(f"route NeonKuznyechik {route} {hx(structured(r, r.choice([32, 32, 32, 32, 31])))}")
    # histories (C15)
    capof = lambda t: "e" if t.endswith("Enc") else ("d" if t.endswith("Dec") else "ed")
    for _ in range(60 * scale):
        ids, cmds, caps = [], [], {}
        for j in range(3 + r.below(14)):
            c = r.below(10)
            if not ids or c == 0:
                i = f"i{len(caps)}"
                t = r.choice(T + ["Kuznyechik", "KuznyechikEnc"])
                cmds.append(f"n:{i}:{t}:{hx(r.bytes(32))}")
                ids.append(i); caps[i] = capof(t)
            elif c == 1:
                i = f"i{len(caps)}"
                route = r.choice(ROUTES)
                cmds.append(f"r:{i}:NeonKuznyechik:{route}:{hx(r.bytes(32))}")
                ids.append(i); caps[i] = {"c": "ed", "e": "e", "d": "d"}[route[0]]
            elif c == 2:
                i = f"i{len(caps)}"
                src = r.choice(ids)
                cmds.append(f"c:{i}:{src}")
                ids.append(i); caps[i] = caps[src]
            elif c == 3 and len(ids) > 1:
                i = ids.pop(r.below(len(ids)))
                cmds.append(f"x:{i}")
            else:
                i = r.choice(ids)
                k = r.choice(["e", "E"] if caps[i] == "e" else ["d", "D"] if caps[i] == "d" else ["e", "d", "E", "D"])
                n = 1 if k in "ed" else 1 + r.below(18)
                cmds.append(f"{k}:{i}:{hx(r.bytes(16 * n))}")
        ops.append("hist " + ";".join(cmds))
    for _ in range(6 * scale):
        ops.append(f"thr {r.choice(T)} {2 + r.below(6)} {hx(r.bytes(32))} {hx(r.bytes(16 * (1 + r.below(12))))}")
    return ops


def gen_zero(r, scale):
    ops = []
    for _ in range(2 * scale):
        for t in T:
            for route in ["new", "clone", "clone2"]:
                ks = " ".join(hx(r.bytes(32)) for _ in range(3))
                ops.append(f"zero {t} {route} {ks}")
        for route in ZROUTES:
            ks = " ".join(hx(r.bytes(32)) for _ in range(3))
            ops.append(f"zroute NeonKuznyechik {route} {ks}")
    return ops


def gen_fn(r, scale):
    """function-level and intrinsic-level lines (harness and driver answer them under the same name)"""
    ops = ["neonpar"]
    for _ in range(120 * scale):
        ops.append(f"neonfn {r.choice(['transform_enc', 'transform_dec', 'sub_bytes_p', 'sub_bytes_pinv'])} {hx(structured(r, 16))}")
    for v in range(0, 256, 1):  # every byte value through both S-box look-ups (all four TBL quarters, all lanes)
        b = bytes((v + 16 * i + (i >> 1)) & 255 for i in range(16))
        ops.append(f"neonfn {'sub_bytes_p' if v % 2 else 'sub_bytes_pinv'} {hx(b)}")
    for pos in range(16):  # one byte position at a time through both fused tables
        for v in [0, 1, 0x80, 0xff, r.below(256)]:
            b = bytearray(16)
            b[pos] = v
            ops.append(f"neonfn transform_enc {hx(bytes(b))}")
            ops.append(f"neonfn transform_dec {hx(bytes(b))}")
    for _ in range(25 * scale):
        ops.append(f"neonks {r.choice('ced')} {hx(structured(r, r.choice([32, 32, 32, 32, 31, 33])))}")
    two = ["veorq_u8", "vorrq_u8", "vsubq_u8", "vzip1q_u8", "vzip2q_u8"]
    for _ in range(40 * scale):
        ops.append(f"neonintr {r.choice(two)} {hx(structured(r, 16))} {hx(structured(r, 16))}")
    for v in [0, 1, 64, 127, 128, 255]:
        ops.append(f"neonintr vdupq_n_u8 {v:02x}")
    for _ in range(40 * scale):
        idx = structured(r, 16)
        ops.append(f"neonintr vqtbl4q_u8 {hx(r.bytes(64))} {hx(idx)}")
        ops.append(f"neonintr vqtbx4q_u8 {hx(r.bytes(16))} {hx(r.bytes(64))} {hx(idx)}")
    tb = bytes(range(100, 164))
    for lo in range(0, 256, 16):  # every index value: in range → table byte, out of range → 0 (TBL) / unchanged (TBX)
        idx = bytes(range(lo, lo + 16))
        ops.append(f"neonintr vqtbl4q_u8 {hx(tb)} {hx(idx)}")
        ops.append(f"neonintr vqtbx4q_u8 {hx(bytes([0xEE] * 16))} {hx(tb)} {hx(idx)}")
    for n in range(16):
        ops.append(f"neonintr vshlq_n_u16 {hx(structured(r, 16))} {n}")
    for n in range(8):
        ops.append(f"neonintr vgetq_lane_u16 {hx(r.bytes(16))} {n}")
    ops.append("neonintr vcombine_u8 0706050403020100 0f0e0d0c0b0a0908")
    for _ in range(6):
        ops.append(f"neonintr vcombine_u8 {r.u64():016x} {r.u64():016x}")
    ops.append(f"neonintr vld1q_u8_x4 {hx(r.bytes(64))}")
    return ops


def gen_par(r, scale):
    """(harness line, model line) pairs: the harness goes through encrypt_/decrypt_par_blocks + tail, the model line
    runs the MODEL of that path (`neonblocks`, and the pre-existing `kuz neon` / `kuzks neon`)"""
    pairs = []
    for n in list(range(0, 20)) + [24, 31, 32, 33]:
        for rep in range(2 * scale):
            k, data = structured(r, 32), b"".join(structured(r, 16) for _ in range(n))
            for t, dirs in (("NeonKuznyechik", ["enc", "dec"]), ("NeonKuznyechikEnc", ["enc"]), ("NeonKuznyechikDec", ["dec"])):
                d = r.choice(dirs)
                pairs.append((f"{d}s {t} inplace 0 {hx(k)} {hx(data)}", f"neonblocks {t} {d} {hx(k)} {hx(data)}", " in=ok canary=ok"))
            d = r.choice(["enc", "dec"])
            pairs.append((f"{d}s NeonKuznyechik b2b {r.below(16)} {hx(k)} {hx(data)}", f"kuz neon {d} {hx(k)} {hx(data)}", " in=ok canary=ok"))
    for _ in range(10 * scale):
        k = structured(r, 32)
        pairs.append((f"neonks e {hx(k)}", f"kuzks neon enc {hx(k)}", ""))
        pairs.append((f"neonks d {hx(k)}", f"kuzks neon dec {hx(k)}", ""))
    return pairs


def run(binary, args, lines, env=None):
    p = subprocess.run([binary] + args, input=("\n".join(lines) + "\n").encode(), stdout=subprocess.PIPE, check=True,
                       env=dict(os.environ, **(env or {})))
    out = p.stdout.decode().split("\n")
    if out and out[-1] == "":
        out.pop()
    if len(out) != len(lines):
        raise SystemExit(f"{binary}: {len(lines)} lines in, {len(out)} lines out")
    return out


def report(title, lines, a, b, la, lb, limit=5):
    bad = [i for i in range(len(lines)) if a[i] != b[i]]
    print(f"{title}: {len(lines)} lines, {len(bad)} differ")
    for i in bad[:limit]:
        print(f"  line: {lines[i][:300]}\n    {la}: {a[i][:300]}\n    {lb}: {b[i][:300]}")
    return len(bad)


def main():
    av = sys.argv[1:]
    seed, scale, zeroize, keep = 1, 1, False, None
    pos = []
    i = 0
    while i < len(av):
        if av[i] == "--seed":
            seed = int(av[i + 1]); i += 2
        elif av[i] == "--scale":
            scale = int(av[i + 1]); i += 2
        elif av[i] == "--zeroize":
            zeroize = True; i += 1
        elif av[i] == "--keep":
            keep = av[i + 1]; i += 2
        else:
            pos.append(av[i]); i += 1
    if not pos:
        raise SystemExit(__doc__)
    harness = pos[0]
    driver = pos[1] if len(pos) > 1 else None
    r = Rng(seed)
    generic = gen_generic(r, scale)
    fails = 0

    # the registry must know the three types with the layout of the native ones
    lst = subprocess.run([harness, "list"], stdout=subprocess.PIPE, check=True).stdout.decode().split("\n")
    reg = {l.split()[0]: l.split()[1:] for l in lst if l.strip()}
    # block length, key size, capabilities as the native type; size_of as on AArch64 (`[uint8x16_t; 10]` = 160 bytes per
    # key set; the native size depends on the backend the host build selected, e.g. 160 for compact_soft `Kuznyechik`)
    for t, size in zip(T, ["320", "160", "160"]):
        if reg.get(t) is None or reg.get(t[4:]) is None or reg[t][:3] != reg[t[4:]][:3] or reg[t][3] != size:
            print(f"registry: {t} {reg.get(t)} vs {t[4:]} {reg.get(t[4:])} (expected size {size})")
            fails += 1

    # 1. cross-check against the natively built crate
    xl = generic + (gen_zero(r, scale) if zeroize else [])
    native = [l.replace("NeonKuznyechik", "Kuznyechik") for l in xl]
    o_neon = run(harness, ["run"], xl)
    o_nat = run(harness, ["run"], native)
    fails += report("cross-check  NEON shadow vs native build", xl, o_neon, o_nat, "neon  ", "native")
    for l, o in zip(xl, o_neon):
        w = l.split(" ")
        if w[0] == "rt" and o not in ("unsupported", "err-len", "bad-op"):
            f = o.split(" ")
            if not (len(f) == 4 and f[1] == w[3] and f[3] == w[3]):
                print(f"  round trip fails: {l} -> {o}"); fails += 1
        if w[0] in ("encs", "decs") and o not in ("unsupported", "err-len", "bad-op") and not o.endswith(" in=ok canary=ok"):
            print(f"  buffer oracle fails: {l[:200]} -> …{o[-30:]}"); fails += 1
        if w[0] in ("zero", "zroute") and not o.startswith("zero size="):
            print(f"  zeroize oracle fails: {l[:120]} -> {o}"); fails += 1
        if o.startswith("panic"):
            print(f"  panic: {l[:200]} -> {o}"); fails += 1
    kat = xl.index(f"enc NeonKuznyechik {hx(GOST_KEY)} {hx(GOST_PT)}")
    if o_neon[kat:kat + 4] != [hx(GOST_CT), hx(GOST_PT), hx(GOST_CT), hx(GOST_PT)]:
        print("  GOST R 34.12-2015 A.1 vector fails"); fails += 1

    # 2. model correspondence
    if driver:
        fn = gen_fn(r, scale)
        ml = generic + fn
        o_h = o_neon[:len(generic)] + run(harness, ["run"], fn)
        o_m = run(driver, [], ml)
        nomodel = sum(1 for x in o_m if x == "nomodel")
        fails += report("model        harness (NEON shadow) vs Lean driver (Neon model)", ml, o_h, o_m, "harness", "model  ")
        if nomodel:
            print(f"  {nomodel} lines answered `nomodel`"); fails += nomodel
        pairs = gen_par(r, scale)
        ph = run(harness, ["run"], [p[0] for p in pairs])
        pm = [m + p[2] for m, p in zip(run(driver, [], [p[1] for p in pairs]), pairs)]
        fails += report("model (par)  harness multi-block path vs model of the parallel path", [p[0] + "  ||  " + p[1][:60] for p in pairs],
                        ph, pm, "harness", "model  ")
        if keep:
            os.makedirs(keep, exist_ok=True)
            open(os.path.join(keep, "ops.txt"), "w").write("\n".join(ml) + "\n")
            open(os.path.join(keep, "harness.out"), "w").write("\n".join(o_h) + "\n")
            open(os.path.join(keep, "model.out"), "w").write("\n".join(o_m) + "\n")
    print("RESULT:", "ok" if fails == 0 else f"{fails} FAILURES")
    sys.exit(0 if fails == 0 else 1)


if __name__ == "__main__":
    main()
