//! C16 direct oracle: which bytes of an instance depend on the key, and are they zero after drop?
//!
//! A position is *key-dependent* iff its value changes with the key under both stack paints and,
//! for every key, does not change with the paint (this separates key material from uninitialised
//! padding that merely holds stale stack contents).  All keys are presented in one static buffer at
//! one address so that stale pointers to the key do not look key-dependent.
use crate::{Entry, MaybeClone};
use cipher::KeyInit;
use std::hint::black_box;
use std::mem::{MaybeUninit, size_of};

pub struct Snap {
    pub before: Vec<u8>,
    pub after: Vec<u8>,
}

static mut KEYBUF: [u8; 512] = [0; 512];

#[inline(never)]
pub fn paint_stack(p: u8) {
    let mut a = [p; 32768];
    black_box(&mut a);
}

#[inline(never)]
pub fn read_bytes<T>(p: *const T) -> Vec<u8> {
    let n = size_of::<T>();
    let q = p as *const u8;
    (0..n).map(|i| unsafe { std::ptr::read_volatile(q.add(i)) }).collect()
}

/// Build a `T` through `make`, snapshot its bytes, drop it in place, snapshot again.
#[inline(never)]
pub fn snap_with<T>(paint: u8, make: impl FnOnce() -> Option<T>) -> Option<Snap> {
    let mut slot: Box<MaybeUninit<T>> = Box::new(MaybeUninit::uninit());
    unsafe { std::ptr::write_bytes(slot.as_mut_ptr() as *mut u8, paint, size_of::<T>()) };
    paint_stack(paint);
    let v = make()?;
    slot.write(v);
    let before = read_bytes(slot.as_ptr());
    unsafe { std::ptr::drop_in_place(slot.as_mut_ptr()) };
    let after = read_bytes(slot.as_ptr());
    Some(Snap { before, after })
}

pub fn stage_key(k: &[u8]) -> &'static [u8] {
    unsafe {
        let buf = &mut *std::ptr::addr_of_mut!(KEYBUF);
        buf[..k.len()].copy_from_slice(k);
        &buf[..k.len()]
    }
}

pub fn probe<T: KeyInit + MaybeClone>(k: &[u8], route: &str, paint: u8) -> Option<Snap> {
    let key = stage_key(k);
    match route {
        "new" => snap_with::<T>(paint, || T::new_from_slice(key).ok()),
        "clone" => snap_with::<T>(paint, || {
            let a = T::new_from_slice(key).ok()?;
            a.mclone()
        }),
        "clone2" => snap_with::<T>(paint, || {
            let a = T::new_from_slice(key).ok()?;
            let b = a.mclone()?;
            drop(a);
            b.mclone()
        }),
        _ => None,
    }
}

/// analysis over 3 keys x 2 paints; `f(key, paint)` yields the snapshots
pub fn analyse(keys: &[Vec<u8>], f: impl Fn(&[u8], u8) -> Option<Snap>) -> String {
    let paints = [0xA5u8, 0x5A];
    let mut snaps: Vec<Vec<Snap>> = vec![];
    for &p in &paints {
        let mut row = vec![];
        for k in keys {
            match f(k, p) {
                Some(s) => row.push(s),
                None => return "unsupported".into(),
            }
        }
        snaps.push(row);
    }
    let n = snaps[0][0].before.len();
    let mut keydep = vec![];
    for i in 0..n {
        let varies = |r: &Vec<Snap>| r.iter().any(|s| s.before[i] != r[0].before[i]);
        let same_across_paint = (0..keys.len()).all(|j| snaps[0][j].before[i] == snaps[1][j].before[i]);
        if varies(&snaps[0]) && varies(&snaps[1]) && same_across_paint {
            keydep.push(i);
        }
    }
    let mut bad = vec![];
    for &i in &keydep {
        if snaps.iter().any(|r| r.iter().any(|s| s.after[i] != 0)) {
            bad.push(i);
        }
    }
    // stricter, paint-independent clause: any byte that differs between two keys (same paint) and is
    // not zero afterwards, counted separately (reported, used as oracle only when also key-dependent
    // under the other paint — see DESIGN §7 C16)
    if bad.is_empty() {
        format!("zero size={} keydep={}", n, keydep.len())
    } else {
        let s: Vec<String> = bad.iter().map(|i| i.to_string()).collect();
        format!("nonzero size={} keydep={} at={}", n, keydep.len(), s.join(","))
    }
}

pub fn run(e: &Entry, route: &str, keys: &[Vec<u8>]) -> String {
    analyse(keys, |k, p| (e.zero)(k, route, p))
}
