//! Software implementation of the `core::arch::aarch64` NEON types and intrinsics that
//! `/repo/kuznyechik/src/neon/backends.rs` uses (DESIGN §4.4).  The shadow build (`build_neon.rs`) rewrites
//! `use core::arch::aarch64::*;` of the repository's file into `use crate::arm_sw_neon::*;`, so the algorithmic text of
//! the repository is compiled against THIS module on the x86-64 host.
//!
//! Every function is written from the Arm Architecture Reference Manual (DDI 0487, A64 Advanced SIMD instruction
//! descriptions / shared pseudo-code) and the ACLE intrinsic → instruction mapping; the quoted pseudo-code is next to
//! each definition.  Assumption (stated once): little-endian AArch64 (`aarch64-*` targets of Rust; `aarch64_be` maps
//! `vreinterpret`/`vld1` lanes differently) — element `e` of a vector register `V` with element size `esize` is the
//! bit field `V[e*esize +: esize]`, and `LD1 {Vt.16B}` puts memory byte `i` into element `i`.
//!
//! TRUSTED: that this transcription is right (there is no aarch64 hardware or emulator in the sandbox).  It is however
//! *cross-examined*: (a) the Lean model `BC.Kuznyechik.Neon.*` (`Impl/Kuznyechik.lean`) is a second, independently
//! written transcription and the `neonintr` lines (see `neon_kuz.rs`) compare the two intrinsic by intrinsic;
//! (b) the complete cipher built from the repository's text over these intrinsics must agree with the SSE2 build
//! and with GOST R 34.12-2015.
//!
//! Signatures: identical to `core::arch::aarch64` except that the immediates, which `core::arch` takes as
//! `#[rustc_legacy_const_generics]` const parameters (`vgetq_lane_u16::<LANE>(v)` callable as
//! `vgetq_lane_u16(v, LANE)`), are ordinary `i32` arguments here (the attribute is compiler internal); the call
//! syntax used by the repository (`vgetq_lane_u16($ind, $i)`, `vshlq_n_u16(x, 4)`) is the same for both.  The
//! compile-time range checks of the immediates (`static_assert_uimm_bits!`) become run-time `assert!`s.
#![allow(non_camel_case_types, clippy::missing_safety_doc, dead_code)]

/// `uint8x16_t`: 128-bit vector register viewed as 16 byte elements; element `i` = `self.0[i]`.
/// Size 16, alignment 16 as on AArch64 (so `size_of` of the shadow key structs equals the real one).
#[repr(C, align(16))]
#[derive(Clone, Copy, Debug, PartialEq, Eq)]
pub struct uint8x16_t(pub(crate) [u8; 16]);

/// `uint16x8_t`: the same 128 bits viewed as 8 halfword elements; element `k` = `self.0[k]`.
#[repr(C, align(16))]
#[derive(Clone, Copy, Debug, PartialEq, Eq)]
pub struct uint16x8_t(pub(crate) [u16; 8]);

/// `uint8x8_t`: 64-bit vector register (D register) viewed as 8 byte elements.
#[repr(C, align(8))]
#[derive(Clone, Copy, Debug, PartialEq, Eq)]
pub struct uint8x8_t(pub(crate) [u8; 8]);

/// `uint8x16x4_t`: four consecutive table registers (`pub struct uint8x16x4_t(pub uint8x16_t, pub uint8x16_t, pub
/// uint8x16_t, pub uint8x16_t)` in `core::arch::aarch64`; the repository builds it with the tuple constructor).
#[repr(C)]
#[derive(Clone, Copy, Debug, PartialEq, Eq)]
pub struct uint8x16x4_t(pub uint8x16_t, pub uint8x16_t, pub uint8x16_t, pub uint8x16_t);

// ---------------------------------------------------------------------------------------------------------------------
// loads / stores

/// `vld1q_u8(ptr)` → `LD1 {Vt.16B}, [Xn]`.
/// Arm ARM (LD1, single 1-element structure to one register, 16B): `for e = 0 to 15: Elem[rval, e, 8] =
/// Mem[address + e, 1]` — element `e` receives the byte at `ptr + e`.  No alignment requirement.
#[inline(always)]
pub unsafe fn vld1q_u8(ptr: *const u8) -> uint8x16_t {
    let mut r = [0u8; 16];
    for e in 0..16 {
        r[e] = unsafe { core::ptr::read(ptr.add(e)) };
    }
    uint8x16_t(r)
}

/// `vst1q_u8(ptr, a)` → `ST1 {Vt.16B}, [Xn]`: `Mem[address + e, 1] = Elem[rval, e, 8]` for `e = 0..15`.
#[inline(always)]
pub unsafe fn vst1q_u8(ptr: *mut u8, a: uint8x16_t) {
    for e in 0..16 {
        unsafe { core::ptr::write(ptr.add(e), a.0[e]) };
    }
}

/// `vld1q_u8_x4(ptr)` → `LD1 {Vt.16B - Vt4.16B}, [Xn]`: four consecutive registers from 64 consecutive bytes
/// (register `r`, element `e` = byte `16 r + e`).  NOT used by the repository at present (it builds the
/// `uint8x16x4_t` from four `vld1q_u8`); provided because it is the natural spelling of the same load.
#[inline(always)]
pub unsafe fn vld1q_u8_x4(ptr: *const u8) -> uint8x16x4_t {
    unsafe { uint8x16x4_t(vld1q_u8(ptr), vld1q_u8(ptr.add(16)), vld1q_u8(ptr.add(32)), vld1q_u8(ptr.add(48))) }
}

// ---------------------------------------------------------------------------------------------------------------------
// lane-wise arithmetic / logic

/// `vdupq_n_u8(value)` → `DUP Vd.16B, Wn`: every element = the low 8 bits of the scalar.
#[inline(always)]
pub fn vdupq_n_u8(value: u8) -> uint8x16_t {
    uint8x16_t([value; 16])
}

/// `veorq_u8(a, b)` → `EOR Vd.16B, Vn.16B, Vm.16B`: bitwise exclusive OR of the two 128-bit registers.
#[inline(always)]
pub fn veorq_u8(a: uint8x16_t, b: uint8x16_t) -> uint8x16_t {
    let mut r = [0u8; 16];
    for e in 0..16 {
        r[e] = a.0[e] ^ b.0[e];
    }
    uint8x16_t(r)
}

/// `vorrq_u8(a, b)` → `ORR Vd.16B, Vn.16B, Vm.16B`: bitwise inclusive OR.
#[inline(always)]
pub fn vorrq_u8(a: uint8x16_t, b: uint8x16_t) -> uint8x16_t {
    let mut r = [0u8; 16];
    for e in 0..16 {
        r[e] = a.0[e] | b.0[e];
    }
    uint8x16_t(r)
}

/// `vsubq_u8(a, b)` → `SUB Vd.16B, Vn.16B, Vm.16B`: `Elem[result, e, 8] = Elem[a, e, 8] - Elem[b, e, 8]`,
/// modulo 2^8 per element (no saturation, no borrow between elements).
#[inline(always)]
pub fn vsubq_u8(a: uint8x16_t, b: uint8x16_t) -> uint8x16_t {
    let mut r = [0u8; 16];
    for e in 0..16 {
        r[e] = a.0[e].wrapping_sub(b.0[e]);
    }
    uint8x16_t(r)
}

// ---------------------------------------------------------------------------------------------------------------------
// table look-ups

#[inline(always)]
fn table64(t: &uint8x16x4_t) -> [u8; 64] {
    // Arm ARM TBL/TBX: `table = V[n] : V[n+1] : V[n+2] : V[n+3]` with the FIRST register in the LEAST significant
    // 128 bits, `Elem[table, index, 8]` = byte `index` counted from the least significant end:
    // table byte `16 r + e` = element `e` of register `r`.
    let mut tb = [0u8; 64];
    for e in 0..16 {
        tb[e] = t.0.0[e];
        tb[16 + e] = t.1.0[e];
        tb[32 + e] = t.2.0[e];
        tb[48 + e] = t.3.0[e];
    }
    tb
}

/// `vqtbl4q_u8(t, idx)` → `TBL Vd.16B, {Vn.16B - Vn+3.16B}, Vm.16B`.
/// Arm ARM: `result = Zeros(); for i = 0 to 15: index = UInt(Elem[indices, i, 8]); if index < 16 * regs then
/// Elem[result, i, 8] = Elem[table, index, 8];` with `regs = 4` — an OUT-OF-RANGE index (≥ 64) yields **0**.
#[inline(always)]
pub fn vqtbl4q_u8(t: uint8x16x4_t, idx: uint8x16_t) -> uint8x16_t {
    let tb = table64(&t);
    let mut r = [0u8; 16];
    for i in 0..16 {
        let index = idx.0[i] as usize;
        if index < 64 {
            r[i] = tb[index];
        }
    }
    uint8x16_t(r)
}

/// `vqtbx4q_u8(a, t, idx)` → `TBX Vd.16B, {Vn.16B - Vn+3.16B}, Vm.16B`.
/// Same pseudo-code with `result = V[d]` (= `a`) instead of zeros — an OUT-OF-RANGE index leaves the destination
/// byte **unchanged**.  NOT used by the repository at present (it ORs four TBL results); provided for completeness
/// of the TBL/TBX pair.
#[inline(always)]
pub fn vqtbx4q_u8(a: uint8x16_t, t: uint8x16x4_t, idx: uint8x16_t) -> uint8x16_t {
    let tb = table64(&t);
    let mut r = a.0;
    for i in 0..16 {
        let index = idx.0[i] as usize;
        if index < 64 {
            r[i] = tb[index];
        }
    }
    uint8x16_t(r)
}

// ---------------------------------------------------------------------------------------------------------------------
// permutes, reinterpretation, shifts, lane access

/// `vcreate_u8(a)` → `INS Vd.D[0], Xn` / `FMOV Dd, Xn`: the 64-bit scalar becomes the D register; byte element `e` =
/// bits `8e+7 .. 8e` of `a` (little-endian element numbering).
#[inline(always)]
pub fn vcreate_u8(a: u64) -> uint8x8_t {
    uint8x8_t(a.to_le_bytes())
}

/// `vcombine_u8(low, high)` → `DUP Vd.1D, Vn.D[0]; INS Vd.D[1], Vm.D[0]`: result elements 0..7 = `low`, 8..15 = `high`.
#[inline(always)]
pub fn vcombine_u8(low: uint8x8_t, high: uint8x8_t) -> uint8x16_t {
    let mut r = [0u8; 16];
    r[..8].copy_from_slice(&low.0);
    r[8..].copy_from_slice(&high.0);
    uint8x16_t(r)
}

/// `vzip1q_u8(a, b)` → `ZIP1 Vd.16B, Vn.16B, Vm.16B`.
/// Arm ARM (ZIP, part = 0): `pairs = 8; base = part * pairs; for p = 0 to pairs-1: Elem[result, 2p+0, 8] =
/// Elem[operand1, base+p, 8]; Elem[result, 2p+1, 8] = Elem[operand2, base+p, 8]` — a0 b0 a1 b1 … a7 b7.
#[inline(always)]
pub fn vzip1q_u8(a: uint8x16_t, b: uint8x16_t) -> uint8x16_t {
    let mut r = [0u8; 16];
    for p in 0..8 {
        r[2 * p] = a.0[p];
        r[2 * p + 1] = b.0[p];
    }
    uint8x16_t(r)
}

/// `vzip2q_u8(a, b)` → `ZIP2 Vd.16B, Vn.16B, Vm.16B`: the same with `part = 1` (`base = 8`) — a8 b8 … a15 b15.
#[inline(always)]
pub fn vzip2q_u8(a: uint8x16_t, b: uint8x16_t) -> uint8x16_t {
    let mut r = [0u8; 16];
    for p in 0..8 {
        r[2 * p] = a.0[8 + p];
        r[2 * p + 1] = b.0[8 + p];
    }
    uint8x16_t(r)
}

/// `vreinterpretq_u16_u8(a)`: no instruction; the same 128 bits viewed as halfwords.  Little-endian element
/// numbering: halfword `k` = bits `16k+15 .. 16k` = byte `2k` (low) and byte `2k+1` (high).
#[inline(always)]
pub fn vreinterpretq_u16_u8(a: uint8x16_t) -> uint16x8_t {
    let mut r = [0u16; 8];
    for k in 0..8 {
        r[k] = (a.0[2 * k] as u16) | ((a.0[2 * k + 1] as u16) << 8);
    }
    uint16x8_t(r)
}

/// `vshlq_n_u16(a, N)` → `SHL Vd.8H, Vn.8H, #N` (0 ≤ N ≤ 15).
/// Arm ARM: `Elem[result, e, 16] = LSL(Elem[operand, e, 16], shift)` — bits shifted out of a halfword are lost,
/// nothing crosses into the neighbouring element.
#[inline(always)]
pub fn vshlq_n_u16(a: uint16x8_t, n: i32) -> uint16x8_t {
    assert!((0..16).contains(&n), "vshlq_n_u16: immediate out of range");
    let mut r = [0u16; 8];
    for e in 0..8 {
        r[e] = a.0[e] << n;
    }
    uint16x8_t(r)
}

/// `vgetq_lane_u16(v, LANE)` → `UMOV Wd, Vn.H[LANE]` (0 ≤ LANE ≤ 7): the halfword element, zero-extended.
#[inline(always)]
pub fn vgetq_lane_u16(v: uint16x8_t, lane: i32) -> u16 {
    assert!((0..8).contains(&lane), "vgetq_lane_u16: lane out of range");
    v.0[lane as usize]
}
