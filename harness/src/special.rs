//! Operations that are not part of the generic registry: user S-box for Gost89, Threefish tweaks and
//! u64 entry points, RC2 effective key length, BelT wide block and raw block, conversion routes for the
//! AES and Kuznyechik Enc/Dec types, bcrypt primitives, AES hazmat functions.
use crate::neon_kuz::{NeonKuznyechik, NeonKuznyechikDec, NeonKuznyechikEnc};
use crate::{DecOnly, EncOnly, Full, Obj, hex, probe, unhex, zero};
use cipher::{BlockCipherDecrypt, BlockCipherEncrypt, KeyInit};

// ---- user supplied S-box for Gost89 (C07 "programs" quantifier) ------------------------------
pub enum UserSbox {}
const fn user_table() -> [[u8; 16]; 8] {
    // row i: x -> ((2i+3)*x + i) mod 16   (a permutation since 2i+3 is odd); row 7 is deliberately
    // NOT a permutation (x -> (x*x + 7) mod 16) — the property quantifies over arbitrary tables.
    let mut t = [[0u8; 16]; 8];
    let mut i = 0;
    while i < 8 {
        let mut x = 0;
        while x < 16 {
            t[i][x] = if i == 7 { ((x * x + 7) % 16) as u8 } else { (((2 * i + 3) * x + i) % 16) as u8 };
            x += 1;
        }
        i += 1;
    }
    t
}
impl magma::Sbox for UserSbox {
    const NAME: &'static str = "User";
    const SBOX: [[u8; 16]; 8] = user_table();
}
pub type Gost89User = magma::Gost89<UserSbox>;

fn arr<const N: usize>(v: &[u8]) -> Option<[u8; N]> {
    <[u8; N]>::try_from(v).ok()
}

macro_rules! tf_impl {
    ($T:ty, $NW:expr, $key:expr, $tweak:expr, $op:expr, $blk:expr) => {{
        const NB: usize = $NW * 8;
        let (Some(key), Some(tw), Some(mut b)) = (arr::<NB>($key), arr::<16>($tweak), arr::<NB>($blk)) else {
            return Some("bad-op".into());
        };
        let le = |x: &[u8]| -> Vec<u64> {
            x.chunks(8).map(|c| u64::from_le_bytes(c.try_into().unwrap())).collect()
        };
        match $op {
            "enc" | "dec" => {
                let c = <$T>::new_with_tweak(&key, &tw);
                if $op == "enc" {
                    c.encrypt_block((&mut b).into())
                } else {
                    c.decrypt_block((&mut b).into())
                }
                hex(&b)
            }
            "encu64" | "decu64" => {
                let k64: [u64; $NW] = le(&key).try_into().unwrap();
                let t64: [u64; 2] = le(&tw).try_into().unwrap();
                let mut b64: [u64; $NW] = le(&b).try_into().unwrap();
                let c = <$T>::new_with_tweak_u64(&k64, &t64);
                if $op == "encu64" {
                    c.encrypt_block_u64(&mut b64)
                } else {
                    c.decrypt_block_u64(&mut b64)
                }
                let out: Vec<u8> = b64.iter().flat_map(|w| w.to_le_bytes()).collect();
                hex(&out)
            }
            _ => "bad-op".into(),
        }
    }};
}

fn belt_key(k: &[u8]) -> Option<[u32; 8]> {
    if k.len() != 32 {
        return None;
    }
    let mut r = [0u32; 8];
    for (i, c) in k.chunks(4).enumerate() {
        r[i] = u32::from_le_bytes(c.try_into().unwrap());
    }
    Some(r)
}

/// the instance reached through a construction route (new / From<Enc> / From<&Enc> / clone combinations)
macro_rules! route_obj {
    ($C:ty, $E:ty, $D:ty, $route:expr, $key:expr) => {{
        let key = $key;
        zero::paint_stack(0x5A);
        let r: Option<Box<dyn Obj>> = match $route {
            "c.new" => <$C>::new_from_slice(key).ok().map(|c| Box::new(Full(c)) as Box<dyn Obj>),
            "e.new" => <$E>::new_from_slice(key).ok().map(|c| Box::new(EncOnly(c)) as Box<dyn Obj>),
            "d.new" => <$D>::new_from_slice(key).ok().map(|c| Box::new(DecOnly(c)) as Box<dyn Obj>),
            "c.from_e" => <$E>::new_from_slice(key).ok().map(|e| Box::new(Full(<$C>::from(e))) as Box<dyn Obj>),
            "c.from_eref" => <$E>::new_from_slice(key).ok().map(|e| {
                let c = <$C>::from(&e);
                drop(e);
                Box::new(Full(c)) as Box<dyn Obj>
            }),
            "d.from_e" => <$E>::new_from_slice(key).ok().map(|e| Box::new(DecOnly(<$D>::from(e))) as Box<dyn Obj>),
            "d.from_eref" => <$E>::new_from_slice(key).ok().map(|e| {
                let d = <$D>::from(&e);
                drop(e);
                Box::new(DecOnly(d)) as Box<dyn Obj>
            }),
            "c.clone" => <$C>::new_from_slice(key).ok().map(|c| {
                zero::paint_stack(0xA5);
                let d = c.clone();
                drop(c);
                zero::paint_stack(0x3C);
                Box::new(Full(d)) as Box<dyn Obj>
            }),
            "e.clone" => <$E>::new_from_slice(key).ok().map(|c| {
                zero::paint_stack(0xA5);
                let d = c.clone();
                drop(c);
                zero::paint_stack(0x3C);
                Box::new(EncOnly(d)) as Box<dyn Obj>
            }),
            "d.clone" => <$D>::new_from_slice(key).ok().map(|c| {
                zero::paint_stack(0xA5);
                let d = c.clone();
                drop(c);
                zero::paint_stack(0x3C);
                Box::new(DecOnly(d)) as Box<dyn Obj>
            }),
            "c.clone_from_e" => <$E>::new_from_slice(key).ok().map(|e| {
                let c = <$C>::from(&e);
                zero::paint_stack(0xA5);
                let c2 = c.clone();
                drop(c);
                drop(e);
                zero::paint_stack(0x3C);
                Box::new(Full(c2)) as Box<dyn Obj>
            }),
            "d.clone_from_e" => <$E>::new_from_slice(key).ok().map(|e| {
                let c = <$D>::from(&e);
                zero::paint_stack(0xA5);
                let c2 = c.clone();
                drop(c);
                drop(e);
                zero::paint_stack(0x3C);
                Box::new(DecOnly(c2)) as Box<dyn Obj>
            }),
            "c.from_eclone" => <$E>::new_from_slice(key).ok().map(|e| {
                zero::paint_stack(0xA5);
                let e2 = e.clone();
                drop(e);
                zero::paint_stack(0x3C);
                Box::new(Full(<$C>::from(e2))) as Box<dyn Obj>
            }),
            "d.from_eclone" => <$E>::new_from_slice(key).ok().map(|e| {
                zero::paint_stack(0xA5);
                let e2 = e.clone();
                drop(e);
                zero::paint_stack(0x3C);
                Box::new(DecOnly(<$D>::from(e2))) as Box<dyn Obj>
            }),
            _ => None,
        };
        r
    }};
}


/// conversion routes (C12): returns the probe of the instance reached through `route`
macro_rules! routes {
    ($C:ty, $E:ty, $D:ty, $route:expr, $key:expr) => {{
        let r: Option<Box<dyn Obj>> = route_obj!($C, $E, $D, $route, $key);
        zero::paint_stack(0xC3);
        match r {
            Some(o) => probe(&*o),
            None => "err-len".into(),
        }
    }};
}

/// zeroize probes along conversion routes (C16)
macro_rules! zroutes {
    ($C:ty, $E:ty, $D:ty, $route:expr, $keys:expr) => {{
        let route: &str = $route;
        match route {
            "c.from_e" => zero::analyse($keys, |k, p| {
                let key = zero::stage_key(k);
                zero::snap_with::<$C>(p, || Some(<$C>::from(<$E>::new_from_slice(key).ok()?)))
            }),
            "c.from_eref" => zero::analyse($keys, |k, p| {
                let key = zero::stage_key(k);
                zero::snap_with::<$C>(p, || {
                    let e = <$E>::new_from_slice(key).ok()?;
                    Some(<$C>::from(&e))
                })
            }),
            "d.from_e" => zero::analyse($keys, |k, p| {
                let key = zero::stage_key(k);
                zero::snap_with::<$D>(p, || Some(<$D>::from(<$E>::new_from_slice(key).ok()?)))
            }),
            "d.from_eref" => zero::analyse($keys, |k, p| {
                let key = zero::stage_key(k);
                zero::snap_with::<$D>(p, || {
                    let e = <$E>::new_from_slice(key).ok()?;
                    Some(<$D>::from(&e))
                })
            }),
            "c.clone_from_e" => zero::analyse($keys, |k, p| {
                let key = zero::stage_key(k);
                zero::snap_with::<$C>(p, || {
                    let e = <$E>::new_from_slice(key).ok()?;
                    let c = <$C>::from(&e);
                    Some(c.clone())
                })
            }),
            "d.clone_from_e" => zero::analyse($keys, |k, p| {
                let key = zero::stage_key(k);
                zero::snap_with::<$D>(p, || {
                    let e = <$E>::new_from_slice(key).ok()?;
                    let c = <$D>::from(&e);
                    Some(c.clone())
                })
            }),
            _ => "bad-op".into(),
        }
    }};
}

/// instance built through a route of a family (used by `hist` scripts: `r:<id>:<family>:<route>:<keyhex>`)
pub fn route_instance(fam: &str, route: &str, k: &[u8]) -> Option<Box<dyn Obj>> {
    match fam {
        "Aes128" => route_obj!(aes::Aes128, aes::Aes128Enc, aes::Aes128Dec, route, k),
        "Aes192" => route_obj!(aes::Aes192, aes::Aes192Enc, aes::Aes192Dec, route, k),
        "Aes256" => route_obj!(aes::Aes256, aes::Aes256Enc, aes::Aes256Dec, route, k),
        "Kuznyechik" => route_obj!(kuznyechik::Kuznyechik, kuznyechik::KuznyechikEnc, kuznyechik::KuznyechikDec, route, k),
        "NeonKuznyechik" => route_obj!(NeonKuznyechik, NeonKuznyechikEnc, NeonKuznyechikDec, route, k),
        f if f.starts_with("Armv8") => crate::armv8sh::route_instance(fam, route, k),
        _ => None,
    }
}

pub fn exec(t: &[&str]) -> Option<String> {
    let arg = |i: usize| -> Option<Vec<u8>> { t.get(i).and_then(|s| unhex(s)) };
    match t[0] {
        // tf <256|512|1024> <keyhex> <tweakhex> <enc|dec|encu64|decu64> <blockhex>
        "tf" => {
            let (Some(k), Some(tw), Some(b)) = (arg(2), arg(3), arg(5)) else { return Some("bad-op".into()) };
            let op = t.get(4).copied().unwrap_or("");
            Some(match t.get(1).copied() {
                Some("256") => tf_impl!(threefish::Threefish256, 4, &k, &tw, op, &b),
                Some("512") => tf_impl!(threefish::Threefish512, 8, &k, &tw, op, &b),
                Some("1024") => tf_impl!(threefish::Threefish1024, 16, &k, &tw, op, &b),
                _ => "bad-op".into(),
            })
        }
        // rc2eff <keyhex> <efflen> <enc|dec> <blockhex>
        "rc2eff" => {
            let (Some(k), Some(mut b)) = (arg(1), arg(4)) else { return Some("bad-op".into()) };
            let Some(eff) = t.get(2).and_then(|s| s.parse::<usize>().ok()) else { return Some("bad-op".into()) };
            if b.len() != 8 {
                return Some("bad-op".into());
            }
            let c = rc2::Rc2::new_with_eff_key_len(&k, eff);
            match t.get(3).copied() {
                Some("enc") => c.encrypt_block(cipher::Block::<rc2::Rc2>::from_mut_slice(&mut b)),
                Some("dec") => c.decrypt_block(cipher::Block::<rc2::Rc2>::from_mut_slice(&mut b)),
                _ => return Some("bad-op".into()),
            }
            Some(hex(&b))
        }
        // wblock <enc|dec> <keyhex32> <datahex>
        "wblock" => {
            let (Some(k), Some(mut d)) = (arg(2), arg(3)) else { return Some("bad-op".into()) };
            let Some(key) = belt_key(&k) else { return Some("bad-op".into()) };
            let orig = d.clone();
            let r = match t.get(1).copied() {
                Some("enc") => belt_block::belt_wblock_enc(&mut d, &key),
                Some("dec") => belt_block::belt_wblock_dec(&mut d, &key),
                _ => return Some("bad-op".into()),
            };
            Some(match r {
                Ok(()) => hex(&d),
                Err(_) => format!("err-len:{}", if d == orig { "unchanged" } else { "changed" }),
            })
        }
        // beltraw <keyhex32> <blockhex16>
        "beltraw" => {
            let (Some(k), Some(b)) = (arg(1), arg(2)) else { return Some("bad-op".into()) };
            let Some(key) = belt_key(&k) else { return Some("bad-op".into()) };
            if b.len() != 16 {
                return Some("bad-op".into());
            }
            let mut x = [0u32; 4];
            for (i, c) in b.chunks(4).enumerate() {
                x[i] = u32::from_le_bytes(c.try_into().unwrap());
            }
            let y = belt_block::belt_block_raw(x, &key);
            let out: Vec<u8> = y.iter().flat_map(|w| w.to_le_bytes()).collect();
            Some(hex(&out))
        }
        // route <family> <route> <keyhex>
        "route" => {
            let Some(k) = arg(3) else { return Some("bad-op".into()) };
            let route = t.get(2).copied().unwrap_or("");
            Some(match t.get(1).copied() {
                Some("Aes128") => routes!(aes::Aes128, aes::Aes128Enc, aes::Aes128Dec, route, &k),
                Some("Aes192") => routes!(aes::Aes192, aes::Aes192Enc, aes::Aes192Dec, route, &k),
                Some("Aes256") => routes!(aes::Aes256, aes::Aes256Enc, aes::Aes256Dec, route, &k),
                Some("Kuznyechik") => {
                    routes!(kuznyechik::Kuznyechik, kuznyechik::KuznyechikEnc, kuznyechik::KuznyechikDec, route, &k)
                }
                Some("NeonKuznyechik") => routes!(NeonKuznyechik, NeonKuznyechikEnc, NeonKuznyechikDec, route, &k),
                _ => "bad-op".into(),
            })
        }
        // zroute <family> <route> <k1> <k2> <k3>
        "zroute" => {
            let keys: Option<Vec<Vec<u8>>> = (3..t.len()).map(|i| arg(i)).collect();
            let Some(keys) = keys else { return Some("bad-op".into()) };
            if keys.len() < 2 {
                return Some("bad-op".into());
            }
            let route = t.get(2).copied().unwrap_or("");
            Some(match t.get(1).copied() {
                Some("Aes128") => zroutes!(aes::Aes128, aes::Aes128Enc, aes::Aes128Dec, route, &keys),
                Some("Aes192") => zroutes!(aes::Aes192, aes::Aes192Enc, aes::Aes192Dec, route, &keys),
                Some("Aes256") => zroutes!(aes::Aes256, aes::Aes256Enc, aes::Aes256Dec, route, &keys),
                Some("Kuznyechik") => {
                    zroutes!(kuznyechik::Kuznyechik, kuznyechik::KuznyechikEnc, kuznyechik::KuznyechikDec, route, &keys)
                }
                Some("NeonKuznyechik") => zroutes!(NeonKuznyechik, NeonKuznyechikEnc, NeonKuznyechikDec, route, &keys),
                _ => "bad-op".into(),
            })
        }
        #[cfg(feature = "bcrypt")]
        "bcrypt" => Some(bcrypt(t)),
        #[cfg(feature = "hazmat")]
        "hazmat" => Some(hazmat(t)),
        _ => None,
    }
}

/// bcrypt <op;op;...>   ops: init | expand:<keyhex> | salted:<salthex>:<keyhex> | enc:<l8hex>:<r8hex>
/// output: one token per op — for `enc` the two words, otherwise `.` — followed by a digest of the
/// whole state obtained by encrypting a fixed chain (state is private; 4 chained encryptions of the
/// running pair observe every P entry and, through F, data-dependent S entries) and by `fullstate`.
#[cfg(feature = "bcrypt")]
fn bcrypt(t: &[&str]) -> String {
    use blowfish::Blowfish;
    let mut st: Blowfish = Blowfish::bc_init_state();
    let mut outs: Vec<String> = vec![];
    for op in t.get(1).copied().unwrap_or("").split(';') {
        let f: Vec<&str> = op.split(':').collect();
        match f[0] {
            "init" => {
                st = Blowfish::bc_init_state();
                outs.push(".".into());
            }
            "expand" => {
                let Some(k) = f.get(1).and_then(|s| unhex(s)) else { return "bad-op".into() };
                st.bc_expand_key(&k);
                outs.push(".".into());
            }
            "salted" => {
                let (Some(s), Some(k)) = (f.get(1).and_then(|s| unhex(s)), f.get(2).and_then(|s| unhex(s))) else {
                    return "bad-op".into();
                };
                st.salted_expand_key(&s, &k);
                outs.push(".".into());
            }
            "enc" => {
                let (Some(l), Some(r)) = (
                    f.get(1).and_then(|s| u32::from_str_radix(s, 16).ok()),
                    f.get(2).and_then(|s| u32::from_str_radix(s, 16).ok()),
                ) else {
                    return "bad-op".into();
                };
                let [a, b] = st.bc_encrypt([l, r]);
                outs.push(format!("{:08x}{:08x}", a, b));
            }
            _ => return "bad-op".into(),
        }
    }
    // state digest: the state is private, observe it through 64 encryptions of a counter pattern
    let mut dig = String::new();
    let mut acc = [0u32; 2];
    for i in 0..64u32 {
        let [a, b] = st.bc_encrypt([i.wrapping_mul(0x9E3779B9) ^ acc[0], (i << 24 | i << 16 | i << 8 | i) ^ acc[1]]);
        acc = [a, b];
        if i % 8 == 7 {
            dig += &format!("{:08x}{:08x}", a, b);
        }
    }
    format!("{} st={}", outs.join(","), dig)
}

/// hazmat <fn> <blockhex(16 or 128)> [<keyhex(16 or 128)>]
#[cfg(feature = "hazmat")]
fn hazmat(t: &[&str]) -> String {
    use aes::hazmat;
    use aes::Block;
    use aes::hazmat::Block8;
    let arg = |i: usize| -> Option<Vec<u8>> { t.get(i).and_then(|s| unhex(s)) };
    let Some(b) = arg(2) else { return "bad-op".into() };
    let k = arg(3);
    let blk = |v: &[u8]| -> Option<Block> { Block::try_from(v).ok() };
    let blk8 = |v: &[u8]| -> Option<Block8> {
        if v.len() != 128 {
            return None;
        }
        let mut r = Block8::default();
        for (i, c) in v.chunks(16).enumerate() {
            r[i] = Block::try_from(c).ok()?;
        }
        Some(r)
    };
    let flat8 = |x: &Block8| -> Vec<u8> { x.iter().flat_map(|b| b.iter().copied()).collect() };
    match t.get(1).copied().unwrap_or("") {
        "cipher_round" => {
            let (Some(mut x), Some(k)) = (blk(&b), k.as_deref().and_then(blk)) else { return "bad-op".into() };
            hazmat::cipher_round(&mut x, &k);
            hex(&x)
        }
        "equiv_inv_cipher_round" => {
            let (Some(mut x), Some(k)) = (blk(&b), k.as_deref().and_then(blk)) else { return "bad-op".into() };
            hazmat::equiv_inv_cipher_round(&mut x, &k);
            hex(&x)
        }
        "mix_columns" => {
            let Some(mut x) = blk(&b) else { return "bad-op".into() };
            hazmat::mix_columns(&mut x);
            hex(&x)
        }
        "inv_mix_columns" => {
            let Some(mut x) = blk(&b) else { return "bad-op".into() };
            hazmat::inv_mix_columns(&mut x);
            hex(&x)
        }
        "cipher_round_par" => {
            let (Some(mut x), Some(k)) = (blk8(&b), k.as_deref().and_then(blk8)) else { return "bad-op".into() };
            hazmat::cipher_round_par(&mut x, &k);
            hex(&flat8(&x))
        }
        "equiv_inv_cipher_round_par" => {
            let (Some(mut x), Some(k)) = (blk8(&b), k.as_deref().and_then(blk8)) else { return "bad-op".into() };
            hazmat::equiv_inv_cipher_round_par(&mut x, &k);
            hex(&flat8(&x))
        }
        _ => "bad-op".into(),
    }
}
