//! ARMv8 AES backend of /repo (`aes/src/armv8.rs`, `aes/src/armv8/*.rs`) executed on this host: `build.rs` copies the
//! CURRENT repository text into `$OUT_DIR/armv8_shadow/`, rewriting only `core::arch::aarch64` -> `crate::arm_sw`
//! (software intrinsics), dropping `#[target_feature]` and re-rooting `crate::` paths; the result is mounted here as
//! `aes_shadow` (the stand-in for the `aes` crate root) — DESIGN §4.4.
//!
//! Registered under `Armv8Aes{128,192,256}{,Enc,Dec}`; every generic operation line works for these names.  Special
//! lines: `route Armv8AesN <route> <key>`, `zroute Armv8AesN <route> <k1> <k2> <k3>`, hist `r:<id>:Armv8AesN:<route>:<key>`
//! and `hazmatarm <fn> <blockhex> [<keyhex>]` (same argument format as `hazmat`; only with `--features hazmat`).
//! The types are the armv8 module's own public types, used directly (no `autodetect` wrapper, no CPU detection).
use crate::{AlgN, DecOnly, EncOnly, Entry, Full, MaybeClone, MaybeDebug, Obj, probe, unhex, zero};
#[allow(unused_imports)]
use crate::hex;
use cipher::{BlockSizeUser, Key, KeyInit, KeySizeUser, typenum::Unsigned};

#[allow(dead_code, unused, clippy::all)]
pub mod aes_shadow {
    include!(concat!(env!("OUT_DIR"), "/armv8_shadow/root.rs"));
}

pub use aes_shadow::armv8 as a8;

clone_yes!(
    a8::Aes128, a8::Aes192, a8::Aes256, a8::Aes128Enc, a8::Aes192Enc, a8::Aes256Enc,
    a8::Aes128Dec, a8::Aes192Dec, a8::Aes256Dec,
);

pub fn entries() -> Vec<Entry> {
    vec![
        entry!("Armv8Aes128", a8::Aes128, Full, "ed"),
        entry!("Armv8Aes192", a8::Aes192, Full, "ed"),
        entry!("Armv8Aes256", a8::Aes256, Full, "ed"),
        entry!("Armv8Aes128Enc", a8::Aes128Enc, EncOnly, "e"),
        entry!("Armv8Aes192Enc", a8::Aes192Enc, EncOnly, "e"),
        entry!("Armv8Aes256Enc", a8::Aes256Enc, EncOnly, "e"),
        entry!("Armv8Aes128Dec", a8::Aes128Dec, DecOnly, "d"),
        entry!("Armv8Aes192Dec", a8::Aes192Dec, DecOnly, "d"),
        entry!("Armv8Aes256Dec", a8::Aes256Dec, DecOnly, "d"),
    ]
}

/// instance built through a route of a shadow family (hist `r:` commands)
pub fn route_instance(fam: &str, route: &str, k: &[u8]) -> Option<Box<dyn Obj>> {
    match fam {
        "Armv8Aes128" => route_obj!(a8::Aes128, a8::Aes128Enc, a8::Aes128Dec, route, k),
        "Armv8Aes192" => route_obj!(a8::Aes192, a8::Aes192Enc, a8::Aes192Dec, route, k),
        "Armv8Aes256" => route_obj!(a8::Aes256, a8::Aes256Enc, a8::Aes256Dec, route, k),
        _ => None,
    }
}

/// special lines of the shadow; must be consulted BEFORE `special::exec` (which answers `bad-op` for a family it does
/// not know)
pub fn exec(t: &[&str]) -> Option<String> {
    let arg = |i: usize| -> Option<Vec<u8>> { t.get(i).and_then(|s| unhex(s)) };
    let fam = t.get(1).copied().unwrap_or("");
    match t[0] {
        "route" if fam.starts_with("Armv8") => {
            let Some(k) = arg(3) else { return Some("bad-op".into()) };
            let route = t.get(2).copied().unwrap_or("");
            Some(match fam {
                "Armv8Aes128" => routes!(a8::Aes128, a8::Aes128Enc, a8::Aes128Dec, route, &k),
                "Armv8Aes192" => routes!(a8::Aes192, a8::Aes192Enc, a8::Aes192Dec, route, &k),
                "Armv8Aes256" => routes!(a8::Aes256, a8::Aes256Enc, a8::Aes256Dec, route, &k),
                _ => "bad-op".into(),
            })
        }
        "zroute" if fam.starts_with("Armv8") => {
            let keys: Option<Vec<Vec<u8>>> = (3..t.len()).map(|i| arg(i)).collect();
            let Some(keys) = keys else { return Some("bad-op".into()) };
            if keys.len() < 2 {
                return Some("bad-op".into());
            }
            let route = t.get(2).copied().unwrap_or("");
            Some(match fam {
                "Armv8Aes128" => zroutes!(a8::Aes128, a8::Aes128Enc, a8::Aes128Dec, route, &keys),
                "Armv8Aes192" => zroutes!(a8::Aes192, a8::Aes192Enc, a8::Aes192Dec, route, &keys),
                "Armv8Aes256" => zroutes!(a8::Aes256, a8::Aes256Enc, a8::Aes256Dec, route, &keys),
                _ => "bad-op".into(),
            })
        }
        #[cfg(feature = "hazmat")]
        "hazmatarm" => Some(hazmatarm(t)),
        _ => None,
    }
}

/// hazmatarm <fn> <blockhex(16 or 128)> [<keyhex(16 or 128)>] — the six functions of `aes/src/armv8/hazmat.rs`
/// (what `aes::hazmat::*` dispatches to on an AArch64 CPU with the `aes` feature)
#[cfg(feature = "hazmat")]
fn hazmatarm(t: &[&str]) -> String {
    use aes_shadow::armv8::hazmat as hz;
    use aes_shadow::hazmat::{Block, Block8};
    let arg = |i: usize| -> Option<Vec<u8>> { t.get(i).and_then(|s| unhex(s)) };
    let Some(b) = arg(2) else { return "bad-op".into() };
    let k = arg(3);
    let blk = |v: &[u8]| -> Option<Block> { Block::try_from(v).ok() };
    let blk8 = |v: &[u8]| -> Option<Block8> {
        if v.len() != 128 {
            return None;
        }
        let mut r = Block8::default();
        for (i, c) in v.chunks(16).enumerate() {
            r[i] = Block::try_from(c).ok()?;
        }
        Some(r)
    };
    let flat8 = |x: &Block8| -> Vec<u8> { x.iter().flat_map(|b| b.iter().copied()).collect() };
    match t.get(1).copied().unwrap_or("") {
        "cipher_round" => {
            let (Some(mut x), Some(k)) = (blk(&b), k.as_deref().and_then(blk)) else { return "bad-op".into() };
            unsafe { hz::cipher_round(&mut x, &k) };
            hex(&x)
        }
        "equiv_inv_cipher_round" => {
            let (Some(mut x), Some(k)) = (blk(&b), k.as_deref().and_then(blk)) else { return "bad-op".into() };
            unsafe { hz::equiv_inv_cipher_round(&mut x, &k) };
            hex(&x)
        }
        "mix_columns" => {
            let Some(mut x) = blk(&b) else { return "bad-op".into() };
            unsafe { hz::mix_columns(&mut x) };
            hex(&x)
        }
        "inv_mix_columns" => {
            let Some(mut x) = blk(&b) else { return "bad-op".into() };
            unsafe { hz::inv_mix_columns(&mut x) };
            hex(&x)
        }
        "cipher_round_par" => {
            let (Some(mut x), Some(k)) = (blk8(&b), k.as_deref().and_then(blk8)) else { return "bad-op".into() };
            unsafe { hz::cipher_round_par(&mut x, &k) };
            hex(&flat8(&x))
        }
        "equiv_inv_cipher_round_par" => {
            let (Some(mut x), Some(k)) = (blk8(&b), k.as_deref().and_then(blk8)) else { return "bad-op".into() };
            unsafe { hz::equiv_inv_cipher_round_par(&mut x, &k) };
            hex(&flat8(&x))
        }
        _ => "bad-op".into(),
    }
}
