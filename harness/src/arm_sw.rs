//! Software implementation of exactly the `core::arch::aarch64` vector types and intrinsics that
//! `/repo/aes/src/armv8/{encdec,expand,hazmat}.rs` use, so that the repository's ARMv8 source text can be compiled
//! and executed on this x86-64 host (DESIGN §4.4, "shadow build").  `build.rs` rewrites `core::arch::aarch64::*`
//! into `crate::arm_sw::*`; nothing else of the algorithm is re-typed.
//!
//! Every function is written from the pseudo-code of the Arm Architecture Reference Manual (DDI 0487, A64 Advanced
//! SIMD and floating-point instructions + shared/functions/crypto) for a **little-endian** AArch64 (the only data
//! endianness Rust targets `aarch64-*` with `aes` support use): vector element `i` of a `uint8x16_t` is bits
//! `<8i+7:8i>` of the 128-bit register, `LD1 {Vt.16B}` puts memory byte `i` into element `i`.
//!
//! TRUSTED: that this file and `lean/BlockCiphers/Prelude/ArmIntrinsics.lean` both transcribe the Arm ARM correctly
//! (no AArch64 hardware or emulator in the sandbox).  The S-boxes are *computed* (GF(2^8) inversion + affine map,
//! FIPS-197 §5.1.1) at compile time, not copied from `/repo`, and the whole is cross-checked against the host's AES-NI
//! through the real `aes` crate on every run of the shadow correspondence (`Armv8AesN` vs `AesN` lines).
#![allow(non_camel_case_types, clippy::missing_safety_doc)]

/// `uint8x16_t`: 128-bit vector of sixteen 8-bit elements; element `i` = byte `i` of the little-endian register
/// image.  `repr(C, align(16))` gives it the size/alignment of the hardware type (`expand.rs` asserts
/// `align_of::<uint8x16_t>() >= align_of::<u32>()` and views `[uint8x16_t; N]` as `[u32; 4N]`), and the all-zero
/// byte pattern is a valid value (`mem::zeroed()` is used by the repository code).
#[repr(C, align(16))]
#[derive(Clone, Copy, PartialEq, Eq, Debug)]
pub struct uint8x16_t(pub [u8; 16]);

/// `uint32x4_t`: 128-bit vector of four 32-bit elements; element `i` = bits `<32i+31:32i>`.
#[repr(C, align(16))]
#[derive(Clone, Copy, PartialEq, Eq, Debug)]
pub struct uint32x4_t(pub [u32; 4]);

// ---- GF(2^8) arithmetic and the S-boxes (FIPS-197 §4.2, §5.1.1, §5.3.2), computed at compile time -------------

const fn xtime(a: u8) -> u8 {
    (a << 1) ^ (if a & 0x80 != 0 { 0x1b } else { 0 })
}

const fn gmul(a: u8, b: u8) -> u8 {
    let (mut acc, mut p, mut i) = (0u8, a, 0);
    while i < 8 {
        if (b >> i) & 1 == 1 {
            acc ^= p;
        }
        p = xtime(p);
        i += 1;
    }
    acc
}

/// multiplicative inverse (0 ↦ 0) as a^254
const fn ginv(a: u8) -> u8 {
    let (mut r, mut i) = (1u8, 0);
    while i < 254 {
        r = gmul(r, a);
        i += 1;
    }
    r
}

const fn make_sbox() -> [u8; 256] {
    let mut t = [0u8; 256];
    let mut x = 0usize;
    while x < 256 {
        let b = ginv(x as u8);
        // b'_i = b_i ^ b_{i+4} ^ b_{i+5} ^ b_{i+6} ^ b_{i+7} ^ c_i, c = 0x63
        t[x] = b ^ b.rotate_left(1) ^ b.rotate_left(2) ^ b.rotate_left(3) ^ b.rotate_left(4) ^ 0x63;
        x += 1;
    }
    t
}

const fn make_inv_sbox(s: &[u8; 256]) -> [u8; 256] {
    let mut t = [0u8; 256];
    let mut x = 0usize;
    while x < 256 {
        t[s[x] as usize] = x as u8;
        x += 1;
    }
    t
}

static SBOX: [u8; 256] = make_sbox();
static INV_SBOX: [u8; 256] = make_inv_sbox(&SBOX);

// ---- shared/functions/crypto of the Arm ARM ------------------------------------------------------------------

/// `AESShiftRows(op)`: "return (op<95:88>:op<55:48>:op<15:8>:op<103:96> : op<63:56>:op<23:16>:op<111:104>:op<71:64> :
/// op<31:24>:op<119:112>:op<79:72>:op<39:32> : op<127:120>:op<87:80>:op<47:40>:op<7:0>)", i.e. result byte `i` is
/// operand byte `(i + 4*(i mod 4)) mod 16`.
fn aes_shift_rows(op: [u8; 16]) -> [u8; 16] {
    const SRC: [usize; 16] = [0, 5, 10, 15, 4, 9, 14, 3, 8, 13, 2, 7, 12, 1, 6, 11];
    core::array::from_fn(|i| op[SRC[i]])
}

/// `AESInvShiftRows(op)`: "return (op<31:24>:op<55:48>:op<79:72>:op<103:96> : op<127:120>:op<23:16>:op<47:40>:op<71:64> :
/// op<95:88>:op<119:112>:op<15:8>:op<39:32> : op<63:56>:op<87:80>:op<111:104>:op<7:0>)", i.e. result byte `i` is
/// operand byte `(i - 4*(i mod 4)) mod 16`.
fn aes_inv_shift_rows(op: [u8; 16]) -> [u8; 16] {
    const SRC: [usize; 16] = [0, 13, 10, 7, 4, 1, 14, 11, 8, 5, 2, 15, 12, 9, 6, 3];
    core::array::from_fn(|i| op[SRC[i]])
}

/// `AESSubBytes(op)`: "for i = 0 to 15: out<i*8+:8> = GF2(SBOX)<UInt(op<i*8+:8>)*8+:8>"
fn aes_sub_bytes(op: [u8; 16]) -> [u8; 16] {
    core::array::from_fn(|i| SBOX[op[i] as usize])
}

/// `AESInvSubBytes(op)`: the same with the inverse S-box
fn aes_inv_sub_bytes(op: [u8; 16]) -> [u8; 16] {
    core::array::from_fn(|i| INV_SBOX[op[i] as usize])
}

/// `AESMixColumns(op)`: for every column `c` (bytes 4c..4c+3 = rows 0..3):
/// out0 = {02}·in0 ^ {03}·in1 ^ in2 ^ in3, out1 = in0 ^ {02}·in1 ^ {03}·in2 ^ in3, … (`FFmul02`/`FFmul03` of the ARM)
fn aes_mix_columns(op: [u8; 16]) -> [u8; 16] {
    let mut out = [0u8; 16];
    for c in 0..4 {
        let a = |r: usize| op[4 * c + (r % 4)];
        for r in 0..4 {
            out[4 * c + r] = gmul(0x02, a(r)) ^ gmul(0x03, a(r + 1)) ^ a(r + 2) ^ a(r + 3);
        }
    }
    out
}

/// `AESInvMixColumns(op)`: out0 = {0E}·in0 ^ {0B}·in1 ^ {0D}·in2 ^ {09}·in3, rows rotating
/// (`FFmul0E`/`FFmul0B`/`FFmul0D`/`FFmul09` of the ARM)
fn aes_inv_mix_columns(op: [u8; 16]) -> [u8; 16] {
    let mut out = [0u8; 16];
    for c in 0..4 {
        let a = |r: usize| op[4 * c + (r % 4)];
        for r in 0..4 {
            out[4 * c + r] = gmul(0x0e, a(r)) ^ gmul(0x0b, a(r + 1)) ^ gmul(0x0d, a(r + 2)) ^ gmul(0x09, a(r + 3));
        }
    }
    out
}

// ---- the intrinsics (ACLE name = instruction) -----------------------------------------------------------------

/// `vld1q_u8` = `LD1 {Vt.16B}, [Xn]`: "for e = 0 to elements-1: Elem[rval, e, esize] = Mem[address + e*ebytes]"
/// (no alignment requirement for LD1 of byte elements)
pub unsafe fn vld1q_u8(ptr: *const u8) -> uint8x16_t {
    let mut r = [0u8; 16];
    unsafe { core::ptr::copy_nonoverlapping(ptr, r.as_mut_ptr(), 16) };
    uint8x16_t(r)
}

/// `vst1q_u8` = `ST1 {Vt.16B}, [Xn]`: "Mem[address + e*ebytes] = Elem[rval, e, esize]"
pub unsafe fn vst1q_u8(ptr: *mut u8, a: uint8x16_t) {
    unsafe { core::ptr::copy_nonoverlapping(a.0.as_ptr(), ptr, 16) };
}

/// `veorq_u8` = `EOR Vd.16B, Vn.16B, Vm.16B`: "result = operand1 EOR operand2"
pub fn veorq_u8(a: uint8x16_t, b: uint8x16_t) -> uint8x16_t {
    uint8x16_t(core::array::from_fn(|i| a.0[i] ^ b.0[i]))
}

/// `vaeseq_u8(data, key)` = `AESE Vd.16B, Vn.16B`:
/// "operand1 = V[d]; operand2 = V[n]; result = operand1 EOR operand2; result = AESSubBytes(AESShiftRows(result)); V[d] = result"
pub fn vaeseq_u8(data: uint8x16_t, key: uint8x16_t) -> uint8x16_t {
    let x = veorq_u8(data, key).0;
    uint8x16_t(aes_sub_bytes(aes_shift_rows(x)))
}

/// `vaesdq_u8(data, key)` = `AESD Vd.16B, Vn.16B`:
/// "result = operand1 EOR operand2; result = AESInvSubBytes(AESInvShiftRows(result))"
pub fn vaesdq_u8(data: uint8x16_t, key: uint8x16_t) -> uint8x16_t {
    let x = veorq_u8(data, key).0;
    uint8x16_t(aes_inv_sub_bytes(aes_inv_shift_rows(x)))
}

/// `vaesmcq_u8` = `AESMC Vd.16B, Vn.16B`: "result = AESMixColumns(operand)"
pub fn vaesmcq_u8(data: uint8x16_t) -> uint8x16_t {
    uint8x16_t(aes_mix_columns(data.0))
}

/// `vaesimcq_u8` = `AESIMC Vd.16B, Vn.16B`: "result = AESInvMixColumns(operand)"
pub fn vaesimcq_u8(data: uint8x16_t) -> uint8x16_t {
    uint8x16_t(aes_inv_mix_columns(data.0))
}

/// `vdupq_n_u8` = `DUP Vd.16B, Wn`: "for e = 0 to elements-1: Elem[result, e, esize] = element"
pub fn vdupq_n_u8(value: u8) -> uint8x16_t {
    uint8x16_t([value; 16])
}

/// `vdupq_n_u32` = `DUP Vd.4S, Wn`
pub fn vdupq_n_u32(value: u32) -> uint32x4_t {
    uint32x4_t([value; 4])
}

/// `vreinterpretq_u8_u32`: no instruction, the same 128 register bits seen as 16 bytes; on a little-endian
/// AArch64 byte `4i+j` is bits `<8j+7:8j>` of 32-bit element `i`
pub fn vreinterpretq_u8_u32(a: uint32x4_t) -> uint8x16_t {
    let mut r = [0u8; 16];
    for i in 0..4 {
        r[4 * i..4 * i + 4].copy_from_slice(&a.0[i].to_le_bytes());
    }
    uint8x16_t(r)
}

/// `vreinterpretq_u32_u8`: the inverse re-interpretation
pub fn vreinterpretq_u32_u8(a: uint8x16_t) -> uint32x4_t {
    uint32x4_t(core::array::from_fn(|i| u32::from_le_bytes([a.0[4 * i], a.0[4 * i + 1], a.0[4 * i + 2], a.0[4 * i + 3]])))
}

/// `vgetq_lane_u32(v, lane)` = `UMOV Wd, Vn.S[lane]`: "X[d] = ZeroExtend(Elem[operand, index, esize])".
/// In `core::arch::aarch64` the lane is a const generic with legacy call syntax `vgetq_lane_u32(v, 0)`; here it is an
/// ordinary argument with the same range check (0..=3), so the repository's call text compiles unchanged.
pub fn vgetq_lane_u32(v: uint32x4_t, lane: i32) -> u32 {
    assert!((0..4).contains(&lane));
    v.0[lane as usize]
}

#[cfg(test)]
mod tests {
    use super::*;
    #[test]
    fn sbox_anchor_values() {
        // FIPS-197 Figure 7 / Figure 14, a few entries
        assert_eq!(SBOX[0x00], 0x63);
        assert_eq!(SBOX[0x53], 0xed);
        assert_eq!(SBOX[0xff], 0x16);
        assert_eq!(INV_SBOX[0x00], 0x52);
        assert_eq!(INV_SBOX[0x63], 0x00);
    }
}
