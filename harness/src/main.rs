//! Correspondence harness: executes operation lines (see /verif/DESIGN.md §4.2) on the real crates of
//! /repo, in-process, one output line per input line.  The same lines are fed to the Lean driver.
//!
//!   harness run            < ops.txt > impl.out
//!   harness list                      (registry: name, block length, key size)
#![allow(clippy::type_complexity, deprecated)]

use cipher::{
    AlgorithmName, Block as CBlock, BlockCipherDecrypt, BlockCipherEncrypt, BlockSizeUser, Key, KeyInit,
    KeySizeUser,
    array::Array,
    inout::InOutBuf,
};
use std::io::{BufRead, Write};
use std::panic::{AssertUnwindSafe, catch_unwind};

#[macro_use]
mod special;
mod zero;

// The 32-bit fixsliced AES of /repo is selected by the crate only when target_pointer_width != 64, so no build on
// this host ever compiles it.  It is pure safe Rust: include THE FILE OF THE REPOSITORY as a module of the harness
// (`crate::Block` / `crate::hazmat::{Block, Block8}` are what it imports from the aes crate root) — DESIGN §4.4.
pub type Block = Array<u8, cipher::consts::U16>;
#[cfg(feature = "hazmat")]
pub mod hazmat {
    pub type Block = super::Block;
    pub type Block8 = cipher::array::Array<Block, cipher::consts::U8>;
}
#[allow(dead_code, unused, clippy::all)]
#[path = "/repo/aes/src/soft/fixslice32.rs"]
mod fixslice32;
mod fs32;

// Kuznyechik NEON backend (`/repo/kuznyechik/src/neon/*.rs`, `core::arch::aarch64`): not compilable natively on this
// host.  `build.rs` (`build_neon.rs::shadow_kuz_neon`) regenerates `kuz_neon_shadow.rs` from the repository's current
// text at every build, with the intrinsics replaced by the software implementations of `arm_sw_neon.rs` — DESIGN §4.4.
pub mod arm_sw_neon;
include!(concat!(env!("OUT_DIR"), "/kuz_neon_shadow.rs"));
mod neon_kuz;

/// Allocator that paints fresh blocks with 0xCD and freed blocks with 0xDD, so that a partially initialised
/// value moved to the heap cannot be completed by the stale contents of an earlier instance with the same key.
struct PaintAlloc;
unsafe impl std::alloc::GlobalAlloc for PaintAlloc {
    unsafe fn alloc(&self, l: std::alloc::Layout) -> *mut u8 {
        let p = unsafe { std::alloc::System.alloc(l) };
        if !p.is_null() {
            unsafe { std::ptr::write_bytes(p, 0xCD, l.size()) };
        }
        p
    }
    unsafe fn dealloc(&self, p: *mut u8, l: std::alloc::Layout) {
        unsafe { std::ptr::write_bytes(p, 0xDD, l.size()) };
        unsafe { std::alloc::System.dealloc(p, l) }
    }
}
#[global_allocator]
static ALLOC: PaintAlloc = PaintAlloc;

// ---------------------------------------------------------------------------------------------
// object-safe view of a keyed cipher instance

pub trait Obj: Send + Sync {
    fn bl(&self) -> usize;
    /// single block, in place; false = direction not supported by this type
    fn enc(&self, b: &mut [u8]) -> bool;
    fn dec(&self, b: &mut [u8]) -> bool;
    /// multi-block call in the given shape; `inp`/`out` hold n blocks each (for in-place shapes the
    /// caller has copied `inp` into `out`).
    fn many(&self, dec: bool, shape: &str, inp: &[u8], out: &mut [u8]) -> bool;
    fn debug(&self) -> String;
    fn try_clone(&self) -> Option<Box<dyn Obj>>;
}

fn blocks_mut<N: cipher::array::ArraySize>(b: &mut [u8]) -> &mut [Array<u8, N>] {
    let (c, r) = Array::<u8, N>::slice_as_chunks_mut(b);
    assert!(r.is_empty());
    c
}
fn blocks_ref<N: cipher::array::ArraySize>(b: &[u8]) -> &[Array<u8, N>] {
    let (c, r) = Array::<u8, N>::slice_as_chunks(b);
    assert!(r.is_empty());
    c
}

macro_rules! many_impl {
    ($self:expr, $T:ty, $shape:expr, $inp:expr, $out:expr,
     $blocks:ident, $b2b:ident, $inout:ident, $one:ident, $one_b2b:ident, $one_inout:ident) => {{
        type N<T> = <T as BlockSizeUser>::BlockSize;
        match $shape {
            "inplace" => $self.$blocks(blocks_mut::<N<$T>>($out)),
            "b2b" => $self
                .$b2b(blocks_ref::<N<$T>>($inp), blocks_mut::<N<$T>>($out))
                .unwrap(),
            "inout" => {
                let buf = InOutBuf::new(blocks_ref::<N<$T>>($inp), blocks_mut::<N<$T>>($out)).unwrap();
                $self.$inout(buf)
            }
            "inout1" => {
                let mut buf = InOutBuf::new(blocks_ref::<N<$T>>($inp), blocks_mut::<N<$T>>($out)).unwrap();
                for i in 0..buf.len() {
                    $self.$one_inout(buf.get(i));
                }
            }
            "single" => {
                for b in blocks_mut::<N<$T>>($out) {
                    $self.$one(b)
                }
            }
            "b2b1" => {
                for (i, o) in blocks_ref::<N<$T>>($inp).iter().zip(blocks_mut::<N<$T>>($out)) {
                    $self.$one_b2b(i, o)
                }
            }
            _ => return false,
        }
        true
    }};
}

pub struct Full<T>(pub T);
pub struct EncOnly<T>(pub T);
pub struct DecOnly<T>(pub T);

pub trait MaybeDebug {
    fn mdebug(&self) -> String;
}
pub trait MaybeClone: Sized {
    fn mclone(&self) -> Option<Self>;
}

impl<T: BlockCipherEncrypt + BlockCipherDecrypt + MaybeDebug + MaybeClone + Send + Sync + 'static> Obj for Full<T> {
    fn bl(&self) -> usize {
        T::block_size()
    }
    fn enc(&self, b: &mut [u8]) -> bool {
        self.0.encrypt_block(CBlock::<T>::from_mut_slice(b));
        true
    }
    fn dec(&self, b: &mut [u8]) -> bool {
        self.0.decrypt_block(CBlock::<T>::from_mut_slice(b));
        true
    }
    fn many(&self, dec: bool, shape: &str, inp: &[u8], out: &mut [u8]) -> bool {
        if dec {
            many_impl!(self.0, T, shape, inp, out, decrypt_blocks, decrypt_blocks_b2b,
                decrypt_blocks_inout, decrypt_block, decrypt_block_b2b, decrypt_block_inout)
        } else {
            many_impl!(self.0, T, shape, inp, out, encrypt_blocks, encrypt_blocks_b2b,
                encrypt_blocks_inout, encrypt_block, encrypt_block_b2b, encrypt_block_inout)
        }
    }
    fn debug(&self) -> String {
        self.0.mdebug()
    }
    fn try_clone(&self) -> Option<Box<dyn Obj>> {
        self.0.mclone().map(|c| Box::new(Full(c)) as Box<dyn Obj>)
    }
}

impl<T: BlockCipherEncrypt + MaybeDebug + MaybeClone + Send + Sync + 'static> Obj for EncOnly<T> {
    fn bl(&self) -> usize {
        T::block_size()
    }
    fn enc(&self, b: &mut [u8]) -> bool {
        self.0.encrypt_block(CBlock::<T>::from_mut_slice(b));
        true
    }
    fn dec(&self, _b: &mut [u8]) -> bool {
        false
    }
    fn many(&self, dec: bool, shape: &str, inp: &[u8], out: &mut [u8]) -> bool {
        if dec {
            return false;
        }
        many_impl!(self.0, T, shape, inp, out, encrypt_blocks, encrypt_blocks_b2b,
            encrypt_blocks_inout, encrypt_block, encrypt_block_b2b, encrypt_block_inout)
    }
    fn debug(&self) -> String {
        self.0.mdebug()
    }
    fn try_clone(&self) -> Option<Box<dyn Obj>> {
        self.0.mclone().map(|c| Box::new(EncOnly(c)) as Box<dyn Obj>)
    }
}

impl<T: BlockCipherDecrypt + MaybeDebug + MaybeClone + Send + Sync + 'static> Obj for DecOnly<T> {
    fn bl(&self) -> usize {
        T::block_size()
    }
    fn enc(&self, _b: &mut [u8]) -> bool {
        false
    }
    fn dec(&self, b: &mut [u8]) -> bool {
        self.0.decrypt_block(CBlock::<T>::from_mut_slice(b));
        true
    }
    fn many(&self, dec: bool, shape: &str, inp: &[u8], out: &mut [u8]) -> bool {
        if !dec {
            return false;
        }
        many_impl!(self.0, T, shape, inp, out, decrypt_blocks, decrypt_blocks_b2b,
            decrypt_blocks_inout, decrypt_block, decrypt_block_b2b, decrypt_block_inout)
    }
    fn debug(&self) -> String {
        self.0.mdebug()
    }
    fn try_clone(&self) -> Option<Box<dyn Obj>> {
        self.0.mclone().map(|c| Box::new(DecOnly(c)) as Box<dyn Obj>)
    }
}

// ---------------------------------------------------------------------------------------------
// registry

pub struct Entry {
    pub name: &'static str,
    pub bl: usize,
    pub ks: usize,
    pub caps: &'static str, // "ed", "e", "d"
    pub size: usize,
    pub new_slice: fn(&[u8]) -> Result<Box<dyn Obj>, ()>,
    /// `KeyInit::new` on a fixed-size key (None when the length is not `KeySize`)
    pub new_fixed: fn(&[u8]) -> Option<Box<dyn Obj>>,
    pub algname: fn() -> String,
    /// `weak_key_test`: Some(true) = Ok, Some(false) = WeakKeyError, None = wrong length
    pub weak: fn(&[u8]) -> Option<bool>,
    pub new_checked: fn(&[u8]) -> Option<Result<Box<dyn Obj>, ()>>,
    /// zeroize probe (see zero.rs); route in {new, clone}
    pub zero: fn(&[u8], &str, u8) -> Option<zero::Snap>,
}

struct AlgN<T>(std::marker::PhantomData<T>);
impl<T: AlgorithmName> std::fmt::Display for AlgN<T> {
    fn fmt(&self, f: &mut std::fmt::Formatter<'_>) -> std::fmt::Result {
        T::write_alg_name(f)
    }
}

macro_rules! entry {
    ($name:expr, $T:ty, $W:ident, $caps:expr) => {
        Entry {
            name: $name,
            bl: <$T as BlockSizeUser>::BlockSize::USIZE,
            ks: <$T as KeySizeUser>::KeySize::USIZE,
            caps: $caps,
            size: std::mem::size_of::<$T>(),
            new_slice: |k| {
                <$T as KeyInit>::new_from_slice(k)
                    .map(|c| Box::new($W(c)) as Box<dyn Obj>)
                    .map_err(|_| ())
            },
            new_fixed: |k| {
                let key = Key::<$T>::try_from(k).ok()?;
                Some(Box::new($W(<$T as KeyInit>::new(&key))) as Box<dyn Obj>)
            },
            algname: || format!("{}", AlgN::<$T>(std::marker::PhantomData)),
            weak: |k| {
                let key = Key::<$T>::try_from(k).ok()?;
                Some(<$T as KeyInit>::weak_key_test(&key).is_ok())
            },
            new_checked: |k| {
                let key = Key::<$T>::try_from(k).ok()?;
                Some(
                    <$T as KeyInit>::new_checked(&key)
                        .map(|c| Box::new($W(c)) as Box<dyn Obj>)
                        .map_err(|_| ()),
                )
            },
            zero: |k, route, paint| zero::probe::<$T>(k, route, paint),
        }
    };
}

macro_rules! clone_yes { ($($T:ty),* $(,)?) => { $(impl MaybeClone for $T { fn mclone(&self) -> Option<Self> { Some(self.clone()) } }
    impl MaybeDebug for $T { fn mdebug(&self) -> String { format!("{:?}", self) } })* } }
macro_rules! clone_no { ($($T:ty),* $(,)?) => { $(impl MaybeClone for $T { fn mclone(&self) -> Option<Self> { None } })* } }

use cipher::typenum::Unsigned;
use cipher::consts::*;

pub type Rc5_32_12_16 = rc5::RC5<u32, U12, U16>;
pub type Rc5_32_16_16 = rc5::RC5<u32, U16, U16>;
pub type Rc5_32_20_16 = rc5::RC5<u32, U20, U16>;
pub type Rc5_32_12_1 = rc5::RC5<u32, U12, U1>;
pub type Rc5_32_12_5 = rc5::RC5<u32, U12, U5>;
pub type Rc5_32_0_16 = rc5::RC5<u32, U0, U16>;
pub type Rc5_32_1_7 = rc5::RC5<u32, U1, U7>;
pub type Rc5_32_255_255 = rc5::RC5<u32, U255, U255>;
pub type Rc5_8_12_4 = rc5::RC5<u8, U12, U4>;
pub type Rc5_8_3_1 = rc5::RC5<u8, U3, U1>;
pub type Rc5_16_16_8 = rc5::RC5<u16, U16, U8>;
pub type Rc5_16_5_3 = rc5::RC5<u16, U5, U3>;
pub type Rc5_64_24_24 = rc5::RC5<u64, U24, U24>;
pub type Rc5_64_7_17 = rc5::RC5<u64, U7, U17>;
pub type Rc5_128_28_32 = rc5::RC5<u128, U28, U32>;
pub type Rc5_128_9_33 = rc5::RC5<u128, U9, U33>;
pub type Rc5_32_12_0 = rc5::RC5<u32, U12, U0>;

clone_yes!(
    aes::Aes128, aes::Aes192, aes::Aes256, aes::Aes128Enc, aes::Aes192Enc, aes::Aes256Enc,
    aes::Aes128Dec, aes::Aes192Dec, aes::Aes256Dec,
    aria::Aria128, aria::Aria192, aria::Aria256,
    blowfish::Blowfish, blowfish::BlowfishLE, camellia::Camellia128, camellia::Camellia192,
    camellia::Camellia256, cast5::Cast5, cast6::Cast6, des::Des, des::TdesEde3, des::TdesEde2,
    des::TdesEee3, des::TdesEee2, gift_cipher::Gift128, idea::Idea, kuznyechik::Kuznyechik,
    kuznyechik::KuznyechikEnc, kuznyechik::KuznyechikDec, magma::Magma, magma::Gost89Test,
    magma::Gost89CryptoProA, magma::Gost89CryptoProB, magma::Gost89CryptoProC,
    magma::Gost89CryptoProD, rc2::Rc2, serpent::Serpent, sm4::Sm4,
    speck_cipher::Speck32_64, speck_cipher::Speck48_72, speck_cipher::Speck48_96,
    speck_cipher::Speck64_96, speck_cipher::Speck64_128, speck_cipher::Speck96_96,
    speck_cipher::Speck96_144, speck_cipher::Speck128_128, speck_cipher::Speck128_192,
    speck_cipher::Speck128_256, threefish::Threefish256, threefish::Threefish512,
    threefish::Threefish1024, twofish::Twofish,
    Rc5_32_12_16, Rc5_32_16_16, Rc5_32_20_16, Rc5_32_12_1, Rc5_32_12_5, Rc5_32_0_16, Rc5_32_1_7,
    Rc5_32_255_255, Rc5_8_12_4, Rc5_8_3_1, Rc5_16_16_8, Rc5_16_5_3, Rc5_64_24_24, Rc5_64_7_17,
    Rc5_128_28_32, Rc5_128_9_33, Rc5_32_12_0,
    special::Gost89User,
    neon_kuz::NeonKuznyechik, neon_kuz::NeonKuznyechikEnc, neon_kuz::NeonKuznyechikDec,
);
clone_no!(xtea::Xtea);
impl MaybeDebug for xtea::Xtea {
    fn mdebug(&self) -> String {
        format!("{:?}", self)
    }
}
// ARMv8 AES backend of /repo run through software intrinsics (shadow build, see build.rs / armv8sh.rs); declared here
// because it uses the `entry!` / `clone_yes!` macros above and the route macros of `special`.
pub mod arm_sw;
mod armv8sh;

// BeltBlock has no Debug impl
impl MaybeClone for belt_block::BeltBlock {
    fn mclone(&self) -> Option<Self> {
        Some(self.clone())
    }
}
impl MaybeDebug for belt_block::BeltBlock {
    fn mdebug(&self) -> String {
        "<no-debug-impl>".into()
    }
}

pub fn registry() -> Vec<Entry> {
    let mut reg = registry_real();
    reg.extend(armv8sh::entries());
    reg
}

fn registry_real() -> Vec<Entry> {
    vec![
        entry!("Aes128", aes::Aes128, Full, "ed"),
        entry!("Aes192", aes::Aes192, Full, "ed"),
        entry!("Aes256", aes::Aes256, Full, "ed"),
        entry!("Aes128Enc", aes::Aes128Enc, EncOnly, "e"),
        entry!("Aes192Enc", aes::Aes192Enc, EncOnly, "e"),
        entry!("Aes256Enc", aes::Aes256Enc, EncOnly, "e"),
        entry!("Aes128Dec", aes::Aes128Dec, DecOnly, "d"),
        entry!("Aes192Dec", aes::Aes192Dec, DecOnly, "d"),
        entry!("Aes256Dec", aes::Aes256Dec, DecOnly, "d"),
        entry!("Aria128", aria::Aria128, Full, "ed"),
        entry!("Aria192", aria::Aria192, Full, "ed"),
        entry!("Aria256", aria::Aria256, Full, "ed"),
        entry!("BeltBlock", belt_block::BeltBlock, Full, "ed"),
        entry!("Blowfish", blowfish::Blowfish, Full, "ed"),
        entry!("BlowfishLE", blowfish::BlowfishLE, Full, "ed"),
        entry!("Camellia128", camellia::Camellia128, Full, "ed"),
        entry!("Camellia192", camellia::Camellia192, Full, "ed"),
        entry!("Camellia256", camellia::Camellia256, Full, "ed"),
        entry!("Cast5", cast5::Cast5, Full, "ed"),
        entry!("Cast6", cast6::Cast6, Full, "ed"),
        entry!("Des", des::Des, Full, "ed"),
        entry!("TdesEde3", des::TdesEde3, Full, "ed"),
        entry!("TdesEde2", des::TdesEde2, Full, "ed"),
        entry!("TdesEee3", des::TdesEee3, Full, "ed"),
        entry!("TdesEee2", des::TdesEee2, Full, "ed"),
        entry!("Gift128", gift_cipher::Gift128, Full, "ed"),
        entry!("Idea", idea::Idea, Full, "ed"),
        entry!("Kuznyechik", kuznyechik::Kuznyechik, Full, "ed"),
        entry!("KuznyechikEnc", kuznyechik::KuznyechikEnc, EncOnly, "e"),
        entry!("KuznyechikDec", kuznyechik::KuznyechikDec, DecOnly, "d"),
        entry!("Magma", magma::Magma, Full, "ed"),
        entry!("Gost89Test", magma::Gost89Test, Full, "ed"),
        entry!("Gost89CryptoProA", magma::Gost89CryptoProA, Full, "ed"),
        entry!("Gost89CryptoProB", magma::Gost89CryptoProB, Full, "ed"),
        entry!("Gost89CryptoProC", magma::Gost89CryptoProC, Full, "ed"),
        entry!("Gost89CryptoProD", magma::Gost89CryptoProD, Full, "ed"),
        entry!("Gost89User", special::Gost89User, Full, "ed"),
        entry!("Rc2", rc2::Rc2, Full, "ed"),
        entry!("Serpent", serpent::Serpent, Full, "ed"),
        entry!("Sm4", sm4::Sm4, Full, "ed"),
        entry!("Speck32_64", speck_cipher::Speck32_64, Full, "ed"),
        entry!("Speck48_72", speck_cipher::Speck48_72, Full, "ed"),
        entry!("Speck48_96", speck_cipher::Speck48_96, Full, "ed"),
        entry!("Speck64_96", speck_cipher::Speck64_96, Full, "ed"),
        entry!("Speck64_128", speck_cipher::Speck64_128, Full, "ed"),
        entry!("Speck96_96", speck_cipher::Speck96_96, Full, "ed"),
        entry!("Speck96_144", speck_cipher::Speck96_144, Full, "ed"),
        entry!("Speck128_128", speck_cipher::Speck128_128, Full, "ed"),
        entry!("Speck128_192", speck_cipher::Speck128_192, Full, "ed"),
        entry!("Speck128_256", speck_cipher::Speck128_256, Full, "ed"),
        entry!("Threefish256", threefish::Threefish256, Full, "ed"),
        entry!("Threefish512", threefish::Threefish512, Full, "ed"),
        entry!("Threefish1024", threefish::Threefish1024, Full, "ed"),
        entry!("Twofish", twofish::Twofish, Full, "ed"),
        entry!("Xtea", xtea::Xtea, Full, "ed"),
        entry!("Rc5_32_12_16", Rc5_32_12_16, Full, "ed"),
        entry!("Rc5_32_16_16", Rc5_32_16_16, Full, "ed"),
        entry!("Rc5_32_20_16", Rc5_32_20_16, Full, "ed"),
        entry!("Rc5_32_12_1", Rc5_32_12_1, Full, "ed"),
        entry!("Rc5_32_12_5", Rc5_32_12_5, Full, "ed"),
        entry!("Rc5_32_0_16", Rc5_32_0_16, Full, "ed"),
        entry!("Rc5_32_1_7", Rc5_32_1_7, Full, "ed"),
        entry!("Rc5_32_255_255", Rc5_32_255_255, Full, "ed"),
        entry!("Rc5_8_12_4", Rc5_8_12_4, Full, "ed"),
        entry!("Rc5_8_3_1", Rc5_8_3_1, Full, "ed"),
        entry!("Rc5_16_16_8", Rc5_16_16_8, Full, "ed"),
        entry!("Rc5_16_5_3", Rc5_16_5_3, Full, "ed"),
        entry!("Rc5_64_24_24", Rc5_64_24_24, Full, "ed"),
        entry!("Rc5_64_7_17", Rc5_64_7_17, Full, "ed"),
        entry!("Rc5_128_28_32", Rc5_128_28_32, Full, "ed"),
        entry!("Rc5_128_9_33", Rc5_128_9_33, Full, "ed"),
        entry!("Rc5_32_12_0", Rc5_32_12_0, Full, "ed"),
        entry!("NeonKuznyechik", neon_kuz::NeonKuznyechik, Full, "ed"),
        entry!("NeonKuznyechikEnc", neon_kuz::NeonKuznyechikEnc, EncOnly, "e"),
        entry!("NeonKuznyechikDec", neon_kuz::NeonKuznyechikDec, DecOnly, "d"),
    ]
}

// ---------------------------------------------------------------------------------------------
// hex + line execution

pub fn unhex(s: &str) -> Option<Vec<u8>> {
    if s == "-" {
        return Some(vec![]);
    }
    if s.len() % 2 != 0 {
        return None;
    }
    (0..s.len() / 2)
        .map(|i| u8::from_str_radix(&s[2 * i..2 * i + 2], 16).ok())
        .collect()
}
pub fn hex(b: &[u8]) -> String {
    if b.is_empty() {
        return "-".into();
    }
    b.iter().map(|x| format!("{:02x}", x)).collect()
}

/// fixed probe plaintext for "same cipher" comparisons: 4 blocks worth of bytes i*37+11
pub fn probe_bytes(bl: usize) -> Vec<u8> {
    (0..4 * bl).map(|i| (i as u8).wrapping_mul(37).wrapping_add(11)).collect()
}

/// probe = enc of the 4 probe blocks ++ dec of them (each if supported)
pub fn probe(o: &dyn Obj) -> String {
    let bl = o.bl();
    let p = probe_bytes(bl);
    let mut s = String::new();
    let mut e = p.clone();
    let mut okk = true;
    for c in e.chunks_mut(bl) {
        okk &= o.enc(c);
    }
    s += &if okk { hex(&e) } else { "x".into() };
    s += ":";
    let mut d = p.clone();
    let mut okk = true;
    for c in d.chunks_mut(bl) {
        okk &= o.dec(c);
    }
    s += &if okk { hex(&d) } else { "x".into() };
    s
}

fn find<'a>(reg: &'a [Entry], n: &str) -> Option<&'a Entry> {
    reg.iter().find(|e| e.name == n)
}

fn exec(reg: &[Entry], line: &str) -> String {
    let t: Vec<&str> = line.split(' ').collect();
    if t.is_empty() {
        return "bad-op".into();
    }
    if let Some(r) = armv8sh::exec(&t) {
        return r;
    }
    if let Some(r) = special::exec(&t) {
        return r;
    }
    if let Some(r) = fs32::exec(&t) {
        return r;
    }
    if let Some(r) = neon_kuz::exec(&t) {
        return r;
    }
    if t[0] == "hist" {
        return hist(reg, t.get(1).copied().unwrap_or(""));
    }
    if t.len() < 2 {
        return "bad-op".into();
    }
    let Some(e) = find(reg, t[1]) else {
        return "unknown-cipher".into();
    };
    let arg = |i: usize| -> Option<Vec<u8>> { t.get(i).and_then(|s| unhex(s)) };
    match t[0] {
        "new" => {
            let Some(k) = arg(2) else { return "bad-op".into() };
            match (e.new_slice)(&k) {
                Ok(_) => "ok".into(),
                Err(_) => "err-len".into(),
            }
        }
        "probe" => {
            let Some(k) = arg(2) else { return "bad-op".into() };
            match (e.new_slice)(&k) {
                Ok(o) => probe(&*o),
                Err(_) => "err-len".into(),
            }
        }
        "probefixed" => {
            let Some(k) = arg(2) else { return "bad-op".into() };
            match (e.new_fixed)(&k) {
                Some(o) => probe(&*o),
                None => "err-len".into(),
            }
        }
        "probeclone" => {
            let Some(k) = arg(2) else { return "bad-op".into() };
            match (e.new_slice)(&k) {
                Ok(o) => match {
                    zero::paint_stack(0xA5);
                    o.try_clone()
                } {
                    Some(c) => {
                        drop(o);
                        zero::paint_stack(0x3C);
                        probe(&*c)
                    }
                    None => "noclone".into(),
                },
                Err(_) => "err-len".into(),
            }
        }
        "enc" | "dec" => {
            let (Some(k), Some(mut b)) = (arg(2), arg(3)) else { return "bad-op".into() };
            if b.len() != e.bl {
                return "bad-op".into();
            }
            match (e.new_slice)(&k) {
                Ok(o) => {
                    let okk = if t[0] == "enc" { o.enc(&mut b) } else { o.dec(&mut b) };
                    if okk { hex(&b) } else { "unsupported".into() }
                }
                Err(_) => "err-len".into(),
            }
        }
        // round trip: enc, dec(enc), dec, enc(dec)
        "rt" => {
            let (Some(k), Some(b)) = (arg(2), arg(3)) else { return "bad-op".into() };
            if b.len() != e.bl {
                return "bad-op".into();
            }
            match (e.new_slice)(&k) {
                Ok(o) => {
                    let mut x = b.clone();
                    if !o.enc(&mut x) {
                        return "unsupported".into();
                    }
                    let mut y = x.clone();
                    if !o.dec(&mut y) {
                        return "unsupported".into();
                    }
                    let mut u = b.clone();
                    o.dec(&mut u);
                    let mut v = u.clone();
                    o.enc(&mut v);
                    format!("{} {} {} {}", hex(&x), hex(&y), hex(&u), hex(&v))
                }
                Err(_) => "err-len".into(),
            }
        }
        // encs|decs <cipher> <shape> <offset> <keyhex> <datahex>
        "encs" | "decs" => {
            let shape = t.get(2).copied().unwrap_or("");
            let off: usize = t.get(3).and_then(|s| s.parse().ok()).unwrap_or(0);
            let (Some(k), Some(data)) = (arg(4), arg(5)) else { return "bad-op".into() };
            if data.len() % e.bl != 0 || off > 64 {
                return "bad-op".into();
            }
            let Ok(o) = (e.new_slice)(&k) else { return "err-len".into() };
            let n = data.len();
            const PAD: usize = 96;
            // input and output buffers carved at byte offset `off` of canary-filled allocations
            let mut ibuf = vec![0xC3u8; n + 2 * PAD];
            let mut obuf = vec![0x3Cu8; n + 2 * PAD];
            let ibase = 16 - (ibuf.as_ptr() as usize % 16);
            let obase = 16 - (obuf.as_ptr() as usize % 16);
            let (is, os) = (ibase + off, obase + off);
            ibuf[is..is + n].copy_from_slice(&data);
            let inplace = matches!(shape, "inplace" | "single");
            if inplace {
                obuf[os..os + n].copy_from_slice(&data);
            }
            let okk = {
                let (inp, out) = (&ibuf[is..is + n], &mut obuf[os..os + n]);
                o.many(t[0] == "decs", shape, inp, out)
            };
            if !okk {
                return "unsupported".into();
            }
            let in_ok = ibuf[is..is + n] == data[..]
                && ibuf[..is].iter().all(|&x| x == 0xC3)
                && ibuf[is + n..].iter().all(|&x| x == 0xC3);
            let can_ok = obuf[..os].iter().all(|&x| x == 0x3C) && obuf[os + n..].iter().all(|&x| x == 0x3C);
            format!(
                "{} in={} canary={}",
                hex(&obuf[os..os + n]),
                if in_ok { "ok" } else { "changed" },
                if can_ok { "ok" } else { "bad" }
            )
        }
        // thr <cipher> <nthreads> <keyhex> <hex of n blocks>: a shared instance used by all threads while
        // every thread also constructs its own instance at the same moment (first use in a fresh
        // process races the CPU-feature detection).  Output: enc via shared ':' enc via per-thread.
        "thr" => {
            let nt: usize = t.get(2).and_then(|s| s.parse().ok()).unwrap_or(2).clamp(1, 64);
            let (Some(k), Some(data)) = (arg(3), arg(4)) else { return "bad-op".into() };
            if data.len() % e.bl != 0 {
                return "bad-op".into();
            }
            let bl = e.bl;
            let new_slice = e.new_slice;
            let barrier = std::sync::Arc::new(std::sync::Barrier::new(nt + 1));
            let shared: std::sync::Arc<std::sync::OnceLock<Box<dyn Obj>>> = Default::default();
            let blocks: Vec<Vec<u8>> = data.chunks(bl).map(|c| c.to_vec()).collect();
            let mut hs = vec![];
            for ti in 0..nt {
                let (barrier, shared, k, blocks) = (barrier.clone(), shared.clone(), k.clone(), blocks.clone());
                hs.push(std::thread::spawn(move || -> Result<Vec<(usize, Vec<u8>, Vec<u8>)>, ()> {
                    barrier.wait();
                    let own = new_slice(&k)?;
                    let sh = shared.get_or_init(|| new_slice(&k).unwrap());
                    let mut res = vec![];
                    for (i, b) in blocks.iter().enumerate() {
                        if i % nt != ti {
                            continue;
                        }
                        let (mut x, mut y) = (b.clone(), b.clone());
                        let _ = sh.enc(&mut x) || sh.dec(&mut x);
                        let _ = own.enc(&mut y) || own.dec(&mut y);
                        res.push((i, x, y));
                    }
                    Ok(res)
                }));
            }
            barrier.wait();
            let mut all = vec![];
            for h in hs {
                match h.join() {
                    Ok(Ok(r)) => all.extend(r),
                    Ok(Err(())) => return "err-len".into(),
                    Err(_) => return "panic:thread".into(),
                }
            }
            all.sort();
            let a: Vec<u8> = all.iter().flat_map(|x| x.1.clone()).collect();
            let b: Vec<u8> = all.iter().flat_map(|x| x.2.clone()).collect();
            format!("{}:{}", hex(&a), hex(&b))
        }
        "debug" => {
            let Some(k) = arg(2) else { return "bad-op".into() };
            match (e.new_slice)(&k) {
                Ok(o) => format!("s:{}", o.debug().replace('\n', "\\n")),
                Err(_) => "err-len".into(),
            }
        }
        "algname" => format!("s:{}", (e.algname)()),
        "weak" => {
            let Some(k) = arg(2) else { return "bad-op".into() };
            match (e.weak)(&k) {
                Some(true) => "ok".into(),
                Some(false) => "err-weak".into(),
                None => "err-len".into(),
            }
        }
        "newchecked" => {
            let Some(k) = arg(2) else { return "bad-op".into() };
            match (e.new_checked)(&k) {
                Some(Ok(o)) => format!("ok:{}", probe(&*o)),
                Some(Err(_)) => "err-weak".into(),
                None => "err-len".into(),
            }
        }
        // zero <cipher> <route> <key1> <key2> [<key3>..]  (only meaningful with --features zeroize)
        "zero" => {
            let route = t.get(2).copied().unwrap_or("new");
            let keys: Option<Vec<Vec<u8>>> = (3..t.len()).map(|i| arg(i)).collect();
            let Some(keys) = keys else { return "bad-op".into() };
            if keys.len() < 2 {
                return "bad-op".into();
            }
            zero::run(e, route, &keys)
        }
        _ => "bad-op".into(),
    }
}

/// hist <script>: `;`-separated commands over named instances
///   n:<id>:<Cipher>:<keyhex>   construct        c:<id>:<src>   clone src into id      x:<id>  drop
///   e:<id>:<blockhex> / d:<id>:<blockhex>        single-block encrypt / decrypt  -> hex
///   E:<id>:<hex of blocks> / D:<id>:<hex>         multi-block in place            -> hex
/// output: the results of e/d/E/D joined by ','
fn hist(reg: &[Entry], script: &str) -> String {
    use std::collections::HashMap;
    let mut inst: HashMap<String, Box<dyn Obj>> = HashMap::new();
    let mut outs: Vec<String> = vec![];
    for cmd in script.split(';') {
        let f: Vec<&str> = cmd.split(':').collect();
        match f[0] {
            "n" if f.len() == 4 => {
                let Some(e) = find(reg, f[2]) else { return "unknown-cipher".into() };
                let Some(k) = unhex(f[3]) else { return "bad-op".into() };
                match (e.new_slice)(&k) {
                    Ok(o) => {
                        inst.insert(f[1].into(), o);
                    }
                    Err(_) => return "err-len".into(),
                }
            }
            "r" if f.len() == 5 => {
                let Some(k) = unhex(f[4]) else { return "bad-op".into() };
                match special::route_instance(f[2], f[3], &k) {
                    Some(o) => {
                        inst.insert(f[1].into(), o);
                    }
                    None => return "err-len".into(),
                }
            }
            "c" if f.len() == 3 => {
                let Some(c) = inst.get(f[2]).and_then(|o| o.try_clone()) else { return "noclone".into() };
                inst.insert(f[1].into(), c);
            }
            "x" if f.len() == 2 => {
                inst.remove(f[1]);
            }
            "e" | "d" | "E" | "D" if f.len() == 3 => {
                let Some(o) = inst.get(f[1]) else { return "bad-op".into() };
                let Some(mut b) = unhex(f[2]) else { return "bad-op".into() };
                if b.is_empty() || b.len() % o.bl() != 0 {
                    return "bad-op".into();
                }
                let okk = match f[0] {
                    "e" => o.enc(&mut b),
                    "d" => o.dec(&mut b),
                    "E" => {
                        let i = b.clone();
                        o.many(false, "inplace", &i, &mut b)
                    }
                    _ => {
                        let i = b.clone();
                        o.many(true, "inplace", &i, &mut b)
                    }
                };
                outs.push(if okk { hex(&b) } else { "unsupported".into() });
            }
            _ => return "bad-op".into(),
        }
    }
    outs.join(",")
}

fn panic_kind(msg: &str) -> &'static str {
    if msg.contains("overflow") {
        "overflow"
    } else if msg.contains("index out of bounds") || msg.contains("out of range") {
        "index"
    } else if msg.contains("unwrap") || msg.contains("expect") {
        "unwrap"
    } else if msg.contains("assert") {
        "assert"
    } else {
        "other"
    }
}

fn main() {
    let args: Vec<String> = std::env::args().collect();
    let reg = registry();
    match args.get(1).map(|s| s.as_str()) {
        Some("list") => {
            for e in &reg {
                println!("{} {} {} {} {}", e.name, e.bl, e.ks, e.caps, e.size);
            }
        }
        Some("run") => {
            if std::env::var_os("VERIF_CPU_OFF").is_some() {
                cpufeatures::VERIF_FORCE_OFF.store(true, std::sync::atomic::Ordering::SeqCst);
            }
            std::panic::set_hook(Box::new(|_| {}));
            let stdin = std::io::stdin();
            let stdout = std::io::stdout();
            let mut out = std::io::BufWriter::new(stdout.lock());
            for line in stdin.lock().lines() {
                let line = line.unwrap();
                let line = line.trim();
                if line.is_empty() || line.starts_with('#') {
                    writeln!(out, "{}", line).unwrap();
                    continue;
                }
                let r = catch_unwind(AssertUnwindSafe(|| exec(&reg, line)));
                let s = match r {
                    Ok(s) => s,
                    Err(p) => {
                        let msg = if let Some(s) = p.downcast_ref::<String>() {
                            s.clone()
                        } else if let Some(s) = p.downcast_ref::<&str>() {
                            s.to_string()
                        } else {
                            String::new()
                        };
                        format!("panic:{}", panic_kind(&msg))
                    }
                };
                writeln!(out, "{}", s).unwrap();
            }
        }
        _ => {
            eprintln!("usage: harness run|list");
            std::process::exit(2);
        }
    }
}
