//! Operation lines that execute /repo/aes/src/soft/fixslice32.rs (included by `#[path]` in main.rs) directly.
//!
//!   aesfs32[c]   <enc|dec> <keyhex> <hex of 1..2 blocks>   one aesN_encrypt/decrypt call, short batch zero padded
//!   aesfs32[c]b  <enc|dec> <keyhex> <hex of n>=0 blocks>   chunks of 2 through the batch function, tail block in slot 0
//!   aesfs32[c]ks <keyhex>                                   the round-key words (u32, big-endian hex each)
//!   aesfs32hz    <fn> <blockhex> [<keyhex>]                  hazmat functions (feature hazmat)
//! The `c` forms answer only in a build with `--cfg aes_compact`, the plain forms only without it (the file has
//! the two variants under that cfg); the other form prints `unsupported`.
use crate::fixslice32 as f;
use crate::{Block, hex, unhex};
use cipher::array::Array;

type Batch = f::BatchBlocks;

enum Keys {
    K128(Box<f::FixsliceKeys128>),
    K192(Box<f::FixsliceKeys192>),
    K256(Box<f::FixsliceKeys256>),
}

fn schedule(key: &[u8]) -> Option<Keys> {
    Some(match key.len() {
        16 => Keys::K128(Box::new(f::aes128_key_schedule(key.try_into().ok()?))),
        24 => Keys::K192(Box::new(f::aes192_key_schedule(key.try_into().ok()?))),
        32 => Keys::K256(Box::new(f::aes256_key_schedule(key.try_into().ok()?))),
        _ => return None,
    })
}

fn call(k: &Keys, enc: bool, b: &Batch) -> Batch {
    match (k, enc) {
        (Keys::K128(k), true) => f::aes128_encrypt(k, b),
        (Keys::K128(k), false) => f::aes128_decrypt(k, b),
        (Keys::K192(k), true) => f::aes192_encrypt(k, b),
        (Keys::K192(k), false) => f::aes192_decrypt(k, b),
        (Keys::K256(k), true) => f::aes256_encrypt(k, b),
        (Keys::K256(k), false) => f::aes256_decrypt(k, b),
    }
}

fn blk(b: &[u8]) -> Block {
    Array::try_from(b).unwrap()
}

pub fn exec(t: &[&str]) -> Option<String> {
    let op = t[0];
    if !op.starts_with("aesfs32") {
        return None;
    }
    let rest = &op[7..];
    if rest == "hz" {
        return Some(hz(t));
    }
    let compact_form = rest.starts_with('c');
    if compact_form != cfg!(aes_compact) {
        return Some("unsupported".into());
    }
    let kind = if compact_form { &rest[1..] } else { rest };
    let arg = |i: usize| -> Option<Vec<u8>> { t.get(i).and_then(|s| unhex(s)) };
    Some(match kind {
        "ks" => {
            let Some(k) = arg(1) else { return Some("bad-op".into()) };
            match schedule(&k) {
                None => "err-len".into(),
                Some(Keys::K128(w)) => w.iter().map(|x| format!("{x:08x}")).collect(),
                Some(Keys::K192(w)) => w.iter().map(|x| format!("{x:08x}")).collect(),
                Some(Keys::K256(w)) => w.iter().map(|x| format!("{x:08x}")).collect(),
            }
        }
        "" | "b" => {
            let enc = match t.get(1).copied() {
                Some("enc") => true,
                Some("dec") => false,
                _ => return Some("bad-op".into()),
            };
            let (Some(k), Some(d)) = (arg(2), arg(3)) else { return Some("bad-op".into()) };
            if d.len() % 16 != 0 || (kind.is_empty() && (d.is_empty() || d.len() > 32)) {
                return Some("bad-op".into());
            }
            let Some(keys) = schedule(&k) else { return Some("err-len".into()) };
            let mut out = Vec::with_capacity(d.len());
            let mut it = d.chunks_exact(32);
            for c in &mut it {
                let b: Batch = Array([blk(&c[..16]), blk(&c[16..])]);
                let r = call(&keys, enc, &b);
                out.extend_from_slice(&r[0]);
                out.extend_from_slice(&r[1]);
            }
            let tail = it.remainder();
            if !tail.is_empty() {
                let mut b = Batch::default();
                b[0] = blk(tail);
                let r = call(&keys, enc, &b);
                out.extend_from_slice(&r[0]);
            }
            format!("{} in=ok canary=ok", hex(&out))
        }
        _ => "bad-op".into(),
    })
}

#[cfg(not(feature = "hazmat"))]
fn hz(_t: &[&str]) -> String {
    "unsupported".into()
}

#[cfg(feature = "hazmat")]
fn hz(t: &[&str]) -> String {
    let arg = |i: usize| -> Option<Vec<u8>> { t.get(i).and_then(|s| unhex(s)) };
    let Some(b) = arg(2) else { return "bad-op".into() };
    if b.len() != 16 {
        return "bad-op".into();
    }
    let mut x = blk(&b);
    match t.get(1).copied() {
        Some("mix_columns") => f::hazmat::mix_columns(&mut x),
        Some("inv_mix_columns") => f::hazmat::inv_mix_columns(&mut x),
        Some(name @ ("cipher_round" | "equiv_inv_cipher_round")) => {
            let Some(k) = arg(3) else { return "bad-op".into() };
            if k.len() != 16 {
                return "bad-op".into();
            }
            let k = blk(&k);
            if name == "cipher_round" {
                f::hazmat::cipher_round(&mut x, &k)
            } else {
                f::hazmat::equiv_inv_cipher_round(&mut x, &k)
            }
        }
        Some(name @ ("cipher_round_par" | "equiv_inv_cipher_round_par")) => {
            // aesfs32hz <fn>_par <hex of 8 blocks> <hex of 8 keys>
            let (Some(bs), Some(ks)) = (arg(2), arg(3)) else { return "bad-op".into() };
            let _ = (bs, ks, name);
            return "bad-op".into();
        }
        _ => return "bad-op".into(),
    }
    hex(&x)
}
