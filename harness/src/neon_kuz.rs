//! Kuznyechik NEON backend, executed on this host (DESIGN §4.4): the shadow module `crate::kuz_neon_shadow` is
//! generated at build time by `build_neon.rs` from the CURRENT text of `/repo/kuznyechik/src/{lib.rs, neon/*.rs, …}`
//! with `core::arch::aarch64` replaced by the software intrinsics of `arm_sw_neon.rs`.  Its three public types are
//! registered as `NeonKuznyechik`, `NeonKuznyechikEnc`, `NeonKuznyechikDec` (every generic op of the line protocol
//! works on them; families `route NeonKuznyechik …`, `zroute NeonKuznyechik …`, `r:<id>:NeonKuznyechik:…` in `hist`).
//!
//! Extra operation lines (function-level correspondence with the Lean model `BC.Kuznyechik.Neon.*`):
//!
//!   neonfn <transform_enc|transform_dec|sub_bytes_p|sub_bytes_pinv> <hex16>      -> hex16
//!         the repository's private `transform(·, &ENC_TABLE|&DEC_TABLE)` / `sub_bytes(·, &P|&P_INV)` on the register
//!         loaded from the 16 bytes (`vld1q_u8`), result stored with `vst1q_u8`
//!   neonks <c|e|d> <keyhex32>                                                    -> hex
//!         memory image of the stored round keys: `c` = `Kuznyechik` (`keys.enc` ++ `keys.dec`, 320 bytes),
//!         `e` = `KuznyechikEnc` (160), `d` = `KuznyechikDec` (160)
//!   neonpar                                                                       -> ParBlocksSize of the backend
//!   neonintr <intrinsic> <args…>                                                  -> hex
//!         one software intrinsic of `arm_sw_neon.rs`; registers are written as their 16 bytes in element order
//!         (= the bytes `vst1q_u8` would store); immediates in decimal:
//!           veorq_u8 a b | vorrq_u8 a b | vsubq_u8 a b | vzip1q_u8 a b | vzip2q_u8 a b | vdupq_n_u8 <hex1>
//!           vqtbl4q_u8 <table hex64> idx | vqtbx4q_u8 a <table hex64> idx | vshlq_n_u16 a <n> | vgetq_lane_u16 a <lane>
//!           vcombine_u8 <lo u64 as 16 hex digits> <hi u64 as 16 hex digits>   (vcombine_u8(vcreate_u8(lo), vcreate_u8(hi)))
//!           vld1q_u8_x4 <hex64> (the 4 registers)
use crate::arm_sw_neon::*;
use crate::kuz_neon_shadow as sh;
use crate::{hex, unhex};
use cipher::KeyInit;

pub type NeonKuznyechik = sh::Kuznyechik;
pub type NeonKuznyechikEnc = sh::KuznyechikEnc;
pub type NeonKuznyechikDec = sh::KuznyechikDec;

fn b16(v: &[u8]) -> Option<[u8; 16]> {
    <[u8; 16]>::try_from(v).ok()
}
fn reg(v: &[u8]) -> Option<uint8x16_t> {
    let a = b16(v)?;
    Some(unsafe { vld1q_u8(a.as_ptr()) })
}
fn out(v: uint8x16_t) -> String {
    let mut o = [0u8; 16];
    unsafe { vst1q_u8(o.as_mut_ptr(), v) };
    hex(&o)
}
fn tab(v: &[u8]) -> Option<uint8x16x4_t> {
    if v.len() != 64 {
        return None;
    }
    Some(uint8x16x4_t(reg(&v[0..16])?, reg(&v[16..32])?, reg(&v[32..48])?, reg(&v[48..64])?))
}

pub fn exec(t: &[&str]) -> Option<String> {
    let arg = |i: usize| -> Option<Vec<u8>> { t.get(i).and_then(|s| unhex(s)) };
    let bad = || Some("bad-op".to_string());
    match t[0] {
        "neonfn" => {
            let Some(b) = arg(2).as_deref().and_then(b16) else { return bad() };
            let r = match t.get(1).copied().unwrap_or("") {
                "transform_enc" => sh::verif_hooks::transform_enc(&b),
                "transform_dec" => sh::verif_hooks::transform_dec(&b),
                "sub_bytes_p" => sh::verif_hooks::sub_bytes_p(&b),
                "sub_bytes_pinv" => sh::verif_hooks::sub_bytes_pinv(&b),
                _ => return bad(),
            };
            Some(hex(&r))
        }
        "neonks" => {
            let Some(k) = arg(2) else { return bad() };
            Some(match t.get(1).copied().unwrap_or("") {
                "c" => match NeonKuznyechik::new_from_slice(&k) {
                    Ok(c) => {
                        let (e, d) = sh::verif_hooks::keys_c(&c);
                        format!("{}{}", hex(&e), hex(&d))
                    }
                    Err(_) => "err-len".into(),
                },
                "e" => match NeonKuznyechikEnc::new_from_slice(&k) {
                    Ok(c) => hex(&sh::verif_hooks::keys_e(&c)),
                    Err(_) => "err-len".into(),
                },
                "d" => match NeonKuznyechikDec::new_from_slice(&k) {
                    Ok(c) => hex(&sh::verif_hooks::keys_d(&c)),
                    Err(_) => "err-len".into(),
                },
                _ => return bad(),
            })
        }
        "neonpar" => Some(format!("{}", sh::verif_hooks::PAR_BLOCKS)),
        "neonintr" => {
            let name = t.get(1).copied().unwrap_or("");
            let r2 = |f: fn(uint8x16_t, uint8x16_t) -> uint8x16_t| -> Option<String> {
                let (Some(a), Some(b)) = (arg(2).as_deref().and_then(reg), arg(3).as_deref().and_then(reg)) else { return bad() };
                Some(out(f(a, b)))
            };
            match name {
                "veorq_u8" => r2(veorq_u8),
                "vorrq_u8" => r2(vorrq_u8),
                "vsubq_u8" => r2(vsubq_u8),
                "vzip1q_u8" => r2(vzip1q_u8),
                "vzip2q_u8" => r2(vzip2q_u8),
                "vdupq_n_u8" => {
                    let Some(v) = arg(2).filter(|v| v.len() == 1) else { return bad() };
                    Some(out(vdupq_n_u8(v[0])))
                }
                "vqtbl4q_u8" => {
                    let (Some(tb), Some(i)) = (arg(2).as_deref().and_then(tab), arg(3).as_deref().and_then(reg)) else { return bad() };
                    Some(out(vqtbl4q_u8(tb, i)))
                }
                "vqtbx4q_u8" => {
                    let (Some(a), Some(tb), Some(i)) =
                        (arg(2).as_deref().and_then(reg), arg(3).as_deref().and_then(tab), arg(4).as_deref().and_then(reg))
                    else {
                        return bad();
                    };
                    Some(out(vqtbx4q_u8(a, tb, i)))
                }
                "vshlq_n_u16" => {
                    let (Some(a), Some(n)) = (arg(2).as_deref().and_then(reg), t.get(3).and_then(|s| s.parse::<i32>().ok())) else {
                        return bad();
                    };
                    if !(0..16).contains(&n) {
                        return bad();
                    }
                    let r = vshlq_n_u16(vreinterpretq_u16_u8(a), n);
                    // halfword elements back to bytes, little-endian element layout
                    let bytes: Vec<u8> = (0..8).flat_map(|k| vgetq_lane_u16(r, k).to_le_bytes()).collect();
                    Some(hex(&bytes))
                }
                "vgetq_lane_u16" => {
                    let (Some(a), Some(n)) = (arg(2).as_deref().and_then(reg), t.get(3).and_then(|s| s.parse::<i32>().ok())) else {
                        return bad();
                    };
                    if !(0..8).contains(&n) {
                        return bad();
                    }
                    Some(format!("{:04x}", vgetq_lane_u16(vreinterpretq_u16_u8(a), n)))
                }
                "vcombine_u8" => {
                    let p = |i: usize| t.get(i).and_then(|s| u64::from_str_radix(s, 16).ok());
                    let (Some(lo), Some(hi)) = (p(2), p(3)) else { return bad() };
                    Some(out(vcombine_u8(vcreate_u8(lo), vcreate_u8(hi))))
                }
                "vld1q_u8_x4" => {
                    let Some(m) = arg(2).filter(|v| v.len() == 64) else { return bad() };
                    let r = unsafe { vld1q_u8_x4(m.as_ptr()) };
                    Some(format!("{}{}{}{}", out(r.0), out(r.1), out(r.2), out(r.3)))
                }
                _ => bad(),
            }
        }
        _ => None,
    }
}
