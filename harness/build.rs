//! Shadow build of the ARMv8 AES backend (DESIGN §4.4).
//!
//! At every build the CURRENT text of
//!     /repo/aes/src/armv8.rs, /repo/aes/src/armv8/{encdec,expand,hazmat}.rs, /repo/aes/src/macros.rs
//! and three items of /repo/aes/src/lib.rs + one of /repo/aes/src/hazmat.rs (what the module imports from the crate
//! root: `Block`, `weak_key_test`, `hazmat::{Block, Block8}`) is read, rewritten by the *mechanical textual* rules
//! listed in `RULES` below, and written to `$OUT_DIR/armv8_shadow/…`; `src/armv8sh.rs` mounts the result as the
//! module `crate::armv8sh::aes_shadow` (playing the role of the `aes` crate root) — so the algorithmic text that is
//! compiled and run is the repository's, only `core::arch::aarch64` is replaced by `crate::arm_sw`.
//!
//! Every rule states how often it must match; a rule that no longer matches makes the build FAIL with a panic that
//! names the file and the pattern (so an upstream refactoring cannot silently leave the shadow stale or half-rewritten).
use std::{env, fs, path::Path};

/// where the `aes` crate's sources are read from; `VERIF_AES_SRC` overrides it (used to exercise the failure mode of the
/// rewrite rules and to shadow-build a modified copy of the sources without touching /repo)
const REPO_AES_DEFAULT: &str = "/repo/aes/src";
fn repo_aes() -> String {
    println!("cargo:rerun-if-env-changed=VERIF_AES_SRC");
    env::var("VERIF_AES_SRC").unwrap_or_else(|_| REPO_AES_DEFAULT.to_string())
}
/// path of the module that plays the crate root of `aes` inside the harness
const ROOT: &str = "crate::armv8sh::aes_shadow";

/// how often a pattern has to occur
#[derive(Clone, Copy)]
enum Count {
    Exactly(usize),
    AtLeast(usize),
}

/// replace `pat` by `rep` in `text`; panic (naming file and pattern) unless the number of matches is as required
fn rewrite(file: &str, text: &str, pat: &str, rep: &str, count: Count) -> String {
    let n = text.matches(pat).count();
    let ok = match count {
        Count::Exactly(k) => n == k,
        Count::AtLeast(k) => n >= k,
    };
    if !ok {
        panic!(
            "armv8 shadow build: rewrite pattern no longer matches in {file}: pattern {pat:?} found {n} time(s), expected {}",
            match count {
                Count::Exactly(k) => format!("exactly {k}"),
                Count::AtLeast(k) => format!("at least {k}"),
            }
        );
    }
    text.replace(pat, rep)
}

/// the text of the item starting with `start` up to and including the first line that is exactly `end_line`
fn extract(file: &str, text: &str, start: &str, end_line: &str) -> String {
    let Some(a) = text.find(start) else {
        panic!("armv8 shadow build: extraction pattern no longer matches in {file}: {start:?} not found")
    };
    if text[a + start.len()..].contains(start) {
        panic!("armv8 shadow build: extraction pattern ambiguous in {file}: {start:?} found more than once")
    }
    let mut out = String::new();
    for line in text[a..].lines() {
        out.push_str(line);
        out.push('\n');
        if line == end_line {
            return out;
        }
    }
    panic!("armv8 shadow build: extraction pattern no longer matches in {file}: no line {end_line:?} after {start:?}")
}

fn read(rel: &str) -> String {
    let p = format!("{}/{rel}", repo_aes());
    println!("cargo:rerun-if-changed={p}");
    fs::read_to_string(&p).unwrap_or_else(|e| panic!("armv8 shadow build: cannot read {p}: {e}"))
}

/// nothing of the original architecture module may survive the rewrite (comments mentioning the word are fine)
fn assert_clean(file: &str, text: &str) {
    for bad in ["arch::aarch64", "target_feature"] {
        if let Some(l) = text.lines().find(|l| l.contains(bad) && !l.trim_start().starts_with("//")) {
            panic!("armv8 shadow build: {file}: {bad:?} still present after the rewrites: {l}")
        }
    }
}

include!("build_neon.rs");

fn main() {
    println!("cargo:rerun-if-changed=build.rs");
    println!("cargo:rerun-if-changed=build_neon.rs");
    let out = env::var("OUT_DIR").unwrap();
    shadow_kuz_neon(Path::new(&out));
    let dir = Path::new(&out).join("armv8_shadow");
    fs::create_dir_all(dir.join("armv8")).unwrap();

    // ---- RULES -------------------------------------------------------------------------------------------
    // R1  `core::arch::aarch64::*`            -> `crate::arm_sw::*`           (glob import of the intrinsics)
    //       encdec.rs: `use core::{arch::aarch64::*, mem};`         -> `use crate::arm_sw::*;\nuse core::{mem};`
    //       expand.rs: `use core::{arch::aarch64::*, mem, slice};`  -> `use crate::arm_sw::*;\nuse core::{mem, slice};`
    //       hazmat.rs: `use core::arch::aarch64::*;`                -> `use crate::arm_sw::*;`
    // R2  `#[target_feature(enable = "aes")]\n` -> `` (dropped: the software intrinsics need no CPU feature)
    // R3  `crate::`                            -> `crate::armv8sh::aes_shadow::`   (the shadow root plays the crate root)
    // R4  `#[cfg(test)]\nmod test_expand;\n`   -> `` (dropped)
    // cfg(feature = "hazmat") / cfg(feature = "zeroize") are left untouched: they now test the harness' features of the
    // same names (Cargo.toml: hazmat = ["aes/hazmat"], zeroize = [..., "dep:zeroize"]).
    const TF: &str = "#[target_feature(enable = \"aes\")]\n";
    let crate_rep = format!("{ROOT}::");

    // armv8.rs -> armv8/mod.rs
    let f = "armv8.rs";
    let t = read(f);
    let t = rewrite(f, &t, "#[cfg(test)]\nmod test_expand;\n", "", Count::Exactly(1)); // R4
    let t = rewrite(f, &t, "crate::", &crate_rep, Count::AtLeast(1)); // R3 (weak_key_test)
    assert_clean(f, &t);
    for m in ["#[cfg(feature = \"hazmat\")]\npub(crate) mod hazmat;", "mod encdec;", "mod expand;", "impl_backends!(", "zeroize::zeroize_flat_type(self)"] {
        if !t.contains(m) {
            panic!("armv8 shadow build: {f}: expected text {m:?} not found (module layout changed; review build.rs)")
        }
    }
    fs::write(dir.join("armv8/mod.rs"), t).unwrap();

    // armv8/encdec.rs
    let f = "armv8/encdec.rs";
    let t = read(f);
    let t = rewrite(f, &t, "crate::", &crate_rep, Count::Exactly(1)); // R3: `use crate::Block;` (before R1, whose replacement contains `crate::`)
    let t = rewrite(f, &t, "use core::{arch::aarch64::*, ", "use crate::arm_sw::*;\nuse core::{", Count::Exactly(1)); // R1
    let t = rewrite(f, &t, TF, "", Count::Exactly(4)); // R2: encrypt, decrypt, encrypt_par, decrypt_par
    assert_clean(f, &t);
    fs::write(dir.join("armv8/encdec.rs"), t).unwrap();

    // armv8/expand.rs
    let f = "armv8/expand.rs";
    let t = read(f);
    let t = rewrite(f, &t, "crate::", &crate_rep, Count::Exactly(0)); // R3: expand.rs refers to nothing of the crate root
    let t = rewrite(f, &t, "use core::{arch::aarch64::*, ", "use crate::arm_sw::*;\nuse core::{", Count::Exactly(1)); // R1
    let t = rewrite(f, &t, TF, "", Count::Exactly(3)); // R2: expand_key, inv_expanded_keys, sub_word
    assert_clean(f, &t);
    fs::write(dir.join("armv8/expand.rs"), t).unwrap();

    // armv8/hazmat.rs
    let f = "armv8/hazmat.rs";
    let t = read(f);
    let t = rewrite(f, &t, "crate::", &crate_rep, Count::Exactly(1)); // R3: `use crate::hazmat::{Block, Block8};` (before R1)
    let t = rewrite(f, &t, "use core::arch::aarch64::*;", "use crate::arm_sw::*;", Count::Exactly(1)); // R1
    let t = rewrite(f, &t, TF, "", Count::Exactly(6)); // R2: the six hazmat functions
    assert_clean(f, &t);
    fs::write(dir.join("armv8/hazmat.rs"), t).unwrap();

    // macros.rs: verbatim (impl_backends!)
    let t = read("macros.rs");
    if !t.contains("macro_rules! impl_backends") {
        panic!("armv8 shadow build: macros.rs: `macro_rules! impl_backends` not found")
    }
    fs::write(dir.join("macros.rs"), t).unwrap();

    // the items of the crate root the module refers to, extracted verbatim
    let f = "lib.rs";
    let lib = read(f);
    let uses = extract(f, &lib, "use cipher::{array::Array, consts::U16, crypto_common::WeakKeyError};", "use cipher::{array::Array, consts::U16, crypto_common::WeakKeyError};");
    let block = extract(f, &lib, "pub type Block = Array<u8, U16>;", "pub type Block = Array<u8, U16>;");
    let weak = extract(f, &lib, "pub(crate) fn weak_key_test<const N: usize>(", "}");
    let f = "hazmat.rs";
    let hz = read(f);
    let block8 = extract(f, &hz, "pub type Block8 = ", "pub type Block8 = cipher::array::Array<Block, cipher::consts::U8>;");

    let p = |s: &str| dir.join(s).to_str().unwrap().to_string();
    let root = format!(
        "// GENERATED by build.rs from /repo/aes/src — do not edit.\n\
         // --- /repo/aes/src/lib.rs (verbatim items) ---\n\
         {uses}/// 128-bit AES block\n{block}\n{weak}\n\
         // --- /repo/aes/src/hazmat.rs (verbatim items) ---\n\
         #[cfg(feature = \"hazmat\")]\npub mod hazmat {{\n    pub use super::Block;\n    {block8}}}\n\n\
         // --- /repo/aes/src/macros.rs (verbatim copy) ---\n\
         #[macro_use]\n#[path = {macros:?}]\nmod macros;\n\n\
         // --- /repo/aes/src/armv8.rs and armv8/*.rs (rewritten copies) ---\n\
         #[path = {armv8:?}]\npub mod armv8;\n",
        macros = p("macros.rs"),
        armv8 = p("armv8/mod.rs"),
    );
    fs::write(dir.join("root.rs"), root).unwrap();
}
