// Shadow build of the Kuznyechik NEON backend (DESIGN §4.4) — to be `include!`d from the harness `build.rs`:
//
//     include!("build_neon.rs");
//     fn main() { shadow_kuz_neon(std::path::Path::new(&std::env::var("OUT_DIR").unwrap())); }
//
// At EVERY build the CURRENT text of
//     /repo/kuznyechik/src/{lib.rs, consts.rs, gft.rs, utils.rs, fused_tables.rs, neon/mod.rs, neon/backends.rs}
// is read, rewritten by the mechanical textual rules R1..R6 below and written as ONE file
// `$OUT_DIR/kuz_neon_shadow.rs` containing `pub mod kuz_neon_shadow { … }` — a copy of the kuznyechik crate root with
// the `neon` arm of its `cfg_if!` selected, all `mod x;` declarations inlined, and `core::arch::aarch64` replaced by
// the software intrinsics `crate::arm_sw_neon`.  `src/neon_kuz.rs` `include!`s that file.  No algorithmic text is
// re-typed here: the key schedule, `sub_bytes`, `transform`, the block functions, the table builders, the public
// type definitions with their `From`/`Clone`/`Drop`/`Debug`/`AlgorithmName` impls are the repository's characters.
//
// Rules (each one PANICS — build failure with the file and the pattern named — when it does not match the expected
// number of times, so a change of the repository that the rules do not understand is never silently ignored):
//   R1  lib.rs: every crate-level inner attribute `#![…]` is deleted (a module cannot carry `#![no_std]`,
//       `#![doc(html_logo_url…)]`, `#![cfg_attr(docsrs…)]`; the two lint attributes go with them).   ≥ 1 match
//   R2  lib.rs: the `cfg_if::cfg_if!( … );` invocation is replaced by the body `{ … }` of its branch whose
//       condition mentions `target_arch = "aarch64"` (i.e. `mod fused_tables; mod neon; use neon as imp;`).  = 1 match;
//       the selected body must declare `mod neon;`
//   R3  `mod <name>;` → `mod <name> { <text of that file> }` for consts, gft, utils (lib.rs), fused_tables, neon
//       (selected branch), backends (neon/mod.rs).                                                    = 1 match each
//   R4  `crate::` → `crate::kuz_neon_shadow::` in every file (the shadow module is the crate root of the copied
//       text).  ≥ 1 match in utils.rs, fused_tables.rs, neon/mod.rs, neon/backends.rs; `super::` paths and
//       `pub(crate)` / `pub(super)` visibilities need no change because the module tree is preserved.
//   R5  neon/backends.rs: `use core::arch::aarch64::*;` → `use crate::arm_sw_neon::*;`                = 1 match,
//       and no other occurrence of `core::arch` may remain anywhere.
//   R6  additions (appended text, nothing of the repository is altered): `verif_hooks` modules at the end of
//       `backends`, `neon` and the shadow root — thin wrappers that expose the private functions `transform`,
//       `sub_bytes` and the stored round keys to the harness for function-level correspondence (`neonfn`, `neonks`).

/// the crate whose text is shadowed; `VERIF_KUZ_SRC` overrides it (used only to test the rules on a modified copy)
fn kn_src() -> String {
    println!("cargo:rerun-if-env-changed=VERIF_KUZ_SRC");
    std::env::var("VERIF_KUZ_SRC").unwrap_or_else(|_| "/repo/kuznyechik/src".to_string())
}

fn kn_read(rel: &str) -> String {
    let p = format!("{}/{}", kn_src(), rel);
    println!("cargo:rerun-if-changed={}", p);
    match std::fs::read_to_string(&p) {
        Ok(s) => s,
        Err(e) => panic!("shadow_kuz_neon: cannot read {}: {}", p, e),
    }
}

/// replace every occurrence; panic unless the number of occurrences is within `[min, max]`
fn kn_replace(text: &str, from: &str, to: &str, min: usize, max: usize, file: &str, rule: &str) -> String {
    let n = text.matches(from).count();
    if n < min || n > max {
        panic!(
            "shadow_kuz_neon: rule {} no longer matches {}: pattern {:?} found {} times (expected {}..={})",
            rule, file, from, n, min, max
        );
    }
    text.replace(from, to)
}

/// index of the bracket closing the one at `open` (which must be one of `([{`); comments and string literals of the
/// files concerned contain no unbalanced brackets — checked by requiring the scan to end at depth 0
fn kn_match(text: &str, open: usize, file: &str) -> usize {
    let b = text.as_bytes();
    let (o, c) = match b[open] {
        b'(' => (b'(', b')'),
        b'[' => (b'[', b']'),
        b'{' => (b'{', b'}'),
        _ => panic!("shadow_kuz_neon: internal: no bracket at {} in {}", open, file),
    };
    let mut depth = 0usize;
    for (i, &ch) in b.iter().enumerate().skip(open) {
        if ch == o {
            depth += 1;
        } else if ch == c {
            depth -= 1;
            if depth == 0 {
                return i;
            }
        }
    }
    panic!("shadow_kuz_neon: unbalanced bracket at byte {} of {}", open, file)
}

/// R1
fn kn_strip_inner_attrs(text: &str, file: &str) -> String {
    let mut out = String::new();
    let mut rest = text;
    let mut n = 0;
    while let Some(p) = rest.find("#![") {
        let close = kn_match(rest, p + 2, file);
        out.push_str(&rest[..p]);
        rest = &rest[close + 1..];
        n += 1;
    }
    out.push_str(rest);
    if n == 0 {
        panic!("shadow_kuz_neon: rule R1 no longer matches {}: no `#![…]` attribute found", file);
    }
    out
}

/// R2
fn kn_select_neon_branch(text: &str, file: &str) -> String {
    let head = "cfg_if::cfg_if!(";
    if text.matches(head).count() != 1 {
        panic!("shadow_kuz_neon: rule R2 no longer matches {}: expected exactly one `{}`", file, head);
    }
    let start = text.find(head).unwrap();
    let open = start + head.len() - 1;
    let close = kn_match(text, open, file);
    if !text[close + 1..].starts_with(';') {
        panic!("shadow_kuz_neon: rule R2: `cfg_if!(…)` of {} is not followed by `;`", file);
    }
    let inner = &text[open + 1..close];
    let key = "target_arch = \"aarch64\"";
    if inner.matches(key).count() != 1 {
        panic!("shadow_kuz_neon: rule R2 no longer matches {}: expected exactly one branch with `{}`", file, key);
    }
    let k = inner.find(key).unwrap();
    // the condition is `#[cfg( … )]`: find its `#[` before the key and the matching `]`, the body is the next `{…}`
    let attr = inner[..k].rfind("#[").unwrap_or_else(|| panic!("shadow_kuz_neon: rule R2: no `#[cfg(` before `{}` in {}", key, file));
    let attr_close = kn_match(inner, attr + 1, file);
    let after = &inner[attr_close + 1..];
    let body_open = attr_close + 1 + after.find('{').unwrap_or_else(|| panic!("shadow_kuz_neon: rule R2: no body in {}", file));
    if !inner[attr_close + 1..body_open].trim().is_empty() {
        panic!("shadow_kuz_neon: rule R2: unexpected text between the aarch64 condition and its body in {}", file);
    }
    let body_close = kn_match(inner, body_open, file);
    let body = &inner[body_open + 1..body_close];
    for need in ["mod fused_tables;", "mod neon;", "use neon as imp;"] {
        if body.matches(need).count() != 1 {
            panic!("shadow_kuz_neon: rule R2: the aarch64 branch of {} does not contain exactly one `{}`: {:?}", file, need, body);
        }
    }
    format!("{}{}{}", &text[..start], body, &text[close + 2..])
}

/// R3
fn kn_inline_mod(text: &str, name: &str, body: &str, file: &str) -> String {
    let decl = format!("mod {};", name);
    // the declaration must be a whole token sequence: preceded by start of line / whitespace / `)` of a visibility
    let n = text
        .match_indices(&decl)
        .filter(|(i, _)| *i == 0 || matches!(text.as_bytes()[*i - 1], b' ' | b'\n' | b'\t' | b')'))
        .count();
    if n != 1 || text.matches(&decl).count() != 1 {
        panic!("shadow_kuz_neon: rule R3 no longer matches {}: `{}` found {} times (expected 1)", file, decl, text.matches(&decl).count());
    }
    text.replace(&decl, &format!("mod {} {{\n{}\n}}", name, body))
}

const KN_HOOKS_BACKENDS: &str = r#"
// ---- R6: appended by /verif/harness/build_neon.rs — thin wrappers, no logic ----
pub(crate) mod verif_hooks {
    use super::*;
    fn ld(b: &[u8; 16]) -> uint8x16_t { unsafe { vld1q_u8(b.as_ptr()) } }
    fn st(v: uint8x16_t) -> [u8; 16] { let mut o = [0u8; 16]; unsafe { vst1q_u8(o.as_mut_ptr(), v) }; o }
    pub fn transform_enc(b: &[u8; 16]) -> [u8; 16] { st(unsafe { transform(ld(b), &ENC_TABLE) }) }
    pub fn transform_dec(b: &[u8; 16]) -> [u8; 16] { st(unsafe { transform(ld(b), &DEC_TABLE) }) }
    pub fn sub_bytes_p(b: &[u8; 16]) -> [u8; 16] { st(unsafe { sub_bytes(ld(b), &P) }) }
    pub fn sub_bytes_pinv(b: &[u8; 16]) -> [u8; 16] { st(unsafe { sub_bytes(ld(b), &P_INV) }) }
    pub fn round_keys(k: &RoundKeys) -> [u8; 160] {
        let mut o = [0u8; 160];
        for i in 0..10 { o[16 * i..16 * i + 16].copy_from_slice(&st(k[i])); }
        o
    }
    pub const PAR_BLOCKS: usize = <ParBlocksSize as Unsigned>::USIZE;
}
"#;

const KN_HOOKS_NEON: &str = r#"
// ---- R6: appended by /verif/harness/build_neon.rs — thin wrappers, no logic ----
pub(crate) mod verif_hooks {
    pub use super::backends::verif_hooks::{transform_enc, transform_dec, sub_bytes_p, sub_bytes_pinv, PAR_BLOCKS};
    use super::backends::verif_hooks::round_keys;
    /// memory image of the stored round keys: (enc, dec) of `Kuznyechik`, `.0` of `KuznyechikEnc` / `KuznyechikDec`
    pub fn keys_c(c: &crate::kuz_neon_shadow::Kuznyechik) -> ([u8; 160], [u8; 160]) { (round_keys(&c.keys.enc), round_keys(&c.keys.dec)) }
    pub fn keys_e(c: &crate::kuz_neon_shadow::KuznyechikEnc) -> [u8; 160] { round_keys(&c.keys.0) }
    pub fn keys_d(c: &crate::kuz_neon_shadow::KuznyechikDec) -> [u8; 160] { round_keys(&c.keys.0) }
}
"#;

const KN_HOOKS_ROOT: &str = r#"
// ---- R6: appended by /verif/harness/build_neon.rs ----
pub(crate) use neon::verif_hooks;
"#;

pub fn shadow_kuz_neon(out_dir: &std::path::Path) {
    let sh = "crate::kuz_neon_shadow::";
    // R4 on the leaf files
    let consts = kn_replace(&kn_read("consts.rs"), "crate::", sh, 0, usize::MAX, "consts.rs", "R4");
    let gft = kn_replace(&kn_read("gft.rs"), "crate::", sh, 0, usize::MAX, "gft.rs", "R4");
    let utils = kn_replace(&kn_read("utils.rs"), "crate::", sh, 1, usize::MAX, "utils.rs", "R4");
    let fused = kn_replace(&kn_read("fused_tables.rs"), "crate::", sh, 1, usize::MAX, "fused_tables.rs", "R4");

    // neon/backends.rs: R5 then R4, then R6
    let backends = kn_read("neon/backends.rs");
    let backends = kn_replace(&backends, "use core::arch::aarch64::*;", "use crate::arm_sw_neon::*;", 1, 1, "neon/backends.rs", "R5");
    let backends = kn_replace(&backends, "crate::", sh, 1, usize::MAX, "neon/backends.rs", "R4");
    // (R4 has just turned the `crate::arm_sw_neon` of R5 into `crate::kuz_neon_shadow::arm_sw_neon`: undo that one)
    let backends = kn_replace(&backends, "use crate::kuz_neon_shadow::arm_sw_neon::*;", "use crate::arm_sw_neon::*;", 1, 1, "neon/backends.rs", "R5");
    let backends = format!("{}{}", backends, KN_HOOKS_BACKENDS);

    // neon/mod.rs: R4, R3(backends), R6
    let neon = kn_replace(&kn_read("neon/mod.rs"), "crate::", sh, 1, usize::MAX, "neon/mod.rs", "R4");
    let neon = kn_inline_mod(&neon, "backends", &backends, "neon/mod.rs");
    let neon = format!("{}{}", neon, KN_HOOKS_NEON);

    // lib.rs: R1, R2, R4, R3 ×5, R6
    let lib = kn_read("lib.rs");
    let lib = kn_strip_inner_attrs(&lib, "lib.rs");
    let lib = kn_select_neon_branch(&lib, "lib.rs");
    let lib = kn_replace(&lib, "crate::", sh, 0, usize::MAX, "lib.rs", "R4");
    let lib = kn_inline_mod(&lib, "consts", &consts, "lib.rs");
    let lib = kn_inline_mod(&lib, "gft", &gft, "lib.rs");
    let lib = kn_inline_mod(&lib, "utils", &utils, "lib.rs");
    let lib = kn_inline_mod(&lib, "fused_tables", &fused, "lib.rs");
    let lib = kn_inline_mod(&lib, "neon", &neon, "lib.rs");
    let lib = format!("{}{}", lib, KN_HOOKS_ROOT);

    // nothing of another backend or of the real intrinsics may have survived
    for bad in ["core::arch", "mod sse2", "mod big_soft", "mod compact_soft", "cfg_if", "_mm_"] {
        if lib.contains(bad) {
            panic!("shadow_kuz_neon: the generated shadow still contains {:?}", bad);
        }
    }
    // every `mod x;` must have been inlined (a module added to the crate that the rules do not know)
    for (i, _) in lib.match_indices("mod ") {
        if i > 0 && !matches!(lib.as_bytes()[i - 1], b' ' | b'\n' | b'\t' | b')') {
            continue;
        }
        let rest = &lib[i + 4..];
        let id: String = rest.chars().take_while(|c| c.is_alphanumeric() || *c == '_').collect();
        if !id.is_empty() && rest[id.len()..].trim_start().starts_with(';') {
            panic!("shadow_kuz_neon: module declaration `mod {};` is not known to rule R3 — the repository's layout changed", id);
        }
    }
    // … and the text that must be there is there (the repository's functions, by name)
    for need in ["fn sub_bytes(", "fn transform(", "pub fn expand_enc_keys(", "pub fn inv_enc_keys(", "fn encrypt_par_blocks(",
                 "fn decrypt_par_blocks(", "pub struct Kuznyechik {", "pub struct KuznyechikEnc {", "pub struct KuznyechikDec {",
                 "impl Drop for Kuznyechik {", "impl From<&KuznyechikEnc> for KuznyechikDec {", "vqtbl4q_u8(", "const fn fused_dec_table()"] {
        if !lib.contains(need) {
            panic!("shadow_kuz_neon: the generated shadow lacks {:?} — the repository's layout changed", need);
        }
    }

    let out = format!(
        "// GENERATED by /verif/harness/build_neon.rs from {} — do not edit\n\
         #[allow(dead_code, unused, missing_docs, clippy::all, rust_2018_idioms)]\n\
         pub mod kuz_neon_shadow {{\n{}\n}}\n",
        kn_src(), lib
    );
    let dst = out_dir.join("kuz_neon_shadow.rs");
    std::fs::write(&dst, out).unwrap_or_else(|e| panic!("shadow_kuz_neon: cannot write {}: {}", dst.display(), e));
    println!("cargo:rerun-if-changed=build_neon.rs");
}
