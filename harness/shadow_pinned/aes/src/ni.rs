//! AES block ciphers implementation using AES-NI instruction set.
//!
//! Ciphers functionality is accessed using `BlockCipher` trait from the
//! [`cipher`](https://docs.rs/cipher) crate.
//!
//! # Vulnerability
//! Lazy FP state restory vulnerability can allow local process to leak content
//! of the FPU register, in which round keys are stored. This vulnerability
//! can be mitigated at the operating system level by installing relevant
//! patches. (i.e. keep your OS updated!) More info:
//! - [Intel advisory](https://www.intel.com/content/www/us/en/security-center/advisory/intel-sa-00145.html)
//! - [Wikipedia](https://en.wikipedia.org/wiki/Lazy_FP_state_restore)
//!
//! # Related documents
//! - [Intel AES-NI whitepaper](https://software.intel.com/sites/default/files/article/165683/aes-wp-2012-09-22-v01.pdf)
//! - [Use of the AES Instruction Set](https://www.cosic.esat.kuleuven.be/ecrypt/AESday/slides/Use_of_the_AES_Instruction_Set.pdf)

mod encdec;
mod expand;
#[cfg(test)]
mod test_expand;

#[cfg(feature = "hazmat")]
pub(crate) mod hazmat;

#[cfg(target_arch = "x86")]
use core::arch::x86 as arch;
#[cfg(target_arch = "x86_64")]
use core::arch::x86_64 as arch;

use cipher::{
    AlgorithmName, BlockCipherDecClosure, BlockCipherDecrypt, BlockCipherEncClosure,
    BlockCipherEncrypt, BlockSizeUser, Key, KeyInit, KeySizeUser,
    consts::{self, U16, U24, U32},
    crypto_common::WeakKeyError,
};
use core::fmt;

impl_backends!(
    enc_name = Aes128BackEnc,
    dec_name = Aes128BackDec,
    key_size = consts::U16,
    keys_ty = expand::Aes128RoundKeys,
    par_size = consts::U9,
    expand_keys = expand::aes128_expand_key,
    inv_keys = expand::inv_keys,
    encrypt = encdec::encrypt,
    encrypt_par = encdec::encrypt_par,
    decrypt = encdec::decrypt,
    decrypt_par = encdec::decrypt_par,
);

impl_backends!(
    enc_name = Aes192BackEnc,
    dec_name = Aes192BackDec,
    key_size = consts::U24,
    keys_ty = expand::Aes192RoundKeys,
    par_size = consts::U9,
    expand_keys = expand::aes192_expand_key,
    inv_keys = expand::inv_keys,
    encrypt = encdec::encrypt,
    encrypt_par = encdec::encrypt_par,
    decrypt = encdec::decrypt,
    decrypt_par = encdec::decrypt_par,
);

impl_backends!(
    enc_name = Aes256BackEnc,
    dec_name = Aes256BackDec,
    key_size = consts::U32,
    keys_ty = expand::Aes256RoundKeys,
    par_size = consts::U9,
    expand_keys = expand::aes256_expand_key,
    inv_keys = expand::inv_keys,
    encrypt = encdec::encrypt,
    encrypt_par = encdec::encrypt_par,
    decrypt = encdec::decrypt,
    decrypt_par = encdec::decrypt_par,
);

macro_rules! define_aes_impl {
    (
        $name:tt,
        $name_enc:ident,
        $name_dec:ident,
        $name_back_enc:ident,
        $name_back_dec:ident,
        $key_size:ty,
        $doc:expr $(,)?
    ) => {
        #[doc=$doc]
        #[doc = "block cipher"]
        #[derive(Clone)]
        pub struct $name {
            encrypt: $name_enc,
            decrypt: $name_dec,
        }

        impl $name {
            #[inline(always)]
            pub(crate) fn get_enc_backend(&self) -> &$name_back_enc {
                self.encrypt.get_enc_backend()
            }

            #[inline(always)]
            pub(crate) fn get_dec_backend(&self) -> &$name_back_dec {
                self.decrypt.get_dec_backend()
            }
        }

        impl KeySizeUser for $name {
            type KeySize = $key_size;
        }

        impl KeyInit for $name {
            #[inline]
            fn new(key: &Key<Self>) -> Self {
                let encrypt = $name_enc::new(key);
                let decrypt = $name_dec::from(&encrypt);
                Self { encrypt, decrypt }
            }

            #[inline]
            fn weak_key_test(key: &Key<Self>) -> Result<(), WeakKeyError> {
                crate::weak_key_test(&key.0)
            }
        }

        impl From<$name_enc> for $name {
            #[inline]
            fn from(encrypt: $name_enc) -> $name {
                let decrypt = (&encrypt).into();
                Self { encrypt, decrypt }
            }
        }

        impl From<&$name_enc> for $name {
            #[inline]
            fn from(encrypt: &$name_enc) -> $name {
                let decrypt = encrypt.into();
                let encrypt = encrypt.clone();
                Self { encrypt, decrypt }
            }
        }

        impl BlockSizeUser for $name {
            type BlockSize = U16;
        }

        impl BlockCipherEncrypt for $name {
            fn encrypt_with_backend(&self, f: impl BlockCipherEncClosure<BlockSize = U16>) {
                self.encrypt.encrypt_with_backend(f)
            }
        }

        impl BlockCipherDecrypt for $name {
            fn decrypt_with_backend(&self, f: impl BlockCipherDecClosure<BlockSize = U16>) {
                self.decrypt.decrypt_with_backend(f)
            }
        }

        impl fmt::Debug for $name {
            fn fmt(&self, f: &mut fmt::Formatter<'_>) -> Result<(), fmt::Error> {
                f.write_str(concat!(stringify!($name), " { .. }"))
            }
        }

        impl AlgorithmName for $name {
            fn write_alg_name(f: &mut fmt::Formatter<'_>) -> fmt::Result {
                f.write_str(stringify!($name))
            }
        }

        #[cfg(feature = "zeroize")]
        impl zeroize::ZeroizeOnDrop for $name {}

        #[doc=$doc]
        #[doc = "block cipher (encrypt-only)"]
        #[derive(Clone)]
        pub struct $name_enc {
            backend: $name_back_enc,
        }

        impl $name_enc {
            #[inline(always)]
            pub(crate) fn get_enc_backend(&self) -> &$name_back_enc {
                &self.backend
            }
        }

        impl KeySizeUser for $name_enc {
            type KeySize = $key_size;
        }

        impl KeyInit for $name_enc {
            #[inline]
            fn new(key: &Key<Self>) -> Self {
                Self {
                    backend: $name_back_enc::new(key),
                }
            }

            #[inline]
            fn weak_key_test(key: &Key<Self>) -> Result<(), WeakKeyError> {
                crate::weak_key_test(&key.0)
            }
        }

        impl BlockSizeUser for $name_enc {
            type BlockSize = U16;
        }

        impl BlockCipherEncrypt for $name_enc {
            fn encrypt_with_backend(&self, f: impl BlockCipherEncClosure<BlockSize = U16>) {
                f.call(&self.backend)
            }
        }

        impl fmt::Debug for $name_enc {
            fn fmt(&self, f: &mut fmt::Formatter<'_>) -> Result<(), fmt::Error> {
                f.write_str(concat!(stringify!($name_enc), " { .. }"))
            }
        }

        impl AlgorithmName for $name_enc {
            fn write_alg_name(f: &mut fmt::Formatter<'_>) -> fmt::Result {
                f.write_str(stringify!($name_enc))
            }
        }

        impl Drop for $name_enc {
            #[inline]
            fn drop(&mut self) {
                #[cfg(feature = "zeroize")]
                unsafe {
                    zeroize::zeroize_flat_type(&mut self.backend)
                }
            }
        }

        #[cfg(feature = "zeroize")]
        impl zeroize::ZeroizeOnDrop for $name_enc {}

        #[doc=$doc]
        #[doc = "block cipher (decrypt-only)"]
        #[derive(Clone)]
        pub struct $name_dec {
            backend: $name_back_dec,
        }

        impl $name_dec {
            #[inline(always)]
            pub(crate) fn get_dec_backend(&self) -> &$name_back_dec {
                &self.backend
            }
        }

        impl KeySizeUser for $name_dec {
            type KeySize = $key_size;
        }

        impl KeyInit for $name_dec {
            #[inline]
            fn new(key: &Key<Self>) -> Self {
                $name_enc::new(key).into()
            }

            #[inline]
            fn weak_key_test(key: &Key<Self>) -> Result<(), WeakKeyError> {
                crate::weak_key_test(&key.0)
            }
        }

        impl From<$name_enc> for $name_dec {
            #[inline]
            fn from(enc: $name_enc) -> $name_dec {
                Self::from(&enc)
            }
        }

        impl From<&$name_enc> for $name_dec {
            #[inline]
            fn from(enc: &$name_enc) -> $name_dec {
                Self {
                    backend: enc.backend.clone().into(),
                }
            }
        }

        impl BlockSizeUser for $name_dec {
            type BlockSize = U16;
        }

        impl BlockCipherDecrypt for $name_dec {
            fn decrypt_with_backend(&self, f: impl BlockCipherDecClosure<BlockSize = U16>) {
                f.call(self.get_dec_backend());
            }
        }

        impl fmt::Debug for $name_dec {
            fn fmt(&self, f: &mut fmt::Formatter<'_>) -> Result<(), fmt::Error> {
                f.write_str(concat!(stringify!($name_dec), " { .. }"))
            }
        }

        impl AlgorithmName for $name_dec {
            fn write_alg_name(f: &mut fmt::Formatter<'_>) -> fmt::Result {
                f.write_str(stringify!($name_dec))
            }
        }

        impl Drop for $name_dec {
            #[inline]
            fn drop(&mut self) {
                #[cfg(feature = "zeroize")]
                unsafe {
                    zeroize::zeroize_flat_type(&mut self.backend)
                }
            }
        }

        #[cfg(feature = "zeroize")]
        impl zeroize::ZeroizeOnDrop for $name_dec {}
    };
}

define_aes_impl!(
    Aes128,
    Aes128Enc,
    Aes128Dec,
    Aes128BackEnc,
    Aes128BackDec,
    U16,
    "AES-128",
);

define_aes_impl!(
    Aes192,
    Aes192Enc,
    Aes192Dec,
    Aes192BackEnc,
    Aes192BackDec,
    U24,
    "AES-192",
);

define_aes_impl!(
    Aes256,
    Aes256Enc,
    Aes256Dec,
    Aes256BackEnc,
    Aes256BackDec,
    U32,
    "AES-256",
);
