//! AES block cipher constant-time implementation.
//!
//! The implementation uses a technique called [fixslicing][1], an improved
//! form of bitslicing which represents ciphers in a way which enables
//! very efficient constant-time implementations in software.
//!
//! [1]: https://eprint.iacr.org/2020/1123.pdf

#![deny(unsafe_code)]

#[cfg_attr(not(target_pointer_width = "64"), path = "soft/fixslice32.rs")]
#[cfg_attr(target_pointer_width = "64", path = "soft/fixslice64.rs")]
pub(crate) mod fixslice;

use crate::Block;
use cipher::{
    AlgorithmName, BlockCipherDecBackend, BlockCipherDecClosure, BlockCipherDecrypt,
    BlockCipherEncBackend, BlockCipherEncClosure, BlockCipherEncrypt, BlockSizeUser, Key, KeyInit,
    KeySizeUser, ParBlocksSizeUser,
    consts::{U16, U24, U32},
    crypto_common::WeakKeyError,
    inout::InOut,
};
use core::fmt;
use fixslice::{BatchBlocks, FixsliceBlocks, FixsliceKeys128, FixsliceKeys192, FixsliceKeys256};

macro_rules! define_aes_impl {
    (
        $name:tt,
        $name_enc:ident,
        $name_dec:ident,
        $name_back_enc:ident,
        $name_back_dec:ident,
        $key_size:ty,
        $fixslice_keys:ty,
        $fixslice_key_schedule:path,
        $fixslice_decrypt:path,
        $fixslice_encrypt:path,
        $doc:expr $(,)?
    ) => {
        #[doc=$doc]
        #[doc = "block cipher"]
        #[derive(Clone)]
        pub struct $name {
            keys: $fixslice_keys,
        }

        impl $name {
            #[inline(always)]
            pub(crate) fn get_enc_backend(&self) -> $name_back_enc<'_> {
                $name_back_enc(self)
            }

            #[inline(always)]
            pub(crate) fn get_dec_backend(&self) -> $name_back_dec<'_> {
                $name_back_dec(self)
            }
        }

        impl KeySizeUser for $name {
            type KeySize = $key_size;
        }

        impl KeyInit for $name {
            #[inline]
            fn new(key: &Key<Self>) -> Self {
                Self {
                    keys: $fixslice_key_schedule(key.into()),
                }
            }

            #[inline]
            fn weak_key_test(key: &Key<Self>) -> Result<(), WeakKeyError> {
                crate::weak_key_test(&key.0)
            }
        }

        impl BlockSizeUser for $name {
            type BlockSize = U16;
        }

        impl BlockCipherEncrypt for $name {
            fn encrypt_with_backend(&self, f: impl BlockCipherEncClosure<BlockSize = U16>) {
                f.call(&self.get_enc_backend())
            }
        }

        impl BlockCipherDecrypt for $name {
            fn decrypt_with_backend(&self, f: impl BlockCipherDecClosure<BlockSize = U16>) {
                f.call(&self.get_dec_backend())
            }
        }

        impl From<$name_enc> for $name {
            #[inline]
            fn from(enc: $name_enc) -> $name {
                enc.inner
            }
        }

        impl From<&$name_enc> for $name {
            #[inline]
            fn from(enc: &$name_enc) -> $name {
                enc.inner.clone()
            }
        }

        impl fmt::Debug for $name {
            fn fmt(&self, f: &mut fmt::Formatter<'_>) -> Result<(), fmt::Error> {
                f.write_str(concat!(stringify!($name), " { .. }"))
            }
        }

        impl AlgorithmName for $name {
            fn write_alg_name(f: &mut fmt::Formatter<'_>) -> fmt::Result {
                f.write_str(stringify!($name))
            }
        }

        impl Drop for $name {
            #[inline]
            fn drop(&mut self) {
                #[cfg(feature = "zeroize")]
                zeroize::Zeroize::zeroize(&mut self.keys);
            }
        }

        #[cfg(feature = "zeroize")]
        impl zeroize::ZeroizeOnDrop for $name {}

        #[doc=$doc]
        #[doc = "block cipher (encrypt-only)"]
        #[derive(Clone)]
        pub struct $name_enc {
            inner: $name,
        }

        impl $name_enc {
            #[inline(always)]
            pub(crate) fn get_enc_backend(&self) -> $name_back_enc<'_> {
                self.inner.get_enc_backend()
            }
        }

        impl KeySizeUser for $name_enc {
            type KeySize = $key_size;
        }

        impl KeyInit for $name_enc {
            #[inline(always)]
            fn new(key: &Key<Self>) -> Self {
                let inner = $name::new(key);
                Self { inner }
            }

            #[inline]
            fn weak_key_test(key: &Key<Self>) -> Result<(), WeakKeyError> {
                crate::weak_key_test(&key.0)
            }
        }

        impl BlockSizeUser for $name_enc {
            type BlockSize = U16;
        }

        impl BlockCipherEncrypt for $name_enc {
            fn encrypt_with_backend(&self, f: impl BlockCipherEncClosure<BlockSize = U16>) {
                f.call(&self.get_enc_backend())
            }
        }

        impl fmt::Debug for $name_enc {
            fn fmt(&self, f: &mut fmt::Formatter<'_>) -> Result<(), fmt::Error> {
                f.write_str(concat!(stringify!($name_enc), " { .. }"))
            }
        }

        impl AlgorithmName for $name_enc {
            fn write_alg_name(f: &mut fmt::Formatter<'_>) -> fmt::Result {
                f.write_str(stringify!($name_enc))
            }
        }

        #[cfg(feature = "zeroize")]
        impl zeroize::ZeroizeOnDrop for $name_enc {}

        #[doc=$doc]
        #[doc = "block cipher (decrypt-only)"]
        #[derive(Clone)]
        pub struct $name_dec {
            inner: $name,
        }

        impl $name_dec {
            #[inline(always)]
            pub(crate) fn get_dec_backend(&self) -> $name_back_dec<'_> {
                self.inner.get_dec_backend()
            }
        }

        impl KeySizeUser for $name_dec {
            type KeySize = $key_size;
        }

        impl KeyInit for $name_dec {
            #[inline(always)]
            fn new(key: &Key<Self>) -> Self {
                let inner = $name::new(key);
                Self { inner }
            }

            #[inline]
            fn weak_key_test(key: &Key<Self>) -> Result<(), WeakKeyError> {
                crate::weak_key_test(&key.0)
            }
        }

        impl From<$name_enc> for $name_dec {
            #[inline]
            fn from(enc: $name_enc) -> $name_dec {
                Self { inner: enc.inner }
            }
        }

        impl From<&$name_enc> for $name_dec {
            #[inline]
            fn from(enc: &$name_enc) -> $name_dec {
                Self {
                    inner: enc.inner.clone(),
                }
            }
        }

        impl BlockSizeUser for $name_dec {
            type BlockSize = U16;
        }

        impl BlockCipherDecrypt for $name_dec {
            fn decrypt_with_backend(&self, f: impl BlockCipherDecClosure<BlockSize = U16>) {
                f.call(&self.get_dec_backend());
            }
        }

        impl fmt::Debug for $name_dec {
            fn fmt(&self, f: &mut fmt::Formatter<'_>) -> Result<(), fmt::Error> {
                f.write_str(concat!(stringify!($name_dec), " { .. }"))
            }
        }

        impl AlgorithmName for $name_dec {
            fn write_alg_name(f: &mut fmt::Formatter<'_>) -> fmt::Result {
                f.write_str(stringify!($name_dec))
            }
        }

        #[cfg(feature = "zeroize")]
        impl zeroize::ZeroizeOnDrop for $name_dec {}

        pub(crate) struct $name_back_enc<'a>(&'a $name);

        impl<'a> BlockSizeUser for $name_back_enc<'a> {
            type BlockSize = U16;
        }

        impl<'a> ParBlocksSizeUser for $name_back_enc<'a> {
            type ParBlocksSize = FixsliceBlocks;
        }

        impl<'a> BlockCipherEncBackend for $name_back_enc<'a> {
            #[inline(always)]
            fn encrypt_block(&self, mut block: InOut<'_, '_, Block>) {
                let mut blocks = BatchBlocks::default();
                blocks[0] = block.clone_in().into();
                let res = $fixslice_encrypt(&self.0.keys, &blocks);
                *block.get_out() = res[0].into();
            }

            #[inline(always)]
            fn encrypt_par_blocks(&self, mut blocks: InOut<'_, '_, BatchBlocks>) {
                let res = $fixslice_encrypt(&self.0.keys, blocks.get_in());
                *blocks.get_out() = res;
            }
        }

        pub(crate) struct $name_back_dec<'a>(&'a $name);

        impl<'a> BlockSizeUser for $name_back_dec<'a> {
            type BlockSize = U16;
        }

        impl<'a> ParBlocksSizeUser for $name_back_dec<'a> {
            type ParBlocksSize = FixsliceBlocks;
        }

        impl<'a> BlockCipherDecBackend for $name_back_dec<'a> {
            #[inline(always)]
            fn decrypt_block(&self, mut block: InOut<'_, '_, Block>) {
                let mut blocks = BatchBlocks::default();
                blocks[0] = block.clone_in();
                let res = $fixslice_decrypt(&self.0.keys, &blocks);
                *block.get_out() = res[0];
            }

            #[inline(always)]
            fn decrypt_par_blocks(&self, mut blocks: InOut<'_, '_, BatchBlocks>) {
                let res = $fixslice_decrypt(&self.0.keys, blocks.get_in());
                *blocks.get_out() = res;
            }
        }
    };
}

define_aes_impl!(
    Aes128,
    Aes128Enc,
    Aes128Dec,
    Aes128BackEnc,
    Aes128BackDec,
    U16,
    FixsliceKeys128,
    fixslice::aes128_key_schedule,
    fixslice::aes128_decrypt,
    fixslice::aes128_encrypt,
    "AES-128",
);

define_aes_impl!(
    Aes192,
    Aes192Enc,
    Aes192Dec,
    Aes192BackEnc,
    Aes192BackDec,
    U24,
    FixsliceKeys192,
    fixslice::aes192_key_schedule,
    fixslice::aes192_decrypt,
    fixslice::aes192_encrypt,
    "AES-192",
);

define_aes_impl!(
    Aes256,
    Aes256Enc,
    Aes256Dec,
    Aes256BackEnc,
    Aes256BackDec,
    U32,
    FixsliceKeys256,
    fixslice::aes256_key_schedule,
    fixslice::aes256_decrypt,
    fixslice::aes256_encrypt,
    "AES-256",
);
