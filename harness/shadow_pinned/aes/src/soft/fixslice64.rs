//! Fixsliced implementations of AES-128, AES-192 and AES-256 (64-bit)
//! adapted from the C implementation.
//!
//! All implementations are fully bitsliced and do not rely on any
//! Look-Up Table (LUT).
//!
//! See the paper at <https://eprint.iacr.org/2020/1123.pdf> for more details.
//!
//! # Author (original C code)
//!
//! Alexandre Adomnicai, Nanyang Technological University, Singapore
//! <alexandre.adomnicai@ntu.edu.sg>
//!
//! Originally licensed MIT. Relicensed as Apache 2.0+MIT with permission.

#![allow(clippy::unreadable_literal)]

use crate::Block;
use cipher::{array::Array, consts::U4};

/// AES block batch size for this implementation
pub(crate) type FixsliceBlocks = U4;

pub(crate) type BatchBlocks = Array<Block, FixsliceBlocks>;

/// AES-128 round keys
pub(crate) type FixsliceKeys128 = [u64; 88];

/// AES-192 round keys
pub(crate) type FixsliceKeys192 = [u64; 104];

/// AES-256 round keys
pub(crate) type FixsliceKeys256 = [u64; 120];

/// 512-bit internal state
pub(crate) type State = [u64; 8];

/// Fully bitsliced AES-128 key schedule to match the fully-fixsliced representation.
pub(crate) fn aes128_key_schedule(key: &[u8; 16]) -> FixsliceKeys128 {
    let mut rkeys = [0u64; 88];

    bitslice(&mut rkeys[..8], key, key, key, key);

    let mut rk_off = 0;
    for rcon in 0..10 {
        memshift32(&mut rkeys, rk_off);
        rk_off += 8;

        sub_bytes(&mut rkeys[rk_off..(rk_off + 8)]);
        sub_bytes_nots(&mut rkeys[rk_off..(rk_off + 8)]);

        if rcon < 8 {
            add_round_constant_bit(&mut rkeys[rk_off..(rk_off + 8)], rcon);
        } else {
            add_round_constant_bit(&mut rkeys[rk_off..(rk_off + 8)], rcon - 8);
            add_round_constant_bit(&mut rkeys[rk_off..(rk_off + 8)], rcon - 7);
            add_round_constant_bit(&mut rkeys[rk_off..(rk_off + 8)], rcon - 5);
            add_round_constant_bit(&mut rkeys[rk_off..(rk_off + 8)], rcon - 4);
        }

        xor_columns(&mut rkeys, rk_off, 8, ror_distance(1, 3));
    }

    // Adjust to match fixslicing format
    #[cfg(aes_compact)]
    {
        for i in (8..88).step_by(16) {
            inv_shift_rows_1(&mut rkeys[i..(i + 8)]);
        }
    }
    #[cfg(not(aes_compact))]
    {
        for i in (8..72).step_by(32) {
            inv_shift_rows_1(&mut rkeys[i..(i + 8)]);
            inv_shift_rows_2(&mut rkeys[(i + 8)..(i + 16)]);
            inv_shift_rows_3(&mut rkeys[(i + 16)..(i + 24)]);
        }
        inv_shift_rows_1(&mut rkeys[72..80]);
    }

    // Account for NOTs removed from sub_bytes
    for i in 1..11 {
        sub_bytes_nots(&mut rkeys[(i * 8)..(i * 8 + 8)]);
    }

    rkeys
}

/// Fully bitsliced AES-192 key schedule to match the fully-fixsliced representation.
pub(crate) fn aes192_key_schedule(key: &[u8; 24]) -> FixsliceKeys192 {
    let mut rkeys = [0u64; 104];
    let mut tmp = [0u64; 8];

    bitslice(
        &mut rkeys[..8],
        &key[..16],
        &key[..16],
        &key[..16],
        &key[..16],
    );
    bitslice(&mut tmp, &key[8..], &key[8..], &key[8..], &key[8..]);

    let mut rcon = 0;
    let mut rk_off = 8;

    loop {
        for i in 0..8 {
            rkeys[rk_off + i] = (0x00ff00ff00ff00ff & (tmp[i] >> 8))
                | (0xff00ff00ff00ff00 & (rkeys[(rk_off - 8) + i] << 8));
        }

        sub_bytes(&mut tmp);
        sub_bytes_nots(&mut tmp);

        add_round_constant_bit(&mut tmp, rcon);
        rcon += 1;

        for i in 0..8 {
            let mut ti = rkeys[rk_off + i];
            ti ^= 0x0f000f000f000f00 & ror(tmp[i], ror_distance(1, 1));
            ti ^= 0xf000f000f000f000 & (ti << 4);
            tmp[i] = ti;
        }
        rkeys[rk_off..(rk_off + 8)].copy_from_slice(&tmp);
        rk_off += 8;

        for i in 0..8 {
            let ui = tmp[i];
            let mut ti = (0x00ff00ff00ff00ff & (rkeys[(rk_off - 16) + i] >> 8))
                | (0xff00ff00ff00ff00 & (ui << 8));
            ti ^= 0x000f000f000f000f & (ui >> 12);
            tmp[i] = ti
                ^ (0xfff0fff0fff0fff0 & (ti << 4))
                ^ (0xff00ff00ff00ff00 & (ti << 8))
                ^ (0xf000f000f000f000 & (ti << 12));
        }
        rkeys[rk_off..(rk_off + 8)].copy_from_slice(&tmp);
        rk_off += 8;

        sub_bytes(&mut tmp);
        sub_bytes_nots(&mut tmp);

        add_round_constant_bit(&mut tmp, rcon);
        rcon += 1;

        for i in 0..8 {
            let mut ti = (0x00ff00ff00ff00ff & (rkeys[(rk_off - 16) + i] >> 8))
                | (0xff00ff00ff00ff00 & (rkeys[(rk_off - 8) + i] << 8));
            ti ^= 0x000f000f000f000f & ror(tmp[i], ror_distance(1, 3));
            rkeys[rk_off + i] = ti
                ^ (0xfff0fff0fff0fff0 & (ti << 4))
                ^ (0xff00ff00ff00ff00 & (ti << 8))
                ^ (0xf000f000f000f000 & (ti << 12));
        }
        rk_off += 8;

        if rcon >= 8 {
            break;
        }

        for i in 0..8 {
            let ui = rkeys[(rk_off - 8) + i];
            let mut ti = rkeys[(rk_off - 16) + i];
            ti ^= 0x0f000f000f000f00 & (ui >> 4);
            ti ^= 0xf000f000f000f000 & (ti << 4);
            tmp[i] = ti;
        }
    }

    // Adjust to match fixslicing format
    #[cfg(aes_compact)]
    {
        for i in (8..104).step_by(16) {
            inv_shift_rows_1(&mut rkeys[i..(i + 8)]);
        }
    }
    #[cfg(not(aes_compact))]
    {
        for i in (0..96).step_by(32) {
            inv_shift_rows_1(&mut rkeys[(i + 8)..(i + 16)]);
            inv_shift_rows_2(&mut rkeys[(i + 16)..(i + 24)]);
            inv_shift_rows_3(&mut rkeys[(i + 24)..(i + 32)]);
        }
    }

    // Account for NOTs removed from sub_bytes
    for i in 1..13 {
        sub_bytes_nots(&mut rkeys[(i * 8)..(i * 8 + 8)]);
    }

    rkeys
}

/// Fully bitsliced AES-256 key schedule to match the fully-fixsliced representation.
pub(crate) fn aes256_key_schedule(key: &[u8; 32]) -> FixsliceKeys256 {
    let mut rkeys = [0u64; 120];

    bitslice(
        &mut rkeys[..8],
        &key[..16],
        &key[..16],
        &key[..16],
        &key[..16],
    );
    bitslice(
        &mut rkeys[8..16],
        &key[16..],
        &key[16..],
        &key[16..],
        &key[16..],
    );

    let mut rk_off = 8;

    let mut rcon = 0;
    loop {
        memshift32(&mut rkeys, rk_off);
        rk_off += 8;

        sub_bytes(&mut rkeys[rk_off..(rk_off + 8)]);
        sub_bytes_nots(&mut rkeys[rk_off..(rk_off + 8)]);

        add_round_constant_bit(&mut rkeys[rk_off..(rk_off + 8)], rcon);
        xor_columns(&mut rkeys, rk_off, 16, ror_distance(1, 3));
        rcon += 1;

        if rcon == 7 {
            break;
        }

        memshift32(&mut rkeys, rk_off);
        rk_off += 8;

        sub_bytes(&mut rkeys[rk_off..(rk_off + 8)]);
        sub_bytes_nots(&mut rkeys[rk_off..(rk_off + 8)]);

        xor_columns(&mut rkeys, rk_off, 16, ror_distance(0, 3));
    }

    // Adjust to match fixslicing format
    #[cfg(aes_compact)]
    {
        for i in (8..120).step_by(16) {
            inv_shift_rows_1(&mut rkeys[i..(i + 8)]);
        }
    }
    #[cfg(not(aes_compact))]
    {
        for i in (8..104).step_by(32) {
            inv_shift_rows_1(&mut rkeys[i..(i + 8)]);
            inv_shift_rows_2(&mut rkeys[(i + 8)..(i + 16)]);
            inv_shift_rows_3(&mut rkeys[(i + 16)..(i + 24)]);
        }
        inv_shift_rows_1(&mut rkeys[104..112]);
    }

    // Account for NOTs removed from sub_bytes
    for i in 1..15 {
        sub_bytes_nots(&mut rkeys[(i * 8)..(i * 8 + 8)]);
    }

    rkeys
}

/// Fully-fixsliced AES-128 decryption (the InvShiftRows is completely omitted).
///
/// Decrypts four blocks in-place and in parallel.
pub(crate) fn aes128_decrypt(rkeys: &FixsliceKeys128, blocks: &BatchBlocks) -> BatchBlocks {
    let mut state = State::default();

    bitslice(&mut state, &blocks[0], &blocks[1], &blocks[2], &blocks[3]);

    add_round_key(&mut state, &rkeys[80..]);
    inv_sub_bytes(&mut state);

    #[cfg(not(aes_compact))]
    {
        inv_shift_rows_2(&mut state);
    }

    let mut rk_off = 72;
    loop {
        #[cfg(aes_compact)]
        {
            inv_shift_rows_2(&mut state);
        }

        add_round_key(&mut state, &rkeys[rk_off..(rk_off + 8)]);
        inv_mix_columns_1(&mut state);
        inv_sub_bytes(&mut state);
        rk_off -= 8;

        if rk_off == 0 {
            break;
        }

        add_round_key(&mut state, &rkeys[rk_off..(rk_off + 8)]);
        inv_mix_columns_0(&mut state);
        inv_sub_bytes(&mut state);
        rk_off -= 8;

        #[cfg(not(aes_compact))]
        {
            add_round_key(&mut state, &rkeys[rk_off..(rk_off + 8)]);
            inv_mix_columns_3(&mut state);
            inv_sub_bytes(&mut state);
            rk_off -= 8;

            add_round_key(&mut state, &rkeys[rk_off..(rk_off + 8)]);
            inv_mix_columns_2(&mut state);
            inv_sub_bytes(&mut state);
            rk_off -= 8;
        }
    }

    add_round_key(&mut state, &rkeys[..8]);

    inv_bitslice(&state)
}

/// Fully-fixsliced AES-128 encryption (the ShiftRows is completely omitted).
///
/// Encrypts four blocks in-place and in parallel.
pub(crate) fn aes128_encrypt(rkeys: &FixsliceKeys128, blocks: &BatchBlocks) -> BatchBlocks {
    let mut state = State::default();

    bitslice(&mut state, &blocks[0], &blocks[1], &blocks[2], &blocks[3]);

    add_round_key(&mut state, &rkeys[..8]);

    let mut rk_off = 8;
    loop {
        sub_bytes(&mut state);
        mix_columns_1(&mut state);
        add_round_key(&mut state, &rkeys[rk_off..(rk_off + 8)]);
        rk_off += 8;

        #[cfg(aes_compact)]
        {
            shift_rows_2(&mut state);
        }

        if rk_off == 80 {
            break;
        }

        #[cfg(not(aes_compact))]
        {
            sub_bytes(&mut state);
            mix_columns_2(&mut state);
            add_round_key(&mut state, &rkeys[rk_off..(rk_off + 8)]);
            rk_off += 8;

            sub_bytes(&mut state);
            mix_columns_3(&mut state);
            add_round_key(&mut state, &rkeys[rk_off..(rk_off + 8)]);
            rk_off += 8;
        }

        sub_bytes(&mut state);
        mix_columns_0(&mut state);
        add_round_key(&mut state, &rkeys[rk_off..(rk_off + 8)]);
        rk_off += 8;
    }

    #[cfg(not(aes_compact))]
    {
        shift_rows_2(&mut state);
    }

    sub_bytes(&mut state);
    add_round_key(&mut state, &rkeys[80..]);

    inv_bitslice(&state)
}

/// Fully-fixsliced AES-192 decryption (the InvShiftRows is completely omitted).
///
/// Decrypts four blocks in-place and in parallel.
pub(crate) fn aes192_decrypt(rkeys: &FixsliceKeys192, blocks: &BatchBlocks) -> BatchBlocks {
    let mut state = State::default();

    bitslice(&mut state, &blocks[0], &blocks[1], &blocks[2], &blocks[3]);

    add_round_key(&mut state, &rkeys[96..]);
    inv_sub_bytes(&mut state);

    let mut rk_off = 88;
    loop {
        #[cfg(aes_compact)]
        {
            inv_shift_rows_2(&mut state);
        }
        #[cfg(not(aes_compact))]
        {
            add_round_key(&mut state, &rkeys[rk_off..(rk_off + 8)]);
            inv_mix_columns_3(&mut state);
            inv_sub_bytes(&mut state);
            rk_off -= 8;

            add_round_key(&mut state, &rkeys[rk_off..(rk_off + 8)]);
            inv_mix_columns_2(&mut state);
            inv_sub_bytes(&mut state);
            rk_off -= 8;
        }

        add_round_key(&mut state, &rkeys[rk_off..(rk_off + 8)]);
        inv_mix_columns_1(&mut state);
        inv_sub_bytes(&mut state);
        rk_off -= 8;

        if rk_off == 0 {
            break;
        }

        add_round_key(&mut state, &rkeys[rk_off..(rk_off + 8)]);
        inv_mix_columns_0(&mut state);
        inv_sub_bytes(&mut state);
        rk_off -= 8;
    }

    add_round_key(&mut state, &rkeys[..8]);

    inv_bitslice(&state)
}

/// Fully-fixsliced AES-192 encryption (the ShiftRows is completely omitted).
///
/// Encrypts four blocks in-place and in parallel.
pub(crate) fn aes192_encrypt(rkeys: &FixsliceKeys192, blocks: &BatchBlocks) -> BatchBlocks {
    let mut state = State::default();

    bitslice(&mut state, &blocks[0], &blocks[1], &blocks[2], &blocks[3]);

    add_round_key(&mut state, &rkeys[..8]);

    let mut rk_off = 8;
    loop {
        sub_bytes(&mut state);
        mix_columns_1(&mut state);
        add_round_key(&mut state, &rkeys[rk_off..(rk_off + 8)]);
        rk_off += 8;

        #[cfg(aes_compact)]
        {
            shift_rows_2(&mut state);
        }
        #[cfg(not(aes_compact))]
        {
            sub_bytes(&mut state);
            mix_columns_2(&mut state);
            add_round_key(&mut state, &rkeys[rk_off..(rk_off + 8)]);
            rk_off += 8;

            sub_bytes(&mut state);
            mix_columns_3(&mut state);
            add_round_key(&mut state, &rkeys[rk_off..(rk_off + 8)]);
            rk_off += 8;
        }

        if rk_off == 96 {
            break;
        }

        sub_bytes(&mut state);
        mix_columns_0(&mut state);
        add_round_key(&mut state, &rkeys[rk_off..(rk_off + 8)]);
        rk_off += 8;
    }

    sub_bytes(&mut state);
    add_round_key(&mut state, &rkeys[96..]);

    inv_bitslice(&state)
}

/// Fully-fixsliced AES-256 decryption (the InvShiftRows is completely omitted).
///
/// Decrypts four blocks in-place and in parallel.
pub(crate) fn aes256_decrypt(rkeys: &FixsliceKeys256, blocks: &BatchBlocks) -> BatchBlocks {
    let mut state = State::default();

    bitslice(&mut state, &blocks[0], &blocks[1], &blocks[2], &blocks[3]);

    add_round_key(&mut state, &rkeys[112..]);
    inv_sub_bytes(&mut state);

    #[cfg(not(aes_compact))]
    {
        inv_shift_rows_2(&mut state);
    }

    let mut rk_off = 104;
    loop {
        #[cfg(aes_compact)]
        {
            inv_shift_rows_2(&mut state);
        }

        add_round_key(&mut state, &rkeys[rk_off..(rk_off + 8)]);
        inv_mix_columns_1(&mut state);
        inv_sub_bytes(&mut state);
        rk_off -= 8;

        if rk_off == 0 {
            break;
        }

        add_round_key(&mut state, &rkeys[rk_off..(rk_off + 8)]);
        inv_mix_columns_0(&mut state);
        inv_sub_bytes(&mut state);
        rk_off -= 8;

        #[cfg(not(aes_compact))]
        {
            add_round_key(&mut state, &rkeys[rk_off..(rk_off + 8)]);
            inv_mix_columns_3(&mut state);
            inv_sub_bytes(&mut state);
            rk_off -= 8;

            add_round_key(&mut state, &rkeys[rk_off..(rk_off + 8)]);
            inv_mix_columns_2(&mut state);
            inv_sub_bytes(&mut state);
            rk_off -= 8;
        }
    }

    add_round_key(&mut state, &rkeys[..8]);

    inv_bitslice(&state)
}

/// Fully-fixsliced AES-256 encryption (the ShiftRows is completely omitted).
///
/// Encrypts four blocks in-place and in parallel.
pub(crate) fn aes256_encrypt(rkeys: &FixsliceKeys256, blocks: &BatchBlocks) -> BatchBlocks {
    let mut state = State::default();

    bitslice(&mut state, &blocks[0], &blocks[1], &blocks[2], &blocks[3]);

    add_round_key(&mut state, &rkeys[..8]);

    let mut rk_off = 8;
    loop {
        sub_bytes(&mut state);
        mix_columns_1(&mut state);
        add_round_key(&mut state, &rkeys[rk_off..(rk_off + 8)]);
        rk_off += 8;

        #[cfg(aes_compact)]
        {
            shift_rows_2(&mut state);
        }

        if rk_off == 112 {
            break;
        }

        #[cfg(not(aes_compact))]
        {
            sub_bytes(&mut state);
            mix_columns_2(&mut state);
            add_round_key(&mut state, &rkeys[rk_off..(rk_off + 8)]);
            rk_off += 8;

            sub_bytes(&mut state);
            mix_columns_3(&mut state);
            add_round_key(&mut state, &rkeys[rk_off..(rk_off + 8)]);
            rk_off += 8;
        }

        sub_bytes(&mut state);
        mix_columns_0(&mut state);
        add_round_key(&mut state, &rkeys[rk_off..(rk_off + 8)]);
        rk_off += 8;
    }

    #[cfg(not(aes_compact))]
    {
        shift_rows_2(&mut state);
    }

    sub_bytes(&mut state);
    add_round_key(&mut state, &rkeys[112..]);

    inv_bitslice(&state)
}

/// Note that the 4 bitwise NOT (^= 0xffffffffffffffff) are accounted for here so that it is a true
/// inverse of 'sub_bytes'.
fn inv_sub_bytes(state: &mut [u64]) {
    debug_assert_eq!(state.len(), 8);

    // Scheduled using https://github.com/Ko-/aes-armcortexm/tree/public/scheduler
    // Inline "stack" comments reflect suggested stores and loads (ARM Cortex-M3 and M4)

    let u7 = state[0];
    let u6 = state[1];
    let u5 = state[2];
    let u4 = state[3];
    let u3 = state[4];
    let u2 = state[5];
    let u1 = state[6];
    let u0 = state[7];

    let t23 = u0 ^ u3;
    let t8 = u1 ^ t23;
    let m2 = t23 & t8;
    let t4 = u4 ^ t8;
    let t22 = u1 ^ u3;
    let t2 = u0 ^ u1;
    let t1 = u3 ^ u4;
    // t23 -> stack
    let t9 = u7 ^ t1;
    // t8 -> stack
    let m7 = t22 & t9;
    // t9 -> stack
    let t24 = u4 ^ u7;
    // m7 -> stack
    let t10 = t2 ^ t24;
    // u4 -> stack
    let m14 = t2 & t10;
    let r5 = u6 ^ u7;
    // m2 -> stack
    let t3 = t1 ^ r5;
    // t2 -> stack
    let t13 = t2 ^ r5;
    let t19 = t22 ^ r5;
    // t3 -> stack
    let t17 = u2 ^ t19;
    // t4 -> stack
    let t25 = u2 ^ t1;
    let r13 = u1 ^ u6;
    // t25 -> stack
    let t20 = t24 ^ r13;
    // t17 -> stack
    let m9 = t20 & t17;
    // t20 -> stack
    let r17 = u2 ^ u5;
    // t22 -> stack
    let t6 = t22 ^ r17;
    // t13 -> stack
    let m1 = t13 & t6;
    let y5 = u0 ^ r17;
    let m4 = t19 & y5;
    let m5 = m4 ^ m1;
    let m17 = m5 ^ t24;
    let r18 = u5 ^ u6;
    let t27 = t1 ^ r18;
    let t15 = t10 ^ t27;
    // t6 -> stack
    let m11 = t1 & t15;
    let m15 = m14 ^ m11;
    let m21 = m17 ^ m15;
    // t1 -> stack
    // t4 <- stack
    let m12 = t4 & t27;
    let m13 = m12 ^ m11;
    let t14 = t10 ^ r18;
    let m3 = t14 ^ m1;
    // m2 <- stack
    let m16 = m3 ^ m2;
    let m20 = m16 ^ m13;
    // u4 <- stack
    let r19 = u2 ^ u4;
    let t16 = r13 ^ r19;
    // t3 <- stack
    let t26 = t3 ^ t16;
    let m6 = t3 & t16;
    let m8 = t26 ^ m6;
    // t10 -> stack
    // m7 <- stack
    let m18 = m8 ^ m7;
    let m22 = m18 ^ m13;
    let m25 = m22 & m20;
    let m26 = m21 ^ m25;
    let m10 = m9 ^ m6;
    let m19 = m10 ^ m15;
    // t25 <- stack
    let m23 = m19 ^ t25;
    let m28 = m23 ^ m25;
    let m24 = m22 ^ m23;
    let m30 = m26 & m24;
    let m39 = m23 ^ m30;
    let m48 = m39 & y5;
    let m57 = m39 & t19;
    // m48 -> stack
    let m36 = m24 ^ m25;
    let m31 = m20 & m23;
    let m27 = m20 ^ m21;
    let m32 = m27 & m31;
    let m29 = m28 & m27;
    let m37 = m21 ^ m29;
    // m39 -> stack
    let m42 = m37 ^ m39;
    let m52 = m42 & t15;
    // t27 -> stack
    // t1 <- stack
    let m61 = m42 & t1;
    let p0 = m52 ^ m61;
    let p16 = m57 ^ m61;
    // m57 -> stack
    // t20 <- stack
    let m60 = m37 & t20;
    // p16 -> stack
    // t17 <- stack
    let m51 = m37 & t17;
    let m33 = m27 ^ m25;
    let m38 = m32 ^ m33;
    let m43 = m37 ^ m38;
    let m49 = m43 & t16;
    let p6 = m49 ^ m60;
    let p13 = m49 ^ m51;
    let m58 = m43 & t3;
    // t9 <- stack
    let m50 = m38 & t9;
    // t22 <- stack
    let m59 = m38 & t22;
    // p6 -> stack
    let p1 = m58 ^ m59;
    let p7 = p0 ^ p1;
    let m34 = m21 & m22;
    let m35 = m24 & m34;
    let m40 = m35 ^ m36;
    let m41 = m38 ^ m40;
    let m45 = m42 ^ m41;
    // t27 <- stack
    let m53 = m45 & t27;
    let p8 = m50 ^ m53;
    let p23 = p7 ^ p8;
    // t4 <- stack
    let m62 = m45 & t4;
    let p14 = m49 ^ m62;
    let s6 = p14 ^ p23;
    // t10 <- stack
    let m54 = m41 & t10;
    let p2 = m54 ^ m62;
    let p22 = p2 ^ p7;
    let s0 = p13 ^ p22;
    let p17 = m58 ^ p2;
    let p15 = m54 ^ m59;
    // t2 <- stack
    let m63 = m41 & t2;
    // m39 <- stack
    let m44 = m39 ^ m40;
    // p17 -> stack
    // t6 <- stack
    let m46 = m44 & t6;
    let p5 = m46 ^ m51;
    // p23 -> stack
    let p18 = m63 ^ p5;
    let p24 = p5 ^ p7;
    // m48 <- stack
    let p12 = m46 ^ m48;
    let s3 = p12 ^ p22;
    // t13 <- stack
    let m55 = m44 & t13;
    let p9 = m55 ^ m63;
    // p16 <- stack
    let s7 = p9 ^ p16;
    // t8 <- stack
    let m47 = m40 & t8;
    let p3 = m47 ^ m50;
    let p19 = p2 ^ p3;
    let s5 = p19 ^ p24;
    let p11 = p0 ^ p3;
    let p26 = p9 ^ p11;
    // t23 <- stack
    let m56 = m40 & t23;
    let p4 = m48 ^ m56;
    // p6 <- stack
    let p20 = p4 ^ p6;
    let p29 = p15 ^ p20;
    let s1 = p26 ^ p29;
    // m57 <- stack
    let p10 = m57 ^ p4;
    let p27 = p10 ^ p18;
    // p23 <- stack
    let s4 = p23 ^ p27;
    let p25 = p6 ^ p10;
    let p28 = p11 ^ p25;
    // p17 <- stack
    let s2 = p17 ^ p28;

    state[0] = s7;
    state[1] = s6;
    state[2] = s5;
    state[3] = s4;
    state[4] = s3;
    state[5] = s2;
    state[6] = s1;
    state[7] = s0;
}

/// Bitsliced implementation of the AES Sbox based on Boyar, Peralta and Calik.
///
/// See: <http://www.cs.yale.edu/homes/peralta/CircuitStuff/SLP_AES_113.txt>
///
/// Note that the 4 bitwise NOT (^= 0xffffffffffffffff) are moved to the key schedule.
fn sub_bytes(state: &mut [u64]) {
    debug_assert_eq!(state.len(), 8);

    // Scheduled using https://github.com/Ko-/aes-armcortexm/tree/public/scheduler
    // Inline "stack" comments reflect suggested stores and loads (ARM Cortex-M3 and M4)

    let u7 = state[0];
    let u6 = state[1];
    let u5 = state[2];
    let u4 = state[3];
    let u3 = state[4];
    let u2 = state[5];
    let u1 = state[6];
    let u0 = state[7];

    let y14 = u3 ^ u5;
    let y13 = u0 ^ u6;
    let y12 = y13 ^ y14;
    let t1 = u4 ^ y12;
    let y15 = t1 ^ u5;
    let t2 = y12 & y15;
    let y6 = y15 ^ u7;
    let y20 = t1 ^ u1;
    // y12 -> stack
    let y9 = u0 ^ u3;
    // y20 -> stack
    let y11 = y20 ^ y9;
    // y9 -> stack
    let t12 = y9 & y11;
    // y6 -> stack
    let y7 = u7 ^ y11;
    let y8 = u0 ^ u5;
    let t0 = u1 ^ u2;
    let y10 = y15 ^ t0;
    // y15 -> stack
    let y17 = y10 ^ y11;
    // y14 -> stack
    let t13 = y14 & y17;
    let t14 = t13 ^ t12;
    // y17 -> stack
    let y19 = y10 ^ y8;
    // y10 -> stack
    let t15 = y8 & y10;
    let t16 = t15 ^ t12;
    let y16 = t0 ^ y11;
    // y11 -> stack
    let y21 = y13 ^ y16;
    // y13 -> stack
    let t7 = y13 & y16;
    // y16 -> stack
    let y18 = u0 ^ y16;
    let y1 = t0 ^ u7;
    let y4 = y1 ^ u3;
    // u7 -> stack
    let t5 = y4 & u7;
    let t6 = t5 ^ t2;
    let t18 = t6 ^ t16;
    let t22 = t18 ^ y19;
    let y2 = y1 ^ u0;
    let t10 = y2 & y7;
    let t11 = t10 ^ t7;
    let t20 = t11 ^ t16;
    let t24 = t20 ^ y18;
    let y5 = y1 ^ u6;
    let t8 = y5 & y1;
    let t9 = t8 ^ t7;
    let t19 = t9 ^ t14;
    let t23 = t19 ^ y21;
    let y3 = y5 ^ y8;
    // y6 <- stack
    let t3 = y3 & y6;
    let t4 = t3 ^ t2;
    // y20 <- stack
    let t17 = t4 ^ y20;
    let t21 = t17 ^ t14;
    let t26 = t21 & t23;
    let t27 = t24 ^ t26;
    let t31 = t22 ^ t26;
    let t25 = t21 ^ t22;
    // y4 -> stack
    let t28 = t25 & t27;
    let t29 = t28 ^ t22;
    let z14 = t29 & y2;
    let z5 = t29 & y7;
    let t30 = t23 ^ t24;
    let t32 = t31 & t30;
    let t33 = t32 ^ t24;
    let t35 = t27 ^ t33;
    let t36 = t24 & t35;
    let t38 = t27 ^ t36;
    let t39 = t29 & t38;
    let t40 = t25 ^ t39;
    let t43 = t29 ^ t40;
    // y16 <- stack
    let z3 = t43 & y16;
    let tc12 = z3 ^ z5;
    // tc12 -> stack
    // y13 <- stack
    let z12 = t43 & y13;
    let z13 = t40 & y5;
    let z4 = t40 & y1;
    let tc6 = z3 ^ z4;
    let t34 = t23 ^ t33;
    let t37 = t36 ^ t34;
    let t41 = t40 ^ t37;
    // y10 <- stack
    let z8 = t41 & y10;
    let z17 = t41 & y8;
    let t44 = t33 ^ t37;
    // y15 <- stack
    let z0 = t44 & y15;
    // z17 -> stack
    // y12 <- stack
    let z9 = t44 & y12;
    let z10 = t37 & y3;
    let z1 = t37 & y6;
    let tc5 = z1 ^ z0;
    let tc11 = tc6 ^ tc5;
    // y4 <- stack
    let z11 = t33 & y4;
    let t42 = t29 ^ t33;
    let t45 = t42 ^ t41;
    // y17 <- stack
    let z7 = t45 & y17;
    let tc8 = z7 ^ tc6;
    // y14 <- stack
    let z16 = t45 & y14;
    // y11 <- stack
    let z6 = t42 & y11;
    let tc16 = z6 ^ tc8;
    // z14 -> stack
    // y9 <- stack
    let z15 = t42 & y9;
    let tc20 = z15 ^ tc16;
    let tc1 = z15 ^ z16;
    let tc2 = z10 ^ tc1;
    let tc21 = tc2 ^ z11;
    let tc3 = z9 ^ tc2;
    let s0 = tc3 ^ tc16;
    let s3 = tc3 ^ tc11;
    let s1 = s3 ^ tc16;
    let tc13 = z13 ^ tc1;
    // u7 <- stack
    let z2 = t33 & u7;
    let tc4 = z0 ^ z2;
    let tc7 = z12 ^ tc4;
    let tc9 = z8 ^ tc7;
    let tc10 = tc8 ^ tc9;
    // z14 <- stack
    let tc17 = z14 ^ tc10;
    let s5 = tc21 ^ tc17;
    let tc26 = tc17 ^ tc20;
    // z17 <- stack
    let s2 = tc26 ^ z17;
    // tc12 <- stack
    let tc14 = tc4 ^ tc12;
    let tc18 = tc13 ^ tc14;
    let s6 = tc10 ^ tc18;
    let s7 = z12 ^ tc18;
    let s4 = tc14 ^ s3;

    state[0] = s7;
    state[1] = s6;
    state[2] = s5;
    state[3] = s4;
    state[4] = s3;
    state[5] = s2;
    state[6] = s1;
    state[7] = s0;
}

/// NOT operations that are omitted in S-box
#[inline]
fn sub_bytes_nots(state: &mut [u64]) {
    debug_assert_eq!(state.len(), 8);
    state[0] ^= 0xffffffffffffffff;
    state[1] ^= 0xffffffffffffffff;
    state[5] ^= 0xffffffffffffffff;
    state[6] ^= 0xffffffffffffffff;
}

/// Computation of the MixColumns transformation in the fixsliced representation, with different
/// rotations used according to the round number mod 4.
///
/// Based on Käsper-Schwabe, similar to https://github.com/Ko-/aes-armcortexm.
macro_rules! define_mix_columns {
    (
        $name:ident,
        $name_inv:ident,
        $first_rotate:path,
        $second_rotate:path
    ) => {
        #[rustfmt::skip]
        fn $name(state: &mut State) {
            let (a0, a1, a2, a3, a4, a5, a6, a7) = (
                state[0], state[1], state[2], state[3], state[4], state[5], state[6], state[7]
            );
            let (b0, b1, b2, b3, b4, b5, b6, b7) = (
                $first_rotate(a0),
                $first_rotate(a1),
                $first_rotate(a2),
                $first_rotate(a3),
                $first_rotate(a4),
                $first_rotate(a5),
                $first_rotate(a6),
                $first_rotate(a7),
            );
            let (c0, c1, c2, c3, c4, c5, c6, c7) = (
                a0 ^ b0,
                a1 ^ b1,
                a2 ^ b2,
                a3 ^ b3,
                a4 ^ b4,
                a5 ^ b5,
                a6 ^ b6,
                a7 ^ b7,
            );
            state[0] = b0      ^ c7 ^ $second_rotate(c0);
            state[1] = b1 ^ c0 ^ c7 ^ $second_rotate(c1);
            state[2] = b2 ^ c1      ^ $second_rotate(c2);
            state[3] = b3 ^ c2 ^ c7 ^ $second_rotate(c3);
            state[4] = b4 ^ c3 ^ c7 ^ $second_rotate(c4);
            state[5] = b5 ^ c4      ^ $second_rotate(c5);
            state[6] = b6 ^ c5      ^ $second_rotate(c6);
            state[7] = b7 ^ c6      ^ $second_rotate(c7);
        }

        #[rustfmt::skip]
        fn $name_inv(state: &mut State) {
            let (a0, a1, a2, a3, a4, a5, a6, a7) = (
                state[0], state[1], state[2], state[3], state[4], state[5], state[6], state[7]
            );
            let (b0, b1, b2, b3, b4, b5, b6, b7) = (
                $first_rotate(a0),
                $first_rotate(a1),
                $first_rotate(a2),
                $first_rotate(a3),
                $first_rotate(a4),
                $first_rotate(a5),
                $first_rotate(a6),
                $first_rotate(a7),
            );
            let (c0, c1, c2, c3, c4, c5, c6, c7) = (
                a0 ^ b0,
                a1 ^ b1,
                a2 ^ b2,
                a3 ^ b3,
                a4 ^ b4,
                a5 ^ b5,
                a6 ^ b6,
                a7 ^ b7,
            );
            let (d0, d1, d2, d3, d4, d5, d6, d7) = (
                a0      ^ c7,
                a1 ^ c0 ^ c7,
                a2 ^ c1,
                a3 ^ c2 ^ c7,
                a4 ^ c3 ^ c7,
                a5 ^ c4,
                a6 ^ c5,
                a7 ^ c6,
            );
            let (e0, e1, e2, e3, e4, e5, e6, e7) = (
                c0      ^ d6,
                c1      ^ d6 ^ d7,
                c2 ^ d0      ^ d7,
                c3 ^ d1 ^ d6,
                c4 ^ d2 ^ d6 ^ d7,
                c5 ^ d3      ^ d7,
                c6 ^ d4,
                c7 ^ d5,
            );
            state[0] = d0 ^ e0 ^ $second_rotate(e0);
            state[1] = d1 ^ e1 ^ $second_rotate(e1);
            state[2] = d2 ^ e2 ^ $second_rotate(e2);
            state[3] = d3 ^ e3 ^ $second_rotate(e3);
            state[4] = d4 ^ e4 ^ $second_rotate(e4);
            state[5] = d5 ^ e5 ^ $second_rotate(e5);
            state[6] = d6 ^ e6 ^ $second_rotate(e6);
            state[7] = d7 ^ e7 ^ $second_rotate(e7);
        }
    }
}

define_mix_columns!(
    mix_columns_0,
    inv_mix_columns_0,
    rotate_rows_1,
    rotate_rows_2
);

define_mix_columns!(
    mix_columns_1,
    inv_mix_columns_1,
    rotate_rows_and_columns_1_1,
    rotate_rows_and_columns_2_2
);

#[cfg(not(aes_compact))]
define_mix_columns!(
    mix_columns_2,
    inv_mix_columns_2,
    rotate_rows_and_columns_1_2,
    rotate_rows_2
);

#[cfg(not(aes_compact))]
define_mix_columns!(
    mix_columns_3,
    inv_mix_columns_3,
    rotate_rows_and_columns_1_3,
    rotate_rows_and_columns_2_2
);

#[inline]
fn delta_swap_1(a: &mut u64, shift: u32, mask: u64) {
    let t = (*a ^ ((*a) >> shift)) & mask;
    *a ^= t ^ (t << shift);
}

#[inline]
fn delta_swap_2(a: &mut u64, b: &mut u64, shift: u32, mask: u64) {
    let t = (*a ^ ((*b) >> shift)) & mask;
    *a ^= t;
    *b ^= t << shift;
}

/// Applies ShiftRows once on an AES state (or key).
#[cfg(any(not(aes_compact), feature = "hazmat"))]
#[inline]
fn shift_rows_1(state: &mut [u64]) {
    debug_assert_eq!(state.len(), 8);
    for x in state.iter_mut() {
        delta_swap_1(x, 8, 0x00f000ff000f0000);
        delta_swap_1(x, 4, 0x0f0f00000f0f0000);
    }
}

/// Applies ShiftRows twice on an AES state (or key).
#[inline]
fn shift_rows_2(state: &mut [u64]) {
    debug_assert_eq!(state.len(), 8);
    for x in state.iter_mut() {
        delta_swap_1(x, 8, 0x00ff000000ff0000);
    }
}

/// Applies ShiftRows three times on an AES state (or key).
#[inline]
fn shift_rows_3(state: &mut [u64]) {
    debug_assert_eq!(state.len(), 8);
    for x in state.iter_mut() {
        delta_swap_1(x, 8, 0x000f00ff00f00000);
        delta_swap_1(x, 4, 0x0f0f00000f0f0000);
    }
}

#[inline(always)]
fn inv_shift_rows_1(state: &mut [u64]) {
    shift_rows_3(state);
}

#[inline(always)]
fn inv_shift_rows_2(state: &mut [u64]) {
    shift_rows_2(state);
}

#[cfg(not(aes_compact))]
#[inline(always)]
fn inv_shift_rows_3(state: &mut [u64]) {
    shift_rows_1(state);
}

/// XOR the columns after the S-box during the key schedule round function.
///
/// The `idx_xor` parameter refers to the index of the previous round key that is
/// involved in the XOR computation (should be 8 and 16 for AES-128 and AES-256,
/// respectively).
///
/// The `idx_ror` parameter refers to the rotation value, which varies between the
/// different key schedules.
fn xor_columns(rkeys: &mut [u64], offset: usize, idx_xor: usize, idx_ror: u32) {
    for i in 0..8 {
        let off_i = offset + i;
        let rk = rkeys[off_i - idx_xor] ^ (0x000f000f000f000f & ror(rkeys[off_i], idx_ror));
        rkeys[off_i] = rk
            ^ (0xfff0fff0fff0fff0 & (rk << 4))
            ^ (0xff00ff00ff00ff00 & (rk << 8))
            ^ (0xf000f000f000f000 & (rk << 12));
    }
}

/// Bitslice four 128-bit input blocks input0, input1, input2, input3 into a 512-bit internal state.
fn bitslice(output: &mut [u64], input0: &[u8], input1: &[u8], input2: &[u8], input3: &[u8]) {
    debug_assert_eq!(output.len(), 8);
    debug_assert_eq!(input0.len(), 16);
    debug_assert_eq!(input1.len(), 16);
    debug_assert_eq!(input2.len(), 16);
    debug_assert_eq!(input3.len(), 16);

    // Bitslicing is a bit index manipulation. 512 bits of data means each bit is positioned at a
    // 9-bit index. AES data is 4 blocks, each one a 4x4 column-major matrix of bytes, so the
    // index is initially ([b]lock, [c]olumn, [r]ow, [p]osition):
    //     b1 b0 c1 c0 r1 r0 p2 p1 p0
    //
    // The desired bitsliced data groups first by bit position, then row, column, block:
    //     p2 p1 p0 r1 r0 c1 c0 b1 b0

    #[rustfmt::skip]
    fn read_reordered(input: &[u8]) -> u64 {
        (u64::from(input[0x0])        ) |
        (u64::from(input[0x1]) << 0x10) |
        (u64::from(input[0x2]) << 0x20) |
        (u64::from(input[0x3]) << 0x30) |
        (u64::from(input[0x8]) << 0x08) |
        (u64::from(input[0x9]) << 0x18) |
        (u64::from(input[0xa]) << 0x28) |
        (u64::from(input[0xb]) << 0x38)
    }

    // Reorder each block's bytes on input
    //     __ __ c1 c0 r1 r0 __ __ __ => __ __ c0 r1 r0 c1 __ __ __
    // Reorder by relabeling (note the order of input)
    //     b1 b0 c0 __ __ __ __ __ __ => c0 b1 b0 __ __ __ __ __ __
    let mut t0 = read_reordered(&input0[0x00..0x0c]);
    let mut t4 = read_reordered(&input0[0x04..0x10]);
    let mut t1 = read_reordered(&input1[0x00..0x0c]);
    let mut t5 = read_reordered(&input1[0x04..0x10]);
    let mut t2 = read_reordered(&input2[0x00..0x0c]);
    let mut t6 = read_reordered(&input2[0x04..0x10]);
    let mut t3 = read_reordered(&input3[0x00..0x0c]);
    let mut t7 = read_reordered(&input3[0x04..0x10]);

    // Bit Index Swap 6 <-> 0:
    //     __ __ b0 __ __ __ __ __ p0 => __ __ p0 __ __ __ __ __ b0
    let m0 = 0x5555555555555555;
    delta_swap_2(&mut t1, &mut t0, 1, m0);
    delta_swap_2(&mut t3, &mut t2, 1, m0);
    delta_swap_2(&mut t5, &mut t4, 1, m0);
    delta_swap_2(&mut t7, &mut t6, 1, m0);

    // Bit Index Swap 7 <-> 1:
    //     __ b1 __ __ __ __ __ p1 __ => __ p1 __ __ __ __ __ b1 __
    let m1 = 0x3333333333333333;
    delta_swap_2(&mut t2, &mut t0, 2, m1);
    delta_swap_2(&mut t3, &mut t1, 2, m1);
    delta_swap_2(&mut t6, &mut t4, 2, m1);
    delta_swap_2(&mut t7, &mut t5, 2, m1);

    // Bit Index Swap 8 <-> 2:
    //     c0 __ __ __ __ __ p2 __ __ => p2 __ __ __ __ __ c0 __ __
    let m2 = 0x0f0f0f0f0f0f0f0f;
    delta_swap_2(&mut t4, &mut t0, 4, m2);
    delta_swap_2(&mut t5, &mut t1, 4, m2);
    delta_swap_2(&mut t6, &mut t2, 4, m2);
    delta_swap_2(&mut t7, &mut t3, 4, m2);

    // Final bitsliced bit index, as desired:
    //     p2 p1 p0 r1 r0 c1 c0 b1 b0
    output[0] = t0;
    output[1] = t1;
    output[2] = t2;
    output[3] = t3;
    output[4] = t4;
    output[5] = t5;
    output[6] = t6;
    output[7] = t7;
}

/// Un-bitslice a 512-bit internal state into four 128-bit blocks of output.
fn inv_bitslice(input: &[u64]) -> BatchBlocks {
    debug_assert_eq!(input.len(), 8);

    // Unbitslicing is a bit index manipulation. 512 bits of data means each bit is positioned at
    // a 9-bit index. AES data is 4 blocks, each one a 4x4 column-major matrix of bytes, so the
    // desired index for the output is ([b]lock, [c]olumn, [r]ow, [p]osition):
    //     b1 b0 c1 c0 r1 r0 p2 p1 p0
    //
    // The initially bitsliced data groups first by bit position, then row, column, block:
    //     p2 p1 p0 r1 r0 c1 c0 b1 b0

    let mut t0 = input[0];
    let mut t1 = input[1];
    let mut t2 = input[2];
    let mut t3 = input[3];
    let mut t4 = input[4];
    let mut t5 = input[5];
    let mut t6 = input[6];
    let mut t7 = input[7];

    // TODO: these bit index swaps are identical to those in 'packing'

    // Bit Index Swap 6 <-> 0:
    //     __ __ p0 __ __ __ __ __ b0 => __ __ b0 __ __ __ __ __ p0
    let m0 = 0x5555555555555555;
    delta_swap_2(&mut t1, &mut t0, 1, m0);
    delta_swap_2(&mut t3, &mut t2, 1, m0);
    delta_swap_2(&mut t5, &mut t4, 1, m0);
    delta_swap_2(&mut t7, &mut t6, 1, m0);

    // Bit Index Swap 7 <-> 1:
    //     __ p1 __ __ __ __ __ b1 __ => __ b1 __ __ __ __ __ p1 __
    let m1 = 0x3333333333333333;
    delta_swap_2(&mut t2, &mut t0, 2, m1);
    delta_swap_2(&mut t3, &mut t1, 2, m1);
    delta_swap_2(&mut t6, &mut t4, 2, m1);
    delta_swap_2(&mut t7, &mut t5, 2, m1);

    // Bit Index Swap 8 <-> 2:
    //     p2 __ __ __ __ __ c0 __ __ => c0 __ __ __ __ __ p2 __ __
    let m2 = 0x0f0f0f0f0f0f0f0f;
    delta_swap_2(&mut t4, &mut t0, 4, m2);
    delta_swap_2(&mut t5, &mut t1, 4, m2);
    delta_swap_2(&mut t6, &mut t2, 4, m2);
    delta_swap_2(&mut t7, &mut t3, 4, m2);

    #[rustfmt::skip]
    fn write_reordered(columns: u64, output: &mut [u8]) {
        output[0x0] = (columns        ) as u8;
        output[0x1] = (columns >> 0x10) as u8;
        output[0x2] = (columns >> 0x20) as u8;
        output[0x3] = (columns >> 0x30) as u8;
        output[0x8] = (columns >> 0x08) as u8;
        output[0x9] = (columns >> 0x18) as u8;
        output[0xa] = (columns >> 0x28) as u8;
        output[0xb] = (columns >> 0x38) as u8;
    }

    let mut output = BatchBlocks::default();
    // Reorder by relabeling (note the order of output)
    //     c0 b1 b0 __ __ __ __ __ __ => b1 b0 c0 __ __ __ __ __ __
    // Reorder each block's bytes on output
    //     __ __ c0 r1 r0 c1 __ __ __ => __ __ c1 c0 r1 r0 __ __ __
    write_reordered(t0, &mut output[0][0x00..0x0c]);
    write_reordered(t4, &mut output[0][0x04..0x10]);
    write_reordered(t1, &mut output[1][0x00..0x0c]);
    write_reordered(t5, &mut output[1][0x04..0x10]);
    write_reordered(t2, &mut output[2][0x00..0x0c]);
    write_reordered(t6, &mut output[2][0x04..0x10]);
    write_reordered(t3, &mut output[3][0x00..0x0c]);
    write_reordered(t7, &mut output[3][0x04..0x10]);

    // Final AES bit index, as desired:
    //     b1 b0 c1 c0 r1 r0 p2 p1 p0
    output
}

/// Copy 32-bytes within the provided slice to an 8-byte offset
fn memshift32(buffer: &mut [u64], src_offset: usize) {
    debug_assert_eq!(src_offset % 8, 0);

    let dst_offset = src_offset + 8;
    debug_assert!(dst_offset + 8 <= buffer.len());

    for i in (0..8).rev() {
        buffer[dst_offset + i] = buffer[src_offset + i];
    }
}

/// XOR the round key to the internal state. The round keys are expected to be
/// pre-computed and to be packed in the fixsliced representation.
#[inline]
fn add_round_key(state: &mut State, rkey: &[u64]) {
    debug_assert_eq!(rkey.len(), 8);
    for (a, b) in state.iter_mut().zip(rkey) {
        *a ^= b;
    }
}

#[inline(always)]
fn add_round_constant_bit(state: &mut [u64], bit: usize) {
    state[bit] ^= 0x00000000f0000000;
}

#[inline(always)]
fn ror(x: u64, y: u32) -> u64 {
    x.rotate_right(y)
}

#[inline(always)]
fn ror_distance(rows: u32, cols: u32) -> u32 {
    (rows << 4) + (cols << 2)
}

#[inline(always)]
fn rotate_rows_1(x: u64) -> u64 {
    ror(x, ror_distance(1, 0))
}

#[inline(always)]
fn rotate_rows_2(x: u64) -> u64 {
    ror(x, ror_distance(2, 0))
}

#[inline(always)]
#[rustfmt::skip]
fn rotate_rows_and_columns_1_1(x: u64) -> u64 {
    (ror(x, ror_distance(1, 1)) & 0x0fff0fff0fff0fff) |
    (ror(x, ror_distance(0, 1)) & 0xf000f000f000f000)
}

#[cfg(not(aes_compact))]
#[inline(always)]
#[rustfmt::skip]
fn rotate_rows_and_columns_1_2(x: u64) -> u64 {
    (ror(x, ror_distance(1, 2)) & 0x00ff00ff00ff00ff) |
    (ror(x, ror_distance(0, 2)) & 0xff00ff00ff00ff00)
}

#[cfg(not(aes_compact))]
#[inline(always)]
#[rustfmt::skip]
fn rotate_rows_and_columns_1_3(x: u64) -> u64 {
    (ror(x, ror_distance(1, 3)) & 0x000f000f000f000f) |
    (ror(x, ror_distance(0, 3)) & 0xfff0fff0fff0fff0)
}

#[inline(always)]
#[rustfmt::skip]
fn rotate_rows_and_columns_2_2(x: u64) -> u64 {
    (ror(x, ror_distance(2, 2)) & 0x00ff00ff00ff00ff) |
    (ror(x, ror_distance(1, 2)) & 0xff00ff00ff00ff00)
}

/// Low-level "hazmat" AES functions.
///
/// Note: this isn't actually used in the `Aes128`/`Aes192`/`Aes256`
/// implementations in this crate, but instead provides raw access to
/// the AES round function gated under the `hazmat` crate feature.
#[cfg(feature = "hazmat")]
pub(crate) mod hazmat {
    use super::{
        State, bitslice, inv_bitslice, inv_mix_columns_0, inv_shift_rows_1, inv_sub_bytes,
        mix_columns_0, shift_rows_1, sub_bytes, sub_bytes_nots,
    };
    use crate::hazmat::{Block, Block8};

    /// XOR the `src` block into the `dst` block in-place.
    fn xor_in_place(dst: &mut Block, src: &Block) {
        for (a, b) in dst.iter_mut().zip(src.as_slice()) {
            *a ^= *b;
        }
    }

    /// Perform a bitslice operation, loading a single block.
    fn bitslice_block(block: &Block) -> State {
        let mut state = State::default();
        bitslice(&mut state, block, block, block, block);
        state
    }

    /// Perform an inverse bitslice operation, extracting a single block.
    fn inv_bitslice_block(block: &mut Block, state: &State) {
        block.copy_from_slice(&inv_bitslice(state)[0]);
    }

    /// AES cipher (encrypt) round function.
    #[inline]
    pub(crate) fn cipher_round(block: &mut Block, round_key: &Block) {
        let mut state = bitslice_block(block);
        sub_bytes(&mut state);
        sub_bytes_nots(&mut state);
        shift_rows_1(&mut state);
        mix_columns_0(&mut state);
        inv_bitslice_block(block, &state);
        xor_in_place(block, round_key);
    }

    /// AES cipher (encrypt) round function: parallel version.
    #[inline]
    pub(crate) fn cipher_round_par(blocks: &mut Block8, round_keys: &Block8) {
        for (chunk, keys) in blocks.chunks_exact_mut(4).zip(round_keys.chunks_exact(4)) {
            let mut state = State::default();
            bitslice(&mut state, &chunk[0], &chunk[1], &chunk[2], &chunk[3]);
            sub_bytes(&mut state);
            sub_bytes_nots(&mut state);
            shift_rows_1(&mut state);
            mix_columns_0(&mut state);
            let res = inv_bitslice(&state);

            for i in 0..4 {
                chunk[i] = res[i];
                xor_in_place(&mut chunk[i], &keys[i]);
            }
        }
    }

    /// AES cipher (encrypt) round function.
    #[inline]
    pub(crate) fn equiv_inv_cipher_round(block: &mut Block, round_key: &Block) {
        let mut state = State::default();
        bitslice(&mut state, block, block, block, block);
        sub_bytes_nots(&mut state);
        inv_sub_bytes(&mut state);
        inv_shift_rows_1(&mut state);
        inv_mix_columns_0(&mut state);
        inv_bitslice_block(block, &state);
        xor_in_place(block, round_key);
    }

    /// AES cipher (encrypt) round function: parallel version.
    #[inline]
    pub(crate) fn equiv_inv_cipher_round_par(blocks: &mut Block8, round_keys: &Block8) {
        for (chunk, keys) in blocks.chunks_exact_mut(4).zip(round_keys.chunks_exact(4)) {
            let mut state = State::default();
            bitslice(&mut state, &chunk[0], &chunk[1], &chunk[2], &chunk[3]);
            sub_bytes_nots(&mut state);
            inv_sub_bytes(&mut state);
            inv_shift_rows_1(&mut state);
            inv_mix_columns_0(&mut state);
            let res = inv_bitslice(&state);

            for i in 0..4 {
                chunk[i] = res[i];
                xor_in_place(&mut chunk[i], &keys[i]);
            }
        }
    }

    /// AES mix columns function.
    #[inline]
    pub(crate) fn mix_columns(block: &mut Block) {
        let mut state = bitslice_block(block);
        mix_columns_0(&mut state);
        inv_bitslice_block(block, &state);
    }

    /// AES inverse mix columns function.
    #[inline]
    pub(crate) fn inv_mix_columns(block: &mut Block) {
        let mut state = bitslice_block(block);
        inv_mix_columns_0(&mut state);
        inv_bitslice_block(block, &state);
    }
}
