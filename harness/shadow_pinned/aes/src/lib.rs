//! Pure Rust implementation of the [Advanced Encryption Standard][AES]
//! (AES, a.k.a. Rijndael).
//!
//! # ⚠️ Security Warning: Hazmat!
//!
//! This crate implements only the low-level block cipher function, and is intended
//! for use for implementing higher-level constructions *only*. It is NOT
//! intended for direct use in applications.
//!
//! USE AT YOUR OWN RISK!
//!
//! # Supported backends
//! This crate provides multiple backends including a portable pure Rust
//! backend as well as ones based on CPU intrinsics.
//!
//! By default, it performs runtime detection of CPU intrinsics and uses them
//! if they are available.
//!
//! ## "soft" portable backend
//! As a baseline implementation, this crate provides a constant-time pure Rust
//! implementation based on [fixslicing], a more advanced form of bitslicing
//! implemented entirely in terms of bitwise arithmetic with no use of any
//! lookup tables or data-dependent branches.
//!
//! Enabling the `aes_compact` configuration flag will reduce the code size of this
//! backend at the cost of decreased performance (using a modified form of
//! the fixslicing technique called "semi-fixslicing").
//!
//! ## ARMv8 intrinsics (Rust 1.61+)
//! On `aarch64` targets including `aarch64-apple-darwin` (Apple M1) and Linux
//! targets such as `aarch64-unknown-linux-gnu` and `aarch64-unknown-linux-musl`,
//! support for using AES intrinsics provided by the ARMv8 Cryptography Extensions.
//!
//! On Linux and macOS, support for ARMv8 AES intrinsics is autodetected at
//! runtime. On other platforms the `aes` target feature must be enabled via
//! RUSTFLAGS.
//!
//! ## `x86`/`x86_64` intrinsics (AES-NI)
//! By default this crate uses runtime detection on `i686`/`x86_64` targets
//! in order to determine if AES-NI is available, and if it is not, it will
//! fallback to using a constant-time software implementation.
//!
//! Passing `RUSTFLAGS=-C target-feature=+aes,+ssse3` explicitly at compile-time
//! will override runtime detection and ensure that AES-NI is always used.
//! Programs built in this manner will crash with an illegal instruction on
//! CPUs which do not have AES-NI enabled.
//!
//! Note: runtime detection is not possible on SGX targets. Please use the
//! afforementioned `RUSTFLAGS` to leverage AES-NI on these targets.
//!
//! # Examples
//! ```
//! use aes::Aes128;
//! use aes::cipher::{Array, BlockCipherEncrypt, BlockCipherDecrypt, KeyInit};
//!
//! let key = Array::from([0u8; 16]);
//! let mut block = Array::from([42u8; 16]);
//!
//! // Initialize cipher
//! let cipher = Aes128::new(&key);
//!
//! let block_copy = block.clone();
//!
//! // Encrypt block in-place
//! cipher.encrypt_block(&mut block);
//!
//! // And decrypt it back
//! cipher.decrypt_block(&mut block);
//! assert_eq!(block, block_copy);
//!
//! // Implementation supports parallel block processing. Number of blocks
//! // processed in parallel depends in general on hardware capabilities.
//! // This is achieved by instruction-level parallelism (ILP) on a single
//! // CPU core, which is differen from multi-threaded parallelism.
//! let mut blocks = [block; 100];
//! cipher.encrypt_blocks(&mut blocks);
//!
//! for block in blocks.iter_mut() {
//!     cipher.decrypt_block(block);
//!     assert_eq!(block, &block_copy);
//! }
//!
//! // `decrypt_blocks` also supports parallel block processing.
//! cipher.decrypt_blocks(&mut blocks);
//!
//! for block in blocks.iter_mut() {
//!     cipher.encrypt_block(block);
//!     assert_eq!(block, &block_copy);
//! }
//! ```
//!
//! For implementation of block cipher modes of operation see
//! [`block-modes`] repository.
//!
//! # Configuration Flags
//!
//! You can modify crate using the following configuration flags:
//!
//! - `aes_force_soft`: force software implementation.
//! - `aes_compact`: reduce code size at the cost of slower performance
//!   (affects only software backend).
//!
//! It can be enabled using `RUSTFLAGS` environmental variable
//! (e.g. `RUSTFLAGS="--cfg aes_compact"`) or by modifying `.cargo/config`.
//!
//! [AES]: https://en.wikipedia.org/wiki/Advanced_Encryption_Standard
//! [fixslicing]: https://eprint.iacr.org/2020/1123.pdf
//! [AES-NI]: https://en.wikipedia.org/wiki/AES_instruction_set
//! [`block-modes`]: https://github.com/RustCrypto/block-modes/

#![no_std]
#![doc(
    html_logo_url = "https://raw.githubusercontent.com/RustCrypto/media/26acc39f/logo.svg",
    html_favicon_url = "https://raw.githubusercontent.com/RustCrypto/media/26acc39f/logo.svg"
)]
#![cfg_attr(docsrs, feature(doc_auto_cfg))]
#![warn(missing_docs, rust_2018_idioms)]

#[cfg(feature = "hazmat")]
pub mod hazmat;

#[macro_use]
mod macros;
mod soft;

use cfg_if::cfg_if;

cfg_if! {
    if #[cfg(all(target_arch = "aarch64", not(aes_force_soft)))] {
        mod armv8;
        mod autodetect;
        pub use autodetect::*;
    } else if #[cfg(all(
        any(target_arch = "x86", target_arch = "x86_64"),
        not(aes_force_soft)
    ))] {
        mod autodetect;
        mod ni;
        pub use autodetect::*;
    } else {
        pub use soft::*;
    }
}

pub use cipher;
use cipher::{array::Array, consts::U16, crypto_common::WeakKeyError};

/// 128-bit AES block
pub type Block = Array<u8, U16>;

/// Check if any bit of the upper half of the key is set.
///
/// This follows the interpretation laid out in section `11.4.10.4 Reject of weak keys`
/// from the [TPM specification][0]:
/// ```text
/// In the case of AES, at least one bit in the upper half of the key must be set
/// ```
///
/// [0]: https://trustedcomputinggroup.org/wp-content/uploads/TPM-2.0-1.83-Part-1-Architecture.pdf#page=82
pub(crate) fn weak_key_test<const N: usize>(key: &[u8; N]) -> Result<(), WeakKeyError> {
    let t = match N {
        16 => u64::from_ne_bytes(key[..8].try_into().unwrap()),
        24 => {
            let t1 = u64::from_ne_bytes(key[..8].try_into().unwrap());
            let t2 = u32::from_ne_bytes(key[8..12].try_into().unwrap());
            t1 | u64::from(t2)
        }
        32 => {
            let t1 = u64::from_ne_bytes(key[..8].try_into().unwrap());
            let t2 = u64::from_ne_bytes(key[8..16].try_into().unwrap());
            t1 | t2
        }
        _ => unreachable!(),
    };
    match t {
        0 => Err(WeakKeyError),
        _ => Ok(()),
    }
}

#[cfg(test)]
mod tests {
    #[cfg(feature = "zeroize")]
    #[test]
    fn zeroize_works() {
        use super::soft;

        fn test_for<T: zeroize::ZeroizeOnDrop>(val: T) {
            use core::mem::{ManuallyDrop, size_of};

            let mut val = ManuallyDrop::new(val);
            let ptr = &val as *const _ as *const u8;
            let len = size_of::<ManuallyDrop<T>>();

            unsafe { ManuallyDrop::drop(&mut val) };

            let slice = unsafe { core::slice::from_raw_parts(ptr, len) };

            assert!(slice.iter().all(|&byte| byte == 0));
        }

        let key_128 = [42; 16].into();
        let key_192 = [42; 24].into();
        let key_256 = [42; 32].into();

        use cipher::KeyInit as _;
        test_for(soft::Aes128::new(&key_128));
        test_for(soft::Aes128Enc::new(&key_128));
        test_for(soft::Aes128Dec::new(&key_128));
        test_for(soft::Aes192::new(&key_192));
        test_for(soft::Aes192Enc::new(&key_192));
        test_for(soft::Aes192Dec::new(&key_192));
        test_for(soft::Aes256::new(&key_256));
        test_for(soft::Aes256Enc::new(&key_256));
        test_for(soft::Aes256Dec::new(&key_256));

        #[cfg(all(any(target_arch = "x86", target_arch = "x86_64"), not(aes_force_soft)))]
        {
            use super::ni;

            cpufeatures::new!(aes_intrinsics, "aes");
            if aes_intrinsics::get() {
                test_for(ni::Aes128::new(&key_128));
                test_for(ni::Aes128Enc::new(&key_128));
                test_for(ni::Aes128Dec::new(&key_128));
                test_for(ni::Aes192::new(&key_192));
                test_for(ni::Aes192Enc::new(&key_192));
                test_for(ni::Aes192Dec::new(&key_192));
                test_for(ni::Aes256::new(&key_256));
                test_for(ni::Aes256Enc::new(&key_256));
                test_for(ni::Aes256Dec::new(&key_256));
            }
        }

        #[cfg(all(target_arch = "aarch64", not(aes_force_soft)))]
        {
            use super::armv8;

            cpufeatures::new!(aes_intrinsics, "aes");
            if aes_intrinsics::get() {
                test_for(armv8::Aes128::new(&key_128));
                test_for(armv8::Aes128Enc::new(&key_128));
                test_for(armv8::Aes128Dec::new(&key_128));
                test_for(armv8::Aes192::new(&key_192));
                test_for(armv8::Aes192Enc::new(&key_192));
                test_for(armv8::Aes192Dec::new(&key_192));
                test_for(armv8::Aes256::new(&key_256));
                test_for(armv8::Aes256Enc::new(&key_256));
                test_for(armv8::Aes256Dec::new(&key_256));
            }
        }
    }
}
