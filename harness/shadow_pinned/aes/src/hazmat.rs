//! ⚠️ Low-level "hazmat" AES functions.
//!
//! # ☢️️ WARNING: HAZARDOUS API ☢️
//!
//! This module contains an extremely low-level cryptographic primitive
//! which is likewise extremely difficult to use correctly.
//!
//! There are very few valid uses cases for this API. It's intended to be used
//! for implementing well-reviewed higher-level constructions.
//!
//! We do NOT recommend using it to implement any algorithm which has not
//! received extensive peer review by cryptographers.

use crate::soft::fixslice::hazmat as soft;

pub use crate::Block;
/// Eight 128-bit AES blocks
pub type Block8 = cipher::array::Array<Block, cipher::consts::U8>;

#[cfg(all(target_arch = "aarch64", not(aes_force_soft)))]
use crate::armv8::hazmat as intrinsics;

#[cfg(all(any(target_arch = "x86_64", target_arch = "x86"), not(aes_force_soft)))]
use crate::ni::hazmat as intrinsics;

#[cfg(all(
    any(target_arch = "x86", target_arch = "x86_64", target_arch = "aarch64"),
    not(aes_force_soft)
))]
cpufeatures::new!(aes_intrinsics, "aes");

/// Execute the provided body if CPU intrinsics are available.
// TODO(tarcieri): more `cfg-if`-like macro with an else branch?
macro_rules! if_intrinsics_available {
    ($body:expr) => {{
        #[cfg(all(
            any(target_arch = "x86", target_arch = "x86_64", target_arch = "aarch64"),
            not(aes_force_soft)
        ))]
        if aes_intrinsics::get() {
            unsafe { $body }
            return;
        }
    }};
}

/// ⚠️ AES cipher (encrypt) round function.
///
/// This API performs the following steps as described in FIPS 197 Appendix C:
///
/// - `s_box`: state after `SubBytes()`
/// - `s_row`: state after `ShiftRows()`
/// - `m_col`: state after `MixColumns()`
/// - `k_sch`: key schedule value for `round[r]`
///
/// This series of operations is equivalent to the Intel AES-NI `AESENC` instruction.
///
/// # ☢️️ WARNING: HAZARDOUS API ☢️
///
/// Use this function with great care! See the [module-level documentation][crate::hazmat]
/// for more information.
pub fn cipher_round(block: &mut Block, round_key: &Block) {
    if_intrinsics_available! {
        intrinsics::cipher_round(block, round_key)
    }

    soft::cipher_round(block, round_key);
}

/// ⚠️ AES cipher (encrypt) round function: parallel version.
///
/// Equivalent to [`cipher_round`], but acts on 8 blocks-at-a-time, applying
/// the same number of round keys.
///
/// # ☢️️ WARNING: HAZARDOUS API ☢️
///
/// Use this function with great care! See the [module-level documentation][crate::hazmat]
/// for more information.
pub fn cipher_round_par(blocks: &mut Block8, round_keys: &Block8) {
    if_intrinsics_available! {
        intrinsics::cipher_round_par(blocks, round_keys)
    }

    soft::cipher_round_par(blocks, round_keys);
}

/// ⚠️ AES equivalent inverse cipher (decrypt) round function.
///
/// This API performs the following steps as described in FIPS 197 Appendix C:
///
/// - `is_box`: state after `InvSubBytes()`
/// - `is_row`: state after `InvShiftRows()`
/// - `im_col`: state after `InvMixColumns()`
/// - `ik_sch`: key schedule value for `round[r]`
///
/// This series of operations is equivalent to the Intel AES-NI `AESDEC` instruction.
///
/// # ☢️️ WARNING: HAZARDOUS API ☢️
///
/// Use this function with great care! See the [module-level documentation][crate::hazmat]
/// for more information.
pub fn equiv_inv_cipher_round(block: &mut Block, round_key: &Block) {
    if_intrinsics_available! {
        intrinsics::equiv_inv_cipher_round(block, round_key)
    }

    soft::equiv_inv_cipher_round(block, round_key);
}

/// ⚠️ AES equivalent inverse cipher (decrypt) round function: parallel version.
///
/// Equivalent to [`equiv_inv_cipher_round`], but acts on 8 blocks-at-a-time,
/// applying the same number of round keys.
///
/// # ☢️️ WARNING: HAZARDOUS API ☢️
///
/// Use this function with great care! See the [module-level documentation][crate::hazmat]
/// for more information.
pub fn equiv_inv_cipher_round_par(blocks: &mut Block8, round_keys: &Block8) {
    if_intrinsics_available! {
        intrinsics::equiv_inv_cipher_round_par(blocks, round_keys)
    }

    soft::equiv_inv_cipher_round_par(blocks, round_keys);
}

/// ⚠️ AES mix columns function.
///
/// # ☢️️ WARNING: HAZARDOUS API ☢️
///
/// Use this function with great care! See the [module-level documentation][crate::hazmat]
/// for more information.
pub fn mix_columns(block: &mut Block) {
    if_intrinsics_available! {
        intrinsics::mix_columns(block)
    }

    soft::mix_columns(block);
}

/// ⚠️ AES inverse mix columns function.
///
/// This function is equivalent to the Intel AES-NI `AESIMC` instruction.
///
/// # ☢️️ WARNING: HAZARDOUS API ☢️
///
/// Use this function with great care! See the [module-level documentation][crate::hazmat]
/// for more information.
pub fn inv_mix_columns(block: &mut Block) {
    if_intrinsics_available! {
        intrinsics::inv_mix_columns(block)
    }

    soft::inv_mix_columns(block);
}
