//! Low-level "hazmat" AES functions: AES-NI support.
//!
//! Note: this isn't actually used in the `Aes128`/`Aes192`/`Aes256`
//! implementations in this crate, but instead provides raw AES-NI accelerated
//! access to the AES round function gated under the `hazmat` crate feature.
#![allow(unsafe_op_in_unsafe_fn)]

use super::arch::*;
use crate::hazmat::{Block, Block8};
use cipher::array::{Array, ArraySize};

#[target_feature(enable = "sse2")]
pub(crate) unsafe fn load<N: ArraySize>(blocks: *const Array<Block, N>) -> Array<__m128i, N> {
    let p = blocks.cast::<__m128i>();
    let mut res: Array<__m128i, N> = core::mem::zeroed();
    for i in 0..N::USIZE {
        res[i] = _mm_loadu_si128(p.add(i));
    }
    res
}

#[target_feature(enable = "sse2")]
pub(crate) unsafe fn store<N: ArraySize>(blocks: *mut Array<Block, N>, b: Array<__m128i, N>) {
    let p = blocks.cast::<__m128i>();
    for i in 0..N::USIZE {
        _mm_storeu_si128(p.add(i), b[i]);
    }
}

/// AES cipher (encrypt) round function.
#[target_feature(enable = "aes")]
pub(crate) unsafe fn cipher_round(block: &mut Block, round_key: &Block) {
    // Safety: `loadu` and `storeu` support unaligned access
    let b = _mm_loadu_si128(block.as_ptr() as *const __m128i);
    let k = _mm_loadu_si128(round_key.as_ptr() as *const __m128i);
    let out = _mm_aesenc_si128(b, k);
    _mm_storeu_si128(block.as_mut_ptr() as *mut __m128i, out);
}

/// AES cipher (encrypt) round function: parallel version.
#[target_feature(enable = "aes")]
pub(crate) unsafe fn cipher_round_par(blocks: &mut Block8, round_keys: &Block8) {
    let xmm_keys = load(round_keys);
    let mut xmm_blocks = load(blocks);

    for i in 0..8 {
        xmm_blocks[i] = _mm_aesenc_si128(xmm_blocks[i], xmm_keys[i]);
    }

    store(blocks, xmm_blocks);
}

/// AES cipher (encrypt) round function.
#[target_feature(enable = "aes")]
pub(crate) unsafe fn equiv_inv_cipher_round(block: &mut Block, round_key: &Block) {
    // Safety: `loadu` and `storeu` support unaligned access
    let b = _mm_loadu_si128(block.as_ptr() as *const __m128i);
    let k = _mm_loadu_si128(round_key.as_ptr() as *const __m128i);
    let out = _mm_aesdec_si128(b, k);
    _mm_storeu_si128(block.as_mut_ptr() as *mut __m128i, out);
}

/// AES cipher (encrypt) round function: parallel version.
#[target_feature(enable = "aes")]
pub(crate) unsafe fn equiv_inv_cipher_round_par(blocks: &mut Block8, round_keys: &Block8) {
    let xmm_keys = load(round_keys);
    let mut xmm_blocks = load(blocks);

    for i in 0..8 {
        xmm_blocks[i] = _mm_aesdec_si128(xmm_blocks[i], xmm_keys[i]);
    }

    store(blocks, xmm_blocks);
}

/// AES mix columns function.
#[target_feature(enable = "aes")]
pub(crate) unsafe fn mix_columns(block: &mut Block) {
    // Safety: `loadu` and `storeu` support unaligned access
    let mut state = _mm_loadu_si128(block.as_ptr() as *const __m128i);

    // Emulate mix columns by performing three inverse mix columns operations
    state = _mm_aesimc_si128(state);
    state = _mm_aesimc_si128(state);
    state = _mm_aesimc_si128(state);

    _mm_storeu_si128(block.as_mut_ptr() as *mut __m128i, state);
}

/// AES inverse mix columns function.
#[target_feature(enable = "aes")]
pub(crate) unsafe fn inv_mix_columns(block: &mut Block) {
    // Safety: `loadu` and `storeu` support unaligned access
    let b = _mm_loadu_si128(block.as_ptr() as *const __m128i);
    let out = _mm_aesimc_si128(b);
    _mm_storeu_si128(block.as_mut_ptr() as *mut __m128i, out);
}
