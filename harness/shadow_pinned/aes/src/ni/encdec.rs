#![allow(unsafe_op_in_unsafe_fn)]

use super::arch::*;
use crate::Block;
use cipher::{
    array::{Array, ArraySize},
    inout::InOut,
};

#[target_feature(enable = "aes")]
pub(super) unsafe fn encrypt<const KEYS: usize>(
    keys: &[__m128i; KEYS],
    block: InOut<'_, '_, Block>,
) {
    assert!(KEYS == 11 || KEYS == 13 || KEYS == 15);

    let (block_in, block_out) = block.into_raw();
    let mut b = _mm_loadu_si128(block_in.cast());
    b = _mm_xor_si128(b, keys[0]);
    for &key in &keys[1..KEYS - 1] {
        b = _mm_aesenc_si128(b, key);
    }
    b = _mm_aesenclast_si128(b, keys[KEYS - 1]);
    _mm_storeu_si128(block_out.cast(), b);
}

#[target_feature(enable = "aes")]
pub(super) unsafe fn decrypt<const KEYS: usize>(
    keys: &[__m128i; KEYS],
    block: InOut<'_, '_, Block>,
) {
    assert!(KEYS == 11 || KEYS == 13 || KEYS == 15);

    let (block_in, block_out) = block.into_raw();
    let mut b = _mm_loadu_si128(block_in.cast());
    b = _mm_xor_si128(b, keys[0]);
    for &key in &keys[1..KEYS - 1] {
        b = _mm_aesdec_si128(b, key);
    }
    b = _mm_aesdeclast_si128(b, keys[KEYS - 1]);
    _mm_storeu_si128(block_out.cast(), b);
}

#[target_feature(enable = "aes")]
pub(super) unsafe fn encrypt_par<const KEYS: usize, ParBlocks: ArraySize>(
    keys: &[__m128i; KEYS],
    blocks: InOut<'_, '_, Array<Block, ParBlocks>>,
) {
    assert!(KEYS == 11 || KEYS == 13 || KEYS == 15);

    let (blocks_in, blocks_out) = blocks.into_raw();
    let mut b = load(blocks_in);

    // Loop over keys is intentionally not used here to force inlining
    xor(&mut b, keys[0]);
    aesenc(&mut b, keys[1]);
    aesenc(&mut b, keys[2]);
    aesenc(&mut b, keys[3]);
    aesenc(&mut b, keys[4]);
    aesenc(&mut b, keys[5]);
    aesenc(&mut b, keys[6]);
    aesenc(&mut b, keys[7]);
    aesenc(&mut b, keys[8]);
    aesenc(&mut b, keys[9]);
    if KEYS >= 13 {
        aesenc(&mut b, keys[10]);
        aesenc(&mut b, keys[11]);
    }
    if KEYS == 15 {
        aesenc(&mut b, keys[12]);
        aesenc(&mut b, keys[13]);
    }
    aesenclast(&mut b, keys[KEYS - 1]);
    store(blocks_out, b);
}

#[target_feature(enable = "aes")]
pub(super) unsafe fn decrypt_par<const KEYS: usize, ParBlocks: ArraySize>(
    keys: &[__m128i; KEYS],
    blocks: InOut<'_, '_, Array<Block, ParBlocks>>,
) {
    assert!(KEYS == 11 || KEYS == 13 || KEYS == 15);

    let (blocks_in, blocks_out) = blocks.into_raw();
    let mut b = load(blocks_in);

    // Loop over keys is intentionally not used here to force inlining
    xor(&mut b, keys[0]);
    aesdec(&mut b, keys[1]);
    aesdec(&mut b, keys[2]);
    aesdec(&mut b, keys[3]);
    aesdec(&mut b, keys[4]);
    aesdec(&mut b, keys[5]);
    aesdec(&mut b, keys[6]);
    aesdec(&mut b, keys[7]);
    aesdec(&mut b, keys[8]);
    aesdec(&mut b, keys[9]);
    if KEYS >= 13 {
        aesdec(&mut b, keys[10]);
        aesdec(&mut b, keys[11]);
    }
    if KEYS == 15 {
        aesdec(&mut b, keys[12]);
        aesdec(&mut b, keys[13]);
    }
    aesdeclast(&mut b, keys[KEYS - 1]);
    store(blocks_out, b);
}

#[target_feature(enable = "sse2")]
pub(crate) unsafe fn load<N: ArraySize>(blocks: *const Array<Block, N>) -> Array<__m128i, N> {
    let p = blocks.cast::<__m128i>();
    let mut res: Array<__m128i, N> = core::mem::zeroed();
    for i in 0..N::USIZE {
        res[i] = _mm_loadu_si128(p.add(i));
    }
    res
}

#[target_feature(enable = "sse2")]
pub(crate) unsafe fn store<N: ArraySize>(blocks: *mut Array<Block, N>, b: Array<__m128i, N>) {
    let p = blocks.cast::<__m128i>();
    for i in 0..N::USIZE {
        _mm_storeu_si128(p.add(i), b[i]);
    }
}

#[target_feature(enable = "sse2")]
pub(crate) unsafe fn xor<N: ArraySize>(blocks: &mut Array<__m128i, N>, key: __m128i) {
    for block in blocks {
        *block = _mm_xor_si128(*block, key);
    }
}

#[target_feature(enable = "aes")]
pub(crate) unsafe fn aesenc<N: ArraySize>(blocks: &mut Array<__m128i, N>, key: __m128i) {
    for block in blocks {
        *block = _mm_aesenc_si128(*block, key);
    }
}

#[target_feature(enable = "aes")]
pub(crate) unsafe fn aesenclast<N: ArraySize>(blocks: &mut Array<__m128i, N>, key: __m128i) {
    for block in blocks {
        *block = _mm_aesenclast_si128(*block, key);
    }
}

#[target_feature(enable = "aes")]
pub(crate) unsafe fn aesdec<N: ArraySize>(blocks: &mut Array<__m128i, N>, key: __m128i) {
    for block in blocks {
        *block = _mm_aesdec_si128(*block, key);
    }
}

#[target_feature(enable = "aes")]
pub(crate) unsafe fn aesdeclast<N: ArraySize>(blocks: &mut Array<__m128i, N>, key: __m128i) {
    for block in blocks {
        *block = _mm_aesdeclast_si128(*block, key);
    }
}
