#![allow(unsafe_op_in_unsafe_fn)]

use super::arch::*;
use core::mem::{transmute, zeroed};

pub(super) type Aes128RoundKeys = [__m128i; 11];
pub(super) type Aes192RoundKeys = [__m128i; 13];
pub(super) type Aes256RoundKeys = [__m128i; 15];

#[target_feature(enable = "aes")]
pub(super) unsafe fn aes128_expand_key(key: &[u8; 16]) -> Aes128RoundKeys {
    unsafe fn expand_round<const RK: i32>(keys: &mut Aes128RoundKeys, pos: usize) {
        let mut t1 = keys[pos - 1];
        let mut t2;
        let mut t3;

        t2 = _mm_aeskeygenassist_si128(t1, RK);
        t2 = _mm_shuffle_epi32(t2, 0xff);
        t3 = _mm_slli_si128(t1, 0x4);
        t1 = _mm_xor_si128(t1, t3);
        t3 = _mm_slli_si128(t3, 0x4);
        t1 = _mm_xor_si128(t1, t3);
        t3 = _mm_slli_si128(t3, 0x4);
        t1 = _mm_xor_si128(t1, t3);
        t1 = _mm_xor_si128(t1, t2);

        keys[pos] = t1;
    }

    let mut keys: Aes128RoundKeys = zeroed();
    let k = _mm_loadu_si128(key.as_ptr().cast());
    keys[0] = k;

    let kr = &mut keys;
    expand_round::<0x01>(kr, 1);
    expand_round::<0x02>(kr, 2);
    expand_round::<0x04>(kr, 3);
    expand_round::<0x08>(kr, 4);
    expand_round::<0x10>(kr, 5);
    expand_round::<0x20>(kr, 6);
    expand_round::<0x40>(kr, 7);
    expand_round::<0x80>(kr, 8);
    expand_round::<0x1B>(kr, 9);
    expand_round::<0x36>(kr, 10);

    keys
}

#[target_feature(enable = "aes")]
pub(super) unsafe fn aes192_expand_key(key: &[u8; 24]) -> Aes192RoundKeys {
    unsafe fn shuffle(a: __m128i, b: __m128i, i: usize) -> __m128i {
        let a: [u64; 2] = transmute(a);
        let b: [u64; 2] = transmute(b);
        transmute([a[i], b[0]])
    }

    #[target_feature(enable = "aes")]
    unsafe fn expand_round<const RK: i32>(mut t1: __m128i, mut t3: __m128i) -> (__m128i, __m128i) {
        let (mut t2, mut t4);

        t2 = _mm_aeskeygenassist_si128(t3, RK);
        t2 = _mm_shuffle_epi32(t2, 0x55);
        t4 = _mm_slli_si128(t1, 0x4);
        t1 = _mm_xor_si128(t1, t4);
        t4 = _mm_slli_si128(t4, 0x4);
        t1 = _mm_xor_si128(t1, t4);
        t4 = _mm_slli_si128(t4, 0x4);
        t1 = _mm_xor_si128(t1, t4);
        t1 = _mm_xor_si128(t1, t2);
        t2 = _mm_shuffle_epi32(t1, 0xff);
        t4 = _mm_slli_si128(t3, 0x4);
        t3 = _mm_xor_si128(t3, t4);
        t3 = _mm_xor_si128(t3, t2);

        (t1, t3)
    }

    let mut keys: Aes192RoundKeys = zeroed();
    // We are being extra pedantic here to remove out-of-bound access.
    // This should be optimized into movups, movsd sequence.
    let (k0, k1l) = {
        let mut t = [0u8; 32];
        t[..key.len()].copy_from_slice(key);
        (
            _mm_loadu_si128(t.as_ptr().cast()),
            _mm_loadu_si128(t.as_ptr().offset(16).cast()),
        )
    };

    keys[0] = k0;

    let (k1_2, k2r) = expand_round::<0x01>(k0, k1l);
    keys[1] = shuffle(k1l, k1_2, 0);
    keys[2] = shuffle(k1_2, k2r, 1);

    let (k3, k4l) = expand_round::<0x02>(k1_2, k2r);
    keys[3] = k3;

    let (k4_5, k5r) = expand_round::<0x04>(k3, k4l);
    let k4 = shuffle(k4l, k4_5, 0);
    let k5 = shuffle(k4_5, k5r, 1);
    keys[4] = k4;
    keys[5] = k5;

    let (k6, k7l) = expand_round::<0x08>(k4_5, k5r);
    keys[6] = k6;

    let (k7_8, k8r) = expand_round::<0x10>(k6, k7l);
    keys[7] = shuffle(k7l, k7_8, 0);
    keys[8] = shuffle(k7_8, k8r, 1);

    let (k9, k10l) = expand_round::<0x20>(k7_8, k8r);
    keys[9] = k9;

    let (k10_11, k11r) = expand_round::<0x40>(k9, k10l);
    keys[10] = shuffle(k10l, k10_11, 0);
    keys[11] = shuffle(k10_11, k11r, 1);

    let (k12, _) = expand_round::<0x80>(k10_11, k11r);
    keys[12] = k12;

    keys
}

#[target_feature(enable = "aes")]
pub(super) unsafe fn aes256_expand_key(key: &[u8; 32]) -> Aes256RoundKeys {
    unsafe fn expand_round<const RK: i32>(keys: &mut Aes256RoundKeys, pos: usize) {
        let mut t1 = keys[pos - 2];
        let mut t2;
        let mut t3 = keys[pos - 1];
        let mut t4;

        t2 = _mm_aeskeygenassist_si128(t3, RK);
        t2 = _mm_shuffle_epi32(t2, 0xff);
        t4 = _mm_slli_si128(t1, 0x4);
        t1 = _mm_xor_si128(t1, t4);
        t4 = _mm_slli_si128(t4, 0x4);
        t1 = _mm_xor_si128(t1, t4);
        t4 = _mm_slli_si128(t4, 0x4);
        t1 = _mm_xor_si128(t1, t4);
        t1 = _mm_xor_si128(t1, t2);

        keys[pos] = t1;

        t4 = _mm_aeskeygenassist_si128(t1, 0x00);
        t2 = _mm_shuffle_epi32(t4, 0xaa);
        t4 = _mm_slli_si128(t3, 0x4);
        t3 = _mm_xor_si128(t3, t4);
        t4 = _mm_slli_si128(t4, 0x4);
        t3 = _mm_xor_si128(t3, t4);
        t4 = _mm_slli_si128(t4, 0x4);
        t3 = _mm_xor_si128(t3, t4);
        t3 = _mm_xor_si128(t3, t2);

        keys[pos + 1] = t3;
    }

    unsafe fn expand_round_last<const RK: i32>(keys: &mut Aes256RoundKeys, pos: usize) {
        let mut t1 = keys[pos - 2];
        let mut t2;
        let t3 = keys[pos - 1];
        let mut t4;

        t2 = _mm_aeskeygenassist_si128(t3, RK);
        t2 = _mm_shuffle_epi32(t2, 0xff);
        t4 = _mm_slli_si128(t1, 0x4);
        t1 = _mm_xor_si128(t1, t4);
        t4 = _mm_slli_si128(t4, 0x4);
        t1 = _mm_xor_si128(t1, t4);
        t4 = _mm_slli_si128(t4, 0x4);
        t1 = _mm_xor_si128(t1, t4);
        t1 = _mm_xor_si128(t1, t2);

        keys[pos] = t1;
    }

    let mut keys: Aes256RoundKeys = zeroed();

    let kp = key.as_ptr().cast::<__m128i>();
    keys[0] = _mm_loadu_si128(kp);
    keys[1] = _mm_loadu_si128(kp.add(1));

    let k = &mut keys;
    expand_round::<0x01>(k, 2);
    expand_round::<0x02>(k, 4);
    expand_round::<0x04>(k, 6);
    expand_round::<0x08>(k, 8);
    expand_round::<0x10>(k, 10);
    expand_round::<0x20>(k, 12);
    expand_round_last::<0x40>(k, 14);

    keys
}

#[target_feature(enable = "aes")]
pub(super) unsafe fn inv_keys<const N: usize>(keys: &[__m128i; N]) -> [__m128i; N] {
    let mut inv_keys: [__m128i; N] = zeroed();
    inv_keys[0] = keys[N - 1];
    for i in 1..N - 1 {
        inv_keys[i] = _mm_aesimc_si128(keys[N - 1 - i]);
    }
    inv_keys[N - 1] = keys[0];
    inv_keys
}
