use super::{arch::*, expand::*};
use hex_literal::hex;

pub(crate) fn check(a: &[__m128i], b: &[[u64; 2]]) {
    assert_eq!(a.len(), b.len());
    for (v1, v2) in a.iter().zip(b) {
        let t1: [u64; 2] = unsafe { core::mem::transmute(*v1) };
        let t2 = [v2[0].to_be(), v2[1].to_be()];
        assert_eq!(t1, t2);
    }
}

#[test]
#[cfg_attr(
    not(target_feature = "aes"),
    ignore = "requires enabled `aes` target feature"
)]
fn aes128_expand_key_test() {
    let keys = [0x00; 16];
    check(
        &unsafe { aes128_expand_key(&keys) },
        &[
            [0x0000000000000000, 0x0000000000000000],
            [0x6263636362636363, 0x6263636362636363],
            [0x9b9898c9f9fbfbaa, 0x9b9898c9f9fbfbaa],
            [0x90973450696ccffa, 0xf2f457330b0fac99],
            [0xee06da7b876a1581, 0x759e42b27e91ee2b],
            [0x7f2e2b88f8443e09, 0x8dda7cbbf34b9290],
            [0xec614b851425758c, 0x99ff09376ab49ba7],
            [0x217517873550620b, 0xacaf6b3cc61bf09b],
            [0x0ef903333ba96138, 0x97060a04511dfa9f],
            [0xb1d4d8e28a7db9da, 0x1d7bb3de4c664941],
            [0xb4ef5bcb3e92e211, 0x23e951cf6f8f188e],
        ],
    );

    let keys = [0xff; 16];
    check(
        &unsafe { aes128_expand_key(&keys) },
        &[
            [0xffffffffffffffff, 0xffffffffffffffff],
            [0xe8e9e9e917161616, 0xe8e9e9e917161616],
            [0xadaeae19bab8b80f, 0x525151e6454747f0],
            [0x090e2277b3b69a78, 0xe1e7cb9ea4a08c6e],
            [0xe16abd3e52dc2746, 0xb33becd8179b60b6],
            [0xe5baf3ceb766d488, 0x045d385013c658e6],
            [0x71d07db3c6b6a93b, 0xc2eb916bd12dc98d],
            [0xe90d208d2fbb89b6, 0xed5018dd3c7dd150],
            [0x96337366b988fad0, 0x54d8e20d68a5335d],
            [0x8bf03f233278c5f3, 0x66a027fe0e0514a3],
            [0xd60a3588e472f07b, 0x82d2d7858cd7c326],
        ],
    );

    let keys = hex!("000102030405060708090a0b0c0d0e0f");
    check(
        &unsafe { aes128_expand_key(&keys) },
        &[
            [0x0001020304050607, 0x08090a0b0c0d0e0f],
            [0xd6aa74fdd2af72fa, 0xdaa678f1d6ab76fe],
            [0xb692cf0b643dbdf1, 0xbe9bc5006830b3fe],
            [0xb6ff744ed2c2c9bf, 0x6c590cbf0469bf41],
            [0x47f7f7bc95353e03, 0xf96c32bcfd058dfd],
            [0x3caaa3e8a99f9deb, 0x50f3af57adf622aa],
            [0x5e390f7df7a69296, 0xa7553dc10aa31f6b],
            [0x14f9701ae35fe28c, 0x440adf4d4ea9c026],
            [0x47438735a41c65b9, 0xe016baf4aebf7ad2],
            [0x549932d1f0855768, 0x1093ed9cbe2c974e],
            [0x13111d7fe3944a17, 0xf307a78b4d2b30c5],
        ],
    );

    let keys = hex!("6920e299a5202a6d656e636869746f2a");
    check(
        &unsafe { aes128_expand_key(&keys) },
        &[
            [0x6920e299a5202a6d, 0x656e636869746f2a],
            [0xfa8807605fa82d0d, 0x3ac64e6553b2214f],
            [0xcf75838d90ddae80, 0xaa1be0e5f9a9c1aa],
            [0x180d2f1488d08194, 0x22cb6171db62a0db],
            [0xbaed96ad323d1739, 0x10f67648cb94d693],
            [0x881b4ab2ba265d8b, 0xaad02bc36144fd50],
            [0xb34f195d096944d6, 0xa3b96f15c2fd9245],
            [0xa7007778ae6933ae, 0x0dd05cbbcf2dcefe],
            [0xff8bccf251e2ff5c, 0x5c32a3e7931f6d19],
            [0x24b7182e7555e772, 0x29674495ba78298c],
            [0xae127cdadb479ba8, 0xf220df3d4858f6b1],
        ],
    );

    let keys = hex!("2b7e151628aed2a6abf7158809cf4f3c");
    check(
        &unsafe { aes128_expand_key(&keys) },
        &[
            [0x2b7e151628aed2a6, 0xabf7158809cf4f3c],
            [0xa0fafe1788542cb1, 0x23a339392a6c7605],
            [0xf2c295f27a96b943, 0x5935807a7359f67f],
            [0x3d80477d4716fe3e, 0x1e237e446d7a883b],
            [0xef44a541a8525b7f, 0xb671253bdb0bad00],
            [0xd4d1c6f87c839d87, 0xcaf2b8bc11f915bc],
            [0x6d88a37a110b3efd, 0xdbf98641ca0093fd],
            [0x4e54f70e5f5fc9f3, 0x84a64fb24ea6dc4f],
            [0xead27321b58dbad2, 0x312bf5607f8d292f],
            [0xac7766f319fadc21, 0x28d12941575c006e],
            [0xd014f9a8c9ee2589, 0xe13f0cc8b6630ca6],
        ],
    );
}

#[test]
#[cfg_attr(
    not(target_feature = "aes"),
    ignore = "requires enabled `aes` target feature"
)]
fn aes192_expand_key_test() {
    let keys = [0x00; 24];
    check(
        &unsafe { aes192_expand_key(&keys) },
        &[
            [0x0000000000000000, 0x0000000000000000],
            [0x0000000000000000, 0x6263636362636363],
            [0x6263636362636363, 0x6263636362636363],
            [0x9b9898c9f9fbfbaa, 0x9b9898c9f9fbfbaa],
            [0x9b9898c9f9fbfbaa, 0x90973450696ccffa],
            [0xf2f457330b0fac99, 0x90973450696ccffa],
            [0xc81d19a9a171d653, 0x53858160588a2df9],
            [0xc81d19a9a171d653, 0x7bebf49bda9a22c8],
            [0x891fa3a8d1958e51, 0x198897f8b8f941ab],
            [0xc26896f718f2b43f, 0x91ed1797407899c6],
            [0x59f00e3ee1094f95, 0x83ecbc0f9b1e0830],
            [0x0af31fa74a8b8661, 0x137b885ff272c7ca],
            [0x432ac886d834c0b6, 0xd2c7df11984c5970],
        ],
    );

    let keys = [0xff; 24];
    check(
        &unsafe { aes192_expand_key(&keys) },
        &[
            [0xffffffffffffffff, 0xffffffffffffffff],
            [0xffffffffffffffff, 0xe8e9e9e917161616],
            [0xe8e9e9e917161616, 0xe8e9e9e917161616],
            [0xadaeae19bab8b80f, 0x525151e6454747f0],
            [0xadaeae19bab8b80f, 0xc5c2d8ed7f7a60e2],
            [0x2d2b3104686c76f4, 0xc5c2d8ed7f7a60e2],
            [0x1712403f686820dd, 0x454311d92d2f672d],
            [0xe8edbfc09797df22, 0x8f8cd3b7e7e4f36a],
            [0xa2a7e2b38f88859e, 0x67653a5ef0f2e57c],
            [0x2655c33bc1b13051, 0x6316d2e2ec9e577c],
            [0x8bfb6d227b09885e, 0x67919b1aa620ab4b],
            [0xc53679a929a82ed5, 0xa25343f7d95acba9],
            [0x598e482fffaee364, 0x3a989acd1330b418],
        ],
    );

    let keys = hex!("000102030405060708090a0b0c0d0e0f1011121314151617");
    check(
        &unsafe { aes192_expand_key(&keys) },
        &[
            [0x0001020304050607, 0x08090a0b0c0d0e0f],
            [0x1011121314151617, 0x5846f2f95c43f4fe],
            [0x544afef55847f0fa, 0x4856e2e95c43f4fe],
            [0x40f949b31cbabd4d, 0x48f043b810b7b342],
            [0x58e151ab04a2a555, 0x7effb5416245080c],
            [0x2ab54bb43a02f8f6, 0x62e3a95d66410c08],
            [0xf501857297448d7e, 0xbdf1c6ca87f33e3c],
            [0xe510976183519b69, 0x34157c9ea351f1e0],
            [0x1ea0372a99530916, 0x7c439e77ff12051e],
            [0xdd7e0e887e2fff68, 0x608fc842f9dcc154],
            [0x859f5f237a8d5a3d, 0xc0c02952beefd63a],
            [0xde601e7827bcdf2c, 0xa223800fd8aeda32],
            [0xa4970a331a78dc09, 0xc418c271e3a41d5d],
        ],
    );

    let keys = hex!("8e73b0f7da0e6452c810f32b809079e562f8ead2522c6b7b");
    check(
        &unsafe { aes192_expand_key(&keys) },
        &[
            [0x8e73b0f7da0e6452, 0xc810f32b809079e5],
            [0x62f8ead2522c6b7b, 0xfe0c91f72402f5a5],
            [0xec12068e6c827f6b, 0x0e7a95b95c56fec2],
            [0x4db7b4bd69b54118, 0x85a74796e92538fd],
            [0xe75fad44bb095386, 0x485af05721efb14f],
            [0xa448f6d94d6dce24, 0xaa326360113b30e6],
            [0xa25e7ed583b1cf9a, 0x27f939436a94f767],
            [0xc0a69407d19da4e1, 0xec1786eb6fa64971],
            [0x485f703222cb8755, 0xe26d135233f0b7b3],
            [0x40beeb282f18a259, 0x6747d26b458c553e],
            [0xa7e1466c9411f1df, 0x821f750aad07d753],
            [0xca4005388fcc5006, 0x282d166abc3ce7b5],
            [0xe98ba06f448c773c, 0x8ecc720401002202],
        ],
    );
}

#[test]
#[cfg_attr(
    not(target_feature = "aes"),
    ignore = "requires enabled `aes` target feature"
)]
fn aes256_expand_key_test() {
    let keys = [0x00; 32];
    check(
        &unsafe { aes256_expand_key(&keys) },
        &[
            [0x0000000000000000, 0x0000000000000000],
            [0x0000000000000000, 0x0000000000000000],
            [0x6263636362636363, 0x6263636362636363],
            [0xaafbfbfbaafbfbfb, 0xaafbfbfbaafbfbfb],
            [0x6f6c6ccf0d0f0fac, 0x6f6c6ccf0d0f0fac],
            [0x7d8d8d6ad7767691, 0x7d8d8d6ad7767691],
            [0x5354edc15e5be26d, 0x31378ea23c38810e],
            [0x968a81c141fcf750, 0x3c717a3aeb070cab],
            [0x9eaa8f28c0f16d45, 0xf1c6e3e7cdfe62e9],
            [0x2b312bdf6acddc8f, 0x56bca6b5bdbbaa1e],
            [0x6406fd52a4f79017, 0x553173f098cf1119],
            [0x6dbba90b07767584, 0x51cad331ec71792f],
            [0xe7b0e89c4347788b, 0x16760b7b8eb91a62],
            [0x74ed0ba1739b7e25, 0x2251ad14ce20d43b],
            [0x10f80a1753bf729c, 0x45c979e7cb706385],
        ],
    );

    let keys = [0xff; 32];
    check(
        &unsafe { aes256_expand_key(&keys) },
        &[
            [0xffffffffffffffff, 0xffffffffffffffff],
            [0xffffffffffffffff, 0xffffffffffffffff],
            [0xe8e9e9e917161616, 0xe8e9e9e917161616],
            [0x0fb8b8b8f0474747, 0x0fb8b8b8f0474747],
            [0x4a4949655d5f5f73, 0xb5b6b69aa2a0a08c],
            [0x355858dcc51f1f9b, 0xcaa7a7233ae0e064],
            [0xafa80ae5f2f75596, 0x4741e30ce5e14380],
            [0xeca0421129bf5d8a, 0xe318faa9d9f81acd],
            [0xe60ab7d014fde246, 0x53bc014ab65d42ca],
            [0xa2ec6e658b5333ef, 0x684bc946b1b3d38b],
            [0x9b6c8a188f91685e, 0xdc2d69146a702bde],
            [0xa0bd9f782beeac97, 0x43a565d1f216b65a],
            [0xfc22349173b35ccf, 0xaf9e35dbc5ee1e05],
            [0x0695ed132d7b4184, 0x6ede24559cc8920f],
            [0x546d424f27de1e80, 0x88402b5b4dae355e],
        ],
    );

    let keys = hex!("000102030405060708090a0b0c0d0e0f101112131415161718191a1b1c1d1e1f");
    check(
        &unsafe { aes256_expand_key(&keys) },
        &[
            [0x0001020304050607, 0x08090a0b0c0d0e0f],
            [0x1011121314151617, 0x18191a1b1c1d1e1f],
            [0xa573c29fa176c498, 0xa97fce93a572c09c],
            [0x1651a8cd0244beda, 0x1a5da4c10640bade],
            [0xae87dff00ff11b68, 0xa68ed5fb03fc1567],
            [0x6de1f1486fa54f92, 0x75f8eb5373b8518d],
            [0xc656827fc9a79917, 0x6f294cec6cd5598b],
            [0x3de23a75524775e7, 0x27bf9eb45407cf39],
            [0x0bdc905fc27b0948, 0xad5245a4c1871c2f],
            [0x45f5a66017b2d387, 0x300d4d33640a820a],
            [0x7ccff71cbeb4fe54, 0x13e6bbf0d261a7df],
            [0xf01afafee7a82979, 0xd7a5644ab3afe640],
            [0x2541fe719bf50025, 0x8813bbd55a721c0a],
            [0x4e5a6699a9f24fe0, 0x7e572baacdf8cdea],
            [0x24fc79ccbf0979e9, 0x371ac23c6d68de36],
        ],
    );

    let keys = hex!("603deb1015ca71be2b73aef0857d77811f352c073b6108d72d9810a30914dff4");
    check(
        &unsafe { aes256_expand_key(&keys) },
        &[
            [0x603deb1015ca71be, 0x2b73aef0857d7781],
            [0x1f352c073b6108d7, 0x2d9810a30914dff4],
            [0x9ba354118e6925af, 0xa51a8b5f2067fcde],
            [0xa8b09c1a93d194cd, 0xbe49846eb75d5b9a],
            [0xd59aecb85bf3c917, 0xfee94248de8ebe96],
            [0xb5a9328a2678a647, 0x983122292f6c79b3],
            [0x812c81addadf48ba, 0x24360af2fab8b464],
            [0x98c5bfc9bebd198e, 0x268c3ba709e04214],
            [0x68007bacb2df3316, 0x96e939e46c518d80],
            [0xc814e20476a9fb8a, 0x5025c02d59c58239],
            [0xde1369676ccc5a71, 0xfa2563959674ee15],
            [0x5886ca5d2e2f31d7, 0x7e0af1fa27cf73c3],
            [0x749c47ab18501dda, 0xe2757e4f7401905a],
            [0xcafaaae3e4d59b34, 0x9adf6acebd10190d],
            [0xfe4890d1e6188d0b, 0x046df344706c631e],
        ],
    );
}
