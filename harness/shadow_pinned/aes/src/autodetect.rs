//! Autodetection support for hardware accelerated AES backends with fallback
//! to the fixsliced "soft" implementation.

use crate::soft;
use cipher::{
    AlgorithmName, BlockCipherDecClosure, BlockCipherDecrypt, BlockCipherEncClosure,
    BlockCipherEncrypt, BlockSizeUser, Key, KeyInit, KeySizeUser,
    consts::{U16, U24, U32},
    crypto_common::WeakKeyError,
};
use core::fmt;
use core::mem::ManuallyDrop;

#[cfg(target_arch = "aarch64")]
use crate::armv8 as intrinsics;

#[cfg(any(target_arch = "x86_64", target_arch = "x86"))]
use crate::ni as intrinsics;

cpufeatures::new!(aes_intrinsics, "aes");

macro_rules! define_aes_impl {
    (
        name = $name:ident,
        name_enc = $name_enc:ident,
        name_dec = $name_dec:ident,
        module = $module:tt,
        key_size = $key_size:ty,
        doc = $doc:expr,
    ) => {
        mod $module {
            use super::{intrinsics, soft};
            use core::mem::ManuallyDrop;

            pub(super) union Inner {
                pub(super) intrinsics: ManuallyDrop<intrinsics::$name>,
                pub(super) soft: ManuallyDrop<soft::$name>,
            }

            pub(super) union InnerEnc {
                pub(super) intrinsics: ManuallyDrop<intrinsics::$name_enc>,
                pub(super) soft: ManuallyDrop<soft::$name_enc>,
            }

            pub(super) union InnerDec {
                pub(super) intrinsics: ManuallyDrop<intrinsics::$name_dec>,
                pub(super) soft: ManuallyDrop<soft::$name_dec>,
            }
        }

        #[doc=$doc]
        #[doc = "block cipher"]
        pub struct $name {
            inner: $module::Inner,
            token: aes_intrinsics::InitToken,
        }

        impl KeySizeUser for $name {
            type KeySize = $key_size;
        }
        impl From<$name_enc> for $name {
            #[inline]
            fn from(enc: $name_enc) -> $name {
                Self::from(&enc)
            }
        }

        impl From<&$name_enc> for $name {
            fn from(enc: &$name_enc) -> $name {
                use core::ops::Deref;
                let inner = if enc.token.get() {
                    $module::Inner {
                        intrinsics: ManuallyDrop::new(unsafe {
                            enc.inner.intrinsics.deref().into()
                        }),
                    }
                } else {
                    $module::Inner {
                        soft: ManuallyDrop::new(unsafe { enc.inner.soft.deref().into() }),
                    }
                };

                Self {
                    inner,
                    token: enc.token,
                }
            }
        }

        impl KeyInit for $name {
            #[inline]
            fn new(key: &Key<Self>) -> Self {
                let (token, aesni_present) = aes_intrinsics::init_get();

                let inner = if aesni_present {
                    $module::Inner {
                        intrinsics: ManuallyDrop::new(intrinsics::$name::new(key)),
                    }
                } else {
                    $module::Inner {
                        soft: ManuallyDrop::new(soft::$name::new(key)),
                    }
                };

                Self { inner, token }
            }

            #[inline]
            fn weak_key_test(key: &Key<Self>) -> Result<(), WeakKeyError> {
                crate::weak_key_test(&key.0)
            }
        }

        impl Clone for $name {
            fn clone(&self) -> Self {
                let inner = if self.token.get() {
                    $module::Inner {
                        intrinsics: unsafe { self.inner.intrinsics.clone() },
                    }
                } else {
                    $module::Inner {
                        soft: unsafe { self.inner.soft.clone() },
                    }
                };

                Self {
                    inner,
                    token: self.token,
                }
            }
        }

        impl BlockSizeUser for $name {
            type BlockSize = U16;
        }

        impl BlockCipherEncrypt for $name {
            fn encrypt_with_backend(&self, f: impl BlockCipherEncClosure<BlockSize = U16>) {
                unsafe {
                    if self.token.get() {
                        #[target_feature(enable = "aes")]
                        unsafe fn inner(
                            state: &intrinsics::$name,
                            f: impl BlockCipherEncClosure<BlockSize = U16>,
                        ) {
                            f.call(state.get_enc_backend());
                        }
                        inner(&self.inner.intrinsics, f);
                    } else {
                        f.call(&self.inner.soft.get_enc_backend());
                    }
                }
            }
        }

        impl BlockCipherDecrypt for $name {
            fn decrypt_with_backend(&self, f: impl BlockCipherDecClosure<BlockSize = U16>) {
                unsafe {
                    if self.token.get() {
                        #[target_feature(enable = "aes")]
                        unsafe fn inner(
                            state: &intrinsics::$name,
                            f: impl BlockCipherDecClosure<BlockSize = U16>,
                        ) {
                            f.call(state.get_dec_backend());
                        }
                        inner(&self.inner.intrinsics, f);
                    } else {
                        f.call(&self.inner.soft.get_dec_backend());
                    }
                }
            }
        }

        impl fmt::Debug for $name {
            fn fmt(&self, f: &mut fmt::Formatter<'_>) -> Result<(), fmt::Error> {
                f.write_str(concat!(stringify!($name), " { .. }"))
            }
        }

        impl AlgorithmName for $name {
            fn write_alg_name(f: &mut fmt::Formatter<'_>) -> fmt::Result {
                f.write_str(stringify!($name))
            }
        }

        impl Drop for $name {
            #[inline]
            fn drop(&mut self) {
                if self.token.get() {
                    unsafe { ManuallyDrop::drop(&mut self.inner.intrinsics) };
                } else {
                    unsafe { ManuallyDrop::drop(&mut self.inner.soft) };
                };
                // The backends wipe only their own arm; the union is larger than the smaller
                // arm and its remaining bytes are copied along by every move of the value.
                #[cfg(feature = "zeroize")]
                unsafe {
                    zeroize::zeroize_flat_type(&mut self.inner)
                }
            }
        }

        #[cfg(feature = "zeroize")]
        impl zeroize::ZeroizeOnDrop for $name {}

        #[doc=$doc]
        #[doc = "block cipher (encrypt-only)"]
        pub struct $name_enc {
            inner: $module::InnerEnc,
            token: aes_intrinsics::InitToken,
        }

        impl KeySizeUser for $name_enc {
            type KeySize = $key_size;
        }

        impl KeyInit for $name_enc {
            #[inline]
            fn new(key: &Key<Self>) -> Self {
                let (token, aesni_present) = aes_intrinsics::init_get();

                let inner = if aesni_present {
                    $module::InnerEnc {
                        intrinsics: ManuallyDrop::new(intrinsics::$name_enc::new(key)),
                    }
                } else {
                    $module::InnerEnc {
                        soft: ManuallyDrop::new(soft::$name_enc::new(key)),
                    }
                };

                Self { inner, token }
            }

            #[inline]
            fn weak_key_test(key: &Key<Self>) -> Result<(), WeakKeyError> {
                crate::weak_key_test(&key.0)
            }
        }

        impl Clone for $name_enc {
            fn clone(&self) -> Self {
                let inner = if self.token.get() {
                    $module::InnerEnc {
                        intrinsics: unsafe { self.inner.intrinsics.clone() },
                    }
                } else {
                    $module::InnerEnc {
                        soft: unsafe { self.inner.soft.clone() },
                    }
                };

                Self {
                    inner,
                    token: self.token,
                }
            }
        }

        impl BlockSizeUser for $name_enc {
            type BlockSize = U16;
        }

        impl BlockCipherEncrypt for $name_enc {
            fn encrypt_with_backend(&self, f: impl BlockCipherEncClosure<BlockSize = U16>) {
                unsafe {
                    if self.token.get() {
                        #[target_feature(enable = "aes")]
                        unsafe fn inner(
                            state: &intrinsics::$name_enc,
                            f: impl BlockCipherEncClosure<BlockSize = U16>,
                        ) {
                            f.call(state.get_enc_backend());
                        }
                        inner(&self.inner.intrinsics, f);
                    } else {
                        f.call(&self.inner.soft.get_enc_backend());
                    }
                }
            }
        }

        impl fmt::Debug for $name_enc {
            fn fmt(&self, f: &mut fmt::Formatter<'_>) -> Result<(), fmt::Error> {
                f.write_str(concat!(stringify!($name_enc), " { .. }"))
            }
        }

        impl AlgorithmName for $name_enc {
            fn write_alg_name(f: &mut fmt::Formatter<'_>) -> fmt::Result {
                f.write_str(stringify!($name_enc))
            }
        }

        impl Drop for $name_enc {
            #[inline]
            fn drop(&mut self) {
                if self.token.get() {
                    unsafe { ManuallyDrop::drop(&mut self.inner.intrinsics) };
                } else {
                    unsafe { ManuallyDrop::drop(&mut self.inner.soft) };
                };
                // The backends wipe only their own arm; the union is larger than the smaller
                // arm and its remaining bytes are copied along by every move of the value.
                #[cfg(feature = "zeroize")]
                unsafe {
                    zeroize::zeroize_flat_type(&mut self.inner)
                }
            }
        }

        #[cfg(feature = "zeroize")]
        impl zeroize::ZeroizeOnDrop for $name_enc {}

        #[doc=$doc]
        #[doc = "block cipher (decrypt-only)"]
        pub struct $name_dec {
            inner: $module::InnerDec,
            token: aes_intrinsics::InitToken,
        }

        impl KeySizeUser for $name_dec {
            type KeySize = $key_size;
        }

        impl From<$name_enc> for $name_dec {
            #[inline]
            fn from(enc: $name_enc) -> $name_dec {
                Self::from(&enc)
            }
        }

        impl From<&$name_enc> for $name_dec {
            fn from(enc: &$name_enc) -> $name_dec {
                use core::ops::Deref;
                let inner = if enc.token.get() {
                    $module::InnerDec {
                        intrinsics: ManuallyDrop::new(unsafe {
                            enc.inner.intrinsics.deref().into()
                        }),
                    }
                } else {
                    $module::InnerDec {
                        soft: ManuallyDrop::new(unsafe { enc.inner.soft.deref().into() }),
                    }
                };

                Self {
                    inner,
                    token: enc.token,
                }
            }
        }

        impl KeyInit for $name_dec {
            #[inline]
            fn new(key: &Key<Self>) -> Self {
                let (token, aesni_present) = aes_intrinsics::init_get();

                let inner = if aesni_present {
                    $module::InnerDec {
                        intrinsics: ManuallyDrop::new(intrinsics::$name_dec::new(key)),
                    }
                } else {
                    $module::InnerDec {
                        soft: ManuallyDrop::new(soft::$name_dec::new(key)),
                    }
                };

                Self { inner, token }
            }

            #[inline]
            fn weak_key_test(key: &Key<Self>) -> Result<(), WeakKeyError> {
                crate::weak_key_test(&key.0)
            }
        }

        impl Clone for $name_dec {
            fn clone(&self) -> Self {
                let inner = if self.token.get() {
                    $module::InnerDec {
                        intrinsics: unsafe { self.inner.intrinsics.clone() },
                    }
                } else {
                    $module::InnerDec {
                        soft: unsafe { self.inner.soft.clone() },
                    }
                };

                Self {
                    inner,
                    token: self.token,
                }
            }
        }

        impl BlockSizeUser for $name_dec {
            type BlockSize = U16;
        }

        impl BlockCipherDecrypt for $name_dec {
            fn decrypt_with_backend(&self, f: impl BlockCipherDecClosure<BlockSize = U16>) {
                unsafe {
                    if self.token.get() {
                        #[target_feature(enable = "aes")]
                        unsafe fn inner(
                            state: &intrinsics::$name_dec,
                            f: impl BlockCipherDecClosure<BlockSize = U16>,
                        ) {
                            f.call(state.get_dec_backend());
                        }
                        inner(&self.inner.intrinsics, f);
                    } else {
                        f.call(&self.inner.soft.get_dec_backend());
                    }
                }
            }
        }

        impl fmt::Debug for $name_dec {
            fn fmt(&self, f: &mut fmt::Formatter<'_>) -> Result<(), fmt::Error> {
                f.write_str(concat!(stringify!($name_dec), " { .. }"))
            }
        }

        impl AlgorithmName for $name_dec {
            fn write_alg_name(f: &mut fmt::Formatter<'_>) -> fmt::Result {
                f.write_str(stringify!($name_dec))
            }
        }

        impl Drop for $name_dec {
            #[inline]
            fn drop(&mut self) {
                if self.token.get() {
                    unsafe { ManuallyDrop::drop(&mut self.inner.intrinsics) };
                } else {
                    unsafe { ManuallyDrop::drop(&mut self.inner.soft) };
                };
                // The backends wipe only their own arm; the union is larger than the smaller
                // arm and its remaining bytes are copied along by every move of the value.
                #[cfg(feature = "zeroize")]
                unsafe {
                    zeroize::zeroize_flat_type(&mut self.inner)
                }
            }
        }

        #[cfg(feature = "zeroize")]
        impl zeroize::ZeroizeOnDrop for $name_dec {}
    };
}

define_aes_impl!(
    name = Aes128,
    name_enc = Aes128Enc,
    name_dec = Aes128Dec,
    module = aes128,
    key_size = U16,
    doc = "AES-128",
);
define_aes_impl!(
    name = Aes192,
    name_enc = Aes192Enc,
    name_dec = Aes192Dec,
    module = aes192,
    key_size = U24,
    doc = "AES-192",
);
define_aes_impl!(
    name = Aes256,
    name_enc = Aes256Enc,
    name_dec = Aes256Dec,
    module = aes256,
    key_size = U32,
    doc = "AES-256",
);
