// This macro is not used by the soft backend, to simplify the crate code we allow this macro
// to be unused to prevent warnings e.g. when `force-soft` is enabled/
#[allow(unused_macros)]
macro_rules! impl_backends {
    (
        enc_name = $enc_name:ident,
        dec_name = $dec_name:ident,
        key_size = $key_size:ty,
        keys_ty = $keys_ty:ty,
        par_size = $par_size:ty,
        expand_keys = $expand_keys:expr,
        inv_keys = $inv_keys:expr,
        encrypt = $encrypt:expr,
        encrypt_par = $encrypt_par:expr,
        decrypt = $decrypt:expr,
        decrypt_par = $decrypt_par:expr,
) => {
        #[derive(Clone)]
        pub(crate) struct $enc_name {
            keys: $keys_ty,
        }

        impl cipher::BlockSizeUser for $enc_name {
            type BlockSize = cipher::consts::U16;
        }

        impl cipher::ParBlocksSizeUser for $enc_name {
            type ParBlocksSize = $par_size;
        }

        impl cipher::KeySizeUser for $enc_name {
            type KeySize = $key_size;
        }

        impl cipher::KeyInit for $enc_name {
            #[inline]
            fn new(key: &cipher::Key<Self>) -> Self {
                let keys = unsafe { $expand_keys(key.as_ref()) };
                Self { keys }
            }
        }

        impl cipher::BlockCipherEncBackend for $enc_name {
            #[inline(always)]
            fn encrypt_block(&self, block: cipher::inout::InOut<'_, '_, cipher::Block<Self>>) {
                unsafe { $encrypt(&self.keys, block) }
            }

            #[inline(always)]
            fn encrypt_par_blocks(
                &self,
                blocks: cipher::inout::InOut<'_, '_, cipher::ParBlocks<Self>>,
            ) {
                unsafe { $encrypt_par(&self.keys, blocks) }
            }
        }

        #[derive(Clone)]
        pub(crate) struct $dec_name {
            keys: $keys_ty,
        }

        impl cipher::BlockSizeUser for $dec_name {
            type BlockSize = cipher::consts::U16;
        }

        impl cipher::ParBlocksSizeUser for $dec_name {
            type ParBlocksSize = $par_size;
        }

        impl cipher::KeySizeUser for $dec_name {
            type KeySize = $key_size;
        }

        impl cipher::KeyInit for $dec_name {
            #[inline]
            fn new(key: &cipher::Key<Self>) -> Self {
                From::from($enc_name::new(key))
            }
        }

        impl From<$enc_name> for $dec_name {
            #[inline]
            fn from(enc: $enc_name) -> $dec_name {
                let keys = unsafe { $inv_keys(&enc.keys) };
                Self { keys }
            }
        }

        impl cipher::BlockCipherDecBackend for $dec_name {
            #[inline(always)]
            fn decrypt_block(&self, block: cipher::inout::InOut<'_, '_, cipher::Block<Self>>) {
                unsafe { $decrypt(&self.keys, block) }
            }

            #[inline(always)]
            fn decrypt_par_blocks(
                &self,
                blocks: cipher::inout::InOut<'_, '_, cipher::ParBlocks<Self>>,
            ) {
                unsafe { $decrypt_par(&self.keys, blocks) }
            }
        }
    };
}
