//! AES block cipher implementation using the ARMv8 Cryptography Extensions.
//!
//! Based on this C intrinsics implementation:
//! <https://github.com/noloader/AES-Intrinsics/blob/master/aes-arm.c>
//!
//! Original C written and placed in public domain by Jeffrey Walton.
//! Based on code from ARM, and by Johannes Schneiders, Skip Hovsmith and
//! Barry O'Rourke for the mbedTLS project.

#![allow(clippy::needless_range_loop)]

#[cfg(feature = "hazmat")]
pub(crate) mod hazmat;

mod encdec;
mod expand;
#[cfg(test)]
mod test_expand;

use cipher::{
    AlgorithmName, BlockCipherDecClosure, BlockCipherDecrypt, BlockCipherEncClosure,
    BlockCipherEncrypt, BlockSizeUser, Key, KeyInit, KeySizeUser,
    consts::{self, U16, U24, U32},
    crypto_common::WeakKeyError,
};
use core::fmt;

impl_backends!(
    enc_name = Aes128BackEnc,
    dec_name = Aes128BackDec,
    key_size = consts::U16,
    keys_ty = expand::Aes128RoundKeys,
    par_size = consts::U21,
    expand_keys = expand::expand_key,
    inv_keys = expand::inv_expanded_keys,
    encrypt = encdec::encrypt,
    encrypt_par = encdec::encrypt_par,
    decrypt = encdec::decrypt,
    decrypt_par = encdec::decrypt_par,
);

impl_backends!(
    enc_name = Aes192BackEnc,
    dec_name = Aes192BackDec,
    key_size = consts::U24,
    keys_ty = expand::Aes192RoundKeys,
    par_size = consts::U19,
    expand_keys = expand::expand_key,
    inv_keys = expand::inv_expanded_keys,
    encrypt = encdec::encrypt,
    encrypt_par = encdec::encrypt_par,
    decrypt = encdec::decrypt,
    decrypt_par = encdec::decrypt_par,
);

impl_backends!(
    enc_name = Aes256BackEnc,
    dec_name = Aes256BackDec,
    key_size = consts::U32,
    keys_ty = expand::Aes256RoundKeys,
    par_size = consts::U17,
    expand_keys = expand::expand_key,
    inv_keys = expand::inv_expanded_keys,
    encrypt = encdec::encrypt,
    encrypt_par = encdec::encrypt_par,
    decrypt = encdec::decrypt,
    decrypt_par = encdec::decrypt_par,
);

macro_rules! define_aes_impl {
    (
        $name:ident,
        $name_enc:ident,
        $name_dec:ident,
        $name_back_enc:ident,
        $name_back_dec:ident,
        $key_size:ty,
        $rounds:tt,
        $doc:expr $(,)?
    ) => {
        #[doc=$doc]
        #[doc = "block cipher"]
        #[derive(Clone)]
        pub struct $name {
            encrypt: $name_back_enc,
            decrypt: $name_back_dec,
        }

        impl $name {
            #[inline(always)]
            pub(crate) fn get_enc_backend(&self) -> &$name_back_enc {
                &self.encrypt
            }

            #[inline(always)]
            pub(crate) fn get_dec_backend(&self) -> &$name_back_dec {
                &self.decrypt
            }
        }

        impl KeySizeUser for $name {
            type KeySize = $key_size;
        }

        impl KeyInit for $name {
            #[inline]
            fn new(key: &Key<Self>) -> Self {
                let encrypt = $name_back_enc::new(key);
                let decrypt = $name_back_dec::from(encrypt.clone());
                Self { encrypt, decrypt }
            }

            #[inline]
            fn weak_key_test(key: &Key<Self>) -> Result<(), WeakKeyError> {
                crate::weak_key_test(&key.0)
            }
        }

        impl From<$name_enc> for $name {
            #[inline]
            fn from(encrypt: $name_enc) -> $name {
                let encrypt = encrypt.backend.clone();
                let decrypt = encrypt.clone().into();
                Self { encrypt, decrypt }
            }
        }

        impl From<&$name_enc> for $name {
            #[inline]
            fn from(encrypt: &$name_enc) -> $name {
                let encrypt = encrypt.backend.clone();
                let decrypt = encrypt.clone().into();
                Self { encrypt, decrypt }
            }
        }

        impl BlockSizeUser for $name {
            type BlockSize = U16;
        }

        impl BlockCipherEncrypt for $name {
            fn encrypt_with_backend(&self, f: impl BlockCipherEncClosure<BlockSize = U16>) {
                f.call(&self.encrypt)
            }
        }

        impl BlockCipherDecrypt for $name {
            fn decrypt_with_backend(&self, f: impl BlockCipherDecClosure<BlockSize = U16>) {
                f.call(&self.decrypt)
            }
        }

        impl fmt::Debug for $name {
            fn fmt(&self, f: &mut fmt::Formatter<'_>) -> Result<(), fmt::Error> {
                f.write_str(concat!(stringify!($name), " { .. }"))
            }
        }

        impl AlgorithmName for $name {
            fn write_alg_name(f: &mut fmt::Formatter<'_>) -> fmt::Result {
                f.write_str(stringify!($name))
            }
        }

        impl Drop for $name {
            #[inline]
            fn drop(&mut self) {
                #[cfg(feature = "zeroize")]
                unsafe {
                    zeroize::zeroize_flat_type(self);
                }
            }
        }

        #[cfg(feature = "zeroize")]
        impl zeroize::ZeroizeOnDrop for $name {}

        #[doc=$doc]
        #[doc = "block cipher (encrypt-only)"]
        #[derive(Clone)]
        pub struct $name_enc {
            backend: $name_back_enc,
        }

        impl $name_enc {
            #[inline(always)]
            pub(crate) fn get_enc_backend(&self) -> &$name_back_enc {
                &self.backend
            }
        }

        impl KeySizeUser for $name_enc {
            type KeySize = $key_size;
        }

        impl KeyInit for $name_enc {
            #[inline]
            fn new(key: &Key<Self>) -> Self {
                let backend = $name_back_enc::new(key);
                Self { backend }
            }

            #[inline]
            fn weak_key_test(key: &Key<Self>) -> Result<(), WeakKeyError> {
                crate::weak_key_test(&key.0)
            }
        }

        impl BlockSizeUser for $name_enc {
            type BlockSize = U16;
        }

        impl BlockCipherEncrypt for $name_enc {
            fn encrypt_with_backend(&self, f: impl BlockCipherEncClosure<BlockSize = U16>) {
                f.call(&self.backend)
            }
        }

        impl fmt::Debug for $name_enc {
            fn fmt(&self, f: &mut fmt::Formatter<'_>) -> Result<(), fmt::Error> {
                f.write_str(concat!(stringify!($name_enc), " { .. }"))
            }
        }

        impl AlgorithmName for $name_enc {
            fn write_alg_name(f: &mut fmt::Formatter<'_>) -> fmt::Result {
                f.write_str(stringify!($name_enc))
            }
        }

        impl Drop for $name_enc {
            #[inline]
            fn drop(&mut self) {
                #[cfg(feature = "zeroize")]
                unsafe {
                    zeroize::zeroize_flat_type(self);
                }
            }
        }

        #[cfg(feature = "zeroize")]
        impl zeroize::ZeroizeOnDrop for $name_enc {}

        #[doc=$doc]
        #[doc = "block cipher (decrypt-only)"]
        #[derive(Clone)]
        pub struct $name_dec {
            backend: $name_back_dec,
        }

        impl $name_dec {
            #[inline(always)]
            pub(crate) fn get_dec_backend(&self) -> &$name_back_dec {
                &self.backend
            }
        }

        impl KeySizeUser for $name_dec {
            type KeySize = $key_size;
        }

        impl KeyInit for $name_dec {
            #[inline]
            fn new(key: &Key<Self>) -> Self {
                let encrypt = $name_back_enc::new(key);
                let backend = encrypt.clone().into();
                Self { backend }
            }

            #[inline]
            fn weak_key_test(key: &Key<Self>) -> Result<(), WeakKeyError> {
                crate::weak_key_test(&key.0)
            }
        }

        impl From<$name_enc> for $name_dec {
            #[inline]
            fn from(enc: $name_enc) -> $name_dec {
                Self::from(&enc)
            }
        }

        impl From<&$name_enc> for $name_dec {
            fn from(encrypt: &$name_enc) -> $name_dec {
                let backend = encrypt.backend.clone().into();
                Self { backend }
            }
        }

        impl BlockSizeUser for $name_dec {
            type BlockSize = U16;
        }

        impl BlockCipherDecrypt for $name_dec {
            fn decrypt_with_backend(&self, f: impl BlockCipherDecClosure<BlockSize = U16>) {
                f.call(&self.backend);
            }
        }

        impl fmt::Debug for $name_dec {
            fn fmt(&self, f: &mut fmt::Formatter<'_>) -> Result<(), fmt::Error> {
                f.write_str(concat!(stringify!($name_dec), " { .. }"))
            }
        }

        impl AlgorithmName for $name_dec {
            fn write_alg_name(f: &mut fmt::Formatter<'_>) -> fmt::Result {
                f.write_str(stringify!($name_dec))
            }
        }

        impl Drop for $name_dec {
            #[inline]
            fn drop(&mut self) {
                #[cfg(feature = "zeroize")]
                unsafe {
                    zeroize::zeroize_flat_type(self);
                }
            }
        }

        #[cfg(feature = "zeroize")]
        impl zeroize::ZeroizeOnDrop for $name_dec {}
    };
}

define_aes_impl!(
    Aes128,
    Aes128Enc,
    Aes128Dec,
    Aes128BackEnc,
    Aes128BackDec,
    U16,
    11,
    "AES-128",
);
define_aes_impl!(
    Aes192,
    Aes192Enc,
    Aes192Dec,
    Aes192BackEnc,
    Aes192BackDec,
    U24,
    13,
    "AES-192",
);
define_aes_impl!(
    Aes256,
    Aes256Enc,
    Aes256Dec,
    Aes256BackEnc,
    Aes256BackDec,
    U32,
    15,
    "AES-256",
);
