//! Low-level "hazmat" AES functions: ARMv8 Cryptography Extensions support.
//!
//! Note: this isn't actually used in the `Aes128`/`Aes192`/`Aes256`
//! implementations in this crate, but instead provides raw AES-NI accelerated
//! access to the AES round function gated under the `hazmat` crate feature.
#![allow(unsafe_op_in_unsafe_fn)]

use crate::hazmat::{Block, Block8};
use core::arch::aarch64::*;

/// AES cipher (encrypt) round function.
#[allow(clippy::cast_ptr_alignment)]
#[target_feature(enable = "aes")]
pub(crate) unsafe fn cipher_round(block: &mut Block, round_key: &Block) {
    let b = vld1q_u8(block.as_ptr());
    let k = vld1q_u8(round_key.as_ptr());

    // AES single round encryption (all-zero round key, deferred until the end)
    let mut state = vaeseq_u8(b, vdupq_n_u8(0));

    // AES mix columns (the `vaeseq_u8` instruction otherwise omits this step)
    state = vaesmcq_u8(state);

    // AES add round key (bitwise XOR)
    state = veorq_u8(state, k);

    vst1q_u8(block.as_mut_ptr(), state);
}

/// AES cipher (encrypt) round function: parallel version.
#[allow(clippy::cast_ptr_alignment)]
#[target_feature(enable = "aes")]
pub(crate) unsafe fn cipher_round_par(blocks: &mut Block8, round_keys: &Block8) {
    for i in 0..8 {
        let mut state = vld1q_u8(blocks[i].as_ptr());

        // AES single round encryption
        state = vaeseq_u8(state, vdupq_n_u8(0));

        // AES mix columns
        state = vaesmcq_u8(state);

        // AES add round key (bitwise XOR)
        state = veorq_u8(state, vld1q_u8(round_keys[i].as_ptr()));

        vst1q_u8(blocks[i].as_mut_ptr(), state);
    }
}

/// AES equivalent inverse cipher (decrypt) round function.
#[allow(clippy::cast_ptr_alignment)]
#[target_feature(enable = "aes")]
pub(crate) unsafe fn equiv_inv_cipher_round(block: &mut Block, round_key: &Block) {
    let b = vld1q_u8(block.as_ptr());
    let k = vld1q_u8(round_key.as_ptr());

    // AES single round decryption (all-zero round key, deferred until the end)
    let mut state = vaesdq_u8(b, vdupq_n_u8(0));

    // AES inverse mix columns (the `vaesdq_u8` instruction otherwise omits this step)
    state = vaesimcq_u8(state);

    // AES add round key (bitwise XOR)
    state = veorq_u8(state, k);

    vst1q_u8(block.as_mut_ptr(), state);
}

/// AES equivalent inverse cipher (decrypt) round function: parallel version.
#[allow(clippy::cast_ptr_alignment)]
#[target_feature(enable = "aes")]
pub(crate) unsafe fn equiv_inv_cipher_round_par(blocks: &mut Block8, round_keys: &Block8) {
    for i in 0..8 {
        let mut state = vld1q_u8(blocks[i].as_ptr());

        // AES single round decryption (all-zero round key, deferred until the end)
        state = vaesdq_u8(state, vdupq_n_u8(0));

        // AES inverse mix columns (the `vaesdq_u8` instruction otherwise omits this step)
        state = vaesimcq_u8(state);

        // AES add round key (bitwise XOR)
        state = veorq_u8(state, vld1q_u8(round_keys[i].as_ptr()));

        vst1q_u8(blocks[i].as_mut_ptr(), state);
    }
}

/// AES mix columns function.
#[allow(clippy::cast_ptr_alignment)]
#[target_feature(enable = "aes")]
pub(crate) unsafe fn mix_columns(block: &mut Block) {
    let b = vld1q_u8(block.as_ptr());
    let out = vaesmcq_u8(b);
    vst1q_u8(block.as_mut_ptr(), out);
}

/// AES inverse mix columns function.
#[allow(clippy::cast_ptr_alignment)]
#[target_feature(enable = "aes")]
pub(crate) unsafe fn inv_mix_columns(block: &mut Block) {
    let b = vld1q_u8(block.as_ptr());
    let out = vaesimcq_u8(b);
    vst1q_u8(block.as_mut_ptr(), out);
}
