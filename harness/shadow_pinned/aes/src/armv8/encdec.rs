//! AES encryption support
//!
//! Note that `aes` target feature implicitly enables `neon`, see:
//! https://doc.rust-lang.org/reference/attributes/codegen.html#aarch64
#![allow(unsafe_op_in_unsafe_fn)]

use crate::Block;
use cipher::{
    array::{Array, ArraySize},
    inout::InOut,
};
use core::{arch::aarch64::*, mem};

/// Perform AES encryption using the given expanded keys.
#[target_feature(enable = "aes")]
pub(super) unsafe fn encrypt<const KEYS: usize>(
    keys: &[uint8x16_t; KEYS],
    block: InOut<'_, '_, Block>,
) {
    assert!(KEYS == 11 || KEYS == 13 || KEYS == 15);
    let (in_ptr, out_ptr) = block.into_raw();
    let mut block = vld1q_u8(in_ptr.cast());

    for &key in &keys[..KEYS - 2] {
        // AES single round encryption
        block = vaeseq_u8(block, key);
        // Mix columns
        block = vaesmcq_u8(block);
    }

    // AES single round encryption
    block = vaeseq_u8(block, keys[KEYS - 2]);
    // Final add (bitwise XOR)
    block = veorq_u8(block, keys[KEYS - 1]);

    vst1q_u8(out_ptr.cast(), block);
}

/// Perform AES decryption using the given expanded keys.
#[target_feature(enable = "aes")]
pub(super) unsafe fn decrypt<const KEYS: usize>(
    keys: &[uint8x16_t; KEYS],
    block: InOut<'_, '_, Block>,
) {
    assert!(KEYS == 11 || KEYS == 13 || KEYS == 15);

    let (in_ptr, out_ptr) = block.into_raw();
    let mut block = vld1q_u8(in_ptr.cast());

    for &key in &keys[..KEYS - 2] {
        // AES single round decryption
        block = vaesdq_u8(block, key);
        // Inverse mix columns
        block = vaesimcq_u8(block);
    }

    // AES single round decryption
    block = vaesdq_u8(block, keys[KEYS - 2]);
    // Final add (bitwise XOR)
    block = veorq_u8(block, keys[KEYS - 1]);

    vst1q_u8(out_ptr.cast(), block);
}

/// Perform parallel AES encryption 8-blocks-at-a-time using the given expanded keys.
#[target_feature(enable = "aes")]
pub(super) unsafe fn encrypt_par<const KEYS: usize, ParBlocks: ArraySize>(
    keys: &[uint8x16_t; KEYS],
    blocks: InOut<'_, '_, Array<Block, ParBlocks>>,
) {
    #[inline(always)]
    unsafe fn par_round<ParBlocks: ArraySize>(
        key: uint8x16_t,
        blocks: &mut Array<uint8x16_t, ParBlocks>,
    ) {
        for block in blocks {
            // AES single round encryption and mix columns
            *block = vaesmcq_u8(vaeseq_u8(*block, key));
        }
    }

    assert!(KEYS == 11 || KEYS == 13 || KEYS == 15);

    let (in_ptr, out_ptr) = blocks.into_raw();
    let in_ptr: *const Block = in_ptr.cast();
    let out_ptr: *mut Block = out_ptr.cast();

    // Load plaintext blocks
    let mut blocks: Array<uint8x16_t, ParBlocks> = mem::zeroed();
    for i in 0..ParBlocks::USIZE {
        blocks[i] = vld1q_u8(in_ptr.add(i).cast());
    }

    // Loop is intentionally not used here to enforce inlining
    par_round(keys[0], &mut blocks);
    par_round(keys[1], &mut blocks);
    par_round(keys[2], &mut blocks);
    par_round(keys[3], &mut blocks);
    par_round(keys[4], &mut blocks);
    par_round(keys[5], &mut blocks);
    par_round(keys[6], &mut blocks);
    par_round(keys[7], &mut blocks);
    par_round(keys[8], &mut blocks);
    if KEYS >= 13 {
        par_round(keys[9], &mut blocks);
        par_round(keys[10], &mut blocks);
    }
    if KEYS == 15 {
        par_round(keys[11], &mut blocks);
        par_round(keys[12], &mut blocks);
    }

    for i in 0..ParBlocks::USIZE {
        // AES single round encryption
        blocks[i] = vaeseq_u8(blocks[i], keys[KEYS - 2]);
        // Final add (bitwise XOR)
        blocks[i] = veorq_u8(blocks[i], keys[KEYS - 1]);
        // Save encrypted blocks
        vst1q_u8(out_ptr.add(i).cast(), blocks[i]);
    }
}

/// Perform parallel AES decryption 8-blocks-at-a-time using the given expanded keys.
#[target_feature(enable = "aes")]
pub(super) unsafe fn decrypt_par<const KEYS: usize, ParBlocks: ArraySize>(
    keys: &[uint8x16_t; KEYS],
    blocks: InOut<'_, '_, Array<Block, ParBlocks>>,
) {
    #[inline(always)]
    unsafe fn par_round<ParBlocks: ArraySize>(
        key: uint8x16_t,
        blocks: &mut Array<uint8x16_t, ParBlocks>,
    ) {
        for block in blocks {
            // AES single round decryption and inverse mix columns
            *block = vaesimcq_u8(vaesdq_u8(*block, key));
        }
    }

    assert!(KEYS == 11 || KEYS == 13 || KEYS == 15);

    let (in_ptr, out_ptr) = blocks.into_raw();
    let in_ptr: *const Block = in_ptr.cast();
    let out_ptr: *mut Block = out_ptr.cast();

    // Load encrypted blocks
    let mut blocks: Array<uint8x16_t, ParBlocks> = mem::zeroed();
    for i in 0..ParBlocks::USIZE {
        blocks[i] = vld1q_u8(in_ptr.add(i).cast());
    }

    // Loop is intentionally not used here to enforce inlining
    par_round(keys[0], &mut blocks);
    par_round(keys[1], &mut blocks);
    par_round(keys[2], &mut blocks);
    par_round(keys[3], &mut blocks);
    par_round(keys[4], &mut blocks);
    par_round(keys[5], &mut blocks);
    par_round(keys[6], &mut blocks);
    par_round(keys[7], &mut blocks);
    par_round(keys[8], &mut blocks);
    if KEYS >= 13 {
        par_round(keys[9], &mut blocks);
        par_round(keys[10], &mut blocks);
    }
    if KEYS == 15 {
        par_round(keys[11], &mut blocks);
        par_round(keys[12], &mut blocks);
    }

    for i in 0..ParBlocks::USIZE {
        // AES single round decryption
        blocks[i] = vaesdq_u8(blocks[i], keys[KEYS - 2]);
        // Final add (bitwise XOR)
        blocks[i] = veorq_u8(blocks[i], keys[KEYS - 1]);
        // Save plaintext blocks
        vst1q_u8(out_ptr.add(i) as *mut u8, blocks[i]);
    }
}
