//! AES key expansion support.
#![allow(unsafe_op_in_unsafe_fn)]

use core::{arch::aarch64::*, mem, slice};

pub(super) type Aes128RoundKeys = [uint8x16_t; 11];
pub(super) type Aes192RoundKeys = [uint8x16_t; 13];
pub(super) type Aes256RoundKeys = [uint8x16_t; 15];

/// There are 4 AES words in a block.
const BLOCK_WORDS: usize = 4;

/// The AES (nee Rijndael) notion of a word is always 32-bits, or 4-bytes.
const WORD_SIZE: usize = 4;

/// AES round constants.
const ROUND_CONSTS: [u32; 10] = [0x01, 0x02, 0x04, 0x08, 0x10, 0x20, 0x40, 0x80, 0x1b, 0x36];

/// AES key expansion.
#[target_feature(enable = "aes")]
pub unsafe fn expand_key<const L: usize, const N: usize>(key: &[u8; L]) -> [uint8x16_t; N] {
    assert!((L == 16 && N == 11) || (L == 24 && N == 13) || (L == 32 && N == 15));

    let mut expanded_keys: [uint8x16_t; N] = mem::zeroed();

    // Sanity check, as this is required in order for the subsequent conversion to be sound.
    const _: () = assert!(mem::align_of::<uint8x16_t>() >= mem::align_of::<u32>());
    let keys_ptr: *mut u32 = expanded_keys.as_mut_ptr().cast();
    let columns = slice::from_raw_parts_mut(keys_ptr, N * BLOCK_WORDS);

    for (i, chunk) in key.chunks_exact(WORD_SIZE).enumerate() {
        columns[i] = u32::from_ne_bytes(chunk.try_into().unwrap());
    }

    // From "The Rijndael Block Cipher" Section 4.1:
    // > The number of columns of the Cipher Key is denoted by `Nk` and is
    // > equal to the key length divided by 32 [bits].
    let nk = L / WORD_SIZE;

    for i in nk..(N * BLOCK_WORDS) {
        let mut word = columns[i - 1];

        if i % nk == 0 {
            word = sub_word(word).rotate_right(8) ^ ROUND_CONSTS[i / nk - 1];
        } else if nk > 6 && i % nk == 4 {
            word = sub_word(word);
        }

        columns[i] = columns[i - nk] ^ word;
    }

    expanded_keys
}

/// Compute inverse expanded keys (for decryption).
///
/// This is the reverse of the encryption keys, with the Inverse Mix Columns
/// operation applied to all but the first and last expanded key.
#[target_feature(enable = "aes")]
pub(super) unsafe fn inv_expanded_keys<const N: usize>(keys: &[uint8x16_t; N]) -> [uint8x16_t; N] {
    assert!(N == 11 || N == 13 || N == 15);

    let mut inv_keys: [uint8x16_t; N] = core::mem::zeroed();
    inv_keys[0] = keys[N - 1];
    for i in 1..N - 1 {
        inv_keys[i] = vaesimcq_u8(keys[N - 1 - i]);
    }
    inv_keys[N - 1] = keys[0];

    inv_keys
}

/// Sub bytes for a single AES word: used for key expansion.
#[inline]
#[target_feature(enable = "aes")]
unsafe fn sub_word(input: u32) -> u32 {
    let input = vreinterpretq_u8_u32(vdupq_n_u32(input));

    // AES single round encryption (with a "round" key of all zeros)
    let sub_input = vaeseq_u8(input, vdupq_n_u8(0));

    vgetq_lane_u32(vreinterpretq_u32_u8(sub_input), 0)
}
