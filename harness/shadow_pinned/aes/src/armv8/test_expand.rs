use super::expand::{expand_key, inv_expanded_keys};
use core::arch::aarch64::*;
use hex_literal::hex;

/// FIPS 197, Appendix A.1: AES-128 Cipher Key
/// user input, unaligned buffer
const AES128_KEY: [u8; 16] = hex!("2b7e151628aed2a6abf7158809cf4f3c");

/// FIPS 197 Appendix A.1: Expansion of a 128-bit Cipher Key
/// library controlled, aligned buffer
const AES128_EXP_KEYS: [[u8; 16]; 11] = [
    AES128_KEY,
    hex!("a0fafe1788542cb123a339392a6c7605"),
    hex!("f2c295f27a96b9435935807a7359f67f"),
    hex!("3d80477d4716fe3e1e237e446d7a883b"),
    hex!("ef44a541a8525b7fb671253bdb0bad00"),
    hex!("d4d1c6f87c839d87caf2b8bc11f915bc"),
    hex!("6d88a37a110b3efddbf98641ca0093fd"),
    hex!("4e54f70e5f5fc9f384a64fb24ea6dc4f"),
    hex!("ead27321b58dbad2312bf5607f8d292f"),
    hex!("ac7766f319fadc2128d12941575c006e"),
    hex!("d014f9a8c9ee2589e13f0cc8b6630ca6"),
];

/// Inverse expanded keys for [`AES128_EXPANDED_KEYS`]
const AES128_EXP_INVKEYS: [[u8; 16]; 11] = [
    hex!("d014f9a8c9ee2589e13f0cc8b6630ca6"),
    hex!("0c7b5a631319eafeb0398890664cfbb4"),
    hex!("df7d925a1f62b09da320626ed6757324"),
    hex!("12c07647c01f22c7bc42d2f37555114a"),
    hex!("6efcd876d2df54807c5df034c917c3b9"),
    hex!("6ea30afcbc238cf6ae82a4b4b54a338d"),
    hex!("90884413d280860a12a128421bc89739"),
    hex!("7c1f13f74208c219c021ae480969bf7b"),
    hex!("cc7505eb3e17d1ee82296c51c9481133"),
    hex!("2b3708a7f262d405bc3ebdbf4b617d62"),
    AES128_KEY,
];

/// FIPS 197, Appendix A.2: AES-192 Cipher Key
/// user input, unaligned buffer
const AES192_KEY: [u8; 24] = hex!("8e73b0f7da0e6452c810f32b809079e562f8ead2522c6b7b");

/// FIPS 197 Appendix A.2: Expansion of a 192-bit Cipher Key
/// library controlled, aligned buffer
const AES192_EXP_KEYS: [[u8; 16]; 13] = [
    hex!("8e73b0f7da0e6452c810f32b809079e5"),
    hex!("62f8ead2522c6b7bfe0c91f72402f5a5"),
    hex!("ec12068e6c827f6b0e7a95b95c56fec2"),
    hex!("4db7b4bd69b5411885a74796e92538fd"),
    hex!("e75fad44bb095386485af05721efb14f"),
    hex!("a448f6d94d6dce24aa326360113b30e6"),
    hex!("a25e7ed583b1cf9a27f939436a94f767"),
    hex!("c0a69407d19da4e1ec1786eb6fa64971"),
    hex!("485f703222cb8755e26d135233f0b7b3"),
    hex!("40beeb282f18a2596747d26b458c553e"),
    hex!("a7e1466c9411f1df821f750aad07d753"),
    hex!("ca4005388fcc5006282d166abc3ce7b5"),
    hex!("e98ba06f448c773c8ecc720401002202"),
];

/// FIPS 197, Appendix A.3: AES-256 Cipher Key
/// user input, unaligned buffer
const AES256_KEY: [u8; 32] =
    hex!("603deb1015ca71be2b73aef0857d77811f352c073b6108d72d9810a30914dff4");

/// FIPS 197 Appendix A.3: Expansion of a 256-bit Cipher Key
/// library controlled, aligned buffer
const AES256_EXP_KEYS: [[u8; 16]; 15] = [
    hex!("603deb1015ca71be2b73aef0857d7781"),
    hex!("1f352c073b6108d72d9810a30914dff4"),
    hex!("9ba354118e6925afa51a8b5f2067fcde"),
    hex!("a8b09c1a93d194cdbe49846eb75d5b9a"),
    hex!("d59aecb85bf3c917fee94248de8ebe96"),
    hex!("b5a9328a2678a647983122292f6c79b3"),
    hex!("812c81addadf48ba24360af2fab8b464"),
    hex!("98c5bfc9bebd198e268c3ba709e04214"),
    hex!("68007bacb2df331696e939e46c518d80"),
    hex!("c814e20476a9fb8a5025c02d59c58239"),
    hex!("de1369676ccc5a71fa2563959674ee15"),
    hex!("5886ca5d2e2f31d77e0af1fa27cf73c3"),
    hex!("749c47ab18501ddae2757e4f7401905a"),
    hex!("cafaaae3e4d59b349adf6acebd10190d"),
    hex!("fe4890d1e6188d0b046df344706c631e"),
];

fn load_expanded_keys<const N: usize>(input: [[u8; 16]; N]) -> [uint8x16_t; N] {
    let mut output = [unsafe { vdupq_n_u8(0) }; N];

    for (src, dst) in input.iter().zip(output.iter_mut()) {
        *dst = unsafe { vld1q_u8(src.as_ptr()) }
    }

    output
}

fn store_expanded_keys<const N: usize>(input: [uint8x16_t; N]) -> [[u8; 16]; N] {
    let mut output = [[0u8; 16]; N];

    for (src, dst) in input.iter().zip(output.iter_mut()) {
        unsafe { vst1q_u8(dst.as_mut_ptr(), *src) }
    }

    output
}

#[test]
#[cfg_attr(
    not(target_feature = "aes"),
    ignore = "requires enabled `aes` target feature"
)]
fn aes128_key_expansion() {
    let ek = unsafe { expand_key(&AES128_KEY) };
    assert_eq!(store_expanded_keys(ek), AES128_EXP_KEYS);
}

#[test]
#[cfg_attr(
    not(target_feature = "aes"),
    ignore = "requires enabled `aes` target feature"
)]
fn aes128_key_expansion_inv() {
    let ek = load_expanded_keys(AES128_EXP_KEYS);
    let inv_ek = unsafe { inv_expanded_keys(&ek) };
    assert_eq!(store_expanded_keys(inv_ek), AES128_EXP_INVKEYS);
}

#[test]
#[cfg_attr(
    not(target_feature = "aes"),
    ignore = "requires enabled `aes` target feature"
)]
fn aes192_key_expansion() {
    let ek = unsafe { expand_key(&AES192_KEY) };
    assert_eq!(store_expanded_keys(ek), AES192_EXP_KEYS);
}

#[test]
#[cfg_attr(
    not(target_feature = "aes"),
    ignore = "requires enabled `aes` target feature"
)]
fn aes256_key_expansion() {
    let ek = unsafe { expand_key(&AES256_KEY) };
    assert_eq!(store_expanded_keys(ek), AES256_EXP_KEYS);
}
