//! Pre-computed mutliplication tables for coefficients of the linear transform

pub(crate) const GFT_16: [u8; 256] = mul_table_gf256(16);
pub(crate) const GFT_32: [u8; 256] = mul_table_gf256(32);
pub(crate) const GFT_133: [u8; 256] = mul_table_gf256(133);
pub(crate) const GFT_148: [u8; 256] = mul_table_gf256(148);
pub(crate) const GFT_192: [u8; 256] = mul_table_gf256(192);
pub(crate) const GFT_194: [u8; 256] = mul_table_gf256(194);
pub(crate) const GFT_251: [u8; 256] = mul_table_gf256(251);

const fn mul_gf256(mut a: u8, mut b: u8) -> u8 {
    let mut c = 0;
    while b != 0 {
        if b & 1 != 0 {
            c ^= a;
        }
        a = (a << 1) ^ if a & 0x80 != 0 { 0xC3 } else { 0x00 };
        b >>= 1;
    }
    c
}

const fn mul_table_gf256(a: u8) -> [u8; 256] {
    let mut table = [0u8; 256];
    let mut i = 0;
    while i < table.len() {
        table[i] = mul_gf256(a, i as u8);
        i += 1;
    }
    table
}
